(* Helpers — algebraic laws of the crate's small pure helper API (Model/Helpers.v).
   Only statements live here; proofs are in Proofs/HelpersProofs.v.  Checked as an extra
   obligation of C05 (vlib/helpers.py), which also ties Model/Helpers.v to the code by a
   differential run of every function below.

   Machine arithmetic: [f] is the wrapping (release-build) value, [f_ovf] says that a build with
   overflow checks (debug) panics in the call; see the head of Model/Helpers.v. *)
From PL Require Import Model.Helpers Spec.Hist Spec.StatsSpec Spec.Judges
  Proofs.OrderProofs Proofs.HelpersProofs.
Local Open Scope N_scope.

(* ---------------- Side::opposite ---------------- *)

Theorem H_opposite_involutive : forall s, opposite (opposite s) = s.
Proof. exact opposite_involutive. Qed.

Theorem H_opposite_no_fixpoint : forall s, opposite s <> s.
Proof. exact opposite_no_fixpoint. Qed.

(* ---------------- OrderId::from_u64 / nil / Default ---------------- *)

Theorem H_from_u64_zero_is_nil : oid_from_u64 0 = oid_nil.
Proof. exact oid_from_u64_zero. Qed.

Theorem H_from_u64_injective : forall a b, oid_from_u64 a = oid_from_u64 b -> a = b.
Proof. exact oid_from_u64_injective. Qed.

(* a UUID: upper eight bytes = the number, lower eight bytes = 0 *)
Theorem H_from_u64_bytes :
  forall a, a < W -> exists n, oid_from_u64 a = Uuid n /\ n < W * W /\ n / W = a /\ n mod W = 0.
Proof. exact oid_from_u64_bytes. Qed.

(* Default = a random ULID: never nil, never a from_u64 id *)
Theorem H_default_is_not_nil :
  forall k, oid_is_ulid k = true -> k <> oid_nil /\ forall a, k <> oid_from_u64 a.
Proof. exact oid_default_not_nil. Qed.

(* ---------------- TimeInForce ---------------- *)

Theorem H_tif_is_immediate : forall t, tif_is_immediate t = true <-> t = Ioc \/ t = Fok.
Proof. exact tif_is_immediate_iff. Qed.

Theorem H_tif_has_expiry : forall t, tif_has_expiry t = true <-> (exists e, t = Gtd e) \/ t = Day.
Proof. exact tif_has_expiry_iff. Qed.

(* is_expired, variant by variant: GTD from its expiry instant on (>=), DAY from the market close
   on when one is given and never otherwise, GTC / IOC / FOK never *)
Theorem H_tif_is_expired :
  (forall e now close, tif_is_expired (Gtd e) now close = true <-> e <= now) /\
  (forall c now, tif_is_expired Day now (Some c) = true <-> c <= now) /\
  (forall now, tif_is_expired Day now None = false) /\
  (forall t now close, tif_has_expiry t = false -> tif_is_expired t now close = false).
Proof.
  exact (conj tif_is_expired_gtd (conj tif_is_expired_day_some
          (conj tif_is_expired_day_none tif_is_expired_other))).
Qed.

Theorem H_tif_is_expired_mono :
  forall t now now' close,
    now <= now' -> tif_is_expired t now close = true -> tif_is_expired t now' close = true.
Proof. exact tif_is_expired_mono. Qed.

Theorem H_tif_expired_needs_expiry :
  forall t now close,
    tif_is_expired t now close = true -> tif_has_expiry t = true /\ tif_is_immediate t = false.
Proof. exact tif_is_expired_has_expiry. Qed.

(* ---------------- OrderType predicates ---------------- *)

Theorem H_order_is_immediate :
  forall o, order_is_immediate o = true <-> tif_of o = Ioc \/ tif_of o = Fok.
Proof. exact order_is_immediate_iff. Qed.

Theorem H_order_is_fill_or_kill :
  forall o, (order_is_fill_or_kill o = true <-> tif_of o = Fok) /\
            (order_is_fill_or_kill o = true -> order_is_immediate o = true).
Proof. intros o. exact (conj (order_is_fill_or_kill_iff o) (order_fok_is_immediate o)). Qed.

Theorem H_order_is_post_only :
  forall o, order_is_post_only o = true <-> exists c q, o = PostOnly c q.
Proof. exact order_is_post_only_iff. Qed.

(* ---------------- OrderType::with_reduced_quantity ---------------- *)

(* which variants listen *)
Theorem H_wrq_applies :
  forall o, wrq_applies o = true <->
    (exists c q, o = Standard c q) \/ (exists c v h, o = Iceberg c v h) \/ (exists c q, o = PostOnly c q).
Proof. exact wrq_applies_iff. Qed.

(* only the display changes ... *)
Theorem H_wrq_accessors :
  forall o q,
    let o' := with_reduced_quantity o q in
    oid_of o' = oid_of o /\ price_of o' = price_of o /\ side_of o' = side_of o /\
    ts_of o' = ts_of o /\ tif_of o' = tif_of o /\ hid o' = hid o /\
    order_is_post_only o' = order_is_post_only o /\ wrq_applies o' = wrq_applies o /\
    same_identity o o'.
Proof. exact wrq_accessors. Qed.

(* ... and only for Standard / Iceberg / PostOnly; TrailingStop, Pegged, MarketToLimit and
   Reserve are returned UNCHANGED whatever quantity is asked for *)
Theorem H_wrq_display :
  forall o q,
    (wrq_applies o = true -> vis (with_reduced_quantity o q) = q) /\
    (wrq_applies o = false -> with_reduced_quantity o q = o).
Proof. intros o q. exact (conj (wrq_display o q) (wrq_ignored o q)). Qed.

Theorem H_wrq_idempotent :
  forall o q q', with_reduced_quantity (with_reduced_quantity o q) q' = with_reduced_quantity o q'.
Proof. exact wrq_idempotent. Qed.

(* ---------------- OrderType::refresh_iceberg ---------------- *)

Theorem H_refresh_iceberg :
  forall o amt,
    let o' := fst (refresh_iceberg o amt) in
    let used := snd (refresh_iceberg o amt) in
    used = (if refreshable o then N.min (hid o) amt else 0) /\
    hid o' + used = hid o /\
    (refreshable o = true -> vis o' = amt) /\
    (refreshable o = false -> o' = o) /\
    same_identity o o' /\
    oid_of o' = oid_of o /\ price_of o' = price_of o /\ side_of o' = side_of o /\
    ts_of o' = ts_of o /\ tif_of o' = tif_of o.
Proof. exact refresh_iceberg_spec. Qed.

(* displayed + hidden afterwards = max(hidden before, requested) *)
Theorem H_refresh_iceberg_total :
  forall o amt, refreshable o = true ->
    let o' := fst (refresh_iceberg o amt) in vis o' + hid o' = N.max (hid o) amt.
Proof. exact refresh_iceberg_total. Qed.

(* conserved in the intended use (display exhausted, request within the hidden part) ... *)
Theorem H_refresh_iceberg_conserves :
  forall o amt, vis o = 0 -> amt <= hid o ->
    let o' := fst (refresh_iceberg o amt) in vis o' + hid o' = vis o + hid o.
Proof. exact refresh_iceberg_conserves. Qed.

(* ... but NOT in general: the target statement
     forall o amt, vis o' + hid o' = vis o + hid o
   is false of the code — a remaining display is dropped, and a request above the hidden part
   displays quantity that does not exist. *)
Theorem H_refresh_iceberg_conservation_refuted :
  (exists o amt, wf_order o /\ amt < W /\
     vis (fst (refresh_iceberg o amt)) + hid (fst (refresh_iceberg o amt)) < vis o + hid o) /\
  (exists o amt, wf_order o /\ amt < W /\
     vis o + hid o < vis (fst (refresh_iceberg o amt)) + hid (fst (refresh_iceberg o amt))).
Proof. exact refresh_iceberg_conservation_refuted. Qed.

Theorem H_refresh_iceberg_bounded :
  forall o amt, hid o < W -> amt < W ->
    let o' := fst (refresh_iceberg o amt) in
    snd (refresh_iceberg o amt) < W /\ hid o' < W /\ (refreshable o = true -> vis o' < W).
Proof. exact refresh_iceberg_bounded. Qed.

(* ---------------- Transaction ---------------- *)

Theorem H_maker_side :
  forall t, tx_maker_side t = opposite (tx_side t) /\ tx_maker_side t <> tx_side t.
Proof. intros t. exact (conj (tx_maker_side_opposite t) (tx_maker_side_not_taker t)). Qed.

Theorem H_total_value :
  forall t,
    tx_total_value t = (tx_price t * tx_qty t) mod W /\
    (tx_total_value_ovf t = true <-> W <= tx_price t * tx_qty t) /\
    (tx_price t * tx_qty t < W ->
       tx_total_value t = tx_price t * tx_qty t /\ tx_total_value_ovf t = false).
Proof.
  intros t. exact (conj (tx_total_value_mod t) (conj (tx_total_value_ovf_iff t) (tx_total_value_small t))).
Qed.

(* ---------------- MatchResult ---------------- *)

(* executed_quantity = sum of the quantities, executed_value = sum of price * quantity
   ([sum_txq], [sum_txval]: Spec/StatsSpec.v, Spec/Judges.v), modulo 2^64 ... *)
Theorem H_executed_sums_mod :
  forall r,
    executed_quantity_w r = sum_txq (r_txs r) mod W /\
    (executed_quantity_ovf r = true <-> W <= sum_txq (r_txs r)) /\
    executed_value r = sum_txval (r_txs r) mod W /\
    (executed_value_ovf r = true <-> W <= sum_txval (r_txs r)).
Proof.
  intros r. destruct (executed_quantity_w_sum r) as [H1 H2]. destruct (executed_value_sum r) as [H3 H4].
  exact (conj H1 (conj H2 (conj H3 H4))).
Qed.

(* ... and exactly when the sums fit *)
Theorem H_executed_quantity :
  forall r, sum_txq (r_txs r) < W ->
    executed_quantity_w r = sum_txq (r_txs r) /\ executed_quantity_ovf r = false.
Proof. exact executed_quantity_w_small. Qed.

Theorem H_executed_value :
  forall r, sum_txval (r_txs r) < W ->
    executed_value r = sum_txval (r_txs r) /\ executed_value_ovf r = false.
Proof. exact executed_value_small. Qed.

(* wrapping each product first (Transaction::total_value) loses nothing *)
Theorem H_executed_value_total_values :
  forall r, executed_value r = fold_right (fun t a => wadd (tx_total_value t) a) 0 (r_txs r) mod W.
Proof. exact executed_value_total_values. Qed.

(* a result produced by the level's match_order: every transaction at the level's price, so
   executed_value = executed_quantity * price — for any per-order matching function *)
Theorem H_match_order_executed_value :
  forall mf fuel l g qty taker l' g' r,
    match_order mf fuel l g qty taker = Some (l', g', r) ->
    Forall (fun t => tx_price t = price l) (r_txs r) /\
    executed_value_raw r = executed_quantity r * price l /\
    executed_value r = (executed_quantity r * price l) mod W.
Proof.
  intros mf fuel l g qty taker l' g' r H.
  exact (conj (match_order_tx_price _ _ _ _ _ _ _ _ _ H) (match_order_executed_value _ _ _ _ _ _ _ _ _ H)).
Qed.

(* machine values: a request with qty * price < 2^64 never overflows, in either build *)
Theorem H_match_order_executed_value_exact :
  forall mf, I_cons mf ->
  forall fuel l g qty taker l' g' r,
    match_order mf fuel l g qty taker = Some (l', g', r) ->
    qty < W -> qty * price l < W ->
    executed_quantity_ovf r = false /\ executed_value_ovf r = false /\
    executed_quantity_w r = executed_quantity r /\
    executed_value r = executed_quantity_w r * price l /\
    executed_quantity_w r + r_remaining r = qty.
Proof. exact match_order_executed_value_exact. Qed.

Corollary H_match_order_executed_value_match_against :
  forall fuel l g qty taker l' g' r,
    match_order match_against fuel l g qty taker = Some (l', g', r) ->
    qty < W -> qty * price l < W ->
    executed_quantity_ovf r = false /\ executed_value_ovf r = false /\
    executed_quantity_w r = executed_quantity r /\
    executed_value r = executed_quantity_w r * price l /\
    executed_quantity_w r + r_remaining r = qty.
Proof. exact (match_order_executed_value_exact match_against match_against_I_cons). Qed.

Theorem H_add_filled_order_id :
  forall r k,
    r_filled (add_filled r k) = r_filled r ++ [k] /\
    r_taker (add_filled r k) = r_taker r /\ r_txs (add_filled r k) = r_txs r /\
    r_remaining (add_filled r k) = r_remaining r /\ r_complete (add_filled r k) = r_complete r /\
    executed_quantity (add_filled r k) = executed_quantity r /\
    executed_value_raw (add_filled r k) = executed_value_raw r.
Proof. exact add_filled_spec. Qed.

(* ---------------- TransactionList ---------------- *)

Theorem H_transaction_list :
  (forall v, txl_into_vec (txl_from_vec v) = v) /\
  (forall v, txl_len (txl_from_vec v) = N.of_nat (length v)) /\
  (forall l, txl_is_empty l = true <-> txl_len l = 0) /\
  (forall l, txl_is_empty l = true <-> l = []).
Proof. exact (conj txl_roundtrip (conj txl_len_from_vec (conj txl_is_empty_iff txl_is_empty_nil))). Qed.

(* ---------------- PriceLevel: == and the order are those of the price ---------------- *)

Theorem H_level_order_is_price_order :
  forall a b,
    (level_eqb a b = true <-> price a = price b) /\
    (level_leb a b = true <-> price a <= price b) /\
    (level_ltb a b = true <-> price a < price b) /\
    (level_cmp a b = Lt <-> price a < price b) /\
    (level_cmp a b = Eq <-> price a = price b) /\
    (level_cmp a b = Gt <-> price b < price a).
Proof.
  intros a b. exact (conj (level_eqb_price a b) (conj (level_leb_price a b) (conj (level_ltb_price a b)
                     (level_cmp_price a b)))).
Qed.

(* a total preorder whose equivalence is the implemented == *)
Theorem H_level_total_preorder :
  (forall a, level_leb a a = true) /\
  (forall a b c, level_leb a b = true -> level_leb b c = true -> level_leb a c = true) /\
  (forall a b, level_leb a b = true \/ level_leb b a = true) /\
  (forall a b, level_leb a b = true /\ level_leb b a = true <-> level_eqb a b = true) /\
  (forall a b, level_cmp a b = Eq <-> level_eqb a b = true) /\
  (forall a b, level_cmp b a = CompOpp (level_cmp a b)) /\
  (forall a b, level_ltb a b = true <-> level_leb a b = true /\ level_eqb a b = false).
Proof.
  exact (conj level_leb_refl (conj level_leb_trans (conj level_leb_total (conj level_leb_antisym
          (conj level_cmp_eq (conj level_cmp_antisym level_ltb_leb)))))).
Qed.

Theorem H_level_eq_is_equivalence :
  (forall a, level_eqb a a = true) /\
  (forall a b, level_eqb a b = level_eqb b a) /\
  (forall a b c, level_eqb a b = true -> level_eqb b c = true -> level_eqb a c = true).
Proof. exact level_eqb_equiv. Qed.

(* ... which is NOT identity: "antisymmetric up to ==" only.  Two levels at one price with
   different orders and different quantities compare equal. *)
Theorem H_level_eq_not_structural :
  exists a b, level_eqb a b = true /\ level_cmp a b = Eq /\ a <> b /\ lq a <> lq b /\ cvis a <> cvis b.
Proof. exact level_eqb_not_structural. Qed.

Theorem H_level_total_quantity :
  forall l,
    level_total_quantity_w l = total_quantity l mod W /\
    (level_total_quantity_ovf l = true <-> W <= total_quantity l) /\
    (cvis l + chid l < W ->
       level_total_quantity_w l = total_quantity l /\ level_total_quantity_ovf l = false).
Proof.
  intros l. destruct (level_total_quantity_w_spec l) as [H1 H2].
  exact (conj H1 (conj H2 (level_total_quantity_w_small l))).
Qed.

(* ---------------- OrderBookEntry: the same, through its level; the index is ignored ------- *)

Theorem H_entry_order :
  (forall a b, entry_eqb a b = level_eqb (e_level a) (e_level b)) /\
  (forall a b, entry_cmp a b = level_cmp (e_level a) (e_level b)) /\
  (forall a b, entry_eqb a b = true <-> price (e_level a) = price (e_level b)) /\
  (forall l i j, entry_eqb (mkEntry l i) (mkEntry l j) = true).
Proof. exact (conj entry_eqb_level (conj entry_cmp_level (conj entry_eqb_price entry_eqb_ignores_index))). Qed.

Theorem H_entry_total_preorder :
  (forall a, entry_leb a a = true) /\
  (forall a b c, entry_leb a b = true -> entry_leb b c = true -> entry_leb a c = true) /\
  (forall a b, entry_leb a b = true \/ entry_leb b a = true) /\
  (forall a b, entry_leb a b = true /\ entry_leb b a = true <-> entry_eqb a b = true) /\
  (forall a b, entry_cmp a b = Eq <-> entry_eqb a b = true) /\
  (forall a b, entry_cmp b a = CompOpp (entry_cmp a b)).
Proof. exact entry_order. Qed.

Theorem H_entry_accessors :
  forall e,
    entry_price e = price (e_level e) /\ entry_visible_quantity e = cvis (e_level e) /\
    entry_total_quantity_w e = level_total_quantity_w (e_level e) /\
    entry_order_count e = ccnt (e_level e).
Proof. exact entry_accessors. Qed.

(* ---------------- PriceLevelStatistics ---------------- *)

Theorem H_stats_reset :
  forall s, s_added (stats_reset s) = 0 /\ s_removed (stats_reset s) = 0 /\
            s_executed (stats_reset s) = 0 /\ s_qty (stats_reset s) = 0 /\ s_value (stats_reset s) = 0.
Proof. exact stats_reset_zero. Qed.

Theorem H_record_order_added :
  forall s, s_added (record_added s) = (s_added s + 1) mod W /\
            s_removed (record_added s) = s_removed s /\ s_executed (record_added s) = s_executed s /\
            s_qty (record_added s) = s_qty s /\ s_value (record_added s) = s_value s.
Proof. exact record_added_spec. Qed.

Theorem H_record_order_removed :
  forall s, s_removed (record_removed s) = (s_removed s + 1) mod W /\
            s_added (record_removed s) = s_added s /\ s_executed (record_removed s) = s_executed s /\
            s_qty (record_removed s) = s_qty s /\ s_value (record_removed s) = s_value s.
Proof. exact record_removed_spec. Qed.

Theorem H_record_execution :
  forall s q p,
    s_executed (record_execution s q p) = (s_executed s + 1) mod W /\
    s_qty (record_execution s q p) = (s_qty s + q) mod W /\
    s_value (record_execution s q p) = (s_value s + q * p) mod W /\
    s_added (record_execution s q p) = s_added s /\ s_removed (record_execution s q p) = s_removed s.
Proof. exact record_execution_spec. Qed.

Theorem H_record_exact :
  forall s q p,
    s_added s + 1 < W -> s_removed s + 1 < W -> s_executed s + 1 < W ->
    s_qty s + q < W -> s_value s + q * p < W ->
    s_added (record_added s) = s_added s + 1 /\
    s_removed (record_removed s) = s_removed s + 1 /\
    s_executed (record_execution s q p) = s_executed s + 1 /\
    s_qty (record_execution s q p) = s_qty s + q /\
    s_value (record_execution s q p) = s_value s + q * p /\
    record_execution_ovf q p = false.
Proof. exact record_exact. Qed.

(* debug builds: the panicking call has already counted the execution and its quantity *)
Theorem H_record_execution_panic_state :
  forall s q p,
    (record_execution_ovf q p = true <-> W <= q * p) /\
    s_executed (record_execution_partial s q) = s_executed (record_execution s q p) /\
    s_qty (record_execution_partial s q) = s_qty (record_execution s q p) /\
    s_added (record_execution_partial s q) = s_added s /\
    s_removed (record_execution_partial s q) = s_removed s /\
    s_value (record_execution_partial s q) = s_value s.
Proof. intros s q p. exact (conj (record_execution_ovf_iff q p) (record_execution_partial_spec s q p)). Qed.

Theorem H_stats_debug_is_release_without_overflow :
  forall ops i s,
    Forall (fun o => match o with SExec q p => q * p < W | _ => True end) ops ->
    stats_run_debug i s ops = (stats_run s ops, None).
Proof. exact stats_run_debug_no_ovf. Qed.

(* ---------------- non-vacuity / concrete instances ---------------- *)

Example H_refresh_example :
  let c := mkCommon (Uuid 7) 100 Sell 5 Gtc in
  refresh_iceberg (Iceberg c 0 30) 10 = (Iceberg c 10 20, 10) /\
  refresh_iceberg (Iceberg c 7 20) 5 = (Iceberg c 5 15, 5) /\          (* display 7 dropped *)
  refresh_iceberg (Iceberg c 0 5) 10 = (Iceberg c 10 0, 5) /\          (* 10 displayed, 5 existed *)
  refresh_iceberg (Reserve c 0 5 1 None true) 10 = (Reserve c 10 0 1 None true, 5) /\
  refresh_iceberg (Standard c 9) 10 = (Standard c 9, 0).
Proof. cbv. repeat split; reflexivity. Qed.

Example H_wrq_example :
  let c := mkCommon (Ulid 9) 100 Buy 5 Day in
  with_reduced_quantity (Standard c 9) 4 = Standard c 4 /\
  with_reduced_quantity (MarketToLimit c 9) 4 = MarketToLimit c 9 /\
  with_reduced_quantity (Reserve c 9 3 1 None true) 4 = Reserve c 9 3 1 None true.
Proof. cbv. repeat split; reflexivity. Qed.

Example H_value_example :
  let t := mkTx 0 (Uuid 1) (Uuid 2) 4294967296 4294967296 Buy in     (* 2^32 * 2^32 *)
  tx_total_value t = 0 /\ tx_total_value_ovf t = true /\ tx_maker_side t = Sell /\
  executed_value (mkResult (Uuid 1) [t; t] 0 true []) = 0 /\
  executed_value_ovf (mkResult (Uuid 1) [t; t] 0 true []) = true /\
  executed_quantity_w (mkResult (Uuid 1) [t; t] 0 true []) = 8589934592.
Proof. vm_compute. repeat split; reflexivity. Qed.

(* the hypotheses of H_match_order_executed_value_match_against are met by a real match *)
Example H_match_example :
  let c1 := mkCommon (Uuid 1) 100 Sell 1 Gtc in
  let c2 := mkCommon (Uuid 2) 100 Sell 2 Gtc in
  let l := add_order (add_order (new_level 100) (Standard c1 6)) (Iceberg c2 5 20) in
  exists l' g' r,
    match_order match_against 10 l 0 9 (Uuid 9) = Some (l', g', r) /\
    9 < W /\ 9 * price l < W /\
    executed_quantity_w r = 9 /\ executed_value r = 900 /\ length (r_txs r) = 2%nat.
Proof. vm_compute. eexists _, _, _. repeat split; reflexivity. Qed.

Example H_stats_example :
  stats_run stats0 [SAdded; SAdded; SExec 5 100; SRemoved] = mkStats 2 1 1 5 500 /\
  stats_run stats0 [SAdded; SExec 5 100; SReset; SAdded] = mkStats 1 0 0 0 0 /\
  stats_run_debug 0 stats0 [SAdded; SExec 4294967296 4294967296; SAdded]
    = (mkStats 1 0 1 4294967296 0, Some 1) /\
  stats_run stats0 [SAdded; SExec 4294967296 4294967296; SAdded] = mkStats 2 0 1 4294967296 0.
Proof. vm_compute. repeat split; reflexivity. Qed.

Check H_opposite_involutive : forall s, opposite (opposite s) = s.
Check H_opposite_no_fixpoint : forall s, opposite s <> s.
Check H_maker_side : forall t, tx_maker_side t = opposite (tx_side t) /\ tx_maker_side t <> tx_side t.
Check H_tif_is_immediate : forall t, tif_is_immediate t = true <-> t = Ioc \/ t = Fok.
Check H_executed_quantity : forall r, sum_txq (r_txs r) < W ->
    executed_quantity_w r = sum_txq (r_txs r) /\ executed_quantity_ovf r = false.
Check H_executed_value : forall r, sum_txval (r_txs r) < W ->
    executed_value r = sum_txval (r_txs r) /\ executed_value_ovf r = false.
Check H_match_order_executed_value : forall mf fuel l g qty taker l' g' r,
    match_order mf fuel l g qty taker = Some (l', g', r) ->
    Forall (fun t => tx_price t = price l) (r_txs r) /\
    executed_value_raw r = executed_quantity r * price l /\
    executed_value r = (executed_quantity r * price l) mod W.
Check H_wrq_display : forall o q,
    (wrq_applies o = true -> vis (with_reduced_quantity o q) = q) /\
    (wrq_applies o = false -> with_reduced_quantity o q = o).
Check H_refresh_iceberg_total : forall o amt, refreshable o = true ->
    let o' := fst (refresh_iceberg o amt) in vis o' + hid o' = N.max (hid o) amt.
Check H_stats_reset : forall s, s_added (stats_reset s) = 0 /\ s_removed (stats_reset s) = 0 /\
    s_executed (stats_reset s) = 0 /\ s_qty (stats_reset s) = 0 /\ s_value (stats_reset s) = 0.

Print Assumptions H_opposite_involutive.
Print Assumptions H_opposite_no_fixpoint.
Print Assumptions H_from_u64_zero_is_nil.
Print Assumptions H_from_u64_injective.
Print Assumptions H_from_u64_bytes.
Print Assumptions H_default_is_not_nil.
Print Assumptions H_tif_is_immediate.
Print Assumptions H_tif_has_expiry.
Print Assumptions H_tif_is_expired.
Print Assumptions H_tif_is_expired_mono.
Print Assumptions H_tif_expired_needs_expiry.
Print Assumptions H_order_is_immediate.
Print Assumptions H_order_is_fill_or_kill.
Print Assumptions H_order_is_post_only.
Print Assumptions H_wrq_applies.
Print Assumptions H_wrq_accessors.
Print Assumptions H_wrq_display.
Print Assumptions H_wrq_idempotent.
Print Assumptions H_refresh_iceberg.
Print Assumptions H_refresh_iceberg_total.
Print Assumptions H_refresh_iceberg_conserves.
Print Assumptions H_refresh_iceberg_conservation_refuted.
Print Assumptions H_refresh_iceberg_bounded.
Print Assumptions H_maker_side.
Print Assumptions H_total_value.
Print Assumptions H_executed_sums_mod.
Print Assumptions H_executed_quantity.
Print Assumptions H_executed_value.
Print Assumptions H_executed_value_total_values.
Print Assumptions H_match_order_executed_value.
Print Assumptions H_match_order_executed_value_exact.
Print Assumptions H_match_order_executed_value_match_against.
Print Assumptions H_add_filled_order_id.
Print Assumptions H_transaction_list.
Print Assumptions H_level_order_is_price_order.
Print Assumptions H_level_total_preorder.
Print Assumptions H_level_eq_is_equivalence.
Print Assumptions H_level_eq_not_structural.
Print Assumptions H_level_total_quantity.
Print Assumptions H_entry_order.
Print Assumptions H_entry_total_preorder.
Print Assumptions H_entry_accessors.
Print Assumptions H_stats_reset.
Print Assumptions H_record_order_added.
Print Assumptions H_record_order_removed.
Print Assumptions H_record_execution.
Print Assumptions H_record_exact.
Print Assumptions H_record_execution_panic_state.
Print Assumptions H_stats_debug_is_release_without_overflow.
Print Assumptions H_refresh_example.
Print Assumptions H_value_example.
Print Assumptions H_match_example.
Print Assumptions H_stats_example.
