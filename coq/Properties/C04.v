(* C04 — Resting orders trade in arrival order (time priority).
   Only statements live here; proofs are in Proofs/PriorityBase.v and
   Proofs/PriorityProofs.v.

   The property is stated as a refinement between the concrete level
   (Model/Level.v: map + ticket queue) and the ideal level of Spec/Priority.v
   (a plain list in priority order).  The concrete code is KNOWN to deviate in
   two ways (findings K1, K2); both are proved below as refutation witnesses,
   and the positive theorems say exactly where the code does have time priority:
     (a) pop takes the head of the pop order [abs];
     (b) a same-price amend keeps the place;
     (c) cancel / price move deletes the entry, nothing else moves;
     (d) add joins at the back          — provided no ticket of that id is outstanding (else K2);
     (e) one match from a strongly aligned state IS the ideal match (same makers,
         same sequence, same quantities, same remaining/complete/filled), and the
         alignment survives it       — provided the match is [k1_free] (else K1);
     (f) a history that is strongly aligned before every operation produces
         exactly the ideal outputs;
     (g) K1 / K2 witnesses: the unrestricted property is FALSE of the model. *)
From PL Require Import Spec.Hist Spec.Priority Proofs.OrderProofs Proofs.PriorityBase Proofs.PriorityProofs.
Local Open Scope N_scope.

(* ---------------- (a) pop takes the head of the pop order ---------------- *)
Theorem C04_pop_head :
  forall q o q',
    pop q = (Some o, q') ->
    exists rest, abs q = oid_of o :: rest /\ lookup (oid_of o) (qmap q) = Some o /\ abs q' = rest.
Proof. exact pop_head_some. Qed.

Theorem C04_pop_empty :
  forall q q', pop q = (None, q') -> abs q = [] /\ abs q' = [].
Proof. exact pop_head_none. Qed.

(* ---------------- (b) same-price amend keeps the place ---------------- *)
Theorem C04_amend_keeps_place :
  forall l k o nq,
    NoDup (ids (resting l)) -> Covered (lq l) -> lookup k (resting l) = Some o ->
    abs (lq (fst (amend l k nq))) = abs (lq l).
Proof. exact amend_keeps_place. Qed.

Theorem C04_amend_aligned :
  forall l il k nq,
    Aligned l il ->
    Aligned (fst (amend l k nq)) (fst (iamend il k nq)) /\
    snd (amend l k nq) = snd (iamend il k nq).
Proof. exact amend_aligned. Qed.

(* ---------------- (c) cancel / price move ---------------- *)
Theorem C04_take_out_aligned :
  forall l il k,
    Aligned l il ->
    Aligned (fst (take_out l k)) (fst (itake_out il k)) /\
    snd (take_out l k) = snd (itake_out il k).
Proof. exact take_out_aligned. Qed.

Theorem C04_take_out_aligned_strong :
  forall l il k,
    AlignedStrong l il ->
    AlignedStrong (fst (take_out l k)) (fst (itake_out il k)) /\
    snd (take_out l k) = snd (itake_out il k).
Proof. exact take_out_aligned_strong. Qed.

(* every update (cancel, price move, amend, replace) from a weakly aligned pair *)
Theorem C04_update_aligned :
  forall l il u,
    Aligned l il ->
    Aligned (fst (update_order l u)) (fst (iupdate il u)) /\
    snd (update_order l u) = snd (iupdate il u).
Proof. exact update_aligned. Qed.

(* ---------------- (d) add joins at the back ---------------- *)
Theorem C04_add_joins_back :
  forall l il o,
    AlignedStrong l il -> lookup (oid_of o) (resting l) = None ->
    ~ In (oid_of o) (tickets (lq l)) ->
    AlignedStrong (add_order l o) (iadd il o).
Proof. exact add_aligned_strong. Qed.

(* without the freshness premise: finding K2 *)
Theorem C04_add_stale_ticket_refuted :
  exists l il o,
    AlignedStrong l il /\ lookup (oid_of o) (resting l) = None /\ K2_add l o /\
    ~ Aligned (add_order l o) (iadd il o).
Proof. exact add_stale_ticket_refuted. Qed.

(* ---------------- (e) one match from an aligned state ---------------- *)
(* The target statement with [I_cons mf] alone is FALSE (see
   C04_match_refines_needs_I_rest below): I_cons lets an exhausted, unreplenished
   maker survive with nothing displayed and later react to the incoming quantity.
   The extra interface clause [I_rest]:
     a maker that survives a visit without replenishment either ends the match
     (remaining = 0) or is passed over from then on, whatever the quantity. *)
Theorem C04_match_refines :
  forall mf, I_cons mf -> I_rest mf ->
  forall fuel l il g qty taker l' g' r,
    AlignedStrong l il ->
    match_order mf fuel l g qty taker = Some (l', g', r) ->
    exists fuel' il' r', imatch mf fuel' il g qty taker = Some (il', g', r') /\ r' = r.
Proof.
  intros mf Hc Hr fuel l il g qty taker l' g' r HA H.
  destruct (match_refines mf fuel l il g qty taker l' g' r (I_cons_I_id mf Hc) Hr HA H) as (f & il' & E).
  exists f, il', r. split; [exact E | reflexivity].
Qed.

Theorem C04_match_against_I_rest : I_rest match_against.
Proof. exact match_against_I_rest. Qed.

Theorem C04_match_refines_match_against :
  forall fuel l il g qty taker l' g' r,
    AlignedStrong l il ->
    match_order match_against fuel l g qty taker = Some (l', g', r) ->
    exists fuel' il' r', imatch match_against fuel' il g qty taker = Some (il', g', r') /\ r' = r.
Proof. exact (C04_match_refines match_against match_against_I_cons match_against_I_rest). Qed.

Theorem C04_match_refines_needs_I_rest :
  exists mf, I_cons mf /\
  exists l il fuel g qty taker l' g' r,
    AlignedStrong l il /\
    match_order mf fuel l g qty taker = Some (l', g', r) /\
    forall fuel' il' g'' r', imatch mf fuel' il g qty taker = Some (il', g'', r') -> r' <> r.
Proof. exact match_refines_needs_I_rest. Qed.

(* alignment survives a K1-free match ([k1_free] is a boolean on the ideal run:
   no surviving unreplenished head with anything behind / passed before it / still
   wanted, and no passed-over order while others remain queued) *)
Theorem C04_match_alignment_survives :
  forall mf, I_id mf ->
  forall fuel l il g qty taker l' g' r,
    AlignedStrong l il ->
    match_order mf fuel l g qty taker = Some (l', g', r) ->
    k1_free mf fuel [] (iorders il) qty = true ->
    exists il', imatch mf fuel il g qty taker = Some (il', g', r) /\ AlignedStrong l' il'.
Proof.
  intros mf Hid fuel l il g qty taker l' g' r.
  exact (match_alignment_survives mf fuel l il g qty taker l' g' r Hid).
Qed.

Theorem C04_match_alignment_survives_match_against :
  forall fuel l il g qty taker l' g' r,
    AlignedStrong l il ->
    match_order match_against fuel l g qty taker = Some (l', g', r) ->
    k1_free match_against fuel [] (iorders il) qty = true ->
    exists il', imatch match_against fuel il g qty taker = Some (il', g', r) /\ AlignedStrong l' il'.
Proof. exact (C04_match_alignment_survives match_against match_against_I_id). Qed.

(* otherwise: finding K1, in its two forms *)
Theorem C04_match_partial_fill_refuted :
  exists l il fuel g qty taker l' g' r il',
    AlignedStrong l il /\
    match_order match_against fuel l g qty taker = Some (l', g', r) /\
    imatch match_against fuel il g qty taker = Some (il', g', r) /\
    k1_free match_against fuel [] (iorders il) qty = false /\
    ~ Aligned l' il'.
Proof. exact match_partial_fill_refuted. Qed.

Theorem C04_match_set_aside_refuted :
  exists l il fuel g qty taker l' g' r il',
    AlignedStrong l il /\
    match_order match_against fuel l g qty taker = Some (l', g', r) /\
    imatch match_against fuel il g qty taker = Some (il', g', r) /\
    k1_free match_against fuel [] (iorders il) qty = false /\
    ~ Aligned l' il'.
Proof. exact match_set_aside_refuted. Qed.

(* ---------------- (f) untainted histories ---------------- *)
(* [costeps mf P s i ops s' i' xs ys]: the concrete history [steps mf s ops s' xs]
   in lock step with the ideal run [isteps mf i ops i' ys], with [P] relating
   the two states before every operation. *)
Theorem C04_costeps_are_histories :
  forall mf P s i ops s' i' xs ys,
    costeps mf P s i ops s' i' xs ys -> steps mf s ops s' xs /\ isteps mf i ops i' ys.
Proof. exact costeps_steps. Qed.

Theorem C04_ideal_run_deterministic :
  forall mf i ops i1 ys1 i2 ys2,
    isteps mf i ops i1 ys1 -> isteps mf i ops i2 ys2 -> i1 = i2 /\ ys1 = ys2.
Proof. exact isteps_det. Qed.

Theorem C04_untainted :
  forall mf, I_cons mf -> I_rest mf ->
  forall s i ops s' i' xs ys,
    snd s = snd i ->
    costeps mf AlignedStrong s i ops s' i' xs ys ->
    xs = ys /\ snd s' = snd i'.
Proof. intros mf Hc Hr. exact (untainted_outputs mf (I_cons_I_id mf Hc) Hr). Qed.

(* the ideal counterpart of a step from an aligned pair always exists, with the same output *)
Theorem C04_untainted_progress :
  forall mf, I_cons mf -> I_rest mf ->
  forall s i o s1 x,
    AlignedStrong (fst s) (fst i) -> snd s = snd i -> c04_op o ->
    step mf s o s1 x -> exists i1, istep mf i o i1 x /\ snd s1 = snd i1.
Proof. intros mf Hc Hr. exact (untainted_progress mf (I_cons_I_id mf Hc) Hr). Qed.

Theorem C04_untainted_match_against :
  forall p g0 ops s' i' xs ys,
    costeps match_against AlignedStrong (new_level p, g0) (inew p, g0) ops s' i' xs ys ->
    xs = ys /\ snd s' = snd i'.
Proof.
  intros p g0 ops s' i' xs ys.
  exact (C04_untainted match_against match_against_I_cons match_against_I_rest
           (new_level p, g0) (inew p, g0) ops s' i' xs ys eq_refl).
Qed.

Theorem C04_aligned_initially : forall p, AlignedStrong (new_level p) (inew p).
Proof. exact AlignedStrong_new. Qed.

(* ---------------- (g) refutation witnesses ---------------- *)
Theorem C04_K1_witness :
  exists s' xs i' ys,
    steps match_against (new_level 100, 0) K1_ops s' xs /\
    isteps match_against (inew 100, 0) K1_ops i' ys /\
    map makers xs = [[]; []; [Uuid 1]; [Uuid 2]] /\
    map makers ys = [[]; []; [Uuid 1]; [Uuid 1]].
Proof. exact K1_witness. Qed.

Theorem C04_K2_witness :
  exists s' xs i' ys,
    steps match_against (new_level 100, 0) K2_ops s' xs /\
    isteps match_against (inew 100, 0) K2_ops i' ys /\
    map makers xs = [[]; []; []; []; [Uuid 1]] /\
    map makers ys = [[]; []; []; []; [Uuid 2]].
Proof. exact K2_witness. Qed.

Theorem C04_unrestricted_refuted :
  exists ops s' xs i' ys,
    steps match_against (new_level 100, 0) ops s' xs /\
    isteps match_against (inew 100, 0) ops i' ys /\ xs <> ys.
Proof. exact unrestricted_refuted. Qed.

(* ---------------- examples: the hypotheses are satisfiable ---------------- *)
Example C04_witness_ops :
  K1_ops = [OAdd wA; OAdd wB; OMatch 4 wT; OMatch 4 wT] /\
  K2_ops = [OAdd wA; OAdd wB; OUpdate (Cancel (Uuid 1)); OAdd wA; OMatch 4 wT] /\
  wA = Standard (mkCommon (Uuid 1) 100 Sell 1 Gtc) 10 /\
  wB = Standard (mkCommon (Uuid 2) 100 Sell 2 Gtc) 10.
Proof. repeat split; reflexivity. Qed.

(* an untainted history with an iceberg replenishment (moves to the back), a
   cancel, a re-add after the stale ticket was consumed, and a draining match *)
Example C04_untainted_example :
  exists s' i' xs ys,
    costeps match_against AlignedStrong (new_level 100, 0) (inew 100, 0) untainted_ops s' i' xs ys /\
    map makers xs = [[]; []; []; [Uuid 4; Uuid 1]; []; [Uuid 4]; []; [Uuid 4; Uuid 2; Uuid 4; Uuid 4]].
Proof. exact untainted_example. Qed.

(* a K1-free match with a replenishment: iceberg I(5+20), A(10); match 15 *)
Example C04_k1_free_example :
  k1_free match_against 6 [] [wI; wA] 15 = true /\
  k1_free match_against 6 [] [wA; wB] 10 = true /\
  k1_free match_against 6 [] [wA; wB] 4 = false /\
  k1_free match_against 6 [] [wA] 4 = true.
Proof. vm_compute. repeat split; reflexivity. Qed.

Check C04_pop_head : forall q o q',
    pop q = (Some o, q') ->
    exists rest, abs q = oid_of o :: rest /\ lookup (oid_of o) (qmap q) = Some o /\ abs q' = rest.
Check C04_amend_keeps_place : forall l k o nq,
    NoDup (ids (resting l)) -> Covered (lq l) -> lookup k (resting l) = Some o ->
    abs (lq (fst (amend l k nq))) = abs (lq l).
Check C04_add_joins_back : forall l il o,
    AlignedStrong l il -> lookup (oid_of o) (resting l) = None ->
    ~ In (oid_of o) (tickets (lq l)) ->
    AlignedStrong (add_order l o) (iadd il o).
Check C04_match_refines : forall mf, I_cons mf -> I_rest mf ->
  forall fuel l il g qty taker l' g' r,
    AlignedStrong l il ->
    match_order mf fuel l g qty taker = Some (l', g', r) ->
    exists fuel' il' r', imatch mf fuel' il g qty taker = Some (il', g', r') /\ r' = r.
Check C04_match_alignment_survives : forall mf, I_id mf ->
  forall fuel l il g qty taker l' g' r,
    AlignedStrong l il ->
    match_order mf fuel l g qty taker = Some (l', g', r) ->
    k1_free mf fuel [] (iorders il) qty = true ->
    exists il', imatch mf fuel il g qty taker = Some (il', g', r) /\ AlignedStrong l' il'.
Check C04_untainted : forall mf, I_cons mf -> I_rest mf ->
  forall s i ops s' i' xs ys,
    snd s = snd i ->
    costeps mf AlignedStrong s i ops s' i' xs ys ->
    xs = ys /\ snd s' = snd i'.
Check C04_unrestricted_refuted : exists ops s' xs i' ys,
    steps match_against (new_level 100, 0) ops s' xs /\
    isteps match_against (inew 100, 0) ops i' ys /\ xs <> ys.

Print Assumptions C04_pop_head.
Print Assumptions C04_pop_empty.
Print Assumptions C04_amend_keeps_place.
Print Assumptions C04_amend_aligned.
Print Assumptions C04_take_out_aligned.
Print Assumptions C04_take_out_aligned_strong.
Print Assumptions C04_update_aligned.
Print Assumptions C04_add_joins_back.
Print Assumptions C04_add_stale_ticket_refuted.
Print Assumptions C04_match_refines.
Print Assumptions C04_match_against_I_rest.
Print Assumptions C04_match_refines_match_against.
Print Assumptions C04_match_refines_needs_I_rest.
Print Assumptions C04_match_alignment_survives.
Print Assumptions C04_match_alignment_survives_match_against.
Print Assumptions C04_match_partial_fill_refuted.
Print Assumptions C04_match_set_aside_refuted.
Print Assumptions C04_costeps_are_histories.
Print Assumptions C04_ideal_run_deterministic.
Print Assumptions C04_untainted.
Print Assumptions C04_untainted_progress.
Print Assumptions C04_untainted_match_against.
Print Assumptions C04_aligned_initially.
Print Assumptions C04_K1_witness.
Print Assumptions C04_K2_witness.
Print Assumptions C04_unrestricted_refuted.
Print Assumptions C04_untainted_example.
Print Assumptions C04_k1_free_example.
