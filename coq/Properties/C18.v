(* C18 — Parsers are total: malformed text yields an error, never a panic.
   Only statements live here; proofs are in Proofs/TextTotal*.v.

   [PPanic] is what the model returns where the Rust code would panic: a slice off a
   char boundary or out of range, an index out of bounds, an [unwrap] of [None],
   overflow of the checked [i32] bracket counters and of a [usize] subtraction — and,
   for the two [while] loops driven by a byte position, exhaustion of the fuel
   [S (length s)] (so "never PPanic" also says that they terminate; every other loop is
   structural).  The statements quantify over every well-formed UTF-8 byte string
   (= every Rust [&str]); a length bound below 2^31 bytes appears exactly where the
   [i32] counters need it. *)
From PL Require Import Model.Text Proofs.TextUtf8 Proofs.TextTotal Proofs.TextTotalLevel Proofs.TextTotalMR.

Definition short (s : str) : Prop := (Z.of_nat (length s) < 2147483648)%Z.

Theorem C18_side : forall s, utf8_valid s = true -> parse_side s <> PPanic.
Proof. intros s _. exact (np_parse_side s). Qed.

Theorem C18_tif : forall s, utf8_valid s = true -> parse_tif s <> PPanic.
Proof. intros s _. exact (np_parse_tif s). Qed.

Theorem C18_peg : forall s, utf8_valid s = true -> parse_peg s <> PPanic.
Proof. intros s _. exact (np_parse_peg s). Qed.

Theorem C18_oid : forall s, utf8_valid s = true -> parse_oid s <> PPanic.
Proof. intros s _. exact (np_parse_oid s). Qed.

Theorem C18_order : forall s, utf8_valid s = true -> parse_order s <> PPanic.
Proof. intros s _. exact (np_parse_order s). Qed.

Theorem C18_update : forall s, utf8_valid s = true -> parse_update s <> PPanic.
Proof. intros s _. exact (np_parse_update s). Qed.

Theorem C18_transaction : forall s, utf8_valid s = true -> parse_txn s <> PPanic.
Proof. intros s _. exact (np_parse_txn s). Qed.

Theorem C18_snapshot : forall s, utf8_valid s = true -> parse_snapshot s <> PPanic.
Proof. intros s _. exact (np_parse_snapshot s). Qed.

Theorem C18_statistics : forall s, utf8_valid s = true -> parse_stats s <> PPanic.
Proof. intros s _. exact (np_parse_stats s). Qed.

Theorem C18_queue : forall s, utf8_valid s = true -> parse_queue s <> PPanic.
Proof. exact np_parse_queue. Qed.

Theorem C18_transaction_list : forall s, utf8_valid s = true -> short s -> parse_txlist s <> PPanic.
Proof. exact np_parse_txlist. Qed.

Theorem C18_level : forall s, utf8_valid s = true -> short s -> parse_level s <> PPanic.
Proof. exact np_parse_level. Qed.

Theorem C18_match_result : forall s, utf8_valid s = true -> short s -> parse_match_result s <> PPanic.
Proof. exact np_parse_match_result. Qed.

(* The defect this property found (repaired by "compare bytes in MatchResult::from_str"):
   on the bytes of "MatchResult:order_id=é" the scanner as it was panics, the current one
   returns an error. *)
Theorem C18_repaired_defect_witness :
  utf8_valid witness_F4 = true /\ parse_match_result_old witness_F4 = PPanic /\
  parse_match_result witness_F4 = PErr.
Proof. exact old_scanner_panics. Qed.

(* Non-vacuity: the hypotheses hold of strings with multi-byte characters, and the
   parsers really distinguish the three outcomes. *)
Example C18_examples :
  let e := [ascii_of_N 195; ascii_of_N 169] in             (* é *)
  let s1 := $"PriceLevel:price=1;orders=[" ++ e ++ $"," ++ e ++ $"]" in
  utf8_valid s1 = true /\ short s1 /\ parse_level s1 = PErr /\
  parse_level $"PriceLevel:price=7;orders=[]" = POk (7%N, []) /\
  utf8_valid [ascii_of_N 169] = false /\
  slice ($"a" ++ e) 0 2 = None /\ slice ($"a" ++ e) 1 3 = Some e.
Proof. vm_compute. repeat split; reflexivity. Qed.

Check C18_match_result : forall s, utf8_valid s = true -> short s -> parse_match_result s <> PPanic.
Check C18_level : forall s, utf8_valid s = true -> short s -> parse_level s <> PPanic.
Check C18_transaction_list : forall s, utf8_valid s = true -> short s -> parse_txlist s <> PPanic.
Check C18_queue : forall s, utf8_valid s = true -> parse_queue s <> PPanic.
Check C18_order : forall s, utf8_valid s = true -> parse_order s <> PPanic.

Print Assumptions C18_side.
Print Assumptions C18_tif.
Print Assumptions C18_peg.
Print Assumptions C18_oid.
Print Assumptions C18_order.
Print Assumptions C18_update.
Print Assumptions C18_transaction.
Print Assumptions C18_snapshot.
Print Assumptions C18_statistics.
Print Assumptions C18_queue.
Print Assumptions C18_transaction_list.
Print Assumptions C18_level.
Print Assumptions C18_match_result.
Print Assumptions C18_repaired_defect_witness.
