(* C12 — Concurrent readers never observe wrapped or impossible aggregates.
   Only statements live here; proofs are in Proofs/ConcInv.v and Proofs/ConcThms.v.

   For EVERY program, schedule, number of threads and steps: after every single
   shared-memory step (a schedule is arbitrary, and every prefix of a schedule is
   a schedule: C12_every_prefix) the machine values of the three counters are
     * at most the quantity ever supplied to the level, [Supplied c0]
       (resp. the number of orders ever supplied, [OrdersB c0]), which is < 2^64;
     * at least the sums over the orders resting in the map at that instant;
   so they never pass through a wrapped value; every value a load returns to a
   reader is within these bounds (C12_loads). *)
From PL Require Import Spec.ConcSpec Spec.ConcExample Proofs.OrderProofs Proofs.ConcInv Proofs.ConcThms.
Local Open Scope N_scope.

Theorem C12_counters_bounded :
  forall mf, I_cons mf ->
  forall sched c0, Inv c0 ->
    let s := cf_sh (fst (exec mf sched c0)) in
    sh_cvis s <= Supplied c0 /\ sh_chid s <= Supplied c0 /\
    sh_cvis s + sh_chid s <= Supplied c0 /\
    sh_ccnt s <= OrdersB c0 /\
    Supplied c0 < W /\ OrdersB c0 < W /\
    sumv (sh_map s) <= sh_cvis s /\ sumh (sh_map s) <= sh_chid s /\ lenN (sh_map s) <= sh_ccnt s.
Proof. exact exec_counters. Qed.

(* "after every single step": the configuration after any prefix of the schedule *)
Theorem C12_every_prefix :
  forall mf, I_cons mf ->
  forall sched n c0, Inv c0 ->
    let s := cf_sh (fst (exec mf (firstn n sched) c0)) in
    sh_cvis s <= Supplied c0 /\ sh_chid s <= Supplied c0 /\
    sh_cvis s + sh_chid s <= Supplied c0 /\
    sh_ccnt s <= OrdersB c0 /\
    Supplied c0 < W /\ OrdersB c0 < W /\
    sumv (sh_map s) <= sh_cvis s /\ sumh (sh_map s) <= sh_chid s /\ lenN (sh_map s) <= sh_ccnt s.
Proof. intros mf HI sched n. exact (exec_counters mf HI (firstn n sched)). Qed.

(* a run of a longer schedule passes through the run of each of its prefixes *)
Theorem C12_prefix_is_run :
  forall mf s1 s2 c,
    exec mf (s1 ++ s2) c =
    let '(c1, t1) := exec mf s1 c in let '(c2, t2) := exec mf s2 c1 in (c2, t1 ++ t2).
Proof. exact exec_app. Qed.

(* every value a reader's load returns *)
Theorem C12_loads :
  forall mf, I_cons mf ->
  forall sched c0, Inv c0 ->
  forall i x v, In (i, ELoad x v) (snd (exec mf sched c0)) ->
    v <= load_bound c0 x /\ v < W.
Proof. exact exec_loads. Qed.

(* the same for the implementation's per-order function, from an initial configuration *)
Theorem C12_match_against :
  forall l gen progs sched, wf_progs l progs ->
    let s := cf_sh (fst (exec match_against sched (init_config l gen progs))) in
    let B := sumv (resting l) + sumh (resting l) + prog_budget (price l) progs in
    sh_cvis s <= B /\ sh_chid s <= B /\ sh_cvis s + sh_chid s <= B /\
    sh_ccnt s <= lenN (resting l) + prog_bc progs /\ B < W /\ lenN (resting l) + prog_bc progs < W.
Proof. exact init_counters. Qed.

(* every value a reader's load returns, for the implementation's per-order function and a
   well-formed initial configuration: no abstract invariant is left among the hypotheses *)
Theorem C12_loads_match_against :
  forall l gen progs sched, wf_progs l progs ->
  forall i x v, In (i, ELoad x v) (snd (exec match_against sched (init_config l gen progs))) ->
    v <= load_bound (init_config l gen progs) x /\ v < W.
Proof.
  intros l gen progs sched Hwf.
  exact (exec_loads match_against match_against_I_cons sched _ (init_Inv l gen progs Hwf)).
Qed.

(* ... and at every instant (after every prefix of every schedule) *)
Theorem C12_every_prefix_match_against :
  forall l gen progs sched n, wf_progs l progs ->
    let s := cf_sh (fst (exec match_against (firstn n sched) (init_config l gen progs))) in
    let B := sumv (resting l) + sumh (resting l) + prog_budget (price l) progs in
    sh_cvis s <= B /\ sh_chid s <= B /\ sh_cvis s + sh_chid s <= B /\
    sh_ccnt s <= lenN (resting l) + prog_bc progs /\ B < W /\ lenN (resting l) + prog_bc progs < W.
Proof. intros l gen progs sched n. exact (init_counters l gen progs (firstn n sched)). Qed.

(* ---- non-vacuity ---- *)
Example C12_example :
  Inv ex_c0 /\ Supplied ex_c0 = 43 /\ OrdersB ex_c0 = 4 /\
  (* the counters after each of the first 12 steps of the example schedule *)
  map (fun n => let s := cf_sh (fst (exec match_against (firstn n ex_sched) ex_c0)) in
                (sh_cvis s, sh_chid s, sh_ccnt s)) (seq 0 12)
  = [(19, 13, 3); (27, 13, 3); (27, 13, 3); (27, 13, 3); (27, 13, 3); (17, 13, 3);
     (17, 13, 3); (17, 13, 4); (17, 13, 4); (17, 13, 4); (17, 13, 4); (17, 13, 4)].
Proof. split; [apply init_Inv; exact ex_wf|]. vm_compute. repeat split. Qed.

Check C12_counters_bounded : forall mf, I_cons mf ->
  forall sched c0, Inv c0 ->
    let s := cf_sh (fst (exec mf sched c0)) in
    sh_cvis s <= Supplied c0 /\ sh_chid s <= Supplied c0 /\
    sh_cvis s + sh_chid s <= Supplied c0 /\
    sh_ccnt s <= OrdersB c0 /\
    Supplied c0 < W /\ OrdersB c0 < W /\
    sumv (sh_map s) <= sh_cvis s /\ sumh (sh_map s) <= sh_chid s /\ lenN (sh_map s) <= sh_ccnt s.
Check C12_loads : forall mf, I_cons mf ->
  forall sched c0, Inv c0 ->
  forall i x v, In (i, ELoad x v) (snd (exec mf sched c0)) ->
    v <= load_bound c0 x /\ v < W.

Print Assumptions C12_counters_bounded.
Print Assumptions C12_every_prefix.
Print Assumptions C12_prefix_is_run.
Print Assumptions C12_loads.
Print Assumptions C12_match_against.
Print Assumptions C12_loads_match_against.
Print Assumptions C12_every_prefix_match_against.
Print Assumptions C12_example.
