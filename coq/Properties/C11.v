(* C11 — A restored level trades in the same order as the level it was taken from.
   Only statements live here; proofs are in Proofs/RebuildBase.v and Proofs/RebuildProofs.v.

   The property is FALSE of the code in general (findings K3, K2', K2; witnesses in
   section 7).  What holds:
     5. [Sim] — same price, counters, ticket list and id->order map — is a bisimulation
        for add / update / match, for every per-order function [mf] (no interface
        hypothesis is needed): equivalent levels give equal outputs for ever;
     6. the level restored from ANY listing of a CLEAN level is [Sim] to the original,
        so it trades exactly like it.
   Clean = one live ticket per resting order and strictly increasing timestamps along
   the ticket queue.  Each of the three cleanliness conditions is necessary (7). *)
From PL Require Import Model.Level Spec.Hist Spec.Priority Proofs.RebuildBase Proofs.RebuildProofs.
From Coq Require Import Sorted Permutation.
Local Open Scope N_scope.

(* ---- vocabulary (definitions are in Proofs/RebuildProofs.v; shown here by unfolding) ---- *)

(* statistics and the internal list order of the map are NOT compared *)
Theorem C11_Sim_def : forall l1 l2,
  Sim l1 l2 <->
  price l1 = price l2 /\ cvis l1 = cvis l2 /\ chid l1 = chid l2 /\ ccnt l1 = ccnt l2 /\
  tickets (lq l1) = tickets (lq l2) /\
  NoDup (ids (resting l1)) /\ NoDup (ids (resting l2)) /\
  forall k, lookup k (resting l1) = lookup k (resting l2).
Proof. reflexivity. Qed.

Theorem C11_Clean_def : forall l,
  Clean l <->
  NoDup (tickets (lq l)) /\
  (forall k, In k (tickets (lq l)) -> lookup k (resting l) <> None) /\
  Covered (lq l) /\
  NoDup (ids (resting l)) /\
  Sorted N.lt (map (ticket_ts l) (tickets (lq l))).
Proof. reflexivity. Qed.

Theorem C11_ticket_ts_def : forall l k,
  ticket_ts l k = match lookup k (resting l) with Some o => ts_of o | None => 0 end.
Proof. reflexivity. Qed.

(* continuations: every operation except a read (a read returns the listing, whose tie
   order is unspecified, and the statistics, which a rebuild resets) *)
Theorem C11_cont_op_def : forall o, cont_op o <-> o <> ORead.
Proof.
  intros o. destruct o; cbn [cont_op]; split; intros H;
    first [exact I | discriminate | contradiction | (exfalso; apply H; reflexivity)].
Qed.

Theorem C11_trade_op_def : forall o,
  trade_op o <-> (exists x, o = OAdd x) \/ (exists q t, o = OMatch q t) \/ (exists u, o = OUpdate u).
Proof.
  intros o. destruct o; cbn; split; intros H; try exact I; try contradiction; eauto;
    destruct H as [[? H]|[[? [? H]]|[? H]]]; discriminate.
Qed.

(* ---- 5. Sim is a bisimulation, for every mf ---- *)

Theorem C11_Sim_equivalence :
  (forall l, NoDup (ids (resting l)) -> Sim l l) /\
  (forall l1 l2, Sim l1 l2 -> Sim l2 l1) /\
  (forall l1 l2 l3, Sim l1 l2 -> Sim l2 l3 -> Sim l1 l3).
Proof. split; [exact Sim_refl|split; [exact Sim_sym|exact Sim_trans]]. Qed.

(* equivalent levels have the same content *)
Theorem C11_Sim_content :
  forall l1 l2, Sim l1 l2 ->
    Permutation (resting l1) (resting l2) /\ (Agg l1 -> Agg l2) /\ (Fits l1 -> Fits l2).
Proof.
  intros l1 l2 H. split; [exact (Sim_perm l1 l2 H)|split; [exact (Sim_Agg l1 l2 H)|exact (Sim_Fits l1 l2 H)]].
Qed.

Theorem C11_add_sim :
  forall l1 l2 o, Sim l1 l2 -> Sim (add_order l1 o) (add_order l2 o).
Proof. exact add_order_sim. Qed.

Theorem C11_update_sim :
  forall l1 l2 u, Sim l1 l2 ->
    snd (update_order l1 u) = snd (update_order l2 u) /\
    Sim (fst (update_order l1 u)) (fst (update_order l2 u)).
Proof. exact update_order_sim. Qed.

Theorem C11_match_sim :
  forall mf fuel l1 l2 g qty taker, Sim l1 l2 ->
    match match_order mf fuel l1 g qty taker, match_order mf fuel l2 g qty taker with
    | Some (l1', g1, r1), Some (l2', g2, r2) => Sim l1' l2' /\ g1 = g2 /\ r1 = r2
    | None, None => True
    | _, _ => False
    end.
Proof. exact match_order_sim. Qed.

(* the fuel of the model's match loop does not influence a result *)
Theorem C11_match_fuel_irrelevant :
  forall mf f1 f2 l g qty taker x1 x2,
    match_order mf f1 l g qty taker = Some x1 -> match_order mf f2 l g qty taker = Some x2 -> x1 = x2.
Proof. exact match_order_fuel_irrelevant. Qed.

(* histories without side conditions: [run mf s ops s' outs] chains [step mf] *)
Theorem C11_run_def : forall mf s ops s' outs,
  run mf s ops s' outs <->
  match ops with
  | [] => s' = s /\ outs = []
  | o :: ops' => exists s1 x outs', step mf s o s1 x /\ run mf s1 ops' s' outs' /\ outs = x :: outs'
  end.
Proof.
  intros mf s ops s' outs. split.
  - intros H. inversion H; subst;
      [split; reflexivity|do 3 eexists; split; [eassumption|split; [eassumption|reflexivity]]].
  - destruct ops as [|o ops'].
    + intros [-> ->]. constructor.
    + intros (s1 & x & outs' & H1 & H2 & ->). econstructor; eassumption.
Qed.

(* C11 continuation: the same continuation applied to equivalent levels produces the same
   outputs (makers, quantities, transaction ids, update results) and the same generator,
   and ends in equivalent levels — whatever fuels the two runs used. *)
Theorem C11_continuation :
  forall mf ops l1 l2 g s1 outs1 s2 outs2,
    Sim l1 l2 -> Forall cont_op ops ->
    run mf (l1, g) ops s1 outs1 -> run mf (l2, g) ops s2 outs2 ->
    outs1 = outs2 /\ snd s1 = snd s2 /\ Sim (fst s1) (fst s2).
Proof. exact C11_continuation_run. Qed.

(* and the second level can always follow the first *)
Theorem C11_continuation_follows :
  forall mf ops l1 l2 g s1 outs,
    Sim l1 l2 -> Forall cont_op ops -> run mf (l1, g) ops s1 outs ->
    exists l2', run mf (l2, g) ops (l2', snd s1) outs /\ Sim (fst s1) l2'.
Proof. exact run_sim. Qed.

(* the target form: continuations made of adds, matches and updates *)
Theorem C11_continuation_trading :
  forall mf ops l1 l2 g s1 outs1 s2 outs2,
    Sim l1 l2 -> Forall trade_op ops ->
    run mf (l1, g) ops s1 outs1 -> run mf (l2, g) ops s2 outs2 ->
    outs1 = outs2 /\ snd s1 = snd s2 /\ Sim (fst s1) (fst s2).
Proof.
  intros mf ops l1 l2 g s1 outs1 s2 outs2 HS HF.
  apply C11_continuation_run; [exact HS|].
  eapply Forall_impl; [exact trade_op_cont_op|exact HF].
Qed.

(* inside the domain of the histories of Spec/Hist.v (side conditions [ok_op], [Fits]) *)
Theorem C11_continuation_steps :
  forall mf ops l1 l2 g s1 outs,
    Sim l1 l2 -> Forall cont_op ops -> steps mf (l1, g) ops s1 outs ->
    exists l2', steps mf (l2, g) ops (l2', snd s1) outs /\ Sim (fst s1) l2'.
Proof. exact steps_sim. Qed.

(* ---- 6. restoring a clean level ---- *)

Theorem C11_restore_identity :
  forall l listing a b c,
    Clean l -> Inv l -> listing_of l listing ->
    Sim (from_snapshot (mkSnap (price l) a b c listing)) l.
Proof. exact restore_identity. Qed.

Theorem C11_restore_identity_data :
  forall l listing,
    Clean l -> Inv l -> listing_of l listing -> Sim (from_data (price l) listing) l.
Proof. exact restore_identity_data. Qed.

(* the listing of a clean level is the ticket queue *)
Theorem C11_clean_listing_unique :
  forall l listing, Clean l -> listing_of l listing -> ids listing = tickets (lq l).
Proof. exact clean_ids_listing. Qed.

(* hence: the restored level trades exactly like the original *)
Theorem C11_restored_outputs_equal :
  forall mf l listing a b c g ops s1 outs1 s2 outs2,
    Clean l -> Inv l -> listing_of l listing -> Forall cont_op ops ->
    run mf (l, g) ops s1 outs1 ->
    run mf (from_snapshot (mkSnap (price l) a b c listing), g) ops s2 outs2 ->
    outs1 = outs2 /\ snd s1 = snd s2 /\ Sim (fst s1) (fst s2).
Proof. exact restored_outputs_equal. Qed.

Theorem C11_restored_trades_alike :
  forall mf l listing a b c g ops s1 outs,
    Clean l -> Inv l -> listing_of l listing -> Forall cont_op ops ->
    run mf (l, g) ops s1 outs ->
    exists l2', run mf (from_snapshot (mkSnap (price l) a b c listing), g) ops (l2', snd s1) outs /\
                Sim (fst s1) l2'.
Proof. exact restored_trades_alike. Qed.

(* corollary for the code's per-order function and the level's own snapshot *)
Theorem C11_restored_match_against :
  forall l g ops s1 outs1 s2 outs2,
    Clean l -> Inv l -> Forall cont_op ops ->
    run match_against (l, g) ops s1 outs1 ->
    run match_against (from_snapshot (snapshot_of l), g) ops s2 outs2 ->
    outs1 = outs2 /\ snd s1 = snd s2 /\ Sim (fst s1) (fst s2).
Proof.
  intros l g ops s1 outs1 s2 outs2 HC HI HF.
  exact (restored_outputs_equal match_against l (to_vec (lq l)) (cvis l) (chid l) (ccnt l)
           g ops s1 outs1 s2 outs2 HC HI (to_vec_listing l) HF).
Qed.

(* ---- 7. outside the cleanliness conditions: refutation ---- *)

(* C11 without conditions, in its weakest form: a reachable level, trading continuations
   only, only the sequence of makers compared. *)
Theorem C11_unrestricted_def : forall mf,
  C11_unrestricted mf <->
  forall l g listing ops s1 outs1 s2 outs2,
    reachable mf (l, g) -> listing_of l listing -> Forall trade_op ops ->
    run mf (l, g) ops s1 outs1 ->
    run mf (from_snapshot (mkSnap (price l) (cvis l) (chid l) (ccnt l) listing), g) ops s2 outs2 ->
    makers_of outs1 = makers_of outs2.
Proof. reflexivity. Qed.

Theorem C11_unrestricted_refuted : ~ C11_unrestricted match_against.
Proof. exact C11_unrestricted_refuted_K3. Qed.

(* K3: timestamps not monotone in arrival order.  A (ts 5) then B (ts 3): the original
   trades A, the copy trades B. *)
Theorem C11_K3_witness :
  exec match_against 5 (new_level 100, 0) k3_hist = Some ((k3_l, 0), [OutAdd k3_A; OutAdd k3_B]) /\
  to_vec (lq k3_l) = [k3_B; k3_A] /\ k3_copy = from_snapshot (snapshot_of k3_l) /\
  resting k3_l = [k3_A; k3_B] /\
  tickets (lq k3_l) = [Uuid 1; Uuid 2] /\ tickets (lq k3_copy) = [Uuid 2; Uuid 1] /\
  k_makers k3_l k3_cont = Some [Uuid 1] /\
  k_makers k3_copy k3_cont = Some [Uuid 2].
Proof. exact K3_witness. Qed.

(* K2': a stale ticket.  Add A, add B, cancel A; then on both: add A again, match 1:
   the original trades A (it inherits the stale ticket), the copy trades B. *)
Theorem C11_K2prime_witness :
  exec match_against 5 (new_level 100, 0) k2_hist
    = Some ((k2_l, 0), [OutAdd k2_A; OutAdd k2_B; OutUpdate (UOk (Some k2_A))]) /\
  to_vec (lq k2_l) = [k2_B] /\ k2_copy = from_snapshot (snapshot_of k2_l) /\
  resting k2_l = [k2_B] /\
  tickets (lq k2_l) = [Uuid 1; Uuid 2] /\ tickets (lq k2_copy) = [Uuid 2] /\
  k_makers k2_l k2_cont = Some [Uuid 1] /\
  k_makers k2_copy k2_cont = Some [Uuid 2].
Proof. exact K2prime_witness. Qed.

Theorem C11_unrestricted_refuted_by_K2prime : ~ C11_unrestricted match_against.
Proof. exact C11_unrestricted_refuted_K2prime. Qed.

(* K2: two outstanding tickets of one live id (add A, cancel A, add A, add B): every ticket
   is live and timestamps increase along the queue, yet after a partial fill the original
   serves A again, the copy serves B. *)
Theorem C11_K2dup_witness :
  exec match_against 5 (new_level 100, 0) kd_hist
    = Some ((kd_l, 0), [OutAdd k2_A; OutUpdate (UOk (Some k2_A)); OutAdd k2_A; OutAdd k2_B]) /\
  to_vec (lq kd_l) = [k2_A; k2_B] /\ kd_copy = from_snapshot (snapshot_of kd_l) /\
  resting kd_l = [k2_A; k2_B] /\
  tickets (lq kd_l) = [Uuid 1; Uuid 1; Uuid 2] /\ tickets (lq kd_copy) = [Uuid 1; Uuid 2] /\
  k_makers kd_l kd_cont = Some [Uuid 1; Uuid 1] /\
  k_makers kd_copy kd_cont = Some [Uuid 1; Uuid 2].
Proof. exact K2dup_witness. Qed.

Theorem C11_unrestricted_refuted_by_K2dup : ~ C11_unrestricted match_against.
Proof. exact C11_unrestricted_refuted_K2dup. Qed.

(* the definitions used by the witnesses *)
Example C11_witness_defs :
  k_T = Uuid 99 /\
  (forall i ts q, k_std i ts q = Standard (mkCommon (Uuid i) 100 Sell ts Gtc) q) /\
  k3_A = k_std 1 5 10 /\ k3_B = k_std 2 3 10 /\
  k3_hist = [OAdd k3_A; OAdd k3_B] /\ k3_cont = [OMatch 1 k_T] /\
  k2_A = k_std 1 1 10 /\ k2_B = k_std 2 2 10 /\ k2_A' = k_std 1 3 10 /\
  k2_hist = [OAdd k2_A; OAdd k2_B; OUpdate (Cancel (Uuid 1))] /\
  k2_cont = [OAdd k2_A'; OMatch 1 k_T] /\
  kd_hist = [OAdd k2_A; OUpdate (Cancel (Uuid 1)); OAdd k2_A; OAdd k2_B] /\
  kd_cont = [OMatch 1 k_T; OMatch 1 k_T] /\
  (forall l ops, k_makers l ops
     = option_map (fun p => makers_of (snd p)) (exec match_against 5 (l, 0) ops)) /\
  (forall l listing, restore l listing
     = from_snapshot (mkSnap (price l) (cvis l) (chid l) (ccnt l) listing)) /\
  k3_copy = restore k3_l [k3_B; k3_A] /\ k2_copy = restore k2_l [k2_B] /\
  kd_copy = restore kd_l [k2_A; k2_B].
Proof. repeat split; reflexivity. Qed.

(* which cleanliness condition each witness breaks (the others hold) *)
Example C11_witnesses_not_clean :
  Inv k3_l /\ Inv k2_l /\ Inv kd_l /\
  map (ticket_ts k3_l) (tickets (lq k3_l)) = [5; 3] /\             (* not increasing *)
  lookup (Uuid 1) (resting k2_l) = None /\                          (* stale ticket *)
  map (ticket_ts kd_l) (tickets (lq kd_l)) = [1; 1; 2] /\           (* duplicate ticket *)
  ~ Clean k3_l /\ ~ Clean k2_l /\ ~ Clean kd_l.
Proof.
  split; [apply inv_b_sound; vm_compute; reflexivity|].
  split; [apply inv_b_sound; vm_compute; reflexivity|].
  split; [apply inv_b_sound; vm_compute; reflexivity|].
  split; [vm_compute; reflexivity|]. split; [vm_compute; reflexivity|].
  split; [vm_compute; reflexivity|].
  split; [|split].
  - intros (_ & _ & _ & _ & H). vm_compute in H. inversion H as [|? ? _ H1]; subst.
    inversion H1 as [|? ? H2]; subst. vm_compute in H2. discriminate.
  - intros (_ & H & _). apply (H (Uuid 1)); [left; reflexivity|vm_compute; reflexivity].
  - intros (H & _). vm_compute in H. inversion H as [|? ? H1 _]; subst. apply H1. left. reflexivity.
Qed.

(* ---- examples: the hypotheses are satisfiable by a non-trivial reachable state ---- *)

(* a plain order is filled, an iceberg order is replenished (and re-queued), a reserve
   order is partially filled (and re-queued), then a post-only order arrives *)
Definition cm (i ts : N) : common := mkCommon (Uuid i) 100 Sell ts Gtc.
Definition cl_T : oid := Uuid 99.
Definition cl_ops : list op :=
  [ OAdd (Standard (cm 1 1) 5);
    OAdd (Iceberg (cm 2 2) 5 10);
    OAdd (Reserve (cm 3 3) 10 200 0 None true);
    OMatch 12 cl_T;
    OAdd (PostOnly (cm 4 4) 7) ].
Definition cl_run := exec match_against 10 (new_level 100, 0) cl_ops.
Definition cl_l : level := match cl_run with Some ((l, _), _) => l | None => new_level 0 end.
Definition cl_outs : list out := match cl_run with Some (_, outs) => outs | None => [] end.
Definition cl_copy : level := from_snapshot (snapshot_of cl_l).

Example C11_ex_state :
  resting cl_l = [Iceberg (cm 2 2) 5 5; Reserve (cm 3 3) 8 200 0 None true; PostOnly (cm 4 4) 7] /\
  tickets (lq cl_l) = [Uuid 2; Uuid 3; Uuid 4] /\
  cvis cl_l = 20 /\ chid cl_l = 205 /\ ccnt cl_l = 3.
Proof. vm_compute. repeat split; reflexivity. Qed.

Example C11_ex_reachable : reachable match_against (cl_l, 3).
Proof.
  apply (exec_reachable match_against 10 100 0 cl_ops cl_l 3 cl_outs); vm_compute; reflexivity.
Qed.

Example C11_ex_Inv : Inv cl_l.
Proof. apply inv_b_sound. vm_compute. reflexivity. Qed.

Example C11_ex_Clean : Clean cl_l.
Proof. apply clean_b_sound. vm_compute. reflexivity. Qed.

Example C11_ex_Sim : Sim cl_copy cl_l.
Proof.
  exact (restore_identity cl_l (to_vec (lq cl_l)) (cvis cl_l) (chid cl_l) (ccnt cl_l)
           C11_ex_Clean C11_ex_Inv (to_vec_listing cl_l)).
Qed.

(* the theorem's conclusion observed by computation on a continuation with matches
   (partial fills, replenishments, a sweep), an add, an amend and a cancel *)
Definition cl_cont : list op :=
  [ OMatch 6 cl_T;
    OAdd (Iceberg (cm 7 9) 4 4);
    OUpdate (UpdateQuantity (Uuid 4) 2);
    OMatch 9 cl_T;
    OUpdate (Cancel (Uuid 3));
    OMatch 500 cl_T ].

Example C11_ex_continuation :
  option_map snd (exec match_against 20 (cl_l, 3) cl_cont)
    = option_map snd (exec match_against 20 (cl_copy, 3) cl_cont) /\
  option_map (fun p => makers_of (snd p)) (exec match_against 20 (cl_l, 3) cl_cont)
    = Some [Uuid 2; Uuid 3; Uuid 4; Uuid 2; Uuid 3; Uuid 7; Uuid 7] /\
  Forall cont_op cl_cont.
Proof. split; [vm_compute; reflexivity|]. split; [vm_compute; reflexivity|]. repeat constructor. Qed.

Check C11_match_sim :
  forall mf fuel l1 l2 g qty taker, Sim l1 l2 ->
    match match_order mf fuel l1 g qty taker, match_order mf fuel l2 g qty taker with
    | Some (l1', g1, r1), Some (l2', g2, r2) => Sim l1' l2' /\ g1 = g2 /\ r1 = r2
    | None, None => True
    | _, _ => False
    end.
Check C11_continuation :
  forall mf ops l1 l2 g s1 outs1 s2 outs2,
    Sim l1 l2 -> Forall cont_op ops ->
    run mf (l1, g) ops s1 outs1 -> run mf (l2, g) ops s2 outs2 ->
    outs1 = outs2 /\ snd s1 = snd s2 /\ Sim (fst s1) (fst s2).
Check C11_restore_identity :
  forall l listing a b c,
    Clean l -> Inv l -> listing_of l listing ->
    Sim (from_snapshot (mkSnap (price l) a b c listing)) l.
Check C11_restored_outputs_equal :
  forall mf l listing a b c g ops s1 outs1 s2 outs2,
    Clean l -> Inv l -> listing_of l listing -> Forall cont_op ops ->
    run mf (l, g) ops s1 outs1 ->
    run mf (from_snapshot (mkSnap (price l) a b c listing), g) ops s2 outs2 ->
    outs1 = outs2 /\ snd s1 = snd s2 /\ Sim (fst s1) (fst s2).
Check C11_unrestricted_refuted : ~ C11_unrestricted match_against.

Print Assumptions C11_Sim_def.
Print Assumptions C11_Clean_def.
Print Assumptions C11_ticket_ts_def.
Print Assumptions C11_cont_op_def.
Print Assumptions C11_trade_op_def.
Print Assumptions C11_Sim_equivalence.
Print Assumptions C11_Sim_content.
Print Assumptions C11_add_sim.
Print Assumptions C11_update_sim.
Print Assumptions C11_match_sim.
Print Assumptions C11_match_fuel_irrelevant.
Print Assumptions C11_run_def.
Print Assumptions C11_continuation.
Print Assumptions C11_continuation_follows.
Print Assumptions C11_continuation_trading.
Print Assumptions C11_continuation_steps.
Print Assumptions C11_restore_identity.
Print Assumptions C11_restore_identity_data.
Print Assumptions C11_clean_listing_unique.
Print Assumptions C11_restored_outputs_equal.
Print Assumptions C11_restored_trades_alike.
Print Assumptions C11_restored_match_against.
Print Assumptions C11_unrestricted_def.
Print Assumptions C11_unrestricted_refuted.
Print Assumptions C11_K3_witness.
Print Assumptions C11_K2prime_witness.
Print Assumptions C11_unrestricted_refuted_by_K2prime.
Print Assumptions C11_K2dup_witness.
Print Assumptions C11_unrestricted_refuted_by_K2dup.
Print Assumptions C11_witness_defs.
Print Assumptions C11_witnesses_not_clean.
Print Assumptions C11_ex_state.
Print Assumptions C11_ex_reachable.
Print Assumptions C11_ex_Inv.
Print Assumptions C11_ex_Clean.
Print Assumptions C11_ex_Sim.
Print Assumptions C11_ex_continuation.
