(* C09 — tampered, truncated or wrong-version snapshot packages are rejected.
   Only statements live here; proofs are in Proofs/SnapshotProofs.v and
   Proofs/JsonTextProofs.v.  [H] stands for SHA-256 and is universally quantified:
   nothing is assumed about it, which is why [C09_tamper] ends in a disjunction whose
   second arm is "the fault exhibits a second preimage of H".  [hex] is any injective
   digest-to-text function; [hex_lower] is the library's `format!("{:x}")`, proved
   injective, and the *_hex corollaries have no hypothesis about it left. *)
From Coq Require Import Ascii.
From Coq Require String.
Import String.StringSyntax.
From PL Require Import Model.Snapshot Proofs.JsonProofs Proofs.JsonTextProofs Proofs.SnapshotProofs.
Local Open Scope N_scope.

Section C09.
Variable H : list ascii -> list ascii.
Variable hex : list ascii -> str.

(* Restoring succeeds only if the version is the supported one and the checksum is the
   digest of the packaged content; the result is then exactly the packaged content. *)
Theorem C09_restore_sound :
  forall p L, restore H hex p = Some L ->
    p_version p = 1 /\ hex (H (ser (p_snap p))) = p_checksum p /\ L = from_snapshot (p_snap p).
Proof. exact (restore_sound H hex). Qed.

Theorem C09_into_snapshot_sound :
  forall p s, into_snapshot H hex p = Some s ->
    p_version p = 1 /\ hex (H (ser (p_snap p))) = p_checksum p /\ s = p_snap p.
Proof. exact (into_snapshot_sound H hex). Qed.

Theorem C09_from_snapshot_package_sound :
  forall p L, from_snapshot_package H hex p = Some L ->
    p_version p = 1 /\ hex (H (ser (p_snap p))) = p_checksum p /\ L = from_snapshot (p_snap p).
Proof. exact (from_snapshot_package_sound H hex). Qed.

Theorem C09_from_snapshot_json_sound :
  forall text L, from_snapshot_json H hex text = Some L ->
    exists p, package_of_text text = Some p /\
      p_version p = 1 /\ hex (H (ser (p_snap p))) = p_checksum p /\ L = from_snapshot (p_snap p).
Proof. exact (from_snapshot_json_sound H hex). Qed.

(* and conversely *)
Theorem C09_restore_complete :
  forall p, p_version p = 1 -> hex (H (ser (p_snap p))) = p_checksum p ->
    restore H hex p = Some (from_snapshot (p_snap p)).
Proof. exact (restore_complete H hex). Qed.

(* the three entry points are the same composition *)
Theorem C09_entry_points :
  (forall p, from_snapshot_package H hex p = restore H hex p) /\
  (forall text, from_snapshot_json H hex text =
                match package_of_text text with Some p => restore H hex p | None => None end).
Proof. exact (conj (from_snapshot_package_restore H hex) (from_snapshot_json_restore H hex)). Qed.

(* The checksum input determines the price, the stored aggregates, every field of every
   order, and the number and the sequence of the orders. *)
Theorem C09_ser_inj :
  forall s1 s2, wf_snapshot s1 -> wf_snapshot s2 -> ser s1 = ser s2 -> s1 = s2.
Proof. exact ser_inj. Qed.

(* An accepted package that carries the checksum of [package_new s] carries exactly
   [refresh s] — or exhibits a second preimage of H. *)
Theorem C09_tamper :
  (forall a b, hex a = hex b -> a = b) ->
  forall s p' L',
    wf_snapshot (refresh s) -> wf_snapshot (p_snap p') ->
    restore H hex p' = Some L' ->
    p_checksum p' = p_checksum (package_new H hex s) ->
    (p_snap p' = refresh s /\ L' = from_snapshot (refresh s)) \/
    (ser (p_snap p') <> ser (refresh s) /\ H (ser (p_snap p')) = H (ser (refresh s))).
Proof. exact (tamper H hex). Qed.

(* the same from the text, with no assumption on the accepted text *)
Theorem C09_tamper_json :
  (forall a b, hex a = hex b -> a = b) ->
  forall s text L',
    wf_snapshot (refresh s) ->
    from_snapshot_json H hex text = Some L' ->
    exists p', package_of_text text = Some p' /\
      p_version p' = 1 /\ hex (H (ser (p_snap p'))) = p_checksum p' /\ L' = from_snapshot (p_snap p') /\
      (p_checksum p' = p_checksum (package_new H hex s) ->
       (p_snap p' = refresh s /\ L' = from_snapshot (refresh s)) \/
       (ser (p_snap p') <> ser (refresh s) /\ H (ser (p_snap p')) = H (ser (refresh s)))).
Proof. exact (tamper_json H hex). Qed.

(* under a changed checksum, acceptance requires the new text to be the digest of the new content *)
Theorem C09_tamper_changed_checksum :
  forall p' L', restore H hex p' = Some L' -> p_checksum p' = hex (H (ser (p_snap p'))).
Proof. exact (tamper_changed_checksum H hex). Qed.

(* a restore of what was packaged yields exactly the content that was snapshotted *)
Theorem C09_restore_roundtrip :
  forall s, restore H hex (package_new H hex s) = Some (from_snapshot (refresh s)).
Proof. exact (restore_roundtrip H hex). Qed.

Theorem C09_json_restore_roundtrip :
  (forall a, plain_str (hex a) = true) ->
  forall s, wf_snapshot (refresh s) ->
    from_snapshot_json H hex (text_of_package (package_new H hex s)) = Some (from_snapshot (refresh s)).
Proof. exact (json_restore_roundtrip H hex). Qed.

(* torn writes: every proper prefix of a serialized package fails to parse (parser model) *)
Theorem C09_package_prefix_rejected :
  forall p t u, plain_str (p_checksum p) = true ->
    text_of_package p = t ++ u -> u <> [] ->
    parse_top t = None /\ package_of_text t = None /\ from_snapshot_json H hex t = None.
Proof. exact (package_prefix_rejected H hex). Qed.

End C09.

(* every proper prefix of any printed non-number value is rejected *)
Theorem C09_prefix_rejected :
  forall j t u, plain_json j = true -> is_num j = false ->
    print_json j = t ++ u -> u <> [] -> parse_top t = None.
Proof. exact prefix_rejected. Qed.

(* the library's checksum text *)
Theorem C09_hex_lower_inj : forall a b, hex_lower a = hex_lower b -> a = b.
Proof. exact hex_lower_inj. Qed.
Theorem C09_hex_lower_plain : forall a, plain_str (hex_lower a) = true.
Proof. exact hex_lower_plain. Qed.

Corollary C09_tamper_json_hex :
  forall (H : list ascii -> list ascii) s text L',
    wf_snapshot (refresh s) ->
    from_snapshot_json H hex_lower text = Some L' ->
    exists p', package_of_text text = Some p' /\
      p_version p' = 1 /\ hex_lower (H (ser (p_snap p'))) = p_checksum p' /\
      L' = from_snapshot (p_snap p') /\
      (p_checksum p' = p_checksum (package_new H hex_lower s) ->
       (p_snap p' = refresh s /\ L' = from_snapshot (refresh s)) \/
       (ser (p_snap p') <> ser (refresh s) /\ H (ser (p_snap p')) = H (ser (refresh s)))).
Proof. intros H. exact (tamper_json H hex_lower hex_lower_inj). Qed.

Corollary C09_torn_write_hex :
  forall (H : list ascii -> list ascii) s t u,
    text_of_package (package_new H hex_lower s) = t ++ u -> u <> [] ->
    from_snapshot_json H hex_lower t = None.
Proof.
  intros H s t u E Hu.
  exact (proj2 (proj2 (package_prefix_rejected H hex_lower (package_new H hex_lower s) t u
                         (hex_lower_plain _) E Hu))).
Qed.

Corollary C09_json_restore_roundtrip_hex :
  forall (H : list ascii -> list ascii) s, wf_snapshot (refresh s) ->
    from_snapshot_json H hex_lower (text_of_package (package_new H hex_lower s))
    = Some (from_snapshot (refresh s)).
Proof. intros H. exact (json_restore_roundtrip H hex_lower hex_lower_plain). Qed.

(* the well-formedness hypothesis on [refresh s] follows from the ranges of the content *)
Theorem C09_refresh_wf :
  forall s, sn_price s < W -> Forall jwf_order (sn_orders s) ->
    N.of_nat (length (sn_orders s)) < W -> wf_snapshot (refresh s).
Proof. exact refresh_wf. Qed.

(* PriceLevel::snapshot_to_json followed by PriceLevel::from_snapshot_json *)
Corollary C09_level_json_roundtrip_hex :
  forall (H : list ascii -> list ascii) l, wf_snapshot (refresh (snapshot_of l)) ->
    from_snapshot_json H hex_lower (snapshot_to_json H hex_lower l)
    = Some (from_snapshot (refresh (snapshot_of l))).
Proof. intros H l. exact (json_restore_roundtrip H hex_lower hex_lower_plain (snapshot_of l)). Qed.

(* ---- non-vacuity and tightness ---- *)

Definition ex_o1 : order := Iceberg (mkCommon (Uuid 7) 100 Sell 5 (Gtd 18446744073709551615)) 10 20.
Definition ex_o2 : order := Standard (mkCommon (Ulid 9) 100 Sell 6 Gtc) 3.
Definition ex_s : snapshot := mkSnap 100 999 999 999 [ex_o1; ex_o2].     (* lying aggregates *)
Definition idH : list ascii -> list ascii := fun b => b.                  (* an injective "hash" *)
Definition constH : list ascii -> list ascii := fun _ => [].              (* a hash where everything collides *)

(* package_new repairs the aggregates; the package restores; version 2, an edited
   quantity, a swapped order list or an edited checksum do not *)
Example C09_example :
  let p := package_new idH hex_lower ex_s in
  p_snap p = mkSnap 100 13 20 2 [ex_o1; ex_o2] /\
  wf_snapshot (refresh ex_s) /\
  restore idH hex_lower p = Some (from_snapshot (refresh ex_s)) /\
  restore idH hex_lower (mkPkg 2 (p_snap p) (p_checksum p)) = None /\
  restore idH hex_lower (mkPkg 1 (mkSnap 100 13 20 2 [ex_o2; ex_o1]) (p_checksum p)) = None /\
  restore idH hex_lower (mkPkg 1 (mkSnap 101 13 20 2 [ex_o1; ex_o2]) (p_checksum p)) = None /\
  restore idH hex_lower (mkPkg 1 (p_snap p) (lit "00")) = None /\
  from_snapshot_json idH hex_lower (text_of_package p) = Some (from_snapshot (refresh ex_s)).
Proof.
  cbv zeta.
  split; [vm_compute; reflexivity|].
  split.
  { unfold wf_snapshot. cbn [refresh ex_s sn_price sn_vis sn_hid sn_cnt sn_orders].
    split; [vm_compute; reflexivity|]. split; [vm_compute; reflexivity|].
    split; [vm_compute; reflexivity|]. split; [vm_compute; reflexivity|].
    constructor; [|constructor; [|constructor]];
      unfold jwf_order, wf_common, wf_oid, wf_tif; cbn [ex_o1 ex_o2 com c_id c_price c_ts c_tif];
      repeat match goal with |- _ /\ _ => split end; try exact I;
      match goal with |- _ < _ => vm_compute; reflexivity end. }
  split; [vm_compute; reflexivity|]. split; [vm_compute; reflexivity|].
  split; [vm_compute; reflexivity|]. split; [vm_compute; reflexivity|].
  split; [vm_compute; reflexivity|]. vm_compute; reflexivity.
Qed.

(* the collision arm of C09_tamper cannot be dropped: with a colliding H a package with
   different content and the same checksum is accepted *)
Example C09_collision_arm_needed :
  let p := package_new constH hex_lower ex_s in
  let p' := mkPkg 1 (mkSnap 101 13 20 2 [ex_o1; ex_o2]) (p_checksum p) in
  restore constH hex_lower p' = Some (from_snapshot (p_snap p')) /\ p_snap p' <> p_snap p.
Proof. cbv zeta. split; [vm_compute; reflexivity|discriminate]. Qed.

Check C09_restore_sound :
  forall H hex p L, restore H hex p = Some L ->
    p_version p = 1 /\ hex (H (ser (p_snap p))) = p_checksum p /\ L = from_snapshot (p_snap p).
Check C09_ser_inj : forall s1 s2, wf_snapshot s1 -> wf_snapshot s2 -> ser s1 = ser s2 -> s1 = s2.
Check C09_tamper :
  forall H hex, (forall a b, hex a = hex b -> a = b) ->
  forall s p' L',
    wf_snapshot (refresh s) -> wf_snapshot (p_snap p') ->
    restore H hex p' = Some L' ->
    p_checksum p' = p_checksum (package_new H hex s) ->
    (p_snap p' = refresh s /\ L' = from_snapshot (refresh s)) \/
    (ser (p_snap p') <> ser (refresh s) /\ H (ser (p_snap p')) = H (ser (refresh s))).
Check C09_restore_roundtrip :
  forall H hex s, restore H hex (package_new H hex s) = Some (from_snapshot (refresh s)).
Check C09_prefix_rejected :
  forall j t u, plain_json j = true -> is_num j = false ->
    print_json j = t ++ u -> u <> [] -> parse_top t = None.
Check C09_torn_write_hex :
  forall (H : list ascii -> list ascii) s t u,
    text_of_package (package_new H hex_lower s) = t ++ u -> u <> [] ->
    from_snapshot_json H hex_lower t = None.

Print Assumptions C09_restore_sound.
Print Assumptions C09_into_snapshot_sound.
Print Assumptions C09_from_snapshot_package_sound.
Print Assumptions C09_from_snapshot_json_sound.
Print Assumptions C09_restore_complete.
Print Assumptions C09_entry_points.
Print Assumptions C09_ser_inj.
Print Assumptions C09_tamper.
Print Assumptions C09_tamper_json.
Print Assumptions C09_tamper_changed_checksum.
Print Assumptions C09_restore_roundtrip.
Print Assumptions C09_json_restore_roundtrip.
Print Assumptions C09_package_prefix_rejected.
Print Assumptions C09_prefix_rejected.
Print Assumptions C09_hex_lower_inj.
Print Assumptions C09_hex_lower_plain.
Print Assumptions C09_tamper_json_hex.
Print Assumptions C09_torn_write_hex.
Print Assumptions C09_json_restore_roundtrip_hex.
Print Assumptions C09_refresh_wf.
Print Assumptions C09_level_json_roundtrip_hex.
