(* Level.v — PriceLevel, sequential semantics (/repo/src/price_level/level.rs,
   statistics.rs, execution/match_result.rs).  The per-order matching function
   is a parameter [mf] of the section: level-level theorems are proved for every
   [mf] meeting an interface that Proofs/OrderProofs.v proves of [match_against]. *)
From PL Require Export Model.Queue.

Record stats := mkStats {
  s_added : N; s_removed : N; s_executed : N; s_qty : N; s_value : N }.
Definition stats0 : stats := mkStats 0 0 0 0 0.

Record level := mkLevel {
  price : N;
  cvis : N;      (* AtomicU64 visible_quantity (machine value) *)
  chid : N;      (* AtomicU64 hidden_quantity *)
  ccnt : N;      (* AtomicUsize order_count *)
  lq : queue;
  st : stats }.

Definition new_level (p : N) : level := mkLevel p 0 0 0 empty_queue stats0.

Definition total_quantity (l : level) : N := cvis l + chid l.   (* checked add in Rust *)

Definition record_added (s : stats) : stats :=
  mkStats (wadd (s_added s) 1) (s_removed s) (s_executed s) (s_qty s) (s_value s).
Definition record_removed (s : stats) : stats :=
  mkStats (s_added s) (wadd (s_removed s) 1) (s_executed s) (s_qty s) (s_value s).
Definition record_execution (s : stats) (qty prc : N) : stats :=
  mkStats (s_added s) (s_removed s) (wadd (s_executed s) 1)
          (wadd (s_qty s) qty) (wadd (s_value s) (qty * prc)).

(* PriceLevel::add_order *)
Definition add_order (l : level) (o : order) : level :=
  mkLevel (price l) (wadd (cvis l) (vis o)) (wadd (chid l) (hid o)) (wadd (ccnt l) 1)
          (push (lq l) o) (record_added (st l)).

(* Transaction (timestamp not modelled); [tx_idx] is the generator counter value
   from which the transaction id is derived. *)
Record tx := mkTx {
  tx_idx : N; tx_taker : oid; tx_maker : oid; tx_price : N; tx_qty : N; tx_side : side }.

Record result := mkResult {
  r_taker : oid; r_txs : list tx; r_remaining : N; r_complete : bool; r_filled : list oid }.

Definition result_new (taker : oid) (q : N) : result := mkResult taker [] q false [].

(* MatchResult::add_transaction *)
Definition add_transaction (r : result) (t : tx) : result :=
  let rem := sat_sub (r_remaining r) (tx_qty t) in
  mkResult (r_taker r) (r_txs r ++ [t]) rem (rem =? 0) (r_filled r).

Definition add_filled (r : result) (k : oid) : result :=
  mkResult (r_taker r) (r_txs r) (r_remaining r) (r_complete r) (r_filled r ++ [k]).

Definition executed_quantity (r : result) : N :=
  fold_left (fun a t => a + tx_qty t) (r_txs r) 0.

Definition is_some {A} (x : option A) : bool := match x with Some _ => true | None => false end.

Section WithMf.
Variable mf : order -> N -> mres.

Record mstate := mkMstate {
  ms_lvl : level; ms_gen : N; ms_res : result; ms_rem : N; ms_aside : list order }.

Definition set_queue (l : level) (q : queue) : level :=
  mkLevel (price l) (cvis l) (chid l) (ccnt l) q (st l).

(* One visit of a popped maker [o] (the body of the while loop after the pop,
   for a maker that is not set aside). *)
Definition visit (l : level) (gen : N) (res : result) (taker : oid) (rem : N) (o : order)
  : level * N * result * N :=
  let r := mf o rem in
  let consumed := m_consumed r in
  let hr := m_hidden_reduced r in
  (* if consumed > 0 { visible.fetch_sub; transaction; filled id } *)
  let '(cv1, gen1, res1) :=
    if 0 <? consumed then
      let t := mkTx gen taker (oid_of o) (price l) consumed (opposite (side_of o)) in
      let res' := add_transaction res t in
      let res'' := if is_some (m_updated r) then res' else add_filled res' (oid_of o) in
      (wsub (cvis l) consumed, wadd gen 1, res'')
    else (cvis l, gen, res) in
  let st1 := record_execution (st l) consumed (price_of o) in
  match m_updated r with
  | Some u =>
      let '(ch2, cv2) :=
        if 0 <? hr then (wsub (chid l) hr, wadd cv1 hr) else (chid l, cv1) in
      (mkLevel (price l) cv2 ch2 (ccnt l) (push (lq l) u) st1, gen1, res1, m_remaining r)
  | None =>
      let ch2 :=
        match o with
        | Iceberg _ _ h | Reserve _ _ h _ _ _ =>
            if (0 <? h) && (hr =? 0) then wsub (chid l) h else chid l
        | _ => chid l
        end in
      (mkLevel (price l) cv1 ch2 (wsub (ccnt l) 1) (lq l) st1, gen1, res1, m_remaining r)
  end.

(* while remaining > 0 { ... } on explicit fuel; None = fuel exhausted. *)
Fixpoint match_loop (fuel : nat) (taker : oid) (s : mstate) : option mstate :=
  if ms_rem s =? 0 then Some s else
  match fuel with
  | O => None
  | S f =>
      match pop (lq (ms_lvl s)) with
      | (None, q') =>
          Some (mkMstate (set_queue (ms_lvl s) q') (ms_gen s) (ms_res s) (ms_rem s) (ms_aside s))
      | (Some o, q') =>
          let l := set_queue (ms_lvl s) q' in
          let r := mf o (ms_rem s) in
          if (m_consumed r =? 0) && (m_hidden_reduced r =? 0) && is_some (m_updated r) then
            match_loop f taker (mkMstate l (ms_gen s) (ms_res s) (ms_rem s) (ms_aside s ++ [o]))
          else
            let '(l', gen', res', rem') := visit l (ms_gen s) (ms_res s) taker (ms_rem s) o in
            match_loop f taker (mkMstate l' gen' res' rem' (ms_aside s))
      end
  end.

Definition finish (s : mstate) : level * N * result :=
  let q' := fold_left push (ms_aside s) (lq (ms_lvl s)) in
  let res := ms_res s in
  (set_queue (ms_lvl s) q', ms_gen s,
   mkResult (r_taker res) (r_txs res) (ms_rem s) (ms_rem s =? 0) (r_filled res)).

(* PriceLevel::match_order *)
Definition match_order (fuel : nat) (l : level) (gen : N) (qty : N) (taker : oid)
  : option (level * N * result) :=
  match match_loop fuel taker (mkMstate l gen (result_new taker qty) qty []) with
  | Some s => Some (finish s)
  | None => None
  end.

End WithMf.

(* OrderUpdate *)
Inductive update :=
| UpdatePrice (k : oid) (new_price : N)
| UpdateQuantity (k : oid) (new_quantity : N)
| UpdatePriceAndQuantity (k : oid) (new_price new_quantity : N)
| Cancel (k : oid)
| Replace (k : oid) (p q : N) (s : side).

Inductive uout := UOk (o : option order) | UErr.

(* Cancel / price move: remove from the map, lower the counters. *)
Definition take_out (l : level) (k : oid) : level * uout :=
  match qremove (lq l) k with
  | (Some o, q') =>
      (mkLevel (price l) (wsub (cvis l) (vis o)) (wsub (chid l) (hid o)) (wsub (ccnt l) 1)
               q' (record_removed (st l)), UOk (Some o))
  | (None, _) => (l, UOk None)
  end.

Definition delta (c old new : N) : N :=
  if old =? new then c else if old <? new then wadd c (new - old) else wsub c (old - new).

(* UpdateQuantity at the level's price. *)
Definition amend (l : level) (k : oid) (nq : N) : level * uout :=
  match qfind (lq l) k with
  | Some _ =>
      match qremove (lq l) k with
      | (Some old, q') =>
          let new := with_reduced_quantity old nq in
          (mkLevel (price l) (delta (cvis l) (vis old) (vis new))
                   (delta (chid l) (hid old) (hid new)) (ccnt l) (push q' new) (st l),
           UOk (Some new))
      | (None, _) => (l, UOk None)
      end
  | None => (l, UOk None)
  end.

(* PriceLevel::update_order *)
Definition update_order (l : level) (u : update) : level * uout :=
  match u with
  | UpdatePrice k np => if np =? price l then (l, UErr) else take_out l k
  | UpdateQuantity k nq => amend l k nq
  | UpdatePriceAndQuantity k np nq => if np =? price l then amend l k nq else take_out l k
  | Cancel k => take_out l k
  | Replace k p q _ => if p =? price l then amend l k q else take_out l k
  end.

(* Snapshot: price, the three counters as read, and the listing. *)
Record snapshot := mkSnap {
  sn_price : N; sn_vis : N; sn_hid : N; sn_cnt : N; sn_orders : list order }.

Definition snapshot_of (l : level) : snapshot :=
  mkSnap (price l) (cvis l) (chid l) (ccnt l) (to_vec (lq l)).

(* PriceLevelSnapshot::refresh_aggregates (saturating sums). *)
Definition refresh (s : snapshot) : snapshot :=
  mkSnap (sn_price s)
         (fold_left (fun a o => sat_add a (vis o)) (sn_orders s) 0)
         (fold_left (fun a o => sat_add a (hid o)) (sn_orders s) 0)
         (N.of_nat (length (sn_orders s)))
         (sn_orders s).

(* PriceLevel::from_snapshot and From<&PriceLevelSnapshot> *)
Definition from_snapshot (s : snapshot) : level :=
  let s' := refresh s in
  mkLevel (sn_price s') (sn_vis s') (sn_hid s') (sn_cnt s') (from_vec (sn_orders s')) stats0.

(* TryFrom<PriceLevelData>, Deserialize and FromStr: new + add_order per listed order. *)
Definition from_data (p : N) (os : list order) : level := fold_left add_order os (new_level p).
