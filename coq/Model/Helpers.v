(* Helpers.v — the small PURE helper API of the crate, function by function after
     /repo/src/orders/base.rs            Side::opposite, OrderId::from_u64 / nil / Default
     /repo/src/orders/time_in_force.rs   is_immediate, has_expiry, is_expired
     /repo/src/orders/order_type.rs      accessors, is_immediate, is_fill_or_kill, is_post_only,
                                         with_reduced_quantity, refresh_iceberg
     /repo/src/execution/transaction.rs  maker_side, total_value
     /repo/src/execution/match_result.rs executed_quantity, executed_value, add_filled_order_id
     /repo/src/execution/list.rs         From<Vec<Transaction>>, into_vec, len, is_empty
     /repo/src/price_level/entry.rs      OrderBookEntry: price / quantities, PartialEq, Ord
     /repo/src/price_level/level.rs      PriceLevel: PartialEq, Ord, total_quantity
     /repo/src/price_level/statistics.rs reset, record_order_added / removed / execution
   Executable Gallina only; no proofs live in Model/.

   Already part of the model and REUSED here (not duplicated):
     Base.opposite                      = Side::opposite
     Order.oid_of price_of side_of ts_of tif_of vis hid
                                        = OrderType::id price side timestamp time_in_force
                                          visible_quantity hidden_quantity
     Order.with_reduced_quantity        = OrderType::with_reduced_quantity
     Level.add_filled                   = MatchResult::add_filled_order_id
     Level.record_added / record_removed / record_execution
                                        = PriceLevelStatistics::record_order_added / _removed / record_execution
                                          (the five counters; the three time fields are not modelled)
     Level.executed_quantity, Level.total_quantity
                                        = the MATHEMATICAL sums (unbounded N); the machine values are
                                          [executed_quantity_w] / [level_total_quantity_w] below.

   ARITHMETIC.  `price * quantity`, `Iterator::sum()` and `visible + hidden` are plain u64
   operations in the code: they WRAP modulo 2^64 in a build without overflow checks (release
   profile) and PANIC ("attempt to multiply / add with overflow") in a build with overflow checks
   (debug profile).  Each such function therefore has two parts here:
     f     : the wrapping machine value ( ... mod W )                  — release behaviour
     f_ovf : bool, true exactly when a debug build panics in the call  — debug behaviour
   Since every summand is non-negative, "some intermediate result leaves the u64 range" is
   equivalent to "the mathematical total is >= 2^64"; that is what the [_ovf] flags test.
   All arguments are assumed to be u64 values (< W); that is what the harness supplies. *)
From PL Require Export Model.Level.
Local Open Scope N_scope.

(* ------------------------------------------------------------------ *)
(* orders/base.rs                                                      *)
(* ------------------------------------------------------------------ *)

(* Side::opposite is [Base.opposite]. *)

(* OrderId::from_u64: the eight bytes of [id], most significant first, followed by eight zero
   bytes, as a UUID.  The model's [Uuid n] carries the 128-bit big-endian number (Uuid::as_u128),
   so the id is n = id * 2^64. *)
Definition oid_from_u64 (id : N) : oid := Uuid (id * W).

(* OrderId::nil: the all-zero UUID. *)
Definition oid_nil : oid := Uuid 0.

(* impl Default for OrderId is OrderId::new(), a fresh RANDOM ULID: not a function of its
   (absent) arguments.  Only the variant is determined; a returned id [k] is acceptable iff
   [oid_is_ulid k]. *)
Definition oid_is_ulid (k : oid) : bool := match k with Ulid _ => true | Uuid _ => false end.

(* ------------------------------------------------------------------ *)
(* orders/time_in_force.rs                                             *)
(* ------------------------------------------------------------------ *)

Definition tif_is_immediate (t : tif) : bool :=
  match t with Ioc | Fok => true | _ => false end.

Definition tif_has_expiry (t : tif) : bool :=
  match t with Gtd _ | Day => true | _ => false end.

(* is_expired(current_timestamp, market_close_timestamp): `current >= expiry`. *)
Definition tif_is_expired (t : tif) (now : N) (close : option N) : bool :=
  match t with
  | Gtd expiry => expiry <=? now
  | Day => match close with Some c => c <=? now | None => false end
  | _ => false
  end.

(* ------------------------------------------------------------------ *)
(* orders/order_type.rs                                                *)
(* ------------------------------------------------------------------ *)

(* id / price / side / timestamp / time_in_force / visible_quantity / hidden_quantity are
   Order.oid_of / price_of / side_of / ts_of / tif_of / vis / hid. *)

Definition order_is_immediate (o : order) : bool := tif_is_immediate (tif_of o).

Definition order_is_fill_or_kill (o : order) : bool :=
  match tif_of o with Fok => true | _ => false end.

Definition order_is_post_only (o : order) : bool :=
  match o with PostOnly _ _ => true | _ => false end.

(* The variants whose displayed quantity [with_reduced_quantity] rewrites; every other variant
   falls into the `_ => self.clone()` arm and IGNORES the requested quantity. *)
Definition wrq_applies (o : order) : bool :=
  match o with Standard _ _ | Iceberg _ _ _ | PostOnly _ _ => true | _ => false end.

(* OrderType::refresh_iceberg(refresh_amount) -> (Self, used_hidden):
     new_hidden  = hidden.saturating_sub(refresh_amount)
     used_hidden = hidden - new_hidden
     visible     = refresh_amount            (NOT used_hidden; the old display is dropped)
   for IcebergOrder and ReserveOrder; every other variant: (clone, 0). *)
Definition refresh_iceberg (o : order) (amt : N) : order * N :=
  match o with
  | Iceberg c _ h =>
      let nh := sat_sub h amt in (Iceberg c amt nh, h - nh)
  | Reserve c _ h thr a au =>
      let nh := sat_sub h amt in (Reserve c amt nh thr a au, h - nh)
  | _ => (o, 0)
  end.

(* ------------------------------------------------------------------ *)
(* execution/transaction.rs                                            *)
(* ------------------------------------------------------------------ *)

(* Transaction::maker_side: its own match on taker_side (not a call of Side::opposite). *)
Definition tx_maker_side (t : tx) : side :=
  match tx_side t with Buy => Sell | Sell => Buy end.

(* Transaction::total_value: `self.price * self.quantity`. *)
Definition tx_total_value (t : tx) : N := (tx_price t * tx_qty t) mod W.
Definition tx_total_value_ovf (t : tx) : bool := W <=? tx_price t * tx_qty t.

(* ------------------------------------------------------------------ *)
(* execution/match_result.rs                                           *)
(* ------------------------------------------------------------------ *)

(* executed_quantity: `.iter().map(|t| t.quantity).sum()`; [Level.executed_quantity] is the
   mathematical sum. *)
Definition executed_quantity_w (r : result) : N := executed_quantity r mod W.
Definition executed_quantity_ovf (r : result) : bool := W <=? executed_quantity r.

(* executed_value: `.iter().map(|t| t.price * t.quantity).sum()`. *)
Definition executed_value_raw (r : result) : N :=
  fold_left (fun a t => a + tx_price t * tx_qty t) (r_txs r) 0.
Definition executed_value (r : result) : N := executed_value_raw r mod W.
Definition executed_value_ovf (r : result) : bool := W <=? executed_value_raw r.

(* add_filled_order_id is [Level.add_filled].  average_price (f64) is not modelled. *)

(* ------------------------------------------------------------------ *)
(* execution/list.rs — TransactionList is a newtype around Vec<Transaction>; the model's
   transaction list is [list tx] itself.                               *)
(* ------------------------------------------------------------------ *)

Definition txl := list tx.
Definition txl_from_vec (v : list tx) : txl := v.          (* From<Vec<Transaction>> / from_vec *)
Definition txl_into_vec (l : txl) : list tx := l.          (* into_vec / From<TransactionList> *)
Definition txl_len (l : txl) : N := N.of_nat (length l).
Definition txl_is_empty (l : txl) : bool := match l with [] => true | _ => false end.

(* ------------------------------------------------------------------ *)
(* price_level/level.rs — PartialEq / Eq / PartialOrd / Ord compare the PRICE only. *)
(* ------------------------------------------------------------------ *)

Definition level_eqb (a b : level) : bool := price a =? price b.
Definition level_cmp (a b : level) : comparison := N.compare (price a) (price b).
(* the derived operators of PartialOrd *)
Definition level_ltb (a b : level) : bool := match level_cmp a b with Lt => true | _ => false end.
Definition level_leb (a b : level) : bool := match level_cmp a b with Gt => false | _ => true end.

(* total_quantity: `self.visible_quantity() + self.hidden_quantity()` on the two counters. *)
Definition level_total_quantity_w (l : level) : N := (cvis l + chid l) mod W.
Definition level_total_quantity_ovf (l : level) : bool := W <=? cvis l + chid l.

(* ------------------------------------------------------------------ *)
(* price_level/entry.rs — OrderBookEntry { level: Arc<PriceLevel>, index: usize }; crate-private
   (the module is not re-exported), so it is modelled and its laws proved, but it cannot be
   reached by the differential check. *)
(* ------------------------------------------------------------------ *)

Record entry := mkEntry { e_level : level; e_index : N }.
Definition entry_price (e : entry) : N := price (e_level e).
Definition entry_visible_quantity (e : entry) : N := cvis (e_level e).
Definition entry_total_quantity_w (e : entry) : N := level_total_quantity_w (e_level e).
Definition entry_total_quantity_ovf (e : entry) : bool := level_total_quantity_ovf (e_level e).
Definition entry_order_count (e : entry) : N := ccnt (e_level e).
Definition entry_eqb (a b : entry) : bool := entry_price a =? entry_price b.
Definition entry_cmp (a b : entry) : comparison := N.compare (entry_price a) (entry_price b).
Definition entry_leb (a b : entry) : bool := match entry_cmp a b with Gt => false | _ => true end.

(* ------------------------------------------------------------------ *)
(* price_level/statistics.rs                                           *)
(* ------------------------------------------------------------------ *)

(* reset: the five counters (and, not modelled, the time fields) are stored back to zero. *)
Definition stats_reset (s : stats) : stats := stats0.

(* record_execution evaluates `quantity * price` with a plain `*`: a debug build panics when the
   product leaves the u64 range — AFTER orders_executed and quantity_executed were bumped and
   BEFORE value_executed is touched; [record_execution_partial] is the state the panicking call
   leaves behind.  A release build continues with the wrapped product, which is what
   [Level.record_execution] computes: (value + qty * prc) mod W. *)
Definition record_execution_ovf (qty prc : N) : bool := W <=? qty * prc.
Definition record_execution_partial (s : stats) (qty : N) : stats :=
  mkStats (s_added s) (s_removed s) (wadd (s_executed s) 1) (wadd (s_qty s) qty) (s_value s).

(* A little command language over the statistics, for the differential check. *)
Inductive stats_op := SAdded | SRemoved | SExec (qty prc : N) | SReset.

Definition stats_apply (s : stats) (o : stats_op) : stats :=
  match o with
  | SAdded => record_added s
  | SRemoved => record_removed s
  | SExec q p => record_execution s q p
  | SReset => stats_reset s
  end.

(* release build: all operations run *)
Definition stats_run (s : stats) (ops : list stats_op) : stats := fold_left stats_apply ops s.

(* debug build: stops at the first overflowing record_execution; (index of that call, state) *)
Fixpoint stats_run_debug (i : N) (s : stats) (ops : list stats_op) : stats * option N :=
  match ops with
  | [] => (s, None)
  | SExec q p :: ops' =>
      if record_execution_ovf q p then (record_execution_partial s q, Some i)
      else stats_run_debug (i + 1) (record_execution s q p) ops'
  | o :: ops' => stats_run_debug (i + 1) (stats_apply s o) ops'
  end.
