(* Json.v — the library's serde / serde_json encodings (C17, C09).

   What is modelled
   * a JSON AST with integer numbers only ([JNum z], any size; duplicate keys
     representable).  FLOATS ARE NOT MODELLED: no serde type of the crate has a
     float field, serde_json never prints one for these types, and a float (or
     an integer outside 64 bits, which serde_json turns into a float) is an
     error for every integer field — the typed decoders below reject [JNum z]
     outside the field's range, which is the same verdict.
   * serde-derive's generated Deserialize for the crate's types as combinators:
     externally tagged enums ("Tag" or {"Tag":payload}; exactly one key; a unit
     variant in map form needs payload null), [rename(serialize)] + [alias]
     (the deserialize name stays the Rust identifier), structs from a map
     (fields in any order, unknown key ignored, duplicate known key = error,
     missing field = error except Option<_> = None) or from a sequence (exactly
     all fields, in order), the hand-written visitors of PriceLevelSnapshot and
     PriceLevelStatistics (map only, unknown key = error, duplicate = error,
     defaults for the missing fields the visitor defaults), OrderId / Uuid as
     strings.
   * ID TEXT: the FULL text model of Model/Ids.v / Model/Text.v (the vendored
     uuid and ulid crates), shared with the text codecs (C16, C18).  Printers
     are the canonical ones ([Ids.print_uuid]: 36 chars lowercase hyphenated;
     [Ids.print_ulid]: 26 Crockford chars, upper case).  [parse_uuid] is
     [Ids.parse_uuid] = Uuid::from_str: 32 hex digits / 8-4-4-4-12 hyphenated /
     braced / "urn:uuid:" + hyphenated, hex digits in either case.  [parse_oid]
     is [Text.parse_oid] = OrderId::from_str: Uuid first, otherwise 26
     characters of Crockford's alphabet in either case -> Ulid of the value
     mod 2^128 (the ulid crate drops the two excess bits silently).  The text
     parser's three-valued outcome is mapped to [option] ([POk v] -> [Some v],
     [PErr] / [PPanic] -> [None]); the [PPanic] branch is unreachable
     ([parse_oid_no_panic] in Proofs/JsonProofs.v, from C18).
   * [print_json]: serde_json::to_string on these values — compact, no spaces,
     decimal integers, strings between quotes WITHOUT escaping.  RESTRICTION:
     correct for "plain" strings only (every byte >= 0x20 and different from
     '"' and '\'); every string the library prints for these types is an id, an
     enum tag, a field name or a hex checksum, all plain ASCII ([plain_json]).
   * [parse_json]: a recursive-descent JSON reader on explicit fuel: whitespace,
     null/true/false, integers (optional '-', no leading zero, "-0" and
     fraction/exponent = not modelled = None), strings without escapes (any
     byte >= 0x20 except '"' and '\'; UTF-8 validity not checked), arrays,
     objects.  It is the verified left inverse of [print_json] on plain
     values; beyond that serde_json's tokenizer is trusted, not modelled
     (escapes, floats, the 128-level recursion limit, UTF-8 validation).

   Executable Gallina only; proofs are in Proofs/JsonProofs.v. *)
From Coq Require Import Ascii.
From Coq Require String.
Import String.StringSyntax.
Delimit Scope string_scope with string.
From PL Require Export Model.Level.
(* the id text model; NOT imported (Text.v has its own str_eqb / field / print_N ...):
   used through qualified names [Ids.parse_uuid], [Text.parse_oid] ... *)
From PL Require Model.Utf8 Model.Ids Model.Text.
Local Open Scope N_scope.
Local Open Scope char_scope.

Definition str := list ascii.
(* the same type as the text model's strings: no conversion needed *)
Example str_is_text_str : str = Utf8.str := eq_refl.
Definition lit (x : String.string) : str := String.list_ascii_of_string x.
Arguments lit _%string.

Fixpoint str_eqb (a b : str) : bool :=
  match a, b with
  | [], [] => true
  | x :: a', y :: b' => Ascii.eqb x y && str_eqb a' b'
  | _, _ => false
  end.

Inductive json :=
| JNull
| JBool (b : bool)
| JNum (n : Z)
| JStr (s : str)
| JArr (l : list json)
| JObj (m : list (str * json)).

Definition W32 : N := 4294967296.
Definition W128 : N := 340282366920938463463374607431768211456.
Definition I64_MIN : Z := (-9223372036854775808)%Z.
Definition I64_MAX : Z := 9223372036854775807%Z.

Definition jN (n : N) : json := JNum (Z.of_N n).
Definition jtag (t : String.string) : json := JStr (lit t).
Definition jvariant (t : String.string) (v : json) : json := JObj [(lit t, v)].
Definition jfield (k : String.string) (v : json) : str * json := (lit k, v).
Arguments jtag _%string.
Arguments jvariant _%string _.
Arguments jfield _%string _.

(* ------------------------------------------------------------------ *)
(* scalars *)

Definition of_json_uint (bound : N) (j : json) : option N :=
  match j with
  | JNum z => if (0 <=? z)%Z && (z <? Z.of_N bound)%Z then Some (Z.to_N z) else None
  | _ => None
  end.
Definition of_json_u64 : json -> option N := of_json_uint W.
Definition of_json_u32 : json -> option N := of_json_uint W32.
Definition of_json_i64 (j : json) : option Z :=
  match j with
  | JNum z => if (I64_MIN <=? z)%Z && (z <=? I64_MAX)%Z then Some z else None
  | _ => None
  end.
Definition of_json_bool (j : json) : option bool :=
  match j with JBool b => Some b | _ => None end.
Definition of_json_unit (j : json) : option unit :=
  match j with JNull => Some tt | _ => None end.
Definition of_json_str (j : json) : option str :=
  match j with JStr s => Some s | _ => None end.
Definition of_json_option {A} (dec : json -> option A) (j : json) : option (option A) :=
  match j with JNull => Some None | _ => option_map Some (dec j) end.
Fixpoint of_json_list {A} (dec : json -> option A) (l : list json) : option (list A) :=
  match l with
  | [] => Some []
  | x :: l' =>
      match dec x, of_json_list dec l' with
      | Some a, Some r => Some (a :: r)
      | _, _ => None
      end
  end.
Definition of_json_vec {A} (dec : json -> option A) (j : json) : option (list A) :=
  match j with JArr l => of_json_list dec l | _ => None end.

(* ------------------------------------------------------------------ *)
(* id text *)

(* lowercase hex digits by position (Snapshot.v: the checksum text) *)
Fixpoint index_of (c : ascii) (al : str) : option N :=
  match al with
  | [] => None
  | x :: al' => if Ascii.eqb c x then Some 0 else option_map N.succ (index_of c al')
  end.
Definition digit_of (al : str) (d : N) : ascii := nth (N.to_nat d) al "0"%char.
Definition hex_al : str := lit "0123456789abcdef".
Definition dash : ascii := "-"%char.

(* Result<_, _> / panic of the text model -> what serde sees: a value or an error.
   A panic inside a Deserialize impl would not be an error; [PPanic] is proved
   unreachable for the id parsers (Proofs/JsonProofs.v, [parse_oid_no_panic]). *)
Definition opt_of_outcome {A} (x : Text.outcome A) : option A :=
  match x with Text.POk v => Some v | Text.PErr => None | Text.PPanic => None end.

(* uuid::Uuid with the serde feature, human-readable format: Serialize writes the lower-case
   hyphenated text (= Display), Deserialize asks for a string (deserialize_str; serde_json
   then calls visit_str only, never visit_seq / visit_bytes) and reads it with
   Uuid::from_str = [Ids.parse_uuid]: simple / hyphenated / braced / urn, either case. *)
Definition print_uuid : N -> str := Ids.print_uuid.
Definition parse_uuid : str -> option N := Ids.parse_uuid.
Definition print_ulid : N -> str := Ids.print_ulid.
Definition parse_ulid : str -> option N := Ids.parse_ulid.

(* OrderId: Serialize = to_string, Deserialize = OrderId::from_str (Uuid first, then Ulid) *)
Definition print_oid : oid -> str := Text.print_oid.
Definition parse_oid (s : str) : option oid := opt_of_outcome (Text.parse_oid s).

Definition to_json_oid (o : oid) : json := JStr (print_oid o).
Definition of_json_oid (j : json) : option oid :=
  match j with JStr s => parse_oid s | _ => None end.
(* uuid::Uuid with the serde feature (Transaction::transaction_id) *)
Definition to_json_uuid (n : N) : json := JStr (print_uuid n).
Definition of_json_uuid (j : json) : option N :=
  match j with JStr s => parse_uuid s | _ => None end.

(* ------------------------------------------------------------------ *)
(* serde-derive combinators *)

Inductive eview := EStr (t : str) | EMap (t : str) (v : json).
(* serde_json::Deserializer::deserialize_enum: a string, or an object with exactly one entry *)
Definition enum_view (j : json) : option eview :=
  match j with
  | JStr t => Some (EStr t)
  | JObj [(t, v)] => Some (EMap t v)
  | _ => None
  end.
Definition tag_in (t : str) (names : list String.string) : bool :=
  existsb (fun n => str_eqb t (lit n)) names.
(* the variant name of a unit variant: "Tag" or {"Tag":null} *)
Definition unit_tag (e : eview) : option str :=
  match e with
  | EStr t => Some t
  | EMap t JNull => Some t
  | EMap _ _ => None
  end.

Fixpoint assoc_all (k : str) (m : list (str * json)) : list json :=
  match m with
  | [] => []
  | (k', v) :: m' => if str_eqb k k' then v :: assoc_all k m' else assoc_all k m'
  end.
Inductive fres := FDup | FMissing | FVal (v : json).
Definition field (k : String.string) (m : list (str * json)) : fres :=
  match assoc_all (lit k) m with
  | [] => FMissing
  | [v] => FVal v
  | _ => FDup
  end.
Arguments field _%string _.
(* a field without default *)
Definition req {A} (k : String.string) (dec : json -> option A) (m : list (str * json)) : option A :=
  match field k m with FVal v => dec v | _ => None end.
(* an Option<_> field: missing = None *)
Definition opt {A} (k : String.string) (dec : json -> option A) (m : list (str * json))
  : option (option A) :=
  match field k m with
  | FVal v => of_json_option dec v
  | FMissing => Some None
  | FDup => None
  end.
(* a field the hand-written visitor defaults *)
Definition dflt {A} (k : String.string) (dec : json -> option A) (d : A) (m : list (str * json))
  : option A :=
  match field k m with
  | FVal v => dec v
  | FMissing => Some d
  | FDup => None
  end.
Arguments req {A} _%string _ _.
Arguments opt {A} _%string _ _.
Arguments dflt {A} _%string _ _ _.

(* derive(Deserialize) on a struct / struct variant: visit_map or visit_seq *)
Definition struct_view (fields : list String.string) (j : json) : option (list (str * json)) :=
  match j with
  | JObj m => Some m
  | JArr l => if Nat.eqb (length l) (length fields) then Some (combine (map lit fields) l) else None
  | _ => None
  end.
(* a hand-written visitor with visit_map only and an unknown_field error *)
Definition strict_view (fields : list String.string) (j : json) : option (list (str * json)) :=
  match j with
  | JObj m => if forallb (fun kv => tag_in (fst kv) fields) m then Some m else None
  | _ => None
  end.

Notation "'do' x <- e ; f" := (match e with Some x => f | None => None end)
  (at level 200, x pattern, e at level 100, f at level 200, right associativity).

(* ------------------------------------------------------------------ *)
(* enums *)

Definition to_json_side (s : side) : json :=
  match s with Buy => jtag "BUY" | Sell => jtag "SELL" end.
Definition of_json_side (j : json) : option side :=
  do e <- enum_view j;
  do t <- unit_tag e;
  if tag_in t ["Buy"; "buy"; "BUY"]%string then Some Buy
  else if tag_in t ["Sell"; "sell"; "SELL"]%string then Some Sell
  else None.

Definition to_json_tif (t : tif) : json :=
  match t with
  | Gtc => jtag "GTC" | Ioc => jtag "IOC" | Fok => jtag "FOK" | Day => jtag "DAY"
  | Gtd n => jvariant "GTD" (jN n)
  end.
Definition unit_tif (t : str) : option tif :=
  if tag_in t ["Gtc"; "gtc"; "GTC"]%string then Some Gtc
  else if tag_in t ["Ioc"; "ioc"; "IOC"]%string then Some Ioc
  else if tag_in t ["Fok"; "fok"; "FOK"]%string then Some Fok
  else if tag_in t ["Day"; "day"; "DAY"]%string then Some Day
  else None.
Definition of_json_tif (j : json) : option tif :=
  do e <- enum_view j;
  match e with
  | EStr t => unit_tif t           (* "GTD" alone: a newtype variant cannot come from a string *)
  | EMap t v =>
      if tag_in t ["Gtd"; "gtd"; "GTD"]%string then do n <- of_json_u64 v; Some (Gtd n)
      else do _ <- of_json_unit v; unit_tif t
  end.

Definition to_json_peg (p : peg) : json :=
  match p with
  | BestBid => jtag "BestBid" | BestAsk => jtag "BestAsk"
  | MidPrice => jtag "MidPrice" | LastTrade => jtag "LastTrade"
  end.
Definition of_json_peg (j : json) : option peg :=
  do e <- enum_view j;
  do t <- unit_tag e;
  if tag_in t ["BestBid"]%string then Some BestBid
  else if tag_in t ["BestAsk"]%string then Some BestAsk
  else if tag_in t ["MidPrice"]%string then Some MidPrice
  else if tag_in t ["LastTrade"]%string then Some LastTrade
  else None.

(* ------------------------------------------------------------------ *)
(* OrderType<()> *)

Definition common_fields_a (c : common) : list (str * json) :=
  [jfield "id" (to_json_oid (c_id c)); jfield "price" (jN (c_price c))].
Definition common_fields_b (c : common) : list (str * json) :=
  [jfield "side" (to_json_side (c_side c)); jfield "timestamp" (jN (c_ts c));
   jfield "time_in_force" (to_json_tif (c_tif c))].
Definition extra : list (str * json) := [jfield "extra_fields" JNull].

Definition to_json_order (o : order) : json :=
  match o with
  | Standard c q =>
      jvariant "Standard"
        (JObj (common_fields_a c ++ [jfield "quantity" (jN q)] ++ common_fields_b c ++ extra))
  | Iceberg c v h =>
      jvariant "IcebergOrder"
        (JObj (common_fields_a c ++ [jfield "visible_quantity" (jN v); jfield "hidden_quantity" (jN h)]
               ++ common_fields_b c ++ extra))
  | PostOnly c q =>
      jvariant "PostOnly"
        (JObj (common_fields_a c ++ [jfield "quantity" (jN q)] ++ common_fields_b c ++ extra))
  | TrailingStop c q tr lr =>
      jvariant "TrailingStop"
        (JObj (common_fields_a c ++ [jfield "quantity" (jN q)] ++ common_fields_b c
               ++ [jfield "trail_amount" (jN tr); jfield "last_reference_price" (jN lr)] ++ extra))
  | Pegged c q off pt =>
      jvariant "PeggedOrder"
        (JObj (common_fields_a c ++ [jfield "quantity" (jN q)] ++ common_fields_b c
               ++ [jfield "reference_price_offset" (JNum off);
                   jfield "reference_price_type" (to_json_peg pt)] ++ extra))
  | MarketToLimit c q =>
      jvariant "MarketToLimit"
        (JObj (common_fields_a c ++ [jfield "quantity" (jN q)] ++ common_fields_b c ++ extra))
  | Reserve c v h thr amt auto =>
      jvariant "ReserveOrder"
        (JObj (common_fields_a c ++ [jfield "visible_quantity" (jN v); jfield "hidden_quantity" (jN h)]
               ++ common_fields_b c
               ++ [jfield "replenish_threshold" (jN thr);
                   jfield "replenish_amount" (match amt with Some a => jN a | None => JNull end);
                   jfield "auto_replenish" (JBool auto)] ++ extra))
  end.

Definition of_fields_common (m : list (str * json)) : option common :=
  do id <- req "id" of_json_oid m;
  do p <- req "price" of_json_u64 m;
  do sd <- req "side" of_json_side m;
  do ts <- req "timestamp" of_json_u64 m;
  do tf <- req "time_in_force" of_json_tif m;
  do _ <- req "extra_fields" of_json_unit m;
  Some (mkCommon id p sd ts tf).

Definition F_plain : list String.string :=
  ["id"; "price"; "quantity"; "side"; "timestamp"; "time_in_force"; "extra_fields"]%string.
Definition F_iceberg : list String.string :=
  ["id"; "price"; "visible_quantity"; "hidden_quantity"; "side"; "timestamp"; "time_in_force";
   "extra_fields"]%string.
Definition F_trailing : list String.string :=
  ["id"; "price"; "quantity"; "side"; "timestamp"; "time_in_force"; "trail_amount";
   "last_reference_price"; "extra_fields"]%string.
Definition F_pegged : list String.string :=
  ["id"; "price"; "quantity"; "side"; "timestamp"; "time_in_force"; "reference_price_offset";
   "reference_price_type"; "extra_fields"]%string.
Definition F_reserve : list String.string :=
  ["id"; "price"; "visible_quantity"; "hidden_quantity"; "side"; "timestamp"; "time_in_force";
   "replenish_threshold"; "replenish_amount"; "auto_replenish"; "extra_fields"]%string.

Definition of_json_order (j : json) : option order :=
  do e <- enum_view j;
  match e with
  | EStr _ => None                 (* every variant is a struct variant *)
  | EMap t v =>
      if tag_in t ["Standard"]%string then
        do m <- struct_view F_plain v; do c <- of_fields_common m;
        do q <- req "quantity" of_json_u64 m; Some (Standard c q)
      else if tag_in t ["IcebergOrder"]%string then
        do m <- struct_view F_iceberg v; do c <- of_fields_common m;
        do vq <- req "visible_quantity" of_json_u64 m;
        do hq <- req "hidden_quantity" of_json_u64 m; Some (Iceberg c vq hq)
      else if tag_in t ["PostOnly"]%string then
        do m <- struct_view F_plain v; do c <- of_fields_common m;
        do q <- req "quantity" of_json_u64 m; Some (PostOnly c q)
      else if tag_in t ["TrailingStop"]%string then
        do m <- struct_view F_trailing v; do c <- of_fields_common m;
        do q <- req "quantity" of_json_u64 m;
        do tr <- req "trail_amount" of_json_u64 m;
        do lr <- req "last_reference_price" of_json_u64 m; Some (TrailingStop c q tr lr)
      else if tag_in t ["PeggedOrder"]%string then
        do m <- struct_view F_pegged v; do c <- of_fields_common m;
        do q <- req "quantity" of_json_u64 m;
        do off <- req "reference_price_offset" of_json_i64 m;
        do pt <- req "reference_price_type" of_json_peg m; Some (Pegged c q off pt)
      else if tag_in t ["MarketToLimit"]%string then
        do m <- struct_view F_plain v; do c <- of_fields_common m;
        do q <- req "quantity" of_json_u64 m; Some (MarketToLimit c q)
      else if tag_in t ["ReserveOrder"]%string then
        do m <- struct_view F_reserve v; do c <- of_fields_common m;
        do vq <- req "visible_quantity" of_json_u64 m;
        do hq <- req "hidden_quantity" of_json_u64 m;
        do thr <- req "replenish_threshold" of_json_u64 m;
        do amt <- opt "replenish_amount" of_json_u64 m;
        do au <- req "auto_replenish" of_json_bool m; Some (Reserve c vq hq thr amt au)
      else None
  end.

(* ------------------------------------------------------------------ *)
(* OrderUpdate *)

Definition to_json_update (u : update) : json :=
  match u with
  | UpdatePrice k np =>
      jvariant "UpdatePrice" (JObj [jfield "order_id" (to_json_oid k); jfield "new_price" (jN np)])
  | UpdateQuantity k nq =>
      jvariant "UpdateQuantity" (JObj [jfield "order_id" (to_json_oid k); jfield "new_quantity" (jN nq)])
  | UpdatePriceAndQuantity k np nq =>
      jvariant "UpdatePriceAndQuantity"
        (JObj [jfield "order_id" (to_json_oid k); jfield "new_price" (jN np);
               jfield "new_quantity" (jN nq)])
  | Cancel k => jvariant "Cancel" (JObj [jfield "order_id" (to_json_oid k)])
  | Replace k p q s =>
      jvariant "Replace"
        (JObj [jfield "order_id" (to_json_oid k); jfield "price" (jN p); jfield "quantity" (jN q);
               jfield "side" (to_json_side s)])
  end.

Definition of_json_update (j : json) : option update :=
  do e <- enum_view j;
  match e with
  | EStr _ => None
  | EMap t v =>
      if tag_in t ["UpdatePrice"]%string then
        do m <- struct_view ["order_id"; "new_price"]%string v;
        do k <- req "order_id" of_json_oid m; do np <- req "new_price" of_json_u64 m;
        Some (UpdatePrice k np)
      else if tag_in t ["UpdateQuantity"]%string then
        do m <- struct_view ["order_id"; "new_quantity"]%string v;
        do k <- req "order_id" of_json_oid m; do nq <- req "new_quantity" of_json_u64 m;
        Some (UpdateQuantity k nq)
      else if tag_in t ["UpdatePriceAndQuantity"]%string then
        do m <- struct_view ["order_id"; "new_price"; "new_quantity"]%string v;
        do k <- req "order_id" of_json_oid m; do np <- req "new_price" of_json_u64 m;
        do nq <- req "new_quantity" of_json_u64 m;
        Some (UpdatePriceAndQuantity k np nq)
      else if tag_in t ["Cancel"]%string then
        do m <- struct_view ["order_id"]%string v;
        do k <- req "order_id" of_json_oid m; Some (Cancel k)
      else if tag_in t ["Replace"]%string then
        do m <- struct_view ["order_id"; "price"; "quantity"; "side"]%string v;
        do k <- req "order_id" of_json_oid m; do p <- req "price" of_json_u64 m;
        do q <- req "quantity" of_json_u64 m; do s <- req "side" of_json_side m;
        Some (Replace k p q s)
      else None
  end.

(* ------------------------------------------------------------------ *)
(* Transaction, TransactionList, MatchResult as serde sees them: the
   transaction id is an opaque 128-bit uuid and the timestamp an opaque u64
   (Level.v's [tx] abstracts both away). *)

Record jtx := mkJtx {
  jt_id : N; jt_taker : oid; jt_maker : oid; jt_price : N; jt_qty : N; jt_side : side; jt_ts : N }.
Record jresult := mkJres {
  jr_taker : oid; jr_txs : list jtx; jr_rem : N; jr_complete : bool; jr_filled : list oid }.

Definition to_json_tx (t : jtx) : json :=
  JObj [jfield "transaction_id" (to_json_uuid (jt_id t));
        jfield "taker_order_id" (to_json_oid (jt_taker t));
        jfield "maker_order_id" (to_json_oid (jt_maker t));
        jfield "price" (jN (jt_price t)); jfield "quantity" (jN (jt_qty t));
        jfield "taker_side" (to_json_side (jt_side t)); jfield "timestamp" (jN (jt_ts t))].
Definition F_tx : list String.string :=
  ["transaction_id"; "taker_order_id"; "maker_order_id"; "price"; "quantity"; "taker_side";
   "timestamp"]%string.
Definition of_json_tx (j : json) : option jtx :=
  do m <- struct_view F_tx j;
  do i <- req "transaction_id" of_json_uuid m;
  do tk <- req "taker_order_id" of_json_oid m;
  do mk <- req "maker_order_id" of_json_oid m;
  do p <- req "price" of_json_u64 m;
  do q <- req "quantity" of_json_u64 m;
  do s <- req "taker_side" of_json_side m;
  do ts <- req "timestamp" of_json_u64 m;
  Some (mkJtx i tk mk p q s ts).

Definition to_json_txlist (l : list jtx) : json :=
  JObj [jfield "transactions" (JArr (map to_json_tx l))].
Definition of_json_txlist (j : json) : option (list jtx) :=
  do m <- struct_view ["transactions"]%string j;
  req "transactions" (of_json_vec of_json_tx) m.

Definition to_json_result (r : jresult) : json :=
  JObj [jfield "order_id" (to_json_oid (jr_taker r));
        jfield "transactions" (to_json_txlist (jr_txs r));
        jfield "remaining_quantity" (jN (jr_rem r));
        jfield "is_complete" (JBool (jr_complete r));
        jfield "filled_order_ids" (JArr (map to_json_oid (jr_filled r)))].
Definition F_result : list String.string :=
  ["order_id"; "transactions"; "remaining_quantity"; "is_complete"; "filled_order_ids"]%string.
Definition of_json_result (j : json) : option jresult :=
  do m <- struct_view F_result j;
  do k <- req "order_id" of_json_oid m;
  do txs <- req "transactions" of_json_txlist m;
  do rem <- req "remaining_quantity" of_json_u64 m;
  do c <- req "is_complete" of_json_bool m;
  do f <- req "filled_order_ids" (of_json_vec of_json_oid) m;
  Some (mkJres k txs rem c f).

(* ------------------------------------------------------------------ *)
(* PriceLevelData (derive), PriceLevel, PriceLevelSnapshot (custom), OrderQueue *)

Definition F_data : list String.string :=
  ["price"; "visible_quantity"; "hidden_quantity"; "order_count"; "orders"]%string.

(* PriceLevelData and PriceLevelSnapshot serialize to the same layout *)
Definition to_json_snapshot (s : snapshot) : json :=
  JObj [jfield "price" (jN (sn_price s)); jfield "visible_quantity" (jN (sn_vis s));
        jfield "hidden_quantity" (jN (sn_hid s)); jfield "order_count" (jN (sn_cnt s));
        jfield "orders" (JArr (map to_json_order (sn_orders s)))].
Definition to_json_data : snapshot -> json := to_json_snapshot.

(* derive(Deserialize) on PriceLevelData *)
Definition of_json_data (j : json) : option snapshot :=
  do m <- struct_view F_data j;
  do p <- req "price" of_json_u64 m;
  do v <- req "visible_quantity" of_json_u64 m;
  do h <- req "hidden_quantity" of_json_u64 m;
  do c <- req "order_count" of_json_u64 m;          (* usize, 64-bit target *)
  do os <- req "orders" (of_json_vec of_json_order) m;
  Some (mkSnap p v h c os).

(* the PriceLevelSnapshot visitor: map only, unknown field rejected, "orders" defaults to [] *)
Definition of_json_snapshot (j : json) : option snapshot :=
  do m <- strict_view F_data j;
  do p <- req "price" of_json_u64 m;
  do v <- req "visible_quantity" of_json_u64 m;
  do h <- req "hidden_quantity" of_json_u64 m;
  do c <- req "order_count" of_json_u64 m;
  do os <- dflt "orders" (of_json_vec of_json_order) [] m;
  Some (mkSnap p v h c os).

(* Serialize for PriceLevel = PriceLevelData::from(&level); Deserialize = try_from(data):
   PriceLevel::new(price) + add_order per listed order (stored aggregates ignored). *)
Definition to_json_level (l : level) : json := to_json_data (snapshot_of l).
Definition of_json_level (j : json) : option level :=
  do d <- of_json_data j; Some (from_data (sn_price d) (sn_orders d)).

(* OrderQueue: a sequence of orders (serialized in map order; deserialized by pushing) *)
Definition to_json_orders (os : list order) : json := JArr (map to_json_order os).
Definition of_json_orders : json -> option (list order) := of_json_vec of_json_order.
Definition of_json_queue (j : json) : option queue :=
  do os <- of_json_orders j; Some (from_vec os).

(* ------------------------------------------------------------------ *)
(* PriceLevelStatistics (custom visitor, every missing field defaulted; the
   default of first_arrival_time is the wall clock, passed in as [now]) *)

Record jstats := mkJstats {
  js_added : N; js_removed : N; js_executed : N; js_qty : N; js_value : N;
  js_last : N; js_first : N; js_wait : N }.
Definition F_stats : list String.string :=
  ["orders_added"; "orders_removed"; "orders_executed"; "quantity_executed"; "value_executed";
   "last_execution_time"; "first_arrival_time"; "sum_waiting_time"]%string.
Definition to_json_stats (s : jstats) : json :=
  JObj [jfield "orders_added" (jN (js_added s)); jfield "orders_removed" (jN (js_removed s));
        jfield "orders_executed" (jN (js_executed s)); jfield "quantity_executed" (jN (js_qty s));
        jfield "value_executed" (jN (js_value s)); jfield "last_execution_time" (jN (js_last s));
        jfield "first_arrival_time" (jN (js_first s)); jfield "sum_waiting_time" (jN (js_wait s))].
Definition of_json_stats (now : N) (j : json) : option jstats :=
  do m <- strict_view F_stats j;
  do a <- dflt "orders_added" of_json_u64 0 m;
  do r <- dflt "orders_removed" of_json_u64 0 m;
  do e <- dflt "orders_executed" of_json_u64 0 m;
  do q <- dflt "quantity_executed" of_json_u64 0 m;
  do v <- dflt "value_executed" of_json_u64 0 m;
  do l <- dflt "last_execution_time" of_json_u64 0 m;
  do f <- dflt "first_arrival_time" of_json_u64 now m;
  do w <- dflt "sum_waiting_time" of_json_u64 0 m;
  Some (mkJstats a r e q v l f w).

(* ------------------------------------------------------------------ *)
(* PriceLevelSnapshotPackage (derive) *)

Record package := mkPkg { p_version : N; p_snap : snapshot; p_checksum : str }.
Definition to_json_package (p : package) : json :=
  JObj [jfield "version" (jN (p_version p)); jfield "snapshot" (to_json_snapshot (p_snap p));
        jfield "checksum" (JStr (p_checksum p))].
Definition F_package : list String.string := ["version"; "snapshot"; "checksum"]%string.
Definition of_json_package (j : json) : option package :=
  do m <- struct_view F_package j;
  do v <- req "version" of_json_u32 m;
  do s <- req "snapshot" of_json_snapshot m;
  do c <- req "checksum" of_json_str m;
  Some (mkPkg v s c).

(* ------------------------------------------------------------------ *)
(* printing: serde_json::to_string *)

Fixpoint chars_of_uint (u : Decimal.uint) : str :=
  match u with
  | Decimal.Nil => []
  | Decimal.D0 u => "0"%char :: chars_of_uint u
  | Decimal.D1 u => "1"%char :: chars_of_uint u
  | Decimal.D2 u => "2"%char :: chars_of_uint u
  | Decimal.D3 u => "3"%char :: chars_of_uint u
  | Decimal.D4 u => "4"%char :: chars_of_uint u
  | Decimal.D5 u => "5"%char :: chars_of_uint u
  | Decimal.D6 u => "6"%char :: chars_of_uint u
  | Decimal.D7 u => "7"%char :: chars_of_uint u
  | Decimal.D8 u => "8"%char :: chars_of_uint u
  | Decimal.D9 u => "9"%char :: chars_of_uint u
  end.
Definition print_N (n : N) : str := chars_of_uint (N.to_uint n).
Definition print_Z (z : Z) : str :=
  match z with
  | Z0 => print_N 0
  | Zpos p => print_N (Npos p)
  | Zneg p => dash :: print_N (Npos p)
  end.

Definition dq : ascii := """"%char.

Fixpoint print_json (j : json) : str :=
  match j with
  | JNull => lit "null"
  | JBool true => lit "true"
  | JBool false => lit "false"
  | JNum z => print_Z z
  | JStr s => dq :: s ++ [dq]
  | JArr l =>
      "["%char ::
      (fix items (l : list json) : str :=
         match l with
         | [] => []
         | [x] => print_json x
         | x :: l' => print_json x ++ ","%char :: items l'
         end) l ++ ["]"%char]
  | JObj m =>
      "{"%char ::
      (fix members (m : list (str * json)) : str :=
         match m with
         | [] => []
         | [(k, v)] => dq :: k ++ dq :: ":"%char :: print_json v
         | (k, v) :: m' => dq :: k ++ dq :: ":"%char :: print_json v ++ ","%char :: members m'
         end) m ++ ["}"%char]
  end.

(* ------------------------------------------------------------------ *)
(* reading *)

Definition is_ws (c : ascii) : bool :=
  let n := N_of_ascii c in (N.eqb n 32 || N.eqb n 9 || N.eqb n 10 || N.eqb n 13)%bool.
Fixpoint skip_ws (s : str) : str :=
  match s with
  | c :: r => if is_ws c then skip_ws r else s
  | [] => []
  end.

Definition plain_char (c : ascii) : bool :=
  let n := N_of_ascii c in (N.leb 32 n && negb (N.eqb n 34) && negb (N.eqb n 92))%bool.
Definition plain_str (s : str) : bool := forallb plain_char s.
Fixpoint plain_json (j : json) : bool :=
  match j with
  | JStr s => plain_str s
  | JArr l => forallb plain_json l
  | JObj m => forallb (fun kv => plain_str (fst kv) && plain_json (snd kv)) m
  | _ => true
  end.

(* after the opening quote: the characters up to the closing quote *)
Fixpoint read_str (s : str) : option (str * str) :=
  match s with
  | [] => None
  | c :: r =>
      if Ascii.eqb c dq then Some ([], r)
      else if plain_char c then
        match read_str r with Some (x, r') => Some (c :: x, r') | None => None end
      else None
  end.

Fixpoint expect_str (p s : str) : option str :=
  match p with
  | [] => Some s
  | c :: p' => match s with x :: r => if Ascii.eqb x c then expect_str p' r else None | [] => None end
  end.

Definition dig (c : ascii) : option (Decimal.uint -> Decimal.uint) :=
  if Ascii.eqb c "0" then Some Decimal.D0 else if Ascii.eqb c "1" then Some Decimal.D1
  else if Ascii.eqb c "2" then Some Decimal.D2 else if Ascii.eqb c "3" then Some Decimal.D3
  else if Ascii.eqb c "4" then Some Decimal.D4 else if Ascii.eqb c "5" then Some Decimal.D5
  else if Ascii.eqb c "6" then Some Decimal.D6 else if Ascii.eqb c "7" then Some Decimal.D7
  else if Ascii.eqb c "8" then Some Decimal.D8 else if Ascii.eqb c "9" then Some Decimal.D9
  else None.
Fixpoint lex_digits (s : str) : Decimal.uint * str :=
  match s with
  | c :: r =>
      match dig c with
      | Some d => let (u, r') := lex_digits r in (d u, r')
      | None => (Decimal.Nil, s)
      end
  | [] => (Decimal.Nil, [])
  end.
(* what may not follow an integer: a fraction or an exponent (floats are not modelled) *)
Definition float_mark (s : str) : bool :=
  match s with
  | c :: _ => Ascii.eqb c "."%char || Ascii.eqb c "e"%char || Ascii.eqb c "E"%char
  | [] => false
  end.
Definition bad_leading_zero (u : Decimal.uint) : bool :=
  match u with
  | Decimal.D0 Decimal.Nil => false
  | Decimal.D0 _ => true
  | _ => false
  end.
Definition lex_unsigned (s : str) : option (N * str) :=
  let (u, r) := lex_digits s in
  match u with
  | Decimal.Nil => None
  | _ => if bad_leading_zero u || float_mark r then None else Some (N.of_uint u, r)
  end.
Definition lex_number (s : str) : option (Z * str) :=
  match s with
  | c :: r =>
      if Ascii.eqb c dash then
        match lex_unsigned r with
        | Some (n, r') => if N.eqb n 0 then None else Some (Z.opp (Z.of_N n), r')   (* "-0" is a float *)
        | None => None
        end
      else match lex_unsigned s with Some (n, r') => Some (Z.of_N n, r') | None => None end
  | [] => None
  end.

Fixpoint parse_value (fuel : nat) (s : str) {struct fuel} : option (json * str) :=
  match fuel with
  | O => None
  | S f =>
      match skip_ws s with
      | [] => None
      | c :: r =>
          if Ascii.eqb c "n" then do r' <- expect_str (lit "ull") r; Some (JNull, r')
          else if Ascii.eqb c "t" then do r' <- expect_str (lit "rue") r; Some (JBool true, r')
          else if Ascii.eqb c "f" then do r' <- expect_str (lit "alse") r; Some (JBool false, r')
          else if Ascii.eqb c dq then do (x, r') <- read_str r; Some (JStr x, r')
          else if Ascii.eqb c "[" then
            match skip_ws r with
            | [] => None
            | c2 :: r2 =>
                if Ascii.eqb c2 "]" then Some (JArr [], r2)
                else do (l, r') <- parse_elems f r; Some (JArr l, r')
            end
          else if Ascii.eqb c "{" then
            match skip_ws r with
            | [] => None
            | c2 :: r2 =>
                if Ascii.eqb c2 "}" then Some (JObj [], r2)
                else do (m, r') <- parse_members f r; Some (JObj m, r')
            end
          else do (z, r') <- lex_number (c :: r); Some (JNum z, r')
      end
  end
with parse_elems (fuel : nat) (s : str) {struct fuel} : option (list json * str) :=
  match fuel with
  | O => None
  | S f =>
      do (v, r) <- parse_value f s;
      match skip_ws r with
      | [] => None
      | c :: r1 =>
          if Ascii.eqb c "," then do (l, r2) <- parse_elems f r1; Some (v :: l, r2)
          else if Ascii.eqb c "]" then Some ([v], r1)
          else None
      end
  end
with parse_members (fuel : nat) (s : str) {struct fuel} : option (list (str * json) * str) :=
  match fuel with
  | O => None
  | S f =>
      match skip_ws s with
      | [] => None
      | c :: r =>
          if Ascii.eqb c dq then
            do (k, r1) <- read_str r;
            match skip_ws r1 with
            | [] => None
            | c1 :: r2 =>
                if Ascii.eqb c1 ":" then
                  do (v, r3) <- parse_value f r2;
                  match skip_ws r3 with
                  | [] => None
                  | c3 :: r4 =>
                      if Ascii.eqb c3 "," then do (m, r5) <- parse_members f r4; Some ((k, v) :: m, r5)
                      else if Ascii.eqb c3 "}" then Some ([(k, v)], r4)
                      else None
                  end
                else None
            end
          else None
      end
  end.

Definition parse_fuel (s : str) : nat := 2 * length s + 2.
Definition parse_json (s : str) : option (json * str) := parse_value (parse_fuel s) s.
(* serde_json::from_str: one value, then only whitespace *)
Definition parse_top (s : str) : option json :=
  do (j, r) <- parse_json s;
  match skip_ws r with [] => Some j | _ => None end.

(* ------------------------------------------------------------------ *)
(* text level: serde_json::to_string / from_str per type *)

Definition text_of_order (o : order) : str := print_json (to_json_order o).
Definition order_of_text (s : str) : option order := do j <- parse_top s; of_json_order j.
Definition text_of_snapshot (s : snapshot) : str := print_json (to_json_snapshot s).
Definition snapshot_of_text (s : str) : option snapshot := do j <- parse_top s; of_json_snapshot j.
Definition text_of_package (p : package) : str := print_json (to_json_package p).
Definition package_of_text (s : str) : option package := do j <- parse_top s; of_json_package j.

(* ------------------------------------------------------------------ *)
(* well-formedness: machine ranges of the Rust types *)

Definition wf_oid (o : oid) : Prop := match o with Uuid n | Ulid n => n < W128 end.
Definition wf_tif (t : tif) : Prop := match t with Gtd n => n < W | _ => True end.
Definition wf_common (c : common) : Prop :=
  wf_oid (c_id c) /\ c_price c < W /\ c_ts c < W /\ wf_tif (c_tif c).
Definition jwf_order (o : order) : Prop :=
  wf_common (com o) /\
  match o with
  | Standard _ q | PostOnly _ q | MarketToLimit _ q => q < W
  | Iceberg _ v h => v < W /\ h < W
  | TrailingStop _ q tr lr => q < W /\ tr < W /\ lr < W
  | Pegged _ q off _ => q < W /\ (I64_MIN <= off <= I64_MAX)%Z
  | Reserve _ v h thr amt _ =>
      v < W /\ h < W /\ thr < W /\ match amt with Some a => a < W | None => True end
  end.
Definition wf_update (u : update) : Prop :=
  match u with
  | UpdatePrice k np => wf_oid k /\ np < W
  | UpdateQuantity k nq => wf_oid k /\ nq < W
  | UpdatePriceAndQuantity k np nq => wf_oid k /\ np < W /\ nq < W
  | Cancel k => wf_oid k
  | Replace k p q _ => wf_oid k /\ p < W /\ q < W
  end.
Definition wf_jtx (t : jtx) : Prop :=
  jt_id t < W128 /\ wf_oid (jt_taker t) /\ wf_oid (jt_maker t) /\ jt_price t < W /\ jt_qty t < W
  /\ jt_ts t < W.
Definition wf_jresult (r : jresult) : Prop :=
  wf_oid (jr_taker r) /\ Forall wf_jtx (jr_txs r) /\ jr_rem r < W /\ Forall wf_oid (jr_filled r).
Definition wf_snapshot (s : snapshot) : Prop :=
  sn_price s < W /\ sn_vis s < W /\ sn_hid s < W /\ sn_cnt s < W /\ Forall jwf_order (sn_orders s).
Definition wf_jstats (s : jstats) : Prop :=
  js_added s < W /\ js_removed s < W /\ js_executed s < W /\ js_qty s < W /\ js_value s < W
  /\ js_last s < W /\ js_first s < W /\ js_wait s < W.
Definition wf_package (p : package) : Prop :=
  p_version p < W32 /\ wf_snapshot (p_snap p).
