(* Queue.v — OrderQueue: a DashMap id -> order plus a SegQueue of id tickets
   (/repo/src/price_level/order_queue.rs).  The map is an association list
   keyed by the order's own id; the ticket queue is a list, head = oldest. *)
From PL Require Export Model.Order.

Record queue := mkQueue { qmap : list order; tickets : list oid }.

Definition empty_queue : queue := mkQueue [] [].

Fixpoint lookup (k : oid) (m : list order) : option order :=
  match m with
  | [] => None
  | o :: m' => if oid_eqb k (oid_of o) then Some o else lookup k m'
  end.

Definition remove_key (k : oid) (m : list order) : list order :=
  filter (fun o => negb (oid_eqb k (oid_of o))) m.

(* DashMap::insert: replaces the value of an existing key. *)
Definition upsert (o : order) (m : list order) : list order :=
  remove_key (oid_of o) m ++ [o].

(* OrderQueue::push: map insert, then ticket append. *)
Definition push (q : queue) (o : order) : queue :=
  mkQueue (upsert o (qmap q)) (tickets q ++ [oid_of o]).

(* OrderQueue::pop: take tickets until one names an order still in the map. *)
Fixpoint pop_t (m : list order) (t : list oid) : option (order * list order * list oid) :=
  match t with
  | [] => None
  | k :: t' =>
      match lookup k m with
      | Some o => Some (o, remove_key k m, t')
      | None => pop_t m t'
      end
  end.

Definition pop (q : queue) : option order * queue :=
  match pop_t (qmap q) (tickets q) with
  | Some (o, m', t') => (Some o, mkQueue m' t')
  | None => (None, mkQueue (qmap q) [])
  end.

Definition qfind (q : queue) (k : oid) : option order := lookup k (qmap q).

(* OrderQueue::remove: map only; the ticket stays behind. *)
Definition qremove (q : queue) (k : oid) : option order * queue :=
  match lookup k (qmap q) with
  | Some o => (Some o, mkQueue (remove_key k (qmap q)) (tickets q))
  | None => (None, q)
  end.

Definition qlen (q : queue) : N := N.of_nat (length (qmap q)).
Definition qis_empty (q : queue) : bool := match qmap q with [] => true | _ => false end.

(* to_vec: map iteration (hash order — here: list order) stably sorted by timestamp. *)
Fixpoint insert_ts (o : order) (l : list order) : list order :=
  match l with
  | [] => [o]
  | x :: l' => if ts_of o <? ts_of x then o :: l else x :: insert_ts o l'
  end.

Definition sort_ts (l : list order) : list order := fold_right insert_ts [] l.

Definition to_vec (q : queue) : list order := sort_ts (qmap q).

(* from_vec / From<Vec> / FromStr / Deserialize: push in input order. *)
Definition from_vec (os : list order) : queue := fold_left push os empty_queue.
