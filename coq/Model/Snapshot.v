(* Snapshot.v — checksummed snapshot packages (/repo/src/price_level/snapshot.rs,
   PriceLevel::from_snapshot_json / from_snapshot_package in level.rs).

   SHA-256 is not modelled: [H] is a Section variable (any function from bytes
   to bytes), and so is [hex]; the theorems of Proofs/SnapshotProofs.v hold for
   every [H] and every injective [hex].  [hex_lower] is the concrete function
   `format!("{:x}", digest)` (two lowercase hex digits per byte); it is proved
   injective and plain.  Executable Gallina only. *)
From Coq Require Import Ascii.
From PL Require Export Model.Json.
Local Open Scope N_scope.

(* format!("{:x}", bytes): two lowercase hex digits per byte *)
Definition hex_byte (c : ascii) : str :=
  let n := N_of_ascii c in [digit_of hex_al (n / 16); digit_of hex_al (n mod 16)].
Definition hex_lower (b : list ascii) : str := flat_map hex_byte b.

Definition SNAPSHOT_FORMAT_VERSION : N := 1.

Section WithHash.
Variable H : list ascii -> list ascii.      (* SHA-256 *)
Variable hex : list ascii -> str.           (* digest -> checksum text *)

(* serde_json::to_vec(&snapshot): the checksum input *)
Definition ser (s : snapshot) : list ascii := print_json (to_json_snapshot s).

Definition compute_checksum (s : snapshot) : str := hex (H (ser s)).

(* PriceLevelSnapshotPackage::new: refresh the aggregates, then checksum *)
Definition package_new (s : snapshot) : package :=
  let s' := refresh s in mkPkg SNAPSHOT_FORMAT_VERSION s' (compute_checksum s').

Definition validate (p : package) : bool :=
  (p_version p =? SNAPSHOT_FORMAT_VERSION) && str_eqb (compute_checksum (p_snap p)) (p_checksum p).

Definition into_snapshot (p : package) : option snapshot :=
  if validate p then Some (p_snap p) else None.

Definition restore (p : package) : option level :=
  if validate p then Some (from_snapshot (p_snap p)) else None.

(* the three entry points, composed as in the code *)
Definition from_snapshot_package (p : package) : option level :=
  match into_snapshot p with Some s => Some (from_snapshot s) | None => None end.
Definition package_from_json (text : str) : option package := package_of_text text.
Definition from_snapshot_json (text : str) : option level :=
  match package_from_json text with Some p => from_snapshot_package p | None => None end.

(* PriceLevel::snapshot_package / snapshot_to_json *)
Definition snapshot_package (l : level) : package := package_new (snapshot_of l).
Definition snapshot_to_json (l : level) : str := text_of_package (snapshot_package l).

End WithHash.
