(* Order.v — OrderType<()> and its per-order functions, arm by arm after
   /repo/src/orders/order_type.rs. *)
From PL Require Export Model.Base.

(* Fields common to all seven variants. *)
Record common := mkCommon {
  c_id : oid; c_price : N; c_side : side; c_ts : N; c_tif : tif }.

Inductive order :=
| Standard      (c : common) (q : N)
| Iceberg       (c : common) (vis hid : N)
| PostOnly      (c : common) (q : N)
| TrailingStop  (c : common) (q : N) (trail lastref : N)
| Pegged        (c : common) (q : N) (off : Z) (pt : peg)
| MarketToLimit (c : common) (q : N)
| Reserve       (c : common) (vis hid thr : N) (amt : option N) (auto : bool).

Definition com (o : order) : common :=
  match o with
  | Standard c _ | Iceberg c _ _ | PostOnly c _ | TrailingStop c _ _ _
  | Pegged c _ _ _ | MarketToLimit c _ | Reserve c _ _ _ _ _ => c
  end.

Definition oid_of (o : order) : oid := c_id (com o).
Definition price_of (o : order) : N := c_price (com o).
Definition side_of (o : order) : side := c_side (com o).
Definition ts_of (o : order) : N := c_ts (com o).
Definition tif_of (o : order) : tif := c_tif (com o).

(* OrderType::visible_quantity / hidden_quantity *)
Definition vis (o : order) : N :=
  match o with
  | Standard _ q | PostOnly _ q | TrailingStop _ q _ _ | Pegged _ q _ _
  | MarketToLimit _ q => q
  | Iceberg _ v _ | Reserve _ v _ _ _ _ => v
  end.

Definition hid (o : order) : N :=
  match o with
  | Iceberg _ _ h | Reserve _ _ h _ _ _ => h
  | _ => 0
  end.

(* OrderType::with_reduced_quantity: rewrites the displayed quantity of
   Standard / Iceberg / PostOnly; every other variant is returned unchanged. *)
Definition with_reduced_quantity (o : order) (nq : N) : order :=
  match o with
  | Standard c _ => Standard c nq
  | Iceberg c _ h => Iceberg c nq h
  | PostOnly c _ => PostOnly c nq
  | _ => o
  end.

Definition DEFAULT_RESERVE_REPLENISH_AMOUNT : N := 80.

(* Result of match_against: (consumed, updated order, hidden reduced, remaining). *)
Record mres := mkMres {
  m_consumed : N; m_updated : option order; m_hidden_reduced : N; m_remaining : N }.

(* OrderType::match_against *)
Definition match_against (o : order) (inc : N) : mres :=
  match o with
  | Standard c q =>
      if q <=? inc then mkMres q None 0 (inc - q)
      else mkMres inc (Some (Standard c (q - inc))) 0 0
  | Iceberg c v h =>
      if v <=? inc then
        let consumed := v in
        let remaining := inc - consumed in
        if 0 <? h then
          let refresh := N.min h v in
          mkMres consumed (Some (Iceberg c refresh (h - refresh))) refresh remaining
        else mkMres consumed None 0 remaining
      else mkMres inc (Some (Iceberg c (v - inc) h)) 0 0
  | Reserve c v h thr amt auto =>
      let safe_thr := if auto && (thr =? 0) then 1 else thr in
      let rq := N.min (match amt with Some a => a | None => DEFAULT_RESERVE_REPLENISH_AMOUNT end) h in
      if v <=? inc then
        let consumed := v in
        let remaining := inc - consumed in
        if (0 <? h) && auto then
          mkMres consumed (Some (Reserve c rq (h - rq) thr amt auto)) rq remaining
        else mkMres consumed None 0 remaining
      else
        let consumed := inc in
        let nv := v - consumed in
        if (nv <? safe_thr) && (0 <? h) && auto then
          mkMres consumed (Some (Reserve c (nv + rq) (h - rq) thr amt auto)) rq 0
        else mkMres consumed (Some (Reserve c nv h thr amt auto)) 0 0
  | PostOnly c q =>
      (* fall-through arm; with_reduced_quantity handles PostOnly *)
      if q <=? inc then mkMres q None 0 (inc - q)
      else mkMres inc (Some (with_reduced_quantity o (q - inc))) 0 0
  | TrailingStop c q tr lr =>
      if q <=? inc then mkMres q None 0 (inc - q)
      else mkMres inc (Some (TrailingStop c (q - inc) tr lr)) 0 0
  | Pegged c q off pt =>
      if q <=? inc then mkMres q None 0 (inc - q)
      else mkMres inc (Some (Pegged c (q - inc) off pt)) 0 0
  | MarketToLimit c q =>
      if q <=? inc then mkMres q None 0 (inc - q)
      else mkMres inc (Some (MarketToLimit c (q - inc))) 0 0
  end.

(* Decidable equality on orders, as booleans (used by checkers and the driver). *)
Definition common_eqb (a b : common) : bool :=
  oid_eqb (c_id a) (c_id b) && (c_price a =? c_price b) && side_eqb (c_side a) (c_side b)
  && (c_ts a =? c_ts b) && tif_eqb (c_tif a) (c_tif b).

Definition order_eqb (a b : order) : bool :=
  match a, b with
  | Standard c q, Standard c' q' => common_eqb c c' && (q =? q')
  | Iceberg c v h, Iceberg c' v' h' => common_eqb c c' && (v =? v') && (h =? h')
  | PostOnly c q, PostOnly c' q' => common_eqb c c' && (q =? q')
  | TrailingStop c q t l, TrailingStop c' q' t' l' =>
      common_eqb c c' && (q =? q') && (t =? t') && (l =? l')
  | Pegged c q o p, Pegged c' q' o' p' =>
      common_eqb c c' && (q =? q') && Z.eqb o o' && peg_eqb p p'
  | MarketToLimit c q, MarketToLimit c' q' => common_eqb c c' && (q =? q')
  | Reserve c v h t a au, Reserve c' v' h' t' a' au' =>
      common_eqb c c' && (v =? v') && (h =? h') && (t =? t')
      && option_eqb N.eqb a a' && Bool.eqb au au'
  | _, _ => false
  end.

(* "Identity" of an order: everything except the two quantities. *)
Definition same_identity (a b : order) : Prop :=
  match a, b with
  | Standard c _, Standard c' _ => c = c'
  | Iceberg c _ _, Iceberg c' _ _ => c = c'
  | PostOnly c _, PostOnly c' _ => c = c'
  | TrailingStop c _ t l, TrailingStop c' _ t' l' => c = c' /\ t = t' /\ l = l'
  | Pegged c _ o p, Pegged c' _ o' p' => c = c' /\ o = o' /\ p = p'
  | MarketToLimit c _, MarketToLimit c' _ => c = c'
  | Reserve c _ _ t a au, Reserve c' _ _ t' a' au' => c = c' /\ t = t' /\ a = a' /\ au = au'
  | _, _ => False
  end.

(* Well-formed: every field is a 64-bit word and displayed+hidden fits too
   (the domain of the properties: "displayed+hidden <= u64::MAX"). *)
Definition wf_order (o : order) : Prop :=
  vis o + hid o < W /\
  match o with
  | Reserve _ _ _ thr amt _ => thr < W /\ match amt with Some a => a < W | None => True end
  | _ => True
  end.
