(* ConcQ.v — interleaving semantics of the exported OrderQueue used on its own
   (second half of C08's quantifier: concurrent push / pop / remove / find on the
   queue itself).  Same granularity and conventions as Model/Conc.v: one DashMap or
   SegQueue operation per step. *)
From PL Require Export Model.Conc.
Local Open Scope N_scope.

Record qshared := mkQshared { qs_map : list order; qs_tk : list oid }.

Definition qshared_of_queue (q : queue) : qshared := mkQshared (qmap q) (tickets q).
Definition queue_of_qshared (s : qshared) : queue := mkQueue (qs_map s) (qs_tk s).

Inductive qcall :=
| QCPush (o : order)
| QCPop
| QCRemove (k : oid)
| QCFind (k : oid)
| QCLen
| QCEmpty
| QCVec.

Inductive qret :=
| QRetUnit
| QRetOrd (o : option order)
| QRetNum (n : N)
| QRetBool (b : bool)
| QRetVec (l : list order).

Inductive qpc :=
| QDone (r : qret)
| QP1 (o : order)            (* push: orders.insert *)
| QP2 (o : order)            (* push: order_ids.push *)
| QO1                        (* pop: order_ids.pop *)
| QO2 (k : oid)              (* pop: orders.remove(k) *)
| QR (k : oid)               (* remove: orders.remove(k) *)
| QF (k : oid)               (* find: orders.get(k) *)
| QL                         (* len *)
| QE                         (* is_empty *)
| QV.                        (* to_vec: orders.iter *)

Definition qstart (c : qcall) : qpc :=
  match c with
  | QCPush o => QP1 o
  | QCPop => QO1
  | QCRemove k => QR k
  | QCFind k => QF k
  | QCLen => QL
  | QCEmpty => QE
  | QCVec => QV
  end.

(* events reuse Model/Conc.v's [ev]; len / is_empty are reported as EIter n *)
Definition qtstep (p : qpc) (s : qshared) : option (qpc * qshared * ev) :=
  match p with
  | QDone _ => None
  | QP1 o => Some (QP2 o, mkQshared (upsert o (qs_map s)) (qs_tk s), EInsert o)
  | QP2 o => Some (QDone QRetUnit, mkQshared (qs_map s) (qs_tk s ++ [oid_of o]), EPush (oid_of o))
  | QO1 =>
      match qs_tk s with
      | [] => Some (QDone (QRetOrd None), s, EPop None)
      | k :: t => Some (QO2 k, mkQshared (qs_map s) t, EPop (Some k))
      end
  | QO2 k =>
      match lookup k (qs_map s) with
      | None => Some (QO1, s, ERemove k None)
      | Some o => Some (QDone (QRetOrd (Some o)), mkQshared (remove_key k (qs_map s)) (qs_tk s), ERemove k (Some o))
      end
  | QR k =>
      match lookup k (qs_map s) with
      | None => Some (QDone (QRetOrd None), s, ERemove k None)
      | Some o => Some (QDone (QRetOrd (Some o)), mkQshared (remove_key k (qs_map s)) (qs_tk s), ERemove k (Some o))
      end
  | QF k => Some (QDone (QRetOrd (lookup k (qs_map s))), s, EGet k (lookup k (qs_map s)))
  | QL => Some (QDone (QRetNum (N.of_nat (length (qs_map s)))), s, EIter (N.of_nat (length (qs_map s))))
  | QE => let b := match qs_map s with [] => true | _ => false end in
          Some (QDone (QRetBool b), s, EIter (if b then 1 else 0))
  | QV => Some (QDone (QRetVec (sort_ts (qs_map s))), s, EIter (N.of_nat (length (qs_map s))))
  end.

Record qthread := mkQthread { qt_pc : qpc; qt_todo : list qcall; qt_rets : list qret }.

(* every queue call performs at least one shared operation, so settling is one step *)
Definition qsettle (t : qthread) : qthread :=
  match qt_pc t, qt_todo t with
  | QDone r, c :: cs => mkQthread (qstart c) cs (qt_rets t ++ [r])
  | _, _ => t
  end.

Definition qthread_init (cs : list qcall) : qthread :=
  match cs with
  | [] => mkQthread (QDone QRetUnit) [] []
  | c :: cs' => mkQthread (qstart c) cs' []
  end.

Definition qthread_finished (t : qthread) : bool :=
  match qt_pc t, qt_todo t with QDone _, [] => true | _, _ => false end.

Record qconfig := mkQconfig { qc_sh : qshared; qc_threads : list qthread }.

Definition qcstep (c : qconfig) (i : nat) : option (qconfig * ev) :=
  match nth_error (qc_threads c) i with
  | None => None
  | Some t =>
      match qtstep (qt_pc t) (qc_sh c) with
      | None => None
      | Some (p', s', e) =>
          let t' := qsettle (mkQthread p' (qt_todo t) (qt_rets t)) in
          Some (mkQconfig s' (update_nth i t' (qc_threads c)), e)
      end
  end.

Fixpoint qexec (sched : list nat) (c : qconfig) : qconfig * list (nat * ev) :=
  match sched with
  | [] => (c, [])
  | i :: rest =>
      match qcstep c i with
      | None => qexec rest c
      | Some (c', e) => let '(c'', tr) := qexec rest c' in (c'', (i, e) :: tr)
      end
  end.

Definition qquiescent (c : qconfig) : bool := forallb qthread_finished (qc_threads c).

Fixpoint qaccept (tr : list (nat * ev)) (c : qconfig) (pos : nat) : qconfig * option nat :=
  match tr with
  | [] => (c, None)
  | (i, e) :: rest =>
      match qcstep c i with
      | Some (c', e') => if ev_eqb e e' then qaccept rest c' (S pos) else (c, Some pos)
      | None => (c, Some pos)
      end
  end.
