(* Ids.v — text formats of the vendored uuid (1.x) and ulid (1.x) crates.

   Uuid::from_str = Uuid::parse_str (uuid/src/parser.rs, try_parse): by byte
   length
     32                      32 hex digits ("simple")
     36                      8-4-4-4-12 hex digits, '-' at offsets 8 13 18 23
     38  '{' .. '}'          braced hyphenated
     45  "urn:uuid:" ..      urn + hyphenated
   anything else is an error; hex digits in either case.
   Display for Uuid = lower-case hyphenated.

   Ulid::from_string = base32::decode (ulid/src/base32.rs): exactly 26 bytes,
   each in Crockford's alphabet 0-9 A-H J K M N P-T V-Z (either case; I L O U
   are rejected), value = fold (v << 5 | d) in u128: the two top bits of the
   130 are shifted out silently (no overflow error).
   Display for Ulid = 26 upper-case characters. *)
From PL Require Export Model.Utf8.
Open Scope N_scope.

Definition U128 : N := 340282366920938463463374607431768211456.   (* 2^128 *)

(* ---- digits ---- *)

(* [k] big-endian digits of [n] in [base] *)
Fixpoint digits_be (base : N) (k : nat) (n : N) : list N :=
  match k with
  | O => []
  | S k' => digits_be base k' (n / base) ++ [n mod base]
  end.

Definition horner (base : N) (ds : list N) (acc : N) : N :=
  fold_left (fun a d => a * base + d) ds acc.

Fixpoint map_opt {A B} (f : A -> option B) (l : list A) : option (list B) :=
  match l with
  | [] => Some []
  | x :: t =>
      match f x with
      | Some y => match map_opt f t with Some r => Some (y :: r) | None => None end
      | None => None
      end
  end.

(* ---- hexadecimal ---- *)

Definition hex_val (c : ascii) : option N :=
  let n := code c in
  if (48 <=? n) && (n <=? 57) then Some (n - 48)            (* 0-9 *)
  else if (97 <=? n) && (n <=? 102) then Some (n - 87)      (* a-f *)
  else if (65 <=? n) && (n <=? 70) then Some (n - 55)       (* A-F *)
  else None.

Definition hex_char (d : N) : ascii :=
  if d <? 10 then ascii_of_N (48 + d) else ascii_of_N (87 + d).

Definition dash : ascii := "-"%char.

(* parse_hyphenated: 36 bytes, dashes at 8 13 18 23, the rest hex *)
Definition parse_hyphenated (s : str) : option N :=
  if negb (Nat.eqb (length s) 36) then None else
  let g1 := firstn 8 s in
  let r1 := skipn 8 s in
  let g2 := firstn 4 (skipn 1 r1) in
  let r2 := skipn 5 r1 in
  let g3 := firstn 4 (skipn 1 r2) in
  let r3 := skipn 5 r2 in
  let g4 := firstn 4 (skipn 1 r3) in
  let r4 := skipn 5 r3 in
  let g5 := skipn 1 r4 in
  match r1, r2, r3, r4 with
  | d1 :: _, d2 :: _, d3 :: _, d4 :: _ =>
      if Ascii.eqb d1 dash && Ascii.eqb d2 dash && Ascii.eqb d3 dash && Ascii.eqb d4 dash then
        match map_opt hex_val (g1 ++ g2 ++ g3 ++ g4 ++ g5) with
        | Some ds => Some (horner 16 ds 0)
        | None => None
        end
      else None
  | _, _, _, _ => None
  end.

Definition parse_simple (s : str) : option N :=
  match map_opt hex_val s with
  | Some ds => Some (horner 16 ds 0)
  | None => None
  end.

Definition urn_prefix : str := $"urn:uuid:".

Fixpoint starts_with (p s : str) : bool :=
  match p, s with
  | [], _ => true
  | a :: p', b :: s' => Ascii.eqb a b && starts_with p' s'
  | _ :: _, [] => false
  end.

(* Uuid::from_str *)
Definition parse_uuid (s : str) : option N :=
  let n := length s in
  if Nat.eqb n 32 then parse_simple s
  else if Nat.eqb n 36 then parse_hyphenated s
  else if Nat.eqb n 38 then
    match s with
    | o :: t =>
        if Ascii.eqb o "{"%char && Ascii.eqb (last t "0"%char) "}"%char
        then parse_hyphenated (firstn 36 t) else None
    | [] => None
    end
  else if Nat.eqb n 45 then
    if starts_with urn_prefix s then parse_hyphenated (skipn 9 s) else None
  else None.

(* Display for Uuid: lower-case hyphenated *)
Definition print_uuid (u : N) : str :=
  let h := map hex_char (digits_be 16 32 u) in
  firstn 8 h ++ dash :: firstn 4 (skipn 8 h) ++ dash :: firstn 4 (skipn 12 h) ++ dash ::
  firstn 4 (skipn 16 h) ++ dash :: skipn 20 h.

(* ---- Crockford base32 ---- *)

Definition crockford : str := $"0123456789ABCDEFGHJKMNPQRSTVWXYZ".

Definition b32_char (d : N) : ascii := nth (N.to_nat d) crockford "0"%char.

Fixpoint index_of (c : ascii) (l : str) (i : N) : option N :=
  match l with
  | [] => None
  | x :: t => if Ascii.eqb x c then Some i else index_of c t (i + 1)
  end.

Definition ascii_upper (c : ascii) : ascii :=
  let n := code c in
  if (97 <=? n) && (n <=? 122) then ascii_of_N (n - 32) else c.

(* LOOKUP table of base32.rs: the alphabet in either case *)
Definition b32_val (c : ascii) : option N := index_of (ascii_upper c) crockford 0.

(* Ulid::from_string *)
Definition parse_ulid (s : str) : option N :=
  if negb (Nat.eqb (length s) 26) then None else
  match map_opt b32_val s with
  | Some ds => Some (horner 32 ds 0 mod U128)
  | None => None
  end.

(* Display for Ulid *)
Definition print_ulid (u : N) : str := map b32_char (digits_be 32 26 u).
