(* Utf8.v — a Rust [&str] as the list of its bytes.
   Executable Gallina only; the lemmas live in Proofs/TextUtf8.v.

   A [str] is a [list ascii] (one [ascii] = one byte).  Rust guarantees that
   every [&str] is well-formed UTF-8: [utf8_valid] is the boolean well-formedness
   test of the Unicode standard (Table 3-7), and the totality theorems (C18)
   quantify over the strings satisfying it.  [is_char_boundary] and [slice]
   follow core::str: slicing outside the string or inside a multi-byte
   character PANICS in Rust; here [slice] returns [None] in exactly those cases. *)
(* String first: List.length etc. must win over String.length *)
From Coq Require Export String Ascii List NArith ZArith Bool.
Export ListNotations.
Open Scope N_scope.

Definition str := list ascii.

(* string literals: $"abc" is the byte list of an (ASCII) literal *)
Notation "$ x" := (list_ascii_of_string x%string) (at level 0, x at level 0, format "$ x").

Definition code (c : ascii) : N := N_of_ascii c.

(* 0xxxxxxx *)
Definition is_ascii (c : ascii) : bool := code c <? 128.
(* 10xxxxxx *)
Definition is_cont (c : ascii) : bool := (128 <=? code c) && (code c <? 192).

Definition in_range (lo hi : N) (c : ascii) : bool := (lo <=? code c) && (code c <=? hi).

(* Well-formed UTF-8 byte sequences (Unicode 15, Table 3-7):
     00..7F
     C2..DF 80..BF
     E0     A0..BF 80..BF
     E1..EC 80..BF 80..BF
     ED     80..9F 80..BF
     EE..EF 80..BF 80..BF
     F0     90..BF 80..BF 80..BF
     F1..F3 80..BF 80..BF 80..BF
     F4     80..8F 80..BF 80..BF *)
Definition second_ok (b0 : N) (c : ascii) : bool :=
  if b0 =? 224 then in_range 160 191 c
  else if b0 =? 237 then in_range 128 159 c
  else if b0 =? 240 then in_range 144 191 c
  else if b0 =? 244 then in_range 128 143 c
  else is_cont c.

Fixpoint utf8_valid (s : str) : bool :=
  match s with
  | [] => true
  | b0 :: t =>
      let n := code b0 in
      if n <? 128 then utf8_valid t
      else if (194 <=? n) && (n <=? 223) then
        match t with
        | b1 :: t1 => is_cont b1 && utf8_valid t1
        | _ => false
        end
      else if (224 <=? n) && (n <=? 239) then
        match t with
        | b1 :: b2 :: t2 => second_ok n b1 && is_cont b2 && utf8_valid t2
        | _ => false
        end
      else if (240 <=? n) && (n <=? 244) then
        match t with
        | b1 :: b2 :: b3 :: t3 => second_ok n b1 && is_cont b2 && is_cont b3 && utf8_valid t3
        | _ => false
        end
      else false
  end.

(* str::is_char_boundary: 0 and len are boundaries, beyond len is not, inside
   the string a position is a boundary iff its byte is not a continuation byte. *)
Definition is_char_boundary (s : str) (i : nat) : bool :=
  Nat.eqb i 0 || Nat.eqb i (length s) ||
  match nth_error s i with
  | Some c => negb (is_cont c)
  | None => false
  end.

(* &s[a..b]; None = panic ("byte index is out of bounds / not a char boundary /
   begin <= end") *)
Definition slice (s : str) (a b : nat) : option str :=
  if Nat.leb a b && Nat.leb b (length s) && is_char_boundary s a && is_char_boundary s b
  then Some (firstn (b - a) (skipn a s))
  else None.

(* &s[a..] and &s[..b] *)
Definition slice_from (s : str) (a : nat) : option str := slice s a (length s).
Definition slice_to (s : str) (b : nat) : option str := slice s 0 b.

Definition all_ascii (s : str) : bool := forallb is_ascii s.
