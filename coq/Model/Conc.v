(* Conc.v — interleaving semantics of PriceLevel at the granularity of single
   shared-memory operations (one atomic RMW / load, one DashMap operation, one
   SegQueue operation per step) — the granularity at which the verif_sync hooks
   of /repo call the scheduler.  Each API call is a small state machine with one
   constructor of [pc] per program point; [tstep] performs exactly the shared
   operation of that point and then runs the thread-local code up to the next
   one.  Memory model: sequential consistency; DashMap insert/remove/get/iter and
   SegQueue push/pop are single atomic steps (trusted).  Time statistics
   (last_execution_time, first_arrival_time, sum_waiting_time) are not modelled
   and are not yield points of the scheduler. *)
From PL Require Export Model.Level.
Local Open Scope N_scope.

(* ---- shared memory ---- *)
Record shared := mkShared {
  sh_price : N;
  sh_cvis : N; sh_chid : N; sh_ccnt : N;            (* machine values, wrapping *)
  sh_map : list order; sh_tk : list oid;
  sh_st : stats;
  sh_gen : N }.

Definition shared_of_level (l : level) (gen : N) : shared :=
  mkShared (price l) (cvis l) (chid l) (ccnt l) (qmap (lq l)) (tickets (lq l)) (st l) gen.
Definition level_of_shared (s : shared) : level :=
  mkLevel (sh_price s) (sh_cvis s) (sh_chid s) (sh_ccnt s) (mkQueue (sh_map s) (sh_tk s)) (sh_st s).

Inductive obj := OVis | OHid | OCnt | OSAdded | OSRemoved | OSExec | OSQty | OSValue | OGen.

Definition obj_eqb (a b : obj) : bool :=
  match a, b with
  | OVis, OVis | OHid, OHid | OCnt, OCnt | OSAdded, OSAdded | OSRemoved, OSRemoved
  | OSExec, OSExec | OSQty, OSQty | OSValue, OSValue | OGen, OGen => true
  | _, _ => false
  end.

Definition get_obj (s : shared) (x : obj) : N :=
  match x with
  | OVis => sh_cvis s | OHid => sh_chid s | OCnt => sh_ccnt s
  | OSAdded => s_added (sh_st s) | OSRemoved => s_removed (sh_st s) | OSExec => s_executed (sh_st s)
  | OSQty => s_qty (sh_st s) | OSValue => s_value (sh_st s) | OGen => sh_gen s
  end.

Definition set_obj (s : shared) (x : obj) (v : N) : shared :=
  let st := sh_st s in
  match x with
  | OVis => mkShared (sh_price s) v (sh_chid s) (sh_ccnt s) (sh_map s) (sh_tk s) st (sh_gen s)
  | OHid => mkShared (sh_price s) (sh_cvis s) v (sh_ccnt s) (sh_map s) (sh_tk s) st (sh_gen s)
  | OCnt => mkShared (sh_price s) (sh_cvis s) (sh_chid s) v (sh_map s) (sh_tk s) st (sh_gen s)
  | OSAdded => mkShared (sh_price s) (sh_cvis s) (sh_chid s) (sh_ccnt s) (sh_map s) (sh_tk s)
                 (mkStats v (s_removed st) (s_executed st) (s_qty st) (s_value st)) (sh_gen s)
  | OSRemoved => mkShared (sh_price s) (sh_cvis s) (sh_chid s) (sh_ccnt s) (sh_map s) (sh_tk s)
                 (mkStats (s_added st) v (s_executed st) (s_qty st) (s_value st)) (sh_gen s)
  | OSExec => mkShared (sh_price s) (sh_cvis s) (sh_chid s) (sh_ccnt s) (sh_map s) (sh_tk s)
                 (mkStats (s_added st) (s_removed st) v (s_qty st) (s_value st)) (sh_gen s)
  | OSQty => mkShared (sh_price s) (sh_cvis s) (sh_chid s) (sh_ccnt s) (sh_map s) (sh_tk s)
                 (mkStats (s_added st) (s_removed st) (s_executed st) v (s_value st)) (sh_gen s)
  | OSValue => mkShared (sh_price s) (sh_cvis s) (sh_chid s) (sh_ccnt s) (sh_map s) (sh_tk s)
                 (mkStats (s_added st) (s_removed st) (s_executed st) (s_qty st) v) (sh_gen s)
  | OGen => mkShared (sh_price s) (sh_cvis s) (sh_chid s) (sh_ccnt s) (sh_map s) (sh_tk s) st v
  end.

Definition set_map (s : shared) (m : list order) : shared :=
  mkShared (sh_price s) (sh_cvis s) (sh_chid s) (sh_ccnt s) m (sh_tk s) (sh_st s) (sh_gen s).
Definition set_tk (s : shared) (t : list oid) : shared :=
  mkShared (sh_price s) (sh_cvis s) (sh_chid s) (sh_ccnt s) (sh_map s) t (sh_st s) (sh_gen s).

(* ---- events: what one step did, with the value it observed ---- *)
Inductive ev :=
| EFetchAdd (x : obj) (n old : N)
| EFetchSub (x : obj) (n old : N)
| ELoad (x : obj) (v : N)
| EInsert (o : order)
| ERemove (k : oid) (r : option order)
| EGet (k : oid) (r : option order)
| EPush (k : oid)
| EPop (r : option oid)
| EIter (n : N).

(* ---- API calls and their results ---- *)
Inductive call :=
| CAdd (o : order)
| CMatch (qty : N) (taker : oid)
| CUpdate (u : update)
| CReadVis | CReadHid | CReadCnt | CList
| CNext                        (* UuidGenerator::next on the shared generator *)
| CSnapshot.                   (* PriceLevel::snapshot: three counter loads, then the iteration *)

Inductive ret :=
| RetAdd (o : order)
| RetMatch (r : result)
| RetUpd (u : uout)
| RetNum (n : N)
| RetList (l : list order)
| RetSnap (v h c : N) (l : list order).   (* snapshot: visible, hidden, order_count as loaded; the listing *)

(* locals of match_order *)
Record mloc := mkMloc { ml_taker : oid; ml_rem : N; ml_res : result; ml_aside : list order }.

Inductive pc :=
| Done (r : ret)
(* add_order *)
| A1 (o : order) | A2 (o : order) | A3 (o : order) | A4 (o : order) | A5 (o : order) | A6 (o : order)
(* match_order *)
| M1 (ml : mloc)                                  (* order_ids.pop *)
| M2 (ml : mloc) (k : oid)                        (* orders.remove(k) *)
| M3 (ml : mloc) (o : order) (r : mres)           (* visible.fetch_sub(consumed) *)
| M4 (ml : mloc) (o : order) (r : mres)           (* generator.fetch_add(1) *)
| M5 (ml : mloc) (o : order) (r : mres)           (* stats.orders_executed.fetch_add(1) *)
| M6 (ml : mloc) (o : order) (r : mres)           (* stats.quantity_executed.fetch_add(consumed) *)
| M7 (ml : mloc) (o : order) (r : mres)           (* stats.value_executed.fetch_add(consumed*price) *)
| M10 (ml : mloc) (o : order) (r : mres) (u : order)  (* hidden.fetch_sub(hidden_reduced) *)
| M11 (ml : mloc) (o : order) (r : mres) (u : order)  (* visible.fetch_add(hidden_reduced) *)
| M12 (ml : mloc) (r : mres) (u : order)          (* orders.insert(updated) *)
| M13 (ml : mloc) (r : mres) (u : order)          (* order_ids.push(id) *)
| M14 (ml : mloc) (o : order) (r : mres)          (* order_count.fetch_sub(1) *)
| M15 (ml : mloc) (o : order) (r : mres)          (* hidden.fetch_sub(order's hidden) *)
| F1 (ml : mloc) (o : order) (rest : list order)  (* re-queue set-aside: orders.insert *)
| F2 (ml : mloc) (o : order) (rest : list order)  (*                      order_ids.push *)
(* cancel / price move *)
| C1 (k : oid) | C2 (o : order) | C3 (o : order) | C4 (o : order) | C5 (o : order)
(* same-price quantity amend *)
| U1 (k : oid) (nq : N) | U2 (k : oid) (nq : N)
| U3 (old new : order) | U4 (old new : order) | U5 (new : order) | U6 (new : order)
(* reads, generator *)
| RdV | RdH | RdC | RdL | G1
(* snapshot(): visible.load; hidden.load; order_count.load; orders.iter — four steps, another
   thread may run between any two of them *)
| Sn1 | Sn2 (v : N) | Sn3 (v h : N) | Sn4 (v h c : N).

Section WithMf.
Variable mf : order -> N -> mres.

Definition ml_set_rem (ml : mloc) (rem : N) : mloc :=
  mkMloc (ml_taker ml) rem (ml_res ml) (ml_aside ml).

Definition final_result (ml : mloc) : result :=
  let res := ml_res ml in
  mkResult (r_taker res) (r_txs res) (ml_rem ml) (ml_rem ml =? 0) (r_filled res).

(* the `for order in set_aside { push }` epilogue *)
Definition start_finish (ml : mloc) : pc :=
  match ml_aside ml with
  | [] => Done (RetMatch (final_result ml))
  | o :: rest => F1 ml o rest
  end.

(* loop head: `while remaining > 0` *)
Definition next_iter (ml : mloc) : pc :=
  if ml_rem ml =? 0 then start_finish ml else M1 ml.

(* after the statistics: re-queue or drop the maker *)
Definition after_stats (ml : mloc) (o : order) (r : mres) : pc :=
  match m_updated r with
  | Some u => if 0 <? m_hidden_reduced r then M10 ml o r u else M12 ml r u
  | None => M14 ml o r
  end.

Definition drops_hidden (o : order) (r : mres) : bool :=
  match o with
  | Iceberg _ _ h | Reserve _ _ h _ _ _ => (0 <? h) && (m_hidden_reduced r =? 0)
  | _ => false
  end.

Definition amend_after_remove (old : order) (nq : N) : pc :=
  let new := with_reduced_quantity old nq in
  if negb (vis old =? vis new) then U3 old new
  else if negb (hid old =? hid new) then U4 old new
  else U5 new.

Definition start (price : N) (c : call) : pc :=
  match c with
  | CAdd o => A1 o
  | CMatch qty taker => next_iter (mkMloc taker qty (result_new taker qty) [])
  | CUpdate (UpdatePrice k np) => if np =? price then Done (RetUpd UErr) else C1 k
  | CUpdate (UpdateQuantity k nq) => U1 k nq
  | CUpdate (UpdatePriceAndQuantity k np nq) => if np =? price then U1 k nq else C1 k
  | CUpdate (Cancel k) => C1 k
  | CUpdate (Replace k p q _) => if p =? price then U1 k q else C1 k
  | CReadVis => RdV | CReadHid => RdH | CReadCnt => RdC | CList => RdL
  | CNext => G1
  | CSnapshot => Sn1
  end.

Definition fetch_add (s : shared) (x : obj) (n : N) : shared * ev :=
  (set_obj s x (wadd (get_obj s x) n), EFetchAdd x n (get_obj s x)).
Definition fetch_sub (s : shared) (x : obj) (n : N) : shared * ev :=
  (set_obj s x (wsub (get_obj s x) n), EFetchSub x n (get_obj s x)).

(* One step of one thread: the shared operation at [p], its event, the next point.
   [Done] has no step. *)
Definition tstep (p : pc) (s : shared) : option (pc * shared * ev) :=
  match p with
  | Done _ => None
  (* ---- add_order ---- *)
  | A1 o => let '(s', e) := fetch_add s OVis (vis o) in Some (A2 o, s', e)
  | A2 o => let '(s', e) := fetch_add s OHid (hid o) in Some (A3 o, s', e)
  | A3 o => let '(s', e) := fetch_add s OCnt 1 in Some (A4 o, s', e)
  | A4 o => let '(s', e) := fetch_add s OSAdded 1 in Some (A5 o, s', e)
  | A5 o => Some (A6 o, set_map s (upsert o (sh_map s)), EInsert o)
  | A6 o => Some (Done (RetAdd o), set_tk s (sh_tk s ++ [oid_of o]), EPush (oid_of o))
  (* ---- match_order ---- *)
  | M1 ml =>
      match sh_tk s with
      | [] => Some (start_finish ml, s, EPop None)
      | k :: t => Some (M2 ml k, set_tk s t, EPop (Some k))
      end
  | M2 ml k =>
      match lookup k (sh_map s) with
      | None => Some (M1 ml, s, ERemove k None)
      | Some o =>
          let s' := set_map s (remove_key k (sh_map s)) in
          let r := mf o (ml_rem ml) in
          let nxt :=
            if (m_consumed r =? 0) && (m_hidden_reduced r =? 0) && is_some (m_updated r) then
              next_iter (mkMloc (ml_taker ml) (ml_rem ml) (ml_res ml) (ml_aside ml ++ [o]))
            else if 0 <? m_consumed r then M3 ml o r
            else M5 ml o r in
          Some (nxt, s', ERemove k (Some o))
      end
  | M3 ml o r => let '(s', e) := fetch_sub s OVis (m_consumed r) in Some (M4 ml o r, s', e)
  | M4 ml o r =>
      let '(s', e) := fetch_add s OGen 1 in
      let t := mkTx (sh_gen s) (ml_taker ml) (oid_of o) (sh_price s) (m_consumed r) (opposite (side_of o)) in
      let res' := add_transaction (ml_res ml) t in
      let res'' := if is_some (m_updated r) then res' else add_filled res' (oid_of o) in
      Some (M5 (mkMloc (ml_taker ml) (ml_rem ml) res'' (ml_aside ml)) o r, s', e)
  | M5 ml o r => let '(s', e) := fetch_add s OSExec 1 in Some (M6 ml o r, s', e)
  | M6 ml o r => let '(s', e) := fetch_add s OSQty (m_consumed r) in Some (M7 ml o r, s', e)
  | M7 ml o r =>
      let '(s', e) := fetch_add s OSValue ((m_consumed r * price_of o) mod W) in
      Some (after_stats (ml_set_rem ml (m_remaining r)) o r, s', e)
  | M10 ml o r u => let '(s', e) := fetch_sub s OHid (m_hidden_reduced r) in Some (M11 ml o r u, s', e)
  | M11 ml o r u => let '(s', e) := fetch_add s OVis (m_hidden_reduced r) in Some (M12 ml r u, s', e)
  | M12 ml r u => Some (M13 ml r u, set_map s (upsert u (sh_map s)), EInsert u)
  | M13 ml r u => Some (next_iter ml, set_tk s (sh_tk s ++ [oid_of u]), EPush (oid_of u))
  | M14 ml o r =>
      let '(s', e) := fetch_sub s OCnt 1 in
      Some ((if drops_hidden o r then M15 ml o r else next_iter ml), s', e)
  | M15 ml o r => let '(s', e) := fetch_sub s OHid (hid o) in Some (next_iter ml, s', e)
  | F1 ml o rest => Some (F2 ml o rest, set_map s (upsert o (sh_map s)), EInsert o)
  | F2 ml o rest =>
      Some (start_finish (mkMloc (ml_taker ml) (ml_rem ml) (ml_res ml) rest),
            set_tk s (sh_tk s ++ [oid_of o]), EPush (oid_of o))
  (* ---- cancel / price move ---- *)
  | C1 k =>
      match lookup k (sh_map s) with
      | None => Some (Done (RetUpd (UOk None)), s, ERemove k None)
      | Some o => Some (C2 o, set_map s (remove_key k (sh_map s)), ERemove k (Some o))
      end
  | C2 o => let '(s', e) := fetch_sub s OVis (vis o) in Some (C3 o, s', e)
  | C3 o => let '(s', e) := fetch_sub s OHid (hid o) in Some (C4 o, s', e)
  | C4 o => let '(s', e) := fetch_sub s OCnt 1 in Some (C5 o, s', e)
  | C5 o => let '(s', e) := fetch_add s OSRemoved 1 in Some (Done (RetUpd (UOk (Some o))), s', e)
  (* ---- same-price amend ---- *)
  | U1 k nq =>
      match lookup k (sh_map s) with
      | None => Some (Done (RetUpd (UOk None)), s, EGet k None)
      | Some o => Some (U2 k nq, s, EGet k (Some o))
      end
  | U2 k nq =>
      match lookup k (sh_map s) with
      | None => Some (Done (RetUpd (UOk None)), s, ERemove k None)
      | Some old => Some (amend_after_remove old nq, set_map s (remove_key k (sh_map s)), ERemove k (Some old))
      end
  | U3 old new =>
      let '(s', e) :=
        if vis old <? vis new then fetch_add s OVis (vis new - vis old)
        else fetch_sub s OVis (vis old - vis new) in
      Some ((if negb (hid old =? hid new) then U4 old new else U5 new), s', e)
  | U4 old new =>
      let '(s', e) :=
        if hid old <? hid new then fetch_add s OHid (hid new - hid old)
        else fetch_sub s OHid (hid old - hid new) in
      Some (U5 new, s', e)
  | U5 new => Some (U6 new, set_map s (upsert new (sh_map s)), EInsert new)
  | U6 new => Some (Done (RetUpd (UOk (Some new))), set_tk s (sh_tk s ++ [oid_of new]), EPush (oid_of new))
  (* ---- reads, generator ---- *)
  | RdV => Some (Done (RetNum (sh_cvis s)), s, ELoad OVis (sh_cvis s))
  | RdH => Some (Done (RetNum (sh_chid s)), s, ELoad OHid (sh_chid s))
  | RdC => Some (Done (RetNum (sh_ccnt s)), s, ELoad OCnt (sh_ccnt s))
  | RdL => Some (Done (RetList (sort_ts (sh_map s))), s, EIter (N.of_nat (length (sh_map s))))
  | G1 => let '(s', e) := fetch_add s OGen 1 in Some (Done (RetNum (sh_gen s)), s', e)
  (* ---- snapshot: reads only, the shared state is returned as it is ---- *)
  | Sn1 => Some (Sn2 (sh_cvis s), s, ELoad OVis (sh_cvis s))
  | Sn2 v => Some (Sn3 v (sh_chid s), s, ELoad OHid (sh_chid s))
  | Sn3 v h => Some (Sn4 v h (sh_ccnt s), s, ELoad OCnt (sh_ccnt s))
  | Sn4 v h c =>
      Some (Done (RetSnap v h c (sort_ts (sh_map s))), s, EIter (N.of_nat (length (sh_map s))))
  end.

(* ---- threads, configurations, schedules ---- *)
Record thread := mkThread { th_pc : pc; th_todo : list call; th_rets : list ret }.

(* a thread whose current call has returned picks up its next call (local step) *)
Definition settle (price : N) (t : thread) : thread :=
  match th_pc t, th_todo t with
  | Done r, c :: cs => mkThread (start price c) cs (th_rets t ++ [r])
  | _, _ => t
  end.

(* calls with no shared operation return at once: settle until a real step or the end *)
Fixpoint settle_n (n : nat) (price : N) (t : thread) : thread :=
  match n with
  | O => t
  | S n' =>
      match th_pc t, th_todo t with
      | Done _, _ :: _ => settle_n n' price (settle price t)
      | _, _ => t
      end
  end.

Definition thread_init (price : N) (cs : list call) : thread :=
  match cs with
  | [] => mkThread (Done (RetNum 0)) [] []          (* nothing to do *)
  | c :: cs' => settle_n (S (length cs')) price (mkThread (start price c) cs' [])
  end.

Definition thread_finished (t : thread) : bool :=
  match th_pc t, th_todo t with Done _, [] => true | _, _ => false end.

Record config := mkConfig { cf_sh : shared; cf_threads : list thread }.

Fixpoint update_nth {A} (i : nat) (x : A) (l : list A) : list A :=
  match l, i with
  | [], _ => []
  | _ :: l', O => x :: l'
  | y :: l', S i' => y :: update_nth i' x l'
  end.

(* one scheduled step of thread [i]; None if that thread cannot move *)
Definition cstep (c : config) (i : nat) : option (config * ev) :=
  match nth_error (cf_threads c) i with
  | None => None
  | Some t =>
      match tstep (th_pc t) (cf_sh c) with
      | None => None
      | Some (p', s', e) =>
          let t' := settle_n (S (length (th_todo t))) (sh_price s') (mkThread p' (th_todo t) (th_rets t)) in
          Some (mkConfig s' (update_nth i t' (cf_threads c)), e)
      end
  end.

(* run a schedule; a choice that cannot move is skipped *)
Fixpoint exec (sched : list nat) (c : config) : config * list (nat * ev) :=
  match sched with
  | [] => (c, [])
  | i :: rest =>
      match cstep c i with
      | None => exec rest c
      | Some (c', e) => let '(c'', tr) := exec rest c' in (c'', (i, e) :: tr)
      end
  end.

Definition quiescent (c : config) : bool := forallb thread_finished (cf_threads c).

(* ---- acceptance of an implementation trace ----
   The trace lists (thread, event) in the order the scheduler let them happen.
   It is accepted iff at every entry the named thread's program point performs
   exactly that operation with exactly that observed value. *)
Definition opt_order_eqb (a b : option order) : bool := option_eqb order_eqb a b.
Definition ev_eqb (a b : ev) : bool :=
  match a, b with
  | EFetchAdd x n o, EFetchAdd x' n' o' => obj_eqb x x' && (n =? n') && (o =? o')
  | EFetchSub x n o, EFetchSub x' n' o' => obj_eqb x x' && (n =? n') && (o =? o')
  | ELoad x v, ELoad x' v' => obj_eqb x x' && (v =? v')
  | EInsert o, EInsert o' => order_eqb o o'
  | ERemove k r, ERemove k' r' => oid_eqb k k' && opt_order_eqb r r'
  | EGet k r, EGet k' r' => oid_eqb k k' && opt_order_eqb r r'
  | EPush k, EPush k' => oid_eqb k k'
  | EPop r, EPop r' => option_eqb oid_eqb r r'
  | EIter n, EIter n' => n =? n'
  | _, _ => false
  end.

(* returns the final configuration, or the index of the first rejected entry *)
Fixpoint accept (tr : list (nat * ev)) (c : config) (pos : nat) : config * option nat :=
  match tr with
  | [] => (c, None)
  | (i, e) :: rest =>
      match cstep c i with
      | Some (c', e') => if ev_eqb e e' then accept rest c' (S pos) else (c, Some pos)
      | None => (c, Some pos)
      end
  end.

End WithMf.
