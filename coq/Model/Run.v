(* Run.v — a plain interpreter of operation lists over the sequential model with the
   concrete per-order function, and a flat numeric summary of the final state.  Used by the
   thorough tier to re-evaluate sampled histories INSIDE Coq (vm_compute) and compare with
   the extracted model + OCaml driver (a check of the extraction and of the glue). *)
From PL Require Export Model.Level.
Local Open Scope N_scope.

Inductive rop :=
| RAdd (o : order)
| RMatch (q : N) (taker : oid)
| RUpd (u : update).

Definition rstep (fuel : nat) (s : level * N) (op : rop) : level * N :=
  match op with
  | RAdd o => (add_order (fst s) o, snd s)
  | RMatch q t =>
      match match_order match_against fuel (fst s) (snd s) q t with
      | Some (l', g', _) => (l', g')
      | None => s
      end
  | RUpd u => (fst (update_order (fst s) u), snd s)
  end.

Definition oid_num (k : oid) : N := match k with Uuid n => 2 * n | Ulid n => 2 * n + 1 end.

Definition summary (s : level * N) : list N :=
  let l := fst s in
  [ cvis l; chid l; ccnt l; snd s;
    s_added (st l); s_removed (st l); s_executed (st l); s_qty (st l); s_value (st l);
    N.of_nat (length (qmap (lq l))); N.of_nat (length (tickets (lq l)));
    fold_left (fun a o => (a * 31 + oid_num (oid_of o) + 3 * vis o + 7 * hid o) mod 1000000007) (qmap (lq l)) 0;
    fold_left (fun a k => (a * 31 + oid_num k) mod 1000000007) (tickets (lq l)) 0 ].

Definition run_summary (fuel : nat) (p : N) (ops : list rop) : list N :=
  summary (fold_left (rstep fuel) ops (new_level p, 0)).
