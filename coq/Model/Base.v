(* Base.v — shared scalar types of the PriceLevel model.
   Executable Gallina only; no proofs live in Model/. *)
From Coq Require Export List NArith ZArith Bool.
Export ListNotations.
Open Scope N_scope.

Arguments N.add : simpl never.
Arguments N.sub : simpl never.
Arguments N.mul : simpl never.
Arguments N.eqb : simpl never.
Arguments N.ltb : simpl never.
Arguments N.leb : simpl never.
Arguments N.min : simpl never.
Arguments N.max : simpl never.
Arguments N.modulo : simpl never.
Arguments N.div : simpl never.
Arguments N.pow : simpl never.

(* 2^64: u64 / usize (64-bit target) machine words are N values below this. *)
Definition W : N := 18446744073709551616.

(* fetch_add / fetch_sub on AtomicU64 / AtomicUsize wrap. *)
Definition wadd (a b : N) : N := (a + b) mod W.
Definition wsub (a b : N) : N := (a + W - b mod W) mod W.
(* u64::saturating_add / saturating_sub *)
Definition sat_add (a b : N) : N := N.min (a + b) (W - 1).
Definition sat_sub (a b : N) : N := a - b.

(* OrderId: two 128-bit formats. *)
Inductive oid := Uuid (n : N) | Ulid (n : N).

Definition oid_eqb (a b : oid) : bool :=
  match a, b with
  | Uuid x, Uuid y => N.eqb x y
  | Ulid x, Ulid y => N.eqb x y
  | _, _ => false
  end.

Inductive side := Buy | Sell.
Definition opposite (s : side) : side := match s with Buy => Sell | Sell => Buy end.
Definition side_eqb (a b : side) : bool :=
  match a, b with Buy, Buy | Sell, Sell => true | _, _ => false end.

Inductive tif := Gtc | Ioc | Fok | Gtd (expiry : N) | Day.
Definition tif_eqb (a b : tif) : bool :=
  match a, b with
  | Gtc, Gtc | Ioc, Ioc | Fok, Fok | Day, Day => true
  | Gtd x, Gtd y => N.eqb x y
  | _, _ => false
  end.

Inductive peg := BestBid | BestAsk | MidPrice | LastTrade.
Definition peg_eqb (a b : peg) : bool :=
  match a, b with
  | BestBid, BestBid | BestAsk, BestAsk | MidPrice, MidPrice | LastTrade, LastTrade => true
  | _, _ => false
  end.

Definition option_eqb {A} (eqb : A -> A -> bool) (a b : option A) : bool :=
  match a, b with
  | None, None => true
  | Some x, Some y => eqb x y
  | _, _ => false
  end.
