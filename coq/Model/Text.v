(* Text.v — the library's hand-written text codecs (Display / FromStr), written
   with the primitives the Rust code uses.  Executable Gallina only.

   Sources (in /repo/src): orders/base.rs (Side, OrderId), orders/time_in_force.rs,
   orders/pegged.rs, orders/order_type.rs, orders/update.rs, execution/transaction.rs,
   execution/list.rs, execution/match_result.rs, price_level/snapshot.rs,
   price_level/statistics.rs, price_level/order_queue.rs, price_level/level.rs.

   Parsers return a three-valued [outcome]:
     POk v    Ok(v)
     PErr     Err(_)            (error variants and messages are not modelled)
     PPanic   the Rust code would panic: a slice off a char boundary or out of
              range ([slice_o]), an index out of bounds ([idx], [byte_at]),
              checked-arithmetic overflow (the [i32] bracket counters, [usub])
              — or fail to terminate: the two [while] loops driven by a byte
              position run on fuel [S (length s)] and report PPanic when it is
              exhausted, so "never PPanic" also says that they terminate.
   Machine integers: u64/usize are 64 bit ([W]), i64, i32 (overflow checks on,
   as in the dev profile).  usize index arithmetic bounded by the string length
   is done in [nat] (a Rust string is shorter than 2^63 bytes). *)
From PL Require Export Model.Base Model.Order Model.Level Model.Utf8 Model.Ids.
Open Scope N_scope.

(* ------------------------------------------------------------------ outcome *)

Inductive outcome (A : Type) := POk (a : A) | PErr | PPanic.
Arguments POk {A} a.
Arguments PErr {A}.
Arguments PPanic {A}.

Definition bind {A B} (x : outcome A) (f : A -> outcome B) : outcome B :=
  match x with POk a => f a | PErr => PErr | PPanic => PPanic end.

Notation "x <- e ;; k" := (bind e (fun x => k)) (at level 61, e at next level, right associativity).
Notation "' p <- e ;; k" := (bind e (fun pat_arg => match pat_arg with p => k end))
  (at level 61, p pattern, e at next level, right associativity).

(* Option -> Result: ok_or / map_err *)
Definition of_opt {A} (x : option A) : outcome A :=
  match x with Some a => POk a | None => PErr end.

(* Option::unwrap / indexing: None = panic *)
Definition unwrap {A} (x : option A) : outcome A :=
  match x with Some a => POk a | None => PPanic end.

(* v[i] on a Vec / slice *)
Definition idx {A} (l : list A) (i : nat) : outcome A := unwrap (nth_error l i).
(* s.as_bytes()[i] *)
Definition byte_at (s : str) (i : nat) : outcome ascii := unwrap (nth_error s i).
(* &s[a..b] *)
Definition slice_o (s : str) (a b : nat) : outcome str := unwrap (slice s a b).
(* usize subtraction with overflow check *)
Definition usub (a b : nat) : outcome nat := if Nat.leb b a then POk (a - b)%nat else PPanic.

(* i32 with overflow checks *)
Definition I32_MAX : Z := 2147483647.
Definition I32_MIN : Z := (-2147483648)%Z.
Definition i32_inc (d : Z) : outcome Z := if (d + 1 <=? I32_MAX)%Z then POk (d + 1)%Z else PPanic.
Definition i32_dec (d : Z) : outcome Z := if (I32_MIN <=? d - 1)%Z then POk (d - 1)%Z else PPanic.

Fixpoint map_o {A B} (f : A -> outcome B) (l : list A) : outcome (list B) :=
  match l with
  | [] => POk []
  | x :: t => y <- f x ;; r <- map_o f t ;; POk (y :: r)
  end.

(* ------------------------------------------------------------------ str primitives *)

Fixpoint str_eqb (a b : str) : bool :=
  match a, b with
  | [], [] => true
  | x :: a', y :: b' => Ascii.eqb x y && str_eqb a' b'
  | _, _ => false
  end.

Definition is_empty (s : str) : bool := match s with [] => true | _ => false end.

(* s.split(c) for an ASCII c: always at least one piece *)
Fixpoint split (c : ascii) (s : str) : list str :=
  match s with
  | [] => [[]]
  | x :: t =>
      if Ascii.eqb x c then [] :: split c t
      else match split c t with
           | h :: r => (x :: h) :: r
           | [] => [[x]]
           end
  end.

(* s.find(c): byte index of the first occurrence *)
Fixpoint find_char (c : ascii) (s : str) : option nat :=
  match s with
  | [] => None
  | x :: t => if Ascii.eqb x c then Some O
              else match find_char c t with Some i => Some (S i) | None => None end
  end.

(* s.rfind(c): byte index of the last occurrence *)
Definition rfind_char (c : ascii) (s : str) : option nat :=
  match find_char c (rev s) with
  | Some i => Some (length s - 1 - i)%nat
  | None => None
  end.

(* s.find(pat) for a non-empty ASCII pattern *)
Fixpoint find_sub (p s : str) : option nat :=
  if starts_with p s then Some O else
  match s with
  | [] => None
  | _ :: t => match find_sub p t with Some i => Some (S i) | None => None end
  end.

Definition ends_with (p s : str) : bool := starts_with (rev p) (rev s).

(* s.splitn(2, c): (first piece, rest if c occurs) *)
Fixpoint splitn2 (c : ascii) (s : str) : str * option str :=
  match s with
  | [] => ([], None)
  | x :: t =>
      if Ascii.eqb x c then ([], Some t)
      else let '(h, r) := splitn2 c t in (x :: h, r)
  end.

Definition join (sep : str) (l : list str) : str :=
  match l with
  | [] => []
  | x :: t => x ++ flat_map (fun y => sep ++ y) t
  end.

(* HashMap<&str,&str>: insert = cons, get = first hit, so the last insert wins *)
Definition smap := list (str * str).
Fixpoint get (k : str) (m : smap) : option str :=
  match m with
  | [] => None
  | (k', v) :: m' => if str_eqb k k' then Some v else get k m'
  end.

(* str::to_uppercase as far as its callers can tell: they compare the result with
   ASCII keywords (and feed the rest to u64::from_str), so only characters whose
   upper-case is made of ASCII letters matter.  ASCII a-z, U+017F (C5 BF) -> S and
   U+0131 (C4 B1) -> I are mapped; every other character is kept as it is
   (its real upper-case contains a non-ASCII character or a letter pair that
   occurs in no keyword: SS FF FI FL ST).  Validated against the implementation
   over all Unicode scalar values by the thorough tier. *)
Fixpoint upper (s : str) : str :=
  match s with
  | [] => []
  | c :: t =>
      if (code c =? 197) then
        match t with
        | d :: t' => if code d =? 191 then "S"%char :: upper t' else c :: upper t
        | [] => [c]
        end
      else if (code c =? 196) then
        match t with
        | d :: t' => if code d =? 177 then "I"%char :: upper t' else c :: upper t
        | [] => [c]
        end
      else ascii_upper c :: upper t
  end.

(* ------------------------------------------------------------------ numbers *)

Definition digit_val (c : ascii) : option N :=
  let n := code c in if (48 <=? n) && (n <=? 57) then Some (n - 48) else None.

Fixpoint digits_val (s : str) (acc : N) : option N :=
  match s with
  | [] => Some acc
  | c :: t => match digit_val c with Some d => digits_val t (acc * 10 + d) | None => None end
  end.

(* <u64 as FromStr>: optional '+', at least one digit, only digits, no overflow *)
Definition parse_uint (bound : N) (s : str) : option N :=
  let ds := match s with c :: t => if Ascii.eqb c "+"%char then t else s | [] => s end in
  if is_empty ds then None else
  match digits_val ds 0 with
  | Some v => if v <? bound then Some v else None
  | None => None
  end.

Definition parse_u64 : str -> option N := parse_uint W.
Definition parse_usize : str -> option N := parse_uint W.

Definition I64_LIM : N := 9223372036854775808.   (* 2^63 *)

(* <i64 as FromStr>: optional '+' or '-', at least one digit *)
Definition parse_i64 (s : str) : option Z :=
  match s with
  | [] => None
  | c :: t =>
      if Ascii.eqb c "-"%char then
        if is_empty t then None else
        match digits_val t 0 with
        | Some v => if v <=? I64_LIM then Some (- Z.of_N v)%Z else None
        | None => None
        end
      else
        let ds := if Ascii.eqb c "+"%char then t else s in
        if is_empty ds then None else
        match digits_val ds 0 with
        | Some v => if v <? I64_LIM then Some (Z.of_N v) else None
        | None => None
        end
  end.

(* <bool as FromStr> *)
Definition parse_bool (s : str) : option bool :=
  if str_eqb s $"true" then Some true else if str_eqb s $"false" then Some false else None.

(* Display for unsigned integers *)
Definition dchar (d : N) : ascii := ascii_of_N (48 + d).
Fixpoint uint_chars (d : Decimal.uint) : str :=
  match d with
  | Decimal.Nil => []
  | Decimal.D0 r => dchar 0 :: uint_chars r
  | Decimal.D1 r => dchar 1 :: uint_chars r
  | Decimal.D2 r => dchar 2 :: uint_chars r
  | Decimal.D3 r => dchar 3 :: uint_chars r
  | Decimal.D4 r => dchar 4 :: uint_chars r
  | Decimal.D5 r => dchar 5 :: uint_chars r
  | Decimal.D6 r => dchar 6 :: uint_chars r
  | Decimal.D7 r => dchar 7 :: uint_chars r
  | Decimal.D8 r => dchar 8 :: uint_chars r
  | Decimal.D9 r => dchar 9 :: uint_chars r
  end.
Definition print_N (n : N) : str := uint_chars (N.to_uint n).
Definition print_Z (z : Z) : str :=
  match z with
  | Z0 => print_N 0
  | Zpos p => print_N (Npos p)
  | Zneg p => "-"%char :: print_N (Npos p)
  end.
Definition print_bool (b : bool) : str := if b then $"true" else $"false".

(* ------------------------------------------------------------------ leaf types *)

Definition print_side (s : side) : str := match s with Buy => $"BUY" | Sell => $"SELL" end.

(* Side::from_str *)
Definition parse_side (s : str) : outcome side :=
  let u := upper s in
  if str_eqb u $"BUY" then POk Buy else if str_eqb u $"SELL" then POk Sell else PErr.

Definition print_tif (t : tif) : str :=
  match t with
  | Gtc => $"GTC" | Ioc => $"IOC" | Fok => $"FOK" | Day => $"DAY"
  | Gtd e => $"GTD-" ++ print_N e
  end.

(* TimeInForce::from_str *)
Definition parse_tif (s : str) : outcome tif :=
  let u := upper s in
  if str_eqb u $"GTC" then POk Gtc
  else if str_eqb u $"IOC" then POk Ioc
  else if str_eqb u $"FOK" then POk Fok
  else if str_eqb u $"DAY" then POk Day
  else if starts_with $"GTD-" u then
    let parts := split "-"%char u in
    if negb (Nat.eqb (length parts) 2) then PErr else
    p1 <- idx parts 1 ;;
    e <- of_opt (parse_u64 p1) ;;
    POk (Gtd e)
  else PErr.

Definition print_peg (p : peg) : str :=
  match p with
  | BestBid => $"BestBid" | BestAsk => $"BestAsk" | MidPrice => $"MidPrice" | LastTrade => $"LastTrade"
  end.

(* PegReferenceType::from_str *)
Definition parse_peg (s : str) : outcome peg :=
  if str_eqb s $"BestBid" || str_eqb s $"BESTBID" || str_eqb s $"bestbid" then POk BestBid
  else if str_eqb s $"BestAsk" || str_eqb s $"BESTASK" || str_eqb s $"bestask" then POk BestAsk
  else if str_eqb s $"MidPrice" || str_eqb s $"MIDPRICE" || str_eqb s $"midprice" then POk MidPrice
  else if str_eqb s $"LastTrade" || str_eqb s $"LASTTRADE" || str_eqb s $"lasttrade" then POk LastTrade
  else PErr.

(* the inline match in OrderType::from_str (exact spelling only) *)
Definition parse_peg_exact (s : str) : outcome peg :=
  if str_eqb s $"BestBid" then POk BestBid
  else if str_eqb s $"BestAsk" then POk BestAsk
  else if str_eqb s $"MidPrice" then POk MidPrice
  else if str_eqb s $"LastTrade" then POk LastTrade
  else PErr.

Definition print_oid (k : oid) : str :=
  match k with Uuid u => print_uuid u | Ulid u => print_ulid u end.

(* OrderId::from_str: Uuid first, then Ulid *)
Definition parse_oid (s : str) : outcome oid :=
  match parse_uuid s with
  | Some u => POk (Uuid u)
  | None => match parse_ulid s with Some u => POk (Ulid u) | None => PErr end
  end.

(* ------------------------------------------------------------------ records
   "Prefix:k1=v1;k2=v2;...": split(':') must give exactly two parts; the second
   is split at ';', each piece at '='; pieces with exactly two parts are inserted. *)

Definition colon : ascii := ":"%char.
Definition semi : ascii := ";"%char.
Definition eq_c : ascii := "="%char.
Definition comma : ascii := ","%char.
Definition lbr : ascii := "["%char.
Definition rbr : ascii := "]"%char.

Definition parse_fields (body : str) : smap :=
  fold_left (fun m pair =>
               match split eq_c pair with
               | [k; v] => (k, v) :: m
               | _ => m
               end) (split semi body) [].

Definition field (k v : str) : str := k ++ eq_c :: v.
Definition print_fields (fs : list (str * str)) : str :=
  join [semi] (map (fun kv => field (fst kv) (snd kv)) fs).
Definition print_record (ty : str) (fs : list (str * str)) : str := ty ++ colon :: print_fields fs.

(* let parts = s.split(':').collect(); if parts.len() != 2 { Err }; (parts[0], parts[1]) *)
Definition record_parts (s : str) : outcome (str * str) :=
  let parts := split colon s in
  if negb (Nat.eqb (length parts) 2) then PErr else
  a <- idx parts 0 ;; b <- idx parts 1 ;; POk (a, b).

Definition get_field (m : smap) (k : str) : outcome str := of_opt (get k m).
Definition get_u64 (m : smap) (k : str) : outcome N := v <- get_field m k ;; of_opt (parse_u64 v).
Definition get_usize (m : smap) (k : str) : outcome N := v <- get_field m k ;; of_opt (parse_usize v).

(* ---- OrderType<()> ---- *)

Definition common_fields (c : common) : list (str * str) :=
  [($"id", print_oid (c_id c)); ($"price", print_N (c_price c))].
Definition common_tail (c : common) : list (str * str) :=
  [($"side", print_side (c_side c)); ($"timestamp", print_N (c_ts c));
   ($"time_in_force", print_tif (c_tif c))].

Definition print_order (o : order) : str :=
  match o with
  | Standard c q =>
      print_record $"Standard" (common_fields c ++ [($"quantity", print_N q)] ++ common_tail c)
  | Iceberg c v h =>
      print_record $"IcebergOrder"
        (common_fields c ++ [($"visible_quantity", print_N v); ($"hidden_quantity", print_N h)] ++ common_tail c)
  | PostOnly c q =>
      print_record $"PostOnly" (common_fields c ++ [($"quantity", print_N q)] ++ common_tail c)
  | TrailingStop c q tr lr =>
      print_record $"TrailingStop"
        (common_fields c ++ [($"quantity", print_N q)] ++ common_tail c ++
         [($"trail_amount", print_N tr); ($"last_reference_price", print_N lr)])
  | Pegged c q off pt =>
      print_record $"PeggedOrder"
        (common_fields c ++ [($"quantity", print_N q)] ++ common_tail c ++
         [($"reference_price_offset", print_Z off); ($"reference_price_type", print_peg pt)])
  | MarketToLimit c q =>
      print_record $"MarketToLimit" (common_fields c ++ [($"quantity", print_N q)] ++ common_tail c)
  | Reserve c v h thr amt auto =>
      print_record $"ReserveOrder"
        (common_fields c ++ [($"visible_quantity", print_N v); ($"hidden_quantity", print_N h)] ++
         common_tail c ++
         [($"replenish_threshold", print_N thr);
          ($"replenish_amount", match amt with Some a => print_N a | None => $"None" end);
          ($"auto_replenish", print_bool auto)])
  end.

(* OrderType::<T>::from_str *)
Definition parse_order (s : str) : outcome order :=
  '(ty, body) <- record_parts s ;;
  let m := parse_fields body in
  id_s <- get_field m $"id" ;;
  id <- parse_oid id_s ;;
  prc <- get_u64 m $"price" ;;
  side_s <- get_field m $"side" ;;
  sd <- parse_side side_s ;;
  ts <- get_u64 m $"timestamp" ;;
  tif_s <- get_field m $"time_in_force" ;;
  tf <- parse_tif tif_s ;;
  let c := mkCommon id prc sd ts tf in
  if str_eqb ty $"Standard" then
    q <- get_u64 m $"quantity" ;; POk (Standard c q)
  else if str_eqb ty $"IcebergOrder" then
    v <- get_u64 m $"visible_quantity" ;; h <- get_u64 m $"hidden_quantity" ;; POk (Iceberg c v h)
  else if str_eqb ty $"PostOnly" then
    q <- get_u64 m $"quantity" ;; POk (PostOnly c q)
  else if str_eqb ty $"TrailingStop" then
    q <- get_u64 m $"quantity" ;; tr <- get_u64 m $"trail_amount" ;;
    lr <- get_u64 m $"last_reference_price" ;; POk (TrailingStop c q tr lr)
  else if str_eqb ty $"PeggedOrder" then
    q <- get_u64 m $"quantity" ;;
    off_s <- get_field m $"reference_price_offset" ;;
    off <- of_opt (parse_i64 off_s) ;;
    pt_s <- get_field m $"reference_price_type" ;;
    pt <- parse_peg_exact pt_s ;;
    POk (Pegged c q off pt)
  else if str_eqb ty $"MarketToLimit" then
    q <- get_u64 m $"quantity" ;; POk (MarketToLimit c q)
  else if str_eqb ty $"ReserveOrder" then
    v <- get_u64 m $"visible_quantity" ;; h <- get_u64 m $"hidden_quantity" ;;
    thr <- get_u64 m $"replenish_threshold" ;;
    amt_s <- get_field m $"replenish_amount" ;;
    amt <- (if str_eqb amt_s $"None" then POk None
            else a <- of_opt (parse_u64 amt_s) ;; POk (Some a)) ;;
    auto_s <- get_field m $"auto_replenish" ;;
    auto <- of_opt (parse_bool auto_s) ;;
    POk (Reserve c v h thr amt auto)
  else PErr.

(* ---- OrderUpdate ---- *)

Definition print_update (u : update) : str :=
  match u with
  | UpdatePrice k np =>
      print_record $"UpdatePrice" [($"order_id", print_oid k); ($"new_price", print_N np)]
  | UpdateQuantity k nq =>
      print_record $"UpdateQuantity" [($"order_id", print_oid k); ($"new_quantity", print_N nq)]
  | UpdatePriceAndQuantity k np nq =>
      print_record $"UpdatePriceAndQuantity"
        [($"order_id", print_oid k); ($"new_price", print_N np); ($"new_quantity", print_N nq)]
  | Cancel k => print_record $"Cancel" [($"order_id", print_oid k)]
  | Replace k p q sd =>
      print_record $"Replace"
        [($"order_id", print_oid k); ($"price", print_N p); ($"quantity", print_N q);
         ($"side", print_side sd)]
  end.

Definition parse_update (s : str) : outcome update :=
  '(ty, body) <- record_parts s ;;
  let m := parse_fields body in
  id_s <- get_field m $"order_id" ;;
  k <- parse_oid id_s ;;
  if str_eqb ty $"UpdatePrice" then
    np <- get_u64 m $"new_price" ;; POk (UpdatePrice k np)
  else if str_eqb ty $"UpdateQuantity" then
    nq <- get_u64 m $"new_quantity" ;; POk (UpdateQuantity k nq)
  else if str_eqb ty $"UpdatePriceAndQuantity" then
    np <- get_u64 m $"new_price" ;; nq <- get_u64 m $"new_quantity" ;;
    POk (UpdatePriceAndQuantity k np nq)
  else if str_eqb ty $"Cancel" then POk (Cancel k)
  else if str_eqb ty $"Replace" then
    p <- get_u64 m $"price" ;; q <- get_u64 m $"quantity" ;;
    sd_s <- get_field m $"side" ;; sd <- parse_side sd_s ;;
    POk (Replace k p q sd)
  else PErr.

(* ---- Transaction ---- *)

Record txn := mkTxn {
  t_id : N;            (* transaction_id: Uuid, 128 bit *)
  t_taker : oid; t_maker : oid; t_price : N; t_qty : N; t_side : side; t_ts : N }.

Definition print_txn (t : txn) : str :=
  print_record $"Transaction"
    [($"transaction_id", print_uuid (t_id t)); ($"taker_order_id", print_oid (t_taker t));
     ($"maker_order_id", print_oid (t_maker t)); ($"price", print_N (t_price t));
     ($"quantity", print_N (t_qty t)); ($"taker_side", print_side (t_side t));
     ($"timestamp", print_N (t_ts t))].

Definition parse_txn (s : str) : outcome txn :=
  '(ty, body) <- record_parts s ;;
  if negb (str_eqb ty $"Transaction") then PErr else
  let m := parse_fields body in
  tid_s <- get_field m $"transaction_id" ;;
  tid <- of_opt (parse_uuid tid_s) ;;
  tk_s <- get_field m $"taker_order_id" ;; tk <- parse_oid tk_s ;;
  mk_s <- get_field m $"maker_order_id" ;; mk <- parse_oid mk_s ;;
  p <- get_u64 m $"price" ;;
  q <- get_u64 m $"quantity" ;;
  sd_s <- get_field m $"taker_side" ;; sd <- parse_side sd_s ;;
  ts <- get_u64 m $"timestamp" ;;
  POk (mkTxn tid tk mk p q sd ts).

(* ---- PriceLevelSnapshot (summary: the order list is not part of the text) ---- *)

Record snap_sum := mkSnapSum { ss_price : N; ss_vis : N; ss_hid : N; ss_cnt : N }.

Definition print_snapshot (x : snap_sum) : str :=
  print_record $"PriceLevelSnapshot"
    [($"price", print_N (ss_price x)); ($"visible_quantity", print_N (ss_vis x));
     ($"hidden_quantity", print_N (ss_hid x)); ($"order_count", print_N (ss_cnt x))].

Definition parse_snapshot (s : str) : outcome snap_sum :=
  '(ty, body) <- record_parts s ;;
  if negb (str_eqb ty $"PriceLevelSnapshot") then PErr else
  let m := parse_fields body in
  p <- get_u64 m $"price" ;;
  v <- get_u64 m $"visible_quantity" ;;
  h <- get_u64 m $"hidden_quantity" ;;
  c <- get_usize m $"order_count" ;;
  POk (mkSnapSum p v h c).

(* ---- PriceLevelStatistics ---- *)

Record stats_text := mkStatsText {
  x_added : N; x_removed : N; x_executed : N; x_qty : N; x_value : N;
  x_last : N; x_first : N; x_wait : N }.

Definition print_stats (x : stats_text) : str :=
  print_record $"PriceLevelStatistics"
    [($"orders_added", print_N (x_added x)); ($"orders_removed", print_N (x_removed x));
     ($"orders_executed", print_N (x_executed x)); ($"quantity_executed", print_N (x_qty x));
     ($"value_executed", print_N (x_value x)); ($"last_execution_time", print_N (x_last x));
     ($"first_arrival_time", print_N (x_first x)); ($"sum_waiting_time", print_N (x_wait x))].

Definition parse_stats (s : str) : outcome stats_text :=
  '(ty, body) <- record_parts s ;;
  if negb (str_eqb ty $"PriceLevelStatistics") then PErr else
  let m := parse_fields body in
  a <- get_usize m $"orders_added" ;;
  r <- get_usize m $"orders_removed" ;;
  e <- get_usize m $"orders_executed" ;;
  q <- get_u64 m $"quantity_executed" ;;
  v <- get_u64 m $"value_executed" ;;
  l <- get_u64 m $"last_execution_time" ;;
  f <- get_u64 m $"first_arrival_time" ;;
  w <- get_u64 m $"sum_waiting_time" ;;
  POk (mkStatsText a r e q v l f w).

(* ------------------------------------------------------------------ TransactionList *)

Definition print_txlist (l : list txn) : str :=
  $"Transactions:[" ++ join [comma] (map print_txn l) ++ [rbr].

(* for c in content.chars(): the arms only look at ASCII characters and push the
   character otherwise, so the loop is the same over bytes.  [rcur] is
   current_transaction reversed. *)
Fixpoint txl_loop (rest : str) (depth : Z) (rcur : str) (acc : list txn) : outcome (list txn) :=
  match rest with
  | [] =>
      if is_empty rcur then POk (rev acc)
      else t <- parse_txn (rev rcur) ;; POk (rev (t :: acc))
  | c :: r =>
      if Ascii.eqb c comma && (depth =? 0)%Z then
        if is_empty rcur then txl_loop r depth rcur acc
        else t <- parse_txn (rev rcur) ;; txl_loop r depth [] (t :: acc)
      else if Ascii.eqb c lbr then d <- i32_inc depth ;; txl_loop r d (c :: rcur) acc
      else if Ascii.eqb c rbr then d <- i32_dec depth ;; txl_loop r d (c :: rcur) acc
      else txl_loop r depth (c :: rcur) acc
  end.

(* TransactionList::from_str *)
Definition parse_txlist (s : str) : outcome (list txn) :=
  if negb (starts_with $"Transactions:[" s) || negb (ends_with [rbr] s) then PErr else
  cs <- of_opt (find_char lbr s) ;;
  ce <- of_opt (rfind_char rbr s) ;;
  if Nat.leb ce cs then PErr else
  content <- slice_o s (S cs) ce ;;
  if is_empty content then POk [] else
  txl_loop content 0%Z [] [].

(* ------------------------------------------------------------------ MatchResult *)

Record match_result := mkMatchResult {
  mr_order_id : oid; mr_txs : list txn; mr_remaining : N; mr_complete : bool;
  mr_filled : list oid }.

Definition print_match_result (r : match_result) : str :=
  $"MatchResult:order_id=" ++ print_oid (mr_order_id r) ++
  $";remaining_quantity=" ++ print_N (mr_remaining r) ++
  $";is_complete=" ++ print_bool (mr_complete r) ++
  $";transactions=" ++ print_txlist (mr_txs r) ++
  $";filled_order_ids=[" ++ join [comma] (map print_oid (mr_filled r)) ++ [rbr].

(* the raw field texts collected by the scanner *)
Record mrf := mkMrf {
  f_oid : option str; f_rem : option str; f_comp : option str;
  f_txs : option str; f_filled : option str }.
Definition mrf0 : mrf := mkMrf None None None None None.

(* position of the first ';' at or after [pos] ([rest] = the bytes from [pos]);
   false = none, the position is then the length *)
Fixpoint scan_semi (rest : str) (pos : nat) : nat * bool :=
  match rest with
  | [] => (pos, false)
  | c :: r => if Ascii.eqb c semi then (pos, true) else scan_semi r (S pos)
  end.

(* find_next_field (current code): while pos < len { if bytes[pos] == b';' {..} pos += 1 } *)
Definition find_next_field (s : str) (start : nat) : outcome (str * nat) :=
  if Nat.ltb (length s) start then PErr else
  let '(p, found) := scan_semi (skipn start s) start in
  v <- slice_o s start p ;;
  POk (v, if found then S p else p).

(* the bracket scan (current code): while i < len && depth > 0 { bytes[i] ... }
   Some i = index of the closing bracket, None = the string ended first *)
Fixpoint bscan (rest : str) (i : nat) (depth : Z) : outcome (option nat) :=
  match rest with
  | [] => POk None
  | c :: r =>
      if Ascii.eqb c rbr then
        let d := (depth - 1)%Z in           (* depth >= 1 here *)
        if (d =? 0)%Z then POk (Some i) else bscan r (S i) d
      else if Ascii.eqb c lbr then d <- i32_inc depth ;; bscan r (S i) d
      else bscan r (S i) depth
  end.

(* The code before the repair (commit "compare bytes in MatchResult::from_str"):
   [s[pos..].starts_with(';')] — the slice panics inside a multi-byte character. *)
Fixpoint scan_semi_old (s rest : str) (pos : nat) : outcome (nat * bool) :=
  match rest with
  | [] => POk (pos, false)
  | c :: r =>
      _ <- slice_o s pos (length s) ;;
      if Ascii.eqb c semi then POk (pos, true) else scan_semi_old s r (S pos)
  end.

Definition find_next_field_old (s : str) (start : nat) : outcome (str * nat) :=
  if Nat.ltb (length s) start then PErr else
  '(p, found) <- scan_semi_old s (skipn start s) start ;;
  v <- slice_o s start p ;;
  POk (v, if found then S p else p).

Fixpoint bscan_old (s rest : str) (i : nat) (depth : Z) : outcome (option nat) :=
  match rest with
  | [] => POk None
  | c :: r =>
      _ <- slice_o s i (length s) ;;
      if Ascii.eqb c rbr then
        let d := (depth - 1)%Z in
        if (d =? 0)%Z then POk (Some i) else bscan_old s r (S i) d
      else if Ascii.eqb c lbr then d <- i32_inc depth ;; bscan_old s r (S i) d
      else bscan_old s r (S i) depth
  end.

Section MatchResultScanner.
  (* the two scanners: current code or the code before the repair *)
  Variable fnf : str -> nat -> outcome (str * nat).
  Variable bsc : str -> nat -> outcome (option nat).     (* s, first index to look at *)

  (* the bracketed value starting at [pos1]; [open] = index after the opening bracket *)
  Definition bracket_value (s : str) (pos1 open : nat) (strict : bool) : outcome (str * nat) :=
    r <- bsc s open ;;
    match r with
    | None => PErr
    | Some i =>
        v <- slice_o s pos1 (S i) ;;
        let pos2 := S i in
        if Nat.ltb pos2 (length s) then
          rest2 <- slice_o s pos2 (length s) ;;
          if starts_with [semi] rest2 then POk (v, S pos2)
          else if strict then PErr else POk (v, pos2)
        else POk (v, pos2)
    end.

  (* while pos < s.len() { ... } *)
  Fixpoint mr_loop (fuel : nat) (s : str) (pos : nat) (f : mrf) : outcome mrf :=
    if Nat.leb (length s) pos then POk f else
    match fuel with
    | O => PPanic
    | S fuel' =>
        rest <- slice_o s pos (length s) ;;
        idx_eq <- of_opt (find_char eq_c rest) ;;
        let fe := (pos + idx_eq)%nat in
        name <- slice_o s pos fe ;;
        let pos1 := S fe in
        if str_eqb name $"order_id" then
          '(v, np) <- fnf s pos1 ;;
          mr_loop fuel' s np (mkMrf (Some v) (f_rem f) (f_comp f) (f_txs f) (f_filled f))
        else if str_eqb name $"remaining_quantity" then
          '(v, np) <- fnf s pos1 ;;
          mr_loop fuel' s np (mkMrf (f_oid f) (Some v) (f_comp f) (f_txs f) (f_filled f))
        else if str_eqb name $"is_complete" then
          '(v, np) <- fnf s pos1 ;;
          mr_loop fuel' s np (mkMrf (f_oid f) (f_rem f) (Some v) (f_txs f) (f_filled f))
        else if str_eqb name $"transactions" then
          rest1 <- slice_o s pos1 (length s) ;;
          if negb (starts_with $"Transactions:[" rest1) then PErr else
          '(v, np) <- bracket_value s pos1 (pos1 + 14) true ;;
          mr_loop fuel' s np (mkMrf (f_oid f) (f_rem f) (f_comp f) (Some v) (f_filled f))
        else if str_eqb name $"filled_order_ids" then
          rest1 <- slice_o s pos1 (length s) ;;
          if negb (starts_with [lbr] rest1) then PErr else
          '(v, np) <- bracket_value s pos1 (pos1 + 1) false ;;
          mr_loop fuel' s np (mkMrf (f_oid f) (f_rem f) (f_comp f) (f_txs f) (Some v))
        else PErr
    end.

  Definition parse_match_result_gen (s : str) : outcome match_result :=
    if negb (starts_with $"MatchResult:" s) then PErr else
    f <- mr_loop (S (length s)) s 12 mrf0 ;;
    oid_s <- of_opt (f_oid f) ;;
    rem_s <- of_opt (f_rem f) ;;
    comp_s <- of_opt (f_comp f) ;;
    txs_s <- of_opt (f_txs f) ;;
    filled_s <- of_opt (f_filled f) ;;
    k <- parse_oid oid_s ;;
    rem <- of_opt (parse_u64 rem_s) ;;
    comp <- of_opt (parse_bool comp_s) ;;
    txs <- parse_txlist txs_s ;;
    filled <-
      (if str_eqb filled_s $"[]" then POk []
       else
         e <- usub (length filled_s) 1 ;;
         content <- slice_o filled_s 1 e ;;
         if is_empty content then POk []
         else map_o parse_oid (split comma content)) ;;
    POk (mkMatchResult k txs rem comp filled).
End MatchResultScanner.

(* MatchResult::from_str, current code *)
Definition parse_match_result : str -> outcome match_result :=
  parse_match_result_gen find_next_field (fun s i => bscan (skipn i s) i 1%Z).

(* MatchResult::from_str before the repair *)
Definition parse_match_result_old : str -> outcome match_result :=
  parse_match_result_gen find_next_field_old (fun s i => bscan_old s (skipn i s) i 1%Z).

(* ------------------------------------------------------------------ OrderQueue *)

Definition print_queue (os : list order) : str :=
  $"OrderQueue:orders=[" ++ join [comma] (map print_order os) ++ [rbr].

(* OrderQueue::from_str: the orders in text order (pushed in that order) *)
Definition parse_queue (s : str) : outcome (list order) :=
  if negb (starts_with $"OrderQueue:orders=[" s) || negb (ends_with [rbr] s) then PErr else
  e <- usub (length s) 1 ;;
  content <- slice_o s 19 e ;;
  if is_empty content then POk []
  else map_o parse_order (split comma content).

(* ------------------------------------------------------------------ PriceLevel *)

Record level_text := mkLevelText {
  lt_price : N; lt_vis : N; lt_hid : N; lt_cnt : N; lt_orders : list order }.

Definition print_level (l : level_text) : str :=
  $"PriceLevel:price=" ++ print_N (lt_price l) ++
  $";visible_quantity=" ++ print_N (lt_vis l) ++
  $";hidden_quantity=" ++ print_N (lt_hid l) ++
  $";order_count=" ++ print_N (lt_cnt l) ++
  $";orders=[" ++ join [comma] (map print_order (lt_orders l)) ++ [rbr].

(* for (i, c) in orders_part.char_indices(): again only ASCII arms, so a byte loop
   with the byte index.  [acc] = the orders added so far, reversed. *)
Fixpoint lvl_scan (op rest : str) (i : nat) (depth : Z) (last : nat) (acc : list order)
  : outcome (list order * nat) :=
  match rest with
  | [] => POk (acc, last)
  | c :: r =>
      if Ascii.eqb c "("%char || Ascii.eqb c lbr then
        d <- i32_inc depth ;; lvl_scan op r (S i) d last acc
      else if Ascii.eqb c ")"%char || Ascii.eqb c rbr then
        d <- i32_dec depth ;; lvl_scan op r (S i) d last acc
      else if Ascii.eqb c comma && (depth =? 0)%Z then
        o_s <- slice_o op last i ;;
        o <- parse_order o_s ;;
        lvl_scan op r (S i) depth (S i) (o :: acc)
      else lvl_scan op r (S i) depth last acc
  end.

Definition orders_kw : str := $"orders=[".

(* PriceLevel::from_str: the price and the orders handed to add_order, in order *)
Definition parse_level (s : str) : outcome (N * list order) :=
  if negb (starts_with $"PriceLevel:" s) then PErr else
  content <- slice_o s 11 (length s) ;;
  '(m0, remaining) <-
    match find_sub orders_kw content with
    | Some os =>
        tail <- slice_o content os (length content) ;;
        i <- of_opt (find_char rbr tail) ;;
        let oe := (i + os)%nat in
        ostr <- slice_o content (os + 8) oe ;;
        before <- slice_o content 0 os ;;
        after <- slice_o content (S oe) (length content) ;;
        POk ([($"orders", ostr)], before ++ after)
    | None => POk ([], content)
    end ;;
  let m := fold_left (fun m part =>
                        match splitn2 eq_c part with
                        | (k, Some v) => (k, v) :: m
                        | (_, None) => m
                        end)
                     (filter (fun p => negb (is_empty p)) (split semi remaining)) m0 in
  prc <- (match get $"price" m with
          | Some v => of_opt (parse_u64 v)
          | None => PErr
          end) ;;
  match get $"orders" m with
  | Some op =>
      if is_empty op then POk (prc, []) else
      '(acc, last) <- lvl_scan op op 0 0%Z 0 [] ;;
      o_s <- slice_o op last (length op) ;;
      if is_empty o_s then POk (prc, rev acc)
      else o <- parse_order o_s ;; POk (prc, rev (o :: acc))
  | None => POk (prc, [])
  end.
