
(** val negb : bool -> bool **)

let negb = function
| true -> false
| false -> true

type nat =
| O
| S of nat

(** val snd : ('a1 * 'a2) -> 'a2 **)

let snd = function
| (_, y) -> y

(** val length : 'a1 list -> nat **)

let rec length = function
| [] -> O
| _ :: l' -> S (length l')

(** val app : 'a1 list -> 'a1 list -> 'a1 list **)

let rec app l m =
  match l with
  | [] -> m
  | a :: l1 -> a :: (app l1 m)

type comparison =
| Eq
| Lt
| Gt

(** val eqb : bool -> bool -> bool **)

let eqb b1 b2 =
  if b1 then b2 else if b2 then false else true

(** val remove : ('a1 -> 'a1 -> bool) -> 'a1 -> 'a1 list -> 'a1 list **)

let rec remove eq_dec x = function
| [] -> []
| y :: tl ->
  if eq_dec x y then remove eq_dec x tl else y :: (remove eq_dec x tl)

(** val fold_left : ('a1 -> 'a2 -> 'a1) -> 'a2 list -> 'a1 -> 'a1 **)

let rec fold_left f l a0 =
  match l with
  | [] -> a0
  | b :: t -> fold_left f t (f a0 b)

(** val fold_right : ('a2 -> 'a1 -> 'a1) -> 'a1 -> 'a2 list -> 'a1 **)

let rec fold_right f a0 = function
| [] -> a0
| b :: t -> f b (fold_right f a0 t)

(** val filter : ('a1 -> bool) -> 'a1 list -> 'a1 list **)

let rec filter f = function
| [] -> []
| x :: l0 -> if f x then x :: (filter f l0) else filter f l0

(** val find : ('a1 -> bool) -> 'a1 list -> 'a1 option **)

let rec find f = function
| [] -> None
| x :: tl -> if f x then Some x else find f tl

type positive =
| XI of positive
| XO of positive
| XH

type n =
| N0
| Npos of positive

type z =
| Z0
| Zpos of positive
| Zneg of positive

module Pos =
 struct
  type mask =
  | IsNul
  | IsPos of positive
  | IsNeg
 end

module Coq_Pos =
 struct
  (** val succ : positive -> positive **)

  let rec succ = function
  | XI p -> XO (succ p)
  | XO p -> XI p
  | XH -> XO XH

  (** val add : positive -> positive -> positive **)

  let rec add x y =
    match x with
    | XI p ->
      (match y with
       | XI q -> XO (add_carry p q)
       | XO q -> XI (add p q)
       | XH -> XO (succ p))
    | XO p ->
      (match y with
       | XI q -> XI (add p q)
       | XO q -> XO (add p q)
       | XH -> XI p)
    | XH -> (match y with
             | XI q -> XO (succ q)
             | XO q -> XI q
             | XH -> XO XH)

  (** val add_carry : positive -> positive -> positive **)

  and add_carry x y =
    match x with
    | XI p ->
      (match y with
       | XI q -> XI (add_carry p q)
       | XO q -> XO (add_carry p q)
       | XH -> XI (succ p))
    | XO p ->
      (match y with
       | XI q -> XO (add_carry p q)
       | XO q -> XI (add p q)
       | XH -> XO (succ p))
    | XH ->
      (match y with
       | XI q -> XI (succ q)
       | XO q -> XO (succ q)
       | XH -> XI XH)

  (** val pred_double : positive -> positive **)

  let rec pred_double = function
  | XI p -> XI (XO p)
  | XO p -> XI (pred_double p)
  | XH -> XH

  type mask = Pos.mask =
  | IsNul
  | IsPos of positive
  | IsNeg

  (** val succ_double_mask : mask -> mask **)

  let succ_double_mask = function
  | IsNul -> IsPos XH
  | IsPos p -> IsPos (XI p)
  | IsNeg -> IsNeg

  (** val double_mask : mask -> mask **)

  let double_mask = function
  | IsPos p -> IsPos (XO p)
  | x0 -> x0

  (** val double_pred_mask : positive -> mask **)

  let double_pred_mask = function
  | XI p -> IsPos (XO (XO p))
  | XO p -> IsPos (XO (pred_double p))
  | XH -> IsNul

  (** val sub_mask : positive -> positive -> mask **)

  let rec sub_mask x y =
    match x with
    | XI p ->
      (match y with
       | XI q -> double_mask (sub_mask p q)
       | XO q -> succ_double_mask (sub_mask p q)
       | XH -> IsPos (XO p))
    | XO p ->
      (match y with
       | XI q -> succ_double_mask (sub_mask_carry p q)
       | XO q -> double_mask (sub_mask p q)
       | XH -> IsPos (pred_double p))
    | XH -> (match y with
             | XH -> IsNul
             | _ -> IsNeg)

  (** val sub_mask_carry : positive -> positive -> mask **)

  and sub_mask_carry x y =
    match x with
    | XI p ->
      (match y with
       | XI q -> succ_double_mask (sub_mask_carry p q)
       | XO q -> double_mask (sub_mask p q)
       | XH -> IsPos (pred_double p))
    | XO p ->
      (match y with
       | XI q -> double_mask (sub_mask_carry p q)
       | XO q -> succ_double_mask (sub_mask_carry p q)
       | XH -> double_pred_mask p)
    | XH -> IsNeg

  (** val mul : positive -> positive -> positive **)

  let rec mul x y =
    match x with
    | XI p -> add y (XO (mul p y))
    | XO p -> XO (mul p y)
    | XH -> y

  (** val compare_cont : comparison -> positive -> positive -> comparison **)

  let rec compare_cont r x y =
    match x with
    | XI p ->
      (match y with
       | XI q -> compare_cont r p q
       | XO q -> compare_cont Gt p q
       | XH -> Gt)
    | XO p ->
      (match y with
       | XI q -> compare_cont Lt p q
       | XO q -> compare_cont r p q
       | XH -> Gt)
    | XH -> (match y with
             | XH -> r
             | _ -> Lt)

  (** val compare : positive -> positive -> comparison **)

  let compare =
    compare_cont Eq

  (** val eqb : positive -> positive -> bool **)

  let rec eqb p q =
    match p with
    | XI p0 -> (match q with
                | XI q0 -> eqb p0 q0
                | _ -> false)
    | XO p0 -> (match q with
                | XO q0 -> eqb p0 q0
                | _ -> false)
    | XH -> (match q with
             | XH -> true
             | _ -> false)

  (** val of_succ_nat : nat -> positive **)

  let rec of_succ_nat = function
  | O -> XH
  | S x -> succ (of_succ_nat x)
 end

module N =
 struct
  (** val succ_double : n -> n **)

  let succ_double = function
  | N0 -> Npos XH
  | Npos p -> Npos (XI p)

  (** val double : n -> n **)

  let double = function
  | N0 -> N0
  | Npos p -> Npos (XO p)

  (** val add : n -> n -> n **)

  let add n0 m =
    match n0 with
    | N0 -> m
    | Npos p -> (match m with
                 | N0 -> n0
                 | Npos q -> Npos (Coq_Pos.add p q))

  (** val sub : n -> n -> n **)

  let sub n0 m =
    match n0 with
    | N0 -> N0
    | Npos n' ->
      (match m with
       | N0 -> n0
       | Npos m' ->
         (match Coq_Pos.sub_mask n' m' with
          | Coq_Pos.IsPos p -> Npos p
          | _ -> N0))

  (** val mul : n -> n -> n **)

  let mul n0 m =
    match n0 with
    | N0 -> N0
    | Npos p -> (match m with
                 | N0 -> N0
                 | Npos q -> Npos (Coq_Pos.mul p q))

  (** val compare : n -> n -> comparison **)

  let compare n0 m =
    match n0 with
    | N0 -> (match m with
             | N0 -> Eq
             | Npos _ -> Lt)
    | Npos n' -> (match m with
                  | N0 -> Gt
                  | Npos m' -> Coq_Pos.compare n' m')

  (** val eqb : n -> n -> bool **)

  let eqb n0 m =
    match n0 with
    | N0 -> (match m with
             | N0 -> true
             | Npos _ -> false)
    | Npos p -> (match m with
                 | N0 -> false
                 | Npos q -> Coq_Pos.eqb p q)

  (** val leb : n -> n -> bool **)

  let leb x y =
    match compare x y with
    | Gt -> false
    | _ -> true

  (** val ltb : n -> n -> bool **)

  let ltb x y =
    match compare x y with
    | Lt -> true
    | _ -> false

  (** val min : n -> n -> n **)

  let min n0 n' =
    match compare n0 n' with
    | Gt -> n'
    | _ -> n0

  (** val pos_div_eucl : positive -> n -> n * n **)

  let rec pos_div_eucl a b =
    match a with
    | XI a' ->
      let (q, r) = pos_div_eucl a' b in
      let r' = succ_double r in
      if leb b r' then ((succ_double q), (sub r' b)) else ((double q), r')
    | XO a' ->
      let (q, r) = pos_div_eucl a' b in
      let r' = double r in
      if leb b r' then ((succ_double q), (sub r' b)) else ((double q), r')
    | XH ->
      (match b with
       | N0 -> (N0, (Npos XH))
       | Npos p -> (match p with
                    | XH -> ((Npos XH), N0)
                    | _ -> (N0, (Npos XH))))

  (** val div_eucl : n -> n -> n * n **)

  let div_eucl a b =
    match a with
    | N0 -> (N0, N0)
    | Npos na -> (match b with
                  | N0 -> (N0, a)
                  | Npos _ -> pos_div_eucl na b)

  (** val modulo : n -> n -> n **)

  let modulo a b =
    snd (div_eucl a b)

  (** val of_nat : nat -> n **)

  let of_nat = function
  | O -> N0
  | S n' -> Npos (Coq_Pos.of_succ_nat n')
 end

module Z =
 struct
  (** val eqb : z -> z -> bool **)

  let eqb x y =
    match x with
    | Z0 -> (match y with
             | Z0 -> true
             | _ -> false)
    | Zpos p -> (match y with
                 | Zpos q -> Coq_Pos.eqb p q
                 | _ -> false)
    | Zneg p -> (match y with
                 | Zneg q -> Coq_Pos.eqb p q
                 | _ -> false)
 end

(** val w : n **)

let w =
  Npos (XO (XO (XO (XO (XO (XO (XO (XO (XO (XO (XO (XO (XO (XO (XO (XO (XO
    (XO (XO (XO (XO (XO (XO (XO (XO (XO (XO (XO (XO (XO (XO (XO (XO (XO (XO
    (XO (XO (XO (XO (XO (XO (XO (XO (XO (XO (XO (XO (XO (XO (XO (XO (XO (XO
    (XO (XO (XO (XO (XO (XO (XO (XO (XO (XO (XO
    XH))))))))))))))))))))))))))))))))))))))))))))))))))))))))))))))))

(** val wadd : n -> n -> n **)

let wadd a b =
  N.modulo (N.add a b) w

(** val wsub : n -> n -> n **)

let wsub a b =
  N.modulo (N.sub (N.add a w) (N.modulo b w)) w

(** val sat_add : n -> n -> n **)

let sat_add a b =
  N.min (N.add a b) (N.sub w (Npos XH))

(** val sat_sub : n -> n -> n **)

let sat_sub =
  N.sub

type oid =
| Uuid of n
| Ulid of n

(** val oid_eqb : oid -> oid -> bool **)

let oid_eqb a b =
  match a with
  | Uuid x -> (match b with
               | Uuid y -> N.eqb x y
               | Ulid _ -> false)
  | Ulid x -> (match b with
               | Uuid _ -> false
               | Ulid y -> N.eqb x y)

type side =
| Buy
| Sell

(** val opposite : side -> side **)

let opposite = function
| Buy -> Sell
| Sell -> Buy

(** val side_eqb : side -> side -> bool **)

let side_eqb a b =
  match a with
  | Buy -> (match b with
            | Buy -> true
            | Sell -> false)
  | Sell -> (match b with
             | Buy -> false
             | Sell -> true)

type tif =
| Gtc
| Ioc
| Fok
| Gtd of n
| Day

(** val tif_eqb : tif -> tif -> bool **)

let tif_eqb a b =
  match a with
  | Gtc -> (match b with
            | Gtc -> true
            | _ -> false)
  | Ioc -> (match b with
            | Ioc -> true
            | _ -> false)
  | Fok -> (match b with
            | Fok -> true
            | _ -> false)
  | Gtd x -> (match b with
              | Gtd y -> N.eqb x y
              | _ -> false)
  | Day -> (match b with
            | Day -> true
            | _ -> false)

type peg =
| BestBid
| BestAsk
| MidPrice
| LastTrade

(** val peg_eqb : peg -> peg -> bool **)

let peg_eqb a b =
  match a with
  | BestBid -> (match b with
                | BestBid -> true
                | _ -> false)
  | BestAsk -> (match b with
                | BestAsk -> true
                | _ -> false)
  | MidPrice -> (match b with
                 | MidPrice -> true
                 | _ -> false)
  | LastTrade -> (match b with
                  | LastTrade -> true
                  | _ -> false)

(** val option_eqb :
    ('a1 -> 'a1 -> bool) -> 'a1 option -> 'a1 option -> bool **)

let option_eqb eqb0 a b =
  match a with
  | Some x -> (match b with
               | Some y -> eqb0 x y
               | None -> false)
  | None -> (match b with
             | Some _ -> false
             | None -> true)

type common = { c_id : oid; c_price : n; c_side : side; c_ts : n; c_tif : tif }

type order =
| Standard of common * n
| Iceberg of common * n * n
| PostOnly of common * n
| TrailingStop of common * n * n * n
| Pegged of common * n * z * peg
| MarketToLimit of common * n
| Reserve of common * n * n * n * n option * bool

(** val com : order -> common **)

let com = function
| Standard (c, _) -> c
| Iceberg (c, _, _) -> c
| PostOnly (c, _) -> c
| TrailingStop (c, _, _, _) -> c
| Pegged (c, _, _, _) -> c
| MarketToLimit (c, _) -> c
| Reserve (c, _, _, _, _, _) -> c

(** val oid_of : order -> oid **)

let oid_of o =
  (com o).c_id

(** val price_of : order -> n **)

let price_of o =
  (com o).c_price

(** val side_of : order -> side **)

let side_of o =
  (com o).c_side

(** val ts_of : order -> n **)

let ts_of o =
  (com o).c_ts

(** val vis : order -> n **)

let vis = function
| Standard (_, q) -> q
| Iceberg (_, v, _) -> v
| PostOnly (_, q) -> q
| TrailingStop (_, q, _, _) -> q
| Pegged (_, q, _, _) -> q
| MarketToLimit (_, q) -> q
| Reserve (_, v, _, _, _, _) -> v

(** val hid : order -> n **)

let hid = function
| Iceberg (_, _, h) -> h
| Reserve (_, _, h, _, _, _) -> h
| _ -> N0

(** val with_reduced_quantity : order -> n -> order **)

let with_reduced_quantity o nq =
  match o with
  | Standard (c, _) -> Standard (c, nq)
  | Iceberg (c, _, h) -> Iceberg (c, nq, h)
  | PostOnly (c, _) -> PostOnly (c, nq)
  | _ -> o

(** val dEFAULT_RESERVE_REPLENISH_AMOUNT : n **)

let dEFAULT_RESERVE_REPLENISH_AMOUNT =
  Npos (XO (XO (XO (XO (XI (XO XH))))))

type mres = { m_consumed : n; m_updated : order option; m_hidden_reduced : 
              n; m_remaining : n }

(** val match_against : order -> n -> mres **)

let match_against o inc =
  match o with
  | Standard (c, q) ->
    if N.leb q inc
    then { m_consumed = q; m_updated = None; m_hidden_reduced = N0;
           m_remaining = (N.sub inc q) }
    else { m_consumed = inc; m_updated = (Some (Standard (c,
           (N.sub q inc)))); m_hidden_reduced = N0; m_remaining = N0 }
  | Iceberg (c, v, h) ->
    if N.leb v inc
    then let remaining = N.sub inc v in
         if N.ltb N0 h
         then let refresh0 = N.min h v in
              { m_consumed = v; m_updated = (Some (Iceberg (c, refresh0,
              (N.sub h refresh0)))); m_hidden_reduced = refresh0;
              m_remaining = remaining }
         else { m_consumed = v; m_updated = None; m_hidden_reduced = N0;
                m_remaining = remaining }
    else { m_consumed = inc; m_updated = (Some (Iceberg (c, (N.sub v inc),
           h))); m_hidden_reduced = N0; m_remaining = N0 }
  | PostOnly (_, q) ->
    if N.leb q inc
    then { m_consumed = q; m_updated = None; m_hidden_reduced = N0;
           m_remaining = (N.sub inc q) }
    else { m_consumed = inc; m_updated = (Some
           (with_reduced_quantity o (N.sub q inc))); m_hidden_reduced = N0;
           m_remaining = N0 }
  | TrailingStop (c, q, tr, lr) ->
    if N.leb q inc
    then { m_consumed = q; m_updated = None; m_hidden_reduced = N0;
           m_remaining = (N.sub inc q) }
    else { m_consumed = inc; m_updated = (Some (TrailingStop (c,
           (N.sub q inc), tr, lr))); m_hidden_reduced = N0; m_remaining = N0 }
  | Pegged (c, q, off, pt) ->
    if N.leb q inc
    then { m_consumed = q; m_updated = None; m_hidden_reduced = N0;
           m_remaining = (N.sub inc q) }
    else { m_consumed = inc; m_updated = (Some (Pegged (c, (N.sub q inc),
           off, pt))); m_hidden_reduced = N0; m_remaining = N0 }
  | MarketToLimit (c, q) ->
    if N.leb q inc
    then { m_consumed = q; m_updated = None; m_hidden_reduced = N0;
           m_remaining = (N.sub inc q) }
    else { m_consumed = inc; m_updated = (Some (MarketToLimit (c,
           (N.sub q inc)))); m_hidden_reduced = N0; m_remaining = N0 }
  | Reserve (c, v, h, thr, amt, auto) ->
    let safe_thr = if (&&) auto (N.eqb thr N0) then Npos XH else thr in
    let rq =
      N.min
        (match amt with
         | Some a -> a
         | None -> dEFAULT_RESERVE_REPLENISH_AMOUNT) h
    in
    if N.leb v inc
    then let remaining = N.sub inc v in
         if (&&) (N.ltb N0 h) auto
         then { m_consumed = v; m_updated = (Some (Reserve (c, rq,
                (N.sub h rq), thr, amt, auto))); m_hidden_reduced = rq;
                m_remaining = remaining }
         else { m_consumed = v; m_updated = None; m_hidden_reduced = N0;
                m_remaining = remaining }
    else let nv = N.sub v inc in
         if (&&) ((&&) (N.ltb nv safe_thr) (N.ltb N0 h)) auto
         then { m_consumed = inc; m_updated = (Some (Reserve (c,
                (N.add nv rq), (N.sub h rq), thr, amt, auto)));
                m_hidden_reduced = rq; m_remaining = N0 }
         else { m_consumed = inc; m_updated = (Some (Reserve (c, nv, h, thr,
                amt, auto))); m_hidden_reduced = N0; m_remaining = N0 }

(** val common_eqb : common -> common -> bool **)

let common_eqb a b =
  (&&)
    ((&&)
      ((&&) ((&&) (oid_eqb a.c_id b.c_id) (N.eqb a.c_price b.c_price))
        (side_eqb a.c_side b.c_side)) (N.eqb a.c_ts b.c_ts))
    (tif_eqb a.c_tif b.c_tif)

(** val order_eqb : order -> order -> bool **)

let order_eqb a b =
  match a with
  | Standard (c, q) ->
    (match b with
     | Standard (c', q') -> (&&) (common_eqb c c') (N.eqb q q')
     | _ -> false)
  | Iceberg (c, v, h) ->
    (match b with
     | Iceberg (c', v', h') ->
       (&&) ((&&) (common_eqb c c') (N.eqb v v')) (N.eqb h h')
     | _ -> false)
  | PostOnly (c, q) ->
    (match b with
     | PostOnly (c', q') -> (&&) (common_eqb c c') (N.eqb q q')
     | _ -> false)
  | TrailingStop (c, q, t, l) ->
    (match b with
     | TrailingStop (c', q', t', l') ->
       (&&) ((&&) ((&&) (common_eqb c c') (N.eqb q q')) (N.eqb t t'))
         (N.eqb l l')
     | _ -> false)
  | Pegged (c, q, o, p) ->
    (match b with
     | Pegged (c', q', o', p') ->
       (&&) ((&&) ((&&) (common_eqb c c') (N.eqb q q')) (Z.eqb o o'))
         (peg_eqb p p')
     | _ -> false)
  | MarketToLimit (c, q) ->
    (match b with
     | MarketToLimit (c', q') -> (&&) (common_eqb c c') (N.eqb q q')
     | _ -> false)
  | Reserve (c, v, h, t, a0, au) ->
    (match b with
     | Reserve (c', v', h', t', a', au') ->
       (&&)
         ((&&)
           ((&&) ((&&) ((&&) (common_eqb c c') (N.eqb v v')) (N.eqb h h'))
             (N.eqb t t')) (option_eqb N.eqb a0 a')) (eqb au au')
     | _ -> false)

type queue = { qmap : order list; tickets : oid list }

(** val empty_queue : queue **)

let empty_queue =
  { qmap = []; tickets = [] }

(** val lookup : oid -> order list -> order option **)

let rec lookup k = function
| [] -> None
| o :: m' -> if oid_eqb k (oid_of o) then Some o else lookup k m'

(** val remove_key : oid -> order list -> order list **)

let remove_key k m =
  filter (fun o -> negb (oid_eqb k (oid_of o))) m

(** val upsert : order -> order list -> order list **)

let upsert o m =
  app (remove_key (oid_of o) m) (o :: [])

(** val push : queue -> order -> queue **)

let push q o =
  { qmap = (upsert o q.qmap); tickets = (app q.tickets ((oid_of o) :: [])) }

(** val pop_t :
    order list -> oid list -> ((order * order list) * oid list) option **)

let rec pop_t m = function
| [] -> None
| k :: t' ->
  (match lookup k m with
   | Some o -> Some ((o, (remove_key k m)), t')
   | None -> pop_t m t')

(** val pop : queue -> order option * queue **)

let pop q =
  match pop_t q.qmap q.tickets with
  | Some p ->
    let (p0, t') = p in
    let (o, m') = p0 in ((Some o), { qmap = m'; tickets = t' })
  | None -> (None, { qmap = q.qmap; tickets = [] })

(** val find0 : queue -> oid -> order option **)

let find0 q k =
  lookup k q.qmap

(** val remove0 : queue -> oid -> order option * queue **)

let remove0 q k =
  match lookup k q.qmap with
  | Some o ->
    ((Some o), { qmap = (remove_key k q.qmap); tickets = q.tickets })
  | None -> (None, q)

(** val qlen : queue -> n **)

let qlen q =
  N.of_nat (length q.qmap)

(** val qis_empty : queue -> bool **)

let qis_empty q =
  match q.qmap with
  | [] -> true
  | _ :: _ -> false

(** val insert_ts : order -> order list -> order list **)

let rec insert_ts o l = match l with
| [] -> o :: []
| x :: l' ->
  if N.ltb (ts_of o) (ts_of x) then o :: l else x :: (insert_ts o l')

(** val sort_ts : order list -> order list **)

let sort_ts l =
  fold_right insert_ts [] l

(** val to_vec : queue -> order list **)

let to_vec q =
  sort_ts q.qmap

(** val from_vec : order list -> queue **)

let from_vec os =
  fold_left push os empty_queue

type stats = { s_added : n; s_removed : n; s_executed : n; s_qty : n;
               s_value : n }

(** val stats0 : stats **)

let stats0 =
  { s_added = N0; s_removed = N0; s_executed = N0; s_qty = N0; s_value = N0 }

type level = { price : n; cvis : n; chid : n; ccnt : n; lq : queue; st : stats }

(** val new_level : n -> level **)

let new_level p =
  { price = p; cvis = N0; chid = N0; ccnt = N0; lq = empty_queue; st =
    stats0 }

(** val total_quantity : level -> n **)

let total_quantity l =
  N.add l.cvis l.chid

(** val record_added : stats -> stats **)

let record_added s =
  { s_added = (wadd s.s_added (Npos XH)); s_removed = s.s_removed;
    s_executed = s.s_executed; s_qty = s.s_qty; s_value = s.s_value }

(** val record_removed : stats -> stats **)

let record_removed s =
  { s_added = s.s_added; s_removed = (wadd s.s_removed (Npos XH));
    s_executed = s.s_executed; s_qty = s.s_qty; s_value = s.s_value }

(** val record_execution : stats -> n -> n -> stats **)

let record_execution s qty prc =
  { s_added = s.s_added; s_removed = s.s_removed; s_executed =
    (wadd s.s_executed (Npos XH)); s_qty = (wadd s.s_qty qty); s_value =
    (wadd s.s_value (N.mul qty prc)) }

(** val add_order : level -> order -> level **)

let add_order l o =
  { price = l.price; cvis = (wadd l.cvis (vis o)); chid =
    (wadd l.chid (hid o)); ccnt = (wadd l.ccnt (Npos XH)); lq =
    (push l.lq o); st = (record_added l.st) }

type tx = { tx_idx : n; tx_taker : oid; tx_maker : oid; tx_price : n;
            tx_qty : n; tx_side : side }

type result = { r_taker : oid; r_txs : tx list; r_remaining : n;
                r_complete : bool; r_filled : oid list }

(** val result_new : oid -> n -> result **)

let result_new taker q =
  { r_taker = taker; r_txs = []; r_remaining = q; r_complete = false;
    r_filled = [] }

(** val add_transaction : result -> tx -> result **)

let add_transaction r t =
  let rem = sat_sub r.r_remaining t.tx_qty in
  { r_taker = r.r_taker; r_txs = (app r.r_txs (t :: [])); r_remaining = rem;
  r_complete = (N.eqb rem N0); r_filled = r.r_filled }

(** val add_filled : result -> oid -> result **)

let add_filled r k =
  { r_taker = r.r_taker; r_txs = r.r_txs; r_remaining = r.r_remaining;
    r_complete = r.r_complete; r_filled = (app r.r_filled (k :: [])) }

(** val executed_quantity : result -> n **)

let executed_quantity r =
  fold_left (fun a t -> N.add a t.tx_qty) r.r_txs N0

(** val is_some : 'a1 option -> bool **)

let is_some = function
| Some _ -> true
| None -> false

type mstate = { ms_lvl : level; ms_gen : n; ms_res : result; ms_rem : 
                n; ms_aside : order list }

(** val set_queue : level -> queue -> level **)

let set_queue l q =
  { price = l.price; cvis = l.cvis; chid = l.chid; ccnt = l.ccnt; lq = q;
    st = l.st }

(** val visit :
    (order -> n -> mres) -> level -> n -> result -> oid -> n -> order ->
    ((level * n) * result) * n **)

let visit mf l gen res taker rem o =
  let r = mf o rem in
  let consumed = r.m_consumed in
  let hr = r.m_hidden_reduced in
  let (p, res1) =
    if N.ltb N0 consumed
    then let t = { tx_idx = gen; tx_taker = taker; tx_maker = (oid_of o);
           tx_price = l.price; tx_qty = consumed; tx_side =
           (opposite (side_of o)) }
         in
         let res' = add_transaction res t in
         let res'' =
           if is_some r.m_updated then res' else add_filled res' (oid_of o)
         in
         (((wsub l.cvis consumed), (wadd gen (Npos XH))), res'')
    else ((l.cvis, gen), res)
  in
  let (cv1, gen1) = p in
  let st1 = record_execution l.st consumed (price_of o) in
  (match r.m_updated with
   | Some u ->
     if N.ltb N0 hr
     then let ch2 = wsub l.chid hr in
          let cv2 = wadd cv1 hr in
          ((({ price = l.price; cvis = cv2; chid = ch2; ccnt = l.ccnt; lq =
          (push l.lq u); st = st1 }, gen1), res1), r.m_remaining)
     else let ch2 = l.chid in
          ((({ price = l.price; cvis = cv1; chid = ch2; ccnt = l.ccnt; lq =
          (push l.lq u); st = st1 }, gen1), res1), r.m_remaining)
   | None ->
     let ch2 =
       match o with
       | Iceberg (_, _, h) ->
         if (&&) (N.ltb N0 h) (N.eqb hr N0) then wsub l.chid h else l.chid
       | Reserve (_, _, h, _, _, _) ->
         if (&&) (N.ltb N0 h) (N.eqb hr N0) then wsub l.chid h else l.chid
       | _ -> l.chid
     in
     ((({ price = l.price; cvis = cv1; chid = ch2; ccnt =
     (wsub l.ccnt (Npos XH)); lq = l.lq; st = st1 }, gen1), res1),
     r.m_remaining))

(** val match_loop :
    (order -> n -> mres) -> nat -> oid -> mstate -> mstate option **)

let rec match_loop mf fuel taker s =
  if N.eqb s.ms_rem N0
  then Some s
  else (match fuel with
        | O -> None
        | S f ->
          let (o0, q') = pop s.ms_lvl.lq in
          (match o0 with
           | Some o ->
             let l = set_queue s.ms_lvl q' in
             let r = mf o s.ms_rem in
             if (&&)
                  ((&&) (N.eqb r.m_consumed N0) (N.eqb r.m_hidden_reduced N0))
                  (is_some r.m_updated)
             then match_loop mf f taker { ms_lvl = l; ms_gen = s.ms_gen;
                    ms_res = s.ms_res; ms_rem = s.ms_rem; ms_aside =
                    (app s.ms_aside (o :: [])) }
             else let (p, rem') =
                    visit mf l s.ms_gen s.ms_res taker s.ms_rem o
                  in
                  let (p0, res') = p in
                  let (l', gen') = p0 in
                  match_loop mf f taker { ms_lvl = l'; ms_gen = gen';
                    ms_res = res'; ms_rem = rem'; ms_aside = s.ms_aside }
           | None ->
             Some { ms_lvl = (set_queue s.ms_lvl q'); ms_gen = s.ms_gen;
               ms_res = s.ms_res; ms_rem = s.ms_rem; ms_aside = s.ms_aside }))

(** val finish : mstate -> (level * n) * result **)

let finish s =
  let q' = fold_left push s.ms_aside s.ms_lvl.lq in
  let res = s.ms_res in
  (((set_queue s.ms_lvl q'), s.ms_gen), { r_taker = res.r_taker; r_txs =
  res.r_txs; r_remaining = s.ms_rem; r_complete = (N.eqb s.ms_rem N0);
  r_filled = res.r_filled })

(** val match_order :
    (order -> n -> mres) -> nat -> level -> n -> n -> oid ->
    ((level * n) * result) option **)

let match_order mf fuel l gen qty taker =
  match match_loop mf fuel taker { ms_lvl = l; ms_gen = gen; ms_res =
          (result_new taker qty); ms_rem = qty; ms_aside = [] } with
  | Some s -> Some (finish s)
  | None -> None

type update =
| UpdatePrice of oid * n
| UpdateQuantity of oid * n
| UpdatePriceAndQuantity of oid * n * n
| Cancel of oid
| Replace of oid * n * n * side

type uout =
| UOk of order option
| UErr

(** val take_out : level -> oid -> level * uout **)

let take_out l k =
  let (o0, q') = remove0 l.lq k in
  (match o0 with
   | Some o ->
     ({ price = l.price; cvis = (wsub l.cvis (vis o)); chid =
       (wsub l.chid (hid o)); ccnt = (wsub l.ccnt (Npos XH)); lq = q'; st =
       (record_removed l.st) }, (UOk (Some o)))
   | None -> (l, (UOk None)))

(** val delta : n -> n -> n -> n **)

let delta c old new0 =
  if N.eqb old new0
  then c
  else if N.ltb old new0
       then wadd c (N.sub new0 old)
       else wsub c (N.sub old new0)

(** val amend : level -> oid -> n -> level * uout **)

let amend l k nq =
  match find0 l.lq k with
  | Some _ ->
    let (o, q') = remove0 l.lq k in
    (match o with
     | Some old ->
       let new0 = with_reduced_quantity old nq in
       ({ price = l.price; cvis = (delta l.cvis (vis old) (vis new0)); chid =
       (delta l.chid (hid old) (hid new0)); ccnt = l.ccnt; lq =
       (push q' new0); st = l.st }, (UOk (Some new0)))
     | None -> (l, (UOk None)))
  | None -> (l, (UOk None))

(** val update_order : level -> update -> level * uout **)

let update_order l = function
| UpdatePrice (k, np) -> if N.eqb np l.price then (l, UErr) else take_out l k
| UpdateQuantity (k, nq) -> amend l k nq
| UpdatePriceAndQuantity (k, np, nq) ->
  if N.eqb np l.price then amend l k nq else take_out l k
| Cancel k -> take_out l k
| Replace (k, p, q, _) ->
  if N.eqb p l.price then amend l k q else take_out l k

type snapshot = { sn_price : n; sn_vis : n; sn_hid : n; sn_cnt : n;
                  sn_orders : order list }

(** val snapshot_of : level -> snapshot **)

let snapshot_of l =
  { sn_price = l.price; sn_vis = l.cvis; sn_hid = l.chid; sn_cnt = l.ccnt;
    sn_orders = (to_vec l.lq) }

(** val refresh : snapshot -> snapshot **)

let refresh s =
  { sn_price = s.sn_price; sn_vis =
    (fold_left (fun a o -> sat_add a (vis o)) s.sn_orders N0); sn_hid =
    (fold_left (fun a o -> sat_add a (hid o)) s.sn_orders N0); sn_cnt =
    (N.of_nat (length s.sn_orders)); sn_orders = s.sn_orders }

(** val from_snapshot : snapshot -> level **)

let from_snapshot s =
  let s' = refresh s in
  { price = s'.sn_price; cvis = s'.sn_vis; chid = s'.sn_hid; ccnt =
  s'.sn_cnt; lq = (from_vec s'.sn_orders); st = stats0 }

(** val from_data : n -> order list -> level **)

let from_data p os =
  fold_left add_order os (new_level p)

type family =
| Plain
| IcebergF
| ReserveF

(** val family_of : order -> family **)

let family_of = function
| Iceberg (_, _, _) -> IcebergF
| Reserve (_, _, _, _, _, _) -> ReserveF
| _ -> Plain

(** val with_quantities : order -> n -> n -> order **)

let with_quantities o v h =
  match o with
  | Standard (c, _) -> Standard (c, v)
  | Iceberg (c, _, _) -> Iceberg (c, v, h)
  | PostOnly (c, _) -> PostOnly (c, v)
  | TrailingStop (c, _, t, l) -> TrailingStop (c, v, t, l)
  | Pegged (c, _, off, p) -> Pegged (c, v, off, p)
  | MarketToLimit (c, _) -> MarketToLimit (c, v)
  | Reserve (c, _, _, thr, a, au) -> Reserve (c, v, h, thr, a, au)

(** val reserve_amount : order -> n **)

let reserve_amount = function
| Reserve (_, _, h, _, amt, _) ->
  N.min
    (match amt with
     | Some a -> a
     | None -> Npos (XO (XO (XO (XO (XI (XO XH))))))) h
| _ -> N0

(** val reserve_threshold : order -> n **)

let reserve_threshold = function
| Reserve (_, _, _, thr, _, _) -> if N.eqb thr N0 then Npos XH else thr
| _ -> N0

(** val reserve_auto : order -> bool **)

let reserve_auto = function
| Reserve (_, _, _, _, _, au) -> au
| _ -> false

(** val match_spec : order -> n -> mres **)

let match_spec o inc =
  let consumed = N.min inc (vis o) in
  let remaining = N.sub inc consumed in
  let left = N.sub (vis o) consumed in
  let exhausted = N.leb (vis o) inc in
  let leaves = { m_consumed = consumed; m_updated = None; m_hidden_reduced =
    N0; m_remaining = remaining }
  in
  let shrinks = { m_consumed = consumed; m_updated = (Some
    (with_quantities o left (hid o))); m_hidden_reduced = N0; m_remaining =
    remaining }
  in
  (match family_of o with
   | Plain -> if exhausted then leaves else shrinks
   | IcebergF ->
     if exhausted
     then if N.eqb (hid o) N0
          then leaves
          else let tranche = N.min (hid o) (vis o) in
               { m_consumed = consumed; m_updated = (Some
               (with_quantities o tranche (N.sub (hid o) tranche)));
               m_hidden_reduced = tranche; m_remaining = remaining }
     else shrinks
   | ReserveF ->
     let amt = reserve_amount o in
     let replenish =
       (&&) ((&&) (reserve_auto o) (N.ltb N0 (hid o)))
         ((||) exhausted (N.ltb left (reserve_threshold o)))
     in
     if replenish
     then { m_consumed = consumed; m_updated = (Some
            (with_quantities o (N.add left amt) (N.sub (hid o) amt)));
            m_hidden_reduced = amt; m_remaining = remaining }
     else if exhausted then leaves else shrinks)
