(* MatchProofs.v — proofs for C06 (termination / exhaustion) and C02 items 1-5
   (per-call accounting of match_order).  Statements are collected in
   Properties/C06.v and Properties/C02.v. *)
From PL Require Import Model.Level Spec.MatchSpec Spec.Hist Spec.LedgerSpec Proofs.OrderProofs Proofs.MatchBase.
From Coq Require Import Lia ZifyBool ZifyN.
Local Open Scope N_scope.

Lemma txsum_nil : txsum [] = 0.
Proof. reflexivity. Qed.
Lemma txsum_cons t ts : txsum (t :: ts) = tx_qty t + txsum ts.
Proof. reflexivity. Qed.
Lemma traded_in_nil k : traded_in [] k = 0.
Proof. reflexivity. Qed.
Lemma traded_in_cons t ts k :
  traded_in (t :: ts) k = if oid_eqb (tx_maker t) k then tx_qty t + traded_in ts k else traded_in ts k.
Proof. reflexivity. Qed.

Lemma txsum_app a b : txsum (a ++ b) = txsum a + txsum b.
Proof.
  induction a as [|x a IH]; [rewrite txsum_nil; cbn [app]; lia|].
  rewrite <- app_comm_cons, !txsum_cons, IH. lia.
Qed.

Lemma traded_in_app a b k : traded_in (a ++ b) k = traded_in a k + traded_in b k.
Proof.
  induction a as [|x a IH]; [rewrite traded_in_nil; cbn [app]; lia|].
  rewrite <- app_comm_cons, !traded_in_cons, IH. destruct (oid_eqb (tx_maker x) k); lia.
Qed.

Lemma fold_left_txsum ts a : fold_left (fun a t => a + tx_qty t) ts a = a + txsum ts.
Proof.
  revert a. induction ts as [|t ts IH]; intros a; cbn [fold_left]; [rewrite txsum_nil; lia|].
  rewrite IH, txsum_cons. lia.
Qed.

Lemma executed_txsum r : executed_quantity r = txsum (r_txs r).
Proof. unfold executed_quantity. rewrite fold_left_txsum. lia. Qed.

Definition remove_id (k : oid) (l : list oid) : list oid :=
  filter (fun j => negb (oid_eqb k j)) l.
Lemma existsb_oid k l : existsb (oid_eqb k) l = true <-> In k l.
Proof.
  rewrite existsb_exists. split.
  - intros (x & Hx & E). apply oid_eqb_eq in E. subst. exact Hx.
  - intros H. exists k. split; [exact H | apply oid_eqb_refl].
Qed.

Lemma dedup_last_In k l : In k (dedup_last l) <-> In k l.
Proof.
  induction l as [|x l IH]; cbn [dedup_last]; [tauto|].
  destruct (existsb (oid_eqb x) l) eqn:E.
  - rewrite IH. apply existsb_oid in E. cbn [In]. split; [auto|]. intros [<-|H]; auto.
  - cbn [In]. rewrite IH. tauto.
Qed.

Lemma NoDup_dedup_last l : NoDup (dedup_last l).
Proof.
  induction l as [|x l IH]; cbn [dedup_last]; [constructor|].
  destruct (existsb (oid_eqb x) l) eqn:E; [exact IH|].
  constructor; [|exact IH]. rewrite dedup_last_In. intros H. apply existsb_oid in H. congruence.
Qed.

Lemma remove_id_In j k l : In j (remove_id k l) <-> In j l /\ j <> k.
Proof.
  unfold remove_id. rewrite filter_In. split; intros [H1 H2]; split; auto.
  - intros ->. rewrite oid_eqb_refl in H2. discriminate.
  - apply negb_true_iff. apply oid_eqb_neq. congruence.
Qed.

Lemma dedup_last_snoc l k : dedup_last (l ++ [k]) = remove_id k (dedup_last l) ++ [k].
Proof.
  induction l as [|x l IH]; [cbn; reflexivity|].
  rewrite <- app_comm_cons. cbn [dedup_last]. rewrite existsb_app. cbn [existsb]. rewrite orb_false_r.
  destruct (existsb (oid_eqb x) l) eqn:E; cbn [orb]; [exact IH|].
  destruct (oid_eqb x k) eqn:Exk.
  - apply oid_eqb_eq in Exk. subst x. rewrite IH. unfold remove_id at 2. cbn [filter].
    rewrite oid_eqb_refl. reflexivity.
  - rewrite IH. unfold remove_id at 2. cbn [filter]. rewrite oid_eqb_sym, Exk. reflexivity.
Qed.

Lemma filter_remove_id (f : oid -> bool) k l : f k = false -> filter f (remove_id k l) = filter f l.
Proof.
  intros Hk. unfold remove_id. induction l as [|x l IH]; [reflexivity|]. cbn [filter].
  destruct (oid_eqb k x) eqn:E; cbn [negb].
  - apply oid_eqb_eq in E. subst x. rewrite Hk. exact IH.
  - cbn [filter]. rewrite IH. reflexivity.
Qed.

Section WithMf.
Variable mf : order -> N -> mres.
Hypothesis Hc : I_cons mf.

Let Hid : I_id mf := I_cons_I_id mf Hc.

(* ================================================================== C06 *)

(* -------- 1. termination: a measure that drops at every iteration -------- *)
Definition measure (s : mstate) : N :=
  2 * (ms_rem s + sumh (qmap (lq (ms_lvl s)))) + N.of_nat (length (tickets (lq (ms_lvl s)))).

Lemma is_aside_false r :
  is_aside r = false ->
  m_consumed r <> 0 \/ m_hidden_reduced r <> 0 \/ m_updated r = None.
Proof.
  unfold is_aside. destruct (m_updated r); cbn [is_some]; [|auto].
  rewrite andb_true_r. intros H. apply andb_false_iff in H. lia.
Qed.

Lemma is_aside_true r :
  is_aside r = true ->
  m_consumed r = 0 /\ m_hidden_reduced r = 0 /\ exists u, m_updated r = Some u.
Proof.
  unfold is_aside. intros H. apply andb_true_iff in H. destruct H as [H H3].
  apply andb_true_iff in H. destruct H as [H1 H2].
  destruct (m_updated r) as [u|]; [|discriminate]. repeat split; try lia. eauto.
Qed.

Lemma next_measure taker s o q' :
  ms_rem s <> 0 -> pop (lq (ms_lvl s)) = (Some o, q') ->
  measure (next mf taker s o q') < measure s.
Proof.
  intros Hrem Hpop.
  destruct (next_book mf taker s o q' Hid Hpop) as (Hm & Ht & _). cbv zeta in Hm, Ht.
  destruct (next_spec mf taker s o q') as (Hr & _). cbv zeta in Hr.
  destruct (pop_Some _ _ _ Hpop) as (sk & Htk & _ & Hl & _).
  unfold measure. rewrite Hm, Ht, Hr, Htk. rewrite sumh_app, !app_length. cbn [length].
  pose proof (sumh_remove_key_found _ _ _ Hl) as Hsum.
  pose proof (Hc o (ms_rem s)) as (Hcons & Hremn & Hupd).
  unfold kept. destruct (is_aside (mf o (ms_rem s))) eqn:Ea.
  - cbn [ids map length]. rewrite sumh_nil. lia.
  - apply is_aside_false in Ea.
    destruct (m_updated (mf o (ms_rem s))) as [u|] eqn:Eu.
    + cbn [ids map length]. rewrite sumh_cons, sumh_nil.
      destruct Hupd as (_ & Hh & _). destruct Ea as [Ea|[Ea|Ea]]; [lia|lia|discriminate].
    + cbn [ids map length]. rewrite sumh_nil. lia.
Qed.

Lemma loop_terminates taker :
  forall fuel s, measure s < N.of_nat fuel -> exists s', match_loop mf fuel taker s = Some s'.
Proof.
  induction fuel as [|f IH]; intros s Hlt; [lia|].
  rewrite match_loop_S. destruct (ms_rem s =? 0) eqn:E; [eauto|].
  destruct (pop (lq (ms_lvl s))) as [[o|] q'] eqn:Ep; [|eauto].
  apply IH. pose proof (next_measure taker s o q' ltac:(lia) Ep). lia.
Qed.

Theorem match_order_terminates :
  forall l g qty taker, exists n, forall fuel, (n <= fuel)%nat ->
    exists res, match_order mf fuel l g qty taker = Some res.
Proof.
  intros l g qty taker.
  exists (S (N.to_nat (measure (mkMstate l g (result_new taker qty) qty [])))).
  intros fuel Hf. unfold match_order.
  destruct (loop_terminates taker fuel (mkMstate l g (result_new taker qty) qty [])) as [s' Hs'];
    [lia|]. rewrite Hs'. eauto.
Qed.

(* -------- 2. surplus fuel is irrelevant -------- *)
Lemma match_loop_mono taker :
  forall f f' s s', match_loop mf f taker s = Some s' -> (f <= f')%nat ->
                    match_loop mf f' taker s = Some s'.
Proof.
  induction f as [|f IH]; intros f' s s' H Hle.
  - rewrite match_loop_0 in H. destruct (ms_rem s =? 0) eqn:E; [|discriminate].
    destruct f'; [rewrite match_loop_0 | rewrite match_loop_S]; rewrite E; exact H.
  - destruct f' as [|f']; [lia|]. rewrite match_loop_S in *.
    destruct (ms_rem s =? 0); [exact H|].
    destruct (pop (lq (ms_lvl s))) as [[o|] q']; [|exact H].
    apply (IH f'); [exact H | lia].
Qed.

Lemma match_order_mono f f' l g qty taker res :
  match_order mf f l g qty taker = Some res -> (f <= f')%nat ->
  match_order mf f' l g qty taker = Some res.
Proof.
  unfold match_order. intros H Hle.
  destruct (match_loop mf f taker (mkMstate l g (result_new taker qty) qty [])) as [s|] eqn:E;
    [|discriminate].
  rewrite (match_loop_mono taker _ _ _ _ E Hle). exact H.
Qed.

Lemma match_order_fuel_indep f f' l g qty taker res res' :
  match_order mf f l g qty taker = Some res ->
  match_order mf f' l g qty taker = Some res' -> res = res'.
Proof.
  intros H H'. destruct (Nat.le_ge_cases f f') as [Hle|Hle].
  - rewrite (match_order_mono _ _ _ _ _ _ _ H Hle) in H'. congruence.
  - rewrite (match_order_mono _ _ _ _ _ _ _ H' Hle) in H. congruence.
Qed.

(* -------- 3. leaving with quantity remaining means no displayed quantity is left -------- *)
Definition Exh (s : mstate) : Prop :=
  Covered (lq (ms_lvl s)) /\ forall o, In o (ms_aside s) -> vis o = 0.

Lemma exh_next taker s o q' :
  Exh s -> ms_rem s <> 0 -> pop (lq (ms_lvl s)) = (Some o, q') -> Exh (next mf taker s o q').
Proof.
  intros [Hcov Has] Hrem Hpop.
  destruct (next_book mf taker s o q' Hid Hpop) as (Hm & Ht & Ha). cbv zeta in Hm, Ht, Ha.
  destruct (pop_Some _ _ _ Hpop) as (sk & Htk & Hsk & Hl & _).
  split.
  - unfold Covered. intros x Hx. rewrite Hm in Hx. rewrite Ht.
    apply in_app_or in Hx. apply in_or_app. destruct Hx as [Hx|Hx].
    + left. apply remove_key_In in Hx. destruct Hx as [Hx Hne].
      pose proof (Hcov x Hx) as Hcx. rewrite Htk in Hcx. apply in_app_or in Hcx.
      destruct Hcx as [Hcx|[Hcx|Hcx]].
      * exfalso. specialize (Hsk _ Hcx). apply lookup_None in Hsk. apply Hsk. apply in_map. exact Hx.
      * congruence.
      * exact Hcx.
    + right. apply in_map. exact Hx.
  - intros x Hx. rewrite Ha in Hx. apply in_app_or in Hx. destruct Hx as [Hx|Hx]; [auto|].
    unfold put_aside in Hx. destruct (is_aside (mf o (ms_rem s))) eqn:Ea; [|destruct Hx].
    destruct Hx as [<-|[]]. apply is_aside_true in Ea. destruct Ea as (Hc0 & _).
    pose proof (Hc o (ms_rem s)) as (Hcons & _). lia.
Qed.

Lemma exh_stop s q' :
  Exh s -> pop (lq (ms_lvl s)) = (None, q') -> qmap (lq (ms_lvl s)) = [] /\ qmap q' = [].
Proof.
  intros [Hcov _] Hpop. apply pop_None in Hpop. destruct Hpop as [-> Hst].
  pose proof (covered_stale_empty _ Hcov Hst) as E. cbn [qmap]. auto.
Qed.

Theorem match_exhausts fuel l g qty taker l' g' r :
  Covered (lq l) ->
  match_order mf fuel l g qty taker = Some (l', g', r) -> 0 < r_remaining r ->
  forall o, In o (resting l') -> vis o = 0.
Proof.
  intros Hcov H Hpos. unfold match_order in H.
  destruct (match_loop mf fuel taker (mkMstate l g (result_new taker qty) qty [])) as [s|] eqn:E;
    [|discriminate].
  assert (HQ : ms_rem s = 0 \/ (qmap (lq (ms_lvl s)) = [] /\ forall o, In o (ms_aside s) -> vis o = 0)).
  { refine (match_loop_inv mf Exh
              (fun s => ms_rem s = 0 \/
                        (qmap (lq (ms_lvl s)) = [] /\ forall o, In o (ms_aside s) -> vis o = 0))
              taker _ _ _ fuel _ s _ E).
    - intros. apply exh_next; assumption.
    - intros. left. assumption.
    - intros s0 q0 Hex Hr Hp. right. destruct (exh_stop _ _ Hex Hp) as [_ Hq].
      cbn [stop ms_lvl ms_aside set_queue lq]. split; [exact Hq | apply Hex].
    - split; [exact Hcov | intros o []]. }
  unfold finish in H. inversion H; subst; clear H. cbn [r_remaining] in Hpos.
  destruct HQ as [HQ|[Hq Has]]; [lia|].
  intros o Ho. unfold resting in Ho. cbn [set_queue lq] in Ho.
  apply In_fold_push in Ho. rewrite Hq in Ho. destruct Ho as [[]|Ho]. auto.
Qed.

(* ------------------------------------------ the result record after a visit *)
Lemma next_res_txs p gen res taker o r :
  r_txs (next_res p gen res taker o r) =
  r_txs res ++ (if 0 <? m_consumed r
                then [mkTx gen taker (oid_of o) p (m_consumed r) (opposite (side_of o))] else []).
Proof.
  unfold next_res. destruct (0 <? m_consumed r); [|rewrite app_nil_r; reflexivity].
  destruct (is_some (m_updated r)); reflexivity.
Qed.

Lemma next_res_filled p gen res taker o r :
  r_filled (next_res p gen res taker o r) =
  r_filled res ++ (if (0 <? m_consumed r) && negb (is_some (m_updated r)) then [oid_of o] else []).
Proof.
  unfold next_res. destruct (0 <? m_consumed r); cbn [andb]; [|rewrite app_nil_r; reflexivity].
  destruct (is_some (m_updated r)); cbn [negb]; [rewrite app_nil_r|]; reflexivity.
Qed.

Lemma next_res_taker p gen res taker o r : r_taker (next_res p gen res taker o r) = r_taker res.
Proof.
  unfold next_res. destruct (0 <? m_consumed r); [|reflexivity].
  destruct (is_some (m_updated r)); reflexivity.
Qed.

Lemma next_res_txsum p gen res taker o r :
  txsum (r_txs (next_res p gen res taker o r)) = txsum (r_txs res) + m_consumed r.
Proof.
  rewrite next_res_txs, txsum_app. destruct (0 <? m_consumed r) eqn:E.
  - rewrite txsum_cons, txsum_nil. cbn [tx_qty]. lia.
  - rewrite txsum_nil. lia.
Qed.

Lemma next_res_traded p gen res taker o r k :
  traded_in (r_txs (next_res p gen res taker o r)) k =
  traded_in (r_txs res) k + (if oid_eqb (oid_of o) k then m_consumed r else 0).
Proof.
  rewrite next_res_txs, traded_in_app. destruct (0 <? m_consumed r) eqn:E.
  - rewrite traded_in_cons, traded_in_nil. cbn [tx_maker tx_qty].
    destruct (oid_eqb (oid_of o) k); lia.
  - rewrite traded_in_nil. destruct (oid_eqb (oid_of o) k); lia.
Qed.

(* ================================================================== C02 *)
(* -------- 1. executed + remaining = requested -------- *)
Definition Acc (qty : N) (s : mstate) : Prop := txsum (r_txs (ms_res s)) + ms_rem s = qty.

Lemma acc_next qty taker s o q' : Acc qty s -> Acc qty (next mf taker s o q').
Proof.
  unfold Acc. intros H.
  destruct (next_spec mf taker s o q') as (Hr & _ & Hres & _). cbv zeta in Hr, Hres.
  rewrite Hr, Hres, next_res_txsum.
  pose proof (Hc o (ms_rem s)) as (Hcons & Hremn & _).
  destruct (is_aside (mf o (ms_rem s))) eqn:Ea; [apply is_aside_true in Ea|]; lia.
Qed.

Lemma loop_acc qty taker fuel s s' :
  Acc qty s -> match_loop mf fuel taker s = Some s' -> Acc qty s'.
Proof.
  intros HP E.
  refine (match_loop_inv mf (Acc qty) (Acc qty) taker _ _ _ fuel s s' HP E).
  - intros. apply acc_next; assumption.
  - auto.
  - intros s0 q0 H0 _ _. exact H0.
Qed.

Theorem match_accounting fuel l g qty taker l' g' r :
  match_order mf fuel l g qty taker = Some (l', g', r) ->
  executed_quantity r + r_remaining r = qty /\ (r_complete r = true <-> r_remaining r = 0).
Proof.
  intros H. unfold match_order in H.
  destruct (match_loop mf fuel taker (mkMstate l g (result_new taker qty) qty [])) as [s|] eqn:E;
    [|discriminate].
  apply (loop_acc qty) in E; [|unfold Acc; cbn [ms_res ms_rem result_new r_txs]; rewrite txsum_nil; lia].
  unfold finish in H. inversion H; subst; clear H. rewrite executed_txsum.
  cbn [r_txs r_remaining r_complete]. unfold Acc in E. split; [exact E | lia].
Qed.

(* -------- C06.4: at least min(requested, displayed) is executed -------- *)
Definition Low (qty sv0 : N) (s : mstate) : Prop :=
  NoDup (ids (book s)) /\ Exh s /\ Acc qty s /\
  (ms_rem s = 0 \/ sv0 <= txsum (r_txs (ms_res s)) + sumv (book s)).

Lemma low_next qty sv0 taker s o q' :
  Low qty sv0 s -> ms_rem s <> 0 -> pop (lq (ms_lvl s)) = (Some o, q') ->
  Low qty sv0 (next mf taker s o q').
Proof.
  intros (Hnd & Hex & Hacc & Hlow) Hrem Hpop.
  destruct (next_lookup mf taker s o q' Hid Hnd Hpop) as (Hnd' & _ & _). cbv zeta in Hnd'.
  split; [exact Hnd'|]. split; [apply exh_next; assumption|]. split; [apply acc_next; assumption|].
  destruct Hlow as [Hlow|Hlow]; [contradiction|].
  destruct (next_book mf taker s o q' Hid Hpop) as (Hm & _ & Ha). cbv zeta in Hm, Ha.
  destruct (next_spec mf taker s o q') as (Hr & _ & Hres & _). cbv zeta in Hr, Hres.
  destruct (pop_Some _ _ _ Hpop) as (sk & _ & _ & Hl & _).
  assert (Hndm : NoDup (ids (qmap (lq (ms_lvl s))))).
  { unfold book in Hnd. apply NoDup_book_map in Hnd. exact Hnd. }
  pose proof (sumv_remove_key_found _ _ _ Hndm Hl) as Hsum.
  pose proof (Hc o (ms_rem s)) as (Hcons & Hremn & Hupd).
  unfold book in *. rewrite Hm, Ha, Hr, Hres, next_res_txsum. rewrite !sumv_app in *.
  unfold kept, put_aside. destruct (is_aside (mf o (ms_rem s))) eqn:Ea.
  - apply is_aside_true in Ea. rewrite sumv_cons, sumv_nil. right. lia.
  - destruct (m_updated (mf o (ms_rem s))) as [u|] eqn:Eu.
    + rewrite sumv_cons, sumv_nil. right. lia.
    + rewrite sumv_nil.
      destruct (N.eq_dec (m_remaining (mf o (ms_rem s))) 0) as [Hz|Hz]; [left; exact Hz|right; lia].
Qed.

Theorem match_lower_bound fuel l g qty taker l' g' r :
  WfQueue (lq l) ->
  match_order mf fuel l g qty taker = Some (l', g', r) ->
  N.min qty (sumv (resting l)) <= executed_quantity r.
Proof.
  intros [Hnd Hcov] H. unfold match_order in H.
  destruct (match_loop mf fuel taker (mkMstate l g (result_new taker qty) qty [])) as [s|] eqn:E;
    [|discriminate].
  assert (HQ : N.min qty (sumv (resting l)) <= txsum (r_txs (ms_res s))).
  { refine (match_loop_inv mf (Low qty (sumv (resting l)))
              (fun s => N.min qty (sumv (resting l)) <= txsum (r_txs (ms_res s)))
              taker _ _ _ fuel _ s _ E).
    - intros. apply low_next; assumption.
    - intros s0 (_ & _ & Hacc & _) Hz. unfold Acc in Hacc. lia.
    - intros s0 q0 (_ & Hex & Hacc & Hlow) Hr Hp. destruct Hlow as [Hlow|Hlow]; [contradiction|].
      destruct (exh_stop _ _ Hex Hp) as [Hq _]. unfold book in Hlow. rewrite Hq in Hlow.
      cbn [app] in Hlow. rewrite (sumv_zero (ms_aside s0)) in Hlow by apply Hex.
      cbn [stop ms_res]. lia.
    - unfold Low, Acc, Exh, book. cbn [ms_lvl ms_aside ms_res ms_rem result_new r_txs].
      rewrite app_nil_r, txsum_nil. split; [exact Hnd|]. split; [split; [exact Hcov|intros o []]|].
      split; [lia|]. right. unfold resting. lia. }
  unfold finish in H. inversion H; subst; clear H. rewrite executed_txsum. exact HQ.
Qed.

(* -------- 4. no over-fill within a call -------- *)
Definition Fill (m0 : list order) (s : mstate) : Prop :=
  NoDup (ids (book s)) /\
  forall k, match lookup k (book s) with
            | Some o => traded_in (r_txs (ms_res s)) k + (vis o + hid o) = total (lookup k m0) /\
                        hid o <= hidden (lookup k m0)
            | None => traded_in (r_txs (ms_res s)) k <= total (lookup k m0) /\
                      total (lookup k m0) <= traded_in (r_txs (ms_res s)) k + hidden (lookup k m0)
            end.

Lemma fill_next m0 taker s o q' :
  Fill m0 s -> pop (lq (ms_lvl s)) = (Some o, q') -> Fill m0 (next mf taker s o q').
Proof.
  intros (Hnd & HF) Hpop.
  destruct (next_lookup mf taker s o q' Hid Hnd Hpop) as (Hnd' & Hlo & Hlk). cbv zeta in Hnd', Hlk.
  split; [exact Hnd'|]. intros k.
  destruct (next_spec mf taker s o q') as (_ & _ & Hres & _). cbv zeta in Hres.
  rewrite Hlk, Hres, next_res_traded. specialize (HF k).
  pose proof (Hc o (ms_rem s)) as (Hcons & Hremn & Hupd).
  destruct (oid_eqb k (oid_of o)) eqn:Ek.
  - apply oid_eqb_eq in Ek. subst k. rewrite Hlo in HF. rewrite oid_eqb_refl.
    destruct (is_aside (mf o (ms_rem s))) eqn:Ea; [apply is_aside_true in Ea; lia|].
    destruct (m_updated (mf o (ms_rem s))) as [u|]; lia.
  - rewrite oid_eqb_sym, Ek. rewrite N.add_0_r. exact HF.
Qed.

Lemma loop_fill m0 taker fuel s s' :
  Fill m0 s -> match_loop mf fuel taker s = Some s' -> Fill m0 s'.
Proof.
  intros HP E.
  refine (match_loop_inv mf (Fill m0) (Fill m0) taker _ _ _ fuel s s' HP E).
  - intros. apply fill_next; assumption.
  - auto.
  - intros s0 q0 H0 _ Hp. unfold Fill in *. rewrite (stop_book _ _ Hp). exact H0.
Qed.

Theorem match_no_overfill fuel l g qty taker l' g' r :
  NoDup (ids (resting l)) ->
  match_order mf fuel l g qty taker = Some (l', g', r) ->
  NoDup (ids (resting l')) /\
  forall k,
    traded r k + total (lookup k (resting l')) <= total (lookup k (resting l)) /\
    (lookup k (resting l') <> None ->
     traded r k + total (lookup k (resting l')) = total (lookup k (resting l))) /\
    (lookup k (resting l') = None ->
     total (lookup k (resting l)) <= traded r k + hidden (lookup k (resting l))).
Proof.
  intros Hnd H. unfold match_order in H.
  destruct (match_loop mf fuel taker (mkMstate l g (result_new taker qty) qty [])) as [s|] eqn:E;
    [|discriminate].
  apply (loop_fill (resting l)) in E.
  - destruct E as (Hnd' & HF). pose proof (finish_resting s Hnd') as Hrest.
    pose proof (finish_result s) as (Htxs & _).
    assert (Hf : finish s = (l', g', r)) by congruence. rewrite Hf in Hrest, Htxs.
    cbn [fst snd] in Hrest, Htxs.
    unfold traded. rewrite Htxs, Hrest. split; [exact Hnd'|].
    intros k. specialize (HF k). destruct (lookup k (book s)) as [x|]; cbn [total].
    + split; [lia | split; [intros _; lia | discriminate]].
    + split; [lia | split; [intros Hne; contradiction | intros _; lia]].
  - unfold Fill, book. cbn [ms_lvl ms_aside ms_res result_new r_txs]. rewrite app_nil_r.
    split; [exact Hnd|]. intros k. rewrite traded_in_nil. unfold resting.
    destruct (lookup k (qmap (lq l))); cbn [total hidden]; lia.
Qed.

(* the queue invariants survive a match *)
Theorem match_preserves_WfQueue fuel l g qty taker l' g' r :
  WfQueue (lq l) ->
  match_order mf fuel l g qty taker = Some (l', g', r) -> WfQueue (lq l').
Proof.
  intros [Hnd Hcov] H. unfold match_order in H.
  destruct (match_loop mf fuel taker (mkMstate l g (result_new taker qty) qty [])) as [s|] eqn:E;
    [|discriminate].
  assert (HQ : NoDup (ids (book s)) /\ Covered (lq (ms_lvl s))).
  { refine (match_loop_inv mf (fun s => NoDup (ids (book s)) /\ Exh s)
              (fun s => NoDup (ids (book s)) /\ Covered (lq (ms_lvl s)))
              taker _ _ _ fuel _ s _ E).
    - intros s0 o q0 [H1 H2] Hr Hp. split; [|apply exh_next; assumption].
      apply (next_lookup mf taker s0 o q0 Hid H1 Hp).
    - intros s0 [H1 [H2 _]] _. auto.
    - intros s0 q0 [H1 Hex] _ Hp. rewrite (stop_book _ _ Hp). split; [exact H1|].
      destruct (exh_stop _ _ Hex Hp) as [_ Hq]. intros x Hx.
      cbn [stop ms_lvl set_queue lq] in Hx. rewrite Hq in Hx. destruct Hx.
    - unfold book, Exh. cbn [ms_lvl ms_aside]. rewrite app_nil_r.
      split; [exact Hnd | split; [exact Hcov | intros o []]]. }
  destruct HQ as [Hnd' Hcov'].
  destruct (fold_push_fresh (ms_aside s) (lq (ms_lvl s)) Hnd') as [Hm Ht].
  unfold finish in H. inversion H; subst; clear H. cbn [set_queue lq].
  split; [rewrite Hm; exact Hnd'|].
  intros x Hx. rewrite Hm in Hx. rewrite Ht. apply in_or_app. apply in_app_or in Hx.
  destruct Hx as [Hx|Hx]; [left; apply Hcov'; exact Hx | right; apply in_map; exact Hx].
Qed.

(* -------- 2. every transaction is well formed -------- *)
Definition Txs (p0 : N) (taker : oid) (m0 : list order) (s : mstate) : Prop :=
  NoDup (ids (book s)) /\ price (ms_lvl s) = p0 /\
  (forall k o, lookup k (book s) = Some o ->
               exists o0, lookup k m0 = Some o0 /\ same_identity o0 o) /\
  Forall (tx_ok p0 taker m0) (r_txs (ms_res s)).

Lemma txs_next p0 m0 taker s o q' :
  Txs p0 taker m0 s -> pop (lq (ms_lvl s)) = (Some o, q') -> Txs p0 taker m0 (next mf taker s o q').
Proof.
  intros (Hnd & Hp & Hbk & Htx) Hpop.
  destruct (next_lookup mf taker s o q' Hid Hnd Hpop) as (Hnd' & Hlo & Hlk). cbv zeta in Hnd', Hlk.
  destruct (next_spec mf taker s o q') as (_ & _ & Hres & Hpr & _). cbv zeta in Hres, Hpr.
  destruct (Hbk _ _ Hlo) as (o0 & Ho0 & Hsame).
  split; [exact Hnd'|]. split; [congruence|]. split.
  - intros k x. rewrite Hlk. destruct (oid_eqb k (oid_of o)) eqn:Ek; [|apply Hbk].
    apply oid_eqb_eq in Ek. subst k.
    destruct (is_aside (mf o (ms_rem s))).
    + intros Hx; inversion Hx; subst. eauto.
    + intros Hx. exists o0. split; [exact Ho0|].
      apply (same_identity_trans _ o); [exact Hsame | exact (Hid _ _ _ Hx)].
  - rewrite Hres, next_res_txs. apply Forall_app. split; [exact Htx|].
    destruct (0 <? m_consumed (mf o (ms_rem s))) eqn:Epos; [|constructor].
    constructor; [|constructor]. unfold tx_ok. cbn [tx_qty tx_price tx_taker tx_maker tx_side].
    repeat split; [lia | exact Hp |]. exists o0. split; [exact Ho0|].
    rewrite (same_identity_side _ _ Hsame). reflexivity.
Qed.

Theorem match_txs_ok fuel l g qty taker l' g' r :
  NoDup (ids (resting l)) ->
  match_order mf fuel l g qty taker = Some (l', g', r) ->
  Forall (tx_ok (price l) taker (resting l)) (r_txs r) /\ price l' = price l /\ r_taker r = taker.
Proof.
  intros Hnd H. unfold match_order in H.
  destruct (match_loop mf fuel taker (mkMstate l g (result_new taker qty) qty [])) as [s|] eqn:E;
    [|discriminate].
  assert (HQ : Txs (price l) taker (resting l) s /\ r_taker (ms_res s) = taker).
  { refine (match_loop_inv mf
              (fun s => Txs (price l) taker (resting l) s /\ r_taker (ms_res s) = taker)
              (fun s => Txs (price l) taker (resting l) s /\ r_taker (ms_res s) = taker)
              taker _ _ _ fuel _ s _ E).
    - intros s0 o q0 [H0 Ht] _ Hp. split; [apply txs_next; assumption|].
      destruct (next_spec mf taker s0 o q0) as (_ & _ & Hres & _). cbv zeta in Hres.
      rewrite Hres, next_res_taker. exact Ht.
    - auto.
    - intros s0 q0 [H0 Ht] _ Hp. split; [|exact Ht]. unfold Txs in *. rewrite (stop_book _ _ Hp). exact H0.
    - split; [|reflexivity]. unfold Txs, book. cbn [ms_lvl ms_aside ms_res result_new r_txs].
      rewrite app_nil_r. split; [exact Hnd|]. split; [reflexivity|]. split; [|constructor].
      intros k o Ho. exists o. split; [exact Ho | apply same_identity_refl]. }
  destruct HQ as [(_ & Hp & _ & Htx) Ht]. inversion H; subst; clear H.
  cbn [r_txs r_taker set_queue price]. auto.
Qed.

(* transaction indices: consecutive values of the generator *)
Lemma gen_at_S g i : gen_at g (S i) = wadd (gen_at g i) 1.
Proof. reflexivity. Qed.
Lemma gen_at_0 g : gen_at g 0 = g.
Proof. reflexivity. Qed.

Definition Idx (g : N) (s : mstate) : Prop :=
  ms_gen s = gen_at g (length (r_txs (ms_res s))) /\
  map tx_idx (r_txs (ms_res s)) = map (gen_at g) (seq 0 (length (r_txs (ms_res s)))).

Lemma idx_next g taker s o q' : Idx g s -> Idx g (next mf taker s o q').
Proof.
  intros [Hg Hm].
  destruct (next_spec mf taker s o q') as (_ & Hgen & Hres & _). cbv zeta in Hgen, Hres.
  unfold Idx. rewrite Hgen, Hres, next_res_txs.
  destruct (0 <? m_consumed (mf o (ms_rem s))).
  - rewrite app_length. cbn [length]. rewrite Nat.add_1_r, seq_S, !map_app, Hm. cbn [map tx_idx].
    rewrite Hg, gen_at_S. split; reflexivity.
  - rewrite app_nil_r. auto.
Qed.

Lemma gen_at_nowrap g n : g + N.of_nat n < W -> forall i, (i <= n)%nat -> gen_at g i = g + N.of_nat i.
Proof.
  intros Hw. induction i as [|i IH]; intros Hi; [rewrite gen_at_0; lia|].
  rewrite gen_at_S, IH by lia. unfold wadd. rewrite N.mod_small; lia.
Qed.

Theorem match_tx_indices fuel l g qty taker l' g' r :
  match_order mf fuel l g qty taker = Some (l', g', r) ->
  let n := length (r_txs r) in
  (* exact, wrapping included *)
  (g' = gen_at g n /\ map tx_idx (r_txs r) = map (gen_at g) (seq 0 n)) /\
  (* when the generator does not wrap during the call *)
  (g + N.of_nat n < W ->
   g' = g + N.of_nat n /\ map tx_idx (r_txs r) = map (fun i => g + N.of_nat i) (seq 0 n)).
Proof.
  intros H. unfold match_order in H.
  destruct (match_loop mf fuel taker (mkMstate l g (result_new taker qty) qty [])) as [s|] eqn:E;
    [|discriminate].
  assert (HQ : Idx g s).
  { refine (match_loop_inv mf (Idx g) (Idx g) taker _ _ _ fuel _ s _ E).
    - intros. apply idx_next; assumption.
    - auto.
    - intros s0 q0 H0 _ _. exact H0.
    - split; reflexivity. }
  destruct HQ as [Hg Hm]. inversion H; subst; clear H. cbn [r_txs]. cbv zeta.
  split; [split; assumption|]. intros Hw. split.
  - rewrite Hg. apply (gen_at_nowrap g _ Hw). lia.
  - rewrite Hm. apply map_ext_in. intros i Hi. apply in_seq in Hi.
    apply (gen_at_nowrap g _ Hw). lia.
Qed.

(* -------- 3. the filled list -------- *)
(* (a) under I_cons alone: every listed id traded in this call and is gone, no repeats *)
Definition FilledS (s : mstate) : Prop :=
  NoDup (ids (book s)) /\ NoDup (r_filled (ms_res s)) /\
  forall k, In k (r_filled (ms_res s)) ->
            In k (map tx_maker (r_txs (ms_res s))) /\ lookup k (book s) = None.

Lemma filledS_next taker s o q' :
  FilledS s -> pop (lq (ms_lvl s)) = (Some o, q') -> FilledS (next mf taker s o q').
Proof.
  intros (Hnd & Hndf & HF) Hpop.
  destruct (next_lookup mf taker s o q' Hid Hnd Hpop) as (Hnd' & Hlo & Hlk). cbv zeta in Hnd', Hlk.
  destruct (next_spec mf taker s o q') as (_ & _ & Hres & _). cbv zeta in Hres.
  assert (Hnotin : ~ In (oid_of o) (r_filled (ms_res s))).
  { intros Hin. destruct (HF _ Hin) as [_ Hn]. congruence. }
  split; [exact Hnd'|]. rewrite Hres, next_res_filled, next_res_txs. split.
  - destruct ((0 <? m_consumed (mf o (ms_rem s))) && negb (is_some (m_updated (mf o (ms_rem s))))).
    + apply (Permutation_NoDup (l := oid_of o :: r_filled (ms_res s)));
        [apply Permutation_cons_append | constructor; assumption].
    + rewrite app_nil_r. exact Hndf.
  - intros k Hk. rewrite map_app, Hlk. apply in_app_or in Hk. destruct Hk as [Hk|Hk].
    + destruct (HF _ Hk) as [H1 H2]. split; [apply in_or_app; left; exact H1|].
      destruct (oid_eqb k (oid_of o)) eqn:Ek; [|exact H2].
      apply oid_eqb_eq in Ek. subst k. contradiction.
    + destruct (0 <? m_consumed (mf o (ms_rem s))) eqn:Epos; cbn [andb] in Hk; [|destruct Hk].
      destruct (m_updated (mf o (ms_rem s))) as [u|] eqn:Eu; cbn [is_some negb] in Hk; [destruct Hk|].
      destruct Hk as [<-|[]]. split.
      * apply in_or_app. right. cbn [map tx_maker]. left. reflexivity.
      * rewrite oid_eqb_refl.
        assert (Ea : is_aside (mf o (ms_rem s)) = false).
        { unfold is_aside. rewrite Eu. cbn [is_some]. apply andb_false_r. }
        rewrite Ea. reflexivity.
Qed.

Theorem match_filled_sound fuel l g qty taker l' g' r :
  NoDup (ids (resting l)) ->
  match_order mf fuel l g qty taker = Some (l', g', r) ->
  NoDup (r_filled r) /\
  forall k, In k (r_filled r) ->
            In k (map tx_maker (r_txs r)) /\ lookup k (resting l') = None.
Proof.
  intros Hnd H. unfold match_order in H.
  destruct (match_loop mf fuel taker (mkMstate l g (result_new taker qty) qty [])) as [s|] eqn:E;
    [|discriminate].
  assert (HQ : FilledS s).
  { refine (match_loop_inv mf FilledS FilledS taker _ _ _ fuel _ s _ E).
    - intros. apply filledS_next; assumption.
    - auto.
    - intros s0 q0 H0 _ Hp. unfold FilledS in *. rewrite (stop_book _ _ Hp). exact H0.
    - unfold FilledS, book. cbn [ms_lvl ms_aside ms_res result_new r_txs r_filled].
      rewrite app_nil_r. split; [exact Hnd|]. split; [constructor|]. intros k []. }
  destruct HQ as (Hnd' & Hndf & HF). pose proof (finish_resting s Hnd') as Hrest.
  pose proof (finish_result s) as (Htxs & Hfil & _).
  assert (Hf : finish s = (l', g', r)) by congruence. rewrite Hf in Hrest, Htxs, Hfil.
  cbn [fst snd] in Hrest, Htxs, Hfil. rewrite Htxs, Hfil, Hrest. auto.
Qed.

(* (b) with I_fill: exactly the makers that traded and are gone, by last trade *)
Hypothesis Hfill : I_fill mf.

Definition FilledX (s : mstate) : Prop :=
  NoDup (ids (book s)) /\
  r_filled (ms_res s) = filter (notin (book s)) (dedup_last (map tx_maker (r_txs (ms_res s)))) /\
  forall k o, In k (map tx_maker (r_txs (ms_res s))) -> lookup k (book s) = Some o -> NS mf o.

Lemma filledX_next taker s o q' :
  FilledX s -> ms_rem s <> 0 -> pop (lq (ms_lvl s)) = (Some o, q') -> FilledX (next mf taker s o q').
Proof.
  intros (Hnd & HF & HNS) Hrem Hpop.
  destruct (next_lookup mf taker s o q' Hid Hnd Hpop) as (Hnd' & Hlo & Hlk). cbv zeta in Hnd', Hlk.
  destruct (next_spec mf taker s o q') as (_ & _ & Hres & _). cbv zeta in Hres.
  set (r := mf o (ms_rem s)) in *. set (id := oid_of o) in *.
  set (newval := if is_aside r then Some o else m_updated r) in *.
  assert (Hf' : forall k, notin (book (next mf taker s o q')) k =
                          if oid_eqb k id then negb (is_some newval) else notin (book s) k).
  { intros k. unfold notin. rewrite Hlk. destruct (oid_eqb k id); reflexivity. }
  assert (Hfid : notin (book s) id = false) by (unfold notin; rewrite Hlo; reflexivity).
  (* when nothing was consumed the popped order stays unless it never traded *)
  assert (Hstay : (0 <? m_consumed r) = false -> In id (map tx_maker (r_txs (ms_res s))) ->
                  NS mf o /\ is_some newval = true).
  { intros Hz Hin. pose proof (HNS _ _ Hin Hlo) as Hns. split; [exact Hns|].
    unfold newval. destruct (is_aside r); [reflexivity|].
    destruct (m_updated r) as [u|] eqn:Eu; [reflexivity|].
    specialize (Hns (ms_rem s) ltac:(lia) Eu). fold r in Hns. lia. }
  split; [exact Hnd'|]. rewrite Hres, next_res_filled, next_res_txs, map_app. split.
  - destruct (0 <? m_consumed r) eqn:Epos; cbn [andb map tx_maker].
    + assert (Ea : is_aside r = false).
      { unfold is_aside. replace (m_consumed r =? 0) with false by lia. reflexivity. }
      rewrite dedup_last_snoc, filter_app. cbn [filter]. rewrite Hf', oid_eqb_refl.
      unfold newval. rewrite Ea. fold id.
      replace (filter (notin (book (next mf taker s o q')))
                      (remove_id id (dedup_last (map tx_maker (r_txs (ms_res s))))))
        with (filter (notin (book s)) (dedup_last (map tx_maker (r_txs (ms_res s))))).
      * rewrite <- HF. reflexivity.
      * rewrite <- (filter_remove_id (notin (book s)) id) by exact Hfid.
        apply filter_ext_in. intros k Hk. apply remove_id_In in Hk. destruct Hk as [_ Hne].
        rewrite Hf'. apply oid_eqb_neq in Hne. rewrite Hne. reflexivity.
    + rewrite !app_nil_r. rewrite HF. apply filter_ext_in. intros k Hk.
      rewrite Hf'. destruct (oid_eqb k id) eqn:Ek; [|reflexivity].
      apply oid_eqb_eq in Ek. subst k. apply (proj1 (dedup_last_In _ _)) in Hk.
      destruct (Hstay eq_refl Hk) as [_ Hs]. rewrite Hs, Hfid. reflexivity.
  - intros k x Hk. rewrite Hlk. destruct (oid_eqb k id) eqn:Ek.
    + apply oid_eqb_eq in Ek. subst k.
      destruct (0 <? m_consumed r) eqn:Epos.
      * assert (Ea : is_aside r = false).
        { unfold is_aside. replace (m_consumed r =? 0) with false by lia. reflexivity. }
        unfold newval. rewrite Ea. intros Hu.
        apply (Hfill o (ms_rem s) x ltac:(lia) Hu). left. fold r. lia.
      * cbn [map] in Hk. rewrite app_nil_r in Hk. destruct (Hstay eq_refl Hk) as [Hns _].
        unfold newval. destruct (is_aside r).
        -- intros Hx; inversion Hx; subst. exact Hns.
        -- intros Hu. apply (Hfill o (ms_rem s) x ltac:(lia) Hu). right. exact Hns.
    + intros Hx. apply (HNS k); [|exact Hx]. apply in_app_or in Hk. destruct Hk as [Hk|Hk]; [exact Hk|].
      exfalso. destruct (0 <? m_consumed r); cbn [map tx_maker] in Hk; [|destruct Hk].
      destruct Hk as [Hk|[]]. apply oid_eqb_neq in Ek. apply Ek. symmetry. exact Hk.
Qed.

Theorem match_filled_exact fuel l g qty taker l' g' r :
  NoDup (ids (resting l)) ->
  match_order mf fuel l g qty taker = Some (l', g', r) ->
  r_filled r = filter (notin (resting l')) (dedup_last (map tx_maker (r_txs r))).
Proof.
  intros Hnd H. unfold match_order in H.
  destruct (match_loop mf fuel taker (mkMstate l g (result_new taker qty) qty [])) as [s|] eqn:E;
    [|discriminate].
  assert (HQ : FilledX s).
  { refine (match_loop_inv mf FilledX FilledX taker _ _ _ fuel _ s _ E).
    - intros. apply filledX_next; assumption.
    - auto.
    - intros s0 q0 H0 _ Hp. unfold FilledX in *. rewrite (stop_book _ _ Hp). exact H0.
    - unfold FilledX, book. cbn [ms_lvl ms_aside ms_res result_new r_txs r_filled map dedup_last filter].
      rewrite app_nil_r. split; [exact Hnd|]. split; [reflexivity|]. intros k o []. }
  destruct HQ as (Hnd' & HF & _). pose proof (finish_resting s Hnd') as Hrest.
  pose proof (finish_result s) as (Htxs & Hfil & _).
  assert (Hf : finish s = (l', g', r)) by congruence. rewrite Hf in Hrest, Htxs, Hfil.
  cbn [fst snd] in Hrest, Htxs, Hfil. rewrite Htxs, Hfil, Hrest. exact HF.
Qed.

End WithMf.

(* -------- 5. the add_transaction law (pure) -------- *)
Lemma add_transactions_complete ts : forall r,
  ts <> [] ->
  r_complete (fold_left add_transaction ts r) = (r_remaining (fold_left add_transaction ts r) =? 0).
Proof.
  induction ts as [|t ts IH]; intros r Hne; [contradiction|].
  cbn [fold_left]. destruct ts as [|t' ts]; [reflexivity|]. apply IH. discriminate.
Qed.

Lemma add_transactions_spec ts : forall r,
  let r' := fold_left add_transaction ts r in
  r_remaining r' = r_remaining r - txsum ts /\
  r_txs r' = r_txs r ++ ts /\ r_filled r' = r_filled r /\ r_taker r' = r_taker r /\
  (ts <> [] -> r_complete r' = (r_remaining r' =? 0)).
Proof.
  intros r. cbv zeta. split; [|split; [|split; [|split]]]; try apply add_transactions_complete.
  - revert r. induction ts as [|t ts IH]; intros r; cbn [fold_left]; [rewrite txsum_nil; lia|].
    rewrite IH, txsum_cons. cbn [add_transaction r_remaining]. unfold sat_sub. lia.
  - revert r. induction ts as [|t ts IH]; intros r; cbn [fold_left]; [rewrite app_nil_r; reflexivity|].
    rewrite IH. cbn [add_transaction r_txs]. rewrite <- app_assoc. reflexivity.
  - revert r. induction ts as [|t ts IH]; intros r; cbn [fold_left]; [reflexivity|].
    rewrite IH. reflexivity.
  - revert r. induction ts as [|t ts IH]; intros r; cbn [fold_left]; [reflexivity|].
    rewrite IH. reflexivity.
Qed.

(* ---- match_against meets I_fill: whatever it hands back is "live" ---- *)
Definition live (o : order) : Prop :=
  0 < vis o \/
  match o with
  | Iceberg _ _ h => 0 < h
  | Reserve _ _ h _ _ au => 0 < h /\ au = true
  | _ => False
  end.

Lemma match_against_updated_live o inc u :
  m_updated (match_against o inc) = Some u -> live u.
Proof.
  destruct o as [c q|c v h|c q|c q t l|c q off p|c q|c v h thr amt au]; cbn [match_against].
  1,3,4,5,6:
    destruct (N.leb_spec q inc) as [Hle|Hgt]; cbn [m_updated with_reduced_quantity];
    intros H; inversion H; subst; left; cbn [vis]; lia.
  - destruct (N.leb_spec v inc) as [Hle|Hgt].
    + destruct (N.ltb_spec 0 h) as [Hh|Hh]; cbn [m_updated]; intros H; inversion H; subst.
      unfold live. cbn [vis]. lia.
    + cbn [m_updated]. intros H; inversion H; subst. left. cbn [vis]. lia.
  - cbv zeta. destruct (N.leb_spec v inc) as [Hle|Hgt].
    + destruct (N.ltb_spec 0 h) as [Hh|Hh]; destruct au; cbn [andb m_updated];
        intros H; inversion H; subst. unfold live. cbn [vis]. lia.
    + destruct ((v - inc <? (if au && (thr =? 0) then 1 else thr)) && (0 <? h) && au);
        cbn [m_updated]; intros H; inversion H; subst; left; cbn [vis]; lia.
Qed.

Lemma live_NS o : live o -> NS match_against o.
Proof.
  intros Hl inc Hinc Hnone. destruct Hl as [Hv|Hh]; [rewrite consumed_min; lia|].
  exfalso. destruct o as [c q|c v h|c q|c q t l|c q off p|c q|c v h thr amt au]; try contradiction;
    cbn [match_against] in Hnone.
  - destruct (v <=? inc); [|discriminate].
    replace (0 <? h) with true in Hnone by lia. discriminate.
  - destruct Hh as [Hh ->]. cbv zeta in Hnone. destruct (v <=? inc).
    + replace (0 <? h) with true in Hnone by lia. discriminate.
    + destruct ((v - inc <? (if true && (thr =? 0) then 1 else thr)) && (0 <? h) && true);
        discriminate.
Qed.

Lemma match_against_I_fill : I_fill match_against.
Proof.
  intros o inc u _ Hu _. apply live_NS. exact (match_against_updated_live o inc u Hu).
Qed.

(* ---- I_cons alone does not pin the filled list down: a per-order function may
   hand back an order with nothing displayed after a trade and drop it silently on
   the next visit.  Hence the extra interface I_fill in [match_filled_exact]. ---- *)
Definition mf_ghost (o : order) (inc : N) : mres :=
  let c := N.min inc (vis o) in
  if vis o =? 0 then mkMres 0 None 0 inc
  else mkMres c (Some (with_quantities o (vis o - c) (hid o))) 0 (inc - c).

Lemma mf_ghost_I_cons : I_cons mf_ghost.
Proof.
  intros o inc. unfold mf_ghost. cbv zeta. destruct (N.eqb_spec (vis o) 0) as [Hz|Hz];
    cbn [m_consumed m_remaining m_updated m_hidden_reduced].
  - repeat split; lia.
  - rewrite vis_with_quantities, hid_with_quantities.
    split; [reflexivity|]. split; [reflexivity|].
    destruct (family_of o) eqn:F; try (pose proof (plain_hid0 o F));
      (split; [lia | split; [lia | apply same_identity_with_quantities]]).
Qed.

Theorem filled_exact_under_I_cons_only_refuted :
  exists mf, I_cons mf /\
  exists fuel l g qty taker l' g' r,
    WfQueue (lq l) /\ match_order mf fuel l g qty taker = Some (l', g', r) /\
    r_filled r <> filter (notin (resting l')) (dedup_last (map tx_maker (r_txs r))).
Proof.
  exists mf_ghost. split; [exact mf_ghost_I_cons|].
  pose (o := Standard (mkCommon (Uuid 1) 100 Sell 1 Gtc) 5).
  pose (l := add_order (new_level 100) o).
  exists 5%nat, l, 0, 10, (Uuid 9).
  destruct (match_order mf_ghost 5 l 0 10 (Uuid 9)) as [[[l' g'] r]|] eqn:E;
    [|vm_compute in E; discriminate].
  exists l', g', r. split; [|split; [reflexivity|]].
  - split.
    + cbn. constructor; [intros []|constructor].
    + intros x Hx. cbn in Hx. destruct Hx as [<-|[]]. cbn. left. reflexivity.
  - vm_compute in E. inversion E; subst. vm_compute. discriminate.
Qed.

(* item 5 for a result built from [result_new] *)
Lemma result_new_transactions id q ts :
  let r' := fold_left add_transaction ts (result_new id q) in
  r_remaining r' = q - txsum ts /\
  (txsum ts <= q -> r_remaining r' + txsum ts = q) /\
  r_txs r' = ts /\ executed_quantity r' = txsum ts /\
  (ts <> [] -> r_complete r' = (r_remaining r' =? 0)) /\
  r_filled r' = [] /\ r_taker r' = id.
Proof.
  cbv zeta. destruct (add_transactions_spec ts (result_new id q)) as (H1 & H2 & H3 & H4 & H5).
  cbv zeta in *. cbn [result_new r_remaining r_txs r_filled r_taker app] in *.
  rewrite executed_txsum, H2. repeat split; auto; lia.
Qed.

(* consecutive indices are pairwise distinct and lie in [g, g') *)
Lemma NoDup_map_seq (f : nat -> N) :
  (forall i j, f i = f j -> i = j) -> forall n s, NoDup (map f (seq s n)).
Proof.
  intros Hinj. induction n as [|n IH]; intros s; cbn [seq map]; constructor; [|apply IH].
  intros Hin. apply in_map_iff in Hin. destruct Hin as (i & Hi & Hin).
  apply Hinj in Hi. apply in_seq in Hin. lia.
Qed.

Lemma consecutive_fresh g (ts : list tx) :
  map tx_idx ts = map (fun i => g + N.of_nat i) (seq 0 (length ts)) ->
  NoDup (map tx_idx ts) /\ forall t, In t ts -> g <= tx_idx t < g + N.of_nat (length ts).
Proof.
  intros H. split.
  - rewrite H. apply NoDup_map_seq. intros i j Hij. lia.
  - intros t Ht. assert (Hin : In (tx_idx t) (map tx_idx ts)) by (apply in_map; exact Ht).
    rewrite H in Hin. apply in_map_iff in Hin. destruct Hin as (i & Hi & Hin).
    apply in_seq in Hin. lia.
Qed.

(* closing concrete instances of the invariants in Examples *)
Ltac solve_WfQueue :=
  split;
  [ vm_compute; repeat constructor; cbn; intuition discriminate
  | let o := fresh "o" in let Ho := fresh "Ho" in
    intros o Ho; vm_compute in Ho; vm_compute; intuition (subst; auto) ].
Ltac solve_Inv :=
  split; [vm_compute; repeat split | split; [solve_WfQueue | vm_compute; split; reflexivity]].
(* [lhs = ?evar-pattern]: evaluate the closed left-hand side, then unify *)
Ltac run_lhs :=
  match goal with |- ?lhs = _ =>
    let v := eval vm_compute in lhs in
    transitivity v; [vm_compute; reflexivity | reflexivity] end.
