(* JudgeProofs.v — the extracted boolean judges decide the Props of the theorems. *)
From PL Require Import Model.Level Spec.Hist Spec.Judges Proofs.IfaceProofs.
From Coq Require Import Lia ZifyBool ZifyN Sorted.
Local Open Scope N_scope.

Lemma agg_b_iff cv ch cc listing :
  agg_b cv ch cc listing = true <->
  cv = sumv listing /\ ch = sumh listing /\ cc = N.of_nat (length listing).
Proof. unfold agg_b. rewrite !andb_true_iff, !N.eqb_eq. tauto. Qed.

(* on a level: exactly [Agg] *)
Lemma agg_b_level l :
  agg_b (cvis l) (chid l) (ccnt l) (resting l) = true <-> Agg l.
Proof. unfold Agg. apply agg_b_iff. Qed.

Lemma existsb_oid k l :
  existsb (fun x => oid_eqb k (oid_of x)) l = true <-> In k (ids l).
Proof.
  unfold ids. rewrite existsb_exists, in_map_iff. split.
  - intros (x & Hin & He). apply oid_eqb_eq in He. exists x. auto.
  - intros (x & He & Hin). exists x. split; [exact Hin|]. apply oid_eqb_eq. auto.
Qed.

Lemma nodup_ids_b_iff l : nodup_ids_b l = true <-> NoDup (ids l).
Proof.
  induction l as [|o l IH]; cbn [nodup_ids_b ids map].
  - split; [constructor | reflexivity].
  - rewrite andb_true_iff, negb_true_iff, IH. split.
    + intros [Hn Hd]. constructor; [|exact Hd]. intros Hin. apply existsb_oid in Hin. congruence.
    + intros H. inversion H as [|x xs Hnin Hd]; subst. split; [|exact Hd].
      destruct (existsb _ l) eqn:E; [|reflexivity]. apply existsb_oid in E. contradiction.
Qed.

Definition ts_le (a b : order) : Prop := ts_of a <= ts_of b.

Lemma sorted_ts_b_iff l : sorted_ts_b l = true <-> Sorted ts_le l.
Proof.
  induction l as [|a l IH]; [split; [constructor | reflexivity]|].
  destruct l as [|b l'].
  - cbn. split; [intros _; repeat constructor | reflexivity].
  - change (sorted_ts_b (a :: b :: l')) with ((ts_of a <=? ts_of b) && sorted_ts_b (b :: l')).
    rewrite andb_true_iff, IH. split.
    + intros [Hle Hs]. constructor; [exact Hs|]. constructor. unfold ts_le. lia.
    + intros H. inversion H as [|x xs Hs Hh]; subst. split; [|exact Hs].
      inversion Hh; subst. unfold ts_le in *. lia.
Qed.

Lemma listing_ok_b_iff l : listing_ok_b l = true <-> NoDup (ids l) /\ Sorted ts_le l.
Proof. unfold listing_ok_b. rewrite andb_true_iff, nodup_ids_b_iff, sorted_ts_b_iff. tauto. Qed.

Lemma tx_ok_b_iff p taker before t :
  tx_ok_b p taker before t = true <->
  0 < tx_qty t /\ tx_price t = p /\ tx_taker t = taker /\
  exists o, lookup (tx_maker t) before = Some o /\ tx_side t = opposite (side_of o).
Proof.
  unfold tx_ok_b. destruct (lookup (tx_maker t) before) as [o|].
  - rewrite !andb_true_iff, side_eqb_eq, oid_eqb_eq. split.
    + intros (((H1 & H2) & H3) & H4). repeat split; try lia; try assumption. exists o. auto.
    + intros (H1 & H2 & H3 & (o' & Ho & Hs)). inversion Ho; subst. repeat split; try lia; auto.
  - rewrite !andb_true_iff. split.
    + intros (_ & H). discriminate.
    + intros (_ & _ & _ & (o & Ho & _)). discriminate.
Qed.

Lemma accounting_b_iff p qty taker before r :
  accounting_b p qty taker before r = true <->
  sum_qty (r_txs r) + r_remaining r = qty /\
  (r_complete r = true <-> r_remaining r = 0) /\
  Forall (fun t => 0 < tx_qty t /\ tx_price t = p /\ tx_taker t = taker /\
                   exists o, lookup (tx_maker t) before = Some o /\ tx_side t = opposite (side_of o)) (r_txs r).
Proof.
  unfold accounting_b. rewrite !andb_true_iff, forallb_forall, Forall_forall. split.
  - intros ((H1 & H2) & H3). split; [lia|]. split.
    + apply Bool.eqb_prop in H2. rewrite H2. split; intros; lia.
    + intros t Ht. apply tx_ok_b_iff. auto.
  - intros (H1 & H2 & H3). split; [split; [lia|]|].
    + destruct (r_complete r) eqn:E; destruct (r_remaining r =? 0) eqn:F; try reflexivity; exfalso.
      * assert (r_remaining r = 0) by (apply H2; reflexivity). lia.
      * assert (true = false) by (symmetry; apply H2; lia). discriminate.
    + intros t Ht. apply tx_ok_b_iff. auto.
Qed.
