(* JudgeProofs.v — the extracted boolean judges decide the Props of the theorems. *)
From PL Require Import Model.Level Spec.Hist Spec.StatsSpec Spec.Judges Proofs.IfaceProofs Proofs.BaseLemmas
  Proofs.StatsRebuildProofs.
From Coq Require Import Lia ZifyBool ZifyN Sorted.
Local Open Scope N_scope.

Lemma agg_b_iff cv ch cc listing :
  agg_b cv ch cc listing = true <->
  cv = sumv listing /\ ch = sumh listing /\ cc = N.of_nat (length listing).
Proof. unfold agg_b. rewrite !andb_true_iff, !N.eqb_eq. tauto. Qed.

(* on a level: exactly [Agg] *)
Lemma agg_b_level l :
  agg_b (cvis l) (chid l) (ccnt l) (resting l) = true <-> Agg l.
Proof. unfold Agg. apply agg_b_iff. Qed.

Lemma existsb_oid k l :
  existsb (fun x => oid_eqb k (oid_of x)) l = true <-> In k (ids l).
Proof.
  unfold ids. rewrite existsb_exists, in_map_iff. split.
  - intros (x & Hin & He). apply oid_eqb_eq in He. exists x. auto.
  - intros (x & He & Hin). exists x. split; [exact Hin|]. apply oid_eqb_eq. auto.
Qed.

Lemma nodup_ids_b_iff l : nodup_ids_b l = true <-> NoDup (ids l).
Proof.
  induction l as [|o l IH]; cbn [nodup_ids_b ids map].
  - split; [constructor | reflexivity].
  - rewrite andb_true_iff, negb_true_iff, IH. split.
    + intros [Hn Hd]. constructor; [|exact Hd]. intros Hin. apply existsb_oid in Hin. congruence.
    + intros H. inversion H as [|x xs Hnin Hd]; subst. split; [|exact Hd].
      destruct (existsb _ l) eqn:E; [|reflexivity]. apply existsb_oid in E. contradiction.
Qed.

Definition ts_le (a b : order) : Prop := ts_of a <= ts_of b.

Lemma sorted_ts_b_iff l : sorted_ts_b l = true <-> Sorted ts_le l.
Proof.
  induction l as [|a l IH]; [split; [constructor | reflexivity]|].
  destruct l as [|b l'].
  - cbn. split; [intros _; repeat constructor | reflexivity].
  - change (sorted_ts_b (a :: b :: l')) with ((ts_of a <=? ts_of b) && sorted_ts_b (b :: l')).
    rewrite andb_true_iff, IH. split.
    + intros [Hle Hs]. constructor; [exact Hs|]. constructor. unfold ts_le. lia.
    + intros H. inversion H as [|x xs Hs Hh]; subst. split; [|exact Hs].
      inversion Hh; subst. unfold ts_le in *. lia.
Qed.

Lemma listing_ok_b_iff l : listing_ok_b l = true <-> NoDup (ids l) /\ Sorted ts_le l.
Proof. unfold listing_ok_b. rewrite andb_true_iff, nodup_ids_b_iff, sorted_ts_b_iff. tauto. Qed.

Lemma tx_ok_b_iff p taker before t :
  tx_ok_b p taker before t = true <->
  0 < tx_qty t /\ tx_price t = p /\ tx_taker t = taker /\
  exists o, lookup (tx_maker t) before = Some o /\ tx_side t = opposite (side_of o).
Proof.
  unfold tx_ok_b. destruct (lookup (tx_maker t) before) as [o|].
  - rewrite !andb_true_iff, side_eqb_eq, oid_eqb_eq. split.
    + intros (((H1 & H2) & H3) & H4). repeat split; try lia; try assumption. exists o. auto.
    + intros (H1 & H2 & H3 & (o' & Ho & Hs)). inversion Ho; subst. repeat split; try lia; auto.
  - rewrite !andb_true_iff. split.
    + intros (_ & H). discriminate.
    + intros (_ & _ & _ & (o & Ho & _)). discriminate.
Qed.

Lemma accounting_b_iff p qty taker before r :
  accounting_b p qty taker before r = true <->
  sum_qty (r_txs r) + r_remaining r = qty /\
  (r_complete r = true <-> r_remaining r = 0) /\
  Forall (fun t => 0 < tx_qty t /\ tx_price t = p /\ tx_taker t = taker /\
                   exists o, lookup (tx_maker t) before = Some o /\ tx_side t = opposite (side_of o)) (r_txs r).
Proof.
  unfold accounting_b. rewrite !andb_true_iff, forallb_forall, Forall_forall. split.
  - intros ((H1 & H2) & H3). split; [lia|]. split.
    + apply Bool.eqb_prop in H2. rewrite H2. split; intros; lia.
    + intros t Ht. apply tx_ok_b_iff. auto.
  - intros (H1 & H2 & H3). split; [split; [lia|]|].
    + destruct (r_complete r) eqn:E; destruct (r_remaining r =? 0) eqn:F; try reflexivity; exfalso.
      * assert (r_remaining r = 0) by (apply H2; reflexivity). lia.
      * assert (true = false) by (symmetry; apply H2; lia). discriminate.
    + intros t Ht. apply tx_ok_b_iff. auto.
Qed.

(* ================================================================== *)
(* C06: exhaust_b                                                      *)

Lemma exhaust_b_iff qty before after executed remaining :
  exhaust_b qty before after executed remaining = true <->
  Exhausts qty before after executed remaining.
Proof.
  unfold exhaust_b, Exhausts. rewrite andb_true_iff, orb_true_iff, forallb_forall. split.
  - intros [Hlow Hex]. split; [lia|]. intros Hrem o Ho.
    destruct Hex as [Hz|Hall]; [lia|]. specialize (Hall o Ho). lia.
  - intros [Hlow Hex]. split; [lia|].
    destruct (remaining =? 0) eqn:E; [left; reflexivity|right].
    intros o Ho. assert (Hv : vis o = 0) by (apply Hex; [lia|exact Ho]). lia.
Qed.

(* the conclusions of C06_lower and C06_exhausts, read off any listings of the book
   before and after the call, are [Exhausts] *)
Lemma Exhausts_of_conclusions qty (m m' : list order) executed remaining before after :
  Permutation before m -> Permutation after m' ->
  N.min qty (sumv m) <= executed ->
  (0 < remaining -> forall o, In o m' -> vis o = 0) ->
  Exhausts qty before after executed remaining.
Proof.
  intros Pb Pa Hlow Hex. split.
  - rewrite (sumv_perm _ _ Pb). exact Hlow.
  - intros Hrem o Ho. apply (Hex Hrem). apply (Permutation_in _ Pa). exact Ho.
Qed.

(* ================================================================== *)
(* C15: stats_b                                                        *)

Lemma ev_tx_price_b_iff p e : ev_tx_price_b p e = true <-> ev_tx_price p e.
Proof.
  destruct e as [o x]. destruct x as [a|r|u| |sn s]; cbn [ev_tx_price_b ev_tx_price]; try tauto.
  rewrite forallb_forall, Forall_forall. split; intros H t Ht; specialize (H t Ht); lia.
Qed.

Lemma stats_b_iff p h added removed qty value :
  stats_b p h added removed qty value = true <-> StatsAgree p h added removed qty value.
Proof.
  unfold stats_b, StatsAgree. rewrite !andb_true_iff, !N.eqb_eq, forallb_forall, Forall_forall.
  split.
  - intros ((((Ha & Hr) & Hq) & Hv) & Hp). repeat split; try assumption.
    intros e He. apply ev_tx_price_b_iff. auto.
  - intros (Ha & Hr & Hq & Hv & Hp). repeat split; try assumption.
    intros e He. apply ev_tx_price_b_iff. auto.
Qed.

(* when every transaction carries price [p], the value summed from the transactions is
   the executed quantity times [p] *)
Lemma sum_txval_price p txs :
  Forall (fun t => tx_price t = p) txs -> sum_txval txs = sum_txq txs * p.
Proof.
  induction 1 as [|t txs Ht _ IH]; cbn [sum_txval sum_txq fold_right]; [reflexivity|].
  fold (sum_txval txs). fold (sum_txq txs). rewrite IH, Ht, N.mul_add_distr_r. reflexivity.
Qed.

Lemma val_executed_price p h :
  Forall (ev_tx_price p) h -> val_executed h = qty_executed h * p.
Proof.
  induction 1 as [|e h He _ IH]; cbn [val_executed qty_executed fold_right]; [reflexivity|].
  fold (val_executed h). fold (qty_executed h). rewrite IH, N.mul_add_distr_r. f_equal.
  destruct e as [o x]. destruct o; destruct x; cbn [ev_val ev_qty]; try reflexivity.
  apply sum_txval_price. exact He.
Qed.

(* the conclusions of C15_stats_mod, with value = quantity x level price, are [StatsAgree] *)
Lemma StatsAgree_of_conclusions p h added removed qty value :
  added = n_added h mod W -> removed = n_removed p h mod W ->
  qty = qty_executed h mod W -> value = (qty_executed h * p) mod W ->
  Forall (ev_tx_price p) h ->
  StatsAgree p h added removed qty value.
Proof.
  intros Ha Hr Hq Hv Hp. repeat split; try assumption.
  rewrite (val_executed_price p h Hp). exact Hv.
Qed.

(* ---- histories with rebuilds ---- *)
Lemma stats_rebuild_b_iff p h added removed qty value :
  stats_rebuild_b p h added removed qty value = true <-> StatsAgreeR p h added removed qty value.
Proof.
  unfold stats_rebuild_b, StatsAgreeR. cbv zeta.
  rewrite !andb_true_iff, !N.eqb_eq, forallb_forall, Forall_forall.
  split.
  - intros ((((Ha & Hr) & Hq) & Hv) & Hp). repeat split; try assumption.
    intros e He. apply ev_tx_price_b_iff. auto.
  - intros (Ha & Hr & Hq & Hv & Hp). repeat split; try assumption.
    intros e He. apply ev_tx_price_b_iff. auto.
Qed.

(* the conclusions of C15_across_rebuilds_mod, with value = quantity x level price, are [StatsAgreeR] *)
Lemma StatsAgreeR_of_conclusions p h added removed qty value :
  added = (rebuild_base h + n_added (since_rebuild h)) mod W ->
  removed = n_removed p (since_rebuild h) mod W ->
  qty = qty_executed (since_rebuild h) mod W ->
  value = (qty_executed (since_rebuild h) * p) mod W ->
  Forall (ev_tx_price p) h ->
  StatsAgreeR p h added removed qty value.
Proof.
  intros Ha Hr Hq Hv Hp. repeat split; try assumption.
  rewrite (val_executed_price p (since_rebuild h)); [exact Hv|].
  rewrite <- (cut_rebuild_app h) in Hp. apply Forall_app in Hp. apply Hp.
Qed.

(* on a history without a rebuild event the two judges are the same function *)
Lemma stats_rebuild_b_no_rebuild p h added removed qty value :
  has_rebuild h = false ->
  stats_rebuild_b p h added removed qty value = stats_b p h added removed qty value.
Proof.
  intros Hh. unfold stats_rebuild_b, stats_b. cbv zeta.
  rewrite (since_rebuild_none h Hh), (rebuild_base_none h Hh), N.add_0_l. reflexivity.
Qed.

(* ================================================================== *)
(* C07: update_ok_b, update_counts_b                                   *)

Lemma option_N_eqb_refl (a : option N) : option_eqb N.eqb a a = true.
Proof. apply option_N_eqb_eq. reflexivity. Qed.

Lemma order_eqb_iff a b : order_eqb a b = true <-> a = b.
Proof.
  split.
  - destruct a, b; cbn [order_eqb]; try discriminate; rewrite ?andb_true_iff; intros H;
      repeat match goal with
      | H : _ /\ _ |- _ => destruct H
      | H : common_eqb _ _ = true |- _ => apply common_eqb_eq in H
      | H : N.eqb _ _ = true |- _ => apply N.eqb_eq in H
      | H : Z.eqb _ _ = true |- _ => apply Z.eqb_eq in H
      | H : peg_eqb _ _ = true |- _ => apply peg_eqb_eq in H
      | H : option_eqb N.eqb _ _ = true |- _ => apply option_N_eqb_eq in H
      | H : Bool.eqb _ _ = true |- _ => apply Bool.eqb_prop in H
      end; congruence.
  - intros <-. destruct a; cbn [order_eqb];
      rewrite ?(proj2 (common_eqb_eq _ _) eq_refl), ?N.eqb_refl, ?Z.eqb_refl,
              ?(proj2 (peg_eqb_eq _ _) eq_refl), ?option_N_eqb_refl, ?Bool.eqb_reflx; reflexivity.
Qed.

Lemma oo_eqb_iff a b : oo_eqb a b = true <-> a = b.
Proof.
  destruct a as [x|], b as [y|]; cbn [oo_eqb option_eqb]; try (split; congruence).
  rewrite order_eqb_iff. split; congruence.
Qed.

Lemma uout_eqb_iff x y : uout_eqb x y = true <-> x = y.
Proof.
  destruct x as [a|], y as [b|]; cbn [uout_eqb]; try (split; congruence).
  rewrite oo_eqb_iff. split; congruence.
Qed.

Lemma lookup_in_ids k m o : lookup k m = Some o -> In k (ids m).
Proof.
  intros H. destruct (lookup_Some _ _ _ H) as [Hin Hid]. subst k. unfold ids. apply in_map. exact Hin.
Qed.

Lemma same_book_b_iff a b : same_book_b a b = true <-> same_book a b.
Proof.
  unfold same_book_b, same_book. rewrite forallb_forall. split.
  - intros H k.
    destruct (lookup k a) as [x|] eqn:Ea.
    + rewrite <- Ea. apply oo_eqb_iff. apply H. apply in_or_app. left. exact (lookup_in_ids _ _ _ Ea).
    + destruct (lookup k b) as [y|] eqn:Eb; [|reflexivity].
      rewrite <- Ea, <- Eb. apply oo_eqb_iff. apply H. apply in_or_app. right. exact (lookup_in_ids _ _ _ Eb).
  - intros H k _. apply oo_eqb_iff. apply H.
Qed.

Lemma same_book_except_b_iff k a b : same_book_except_b k a b = true <-> same_book_except k a b.
Proof.
  unfold same_book_except_b, same_book_except. rewrite forallb_forall. split.
  - intros H k' Hne.
    assert (Hk : forall j, j <> k -> In j (ids a ++ ids b) -> lookup j a = lookup j b).
    { intros j Hj Hin. specialize (H j Hin). apply orb_true_iff in H. destruct H as [H|H].
      - apply oid_eqb_eq in H. contradiction.
      - apply oo_eqb_iff. exact H. }
    destruct (lookup k' a) as [x|] eqn:Ea.
    + rewrite <- Ea. apply (Hk k' Hne). apply in_or_app. left. exact (lookup_in_ids _ _ _ Ea).
    + destruct (lookup k' b) as [y|] eqn:Eb; [|reflexivity].
      rewrite <- Ea, <- Eb. apply (Hk k' Hne). apply in_or_app. right. exact (lookup_in_ids _ _ _ Eb).
  - intros H k' _. apply orb_true_iff. destruct (oid_eqb k' k) eqn:E; [left; reflexivity|right].
    apply oo_eqb_iff. apply H. apply oid_eqb_neq. exact E.
Qed.

Lemma update_ok_b_iff p before u r after :
  update_ok_b p before u r after = true <-> UpdateOk p before u r after.
Proof.
  unfold update_ok_b, UpdateOk. cbv zeta.
  destruct (classify p u) as [| |nq]; [|destruct (lookup (upd_key u) before) as [o|]..];
    rewrite ?andb_true_iff, ?uout_eqb_iff, ?oo_eqb_iff, ?same_book_b_iff, ?same_book_except_b_iff;
    tauto.
Qed.

Lemma update_counts_b_iff p before u cv ch cc cv' ch' cc' :
  update_counts_b p before u cv ch cc cv' ch' cc' = true <->
  UpdateCounts p before u cv ch cc cv' ch' cc'.
Proof.
  unfold update_counts_b, UpdateCounts.
  destruct (classify p u) as [| |nq]; destruct (lookup (upd_key u) before) as [o|];
    rewrite !andb_true_iff, !N.eqb_eq; tauto.
Qed.

(* both statements read the two listings only through [lookup]: any two listings that are
   the same finite map give the same verdict *)
Lemma UpdateOk_same_book p before before' u r after after' :
  same_book before before' -> same_book after after' ->
  UpdateOk p before u r after -> UpdateOk p before' u r after'.
Proof.
  intros Hb Ha. unfold UpdateOk. cbv zeta. rewrite <- (Hb (upd_key u)), <- (Ha (upd_key u)).
  assert (Hsb : same_book after before -> same_book after' before').
  { intros H k. rewrite <- (Ha k), <- (Hb k). apply H. }
  assert (Hse : forall k, same_book_except k after before -> same_book_except k after' before').
  { intros k H k' Hne. rewrite <- (Ha k'), <- (Hb k'). apply H. exact Hne. }
  destruct (classify p u) as [| |nq]; [|destruct (lookup (upd_key u) before) as [o|]..];
    intros H; decompose [and] H; repeat split; auto.
Qed.

Lemma UpdateCounts_same_book p before before' u cv ch cc cv' ch' cc' :
  same_book before before' ->
  UpdateCounts p before u cv ch cc cv' ch' cc' -> UpdateCounts p before' u cv ch cc cv' ch' cc'.
Proof. intros Hb. unfold UpdateCounts. rewrite <- (Hb (upd_key u)). tauto. Qed.

(* a listing of a book with unique ids is the same finite map as the book *)
Lemma perm_same_book a b : NoDup (ids b) -> Permutation a b -> same_book b a.
Proof.
  intros ND P k.
  assert (NDa : NoDup (ids a)) by (apply (NoDup_ids_perm b a); [apply Permutation_sym; exact P|exact ND]).
  destruct (lookup k b) as [o|] eqn:E.
  - destruct (lookup_Some _ _ _ E) as [Hin Hid]. subst k. symmetry.
    apply lookup_NoDup_In; [exact NDa|]. apply (Permutation_in _ (Permutation_sym P)). exact Hin.
  - symmetry. apply lookup_None. apply lookup_None in E. intros Hin. apply E.
    apply (Permutation_in _ (ids_perm _ _ P)). exact Hin.
Qed.
