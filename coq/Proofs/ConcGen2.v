(* C14, second part: what the generator state is after a run, so that runs compose —
   ids drawn later never repeat ids drawn earlier ("or will return"), and a run that
   draws fewer ids draws a prefix of what a longer run from the same start draws. *)
From PL Require Import Spec.ConcSpec Proofs.ConcBase Proofs.ConcInv Proofs.ConcGen.
From Coq Require Import Lia ZifyBool ZifyN ZifyNat.
Arguments wadd : simpl never.
Local Open Scope N_scope.

Lemma Nseq_In_lt g n x : In x (Nseq g n) -> x < g + N.of_nat n.
Proof.
  revert g. induction n as [|n IH]; intros g; cbn [Nseq]; [contradiction|].
  intros [->|Hin]; [lia|]. specialize (IH _ Hin). lia.
Qed.

Lemma Nseq_firstn g n m : (m <= n)%nat -> firstn m (Nseq g n) = Nseq g m.
Proof.
  revert g m. induction n as [|n IH]; intros g m Hm.
  - assert (m = O) by lia. subst. reflexivity.
  - destruct m as [|m]; [reflexivity|]. cbn [Nseq firstn]. f_equal. apply IH. lia.
Qed.

Lemma Nseq_app g n m : Nseq g (n + m) = Nseq g n ++ Nseq (g + N.of_nat n) m.
Proof.
  revert g. induction n as [|n IH]; intros g; cbn [Nseq plus app].
  - f_equal. lia.
  - f_equal. rewrite IH. do 2 f_equal. lia.
Qed.

Section Gen2.
Variable mf : order -> N -> mres.

(* the counter after a run = start + number of values drawn (no wrap) *)
Lemma exec_gen_final sched : forall c,
  let n := length (gen_olds (snd (exec mf sched c))) in
  sh_gen (cf_sh c) + N.of_nat n < W ->
  sh_gen (cf_sh (fst (exec mf sched c))) = sh_gen (cf_sh c) + N.of_nat n.
Proof.
  induction sched as [|i rest IH]; intros c; cbn [exec].
  - intros _. cbn [snd fst gen_olds length N.of_nat]. rewrite N.add_0_r. reflexivity.
  - destruct (cstep mf c i) as [[c' e]|] eqn:Hs; [|apply IH].
    pose proof (cstep_gen mf _ _ _ _ Hs) as Hg. specialize (IH c').
    destruct (exec mf rest c') as [c'' tr]. cbn [snd fst gen_olds] in *.
    destruct (is_gen_ev e) as [old|].
    + destruct Hg as (-> & Hg'). cbn [length]. intros Hb.
      rewrite wadd_nowrap in Hg' by lia. rewrite Hg' in IH.
      rewrite IH by lia. lia.
    + rewrite Hg in IH. exact IH.
Qed.

(* ids drawn by a continuation of the run never repeat ids drawn before *)
Lemma exec_gen_never_again sched sched2 c :
  let r1 := exec mf sched c in
  let olds1 := gen_olds (snd r1) in
  let olds2 := gen_olds (snd (exec mf sched2 (fst r1))) in
  sh_gen (cf_sh c) + N.of_nat (length olds1) + N.of_nat (length olds2) <= W ->
  sh_gen (cf_sh c) + N.of_nat (length olds1) < W ->
  forall x, In x olds1 -> In x olds2 -> False.
Proof.
  intros r1 olds1 olds2 Hb Hs x H1 H2.
  assert (Hb1 : sh_gen (cf_sh c) + N.of_nat (length olds1) <= W) by lia.
  pose proof (exec_gen mf sched c Hb1) as E1. fold r1 olds1 in E1.
  pose proof (exec_gen_final sched c Hs) as F. fold r1 olds1 in F.
  assert (Hb2 : sh_gen (cf_sh (fst r1)) + N.of_nat (length olds2) <= W) by (rewrite F; lia).
  pose proof (exec_gen mf sched2 (fst r1) Hb2) as E2. fold olds2 in E2.
  rewrite E1 in H1. rewrite E2, F in H2.
  apply Nseq_In_lt in H1. apply Nseq_In in H2. lia.
Qed.

(* the two segments together are one gap-free sequence *)
Lemma exec_gen_compose sched sched2 c :
  let r1 := exec mf sched c in
  let olds1 := gen_olds (snd r1) in
  let olds2 := gen_olds (snd (exec mf sched2 (fst r1))) in
  sh_gen (cf_sh c) + N.of_nat (length olds1) + N.of_nat (length olds2) <= W ->
  sh_gen (cf_sh c) + N.of_nat (length olds1) < W ->
  olds1 ++ olds2 = Nseq (sh_gen (cf_sh c)) (length olds1 + length olds2).
Proof.
  intros r1 olds1 olds2 Hb Hs.
  assert (Hb1 : sh_gen (cf_sh c) + N.of_nat (length olds1) <= W) by lia.
  pose proof (exec_gen mf sched c Hb1) as E1. fold r1 olds1 in E1.
  pose proof (exec_gen_final sched c Hs) as F. fold r1 olds1 in F.
  assert (Hb2 : sh_gen (cf_sh (fst r1)) + N.of_nat (length olds2) <= W) by (rewrite F; lia).
  pose proof (exec_gen mf sched2 (fst r1) Hb2) as E2. fold olds2 in E2.
  rewrite Nseq_app, <- E1, <- F, <- E2. reflexivity.
Qed.

(* replay: a run that draws fewer values draws a prefix of a longer run's values *)
Lemma exec_gen_prefix mf' sched c sched' c' :
  let olds := gen_olds (snd (exec mf sched c)) in
  let olds' := gen_olds (snd (exec mf' sched' c')) in
  sh_gen (cf_sh c) = sh_gen (cf_sh c') -> (length olds <= length olds')%nat ->
  sh_gen (cf_sh c') + N.of_nat (length olds') <= W ->
  olds = firstn (length olds) olds'.
Proof.
  intros olds olds' Hg Hl Hb'.
  assert (Hb : sh_gen (cf_sh c) + N.of_nat (length olds) <= W) by lia.
  pose proof (exec_gen mf sched c Hb) as E. fold olds in E.
  pose proof (exec_gen mf' sched' c' Hb') as E'. fold olds' in E'.
  rewrite E' , Nseq_firstn by exact Hl. rewrite <- Hg. exact E.
Qed.

End Gen2.

(* the strict bound is only needed when the continuation draws something, and then it follows *)
Lemma exec_gen_never_again' mf sched sched2 c :
  let r1 := exec mf sched c in
  let olds1 := gen_olds (snd r1) in
  let olds2 := gen_olds (snd (exec mf sched2 (fst r1))) in
  sh_gen (cf_sh c) + N.of_nat (length olds1) + N.of_nat (length olds2) <= W ->
  forall x, In x olds1 -> In x olds2 -> False.
Proof.
  intros r1 olds1 olds2 Hb x H1 H2.
  refine (exec_gen_never_again mf sched sched2 c Hb _ x H1 H2).
  fold r1 olds1. fold r1 olds1 olds2 in Hb.
  destruct olds2 as [|y l]; [destruct H2|]. cbn [length] in Hb. lia.
Qed.
