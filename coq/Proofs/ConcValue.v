(* ConcValue.v — C15, concurrent half, value executed: when every order is
   priced at the level's price P, [value_executed] advances by P times the
   quantity of each transaction. *)
From PL Require Import Spec.ConcSpec Proofs.ConcBase Proofs.OrderProofs Proofs.ConcInv Proofs.ConcThms
  Proofs.ConcStats.
From Coq Require Import Lia ZifyBool ZifyN.
Local Open Scope N_scope.

Arguments upsert : simpl never.
Arguments remove_key : simpl never.
Arguments wadd : simpl never.
Arguments wsub : simpl never.

(* ---- prices of orders in the map ---- *)
Lemma Forall_remove_key (Q : order -> Prop) k m : Forall Q m -> Forall Q (remove_key k m).
Proof.
  intros H. unfold remove_key. rewrite Forall_forall in *. intros x Hx.
  apply filter_In in Hx. apply H. apply Hx.
Qed.

Lemma Forall_upsert (Q : order -> Prop) o m : Forall Q m -> Q o -> Forall Q (upsert o m).
Proof.
  intros H Ho. unfold upsert. apply Forall_app. split; [apply Forall_remove_key; exact H|].
  constructor; [exact Ho|constructor].
Qed.

Lemma lookup_In k m o : lookup k m = Some o -> In o m.
Proof.
  induction m as [|y m IH]; cbn [lookup]; [discriminate|].
  destruct (oid_eqb k (oid_of y)); intros H; [inversion H; left; reflexivity|right; auto].
Qed.

Lemma Forall_lookup (Q : order -> Prop) k m o : Forall Q m -> lookup k m = Some o -> Q o.
Proof. intros H L. rewrite Forall_forall in H. apply H. eapply lookup_In. exact L. Qed.

Lemma price_with_reduced o nq : price_of (with_reduced_quantity o nq) = price_of o.
Proof. destruct o; reflexivity. Qed.

Lemma price_updated mf o inc u : I_cons mf -> m_updated (mf o inc) = Some u -> price_of u = price_of o.
Proof.
  intros HI Hu. destruct (HI o inc) as (_ & _ & H). rewrite Hu in H. destruct H as (_ & _ & Hid).
  unfold price_of. rewrite (same_identity_com _ _ Hid). reflexivity.
Qed.

Lemma pc_price_plain P p l : asd p = l -> plain p -> Forall (okP P) l -> pc_price P p.
Proof.
  intros Ha (_ & _ & _ & _ & _ & Hid & Hf & _) Hl. unfold pc_price. rewrite Ha. split; [exact Hl|].
  destruct p; try exact I; cbn [ownid fut] in *; discriminate.
Qed.

Section Price.
Variable mf : order -> N -> mres.
Hypothesis HI : I_cons mf.
Variable P : N.

Ltac inv H := inversion H; subst; clear H.
Ltac genP Hstep :=
  inv Hstep; cbn [set_obj set_map set_tk sh_map]; unfold pc_price; cbn [asd];
  split; [try assumption; try (apply Forall_upsert; assumption)
         | split; try assumption; try exact I; try constructor; try tauto ].

Lemma tstep_price p s p' s' e :
  tstep mf p s = Some (p', s', e) ->
  Forall (okP P) (sh_map s) -> pc_price P p ->
  Forall (okP P) (sh_map s') /\ pc_price P p'.
Proof.
  intros Hstep Hm (Ha & Hp).
  destruct s as [pr cv ch cc m tk st g].
  destruct p; cbn [tstep fetch_add fetch_sub sh_map sh_tk asd] in *.
  - (* Done *) discriminate.
  - (* A1 *) genP Hstep.
  - (* A2 *) genP Hstep.
  - (* A3 *) genP Hstep.
  - (* A4 *) genP Hstep.
  - (* A5 *) genP Hstep.
  - (* A6 *) genP Hstep.
  - (* M1 *) destruct tk as [|k t]; inv Hstep; cbn [set_tk sh_map]; (split; [assumption|]).
    + destruct (start_finish_asd ml) as (A & B). eapply pc_price_plain; eauto.
    + split; [assumption|exact I].
  - (* M2 *) destruct (lookup k m) as [o|] eqn:L; inv Hstep; cbn [set_map sh_map].
    + split; [apply Forall_remove_key; assumption|].
      pose proof (Forall_lookup _ _ _ _ Hm L) as Ho.
      destruct ((m_consumed (mf o (ml_rem ml)) =? 0) && (m_hidden_reduced (mf o (ml_rem ml)) =? 0) &&
                is_some (m_updated (mf o (ml_rem ml))));
        [|destruct (0 <? m_consumed (mf o (ml_rem ml)))].
      * destruct (next_iter_asd (mkMloc (ml_taker ml) (ml_rem ml) (ml_res ml) (ml_aside ml ++ [o]))) as (A & B).
        eapply pc_price_plain; eauto. cbn [ml_aside]. apply Forall_app. split; [assumption|].
        constructor; [assumption|constructor].
      * split; [assumption|]. split; [assumption|].
        intros u Hu. unfold okP in *. rewrite (price_updated mf _ _ _ HI Hu). exact Ho.
      * split; [assumption|]. split; [assumption|].
        intros u Hu. unfold okP in *. rewrite (price_updated mf _ _ _ HI Hu). exact Ho.
    + split; [assumption|]. split; [assumption|exact I].
  - (* M3 *) genP Hstep.
  - (* M4 *) genP Hstep.
  - (* M5 *) genP Hstep.
  - (* M6 *) genP Hstep.
  - (* M7 *) inv Hstep. cbn [set_obj sh_map]. split; [assumption|]. destruct Hp as (Ho & Hu).
    unfold after_stats. destruct (m_updated r) as [u|] eqn:Eu; [destruct (0 <? m_hidden_reduced r)|];
      (split; [exact Ha|]); try exact I; apply Hu; reflexivity.
  - (* M10 *) genP Hstep.
  - (* M11 *) genP Hstep.
  - (* M12 *) inv Hstep. cbn [set_map sh_map]. split; [apply Forall_upsert; assumption|].
    split; [assumption|exact I].
  - (* M13 *) inv Hstep. cbn [set_tk sh_map]. split; [assumption|].
    destruct (next_iter_asd ml) as (A & B). eapply pc_price_plain; eauto.
  - (* M14 *) inv Hstep. cbn [set_obj sh_map]. split; [assumption|].
    destruct (drops_hidden o r); [split; [assumption|exact I]|].
    destruct (next_iter_asd ml) as (A & B). eapply pc_price_plain; eauto.
  - (* M15 *) inv Hstep. cbn [set_obj sh_map]. split; [assumption|].
    destruct (next_iter_asd ml) as (A & B). eapply pc_price_plain; eauto.
  - (* F1 *) inv Hstep. cbn [set_map sh_map]. inversion Ha; subst.
    split; [apply Forall_upsert; assumption|]. split; [assumption|exact I].
  - (* F2 *) inv Hstep. cbn [set_tk sh_map]. split; [assumption|].
    destruct (start_finish_asd (mkMloc (ml_taker ml) (ml_rem ml) (ml_res ml) rest)) as (A & B).
    eapply pc_price_plain; eauto.
  - (* C1 *) destruct (lookup k m) as [o|] eqn:L; inv Hstep; cbn [set_map sh_map].
    + split; [apply Forall_remove_key; assumption|]. split; [constructor|exact I].
    + split; [assumption|]. split; [constructor|exact I].
  - (* C2 *) genP Hstep.
  - (* C3 *) genP Hstep.
  - (* C4 *) genP Hstep.
  - (* C5 *) genP Hstep.
  - (* U1 *) destruct (lookup k m) as [o|] eqn:L; inv Hstep; cbn [sh_map];
      (split; [assumption|]); (split; [constructor|exact I]).
  - (* U2 *) destruct (lookup k m) as [old|] eqn:L; inv Hstep; cbn [set_map sh_map].
    + split; [apply Forall_remove_key; assumption|].
      pose proof (Forall_lookup _ _ _ _ Hm L) as Ho.
      assert (Hn : okP P (with_reduced_quantity old nq)) by (unfold okP in *; rewrite price_with_reduced; exact Ho).
      unfold amend_after_remove.
      destruct (negb (vis old =? vis (with_reduced_quantity old nq)));
        [|destruct (negb (hid old =? hid (with_reduced_quantity old nq)))];
        (split; [constructor|exact Hn]).
    + split; [assumption|]. split; [constructor|exact I].
  - (* U3 *) destruct (vis old <? vis new); cbn [fetch_add fetch_sub] in Hstep; inv Hstep;
      cbn [set_obj sh_map]; (split; [assumption|]);
      destruct (negb (hid old =? hid new)); (split; [constructor|exact Hp]).
  - (* U4 *) destruct (hid old <? hid new); cbn [fetch_add fetch_sub] in Hstep; inv Hstep;
      cbn [set_obj sh_map]; (split; [assumption|]); (split; [constructor|exact Hp]).
  - (* U5 *) genP Hstep.
  - (* U6 *) genP Hstep.
  - (* RdV *) genP Hstep.
  - (* RdH *) genP Hstep.
  - (* RdC *) genP Hstep.
  - (* RdL *) genP Hstep.
  - (* G1 *) genP Hstep.
  - (* Sn1 *) genP Hstep.
  - (* Sn2 *) genP Hstep.
  - (* Sn3 *) genP Hstep.
  - (* Sn4 *) genP Hstep.
Qed.

End Price.

(* ---- the value counter, one step of one thread ---- *)
Lemma start_finish_vplain P ml : vgo P (start_finish ml) = 0 /\ vpq P (start_finish ml) = 0.
Proof. unfold start_finish. destruct (ml_aside ml); split; reflexivity. Qed.

Lemma next_iter_vplain P ml : vgo P (next_iter ml) = 0 /\ vpq P (next_iter ml) = 0.
Proof. unfold next_iter. destruct (ml_rem ml =? 0); [apply start_finish_vplain|split; reflexivity]. Qed.

Lemma start_vplain P price c : vgo P (start price c) = 0 /\ vpq P (start price c) = 0.
Proof.
  destruct c as [o|qty taker|u| | | | | |]; cbn [start]; try (split; reflexivity).
  - apply next_iter_vplain.
  - destruct u as [k np|k nq|k np nq|k|k p q sd]; try (split; reflexivity).
    + destruct (np =? price); split; reflexivity.
    + destruct (np =? price); split; reflexivity.
    + destruct (p =? price); split; reflexivity.
Qed.

Ltac use_vplain q :=
  let A := fresh "Va" in let B := fresh "Vb" in
  destruct q as (A & B); rewrite ?A, ?B in *.

Ltac normV :=
  cbn [vgo vpq xdrain txq_pc ret_txq s_value sh_st set_obj set_map set_tk get_obj ml_res
       ml_set_rem ml_aside ml_rem ml_taker] in *;
  rewrite ?N.mul_0_r, ?N.mul_add_distr_l in *.

Section Value.
Variable mf : order -> N -> mres.
Variable P : N.

Ltac inv H := inversion H; subst; clear H.
Ltac finV := normV; rewrite ?wadd_nowrap by lia; repeat split; lia.
Ltac genV Hstep := inv Hstep; finV.

Lemma tstep_V p s p' s' e :
  tstep mf p s = Some (p', s', e) ->
  pc_price P p ->
  s_value (sh_st s) + vgo P p < W ->
  s_value (sh_st s') + vgo P p' = s_value (sh_st s) + vgo P p + P * xdrain p /\
  s_value (sh_st s') + vpq P p' + P * txq_pc p = s_value (sh_st s) + vpq P p + P * txq_pc p'.
Proof.
  intros Hstep (_ & Hp) HV.
  destruct s as [pr cv ch cc m tk st g].
  destruct p; cbn [tstep fetch_add fetch_sub sh_map sh_tk sh_st] in *.
  - (* Done *) discriminate.
  - (* A1 *) genV Hstep.
  - (* A2 *) genV Hstep.
  - (* A3 *) genV Hstep.
  - (* A4 *) genV Hstep.
  - (* A5 *) genV Hstep.
  - (* A6 *) genV Hstep.
  - (* M1 *) destruct tk as [|k t]; inv Hstep.
    + normV. use_vplain (start_finish_vplain P ml). use_splain (start_finish_splain ml). finV.
    + finV.
  - (* M2 *) destruct (lookup k m) as [o|] eqn:L; inv Hstep.
    + set (r := mf o (ml_rem ml)) in *.
      destruct ((m_consumed r =? 0) && (m_hidden_reduced r =? 0) && is_some (m_updated r)) eqn:E1;
        [|destruct (0 <? m_consumed r) eqn:E2].
      * normV.
        use_vplain (next_iter_vplain P (mkMloc (ml_taker ml) (ml_rem ml) (ml_res ml) (ml_aside ml ++ [o]))).
        use_splain (next_iter_splain (mkMloc (ml_taker ml) (ml_rem ml) (ml_res ml) (ml_aside ml ++ [o]))).
        finV.
      * finV.
      * assert (Hz : m_consumed r = 0) by lia. normV. rewrite Hz. finV.
    + finV.
  - (* M3 *) genV Hstep.
  - (* M4 *) inv Hstep.
    destruct (is_some (m_updated r)); normV; cbn [add_transaction add_filled r_txs] in *;
      rewrite txsum_app, txsum_single; cbn [tx_qty]; finV.
  - (* M5 *) genV Hstep.
  - (* M6 *) genV Hstep.
  - (* M7 *) inv Hstep. destruct Hp as (Ho & _). unfold okP in Ho. rewrite Ho.
    rewrite (N.mul_comm (m_consumed r) P).
    normV. rewrite N.mod_small by lia.
    unfold after_stats.
    destruct (m_updated r) as [u|] eqn:Eu; [destruct (0 <? m_hidden_reduced r) eqn:E|]; finV.
  - (* M10 *) genV Hstep.
  - (* M11 *) genV Hstep.
  - (* M12 *) genV Hstep.
  - (* M13 *) inv Hstep. normV. use_vplain (next_iter_vplain P ml). use_splain (next_iter_splain ml). finV.
  - (* M14 *) inv Hstep. destruct (drops_hidden o r).
    + finV.
    + normV. use_vplain (next_iter_vplain P ml). use_splain (next_iter_splain ml). finV.
  - (* M15 *) inv Hstep. normV. use_vplain (next_iter_vplain P ml). use_splain (next_iter_splain ml). finV.
  - (* F1 *) genV Hstep.
  - (* F2 *) inv Hstep. normV.
    use_vplain (start_finish_vplain P (mkMloc (ml_taker ml) (ml_rem ml) (ml_res ml) rest)).
    use_splain (start_finish_splain (mkMloc (ml_taker ml) (ml_rem ml) (ml_res ml) rest)). finV.
  - (* C1 *) destruct (lookup k m) as [o|] eqn:L; inv Hstep; finV.
  - (* C2 *) genV Hstep.
  - (* C3 *) genV Hstep.
  - (* C4 *) genV Hstep.
  - (* C5 *) genV Hstep.
  - (* U1 *) destruct (lookup k m) as [o|] eqn:L; inv Hstep; finV.
  - (* U2 *) destruct (lookup k m) as [old|] eqn:L; inv Hstep.
    + unfold amend_after_remove.
      destruct (negb (vis old =? vis (with_reduced_quantity old nq)));
        [|destruct (negb (hid old =? hid (with_reduced_quantity old nq)))]; finV.
    + finV.
  - (* U3 *)
    destruct (vis old <? vis new); cbn [fetch_add fetch_sub] in Hstep; inv Hstep;
      destruct (negb (hid old =? hid new)); finV.
  - (* U4 *)
    destruct (hid old <? hid new); cbn [fetch_add fetch_sub] in Hstep; inv Hstep; finV.
  - (* U5 *) genV Hstep.
  - (* U6 *) genV Hstep.
  - (* RdV *) genV Hstep.
  - (* RdH *) genV Hstep.
  - (* RdC *) genV Hstep.
  - (* RdL *) genV Hstep.
  - (* G1 *) genV Hstep.
  - (* Sn1 *) genV Hstep.
  - (* Sn2 *) genV Hstep.
  - (* Sn3 *) genV Hstep.
  - (* Sn4 *) genV Hstep.
Qed.

End Value.

(* ---- settle ---- *)
Lemma settle_vgo P n price t : vgo P (th_pc (settle_n n price t)) = vgo P (th_pc t).
Proof.
  apply (settle_n_measure (fun t => vgo P (th_pc t))). intros r c cs rets. cbn [th_pc].
  destruct (start_vplain P price c) as (A & _). rewrite A. reflexivity.
Qed.

Lemma settle_vpq P n price t : vpq P (th_pc (settle_n n price t)) = vpq P (th_pc t).
Proof.
  apply (settle_n_measure (fun t => vpq P (th_pc t))). intros r c cs rets. cbn [th_pc].
  destruct (start_vplain P price c) as (_ & B). rewrite B. reflexivity.
Qed.

Lemma start_price P price c : call_price P c -> pc_price P (start price c).
Proof.
  intros Hc. destruct (start_asd price c) as (Ha & _).
  destruct c as [o|qty taker|u| | | | | |]; cbn [start] in *; try (split; [constructor|exact I]).
  - split; [constructor|exact Hc].
  - destruct (next_iter_asd (mkMloc taker qty (result_new taker qty) [])) as (A & B).
    eapply pc_price_plain; eauto. cbn [ml_aside]. constructor.
  - destruct u as [k np|k nq|k np nq|k|k p q sd]; try (split; [constructor|exact I]).
    + destruct (np =? price); split; try constructor.
    + destruct (np =? price); split; try constructor.
    + destruct (p =? price); split; try constructor.
Qed.

Lemma settle_tprice P n price t : tprice P t -> tprice P (settle_n n price t).
Proof.
  apply (settle_n_pred (tprice P)). intros r c cs rets (_ & Htd). cbn [th_todo] in Htd.
  inversion Htd; subst. split; cbn [th_pc th_todo]; [apply start_price; assumption|assumption].
Qed.

Section ValueStep.
Variable mf : order -> N -> mres.
Hypothesis HI : I_cons mf.
Variable P : N.

Lemma cstep_value c i c' e t :
  Inv c -> PInv P c -> st_value c + VGo P c < W ->
  nth_error (cf_threads c) i = Some t -> cstep mf c i = Some (c', e) ->
  PInv P c' /\
  st_value c' + VGo P c' = st_value c + VGo P c + P * xdrain (th_pc t) /\
  st_value c' + VPQ P c' + P * TXQ c = st_value c + VPQ P c + P * TXQ c'.
Proof.
  intros Hinv (Hpr & Hm & Hts) HV Hn Hstep.
  destruct (cstep_inv_ledger mf HI c i c' e t Hinv Hn Hstep) as (_ & _ & _ & Hpr').
  destruct (cstep_unfold mf _ _ _ _ Hstep) as (t0 & p' & s' & Hn0 & Ht & Ec').
  rewrite Hn in Hn0. assert (t0 = t) by congruence. subst t0. clear Hn0.
  pose proof (Forall_nth _ _ _ _ Hts Hn) as (Hpp & Htodo).
  destruct (tstep_price mf HI P _ _ _ _ _ Ht Hm Hpp) as (Hm' & Hpp').
  unfold st_value, VGo, VPQ, TXQ in *.
  subst c'. cbn [cf_sh cf_threads] in *.
  set (ts := cf_threads c) in *. set (s := cf_sh c) in *.
  set (t1 := mkThread p' (th_todo t) (th_rets t)).
  assert (Hp1 : tprice P t1) by (split; assumption).
  remember (settle_n (S (length (th_todo t))) (sh_price s') t1) as t' eqn:Et'.
  assert (M1 : vgo P (th_pc t') = vgo P p') by (subst t'; rewrite settle_vgo; reflexivity).
  assert (M2 : vpq P (th_pc t') = vpq P p') by (subst t'; rewrite settle_vpq; reflexivity).
  assert (M3 : ttxq t' = tsum ret_txq (th_rets t) + txq_pc p') by (subst t'; rewrite settle_ttxq; reflexivity).
  assert (M4 : tprice P t') by (subst t'; apply settle_tprice; exact Hp1).
  clear Et'.
  split.
  { unfold PInv. cbn [cf_sh cf_threads]. split; [congruence|]. split; [exact Hm'|]. apply Forall_update; assumption. }
  rewrite (tsum_split (fun t => vgo P (th_pc t)) i ts t Hn) in *.
  rewrite (tsum_split (fun t => vpq P (th_pc t)) i ts t Hn).
  rewrite (tsum_split ttxq i ts t Hn).
  rewrite (tsum_update (fun t => vgo P (th_pc t)) i ts t t' Hn),
          (tsum_update (fun t => vpq P (th_pc t)) i ts t t' Hn),
          (tsum_update ttxq i ts t t' Hn).
  rewrite M1, M2, M3. unfold ttxq.
  assert (HV1 : s_value (sh_st s) + vgo P (th_pc t) < W) by lia.
  destruct (tstep_V mf P _ _ _ _ _ Ht Hpp HV1) as (V1 & V2).
  rewrite !N.mul_add_distr_l. split; lia.
Qed.

Lemma exec_value sched : forall c g,
  Inv c -> PInv P c -> ValueBound P c ->
  let c' := fst (exec mf sched c) in
  st_value c' + VGo P c' + P * lg_exec g = st_value c + VGo P c + P * lg_exec (run_ledger mf sched c g) /\
  st_value c' + VPQ P c' + P * TXQ c = st_value c + VPQ P c + P * TXQ c' /\
  PInv P c' /\ ValueBound P c'.
Proof.
  induction sched as [|i rest IH]; intros c g Hc Hp Hb; cbn [exec run_ledger].
  - cbn [fst]. split; [lia|split; [lia|split; assumption]].
  - destruct (cstep mf c i) as [[c1 e]|] eqn:Hs.
    + destruct (cstep_thread mf _ _ _ _ Hs) as (t & Hn). rewrite Hn.
      unfold ValueBound in Hb.
      assert (HV : st_value c + VGo P c < W) by lia.
      destruct (cstep_value c i c1 e t Hc Hp HV Hn Hs) as (Hp1 & V1 & V2).
      destruct (cstep_inv_ledger mf HI c i c1 e t Hc Hn Hs) as (Hc1 & L1 & _).
      pose proof (xdrain_le_drain (th_pc t) (cf_sh c)) as Hx.
      pose proof (N.mul_le_mono_l _ _ P Hx) as Hx'.
      assert (Hb1 : ValueBound P c1).
      { unfold ValueBound. rewrite L1, N.mul_add_distr_l in Hb. lia. }
      specialize (IH c1 (lg_add g (drain_kind (th_pc t)) (drain (th_pc t) (cf_sh c))) Hc1 Hp1 Hb1).
      rewrite lg_exec_add, N.mul_add_distr_l in IH.
      destruct (exec mf rest c1) as [c2 tr]. cbn [fst] in *.
      destruct IH as (I1 & I2 & I3 & I4).
      split; [lia|split; [lia|split; assumption]].
    + destruct (nth_error (cf_threads c) i); apply IH; assumption.
Qed.

End ValueStep.

(* ---- quiescent and initial configurations ---- *)
Lemma quiescent_value P c : quiescent c = true -> VGo P c = 0 /\ VPQ P c = 0.
Proof.
  unfold quiescent. rewrite forallb_forall. intros H. unfold VGo, VPQ.
  split; apply tsum_zero; intros t Ht; destruct (thread_finished_pc t (H t Ht)) as (r & Hp & _);
    rewrite Hp; reflexivity.
Qed.

Lemma thread_init_value P price cs :
  vgo P (th_pc (thread_init price cs)) = 0 /\ vpq P (th_pc (thread_init price cs)) = 0.
Proof.
  destruct cs as [|c cs]; cbn [thread_init]; [split; reflexivity|].
  rewrite settle_vgo, settle_vpq. cbn [th_pc]. apply start_vplain.
Qed.

Lemma thread_init_tprice P price cs : Forall (call_price P) cs -> tprice P (thread_init price cs).
Proof.
  intros H. destruct cs as [|c cs]; cbn [thread_init].
  - split; [split; [constructor|exact I]|constructor].
  - inversion H; subst. apply settle_tprice. split; cbn [th_pc th_todo]; [apply start_price; assumption|assumption].
Qed.

Lemma init_value l gen progs :
  wf_prices l progs ->
  let c0 := init_config l gen progs in
  PInv (price l) c0 /\ VGo (price l) c0 = 0 /\ VPQ (price l) c0 = 0.
Proof.
  intros (Hm & Hps). unfold init_config, PInv, VGo, VPQ. cbn [cf_sh cf_threads shared_of_level sh_price sh_map].
  rewrite !tsum_map. split; [split; [reflexivity|split; [exact Hm|]]|split].
  - rewrite Forall_map. rewrite Forall_forall in *. intros cs Hcs. apply thread_init_tprice.
    apply Hps. exact Hcs.
  - apply tsum_zero. intros cs _. apply thread_init_value.
  - apply tsum_zero. intros cs _. apply thread_init_value.
Qed.

(* ---- statements as used by Properties/C15conc.v ---- *)
Lemma txsum_executed_quantity r : txsum (r_txs r) = executed_quantity r.
Proof.
  unfold executed_quantity.
  assert (H : forall l a, fold_left (fun a t => a + tx_qty t) l a = a + txsum l).
  { induction l as [|t l IH]; intros a; cbn [fold_left]; [change (txsum []) with 0; lia|].
    rewrite IH, txsum_cons. lia. }
  rewrite H. lia.
Qed.

Section StatsCors.
Variable mf : order -> N -> mres.
Hypothesis HI : I_cons mf.

(* every reachable configuration *)
Lemma exec_stats0 sched c0 :
  Inv c0 -> StatsBound c0 ->
  let c := fst (exec mf sched c0) in
  let tr := snd (exec mf sched c0) in
  st_added c + AddsGo c = st_added c0 + AddsGo c0 /\
  AddsDone c + AddsGo c = AddsDone c0 + AddsGo c0 /\
  st_removed c = st_removed c0 + count_ev is_removed_ev tr /\
  st_qty c + QGo c = st_qty c0 + QGo c0 + lg_exec (run_ledger mf sched c0 ledger0) /\
  st_qty c + PQ c + TXQ c0 = st_qty c0 + PQ c0 + TXQ c.
Proof.
  intros H0 Hb c tr. destruct (exec_stats mf HI sched c0 ledger0 H0 Hb) as (A & B & C & D & E & _).
  fold c in A, B, C, D, E. fold tr in C. cbn [lg_exec ledger0] in D.
  repeat split; try assumption. lia.
Qed.

Lemma exec_value0 P sched c0 :
  Inv c0 -> PInv P c0 -> ValueBound P c0 ->
  let c := fst (exec mf sched c0) in
  st_value c + VGo P c = st_value c0 + VGo P c0 + P * lg_exec (run_ledger mf sched c0 ledger0) /\
  st_value c + VPQ P c + P * TXQ c0 = st_value c0 + VPQ P c0 + P * TXQ c /\
  PInv P c.
Proof.
  intros H0 Hp Hb c. destruct (exec_value mf HI P sched c0 ledger0 H0 Hp Hb) as (A & B & C & _).
  fold c in A, B, C. cbn [lg_exec ledger0] in A. rewrite N.mul_0_r in A.
  split; [lia|split; [exact B|exact C]].
Qed.

(* which step bumps [orders_removed]: exactly the last step of a successful cancel / price move *)
Lemma cstep_removed c i c' e :
  cstep mf c i = Some (c', e) ->
  exists t p' s',
    nth_error (cf_threads c) i = Some t /\
    tstep mf (th_pc t) (cf_sh c) = Some (p', s', e) /\
    (is_removed_ev e = true <-> exists o, th_pc t = C5 o) /\
    (forall o, th_pc t = C5 o -> p' = Done (RetUpd (UOk (Some o)))).
Proof.
  intros Hs. destruct (cstep_unfold mf _ _ _ _ Hs) as (t & p' & s' & Hn & Ht & _).
  exists t, p', s'. destruct (tstep_removed mf _ _ _ _ _ Ht) as (A & B). auto.
Qed.

(* quiescence, from an initial configuration *)
Lemma init_quiescent_stats l gen progs sched :
  wf_progs l progs -> wf_stats l progs ->
  let c0 := init_config l gen progs in
  let c := fst (exec mf sched c0) in
  let tr := snd (exec mf sched c0) in
  quiescent c = true ->
  st_added c = s_added (st l) + prog_bc progs /\
  RetAdds c = prog_bc progs /\
  st_removed c = s_removed (st l) + count_ev is_removed_ev tr /\
  st_qty c = s_qty (st l) + RetTxq c /\
  RetTxq c = lg_exec (run_ledger mf sched c0 ledger0).
Proof.
  intros Hwf (B1 & B2 & B3 & B4) c0 c tr Hq.
  pose proof (init_Inv l gen progs Hwf) as H0. fold c0 in H0.
  destruct (init_stats l gen progs) as (I1 & I2 & I3 & I4 & I5 & I6 & I7 & I8 & I9). fold c0 in I1, I2, I3, I4, I5, I6, I7, I8, I9.
  destruct (init_Supplied l gen progs) as (S1 & S2). fold c0 in S1, S2.
  assert (Hb : StatsBound c0).
  { unfold StatsBound. rewrite I1, I5, I6, I7, I8, S1, S2. repeat split; lia. }
  destruct (exec_stats0 sched c0 H0 Hb) as (A & B & C & D & E). fold c in A, B, C, D, E. fold tr in C.
  destruct (quiescent_stats c Hq) as (Q1 & Q2 & Q3 & Q4 & Q5).
  rewrite Q1, Q2, Q3, Q4, Q5, I1, I2, I3, I4, I5, I6, I7, I8 in *.
  repeat split; lia.
Qed.

Lemma init_quiescent_value l gen progs sched :
  wf_progs l progs -> wf_stats l progs -> wf_prices l progs ->
  let c0 := init_config l gen progs in
  let c := fst (exec mf sched c0) in
  quiescent c = true ->
  st_value c = s_value (st l) + price l * RetTxq c /\
  PInv (price l) c.
Proof.
  intros Hwf (B1 & B2 & B3 & B4) Hpr c0 c Hq.
  pose proof (init_Inv l gen progs Hwf) as H0. fold c0 in H0.
  destruct (init_stats l gen progs) as (I1 & I2 & I3 & I4 & I5 & I6 & I7 & I8 & I9). fold c0 in I1, I2, I3, I4, I5, I6, I7, I8, I9.
  destruct (init_Supplied l gen progs) as (S1 & S2). fold c0 in S1, S2.
  destruct (init_value l gen progs Hpr) as (P0 & V1 & V2). fold c0 in P0, V1, V2.
  assert (Hb : ValueBound (price l) c0).
  { unfold ValueBound. rewrite V1, I9, S1. lia. }
  destruct (exec_value0 (price l) sched c0 H0 P0 Hb) as (A & B & C). fold c in A, B, C.
  destruct (quiescent_value (price l) c Hq) as (Q1 & Q2).
  destruct (quiescent_stats c Hq) as (_ & _ & _ & Q4 & _).
  rewrite Q2, Q4, V2, I3, I9, N.mul_0_r in B.
  split; [lia|exact C].
Qed.

End StatsCors.

Lemma init_quiescent_match_against l gen progs sched :
  wf_progs l progs -> wf_stats l progs -> wf_prices l progs ->
  let c0 := init_config l gen progs in
  let c := fst (exec match_against sched c0) in
  let tr := snd (exec match_against sched c0) in
  quiescent c = true ->
  st_added c = s_added (st l) + prog_bc progs /\
  st_removed c = s_removed (st l) + count_ev is_removed_ev tr /\
  st_qty c = s_qty (st l) + RetTxq c /\
  st_value c = s_value (st l) + price l * RetTxq c.
Proof.
  intros H1 H2 H3 c0 c tr Hq.
  destruct (init_quiescent_stats _ match_against_I_cons l gen progs sched H1 H2 Hq) as (A & _ & B & C & _).
  destruct (init_quiescent_value _ match_against_I_cons l gen progs sched H1 H2 H3 Hq) as (D & _).
  repeat split; assumption.
Qed.

From PL Require Import Spec.ConcExample.
Lemma ex_wf_all : wf_progs ex_level ex_progs /\ wf_stats ex_level ex_progs /\ wf_prices ex_level ex_progs.
Proof.
  split; [exact ex_wf|]. split.
  - unfold wf_stats. vm_compute. repeat split.
  - split; vm_compute; repeat constructor.
Qed.
