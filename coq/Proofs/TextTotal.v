(* TextTotal.v — C18: no text parser of the model panics on well-formed UTF-8
   (PPanic = slice off a boundary / out of range, index out of bounds, checked
   arithmetic overflow, or fuel of a position loop exhausted = non-termination). *)
From PL Require Import Model.Text Proofs.TextUtf8 Proofs.TextPrims.
From Coq Require Import Lia ZifyBool ZifyN.
Local Open Scope N_scope.

Definition np {A} (x : outcome A) : Prop := x <> PPanic.

Lemma np_ok : forall A (a : A), np (POk a).
Proof. intros A a H. discriminate. Qed.
Lemma np_err : forall A, np (@PErr A).
Proof. intros A H. discriminate. Qed.
Lemma np_of_opt : forall A (o : option A), np (of_opt o).
Proof. intros A [a|] H; discriminate. Qed.
Lemma np_bind : forall A B (x : outcome A) (f : A -> outcome B),
  np x -> (forall a, x = POk a -> np (f a)) -> np (bind x f).
Proof. intros A B [a| |] f Hx Hf; simpl; [apply Hf; reflexivity|apply np_err|exfalso; apply Hx; reflexivity]. Qed.

Lemma np_get_field : forall m k, np (get_field m k).
Proof. intros. apply np_of_opt. Qed.
Lemma np_get_u64 : forall m k, np (get_u64 m k).
Proof. intros. unfold get_u64. apply np_bind; [apply np_get_field|intros; apply np_of_opt]. Qed.
Lemma np_get_usize : forall m k, np (get_usize m k).
Proof. intros. unfold get_usize. apply np_bind; [apply np_get_field|intros; apply np_of_opt]. Qed.

Lemma np_map_o : forall A B (f : A -> outcome B) l, (forall x, np (f x)) -> np (map_o f l).
Proof.
  intros A B f l H. induction l as [|x l IH]; [apply np_ok|].
  simpl. apply np_bind; [apply H|]. intros y _. apply np_bind; [exact IH|]. intros; apply np_ok.
Qed.

Lemma idx_ok : forall A (l : list A) i, (i < length l)%nat -> exists a, idx l i = POk a.
Proof.
  intros A l i H. unfold idx, unwrap. destruct (nth_error l i) eqn:E; [eauto|].
  apply nth_error_None in E. lia.
Qed.

Lemma np_idx : forall A (l : list A) i, (i < length l)%nat -> np (idx l i).
Proof. intros A l i H. destruct (idx_ok A l i H) as [a ->]. apply np_ok. Qed.

(* a generic step: split binds / ifs / matches, close leaves with the hint lemmas *)
Ltac np_step :=
  first
    [ apply np_ok | apply np_err | apply np_of_opt | apply np_get_field | apply np_get_u64
    | apply np_get_usize
    | apply np_bind; [ | intros ? ? ]
    | match goal with |- np (if ?c then _ else _) => destruct c end
    | match goal with |- np (match ?x with _ => _ end) => destruct x end ].

(* ------------------------------------------------------------------ leaves *)

Lemma np_parse_side : forall s, np (parse_side s).
Proof. intro s. unfold parse_side. repeat np_step. Qed.

Lemma np_parse_tif : forall s, np (parse_tif s).
Proof.
  intro s. unfold parse_tif.
  repeat match goal with |- np (if ?c then _ else _) => destruct c; [apply np_ok|] end.
  destruct (starts_with _ _); [|apply np_err].
  destruct (Nat.eqb_spec (length (split "-"%char (upper s))) 2) as [E|E]; simpl; [|apply np_err].
  apply np_bind; [apply np_idx; lia|]. intros. repeat np_step.
Qed.

Lemma np_parse_peg : forall s, np (parse_peg s).
Proof. intro s. unfold parse_peg. repeat np_step. Qed.

Lemma np_parse_peg_exact : forall s, np (parse_peg_exact s).
Proof. intro s. unfold parse_peg_exact. repeat np_step. Qed.

Lemma np_parse_oid : forall s, np (parse_oid s).
Proof. intro s. unfold parse_oid. repeat np_step. Qed.

Lemma np_record_parts : forall s, np (record_parts s).
Proof.
  intro s. unfold record_parts.
  destruct (Nat.eqb_spec (length (split colon s)) 2) as [E|E]; simpl; [|apply np_err].
  apply np_bind; [apply np_idx; lia|]. intros. apply np_bind; [apply np_idx; lia|]. intros. apply np_ok.
Qed.

Ltac np_rec :=
  repeat first
    [ apply np_record_parts | apply np_parse_oid | apply np_parse_side | apply np_parse_tif
    | apply np_parse_peg_exact | np_step ].

(* ------------------------------------------------------------------ records *)

Theorem np_parse_order : forall s, np (parse_order s).
Proof. intro s. unfold parse_order. np_rec. Qed.

Theorem np_parse_update : forall s, np (parse_update s).
Proof. intro s. unfold parse_update. np_rec. Qed.

Theorem np_parse_txn : forall s, np (parse_txn s).
Proof. intro s. unfold parse_txn. np_rec. Qed.

Theorem np_parse_snapshot : forall s, np (parse_snapshot s).
Proof. intro s. unfold parse_snapshot. np_rec. Qed.

Theorem np_parse_stats : forall s, np (parse_stats s).
Proof. intro s. unfold parse_stats. np_rec. Qed.

(* ------------------------------------------------------------------ more UTF-8 facts *)

Lemma bnd_after_prefix : forall p s,
  utf8_valid s = true -> starts_with p s = true -> all_ascii p = true ->
  is_char_boundary s (length p) = true.
Proof.
  intros p s Hv Hp Ha. apply starts_with_split in Hp.
  remember (skipn (length p) s) as r eqn:Hr. clear Hr. subst s.
  rewrite valid_ascii_prefix in Hv by exact Ha.
  apply bnd_app. apply valid_starts_ok, Hv.
Qed.

Lemma utf8_app : forall x y, utf8_valid x = true -> utf8_valid y = true -> utf8_valid (x ++ y) = true.
Proof.
  intros x. remember (length x) as n eqn:Hn. revert x Hn.
  induction n as [n IH] using lt_wf_ind. intros x Hn y Hx Hy.
  destruct x as [|b0 x]; [exact Hy|].
  cbn [app utf8_valid] in Hx |- *.
  destruct (code b0 <? 128).
  { apply (IH (length x)); [simpl in Hn; lia|reflexivity|exact Hx|exact Hy]. }
  destruct ((194 <=? code b0) && (code b0 <=? 223)).
  { destruct x as [|b1 x]; [discriminate|]. cbn [app].
    apply andb_true_iff in Hx. destruct Hx as [H1 H2]. rewrite H1. simpl.
    apply (IH (length x)); [simpl in Hn; lia|reflexivity|exact H2|exact Hy]. }
  destruct ((224 <=? code b0) && (code b0 <=? 239)).
  { destruct x as [|b1 x]; [discriminate|]. destruct x as [|b2 x]; [discriminate|]. cbn [app].
    apply andb_true_iff in Hx. destruct Hx as [H1 H2]. rewrite H1. simpl.
    apply (IH (length x)); [simpl in Hn; lia|reflexivity|exact H2|exact Hy]. }
  destruct ((240 <=? code b0) && (code b0 <=? 244)); [|discriminate].
  destruct x as [|b1 x]; [discriminate|]. destruct x as [|b2 x]; [discriminate|].
  destruct x as [|b3 x]; [discriminate|]. cbn [app].
  apply andb_true_iff in Hx. destruct Hx as [H1 H2]. rewrite H1. simpl.
  apply (IH (length x)); [simpl in Hn; lia|reflexivity|exact H2|exact Hy].
Qed.

(* [good n v]: a well-formed string of at most n bytes *)
Definition good (n : nat) (v : str) : Prop := utf8_valid v = true /\ (length v <= n)%nat.

Lemma good_mono : forall n m v, (n <= m)%nat -> good n v -> good m v.
Proof. intros n m v H [A B]. split; [exact A|lia]. Qed.

Lemma split_find : forall c s,
  split c s = match find_char c s with
              | None => [s]
              | Some i => firstn i s :: split c (skipn (S i) s)
              end.
Proof.
  induction s as [|x s IH]; [reflexivity|].
  cbn [split find_char]. destruct (Ascii.eqb x c); [reflexivity|].
  rewrite IH. destruct (find_char c s) as [i|]; reflexivity.
Qed.

Lemma good_split : forall c s n, is_ascii c = true -> good n s -> Forall (good n) (split c s).
Proof.
  intros c s. remember (length s) as k eqn:Hk. revert s Hk.
  induction k as [k IH] using lt_wf_ind. intros s Hk n Hc [Hv Hl].
  rewrite split_find. destruct (find_char c s) as [i|] eqn:F.
  - apply find_char_some in F. destruct F as [F _].
    destruct (split_at s i c F) as [Hs Hi]. rewrite Hs in Hv.
    apply valid_after_ascii in Hv; [|exact Hc]. destruct Hv as [V1 V2].
    assert (Li : (i < length s)%nat) by (apply nth_error_Some; congruence).
    constructor.
    + split; [exact V1|]. rewrite firstn_length. lia.
    + apply (IH (length (skipn (S i) s))); [rewrite skipn_length; lia|reflexivity|exact Hc|].
      split; [exact V2|rewrite skipn_length; lia].
  - constructor; [split; assumption|constructor].
Qed.

Lemma splitn2_find : forall c s,
  splitn2 c s = match find_char c s with
                | None => (s, None)
                | Some i => (firstn i s, Some (skipn (S i) s))
                end.
Proof.
  induction s as [|x s IH]; [reflexivity|].
  cbn [splitn2 find_char]. destruct (Ascii.eqb x c); [reflexivity|].
  rewrite IH. destruct (find_char c s) as [i|]; reflexivity.
Qed.

Lemma good_splitn2 : forall c s n k v,
  is_ascii c = true -> good n s -> splitn2 c s = (k, Some v) -> good n v.
Proof.
  intros c s n k v Hc [Hv Hl] H. rewrite splitn2_find in H.
  destruct (find_char c s) as [i|] eqn:F; [|discriminate].
  assert (Ev : v = skipn (S i) s) by congruence. clear H.
  apply find_char_some in F. destruct F as [F _].
  destruct (split_at s i c F) as [Hs Hi]. rewrite Hs in Hv.
  apply valid_after_ascii in Hv; [|exact Hc]. destruct Hv as [V1 V2].
  rewrite Ev. split; [exact V2|]. rewrite skipn_length. lia.
Qed.

Lemma good_slice : forall s a b r n, good n s -> slice s a b = Some r -> good n r.
Proof.
  intros s a b r n [Hv Hl] H. split; [eapply slice_valid; eauto|].
  apply slice_some in H. destruct H as [-> _]. rewrite firstn_length, skipn_length. lia.
Qed.

Lemma slice_o_ok : forall s a b,
  (a <= b)%nat -> (b <= length s)%nat ->
  is_char_boundary s a = true -> is_char_boundary s b = true ->
  slice_o s a b = POk (firstn (b - a) (skipn a s)).
Proof. intros. unfold slice_o. rewrite slice_ok by assumption. reflexivity. Qed.

Lemma slice_o_inv : forall s a b r, slice_o s a b = POk r -> slice s a b = Some r.
Proof. intros s a b r H. unfold slice_o, unwrap in H. destruct (slice s a b); [congruence|discriminate]. Qed.

Lemma nth_error_firstn_lt : forall (l : str) n k, (k < n)%nat -> nth_error (firstn n l) k = nth_error l k.
Proof.
  induction l as [|x l IH]; intros n k H; [rewrite firstn_nil; reflexivity|].
  destruct n; [lia|]. destruct k; [reflexivity|]. simpl. apply IH. lia.
Qed.

Lemma ends_with_last : forall s c, ends_with [c] s = true ->
  (1 <= length s)%nat /\ nth_error s (length s - 1) = Some c.
Proof.
  intros s c H. apply ends_with_split in H. destruct H as [r ->].
  rewrite app_length. simpl. split; [lia|].
  rewrite nth_error_app2 by lia. replace (length r + 1 - 1 - length r)%nat with 0%nat by lia. reflexivity.
Qed.

Lemma starts_with_nth : forall p s i c,
  starts_with p s = true -> nth_error p i = Some c -> nth_error s i = Some c.
Proof.
  intros p s i c H E. apply starts_with_split in H. rewrite H.
  rewrite nth_error_app1; [exact E|]. apply nth_error_Some. congruence.
Qed.

Lemma starts_with_length : forall p s, starts_with p s = true -> (length p <= length s)%nat.
Proof. intros p s H. apply starts_with_split in H. rewrite H, app_length. lia. Qed.

(* ------------------------------------------------------------------ i32 counters *)

Definition LIM : Z := 2147483648.     (* 2^31 *)

Lemma i32_inc_ok : forall d, (d + 1 < LIM)%Z -> i32_inc d = POk (d + 1)%Z.
Proof. intros d H. unfold i32_inc, I32_MAX, LIM in *. destruct (Z.leb_spec (d + 1) 2147483647); [reflexivity|lia]. Qed.

Lemma i32_dec_ok : forall d, (- LIM < d - 1)%Z -> i32_dec d = POk (d - 1)%Z.
Proof. intros d H. unfold i32_dec, I32_MIN, LIM in *. destruct (Z.leb_spec (-2147483648) (d - 1)); [reflexivity|lia]. Qed.

(* ------------------------------------------------------------------ TransactionList *)

Lemma np_txl_loop : forall rest depth rcur acc,
  (Z.abs depth + Z.of_nat (length rest) < LIM)%Z -> np (txl_loop rest depth rcur acc).
Proof.
  induction rest as [|c r IH]; intros depth rcur acc H.
  - simpl. destruct (is_empty rcur); [apply np_ok|].
    apply np_bind; [apply np_parse_txn|intros; apply np_ok].
  - cbn [txl_loop]. cbn [length] in H.
    destruct (Ascii.eqb c comma && (depth =? 0)%Z).
    { destruct (is_empty rcur); [apply IH; lia|].
      apply np_bind; [apply np_parse_txn|]. intros. apply IH. lia. }
    destruct (Ascii.eqb c lbr).
    { rewrite i32_inc_ok by lia. simpl. apply IH. lia. }
    destruct (Ascii.eqb c rbr).
    { rewrite i32_dec_ok by lia. simpl. apply IH. lia. }
    apply IH. lia.
Qed.

Theorem np_parse_txlist : forall s,
  utf8_valid s = true -> (Z.of_nat (length s) < LIM)%Z -> np (parse_txlist s).
Proof.
  intros s Hv Hl. unfold parse_txlist.
  destruct (negb (starts_with _ s) || negb (ends_with [rbr] s)); [apply np_err|].
  destruct (find_char lbr s) as [cs|] eqn:F; [|apply np_err]. cbn [of_opt bind].
  destruct (rfind_char rbr s) as [ce|] eqn:R; [|apply np_err]. cbn [of_opt bind].
  destruct (Nat.leb_spec ce cs); [apply np_err|].
  apply find_char_some in F. destruct F as [F _].
  apply rfind_char_some in R. destruct R as [R Rl].
  rewrite slice_o_ok; [|lia|lia|eapply bnd_S_nth; eauto|eapply bnd_nth; eauto].
  cbn [bind]. destruct (is_empty _); [apply np_ok|].
  apply np_txl_loop. rewrite firstn_length, skipn_length. simpl. lia.
Qed.

(* ------------------------------------------------------------------ OrderQueue *)

Theorem np_parse_queue : forall s, utf8_valid s = true -> np (parse_queue s).
Proof.
  intros s Hv. unfold parse_queue.
  destruct (starts_with $"OrderQueue:orders=[" s) eqn:S1; [|apply np_err].
  destruct (ends_with [rbr] s) eqn:S2; [|apply np_err]. cbn [negb orb].
  destruct (ends_with_last s rbr S2) as [L1 L2].
  pose proof (starts_with_length _ _ S1) as L3. cbn [length list_ascii_of_string] in L3.
  unfold usub. destruct (Nat.leb_spec 1 (length s)); [|lia]. cbn [bind].
  assert (L4 : length s <> 19%nat).
  { intro E. rewrite E in L2. cbn [Nat.sub] in L2.
    rewrite (starts_with_nth _ s 18 lbr S1 eq_refl) in L2. discriminate. }
  rewrite slice_o_ok; [|lia|lia|apply (bnd_after_prefix $"OrderQueue:orders=[" s Hv S1 eq_refl)|eapply bnd_nth; eauto].
  cbn [bind]. destruct (is_empty _); [apply np_ok|].
  apply np_map_o. apply np_parse_order.
Qed.


Lemma skipn_cons_inv : forall (l : str) i c r,
  skipn i l = c :: r -> nth_error l i = Some c /\ skipn (S i) l = r /\ (i < length l)%nat.
Proof.
  induction l as [|x l IH]; intros i c r H.
  - rewrite skipn_nil in H. discriminate.
  - destruct i.
    + simpl in H. inversion H; subst. simpl. repeat split; lia.
    + simpl in H. destruct (IH i c r H) as [A [B C]]. simpl. repeat split; auto; lia.
Qed.

Lemma np_inv : forall A (x : outcome A), np x -> x = PPanic -> False.
Proof. intros A x H E. apply H, E. Qed.

