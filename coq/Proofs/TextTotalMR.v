(* TextTotalMR.v — C18 for MatchResult::from_str, and the repaired defect. *)
From PL Require Import Model.Text Proofs.TextUtf8 Proofs.TextPrims Proofs.TextTotal.
From Coq Require Import Lia ZifyBool ZifyN.
Local Open Scope N_scope.

(* ------------------------------------------------------------------ MatchResult *)

Lemma scan_semi_spec : forall rest pos p found,
  scan_semi rest pos = (p, found) ->
  (pos <= p)%nat /\ (p <= pos + length rest)%nat /\
  (found = true -> nth_error rest (p - pos) = Some semi) /\
  (found = false -> p = (pos + length rest)%nat).
Proof.
  induction rest as [|c r IH]; intros pos p found H.
  - simpl in H. inversion H; subst. simpl.
    split; [lia|]. split; [lia|]. split; [discriminate|intros _; lia].
  - cbn [scan_semi] in H. destruct (Ascii.eqb c semi) eqn:E.
    + inversion H; subst. apply Ascii.eqb_eq in E. subst. cbn [length].
      split; [lia|]. split; [lia|]. split; [intros _; rewrite Nat.sub_diag; reflexivity|discriminate].
    + destruct (IH _ _ _ H) as [A [B [C D]]]. cbn [length].
      split; [lia|]. split; [lia|]. split.
      * intro Hf. specialize (C Hf). replace (p - pos)%nat with (S (p - S pos)) by lia. exact C.
      * intro Hf. specialize (D Hf). lia.
Qed.

Lemma fnf_inv : forall s start,
  utf8_valid s = true -> (start <= length s)%nat -> is_char_boundary s start = true ->
  exists v nxt, find_next_field s start = POk (v, nxt) /\ good (length s) v /\
     (start <= nxt)%nat /\ (nxt <= length s)%nat /\ is_char_boundary s nxt = true.
Proof.
  intros s start Hv Hs Hb. unfold find_next_field.
  destruct (Nat.ltb_spec (length s) start); [lia|].
  destruct (scan_semi (skipn start s) start) as [p found] eqn:E.
  destruct (scan_semi_spec _ _ _ _ E) as [A [B [C D]]]. rewrite skipn_length in B, D.
  assert (Bp : is_char_boundary s p = true /\ (p <= length s)%nat /\
               (found = true -> nth_error s p = Some semi)).
  { destruct found.
    - specialize (C eq_refl). rewrite nth_error_skipn' in C.
      replace (start + (p - start))%nat with p in C by lia.
      split; [eapply bnd_nth; eauto|]. split; [|auto].
      apply Nat.lt_le_incl. apply nth_error_Some. congruence.
    - specialize (D eq_refl). replace p with (length s) by lia. split; [apply bnd_len|]. split; [lia|discriminate]. }
  destruct Bp as [Bp [Lp Np]].
  rewrite slice_o_ok by (try lia; assumption). cbn [bind].
  eexists. eexists. split; [reflexivity|].
  split. { eapply good_slice; [split; [exact Hv|apply le_n]|]. apply slice_ok; try lia; assumption. }
  destruct found.
  - specialize (Np eq_refl). assert (p < length s)%nat by (apply nth_error_Some; congruence).
    repeat split; try lia. eapply bnd_S_nth; eauto.
  - repeat split; try lia; try exact Bp.
Qed.

Lemma bscan_inv : forall rest i depth,
  (1 <= depth)%Z -> (depth + Z.of_nat (length rest) < LIM)%Z ->
  match bscan rest i depth with
  | POk (Some j) => (i <= j)%nat /\ (j < i + length rest)%nat /\ nth_error rest (j - i) = Some rbr
  | POk None => True
  | PErr => True
  | PPanic => False
  end.
Proof.
  induction rest as [|c r IH]; intros i depth H1 H2; [exact I|].
  cbn [bscan]. cbn [length] in H2 |- *.
  destruct (Ascii.eqb c rbr) eqn:E.
  - apply Ascii.eqb_eq in E. subst c. cbv zeta.
    destruct (Z.eqb_spec (depth - 1) 0).
    + split; [lia|]. split; [lia|]. rewrite Nat.sub_diag. reflexivity.
    + specialize (IH (S i) (depth - 1)%Z ltac:(lia) ltac:(lia)).
      destruct (bscan r (S i) (depth - 1)) as [[j|]| |]; auto.
      destruct IH as [A [B C]]. split; [lia|]. split; [lia|].
      replace (j - i)%nat with (S (j - S i)) by lia. exact C.
  - destruct (Ascii.eqb c lbr).
    + rewrite i32_inc_ok by lia. cbn [bind].
      specialize (IH (S i) (depth + 1)%Z ltac:(lia) ltac:(lia)).
      destruct (bscan r (S i) (depth + 1)) as [[j|]| |]; auto.
      destruct IH as [A [B C]]. split; [lia|]. split; [lia|].
      replace (j - i)%nat with (S (j - S i)) by lia. exact C.
    + specialize (IH (S i) depth ltac:(lia) ltac:(lia)).
      destruct (bscan r (S i) depth) as [[j|]| |]; auto.
      destruct IH as [A [B C]]. split; [lia|]. split; [lia|].
      replace (j - i)%nat with (S (j - S i)) by lia. exact C.
Qed.

Definition BSC : str -> nat -> outcome (option nat) := fun s i => bscan (skipn i s) i 1%Z.

Lemma bracket_value_inv : forall s pos1 open strict,
  utf8_valid s = true -> (Z.of_nat (length s) < LIM)%Z ->
  is_char_boundary s pos1 = true -> (pos1 < open)%nat -> (open <= length s)%nat ->
  match bracket_value BSC s pos1 open strict with
  | POk (v, nxt) =>
      good (length s) v /\ (pos1 < nxt)%nat /\ (nxt <= length s)%nat /\ is_char_boundary s nxt = true /\
      (2 <= length v)%nat /\ nth_error v 0 = nth_error s pos1 /\ nth_error v (length v - 1) = Some rbr
  | PErr => True
  | PPanic => False
  end.
Proof.
  intros s pos1 open strict Hv Hl Hb Ho Hol. unfold bracket_value, BSC.
  pose proof (bscan_inv (skipn open s) open 1%Z ltac:(lia)) as H.
  rewrite skipn_length in H. specialize (H ltac:(lia)).
  destruct (bscan (skipn open s) open 1) as [[j|]| |]; cbn [bind]; auto.
  destruct H as [A [B C]]. rewrite nth_error_skipn' in C.
  replace (open + (j - open))%nat with j in C by lia.
  assert (Lj : (j < length s)%nat) by (apply nth_error_Some; congruence).
  assert (Bj : is_char_boundary s (S j) = true) by (eapply bnd_S_nth; eauto).
  rewrite slice_o_ok; [|lia|lia|exact Hb|exact Bj]. cbn [bind].
  set (v := firstn (S j - pos1) (skipn pos1 s)).
  assert (Gv : good (length s) v).
  { eapply good_slice; [split; [exact Hv|apply le_n]|]. apply slice_ok; [lia|lia|exact Hb|exact Bj]. }
  assert (Lv : length v = (S j - pos1)%nat) by (unfold v; rewrite firstn_length, skipn_length; lia).
  assert (V0 : nth_error v 0 = nth_error s pos1).
  { unfold v. rewrite nth_error_firstn_lt by lia. rewrite nth_error_skipn'. f_equal. lia. }
  assert (V1 : nth_error v (length v - 1) = Some rbr).
  { rewrite Lv. unfold v. rewrite nth_error_firstn_lt by lia. rewrite nth_error_skipn'.
    replace (pos1 + (S j - pos1 - 1))%nat with j by lia. exact C. }
  destruct (Nat.ltb_spec (S j) (length s)).
  - rewrite slice_o_ok; [|lia|lia|exact Bj|apply bnd_len]. cbn [bind].
    replace (firstn (length s - S j) (skipn (S j) s)) with (skipn (S j) s)
      by (symmetry; apply firstn_all2; rewrite skipn_length; lia).
    destruct (starts_with [semi] (skipn (S j) s)) eqn:Ss.
    + pose proof (starts_with_nth _ _ 0 semi Ss eq_refl) as N. rewrite nth_error_skipn', Nat.add_0_r in N.
      repeat split; try lia; try assumption; try apply Gv. eapply bnd_S_nth; eauto.
    + destruct strict; [exact I|]. repeat split; try lia; try assumption; apply Gv.
  - repeat split; try lia; try assumption; apply Gv.
Qed.

Definition good_f (n : nat) (f : mrf) : Prop :=
  (forall v, f_txs f = Some v -> good n v) /\
  (forall v, f_filled f = Some v ->
     good n v /\ (2 <= length v)%nat /\ nth_error v 0 = Some lbr /\ nth_error v (length v - 1) = Some rbr).

Lemma mr_loop_inv : forall fuel s pos f,
  utf8_valid s = true -> (Z.of_nat (length s) < LIM)%Z ->
  (pos <= length s)%nat -> is_char_boundary s pos = true -> (length s - pos < fuel)%nat ->
  good_f (length s) f ->
  match mr_loop find_next_field BSC fuel s pos f with
  | POk f' => good_f (length s) f'
  | PErr => True
  | PPanic => False
  end.
Proof.
  induction fuel as [|fuel IH]; intros s pos f Hv Hl Hp Hb Hf Hg.
  - simpl. destruct (Nat.leb_spec (length s) pos); [exact Hg|lia].
  - cbn [mr_loop]. destruct (Nat.leb_spec (length s) pos); [exact Hg|].
    rewrite slice_o_ok; [|lia|lia|exact Hb|apply bnd_len]. cbn [bind].
    replace (firstn (length s - pos) (skipn pos s)) with (skipn pos s)
      by (symmetry; apply firstn_all2; rewrite skipn_length; lia).
    destruct (find_char eq_c (skipn pos s)) as [k|] eqn:Fe; [|exact I]. cbn [of_opt bind].
    apply find_char_some in Fe. destruct Fe as [Fe _]. rewrite nth_error_skipn' in Fe.
    assert (Lk : (pos + k < length s)%nat) by (apply nth_error_Some; congruence).
    rewrite slice_o_ok; [|lia|lia|exact Hb|eapply bnd_nth; eauto]. cbn [bind].
    assert (B1 : is_char_boundary s (S (pos + k)) = true) by (eapply bnd_S_nth; eauto).
    set (pos1 := S (pos + k)) in *.
    destruct Hg as [Gt Gf].
    destruct (str_eqb _ $"order_id").
    { destruct (fnf_inv s pos1 Hv ltac:(lia) B1) as [v [nxt [E [Gv [A [B C]]]]]].
      rewrite E. cbn [bind]. apply IH; auto; try lia. split; assumption. }
    destruct (str_eqb _ $"remaining_quantity").
    { destruct (fnf_inv s pos1 Hv ltac:(lia) B1) as [v [nxt [E [Gv [A [B C]]]]]].
      rewrite E. cbn [bind]. apply IH; auto; try lia. split; assumption. }
    destruct (str_eqb _ $"is_complete").
    { destruct (fnf_inv s pos1 Hv ltac:(lia) B1) as [v [nxt [E [Gv [A [B C]]]]]].
      rewrite E. cbn [bind]. apply IH; auto; try lia. split; assumption. }
    destruct (str_eqb _ $"transactions").
    { rewrite slice_o_ok; [|lia|lia|exact B1|apply bnd_len]. cbn [bind].
      replace (firstn (length s - pos1) (skipn pos1 s)) with (skipn pos1 s)
        by (symmetry; apply firstn_all2; rewrite skipn_length; lia).
      destruct (starts_with $"Transactions:[" (skipn pos1 s)) eqn:St; [|exact I]. cbn [negb].
      pose proof (starts_with_length _ _ St) as L14. rewrite skipn_length in L14.
      cbn [length list_ascii_of_string] in L14.
      pose proof (bracket_value_inv s pos1 (pos1 + 14) true Hv Hl B1 ltac:(lia) ltac:(lia)) as Hbv.
      destruct (bracket_value BSC s pos1 (pos1 + 14) true) as [[v nxt]| |]; cbn [bind]; auto.
      destruct Hbv as [Gv [A [B [C _]]]].
      apply IH; auto; try lia. split; cbn [f_txs f_filled]; [|exact Gf].
      intros v' Ev. inversion Ev; subst. exact Gv. }
    destruct (str_eqb _ $"filled_order_ids"); [|exact I].
    rewrite slice_o_ok; [|lia|lia|exact B1|apply bnd_len]. cbn [bind].
    replace (firstn (length s - pos1) (skipn pos1 s)) with (skipn pos1 s)
      by (symmetry; apply firstn_all2; rewrite skipn_length; lia).
    destruct (starts_with [lbr] (skipn pos1 s)) eqn:St; [|exact I]. cbn [negb].
    pose proof (starts_with_length _ _ St) as L1. rewrite skipn_length in L1. cbn [length] in L1.
    pose proof (starts_with_nth _ _ 0 lbr St eq_refl) as N0. rewrite nth_error_skipn', Nat.add_0_r in N0.
    pose proof (bracket_value_inv s pos1 (pos1 + 1) false Hv Hl B1 ltac:(lia) ltac:(lia)) as Hbv.
    destruct (bracket_value BSC s pos1 (pos1 + 1) false) as [[v nxt]| |]; cbn [bind]; auto.
    destruct Hbv as [Gv [A [B [C [D [E F]]]]]].
    apply IH; auto; try lia. split; cbn [f_txs f_filled]; [exact Gt|].
    intros v' Ev. inversion Ev; subst. repeat split; try apply Gv; try assumption. congruence.
Qed.

Theorem np_parse_match_result : forall s,
  utf8_valid s = true -> (Z.of_nat (length s) < LIM)%Z -> np (parse_match_result s).
Proof.
  intros s Hv Hl. unfold parse_match_result, parse_match_result_gen.
  destruct (starts_with $"MatchResult:" s) eqn:S1; [|apply np_err]. cbn [negb].
  pose proof (starts_with_length _ _ S1) as L1. cbn [length list_ascii_of_string] in L1.
  pose proof (mr_loop_inv (S (length s)) s 12 mrf0 Hv Hl ltac:(lia)
                (bnd_after_prefix $"MatchResult:" s Hv S1 eq_refl) ltac:(lia)) as H.
  specialize (H ltac:(split; intros v E; discriminate E)).
  change (fun s0 i => bscan (skipn i s0) i 1%Z) with BSC.
  destruct (mr_loop find_next_field BSC (S (length s)) s 12 mrf0) as [f| |]; [|apply np_err|destruct H].
  cbn [bind]. destruct H as [Gt Gf].
  destruct (f_oid f) as [oid_s|]; [|apply np_err].
  destruct (f_rem f) as [rem_s|]; [|apply np_err].
  destruct (f_comp f) as [comp_s|]; [|apply np_err].
  destruct (f_txs f) as [txs_s|]; [|apply np_err].
  destruct (f_filled f) as [filled_s|]; [|apply np_err]. cbn [of_opt bind].
  destruct (Gt _ eq_refl) as [Vt Lt].
  destruct (Gf _ eq_refl) as [[Vf Lf] [L2 [N0 N1]]].
  apply np_bind; [apply np_parse_oid|]. intros k _.
  apply np_bind; [apply np_of_opt|]. intros rem _.
  apply np_bind; [apply np_of_opt|]. intros comp _.
  apply np_bind; [apply np_parse_txlist; [exact Vt|lia]|]. intros txs _.
  apply np_bind; [|intros; apply np_ok].
  destruct (str_eqb filled_s $"[]"); [apply np_ok|].
  unfold usub. destruct (Nat.leb_spec 1 (length filled_s)); [|lia]. cbn [bind].
  rewrite slice_o_ok; [|lia|lia|apply (bnd_S_nth filled_s 0 lbr Vf N0 eq_refl)|eapply bnd_nth; eauto].
  cbn [bind]. destruct (is_empty _); [apply np_ok|]. apply np_map_o, np_parse_oid.
Qed.

(* The defect repaired by "compare bytes in MatchResult::from_str": the scanner as it
   was sliced the input at every byte offset and panics inside a multi-byte character. *)
Definition witness_F4 : str := $"MatchResult:order_id=" ++ [ascii_of_N 195; ascii_of_N 169].

Lemma old_scanner_panics :
  utf8_valid witness_F4 = true /\ parse_match_result_old witness_F4 = PPanic /\
  parse_match_result witness_F4 = PErr.
Proof. vm_compute. repeat split. Qed.
