(* TextRound.v — C16: parse_T (print_T v) = POk v for the leaf types and the
   record-shaped codecs (order, update, transaction, snapshot summary, statistics). *)
From PL Require Import Model.Text Proofs.TextUtf8 Proofs.TextPrims.
From Coq Require Import Lia ZifyBool ZifyN.
Local Open Scope N_scope.

(* ------------------------------------------------------------------ well-formed values *)

Definition wf_oid (k : oid) : Prop := match k with Uuid u | Ulid u => u < U128 end.
Definition wf_tif (t : tif) : Prop := match t with Gtd e => e < W | _ => True end.
Definition wf_i64 (z : Z) : Prop := (- Z.of_N I64_LIM <= z < Z.of_N I64_LIM)%Z.
Definition wf_common (c : common) : Prop :=
  wf_oid (c_id c) /\ c_price c < W /\ c_ts c < W /\ wf_tif (c_tif c).

(* every field fits its machine type (u64 / i64 / 128-bit id) *)
Definition wf_order_text (o : order) : Prop :=
  wf_common (com o) /\
  match o with
  | Standard _ q | PostOnly _ q | MarketToLimit _ q => q < W
  | Iceberg _ v h => v < W /\ h < W
  | TrailingStop _ q tr lr => q < W /\ tr < W /\ lr < W
  | Pegged _ q off _ => q < W /\ wf_i64 off
  | Reserve _ v h thr amt _ =>
      v < W /\ h < W /\ thr < W /\ match amt with Some a => a < W | None => True end
  end.

Definition wf_update (u : update) : Prop :=
  match u with
  | UpdatePrice k np => wf_oid k /\ np < W
  | UpdateQuantity k nq => wf_oid k /\ nq < W
  | UpdatePriceAndQuantity k np nq => wf_oid k /\ np < W /\ nq < W
  | Cancel k => wf_oid k
  | Replace k p q _ => wf_oid k /\ p < W /\ q < W
  end.

Definition wf_txn (t : txn) : Prop :=
  t_id t < U128 /\ wf_oid (t_taker t) /\ wf_oid (t_maker t) /\
  t_price t < W /\ t_qty t < W /\ t_ts t < W.

Definition wf_snap (x : snap_sum) : Prop :=
  ss_price x < W /\ ss_vis x < W /\ ss_hid x < W /\ ss_cnt x < W.

Definition wf_stats (x : stats_text) : Prop :=
  x_added x < W /\ x_removed x < W /\ x_executed x < W /\ x_qty x < W /\
  x_value x < W /\ x_last x < W /\ x_first x < W /\ x_wait x < W.

(* ------------------------------------------------------------------ leaves *)

Theorem rt_side : forall s, parse_side (print_side s) = POk s.
Proof. intros [|]; reflexivity. Qed.

Lemma print_side_clean : forall s, clean (print_side s) = true.
Proof. intros [|]; reflexivity. Qed.

Theorem rt_peg : forall p, parse_peg (print_peg p) = POk p.
Proof. intros [| | |]; reflexivity. Qed.

Lemma rt_peg_exact : forall p, parse_peg_exact (print_peg p) = POk p.
Proof. intros [| | |]; reflexivity. Qed.

Lemma print_peg_clean : forall p, clean (print_peg p) = true.
Proof. intros [| | |]; reflexivity. Qed.

(* characters to_uppercase leaves alone: ASCII below 'a' *)
Definition up_fixed (c : ascii) : bool := code c <? 97.

Lemma upper_fixed : forall s, forallb up_fixed s = true -> upper s = s.
Proof.
  induction s as [|c s IH]; intro H; [reflexivity|].
  simpl in H. apply andb_true_iff in H. destruct H as [H1 H2]. unfold up_fixed in H1.
  cbn [upper]. destruct (N.eqb_spec (code c) 197); [lia|]. destruct (N.eqb_spec (code c) 196); [lia|].
  unfold ascii_upper. destruct ((97 <=? code c) && (code c <=? 122)) eqn:E; [lia|].
  rewrite (IH H2). reflexivity.
Qed.

Lemma digit_up_fixed : forall s, forallb is_digit s = true -> forallb up_fixed s = true.
Proof. intro s. apply forallb_imp. intros c. unfold is_digit, up_fixed. lia. Qed.

Lemma digits_notin : forall c s, is_digit c = false -> forallb is_digit s = true -> notin c s = true.
Proof.
  intros c s Hc. apply forallb_imp. intros x Hx.
  destruct (Ascii.eqb x c) eqn:E; [|reflexivity]. apply Ascii.eqb_eq in E. subst. congruence.
Qed.

Theorem rt_tif : forall t, wf_tif t -> parse_tif (print_tif t) = POk t.
Proof.
  intros [| | |e|] H; try reflexivity.
  simpl in H. unfold parse_tif, print_tif.
  rewrite upper_fixed.
  2:{ rewrite forallb_app. rewrite (digit_up_fixed _ (print_N_digits e)). reflexivity. }
  change ($"GTD-") with ("G"%char :: "T"%char :: "D"%char :: "-"%char :: []).
  cbn [app str_eqb].
  change (Ascii.eqb "G" "G") with true. change (Ascii.eqb "T" "T") with true.
  change (Ascii.eqb "G" "I") with false. change (Ascii.eqb "G" "F") with false.
  change (Ascii.eqb "G" "D") with false. change (Ascii.eqb "D" "C") with false.
  cbn [andb].
  change ("G"%char :: "T"%char :: "D"%char :: "-"%char :: print_N e)
    with (("G"%char :: "T"%char :: "D"%char :: "-"%char :: []) ++ print_N e).
  rewrite starts_with_app.
  change (("G"%char :: "T"%char :: "D"%char :: "-"%char :: []) ++ print_N e)
    with (("G"%char :: "T"%char :: "D"%char :: []) ++ "-"%char :: print_N e).
  rewrite split_app by reflexivity.
  rewrite split_notin by (apply digits_notin; [reflexivity|apply print_N_digits]).
  cbn [length Nat.eqb negb idx nth_error unwrap bind].
  rewrite parse_u64_print by exact H. reflexivity.
Qed.

Lemma print_tif_clean : forall t, clean (print_tif t) = true.
Proof.
  intros [| | |e|]; try reflexivity. unfold print_tif. rewrite clean_app, print_N_clean. reflexivity.
Qed.

Theorem rt_oid : forall k, wf_oid k -> parse_oid (print_oid k) = POk k.
Proof. exact parse_print_oid. Qed.

(* ------------------------------------------------------------------ record machinery *)

Ltac clean_fields :=
  cbn [forallb app common_fields common_tail]; unfold clean_kv; cbn [fst snd];
  rewrite ?print_oid_clean, ?print_N_clean, ?print_side_clean, ?print_tif_clean, ?print_Z_clean,
          ?print_peg_clean, ?print_bool_clean, ?print_uuid_clean;
  reflexivity.

(* closed string comparisons *)
Ltac eval_str_eqb :=
  repeat match goal with
         | |- context [str_eqb ?a ?b] =>
             let r := eval vm_compute in (str_eqb a b) in
             match r with
             | true => change (str_eqb a b) with true
             | false => change (str_eqb a b) with false
             end
         end.

Ltac resolve_gets :=
  repeat match goal with
         | |- context [get ?k ?m] =>
             let r := eval cbv [get str_eqb Ascii.eqb Bool.eqb andb list_ascii_of_string] in (get k m) in
             change (get k m) with r
         end.

(* after unfolding a record parser applied to a printed record *)
Ltac open_record :=
  rewrite record_parts_print by (first [reflexivity | clean_fields]);
  cbn [bind];
  rewrite parse_print_fields by (first [discriminate | clean_fields]);
  cbv zeta; unfold get_u64, get_usize, get_field;
  cbn [rev app common_fields common_tail];
  resolve_gets;
  cbn [of_opt bind].

Lemma print_N_not_None : forall n, str_eqb (print_N n) $"None" = false.
Proof.
  intro n. pose proof (print_N_nonempty n) as NE. pose proof (print_N_digits n) as D.
  destruct (print_N n) as [|c t]; [congruence|].
  simpl in D. apply andb_true_iff in D. destruct D as [Dc _].
  cbn [str_eqb list_ascii_of_string]. rewrite (digit_not c "N"%char eq_refl Dc). reflexivity.
Qed.

(* ------------------------------------------------------------------ OrderType *)

Theorem rt_order : forall o, wf_order_text o -> parse_order (print_order o) = POk o.
Proof.
  intros o [[Hid [Hp [Hts Htif]]] Ho].
  destruct o as [c q|c v h|c q|c q tr lr|c q off pt|c q|c v h thr amt auto];
    cbn [com] in *; destruct c as [id prc sd ts tf]; cbn [c_id c_price c_side c_ts c_tif] in *;
    unfold parse_order, print_order.
  - open_record.
    rewrite rt_oid, parse_u64_print, rt_side, parse_u64_print, rt_tif by assumption. cbn [bind of_opt].
    eval_str_eqb. cbv iota. cbn [bind of_opt].
    rewrite parse_u64_print by assumption. reflexivity.
  - destruct Ho as [Hv Hh]. open_record.
    rewrite rt_oid, parse_u64_print, rt_side, parse_u64_print, rt_tif by assumption. cbn [bind of_opt].
    eval_str_eqb. cbv iota. cbn [bind of_opt].
    rewrite !parse_u64_print by assumption. reflexivity.
  - open_record.
    rewrite rt_oid, parse_u64_print, rt_side, parse_u64_print, rt_tif by assumption. cbn [bind of_opt].
    eval_str_eqb. cbv iota. cbn [bind of_opt].
    rewrite parse_u64_print by assumption. reflexivity.
  - destruct Ho as [Hq [Htr Hlr]]. open_record.
    rewrite rt_oid, parse_u64_print, rt_side, parse_u64_print, rt_tif by assumption. cbn [bind of_opt].
    eval_str_eqb. cbv iota. cbn [bind of_opt].
    rewrite !parse_u64_print by assumption. reflexivity.
  - destruct Ho as [Hq Hoff]. open_record.
    rewrite rt_oid, parse_u64_print, rt_side, parse_u64_print, rt_tif by assumption. cbn [bind of_opt].
    eval_str_eqb. cbv iota. cbn [bind of_opt].
    rewrite parse_u64_print by assumption. cbn [bind of_opt].
    rewrite parse_i64_print by exact Hoff. cbn [bind of_opt].
    rewrite rt_peg_exact. reflexivity.
  - open_record.
    rewrite rt_oid, parse_u64_print, rt_side, parse_u64_print, rt_tif by assumption. cbn [bind of_opt].
    eval_str_eqb. cbv iota. cbn [bind of_opt].
    rewrite parse_u64_print by assumption. reflexivity.
  - destruct Ho as [Hv [Hh [Hthr Hamt]]].
    destruct amt as [a|].
    + open_record.
      rewrite rt_oid, parse_u64_print, rt_side, parse_u64_print, rt_tif by assumption. cbn [bind of_opt].
      eval_str_eqb. cbv iota. cbn [bind of_opt].
      rewrite !parse_u64_print by assumption. cbn [bind of_opt].
      rewrite print_N_not_None. rewrite ?parse_u64_print by assumption. cbn [bind of_opt].
      rewrite parse_bool_print. reflexivity.
    + open_record.
      rewrite rt_oid, parse_u64_print, rt_side, parse_u64_print, rt_tif by assumption. cbn [bind of_opt].
      eval_str_eqb. cbv iota. cbn [bind of_opt].
      rewrite !parse_u64_print by assumption. cbn [bind of_opt].
      rewrite parse_bool_print. reflexivity.
Qed.

(* ------------------------------------------------------------------ OrderUpdate *)

Theorem rt_update : forall u, wf_update u -> parse_update (print_update u) = POk u.
Proof.
  intros [k np|k nq|k np nq|k|k p q sd] H; simpl in H; unfold parse_update, print_update.
  - destruct H as [Hk Hn]. open_record. rewrite rt_oid by assumption. cbn [bind of_opt].
    eval_str_eqb. cbv iota. rewrite parse_u64_print by assumption. reflexivity.
  - destruct H as [Hk Hn]. open_record. rewrite rt_oid by assumption. cbn [bind of_opt].
    eval_str_eqb. cbv iota. rewrite parse_u64_print by assumption. reflexivity.
  - destruct H as [Hk [Hn Hq]]. open_record. rewrite rt_oid by assumption. cbn [bind of_opt].
    eval_str_eqb. cbv iota. rewrite !parse_u64_print by assumption. reflexivity.
  - open_record. rewrite rt_oid by assumption. cbn [bind of_opt].
    eval_str_eqb. cbv iota. reflexivity.
  - destruct H as [Hk [Hp Hq]]. open_record. rewrite rt_oid by assumption. cbn [bind of_opt].
    eval_str_eqb. cbv iota. rewrite !parse_u64_print by assumption. cbn [bind of_opt].
    rewrite rt_side. reflexivity.
Qed.

(* ------------------------------------------------------------------ Transaction *)

Theorem rt_txn : forall t, wf_txn t -> parse_txn (print_txn t) = POk t.
Proof.
  intros [tid tk mk p q sd ts] [Hid [Htk [Hmk [Hp [Hq Hts]]]]]. cbn [t_id t_taker t_maker t_price t_qty t_side t_ts] in *.
  unfold parse_txn, print_txn. cbn [t_id t_taker t_maker t_price t_qty t_side t_ts].
  rewrite record_parts_print by (first [reflexivity | clean_fields]).
  cbn [bind]. eval_str_eqb. cbn [negb].
  rewrite parse_print_fields by (first [discriminate | clean_fields]).
  cbv zeta. unfold get_u64, get_usize, get_field. cbn [rev app]. resolve_gets. cbn [of_opt bind].
  rewrite parse_print_uuid by assumption. cbn [of_opt bind].
  rewrite !rt_oid by assumption. cbn [of_opt bind].
  rewrite !parse_u64_print by assumption. cbn [of_opt bind].
  rewrite rt_side. reflexivity.
Qed.

(* ------------------------------------------------------------------ snapshot summary, statistics *)

Theorem rt_snapshot : forall x, wf_snap x -> parse_snapshot (print_snapshot x) = POk x.
Proof.
  intros [p v h c] [Hp [Hv [Hh Hc]]]. cbn [ss_price ss_vis ss_hid ss_cnt] in *.
  unfold parse_snapshot, print_snapshot. cbn [ss_price ss_vis ss_hid ss_cnt].
  rewrite record_parts_print by (first [reflexivity | clean_fields]).
  cbn [bind]. eval_str_eqb. cbn [negb].
  rewrite parse_print_fields by (first [discriminate | clean_fields]).
  cbv zeta. unfold get_u64, get_usize, get_field. cbn [rev app]. resolve_gets. cbn [of_opt bind].
  rewrite ?parse_u64_print, ?parse_usize_print by assumption. reflexivity.
Qed.

Theorem rt_stats : forall x, wf_stats x -> parse_stats (print_stats x) = POk x.
Proof.
  intros [a r e q v l f w] [Ha [Hr [He [Hq [Hv [Hl [Hf Hw]]]]]]].
  cbn [x_added x_removed x_executed x_qty x_value x_last x_first x_wait] in *.
  unfold parse_stats, print_stats. cbn [x_added x_removed x_executed x_qty x_value x_last x_first x_wait].
  rewrite record_parts_print by (first [reflexivity | clean_fields]).
  cbn [bind]. eval_str_eqb. cbn [negb].
  rewrite parse_print_fields by (first [discriminate | clean_fields]).
  cbv zeta. unfold get_u64, get_usize, get_field. cbn [rev app]. resolve_gets. cbn [of_opt bind].
  rewrite ?parse_usize_print, ?parse_u64_print by assumption. reflexivity.
Qed.

(* ------------------------------------------------------------------ what a printed record is made of *)

(* clean characters plus the record delimiters ':' ';' '=' — in particular no ',' '[' ']' '(' ')' *)
Definition okc2 (c : ascii) : bool :=
  okc c || Ascii.eqb c colon || Ascii.eqb c semi || Ascii.eqb c eq_c.
Definition clean2 (s : str) : bool := forallb okc2 s.

Lemma clean_clean2 : forall s, clean s = true -> clean2 s = true.
Proof. intro s. apply forallb_imp. intros c H. unfold okc2. rewrite H. reflexivity. Qed.

Lemma clean2_app : forall a b, clean2 (a ++ b) = clean2 a && clean2 b.
Proof. intros. apply forallb_app. Qed.

Lemma clean2_record : forall ty fs,
  clean ty = true -> forallb clean_kv fs = true -> clean2 (print_record ty fs) = true.
Proof.
  intros ty fs Ht H. unfold print_record. rewrite clean2_app, (clean_clean2 _ Ht). cbn [andb].
  change (clean2 (colon :: print_fields fs)) with (okc2 colon && clean2 (print_fields fs)).
  change (okc2 colon) with true. cbn [andb].
  unfold print_fields. apply clean_join_sep; [reflexivity|].
  rewrite forallb_forall. intros x Hx. apply in_map_iff in Hx. destruct Hx as [[k v] [<- Hin]].
  rewrite forallb_forall in H. specialize (H _ Hin). unfold clean_kv in H. cbn [fst snd] in H |- *.
  apply andb_true_iff in H. destruct H as [Hk Hv]. unfold field.
  change (forallb okc2 (k ++ eq_c :: v)) with (clean2 (k ++ eq_c :: v)).
  rewrite clean2_app, (clean_clean2 _ Hk). cbn [andb].
  change (clean2 (eq_c :: v)) with (okc2 eq_c && clean2 v). rewrite (clean_clean2 _ Hv). reflexivity.
Qed.

Lemma clean2_notin : forall c s, okc2 c = false -> clean2 s = true -> notin c s = true.
Proof.
  intros c s Hc. apply forallb_imp. intros x Hx.
  destruct (Ascii.eqb x c) eqn:E; [|reflexivity]. apply Ascii.eqb_eq in E. subst. congruence.
Qed.

Lemma okc_ascii : forall c, okc c = true -> is_ascii c = true.
Proof. intros c H. unfold okc in H. repeat (apply andb_true_iff in H; destruct H as [H _]). exact H. Qed.

Lemma clean2_ascii : forall s, clean2 s = true -> all_ascii s = true.
Proof.
  intro s. apply forallb_imp. intros c H. unfold okc2 in H.
  destruct (okc c) eqn:E; [apply okc_ascii, E|]. cbn [orb] in H.
  destruct (Ascii.eqb c colon) eqn:E1; [apply Ascii.eqb_eq in E1; subst; reflexivity|].
  destruct (Ascii.eqb c semi) eqn:E2; [apply Ascii.eqb_eq in E2; subst; reflexivity|].
  cbn [orb] in H. apply Ascii.eqb_eq in H. subst. reflexivity.
Qed.

Lemma print_order_clean2 : forall o, clean2 (print_order o) = true.
Proof.
  intros [c q|c v h|c q|c q tr lr|c q off pt|c q|c v h thr amt auto]; unfold print_order;
    try (apply clean2_record; [reflexivity|clean_fields]).
  destruct amt; apply clean2_record; first [reflexivity|clean_fields].
Qed.

Lemma print_txn_clean2 : forall t, clean2 (print_txn t) = true.
Proof. intro t. unfold print_txn. apply clean2_record; [reflexivity|clean_fields]. Qed.

Lemma print_record_nonempty : forall ty fs, print_record ty fs <> [].
Proof. intros ty fs. unfold print_record. destruct ty; discriminate. Qed.

Lemma print_order_nonempty : forall o, print_order o <> [].
Proof. intros [c q|c v h|c q|c q tr lr|c q off pt|c q|c v h thr amt auto]; apply print_record_nonempty. Qed.

Lemma print_txn_nonempty : forall t, print_txn t <> [].
Proof. intro. apply print_record_nonempty. Qed.

Lemma map_o_map : forall (A : Type) (pr : A -> str) (pa : str -> outcome A) (P : A -> Prop) l,
  (forall x, P x -> pa (pr x) = POk x) -> Forall P l -> map_o pa (map pr l) = POk l.
Proof.
  intros A pr pa P l H. induction 1 as [|x l Hx Hl IH]; [reflexivity|].
  cbn [map map_o]. rewrite (H x Hx). cbn [bind]. rewrite IH. reflexivity.
Qed.
