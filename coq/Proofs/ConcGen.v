(* ConcGen.v — C14: the generator counter is read and advanced in one atomic
   step, so the values handed out along any interleaving are g0, g0+1, ... *)
From PL Require Import Spec.ConcSpec Proofs.ConcBase Proofs.ConcInv.
From Coq Require Import Lia ZifyBool ZifyN.
Local Open Scope N_scope.

Arguments wadd : simpl never.
Arguments wsub : simpl never.

Section Gen.
Variable mf : order -> N -> mres.

(* who performs a generator step, and what it does with the value *)
Definition gen_source (p p' : pc) (old : N) : Prop :=
  (p = G1 /\ p' = Done (RetNum old)) \/
  (exists ml o r ml' t,
     p = M4 ml o r /\ p' = M5 ml' o r /\
     r_txs (ml_res ml') = r_txs (ml_res ml) ++ [t] /\
     tx_idx t = old /\ tx_qty t = m_consumed r /\ tx_maker t = oid_of o /\
     tx_taker t = ml_taker ml).

Lemma tstep_gen p s p' s' e :
  tstep mf p s = Some (p', s', e) ->
  match is_gen_ev e with
  | Some old => old = sh_gen s /\ sh_gen s' = wadd (sh_gen s) 1 /\ gen_source p p' old
  | None => sh_gen s' = sh_gen s
  end.
Proof.
  intros H. destruct s as [pr cv ch cc m tk st g].
  destruct p; cbn [tstep] in H; unfold fetch_add, fetch_sub in H;
    cbn [sh_tk sh_map sh_gen get_obj set_obj set_map set_tk] in H;
    repeat match type of H with
    | context [if ?c then _ else _] => destruct c; cbv beta iota zeta in H
    | context [match ?d with _ => _ end] => destruct d; cbv beta iota zeta in H
    end; try discriminate; inversion H; subst; cbn [is_gen_ev sh_gen]; try reflexivity.
  all: split; [reflexivity|split; [reflexivity|]].
  all: try (left; split; reflexivity).
  all: right; do 5 eexists; split; [reflexivity|split; [reflexivity|]];
    cbn [ml_res add_transaction add_filled r_txs]; split; [reflexivity|];
    cbn [tx_idx tx_qty tx_maker tx_taker]; repeat split.
Qed.

Lemma cstep_gen c i c' e :
  cstep mf c i = Some (c', e) ->
  match is_gen_ev e with
  | Some old => old = sh_gen (cf_sh c) /\ sh_gen (cf_sh c') = wadd (sh_gen (cf_sh c)) 1
  | None => sh_gen (cf_sh c') = sh_gen (cf_sh c)
  end.
Proof.
  intros Hs. destruct (cstep_unfold mf _ _ _ _ Hs) as (t & p' & s' & _ & Ht & ->).
  cbn [cf_sh]. pose proof (tstep_gen _ _ _ _ _ Ht) as H.
  destruct (is_gen_ev e); [destruct H as (A & B & _); auto|exact H].
Qed.

(* the generator values along any schedule *)
Lemma exec_gen sched : forall c,
  let g0 := sh_gen (cf_sh c) in
  let n := length (gen_olds (snd (exec mf sched c))) in
  g0 + N.of_nat n <= W ->
  gen_olds (snd (exec mf sched c)) = Nseq g0 n.
Proof.
  induction sched as [|i rest IH]; intros c; cbn [exec].
  - reflexivity.
  - destruct (cstep mf c i) as [[c' e]|] eqn:Hs; [|apply IH].
    pose proof (cstep_gen _ _ _ _ Hs) as Hg. specialize (IH c').
    destruct (exec mf rest c') as [c'' tr]. cbn [snd gen_olds] in *.
    destruct (is_gen_ev e) as [old|].
    + destruct Hg as (-> & Hg'). cbn [length Nseq]. intros Hb.
      destruct (gen_olds tr) as [|x l] eqn:El; [reflexivity|].
      cbn [length] in *.
      rewrite wadd_nowrap in Hg' by lia. rewrite Hg' in IH.
      rewrite IH by lia. reflexivity.
    + rewrite Hg in IH. exact IH.
Qed.

End Gen.

Lemma Nseq_In g n x : In x (Nseq g n) -> g <= x.
Proof.
  revert g. induction n as [|n IH]; intros g; cbn [Nseq]; [contradiction|].
  intros [->|Hin]; [lia|]. specialize (IH _ Hin). lia.
Qed.

Lemma Nseq_NoDup g n : NoDup (Nseq g n).
Proof.
  revert g. induction n as [|n IH]; intros g; cbn [Nseq]; constructor.
  - intros Hin. apply Nseq_In in Hin. lia.
  - apply IH.
Qed.

Lemma Nseq_nth g n k : (k < n)%nat -> nth_error (Nseq g n) k = Some (g + N.of_nat k).
Proof.
  revert g k. induction n as [|n IH]; intros g k Hk; [lia|].
  destruct k as [|k]; cbn [Nseq nth_error]; [f_equal; lia|].
  rewrite IH by lia. f_equal. lia.
Qed.

(* ---- statements as used by Properties/C14.v ---- *)
Section GenCors.
Variable mf : order -> N -> mres.

Lemma exec_gen_unique sched c :
  let olds := gen_olds (snd (exec mf sched c)) in
  sh_gen (cf_sh c) + N.of_nat (length olds) <= W ->
  NoDup olds /\
  forall k, (k < length olds)%nat -> nth_error olds k = Some (sh_gen (cf_sh c) + N.of_nat k).
Proof.
  intros olds Hb. pose proof (exec_gen mf sched c Hb) as E. fold olds in E.
  split.
  - rewrite E. apply Nseq_NoDup.
  - intros k Hk. rewrite E. apply Nseq_nth. exact Hk.
Qed.

(* reproducible: the ids depend only on the start value and the number of calls *)
Lemma exec_gen_reproducible mf' sched c sched' c' :
  let olds := gen_olds (snd (exec mf sched c)) in
  let olds' := gen_olds (snd (exec mf' sched' c')) in
  sh_gen (cf_sh c) = sh_gen (cf_sh c') -> length olds = length olds' ->
  sh_gen (cf_sh c) + N.of_nat (length olds) <= W ->
  olds = olds'.
Proof.
  intros olds olds' Hg Hl Hb.
  pose proof (exec_gen mf sched c Hb) as E. fold olds in E.
  assert (Hb' : sh_gen (cf_sh c') + N.of_nat (length olds') <= W) by (rewrite <- Hg, <- Hl; exact Hb).
  pose proof (exec_gen mf' sched' c' Hb') as E'. fold olds' in E'.
  rewrite E, E', Hg, Hl. reflexivity.
Qed.

(* the step that draws a value hands exactly that value to its caller *)
Lemma cstep_gen_source c i c' e old :
  cstep mf c i = Some (c', e) -> is_gen_ev e = Some old ->
  exists t p' s',
    nth_error (cf_threads c) i = Some t /\
    tstep mf (th_pc t) (cf_sh c) = Some (p', s', e) /\
    old = sh_gen (cf_sh c) /\ gen_source (th_pc t) p' old.
Proof.
  intros Hs He. destruct (cstep_unfold mf _ _ _ _ Hs) as (t & p' & s' & Hn & Ht & _).
  exists t, p', s'. pose proof (tstep_gen mf _ _ _ _ _ Ht) as H. rewrite He in H.
  destruct H as (A & _ & B). auto.
Qed.

End GenCors.
