(* DrainProofs.v — C08, drain: a match that ends with quantity left over has
   emptied the queue of everything that displays quantity (sequential, Level.v). *)
From PL Require Import Spec.CovSpec Proofs.ConcLemmas Proofs.CovProofs.
From Coq Require Import Lia ZifyBool ZifyN.
Local Open Scope N_scope.

Lemma pop_t_some t : forall m o m' t',
  pop_t m t = Some (o, m', t') ->
  exists k, lookup k m = Some o /\ m' = remove_key k m /\
            forall x, In x m -> oid_of x <> k -> In (oid_of x) t -> In (oid_of x) t'.
Proof.
  induction t as [|k t IH]; intros m o m' t'; cbn; [discriminate|].
  destruct (lookup k m) as [y|] eqn:El.
  - intros H. inversion H; subst. exists k. split; [exact El|]. split; [reflexivity|].
    intros x _ Hne [E|Hin]; [congruence | exact Hin].
  - intros H. destruct (IH _ _ _ _ H) as (k' & Hl & Hm & Hx). exists k'.
    split; [exact Hl|]. split; [exact Hm|].
    intros x Hin Hne [E|Ht]; [|exact (Hx x Hin Hne Ht)].
    exfalso. apply (in_lookup _ _ Hin). rewrite <- E. exact El.
Qed.

Lemma Covered_pop q o q' : Covered q -> pop q = (Some o, q') -> Covered q'.
Proof.
  intros HC. unfold pop.
  destruct (pop_t (qmap q) (tickets q)) as [[[o1 m1] t1]|] eqn:E; [|discriminate].
  intros H. inversion H; subst. destruct (pop_t_some _ _ _ _ _ E) as (k & Hl & -> & Hx).
  intros x Hin. cbn in *. apply in_remove_key in Hin. destruct Hin as [Hin Hne].
  apply Hx; [exact Hin | exact Hne | apply HC, Hin].
Qed.

Lemma Covered_push q u : Covered q -> Covered (push q u).
Proof.
  intros HC x Hin. cbn in *. apply in_upsert in Hin. apply in_or_app.
  destruct Hin as [->|[Hin _]]; [right; left; reflexivity | left; apply HC, Hin].
Qed.

Lemma fold_push_forall (P : order -> Prop) aside : forall q,
  (forall x, In x (qmap q) -> P x) -> Forall P aside ->
  forall x, In x (qmap (fold_left push aside q)) -> P x.
Proof.
  induction aside as [|a aside IH]; intros q Hq Ha; cbn; [exact Hq|].
  inversion Ha; subst. apply IH; [|assumption].
  intros x Hin. cbn in Hin. apply in_upsert in Hin. destruct Hin as [->|[Hin _]]; auto.
Qed.

Section WithMf.
Variable mf : order -> N -> mres.
Hypothesis Hcons : I_cons mf.

Lemma visit_lq l gen res taker rem o l' gen' res' rem' :
  visit mf l gen res taker rem o = (l', gen', res', rem') ->
  lq l' = lq l \/ exists u, lq l' = push (lq l) u.
Proof.
  unfold visit.
  destruct (0 <? m_consumed (mf o rem)); destruct (m_updated (mf o rem)) as [u|];
    try destruct (0 <? m_hidden_reduced (mf o rem));
    intros H; inversion H; subst; cbn [lq]; eauto.
Qed.

Definition drain_inv (s : mstate) : Prop :=
  Covered (lq (ms_lvl s)) /\ Forall (fun o => vis o = 0) (ms_aside s).

Lemma loop_drain taker fuel : forall s s',
  drain_inv s -> match_loop mf fuel taker s = Some s' -> ms_rem s' <> 0 ->
  qmap (lq (ms_lvl s')) = [] /\ Forall (fun o => vis o = 0) (ms_aside s').
Proof.
  induction fuel as [|f IH]; intros s s' [HC HA] H Hrem; cbn [match_loop] in H;
    destruct (ms_rem s =? 0) eqn:Er; try discriminate;
    try (inversion H; subst; exfalso; apply Hrem; apply N.eqb_eq; exact Er).
  destruct (pop (lq (ms_lvl s))) as [[o|] q'] eqn:Ep.
  - pose proof (Covered_pop _ _ _ HC Ep) as HC'.
    destruct ((m_consumed (mf o (ms_rem s)) =? 0) && (m_hidden_reduced (mf o (ms_rem s)) =? 0)
              && is_some (m_updated (mf o (ms_rem s)))) eqn:Ea.
    + refine (IH _ _ _ H Hrem). split; cbn [ms_lvl ms_aside lq set_queue]; [exact HC'|].
      apply Forall_app. split; [exact HA|]. constructor; [|constructor].
      destruct (Hcons o (ms_rem s)) as (Hc & _). lia.
    + destruct (visit mf (set_queue (ms_lvl s) q') (ms_gen s) (ms_res s) taker (ms_rem s) o)
        as [[[l1 g1] r1] rem1] eqn:Ev.
      refine (IH _ _ _ H Hrem). split; cbn [ms_lvl ms_aside]; [|exact HA].
      destruct (visit_lq _ _ _ _ _ _ _ _ _ _ Ev) as [E|(u & E)]; rewrite E; cbn [lq set_queue];
        [exact HC' | apply Covered_push, HC'].
  - inversion H; subst. cbn. split; [|exact HA].
    assert (Hn : fst (pop (lq (ms_lvl s))) = None) by (rewrite Ep; reflexivity).
    pose proof (Covered_pop_none _ HC Hn) as Hm.
    unfold pop in Ep. destruct (pop_t (qmap (lq (ms_lvl s))) (tickets (lq (ms_lvl s)))) as [[[? ?] ?]|];
      inversion Ep; subst. cbn. exact Hm.
Qed.

(* C08 drain / C06_exhausts: a match that could not be filled completely leaves
   no resting order with displayed quantity. *)
Theorem drain_exhausts fuel l g qty taker l' g' r :
  Covered (lq l) ->
  match_order mf fuel l g qty taker = Some (l', g', r) ->
  0 < r_remaining r ->
  forall o, In o (resting l') -> vis o = 0.
Proof.
  intros HC H Hr. unfold match_order in H.
  destruct (match_loop mf fuel taker (mkMstate l g (result_new taker qty) qty [])) as [s|] eqn:El;
    [|discriminate].
  inversion H; subst. clear H. cbn [r_remaining] in Hr.
  assert (Hinv : drain_inv (mkMstate l g (result_new taker qty) qty [])).
  { split; [exact HC | constructor]. }
  destruct (loop_drain taker fuel _ _ Hinv El) as (Hm & HA); [lia|].
  unfold resting. cbn [lq set_queue]. apply fold_push_forall; [|exact HA].
  rewrite Hm. intros x [].
Qed.

End WithMf.

(* ---- trace corollaries on [exec], and the drain after a concurrent run ---- *)
Section Combined.
Variable mf : order -> N -> mres.

Lemma exec_no_double_handout sched c c' k t1 i o1 t2 j o2 t3 :
  exec mf sched c = (c', t1 ++ (i, ERemove k (Some o1)) :: t2 ++ (j, ERemove k (Some o2)) :: t3) ->
  inserts k t2.
Proof.
  intros He. destruct (exec_cell mf k sched _ _ _ He) as (H & _).
  eapply no_double_handout. exact H.
Qed.

Lemma exec_handout_is_last_insert sched c c' k t1 i o t2 j o2 t3 :
  exec mf sched c = (c', t1 ++ (i, EInsert o) :: t2 ++ (j, ERemove k (Some o2)) :: t3) ->
  oid_of o = k -> ~ inserts k t2 -> o2 = o.
Proof.
  intros He Ho Hn. destruct (exec_cell mf k sched _ _ _ He) as (H & _).
  eapply handout_is_last_insert; eassumption.
Qed.

Lemma exec_handout_is_initial sched c c' k t1 j o2 t3 :
  exec mf sched c = (c', t1 ++ (j, ERemove k (Some o2)) :: t3) ->
  ~ inserts k t1 -> lookup k (sh_map (cf_sh c)) = Some o2.
Proof.
  intros He Hn. destruct (exec_cell mf k sched _ _ _ He) as (H & _).
  eapply handout_is_initial; eassumption.
Qed.

Hypothesis Hcons : I_cons mf.

Theorem drain_after_quiescence l gen progs sched c tr fuel g qty taker l' g' r :
  Covered (lq l) ->
  exec mf sched (init_config l gen progs) = (c, tr) ->
  quiescent c = true ->
  match_order mf fuel (level_of_config c) g qty taker = Some (l', g', r) ->
  0 < r_remaining r ->
  forall o, In o (resting l') -> vis o = 0.
Proof.
  intros HC He Hq Hm Hr.
  apply (drain_exhausts mf Hcons fuel (level_of_config c) g qty taker l' g' r); try assumption.
  eapply quiescent_covered; eassumption.
Qed.

End Combined.
