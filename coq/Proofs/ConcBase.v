(* ConcBase.v — list / counter lemmas used by the concurrent invariants:
   no-wrap forms of wadd / wsub, sums over the map under remove / upsert,
   id multiplicities, sums over threads under update_nth, settle. *)
From PL Require Import Spec.ConcSpec.
From Coq Require Import Lia ZifyBool ZifyN.
Local Open Scope N_scope.

Arguments upsert : simpl never.
Arguments remove_key : simpl never.
Arguments wadd : simpl never.
Arguments wsub : simpl never.

(* ---- wrapping counters, when they do not wrap ---- *)
Lemma wadd_nowrap a b : a + b < W -> wadd a b = a + b.
Proof. intros H. unfold wadd. apply N.mod_small. exact H. Qed.

Lemma wsub_nowrap a b : b <= a -> a < W -> wsub a b = a - b.
Proof.
  intros Hb Ha. unfold wsub.
  rewrite (N.mod_small b W) by lia.
  replace (a + W - b) with ((a - b) + 1 * W) by lia.
  rewrite N.mod_add by (unfold W; lia).
  apply N.mod_small. lia.
Qed.

(* ---- oid equality ---- *)
Lemma oid_eqb_eq a b : oid_eqb a b = true <-> a = b.
Proof.
  destruct a, b; cbn; split; intros H; try discriminate; try (inversion H; subst).
  - apply N.eqb_eq in H. congruence.
  - apply N.eqb_refl.
  - apply N.eqb_eq in H. congruence.
  - apply N.eqb_refl.
Qed.

Lemma oid_eqb_refl a : oid_eqb a a = true.
Proof. apply oid_eqb_eq. reflexivity. Qed.

Lemma oid_eqb_sym a b : oid_eqb a b = oid_eqb b a.
Proof.
  destruct (oid_eqb a b) eqn:E.
  - apply oid_eqb_eq in E. subst. symmetry. apply oid_eqb_refl.
  - destruct (oid_eqb b a) eqn:E'; [|reflexivity].
    apply oid_eqb_eq in E'. subst. rewrite oid_eqb_refl in E. discriminate.
Qed.

Lemma one_refl x : one x x = 1.
Proof. unfold one. rewrite oid_eqb_refl. reflexivity. Qed.

Lemma one_le x y : one x y <= 1.
Proof. unfold one. destruct (oid_eqb x y); lia. Qed.

(* ---- sums over order lists ---- *)
Lemma sumv_cons o m : sumv (o :: m) = vis o + sumv m.
Proof. reflexivity. Qed.
Lemma sumh_cons o m : sumh (o :: m) = hid o + sumh m.
Proof. reflexivity. Qed.
Lemma lenN_cons o m : lenN (o :: m) = 1 + lenN m.
Proof. unfold lenN. cbn [length]. lia. Qed.
Lemma lenN_nil : lenN [] = 0.
Proof. reflexivity. Qed.
Lemma sumv_nil : sumv [] = 0.
Proof. reflexivity. Qed.
Lemma sumh_nil : sumh [] = 0.
Proof. reflexivity. Qed.

Lemma sumv_app a b : sumv (a ++ b) = sumv a + sumv b.
Proof. induction a as [|o a IH]; cbn [app]; rewrite ?sumv_cons; [cbn; lia | lia]. Qed.
Lemma sumh_app a b : sumh (a ++ b) = sumh a + sumh b.
Proof. induction a as [|o a IH]; cbn [app]; rewrite ?sumh_cons; [cbn; lia | lia]. Qed.
Lemma lenN_app a b : lenN (a ++ b) = lenN a + lenN b.
Proof. unfold lenN. rewrite app_length. lia. Qed.

Lemma cnt_cons x y l : cnt x (y :: l) = one x y + cnt x l.
Proof. reflexivity. Qed.
Lemma cnt_app x a b : cnt x (a ++ b) = cnt x a + cnt x b.
Proof. induction a as [|y a IH]; cbn [app]; rewrite ?cnt_cons; [cbn; lia | lia]. Qed.
Lemma idc_cons x o m : idc x (o :: m) = one x (oid_of o) + idc x m.
Proof. reflexivity. Qed.
Lemma idc_app x a b : idc x (a ++ b) = idc x a + idc x b.
Proof. unfold idc, ids. rewrite map_app. apply cnt_app. Qed.
Lemma idc_nil x : idc x [] = 0.
Proof. reflexivity. Qed.

(* ---- the map: lookup / remove_key / upsert ---- *)
Lemma remove_key_cons k o m :
  remove_key k (o :: m) = if oid_eqb k (oid_of o) then remove_key k m else o :: remove_key k m.
Proof. unfold remove_key. cbn [filter]. destruct (oid_eqb k (oid_of o)); reflexivity. Qed.

Lemma lookup_oid k m o : lookup k m = Some o -> oid_of o = k.
Proof.
  induction m as [|y m IH]; cbn [lookup]; [discriminate|].
  destruct (oid_eqb k (oid_of y)) eqn:E; intros H.
  - inversion H; subst. apply oid_eqb_eq in E. congruence.
  - auto.
Qed.

Lemma lookup_idc k m o : lookup k m = Some o -> 1 <= idc k m.
Proof.
  induction m as [|y m IH]; cbn [lookup]; [discriminate|].
  rewrite idc_cons. unfold one. destruct (oid_eqb k (oid_of y)); intros H; [lia|].
  specialize (IH H). lia.
Qed.

Lemma idc_remove_key x k m :
  idc x (remove_key k m) = if oid_eqb x k then 0 else idc x m.
Proof.
  induction m as [|y m IH]; [cbn; destruct (oid_eqb x k); reflexivity|].
  rewrite remove_key_cons, idc_cons.
  destruct (oid_eqb k (oid_of y)) eqn:E.
  - rewrite IH. destruct (oid_eqb x k) eqn:E2; [reflexivity|].
    apply oid_eqb_eq in E. subst k. unfold one. rewrite E2. lia.
  - rewrite idc_cons, IH. destruct (oid_eqb x k) eqn:E2; [|reflexivity].
    apply oid_eqb_eq in E2. subst k. unfold one. rewrite E. lia.
Qed.

(* removing a present key frees at least one occurrence of it *)
Lemma idc_remove_le x k m o :
  lookup k m = Some o -> idc x (remove_key k m) + one x k <= idc x m.
Proof.
  intros H. rewrite idc_remove_key. unfold one.
  destruct (oid_eqb x k) eqn:E; [|lia].
  apply oid_eqb_eq in E. subst. apply lookup_idc in H. lia.
Qed.

Lemma idc_upsert_le x o m : idc x (upsert o m) <= idc x m + one x (oid_of o).
Proof.
  unfold upsert. rewrite idc_app, idc_remove_key, idc_cons, idc_nil.
  destruct (oid_eqb x (oid_of o)); lia.
Qed.

Lemma remove_key_absent k m : idc k m = 0 -> remove_key k m = m.
Proof.
  induction m as [|y m IH]; [reflexivity|].
  rewrite idc_cons, remove_key_cons. unfold one.
  destruct (oid_eqb k (oid_of y)); intros H; [lia|].
  rewrite IH by lia. reflexivity.
Qed.

Lemma upsert_absent o m : idc (oid_of o) m = 0 -> upsert o m = m ++ [o].
Proof. intros H. unfold upsert. rewrite remove_key_absent by exact H. reflexivity. Qed.

Lemma sums_upsert o m :
  idc (oid_of o) m = 0 ->
  sumv (upsert o m) = sumv m + vis o /\ sumh (upsert o m) = sumh m + hid o /\
  lenN (upsert o m) = lenN m + 1.
Proof.
  intros H. rewrite upsert_absent by exact H.
  rewrite sumv_app, sumh_app, lenN_app, sumv_cons, sumh_cons, lenN_cons, sumv_nil, sumh_nil, lenN_nil. lia.
Qed.

Lemma sums_remove k m o :
  idc k m <= 1 -> lookup k m = Some o ->
  sumv m = sumv (remove_key k m) + vis o /\ sumh m = sumh (remove_key k m) + hid o /\
  lenN m = lenN (remove_key k m) + 1.
Proof.
  induction m as [|y m IH]; cbn [lookup]; [discriminate|].
  rewrite idc_cons, remove_key_cons. unfold one.
  destruct (oid_eqb k (oid_of y)) eqn:E; intros Hc H.
  - inversion H; subst y. rewrite remove_key_absent by lia.
    rewrite sumv_cons, sumh_cons, lenN_cons. lia.
  - destruct (IH ltac:(lia) H) as (A & B & C).
    rewrite !sumv_cons, !sumh_cons, !lenN_cons. lia.
Qed.

(* ---- sums over threads ---- *)
Lemma tsum_cons {A} (f : A -> N) x l : tsum f (x :: l) = f x + tsum f l.
Proof. reflexivity. Qed.

Lemma tsum_app {A} (f : A -> N) a b : tsum f (a ++ b) = tsum f a + tsum f b.
Proof. induction a as [|x a IH]; cbn [app]; rewrite ?tsum_cons; [cbn; lia | lia]. Qed.

Lemma tsum_map {A B} (g : A -> B) (f : B -> N) l : tsum f (map g l) = tsum (fun x => f (g x)) l.
Proof. induction l as [|x l IH]; [reflexivity|]. cbn [map]. rewrite !tsum_cons, IH. reflexivity. Qed.

Lemma tsum_ext {A} (f g : A -> N) l : (forall x, f x = g x) -> tsum f l = tsum g l.
Proof. intros H. induction l as [|x l IH]; [reflexivity|]. rewrite !tsum_cons, H, IH. reflexivity. Qed.

Lemma tsum_add {A} (f g : A -> N) l : tsum (fun x => f x + g x) l = tsum f l + tsum g l.
Proof. induction l as [|x l IH]; [reflexivity|]. rewrite !tsum_cons, IH. lia. Qed.

Lemma tsum_le {A} (f g : A -> N) l : (forall x, f x <= g x) -> tsum f l <= tsum g l.
Proof. intros H. induction l as [|x l IH]; [cbn; lia|]. rewrite !tsum_cons. specialize (H x). lia. Qed.

Lemma tsum_zero {A} (f : A -> N) l : (forall x, In x l -> f x = 0) -> tsum f l = 0.
Proof.
  induction l as [|x l IH]; intros H; [reflexivity|].
  rewrite tsum_cons, (H x) by (left; reflexivity). rewrite IH; [reflexivity|].
  intros y Hy. apply H. right. exact Hy.
Qed.

(* the threads other than [i] *)
Fixpoint others {A} (i : nat) (l : list A) : list A :=
  match l, i with
  | [], _ => []
  | _ :: l', O => l'
  | y :: l', S i' => y :: others i' l'
  end.

Lemma tsum_split {A} (f : A -> N) i l t :
  nth_error l i = Some t -> tsum f l = f t + tsum f (others i l).
Proof.
  revert i. induction l as [|y l IH]; intros [|i] H; cbn in H; try discriminate.
  - inversion H; subst. reflexivity.
  - cbn [others]. rewrite !tsum_cons, (IH i H). lia.
Qed.

Lemma tsum_update {A} (f : A -> N) i l t t' :
  nth_error l i = Some t -> tsum f (update_nth i t' l) = f t' + tsum f (others i l).
Proof.
  revert i. induction l as [|y l IH]; intros [|i] H; cbn in H; try discriminate.
  - reflexivity.
  - cbn [others update_nth]. rewrite !tsum_cons, (IH i H). lia.
Qed.

Lemma Forall_update {A} (P : A -> Prop) i l t' :
  Forall P l -> P t' -> Forall P (update_nth i t' l).
Proof.
  revert i. induction l as [|y l IH]; intros i Hl Ht; [destruct i; constructor|].
  inversion Hl; subst. destruct i; cbn [update_nth]; constructor; auto.
Qed.

Lemma Forall_nth {A} (P : A -> Prop) i l t : Forall P l -> nth_error l i = Some t -> P t.
Proof. intros H Hn. rewrite Forall_forall in H. apply H. eapply nth_error_In. exact Hn. Qed.

Lemma forallb_update {A} (f : A -> bool) i l t' :
  forallb f l = true -> f t' = true -> forallb f (update_nth i t' l) = true.
Proof.
  revert i. induction l as [|y l IH]; intros i Hl Ht; [destruct i; reflexivity|].
  cbn [forallb] in Hl. apply andb_true_iff in Hl. destruct Hl as [Hy Hl].
  destruct i; cbn [update_nth forallb]; apply andb_true_iff; auto.
Qed.

(* ---- settle: a measure that is the same before and after a call is picked up
        is the same before and after settle_n ---- *)
Lemma settle_n_measure {X} (F : thread -> X) price :
  (forall r c cs rets,
     F (mkThread (start price c) cs (rets ++ [r])) = F (mkThread (Done r) (c :: cs) rets)) ->
  forall n t, F (settle_n n price t) = F t.
Proof.
  intros HF. induction n as [|n IH]; intros [p todo rets]; [reflexivity|].
  cbn [settle_n th_pc th_todo].
  destruct p; try reflexivity. destruct todo as [|c cs]; [reflexivity|].
  rewrite IH. unfold settle. cbn [th_pc th_todo th_rets]. apply HF.
Qed.

Lemma settle_n_pred (P : thread -> Prop) price :
  (forall r c cs rets,
     P (mkThread (Done r) (c :: cs) rets) -> P (mkThread (start price c) cs (rets ++ [r]))) ->
  forall n t, P t -> P (settle_n n price t).
Proof.
  intros HP. induction n as [|n IH]; intros [p todo rets] Ht; [exact Ht|].
  cbn [settle_n th_pc th_todo].
  destruct p; try exact Ht. destruct todo as [|c cs]; [exact Ht|].
  apply IH. unfold settle. cbn [th_pc th_todo th_rets]. apply HP. exact Ht.
Qed.
