(* TextUtf8.v — facts about well-formed UTF-8, char boundaries and slices
   (Model/Utf8.v) used by the totality (C18) and round-trip (C16) proofs. *)
From PL Require Import Model.Text.
From Coq Require Import Lia ZifyBool ZifyN.
Local Open Scope N_scope.

(* a string that does not begin with a continuation byte *)
Definition starts_ok (y : str) : Prop :=
  match y with [] => True | b :: _ => is_cont b = false end.

Lemma ascii_not_cont : forall c, is_ascii c = true -> is_cont c = false.
Proof. intros c. unfold is_ascii, is_cont. lia. Qed.

Lemma valid_starts_ok : forall s, utf8_valid s = true -> starts_ok s.
Proof.
  intros [|b t] H; simpl; [exact I|].
  cbn [utf8_valid] in H. unfold is_cont.
  destruct (code b <? 128) eqn:E1; [lia|].
  destruct ((194 <=? code b) && (code b <=? 223)) eqn:E2; [lia|].
  destruct ((224 <=? code b) && (code b <=? 239)) eqn:E3; [lia|].
  destruct ((240 <=? code b) && (code b <=? 244)) eqn:E4; [lia|].
  discriminate.
Qed.

Lemma second_ok_cont : forall n c, second_ok n c = true -> is_cont c = true.
Proof.
  intros n c. unfold second_ok, in_range, is_cont.
  destruct (n =? 224); [lia|]. destruct (n =? 237); [lia|].
  destruct (n =? 240); [lia|]. destruct (n =? 244); [lia|]. auto.
Qed.

(* Splitting a well-formed string at a position where no continuation byte
   starts gives two well-formed strings. *)
Lemma utf8_split : forall x y,
  utf8_valid (x ++ y) = true -> starts_ok y ->
  utf8_valid x = true /\ utf8_valid y = true.
Proof.
  intros x. remember (length x) as n eqn:Hn. revert x Hn.
  induction n as [n IH] using lt_wf_ind. intros x Hn y H Hy.
  destruct x as [|b0 x]; [split; [reflexivity|exact H]|].
  cbn [app utf8_valid] in H |- *.
  destruct (code b0 <? 128) eqn:E1.
  { apply (IH (length x)); [simpl in Hn; lia|reflexivity|exact H|exact Hy]. }
  destruct ((194 <=? code b0) && (code b0 <=? 223)) eqn:E2.
  { destruct x as [|b1 x].
    - cbn [app] in H. destruct y as [|b1 y]; [discriminate|].
      simpl in Hy. rewrite Hy in H. discriminate.
    - cbn [app] in H. apply andb_true_iff in H. destruct H as [H1 H2].
      destruct (IH (length x)) with (x := x) (y := y) as [A B]; [simpl in Hn; lia|reflexivity|exact H2|exact Hy|].
      rewrite H1, A. auto. }
  destruct ((224 <=? code b0) && (code b0 <=? 239)) eqn:E3.
  { destruct x as [|b1 x].
    - cbn [app] in H. destruct y as [|b1 y]; [discriminate|].
      destruct y as [|b2 y]; [discriminate|].
      simpl in Hy. apply andb_true_iff in H. destruct H as [H _].
      apply andb_true_iff in H. destruct H as [H _].
      apply second_ok_cont in H. congruence.
    - destruct x as [|b2 x].
      + cbn [app] in H. destruct y as [|b2 y]; [discriminate|].
        simpl in Hy. apply andb_true_iff in H. destruct H as [H _].
        apply andb_true_iff in H. destruct H as [_ H]. congruence.
      + cbn [app] in H. apply andb_true_iff in H. destruct H as [H1 H2].
        destruct (IH (length x)) with (x := x) (y := y) as [A B]; [simpl in Hn; lia|reflexivity|exact H2|exact Hy|].
        rewrite H1, A. auto. }
  destruct ((240 <=? code b0) && (code b0 <=? 244)) eqn:E4; [|discriminate].
  destruct x as [|b1 x].
  { cbn [app] in H. destruct y as [|b1 y]; [discriminate|].
    destruct y as [|b2 y]; [discriminate|]. destruct y as [|b3 y]; [discriminate|].
    simpl in Hy. repeat (apply andb_true_iff in H; destruct H as [H ?]).
    apply second_ok_cont in H. congruence. }
  destruct x as [|b2 x].
  { cbn [app] in H. destruct y as [|b2 y]; [discriminate|]. destruct y as [|b3 y]; [discriminate|].
    simpl in Hy. repeat (apply andb_true_iff in H; destruct H as [H ?]). congruence. }
  destruct x as [|b3 x].
  { cbn [app] in H. destruct y as [|b3 y]; [discriminate|].
    simpl in Hy. repeat (apply andb_true_iff in H; destruct H as [H ?]). congruence. }
  cbn [app] in H. apply andb_true_iff in H. destruct H as [H1 H2].
  destruct (IH (length x)) with (x := x) (y := y) as [A B]; [simpl in Hn; lia|reflexivity|exact H2|exact Hy|].
  rewrite H1, A. auto.
Qed.

Lemma valid_cons_ascii : forall c t, is_ascii c = true -> utf8_valid (c :: t) = utf8_valid t.
Proof. intros c t H. unfold is_ascii in H. cbn [utf8_valid]. rewrite H. reflexivity. Qed.

Lemma valid_ascii_prefix : forall p r, all_ascii p = true -> utf8_valid (p ++ r) = utf8_valid r.
Proof.
  induction p as [|c p IH]; intros r H; [reflexivity|].
  simpl in H. apply andb_true_iff in H. destruct H as [H1 H2].
  cbn [app]. rewrite valid_cons_ascii by exact H1. apply IH, H2.
Qed.

Lemma all_ascii_valid : forall p, all_ascii p = true -> utf8_valid p = true.
Proof. intros p H. rewrite <- (app_nil_r p). rewrite valid_ascii_prefix by exact H. reflexivity. Qed.

Lemma all_ascii_app : forall a b, all_ascii (a ++ b) = all_ascii a && all_ascii b.
Proof. intros. apply forallb_app. Qed.

(* well-formed after an ASCII byte in the middle *)
Lemma valid_after_ascii : forall x c y,
  utf8_valid (x ++ c :: y) = true -> is_ascii c = true -> utf8_valid x = true /\ utf8_valid y = true.
Proof.
  intros x c y H Hc.
  destruct (utf8_split x (c :: y) H) as [A B]; [simpl; apply ascii_not_cont, Hc|].
  rewrite valid_cons_ascii in B by exact Hc. auto.
Qed.

(* ---- nth_error / skipn / firstn ---- *)

Lemma nth_error_skipn' : forall (s : str) a k, nth_error (skipn a s) k = nth_error s (a + k).
Proof.
  induction s as [|c s IH]; intros a k.
  - rewrite skipn_nil. destruct k, a; reflexivity.
  - destruct a; [reflexivity|]. simpl. apply IH.
Qed.

Lemma skipn_nth_cons : forall (s : str) i c, nth_error s i = Some c -> skipn i s = c :: skipn (S i) s.
Proof.
  induction s as [|x s IH]; intros i c H; destruct i; try discriminate.
  - simpl in H. inversion H. reflexivity.
  - simpl in H. simpl. apply IH, H.
Qed.

Lemma split_at : forall (s : str) i c,
  nth_error s i = Some c -> s = firstn i s ++ c :: skipn (S i) s /\ length (firstn i s) = i.
Proof.
  intros s i c H. split.
  - rewrite <- (skipn_nth_cons s i c H). symmetry. apply firstn_skipn.
  - apply firstn_length_le. apply Nat.lt_le_incl. apply nth_error_Some. congruence.
Qed.

(* ---- boundaries ---- *)

Lemma bnd_0 : forall s, is_char_boundary s 0 = true.
Proof. reflexivity. Qed.

Lemma bnd_len : forall s, is_char_boundary s (length s) = true.
Proof. intros. unfold is_char_boundary. rewrite Nat.eqb_refl, orb_true_r. reflexivity. Qed.

Lemma bnd_nth : forall s i c,
  nth_error s i = Some c -> is_cont c = false -> is_char_boundary s i = true.
Proof. intros s i c H Hc. unfold is_char_boundary. rewrite H, Hc. apply orb_true_r. Qed.

Lemma bnd_app : forall x y, starts_ok y -> is_char_boundary (x ++ y) (length x) = true.
Proof.
  intros x y Hy. destruct y as [|b y].
  - rewrite app_nil_r. apply bnd_len.
  - apply bnd_nth with (c := b); [|exact Hy].
    rewrite nth_error_app2 by lia. rewrite Nat.sub_diag. reflexivity.
Qed.

Lemma bnd_le : forall s i, is_char_boundary s i = true -> (i <= length s)%nat.
Proof.
  intros s i H. unfold is_char_boundary in H.
  destruct (Nat.eqb_spec i 0); [lia|]. destruct (Nat.eqb_spec i (length s)); [lia|].
  simpl in H. destruct (nth_error s i) eqn:E; [|discriminate].
  apply Nat.lt_le_incl. apply nth_error_Some. congruence.
Qed.

(* the position after an ASCII byte of a well-formed string *)
Lemma bnd_S_nth : forall s i c,
  utf8_valid s = true -> nth_error s i = Some c -> is_ascii c = true ->
  is_char_boundary s (S i) = true.
Proof.
  intros s i c Hv H Hc.
  destruct (split_at s i c H) as [Hs Hl].
  rewrite Hs in Hv. apply valid_after_ascii in Hv; [|exact Hc]. destruct Hv as [_ Hv].
  apply valid_starts_ok in Hv.
  replace (S i) with (length (firstn i s ++ [c])) by (rewrite app_length, Hl; simpl; lia).
  rewrite Hs at 1. replace (firstn i s ++ c :: skipn (S i) s) with ((firstn i s ++ [c]) ++ skipn (S i) s)
    by (rewrite <- app_assoc; reflexivity).
  apply bnd_app, Hv.
Qed.

(* in a well-formed string, a boundary is a place where a well-formed suffix starts *)
Lemma bnd_valid_suffix : forall s i,
  utf8_valid s = true -> is_char_boundary s i = true ->
  utf8_valid (firstn i s) = true /\ utf8_valid (skipn i s) = true.
Proof.
  intros s i Hv Hb.
  assert (Hso : starts_ok (skipn i s)).
  { unfold is_char_boundary in Hb.
    destruct (Nat.eqb_spec i 0) as [->|N0]; [simpl; apply valid_starts_ok, Hv|].
    destruct (Nat.eqb_spec i (length s)) as [->|N1]; [rewrite skipn_all; exact I|].
    simpl in Hb. destruct (nth_error s i) eqn:E; [|discriminate].
    rewrite (skipn_nth_cons s i a E). simpl. destruct (is_cont a); [discriminate|reflexivity]. }
  apply utf8_split; [rewrite firstn_skipn; exact Hv|exact Hso].
Qed.

(* ---- slices ---- *)

Lemma slice_some : forall s a b r,
  slice s a b = Some r ->
  r = firstn (b - a) (skipn a s) /\ (a <= b)%nat /\ (b <= length s)%nat /\
  is_char_boundary s a = true /\ is_char_boundary s b = true.
Proof.
  intros s a b r H. unfold slice in H.
  destruct (Nat.leb_spec a b); [|discriminate].
  destruct (Nat.leb_spec b (length s)); [|discriminate].
  destruct (is_char_boundary s a); [|discriminate].
  destruct (is_char_boundary s b); [|discriminate].
  simpl in H. inversion H. auto.
Qed.

Lemma slice_ok : forall s a b,
  (a <= b)%nat -> (b <= length s)%nat ->
  is_char_boundary s a = true -> is_char_boundary s b = true ->
  slice s a b = Some (firstn (b - a) (skipn a s)).
Proof.
  intros s a b H1 H2 H3 H4. unfold slice.
  destruct (Nat.leb_spec a b); [|lia]. destruct (Nat.leb_spec b (length s)); [|lia].
  rewrite H3, H4. reflexivity.
Qed.

Lemma slice_from_eq : forall s a r, slice s a (length s) = Some r -> r = skipn a s.
Proof.
  intros s a r H. apply slice_some in H. destruct H as [-> [H _]].
  apply firstn_all2. rewrite skipn_length. lia.
Qed.

Lemma slice_valid : forall s a b r,
  utf8_valid s = true -> slice s a b = Some r -> utf8_valid r = true.
Proof.
  intros s a b r Hv H. apply slice_some in H. destruct H as [-> [Hab [Hb [Ba Bb]]]].
  destruct (bnd_valid_suffix s a Hv Ba) as [_ V].
  destruct (Nat.eq_dec (b - a) 0) as [E|E]; [rewrite E; reflexivity|].
  (* b - a is a boundary of skipn a s *)
  assert (B2 : is_char_boundary (skipn a s) (b - a) = true).
  { unfold is_char_boundary in Bb |- *.
    destruct (Nat.eqb_spec (b - a) 0); [lia|]. simpl.
    rewrite skipn_length. destruct (Nat.eqb_spec b (length s)) as [->|N].
    - rewrite Nat.eqb_refl. reflexivity.
    - destruct (Nat.eqb_spec b 0); [lia|]. simpl in Bb.
      rewrite nth_error_skipn'. replace (a + (b - a))%nat with b by lia.
      rewrite Bb. apply orb_true_r. }
  apply (bnd_valid_suffix _ _ V B2).
Qed.

(* in an all-ASCII string every position up to the length is a boundary *)
Lemma all_ascii_nth : forall s i c, all_ascii s = true -> nth_error s i = Some c -> is_ascii c = true.
Proof.
  intros s i c H E. unfold all_ascii in H. rewrite forallb_forall in H.
  apply H. eapply nth_error_In, E.
Qed.

Lemma bnd_ascii : forall s i, all_ascii s = true -> (i <= length s)%nat -> is_char_boundary s i = true.
Proof.
  intros s i H Hi. destruct (Nat.eq_dec i (length s)) as [->|N]; [apply bnd_len|].
  destruct (nth_error s i) eqn:E.
  - eapply bnd_nth; [exact E|]. apply ascii_not_cont. eapply all_ascii_nth; eauto.
  - apply nth_error_None in E. lia.
Qed.

Lemma slice_ascii : forall s a b,
  all_ascii s = true -> (a <= b)%nat -> (b <= length s)%nat ->
  slice s a b = Some (firstn (b - a) (skipn a s)).
Proof. intros. apply slice_ok; auto; apply bnd_ascii; auto; lia. Qed.

(* the middle part of an all-ASCII concatenation *)
Lemma slice_mid : forall pre mid post,
  all_ascii (pre ++ mid ++ post) = true ->
  slice (pre ++ mid ++ post) (length pre) (length pre + length mid) = Some mid.
Proof.
  intros pre mid post H. rewrite slice_ascii; [|exact H|lia|rewrite !app_length; lia].
  f_equal. rewrite skipn_app, skipn_all, Nat.sub_diag. simpl.
  replace (length pre + length mid - length pre)%nat with (length mid) by lia.
  rewrite firstn_app, firstn_all, Nat.sub_diag. simpl. apply app_nil_r.
Qed.
