(* ConcPerOrder.v — C03, per order: the ledger of Proofs/ConcInv.v restricted to
   one order id. *)
From PL Require Import Spec.ConcSpec Proofs.ConcBase Proofs.OrderProofs Proofs.ConcInv Proofs.ConcThms.
From Coq Require Import Lia ZifyBool ZifyN.
Local Open Scope N_scope.

Arguments upsert : simpl never.
Arguments remove_key : simpl never.
Arguments wadd : simpl never.
Arguments wsub : simpl never.

Lemma on_zero k x : on k x 0 = 0.
Proof. unfold on. destruct (oid_eqb k x); reflexivity. Qed.

Lemma sumk_nil k : sumk k [] = 0.
Proof. reflexivity. Qed.
Lemma sumk_cons k o m : sumk k (o :: m) = on k (oid_of o) (tot o) + sumk k m.
Proof. reflexivity. Qed.
Lemma sumk_app k a b : sumk k (a ++ b) = sumk k a + sumk k b.
Proof. induction a as [|o a IH]; cbn [app]; rewrite ?sumk_cons, ?sumk_nil; lia. Qed.

Lemma sumk_remove_other k k' m : oid_eqb k k' = false -> sumk k (remove_key k' m) = sumk k m.
Proof.
  intros E. induction m as [|y m IH]; [reflexivity|].
  rewrite remove_key_cons. destruct (oid_eqb k' (oid_of y)) eqn:E2.
  - rewrite IH, sumk_cons. apply oid_eqb_eq in E2. subst k'. unfold on. rewrite E. lia.
  - rewrite !sumk_cons, IH. reflexivity.
Qed.

Lemma sumk_absent k m : idc k m = 0 -> sumk k m = 0.
Proof.
  induction m as [|y m IH]; [reflexivity|].
  rewrite idc_cons, sumk_cons. unfold one, on. destruct (oid_eqb k (oid_of y)); intros H; [lia|].
  rewrite IH by lia. reflexivity.
Qed.

Lemma sumk_upsert k o m :
  idc (oid_of o) m = 0 -> sumk k (upsert o m) = sumk k m + on k (oid_of o) (tot o).
Proof.
  intros H. rewrite upsert_absent by exact H. rewrite sumk_app, sumk_cons, sumk_nil. lia.
Qed.

Lemma sumk_remove k k' m o :
  idc k' m <= 1 -> lookup k' m = Some o ->
  sumk k m = sumk k (remove_key k' m) + on k k' (tot o).
Proof.
  intros Hc L. unfold on. destruct (oid_eqb k k') eqn:E.
  - apply oid_eqb_eq in E. subst k'.
    assert (Hz : idc k (remove_key k m) = 0) by (rewrite idc_remove_key, oid_eqb_refl; reflexivity).
    rewrite (sumk_absent k _ Hz).
    clear Hz. induction m as [|y m IH]; cbn [lookup] in L; [discriminate|].
    rewrite idc_cons in Hc. rewrite sumk_cons. unfold one, on in *.
    destruct (oid_eqb k (oid_of y)) eqn:E2; rewrite ?E2 in *.
    + inversion L; subst y. rewrite sumk_absent by lia. lia.
    + assert (Hc' : idc k m <= 1) by lia. rewrite (IH L Hc'). lia.
  - rewrite sumk_remove_other by exact E. lia.
Qed.

Lemma sumk_resting k m : idc k m <= 1 -> sumk k m = resting_k k m.
Proof.
  unfold resting_k. induction m as [|y m IH]; [reflexivity|].
  rewrite idc_cons, sumk_cons. cbn [lookup]. unfold one, on.
  destruct (oid_eqb k (oid_of y)); intros H.
  - rewrite sumk_absent by lia. lia.
  - rewrite IH by lia. lia.
Qed.

Ltac normK :=
  unfold budk, draink in *; norm;
  cbn [ownkey] in *;
  rewrite ?sumk_app, ?sumk_cons, ?sumk_nil, ?on_zero in *.

Section PerOrder.
Variable mf : order -> N -> mres.
Hypothesis HI : I_cons mf.
Variable k : oid.

Ltac inv H := inversion H; subst; clear H.
Ltac rf Hok :=
  norm; let Hok' := fresh "Hok'" in pose proof Hok as Hok';
  unfold rfacts in Hok;
  first [ destruct Hok as ((?Hle & ?Hu) & ?Eu); rewrite Eu in Hu
        | destruct Hok as (?Hle & ?Hu) ].
Ltac insK HK o m :=
  let Hz := fresh "Hz" in
  assert (Hz : idc (oid_of o) m = 0) by (specialize (HK (oid_of o)); norm; lia);
  pose proof (sumk_upsert k o m Hz) as ?Sk.
Ltac remK HK k' m o L :=
  let Hz := fresh "Hz" in
  assert (Hz : idc k' m <= 1) by (specialize (HK k'); norm; lia);
  pose proof (sumk_remove k k' m o Hz L) as ?Sk;
  pose proof (lookup_oid k' m o L) as ?Hoid; subst k'.
(* split on whether each id in sight is [k] *)
Ltac finK :=
  normK; unfold on, tot in *;
  repeat match goal with
  | |- context [if oid_eqb k ?x then _ else _] =>
      let E := fresh "E" in destruct (oid_eqb k x) eqn:E; rewrite ?E in *
  | H : context [if oid_eqb k ?x then _ else _] |- _ =>
      let E := fresh "E" in destruct (oid_eqb k x) eqn:E; rewrite ?E in *
  end; try lia.
Ltac genK Hstep := inv Hstep; finK.

Lemma tstep_K p s p' s' e :
  tstep mf p s = Some (p', s', e) ->
  pc_ok p ->
  (forall x, idc x (sh_map s) + cnt x (pids p) <= 1) ->
  sumk k (sh_map s) + budk k p = sumk k (sh_map s') + budk k p' + draink k p s.
Proof.
  intros Hstep Hok HK.
  destruct s as [pr cv ch cc m tk st g].
  destruct p; cbn [tstep fetch_add fetch_sub sh_map sh_tk] in *.
  - (* Done *) discriminate.
  - (* A1 *) genK Hstep.
  - (* A2 *) genK Hstep.
  - (* A3 *) genK Hstep.
  - (* A4 *) genK Hstep.
  - (* A5 *) inv Hstep. insK HK o m. finK.
  - (* A6 *) genK Hstep.
  - (* M1 *) destruct tk as [|k' t]; inv Hstep.
    + normK. use_plain (start_finish_asd ml). finK.
    + finK.
  - (* M2 *) rename k0 into k'. destruct (lookup k' m) as [o|] eqn:L; inv Hstep.
    + remK HK k' m o L. pose proof (rfacts_of_I_cons mf o (ml_rem ml) HI) as Hr.
      set (r := mf o (ml_rem ml)) in *.
      destruct ((m_consumed r =? 0) && (m_hidden_reduced r =? 0) && is_some (m_updated r)) eqn:E1;
        [|destruct (0 <? m_consumed r) eqn:E2].
      * normK. use_plain (next_iter_asd (mkMloc (ml_taker ml) (ml_rem ml) (ml_res ml) (ml_aside ml ++ [o]))).
        finK.
      * finK.
      * finK.
    + finK.
  - (* M3 *) inv Hstep. rf Hok. finK.
  - (* M4 *) inv Hstep. rf Hok. finK.
  - (* M5 *) inv Hstep. rf Hok. finK.
  - (* M6 *) inv Hstep. rf Hok. finK.
  - (* M7 *) inv Hstep. rf Hok. unfold after_stats.
    destruct (m_updated r) as [u|] eqn:Eu; [destruct (0 <? m_hidden_reduced r) eqn:E|].
    + finK.
    + destruct Hu as (Hu1 & Hu2 & Hu3). normK. rewrite Hu3 in *. finK.
    + finK.
  - (* M10 *) inv Hstep. rf Hok. finK.
  - (* M11 *) inv Hstep. rf Hok. destruct Hu as (Hu1 & Hu2 & Hu3). normK. rewrite Hu3 in *. finK.
  - (* M12 *) inv Hstep. insK HK u m. finK.
  - (* M13 *) inv Hstep. normK. use_plain (next_iter_asd ml). finK.
  - (* M14 *) inv Hstep. rf Hok. destruct Hu as (Hu1 & Hu2).
    destruct (drops_hidden o r) eqn:Ed.
    + finK.
    + pose proof (drops_hidden_false o r Hu1 Ed). normK. use_plain (next_iter_asd ml). finK.
  - (* M15 *) inv Hstep. normK. use_plain (next_iter_asd ml). finK.
  - (* F1 *) inv Hstep. insK HK o m. finK.
  - (* F2 *) inv Hstep. normK.
    use_plain (start_finish_asd (mkMloc (ml_taker ml) (ml_rem ml) (ml_res ml) rest)). finK.
  - (* C1 *) rename k0 into k'. destruct (lookup k' m) as [o|] eqn:L; inv Hstep.
    + remK HK k' m o L. finK.
    + finK.
  - (* C2 *) genK Hstep.
  - (* C3 *) genK Hstep.
  - (* C4 *) genK Hstep.
  - (* C5 *) genK Hstep.
  - (* U1 *) rename k0 into k'. destruct (lookup k' m) as [o|] eqn:L; inv Hstep; normK; rewrite L; finK.
  - (* U2 *) rename k0 into k'. destruct (lookup k' m) as [old|] eqn:L; inv Hstep.
    + remK HK k' m old L.
      pose proof (with_reduced_bound old nq) as Hw. cbv zeta in Hw. destruct Hw as (Hw1 & Hw2).
      pose proof (oid_with_reduced old nq) as Hw3.
      unfold draink. cbn [drain sh_map]. rewrite L.
      unfold amend_after_remove.
      set (new := with_reduced_quantity old nq) in *.
      destruct (negb (vis old =? vis new)) eqn:E1; [|destruct (negb (hid old =? hid new)) eqn:E2];
        normK; rewrite Hw3 in *; finK.
    + normK. rewrite L. finK.
  - (* U3 *) unfold draink. cbn [drain].
    destruct (vis old <? vis new) eqn:E1; cbn [fetch_add fetch_sub] in Hstep; inv Hstep;
      destruct (negb (hid old =? hid new)) eqn:E2; finK.
  - (* U4 *)
    destruct (hid old <? hid new) eqn:E1; cbn [fetch_add fetch_sub] in Hstep; inv Hstep; finK.
  - (* U5 *) inv Hstep. insK HK new m. finK.
  - (* U6 *) genK Hstep.
  - (* RdV *) genK Hstep.
  - (* RdH *) genK Hstep.
  - (* RdC *) genK Hstep.
  - (* RdL *) genK Hstep.
  - (* G1 *) genK Hstep.
  - (* Sn1 *) genK Hstep.
  - (* Sn2 *) genK Hstep.
  - (* Sn3 *) genK Hstep.
  - (* Sn4 *) genK Hstep.
Qed.

End PerOrder.

(* ---- settle, initial threads ---- *)
Lemma start_budk k price c : budk k (start price c) = call_budk k price c.
Proof.
  unfold budk.
  destruct c as [o|qty taker|u| | | | | |]; cbn [start call_budk];
    try (cbn [asd ownb ownkey]; rewrite sumk_nil, ?on_zero; reflexivity).
  - destruct (next_iter_asd (mkMloc taker qty (result_new taker qty) [])) as (Ha & _ & _ & _ & Hb & _).
    rewrite Ha, Hb, on_zero. reflexivity.
  - destruct u as [k' np|k' nq|k' np nq|k'|k' p q sd];
      try (cbn [asd ownb ownkey]; rewrite sumk_nil, ?on_zero; reflexivity).
    + destruct (np =? price); cbn [asd ownb ownkey]; rewrite sumk_nil, ?on_zero; reflexivity.
    + destruct (np =? price); cbn [asd ownb ownkey]; rewrite sumk_nil, ?on_zero; reflexivity.
    + destruct (p =? price); cbn [asd ownb ownkey]; rewrite sumk_nil, ?on_zero; reflexivity.
Qed.

Lemma settle_tbudk k n price t : tbudk k price (settle_n n price t) = tbudk k price t.
Proof.
  apply (settle_n_measure (tbudk k price)). intros r c cs rets.
  unfold tbudk. cbn [th_pc th_todo]. rewrite start_budk, tsum_cons.
  unfold budk. cbn [asd ownb ownkey]. rewrite sumk_nil, on_zero. lia.
Qed.

Lemma thread_init_tbudk k price cs : tbudk k price (thread_init price cs) = tsum (call_budk k price) cs.
Proof.
  destruct cs as [|c cs]; cbn [thread_init].
  - unfold tbudk, budk. cbn [th_pc th_todo asd ownb ownkey]. rewrite sumk_nil, on_zero. reflexivity.
  - rewrite settle_tbudk. unfold tbudk. cbn [th_pc th_todo]. rewrite start_budk, tsum_cons. reflexivity.
Qed.

Section PerOrderStep.
Variable mf : order -> N -> mres.
Hypothesis HI : I_cons mf.
Variable k : oid.

Lemma cstep_ledger_k c i c' e t :
  Inv c -> nth_error (cf_threads c) i = Some t -> cstep mf c i = Some (c', e) ->
  SuppliedK k c = SuppliedK k c' + draink k (th_pc t) (cf_sh c).
Proof.
  intros Hinv Hn Hstep.
  destruct (cstep_inv_ledger mf HI c i c' e t Hinv Hn Hstep) as (_ & _ & _ & Hpr').
  destruct (cstep_unfold mf _ _ _ _ Hstep) as (t0 & p' & s' & Hn0 & Ht & Ec').
  rewrite Hn in Hn0. assert (t0 = t) by congruence. subst t0. clear Hn0.
  destruct Hinv as (_ & HKc & Hpok & _).
  pose proof (Forall_nth _ _ _ _ Hpok Hn) as Hokp.
  assert (HKl : forall x, idc x (sh_map (cf_sh c)) + cnt x (pids (th_pc t)) <= 1).
  { intros x. specialize (HKc x).
    rewrite (tsum_split (fun t => cnt x (tids t)) i _ t Hn) in HKc.
    unfold tids in HKc. rewrite cnt_app in HKc. lia. }
  pose proof (tstep_K mf HI k _ _ _ _ _ Ht Hokp HKl) as Hk.
  unfold SuppliedK. subst c'. cbn [cf_sh cf_threads] in *. rewrite Hpr'.
  rewrite (tsum_split (tbudk k (sh_price (cf_sh c))) i _ t Hn).
  rewrite (tsum_update (tbudk k (sh_price (cf_sh c))) i _ t _ Hn).
  rewrite settle_tbudk. unfold tbudk. cbn [th_pc th_todo]. lia.
Qed.

Lemma exec_ledger_k sched : forall c g,
  Inv c ->
  lg_total (run_ledger_k mf k sched c g) + SuppliedK k (fst (exec mf sched c)) = lg_total g + SuppliedK k c.
Proof.
  induction sched as [|i rest IH]; intros c g Hc; cbn [exec run_ledger_k].
  - reflexivity.
  - destruct (cstep mf c i) as [[c' e]|] eqn:Hs.
    + destruct (cstep_thread mf _ _ _ _ Hs) as (t & Hn). rewrite Hn.
      pose proof (cstep_ledger_k c i c' e t Hc Hn Hs) as A.
      pose proof (cstep_Inv mf HI _ _ _ _ Hc Hs) as Hc'.
      specialize (IH c' (lg_add g (drain_kind (th_pc t)) (draink k (th_pc t) (cf_sh c))) Hc').
      destruct (exec mf rest c') as [c'' tr]. cbn [fst] in *.
      rewrite IH, A.
      destruct (drain_kind (th_pc t)) eqn:Ek; unfold lg_total, lg_add; cbn [lg_exec lg_ret lg_disc lg_amend]; try lia.
      assert (draink k (th_pc t) (cf_sh c) = 0).
      { unfold draink. destruct (th_pc t); try discriminate; cbn [drain]; apply on_zero. }
      lia.
    + destruct (nth_error (cf_threads c) i); apply IH; exact Hc.
Qed.

End PerOrderStep.

(* ---- quiescent and initial configurations ---- *)
Lemma quiescent_SuppliedK k c : Inv c -> quiescent c = true ->
  SuppliedK k c = resting_k k (sh_map (cf_sh c)).
Proof.
  intros (_ & HK & _) Hq. unfold SuppliedK.
  assert (Z : tsum (tbudk k (sh_price (cf_sh c))) (cf_threads c) = 0).
  { unfold quiescent in Hq. rewrite forallb_forall in Hq. apply tsum_zero. intros t Ht.
    destruct (thread_finished_pc t (Hq t Ht)) as (r & Hp & Htd).
    unfold tbudk, budk. rewrite Hp, Htd. cbn [asd ownb ownkey tsum fold_right].
    rewrite sumk_nil, on_zero. reflexivity. }
  rewrite Z, sumk_resting; [lia|]. specialize (HK k). lia.
Qed.

Lemma init_SuppliedK k l gen progs :
  NoDup (ids (resting l)) ->
  SuppliedK k (init_config l gen progs) = resting_k k (resting l) + prog_budk k (price l) progs.
Proof.
  intros Hnd. unfold SuppliedK, init_config, prog_budk, resting in *.
  cbn [cf_sh cf_threads shared_of_level sh_map sh_price]. rewrite tsum_map.
  rewrite (tsum_ext _ (fun cs => tsum (call_budk k (price l)) cs)) by (intros cs; apply thread_init_tbudk).
  rewrite sumk_resting; [reflexivity|]. apply (NoDup_cnt_le1 _ Hnd k).
Qed.

(* the statement used by Properties/C03.v *)
Lemma per_order_ledger mf : I_cons mf ->
  forall k l gen progs sched,
    wf_progs l progs ->
    let c0 := init_config l gen progs in
    let c := fst (exec mf sched c0) in
    let g := run_ledger_k mf k sched c0 ledger0 in
    quiescent c = true ->
    resting_k k (sh_map (cf_sh c)) + lg_exec g + lg_ret g + lg_disc g + lg_amend g =
    resting_k k (resting l) + prog_budk k (price l) progs.
Proof.
  intros HI k l gen progs sched Hwf c0 c g Hq.
  pose proof (init_Inv l gen progs Hwf) as H0. fold c0 in H0.
  destruct (exec_Inv mf HI sched c0 H0) as (Hc & _). fold c in Hc.
  pose proof (exec_ledger_k mf HI k sched c0 ledger0 H0) as HL. fold c in HL. fold g in HL.
  rewrite (quiescent_SuppliedK k c Hc Hq) in HL.
  pose proof (Inv_NoDup _ H0) as Hnd. unfold c0, init_config in Hnd.
  cbn [cf_sh shared_of_level sh_map] in Hnd. fold (resting l) in Hnd.
  unfold c0 in HL. rewrite (init_SuppliedK k l gen progs Hnd) in HL.
  unfold lg_total in HL. cbn [lg_exec lg_ret lg_disc lg_amend ledger0] in HL. lia.
Qed.
