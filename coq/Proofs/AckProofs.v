(* AckProofs.v — C13: linearisation of not-found answers, the held/absent
   dichotomy (finding K4), ownership uniqueness and what a successful cancel
   guarantees afterwards. *)
From PL Require Import Spec.CovSpec Proofs.ConcLemmas Proofs.OrderProofs Proofs.CovProofs.
From Coq Require Import Lia Permutation.
Local Open Scope N_scope.

(* ---------------- list helpers ---------------- *)
Lemma NoDup_app_iff {A} (l1 l2 : list A) :
  NoDup (l1 ++ l2) <-> NoDup l1 /\ NoDup l2 /\ (forall x, In x l1 -> In x l2 -> False).
Proof.
  induction l1 as [|a l1 IH]; cbn.
  - split; [intros H; repeat split; [constructor | exact H | intros x []] | intros (_ & H & _); exact H].
  - split.
    + intros H. inversion H as [|? ? Hn Hd]; subst. apply IH in Hd. destruct Hd as (H1 & H2 & H3).
      repeat split; [constructor; [|exact H1] | exact H2 |].
      * intros Hi. apply Hn. apply in_or_app. left. exact Hi.
      * intros x [->|Hx] Hx2; [apply Hn; apply in_or_app; right; exact Hx2 | eapply H3; eassumption].
    + intros (H1 & H2 & H3). inversion H1 as [|? ? Hn Hd]; subst. constructor.
      * intros Hi. apply in_app_or in Hi. destruct Hi as [Hi|Hi]; [contradiction|].
        eapply H3; [left; reflexivity | exact Hi].
      * apply IH. repeat split; [exact Hd | exact H2 |]. intros x Hx. apply H3. right. exact Hx.
Qed.

Lemma NoDup_flat_map_disjoint {A B} (f : A -> list B) (l : list A) :
  NoDup (flat_map f l) ->
  forall i j a b, i <> j -> nth_error l i = Some a -> nth_error l j = Some b ->
  forall x, In x (f a) -> In x (f b) -> False.
Proof.
  induction l as [|y l IH]; intros Hd i j a b Hne Hi Hj x Ha Hb.
  - destruct i; discriminate.
  - cbn in Hd. apply NoDup_app_iff in Hd. destruct Hd as (H1 & H2 & H3).
    destruct i as [|i], j as [|j]; cbn in Hi, Hj.
    + congruence.
    + inversion Hi; subst. apply (H3 x Ha). apply in_flat_map. exists b.
      split; [eapply nth_error_In; exact Hj | exact Hb].
    + inversion Hj; subst. apply (H3 x Hb). apply in_flat_map. exists a.
      split; [eapply nth_error_In; exact Hi | exact Ha].
    + eapply (IH H2 i j a b); try eassumption. congruence.
Qed.

Lemma ids_remove_key_perm k m o :
  lookup k m = Some o -> NoDup (ids m) -> Permutation (ids m) (k :: ids (remove_key k m)).
Proof.
  induction m as [|y m IH]; [discriminate|].
  rewrite remove_key_cons. cbn [lookup ids map]. intros Hl Hd.
  inversion Hd as [|? ? Hn Hd']; subst.
  destruct (oid_eqb k (oid_of y)) eqn:E.
  - apply oid_eqb_eq in E. subst k.
    rewrite remove_key_none; [reflexivity|]. apply lookup_none_ids. exact Hn.
  - eapply perm_trans; [apply perm_skip, (IH Hl Hd') | apply perm_swap].
Qed.

(* ---------------- program points ---------------- *)
Lemma owned_start_finish ml : owned (start_finish ml) = aside_ids ml.
Proof. unfold start_finish, aside_ids. destruct (ml_aside ml); reflexivity. Qed.

Lemma owned_next_iter ml : owned (next_iter ml) = aside_ids ml.
Proof. unfold next_iter. destruct (ml_rem ml =? 0); [apply owned_start_finish | reflexivity]. Qed.

Lemma held_start_finish ml : held_ids (start_finish ml) = aside_ids ml.
Proof. unfold start_finish, aside_ids. destruct (ml_aside ml); reflexivity. Qed.

Lemma held_next_iter ml : held_ids (next_iter ml) = aside_ids ml.
Proof. unfold next_iter. destruct (ml_rem ml =? 0); [apply held_start_finish | reflexivity]. Qed.

Lemma pc_ok_start_finish ml : pc_ok (start_finish ml).
Proof. unfold start_finish. destruct (ml_aside ml); exact I. Qed.

Lemma pc_ok_next_iter ml : pc_ok (next_iter ml).
Proof. unfold next_iter. destruct (ml_rem ml =? 0); [apply pc_ok_start_finish | exact I]. Qed.

Lemma owned_start pr c : owned (start pr c) = add_id c.
Proof.
  destruct c as [o|qty taker|u| | | | | |]; cbn [start add_id]; try reflexivity.
  - rewrite owned_next_iter. reflexivity.
  - destruct u; cbn; try reflexivity;
      match goal with |- context [if ?b then _ else _] => destruct b end; reflexivity.
Qed.

Lemma held_start pr c : held_ids (start pr c) = [].
Proof.
  destruct c as [o|qty taker|u| | | | | |]; cbn [start]; try reflexivity.
  - rewrite held_next_iter. reflexivity.
  - destruct u; cbn; try reflexivity;
      match goal with |- context [if ?b then _ else _] => destruct b end; reflexivity.
Qed.

Lemma pc_ok_start pr c : pc_ok (start pr c).
Proof.
  destruct c as [o|qty taker|u| | | | | |]; cbn [start]; try exact I.
  - apply pc_ok_next_iter.
  - destruct u; cbn; try exact I;
      match goal with |- context [if ?b then _ else _] => destruct b end; exact I.
Qed.

Lemma holds_owned p k : In k (held_ids p) -> In k (owned p).
Proof.
  destruct p; cbn [held_ids owned]; auto;
    try (intros [];fail);
    (intros H; apply in_app_or in H; destruct H as [H|H]; [|right; exact H];
     destruct (is_some (m_updated r)); [destruct H as [H|[]]; left; exact H | destruct H]).
Qed.

Lemma thread_ids_settle pr t : thread_ids (settle pr t) = thread_ids t.
Proof.
  unfold settle. destruct (th_pc t) eqn:Ep; try reflexivity.
  destruct (th_todo t) as [|c cs] eqn:Et; [reflexivity|].
  unfold thread_ids. cbn [th_pc th_todo]. rewrite Ep, Et, owned_start. reflexivity.
Qed.

Lemma thread_ids_settle_n n pr t : thread_ids (settle_n n pr t) = thread_ids t.
Proof.
  revert t. induction n as [|n IH]; intros t; cbn; [reflexivity|].
  destruct (th_pc t) eqn:Ep; try reflexivity.
  destruct (th_todo t) as [|c cs] eqn:Et; [reflexivity|].
  rewrite IH. apply thread_ids_settle.
Qed.

Lemma thread_ids_init pr cs : thread_ids (thread_init pr cs) = todo_adds cs.
Proof.
  destruct cs as [|c cs]; [reflexivity|].
  unfold thread_init. rewrite thread_ids_settle_n. unfold thread_ids. cbn [th_pc th_todo].
  rewrite owned_start. reflexivity.
Qed.

Section WithMf.
Variable mf : order -> N -> mres.

Ltac tstep_inv H :=
  cbn [tstep] in H; unfold fetch_add, fetch_sub in H;
  repeat match type of H with
  | context [match sh_tk ?s with _ => _ end] => destruct (sh_tk s) eqn:?
  | context [match lookup ?k ?m with _ => _ end] => destruct (lookup k m) eqn:?
  | context [if vis ?a <? vis ?b then _ else _] => destruct (vis a <? vis b) eqn:?
  | context [if hid ?a <? hid ?b then _ else _] => destruct (hid a <? hid b) eqn:?
  end;
  inversion H; subst; clear H.

Lemma thread_ids_stepped t p' s' :
  thread_ids (stepped t p' s') = owned p' ++ todo_adds (th_todo t).
Proof. unfold stepped. rewrite thread_ids_settle_n. reflexivity. Qed.

(* ================= 5. a not-found answer is linearised at its step ================= *)

Lemma tstep_notfound p s s' e k :
  at_lookup p k -> tstep mf p s = Some (Done (RetUpd (UOk None)), s', e) ->
  lookup k (sh_map s) = None /\ s' = s /\ (e = ERemove k None \/ e = EGet k None).
Proof.
  intros [->|[(nq & ->)|(nq & ->)]] H; cbn [tstep] in H;
    destruct (lookup k (sh_map s)) eqn:El; try discriminate.
  - inversion H; subst. auto.
  - inversion H; subst. auto.
  - unfold amend_after_remove in H.
    repeat match type of H with context [if ?b then _ else _] => destruct b end; discriminate.
  - inversion H; subst. auto.
Qed.

Lemma notfound_lin c i k :
  answers_notfound mf c i k -> lookup k (sh_map (cf_sh c)) = None.
Proof.
  intros (t & s' & e & Hn & Hat & Ht). eapply tstep_notfound; eassumption.
Qed.

(* the same on [cstep]: the step is taken, leaves the shared memory unchanged and
   is recorded as a failed remove / get of k *)
Lemma notfound_lin_cstep c i k :
  answers_notfound mf c i k ->
  exists c' e, cstep mf c i = Some (c', e) /\ cf_sh c' = cf_sh c /\
               (e = ERemove k None \/ e = EGet k None) /\
               lookup k (sh_map (cf_sh c)) = None.
Proof.
  intros (t & s' & e & Hn & Hat & Ht).
  destruct (tstep_notfound _ _ _ _ _ Hat Ht) as (Hl & -> & He).
  unfold cstep. rewrite Hn, Ht. eexists _, e. split; [reflexivity|]. cbn. auto.
Qed.

(* ================= 6. absent but held ================= *)

Lemma holds_dec p k : {holds p k} + {~ holds p k}.
Proof. apply in_dec, oid_eq_dec. Qed.

Lemma held_by_dec_list (ts : list thread) k :
  {exists j t, nth_error ts j = Some t /\ holds (th_pc t) k} +
  {forall j t, nth_error ts j = Some t -> ~ holds (th_pc t) k}.
Proof.
  induction ts as [|t ts IH].
  - right. intros [|j] t; discriminate.
  - destruct (holds_dec (th_pc t) k) as [H|H].
    + left. exists O, t. split; [reflexivity | exact H].
    + destruct IH as [IH|IH].
      * left. destruct IH as (j & t' & Hj & Hh). exists (S j), t'. split; assumption.
      * right. intros [|j] t' Hj; cbn in Hj; [inversion Hj; subst; exact H | eapply IH; exact Hj].
Qed.

(* In any configuration an id that is not in the map is either really absent
   from the book, or in the hands of a thread that will put it back (class K4). *)
Lemma absent_but_held c k :
  lookup k (sh_map (cf_sh c)) = None ->
  (~ in_book c k /\ forall j, ~ held_by c j k) \/ (exists j, held_by c j k).
Proof.
  intros Hl. destruct (held_by_dec_list (cf_threads c) k) as [(j & t & Hj & Hh)|Hn].
  - right. exists j, t. split; assumption.
  - left. assert (Hnh : forall j, ~ held_by c j k).
    { intros j (t & Hj & Hh). exact (Hn j t Hj Hh). }
    split; [|exact Hnh]. intros [H|(j & H)]; [congruence | exact (Hnh j H)].
Qed.

Lemma at_lookup_holds_nothing p k k' : at_lookup p k -> ~ holds p k'.
Proof. intros [->|[(nq & ->)|(nq & ->)]] []. Qed.

(* The exact form of C13's first clause: a not-found answer is truthful, except
   when ANOTHER thread holds the order between its map remove and its re-insert. *)
Theorem notfound_dichotomy c i k :
  answers_notfound mf c i k ->
  lookup k (sh_map (cf_sh c)) = None /\
  ((~ in_book c k /\ forall j, ~ held_by c j k) \/ (exists j, j <> i /\ held_by c j k)).
Proof.
  intros Ha. pose proof (notfound_lin _ _ _ Ha) as Hl. split; [exact Hl|].
  destruct (absent_but_held c k Hl) as [H|(j & Hj)]; [left; exact H|].
  right. exists j. split; [|exact Hj].
  intros ->. destruct Ha as (t & _ & _ & Hn & Hat & _). destruct Hj as (t' & Hn' & Hh).
  rewrite Hn in Hn'. inversion Hn'; subst t'. exact (at_lookup_holds_nothing _ _ _ Hat Hh).
Qed.

Theorem notfound_truthful c i k :
  answers_notfound mf c i k -> (forall j, ~ held_by c j k) -> ~ in_book c k.
Proof.
  intros Ha Hn. destruct (notfound_dichotomy _ _ _ Ha) as (_ & [[H _]|(j & _ & Hj)]); [exact H|].
  exfalso. exact (Hn j Hj).
Qed.

(* "if the order was resting before the call began and nothing removes it, the call finds it" *)
Lemma cell_after_no_remove k tr : forall cur,
  cur <> None -> (forall j r, ~ In (j, ERemove k r) tr) -> cell_after k cur tr <> None.
Proof.
  induction tr as [|[i e] tr IH]; intros cur Hc Hn; [exact Hc|].
  change (cell_after k cur ((i, e) :: tr)) with (cell_after k (track k cur e) tr).
  apply IH.
  - destruct e as [ | | | o | k' r | | | | ]; cbn [track]; try exact Hc.
    + destruct (oid_eqb k (oid_of o)); [discriminate | exact Hc].
    + destruct (oid_eqb k k') eqn:E; [|exact Hc].
      apply oid_eqb_eq in E. subst k'. exfalso. apply (Hn i r). left. reflexivity.
  - intros j r Hin. apply (Hn j r). right. exact Hin.
Qed.

Theorem resting_found sched c c' tr i k :
  exec mf sched c = (c', tr) ->
  lookup k (sh_map (cf_sh c)) <> None ->
  (forall j r, ~ In (j, ERemove k r) tr) ->
  lookup k (sh_map (cf_sh c')) <> None /\ ~ answers_notfound mf c' i k.
Proof.
  intros He Hl Hn.
  destruct (exec_cell mf k sched _ _ _ He) as (_ & Hc).
  assert (H : lookup k (sh_map (cf_sh c')) <> None).
  { rewrite Hc. apply cell_after_no_remove; assumption. }
  split; [exact H|]. intros Ha. apply H. eapply notfound_lin. exact Ha.
Qed.

(* ================= local consistency of program points ================= *)

Hypothesis Hid : I_id mf.

Lemma tstep_pc_ok p s p' s' e : pc_ok p -> tstep mf p s = Some (p', s', e) -> pc_ok p'.
Proof.
  intros Hok H.
  destruct p; tstep_inv H; cbn [pc_ok] in *; try exact I; try exact Hok;
    try apply pc_ok_next_iter; try apply pc_ok_start_finish.
  - (* M2 *)
    repeat match goal with |- context [if ?b then _ else _] => destruct b end;
      try apply pc_ok_next_iter; cbn [pc_ok];
      intros u Hu; apply Hid in Hu; apply same_identity_oid in Hu; congruence.
  - (* M7 *)
    unfold after_stats. destruct (m_updated r) as [u|] eqn:Eu; [|exact I].
    destruct (0 <? m_hidden_reduced r); cbn [pc_ok]; [apply Hok; reflexivity | exact I].
  - (* M14 *)
    destruct (drops_hidden o r); [exact I | apply pc_ok_next_iter].
  - (* U2 *)
    unfold amend_after_remove.
    repeat match goal with |- context [if ?b then _ else _] => destruct b end; exact I.
  - (* U3 *)
    match goal with |- context [if ?b then _ else _] => destruct b end; exact I.
  - match goal with |- context [if ?b then _ else _] => destruct b end; exact I.
Qed.

Lemma PcOk_step c i c' e : PcOk c -> cstep mf c i = Some (c', e) -> PcOk c'.
Proof.
  intros HP Hs.
  destruct (cstep_inv mf _ _ _ _ Hs) as (t & p' & s' & Hn & Ht & ->).
  intros j tj Hj. cbn [cf_threads] in Hj.
  apply nth_error_update_nth_inv in Hj. destruct Hj as [[-> ->]|[Hne Hj]]; [|eapply HP; exact Hj].
  destruct (stepped_pc t p' s') as [E|(_ & [(r & E)|(c0 & _ & E)])]; rewrite E.
  - eapply tstep_pc_ok; [eapply HP; exact Hn | exact Ht].
  - exact I.
  - apply pc_ok_start.
Qed.

Lemma PcOk_init l gen progs : PcOk (init_config l gen progs).
Proof.
  intros i t Hn. cbn in Hn. rewrite nth_error_map in Hn.
  destruct (nth_error progs i) as [cs|]; [|discriminate]. inversion Hn; subst. clear Hn.
  destruct cs as [|c cs]; [exact I|]. unfold thread_init.
  destruct (settle_n_pc (S (length cs)) (price l) (mkThread (start (price l) c) cs []))
    as [E|(_ & _ & [(r & E)|(c0 & _ & E)])]; rewrite E; [apply pc_ok_start | exact I | apply pc_ok_start].
Qed.

Lemma PcOk_exec sched c : PcOk c -> PcOk (fst (exec mf sched c)).
Proof. apply exec_invariant. intros c0 i c' e. apply PcOk_step. Qed.

(* A thread that holds k keeps holding it until its own insert of an order with id k:
   it cannot return from its call without putting the order back. *)
Lemma holds_until_insert p s p' s' e k :
  pc_ok p -> holds p k -> tstep mf p s = Some (p', s', e) ->
  holds p' k \/ exists o, e = EInsert o /\ oid_of o = k.
Proof.
  unfold holds. intros Hok Hh H.
  destruct p; tstep_inv H; cbn [held_ids pc_ok] in *; try contradiction;
    rewrite ?held_next_iter, ?held_start_finish; try (left; exact Hh).
  - (* M2, found *)
    left.
    repeat match goal with |- context [if ?b then _ else _] => destruct b end;
      rewrite ?held_next_iter; unfold aside_ids in *; cbn [held_ids ml_aside];
      unfold aside_ids; rewrite ?ids_app; apply in_or_app; auto.
  - (* M7 *)
    unfold after_stats. destruct (m_updated r) as [u|] eqn:Eu; cbn [is_some] in Hh.
    + destruct (0 <? m_hidden_reduced r); cbn [held_ids]; left.
      * exact Hh.
      * destruct Hh as [Hh|Hh]; [left; rewrite (Hok u eq_refl); exact Hh | right; exact Hh].
    + left. exact Hh.
  - (* M11 *)
    left. destruct Hh as [Hh|Hh]; [left; congruence | right; exact Hh].
  - (* M12 *)
    destruct Hh as [Hh|Hh]; [right; eexists; split; [reflexivity | exact Hh] | left; exact Hh].
  - (* M14 *)
    left. destruct (drops_hidden o r); [exact Hh | rewrite held_next_iter; exact Hh].
  - (* F1 *)
    destruct Hh as [Hh|Hh]; [right; eexists; split; [reflexivity | exact Hh] | left; exact Hh].
  - (* U3 *)
    left. match goal with |- context [if ?b then _ else _] => destruct b end; exact Hh.
  - left. match goal with |- context [if ?b then _ else _] => destruct b end; exact Hh.
  - (* U5 *)
    destruct Hh as [Hh|[]]. right. eexists; split; [reflexivity | exact Hh].
Qed.

Lemma held_persist c i c' e j k :
  PcOk c -> held_by c j k -> cstep mf c i = Some (c', e) ->
  held_by c' j k \/ (i = j /\ exists o, e = EInsert o /\ oid_of o = k).
Proof.
  intros HP (tj & Hj & Hh) Hs.
  destruct (cstep_inv mf _ _ _ _ Hs) as (t & p' & s' & Hn & Ht & ->).
  destruct (Nat.eq_dec i j) as [->|Hne].
  - rewrite Hn in Hj. inversion Hj; subst tj.
    destruct (holds_until_insert _ _ _ _ _ _ (HP _ _ Hn) Hh Ht) as [H|H]; [|right; auto].
    left. exists (stepped t p' s'). split; [eapply nth_error_update_nth_eq; exact Hn|].
    rewrite stepped_not_done; [exact H|]. intros r ->. exact H.
  - left. exists tj. split; [|exact Hh]. cbn. rewrite nth_error_update_nth_neq by assumption. exact Hj.
Qed.

(* ================= 7. ownership ================= *)

Lemma tstep_insert_owned p s p' s' o :
  tstep mf p s = Some (p', s', EInsert o) -> In (oid_of o) (owned p).
Proof.
  intros H. destruct p; tstep_inv H; cbn [owned]; left; reflexivity.
Qed.

(* the effect of one step on the map and on what the stepping thread owns *)
Lemma tstep_own p s p' s' e :
  pc_ok p -> tstep mf p s = Some (p', s', e) ->
  (sh_map s' = sh_map s /\ (owned p' = owned p \/ exists x, owned p = x :: owned p')) \/
  (exists o, sh_map s' = upsert o (sh_map s) /\ owned p = oid_of o :: owned p') \/
  (exists k o, lookup k (sh_map s) = Some o /\ sh_map s' = remove_key k (sh_map s) /\
     (owned p' = owned p \/ owned p' = k :: owned p \/ owned p' = owned p ++ [k])).
Proof.
  intros Hok H.
  destruct p; tstep_inv H; cbn [owned pc_ok] in *;
    rewrite ?owned_next_iter, ?owned_start_finish, ?sh_map_set_obj;
    try (left; split; [reflexivity | left; reflexivity]);
    try (right; left; eexists; split; reflexivity).
  - (* M2, found *)
    right; right. match goal with E : lookup ?k _ = Some ?o |- _ =>
      exists k, o; destruct (lookup_some _ _ _ E) as (Ho & _) end.
    split; [assumption|]. split; [reflexivity|].
    repeat match goal with |- context [if ?b then _ else _] => destruct b end;
      rewrite ?owned_next_iter; cbn [owned]; unfold aside_ids; cbn [ml_aside];
      rewrite ?ids_app; cbn [ids map]; rewrite ?Ho; auto.
  - (* M7 *)
    left. split; [reflexivity|]. unfold after_stats.
    destruct (m_updated r) as [u|] eqn:Eu.
    + destruct (0 <? m_hidden_reduced r); cbn [owned ml_set_rem aside_ids ml_aside]; left;
        [reflexivity | rewrite (Hok u eq_refl); reflexivity].
    + right. eexists. reflexivity.
  - (* M11 *)
    left. split; [reflexivity|]. left. rewrite Hok. reflexivity.
  - (* M14 *)
    left. split; [reflexivity|]. left.
    destruct (drops_hidden o r); [reflexivity | rewrite owned_next_iter; reflexivity].
  - (* C1 found *)
    right; right. match goal with E : lookup ?k _ = Some ?o |- _ => exists k, o end.
    split; [assumption|]. split; [reflexivity|]. left. reflexivity.
  - (* U2 found *)
    right; right. match goal with E : lookup ?k _ = Some ?o |- _ =>
      exists k, o; destruct (lookup_some _ _ _ E) as (Ho & _) end.
    split; [assumption|]. split; [reflexivity|]. right; left.
    unfold amend_after_remove.
    repeat match goal with |- context [if ?b then _ else _] => destruct b end;
      cbn [owned]; rewrite oid_with_reduced, Ho; reflexivity.
  - (* U3 *)
    left. split; [reflexivity|]. left.
    match goal with |- context [if ?b then _ else _] => destruct b end; reflexivity.
  - left. split; [reflexivity|]. left.
    match goal with |- context [if ?b then _ else _] => destruct b end; reflexivity.
Qed.

Lemma Own_update c i t t' s' :
  Own c -> nth_error (cf_threads c) i = Some t ->
  NoDup (ids (sh_map s') ++ thread_ids t') ->
  (forall k, In k (ids (sh_map s') ++ thread_ids t') ->
             In k (ids (sh_map (cf_sh c)) ++ thread_ids t)) ->
  Own (mkConfig s' (update_nth i t' (cf_threads c))).
Proof.
  intros (HM & HT & HP) Hn Hd Hin.
  apply NoDup_app_iff in Hd. destruct Hd as (Hd1 & Hd2 & Hd3).
  destruct (HT _ _ Hn) as (HTi1 & HTi2).
  assert (Hfresh : forall j tj, j <> i -> nth_error (cf_threads c) j = Some tj ->
            forall k, In k (thread_ids tj) -> In k (ids (sh_map s') ++ thread_ids t') -> False).
  { intros j tj Hne Hj k Hk Hk'. apply Hin in Hk'. apply in_app_or in Hk'. destruct Hk' as [Hk'|Hk'].
    - destruct (HT _ _ Hj) as (_ & Hdj). exact (Hdj k Hk Hk').
    - exact (HP j i tj t Hne Hj Hn k Hk Hk'). }
  unfold Own. cbn [cf_sh cf_threads]. split; [exact Hd1|]. split.
  - intros j tj Hj. apply nth_error_update_nth_inv in Hj. destruct Hj as [[-> ->]|[Hne Hj]].
    + split; [exact Hd2|]. intros k H1 H2. exact (Hd3 k H2 H1).
    + split; [apply (HT _ _ Hj)|]. intros k H1 H2.
      eapply (Hfresh j tj Hne Hj k H1). apply in_or_app. left. exact H2.
  - intros j1 j2 t1 t2 Hne H1 H2 k Hk1 Hk2.
    apply nth_error_update_nth_inv in H1. apply nth_error_update_nth_inv in H2.
    destruct H1 as [[-> ->]|[Hn1 H1]], H2 as [[-> ->]|[Hn2 H2]].
    + congruence.
    + eapply (Hfresh j2 t2 Hn2 H2 k Hk2). apply in_or_app. right. exact Hk1.
    + eapply (Hfresh j1 t1 Hn1 H1 k Hk1). apply in_or_app. right. exact Hk2.
    + exact (HP j1 j2 t1 t2 Hne H1 H2 k Hk1 Hk2).
Qed.

Lemma Own_step c i c' e : PcOk c -> Own c -> cstep mf c i = Some (c', e) -> Own c'.
Proof.
  intros HPc HO Hs.
  destruct (cstep_inv mf _ _ _ _ Hs) as (t & p' & s' & Hn & Ht & ->).
  pose proof HO as (HM & HT & _). destruct (HT _ _ Hn) as (HTi1 & HTi2).
  assert (Hall : NoDup (ids (sh_map (cf_sh c)) ++ thread_ids t)).
  { apply NoDup_app_iff. repeat split; [exact HM | exact HTi1 |]. intros k H1 H2. exact (HTi2 k H2 H1). }
  (* it is enough to exhibit the new id list, up to dropped ids, as a permutation of the old *)
  assert (Hperm : exists D, Permutation (ids (sh_map (cf_sh c)) ++ thread_ids t)
                                        (D ++ ids (sh_map s') ++ thread_ids (stepped t p' s'))).
  { rewrite thread_ids_stepped. unfold thread_ids in *.
    set (M := ids (sh_map (cf_sh c))) in *. set (td := todo_adds (th_todo t)) in *.
    destruct (tstep_own _ _ _ _ _ (HPc _ _ Hn) Ht)
      as [(Hm & [Ho|(x & Ho)])|[(o & Hm & Ho)|(k & o & Hl & Hm & Ho)]]; rewrite Hm.
    - exists []. rewrite Ho. reflexivity.
    - exists [x]. rewrite Ho. cbn. symmetry. apply Permutation_middle.
    - exists []. rewrite Ho in *. cbn [app].
      rewrite ids_upsert_fresh.
      + rewrite <- app_assoc. reflexivity.
      + intros Hi. apply (HTi2 (oid_of o)); [left; reflexivity | exact Hi].
    - pose proof (ids_remove_key_perm _ _ _ Hl HM) as HPm. fold M in HPm.
      destruct Ho as [Ho|[Ho|Ho]]; rewrite Ho.
      + exists [k]. cbn. apply (Permutation_app_tail _ HPm).
      + exists []. cbn. eapply perm_trans; [apply (Permutation_app_tail _ HPm)|].
        cbn. apply Permutation_middle.
      + exists []. cbn. eapply perm_trans; [apply (Permutation_app_tail _ HPm)|].
        cbn. eapply perm_trans; [apply Permutation_middle|].
        apply Permutation_app_head. rewrite <- app_assoc. cbn. apply Permutation_middle. }
  destruct Hperm as (D & HPm).
  eapply Own_update; [exact HO | exact Hn | |].
  - pose proof (Permutation_NoDup HPm Hall) as HD. apply NoDup_app_iff in HD. apply HD.
  - intros k Hk. eapply Permutation_in; [symmetry; exact HPm|]. apply in_or_app. right. exact Hk.
Qed.

Lemma Own_init l gen progs : FreshAdds l progs -> Own (init_config l gen progs).
Proof.
  unfold FreshAdds. intros H. apply NoDup_app_iff in H. destruct H as (H1 & H2 & H3).
  unfold Own, init_config. cbn [cf_sh cf_threads shared_of_level sh_map].
  split; [exact H1|]. split.
  - intros i t Hn. rewrite nth_error_map in Hn.
    destruct (nth_error progs i) as [cs|] eqn:Ep; [|discriminate]. inversion Hn; subst. clear Hn.
    rewrite thread_ids_init. split.
    + clear H3 H1. revert i Ep. induction progs as [|p ps IH]; intros [|i] Ep; try discriminate.
      * inversion Ep; subst. cbn in H2. apply NoDup_app_iff in H2. apply H2.
      * cbn in H2. apply NoDup_app_iff in H2. eapply IH; [apply H2 | exact Ep].
    + intros k Hk Hm. apply (H3 k Hm). apply in_flat_map. exists cs.
      split; [eapply nth_error_In; exact Ep | exact Hk].
  - intros i j ti tj Hne Hi Hj k Hki Hkj. rewrite nth_error_map in Hi, Hj.
    destruct (nth_error progs i) as [ci|] eqn:Ei; [|discriminate].
    destruct (nth_error progs j) as [cj|] eqn:Ej; [|discriminate].
    inversion Hi; subst. inversion Hj; subst. rewrite thread_ids_init in Hki, Hkj.
    exact (NoDup_flat_map_disjoint todo_adds progs H2 i j ci cj Hne Ei Ej k Hki Hkj).
Qed.

Definition OwnOk (c : config) : Prop := PcOk c /\ Own c.

Lemma OwnOk_step c i c' e : OwnOk c -> cstep mf c i = Some (c', e) -> OwnOk c'.
Proof. intros [H1 H2] Hs. split; [eapply PcOk_step | eapply Own_step]; eassumption. Qed.

Lemma OwnOk_exec sched c : OwnOk c -> OwnOk (fst (exec mf sched c)).
Proof. apply exec_invariant. exact OwnOk_step. Qed.

Lemma OwnOk_reachable l gen progs sched :
  FreshAdds l progs -> OwnOk (fst (exec mf sched (init_config l gen progs))).
Proof. intros H. apply OwnOk_exec. split; [apply PcOk_init | apply Own_init, H]. Qed.

(* an id held by a thread is not in the map, and nobody else holds it *)
Lemma held_exclusive c j k :
  Own c -> held_by c j k ->
  lookup k (sh_map (cf_sh c)) = None /\ forall j', held_by c j' k -> j' = j.
Proof.
  intros (_ & HT & HP) (t & Hj & Hh).
  assert (Hin : In k (thread_ids t)) by (apply in_or_app; left; apply holds_owned, Hh).
  split.
  - apply lookup_none_ids. intros Hm. destruct (HT _ _ Hj) as (_ & Hd). exact (Hd k Hin Hm).
  - intros j' (t' & Hj' & Hh'). destruct (Nat.eq_dec j' j) as [E|Hne]; [exact E|].
    exfalso. eapply (HP j' j t' t Hne Hj' Hj k); [|exact Hin].
    apply in_or_app. left. apply holds_owned, Hh'.
Qed.

(* ---- after a successful cancel ---- *)

Lemma cancel_frees c i c' k o t :
  Own c -> nth_error (cf_threads c) i = Some t -> th_pc t = C1 k ->
  cstep mf c i = Some (c', ERemove k (Some o)) ->
  Free c' k /\ NoAdd c' k.
Proof.
  intros (HM & HT & HP) Hn Hpc Hs.
  destruct (cstep_inv mf _ _ _ _ Hs) as (t0 & p' & s' & Hn0 & Ht & ->).
  rewrite Hn in Hn0. inversion Hn0; subst t0. clear Hn0.
  rewrite Hpc in Ht. cbn [tstep] in Ht.
  destruct (lookup k (sh_map (cf_sh c))) as [o'|] eqn:El; inversion Ht; subst. clear Ht.
  assert (Hk : In k (ids (sh_map (cf_sh c)))) by (eapply lookup_in_ids; exact El).
  rewrite stepped_not_done by discriminate.
  assert (Hothers : forall j tj, nth_error (update_nth i (mkThread (C2 o) (th_todo t) (th_rets t)) (cf_threads c)) j = Some tj ->
            ~ In k (thread_ids tj)).
  { intros j tj Hj Hin. apply nth_error_update_nth_inv in Hj. destruct Hj as [[-> ->]|[Hne Hj]].
    - destruct (HT _ _ Hn) as (_ & Hd). apply (Hd k); [|exact Hk].
      unfold thread_ids in *. rewrite Hpc. exact Hin.
    - destruct (HT _ _ Hj) as (_ & Hd). exact (Hd k Hin Hk). }
  split; [split|].
  - cbn. rewrite lookup_remove_key, oid_eqb_refl. reflexivity.
  - intros j tj Hj Hin. apply (Hothers j tj Hj). apply in_or_app. left. exact Hin.
  - intros j tj Hj Hin. apply (Hothers j tj Hj). apply in_or_app. right. exact Hin.
Qed.

Lemma Free_step c i c' e k :
  PcOk c -> Free c k -> cstep mf c i = Some (c', e) ->
  ~ touches k e /\
  (Free c' k \/
   exists t' o, nth_error (cf_threads c') i = Some t' /\ th_pc t' = A1 o /\ oid_of o = k /\
                exists t, nth_error (cf_threads c) i = Some t /\ In (CAdd o) (th_todo t)).
Proof.
  intros HPc (Hl & Hf) Hs.
  destruct (cstep_inv mf _ _ _ _ Hs) as (t & p' & s' & Hn & Ht & ->).
  destruct (tstep_facts mf _ _ _ _ _ Ht) as (Hev & _).
  pose proof (Hf _ _ Hn) as Hfi.
  split.
  - destruct e as [ | | | o | k' [r|] | k' [r|] | | | ]; cbn [touches];
      try (intros HF; exact HF).
    + intros Ho. apply Hfi. rewrite <- Ho. eapply tstep_insert_owned. exact Ht.
    + intros ->. destruct Hev as (Hr & _). congruence.
    + intros ->. destruct Hev as (Hr & _). congruence.
  - assert (Hmap : lookup k (sh_map s') = None /\ ~ In k (owned p')).
    { destruct (tstep_own _ _ _ _ _ (HPc _ _ Hn) Ht)
        as [(Hm & [Ho|(x & Ho)])|[(o & Hm & Ho)|(k' & o & Hl' & Hm & Ho)]]; rewrite Hm.
      - rewrite Ho. auto.
      - split; [exact Hl|]. intros Hi. apply Hfi. rewrite Ho. right. exact Hi.
      - split.
        + rewrite lookup_upsert. destruct (oid_eqb k (oid_of o)) eqn:E; [|exact Hl].
          apply oid_eqb_eq in E. exfalso. apply Hfi. rewrite Ho. left. congruence.
        + intros Hi. apply Hfi. rewrite Ho. right. exact Hi.
      - split.
        + rewrite lookup_remove_key. destruct (oid_eqb k k'); [reflexivity | exact Hl].
        + assert (Hne : k' <> k) by (intros ->; congruence).
          destruct Ho as [Ho|[Ho|Ho]]; rewrite Ho; [exact Hfi | |].
          * intros [E|Hi]; [contradiction | exact (Hfi Hi)].
          * intros Hi. apply in_app_or in Hi. destruct Hi as [Hi|[E|[]]]; [exact (Hfi Hi) | contradiction]. }
    destruct Hmap as (Hl' & Hno).
    assert (Hrest : forall j tj, j <> i -> nth_error (update_nth i (stepped t p' s') (cf_threads c)) j = Some tj ->
              ~ In k (owned (th_pc tj))).
    { intros j tj Hne Hj. rewrite nth_error_update_nth_neq in Hj by congruence. eapply Hf. exact Hj. }
    assert (Hcase : ~ In k (owned (th_pc (stepped t p' s'))) \/
                    exists o, th_pc (stepped t p' s') = A1 o /\ oid_of o = k /\ In (CAdd o) (th_todo t)).
    { destruct (stepped_pc t p' s') as [E|(_ & [(r & E)|(c0 & Hin & E)])]; rewrite E.
      - left. exact Hno.
      - left. intros [].
      - destruct (in_dec oid_eq_dec k (owned (start (sh_price s') c0))) as [Hi|Hni]; [|left; exact Hni].
        right. rewrite owned_start in Hi. destruct c0; try (destruct Hi; fail).
        destruct Hi as [Hi|[]]. exists o. cbn [start]. auto. }
    destruct Hcase as [Hc|(o & Hpc & Ho & Hin)].
    + left. split; [exact Hl'|]. intros j tj Hj. cbn [cf_threads] in Hj.
      destruct (Nat.eq_dec j i) as [->|Hne]; [|eapply Hrest; eassumption].
      rewrite (nth_error_update_nth_eq _ _ _ _ Hn) in Hj. inversion Hj; subst tj. exact Hc.
    + right. exists (stepped t p' s'), o. cbn [cf_threads].
      split; [eapply nth_error_update_nth_eq; exact Hn|]. split; [exact Hpc|]. split; [exact Ho|].
      exists t. split; assumption.
Qed.

Lemma NoAdd_step c i c' e k : NoAdd c k -> cstep mf c i = Some (c', e) -> NoAdd c' k.
Proof.
  intros HN Hs.
  destruct (cstep_inv mf _ _ _ _ Hs) as (t & p' & s' & Hn & Ht & ->).
  intros j tj Hj. cbn [cf_threads] in Hj. apply nth_error_update_nth_inv in Hj.
  destruct Hj as [[-> ->]|[Hne Hj]]; [|eapply HN; exact Hj].
  intros Hin. apply (HN _ _ Hn). unfold todo_adds in *. apply in_flat_map in Hin.
  destruct Hin as (c0 & Hc0 & Hk). apply in_flat_map. exists c0. split; [|exact Hk].
  unfold stepped in Hc0. apply settle_n_todo_incl in Hc0. exact Hc0.
Qed.

Definition Gone (c : config) (k : oid) : Prop := PcOk c /\ Free c k /\ NoAdd c k.

Lemma Gone_step c i c' e k :
  Gone c k -> cstep mf c i = Some (c', e) -> ~ touches k e /\ Gone c' k.
Proof.
  intros (HP & HF & HN) Hs.
  destruct (Free_step _ _ _ _ k HP HF Hs) as (Hnt & [HF'|(t' & o & _ & _ & Ho & t & Hn & Hin)]).
  - split; [exact Hnt|]. split; [eapply PcOk_step; eassumption|].
    split; [exact HF' | eapply NoAdd_step; eassumption].
  - exfalso. apply (HN _ _ Hn). apply in_flat_map. exists (CAdd o). split; [exact Hin|]. left. exact Ho.
Qed.

Lemma Gone_exec k sched : forall c c' tr,
  Gone c k -> exec mf sched c = (c', tr) ->
  (forall j e, In (j, e) tr -> ~ touches k e) /\ Gone c' k.
Proof.
  induction sched as [|i rest IH]; intros c c' tr HG; cbn.
  - intros H. inversion H; subst. split; [intros j e [] | exact HG].
  - destruct (cstep mf c i) as [[c1 e]|] eqn:Es; [|apply IH, HG].
    destruct (exec mf rest c1) as [c2 tr2] eqn:Ee. intros H. inversion H; subst.
    destruct (Gone_step _ _ _ _ _ HG Es) as (Hnt & HG1).
    destruct (IH _ _ _ HG1 Ee) as (Htr & HG2).
    split; [|exact HG2]. intros j e' [E|Hin]; [inversion E; subst; exact Hnt | eapply Htr; exact Hin].
Qed.

Lemma Free_no_maker c k j t :
  Free c k -> nth_error (cf_threads c) j = Some t -> maker_at (th_pc t) <> Some k.
Proof.
  intros (_ & Hf) Hn Hm. apply (Hf _ _ Hn).
  destruct (th_pc t); cbn in Hm; try discriminate. inversion Hm. left. reflexivity.
Qed.

Lemma Free_not_held c k j : Free c k -> ~ held_by c j k.
Proof. intros (_ & Hf) (t & Hn & Hh). apply (Hf _ _ Hn). apply holds_owned, Hh. Qed.

(* A cancel that reports success has really taken the order out. *)
Theorem cancel_takes_out l gen progs s1 c1 t1 i t k o c2 s2 c3 t2 :
  FreshAdds l progs ->
  exec mf s1 (init_config l gen progs) = (c1, t1) ->
  nth_error (cf_threads c1) i = Some t -> th_pc t = C1 k ->
  cstep mf c1 i = Some (c2, ERemove k (Some o)) ->
  exec mf s2 c2 = (c3, t2) ->
  (* no later step inserts, removes or finds an order with id k *)
  (forall j e, In (j, e) t2 -> ~ touches k e) /\
  (* k is in nobody's hands, not in the map and not in the book *)
  Free c3 k /\ ~ in_book c3 k /\
  (* no thread stands at the creation of a transaction naming k as maker *)
  (forall j tj, nth_error (cf_threads c3) j = Some tj -> maker_at (th_pc tj) <> Some k).
Proof.
  intros HF He1 Hn Hpc Hs He2.
  pose proof (OwnOk_reachable l gen progs s1 HF) as HO. rewrite He1 in HO. cbn in HO.
  destruct HO as (HP & HO).
  destruct (cancel_frees _ _ _ _ _ _ HO Hn Hpc Hs) as (HFr & HNa).
  assert (HG : Gone c2 k) by (split; [eapply PcOk_step; eassumption | split; assumption]).
  destruct (Gone_exec k s2 _ _ _ HG He2) as (Htr & (_ & HF3 & _)).
  split; [exact Htr|]. split; [exact HF3|]. split.
  - intros [H|(j & H)]; [destruct HF3 as (Hl & _); congruence | exact (Free_not_held _ _ _ HF3 H)].
  - intros j tj Hj. eapply Free_no_maker; eassumption.
Qed.

End WithMf.

(* ---- reachable-configuration forms, and the cancel's own remaining steps ---- *)
Section Reachable.
Variable mf : order -> N -> mres.

Definition cancel_tail (p : pc) (o : order) : Prop := p = C2 o \/ p = C3 o \/ p = C4 o \/ p = C5 o.

(* a cancel that found [o] removed exactly [o] from the map ... *)
Lemma cancel_found_step k s p' s' e :
  tstep mf (C1 k) s = Some (p', s', e) ->
  (lookup k (sh_map s) = None /\ p' = Done (RetUpd (UOk None)) /\ s' = s /\ e = ERemove k None) \/
  (exists o, lookup k (sh_map s) = Some o /\ oid_of o = k /\ p' = C2 o /\
             sh_map s' = remove_key k (sh_map s) /\ sh_tk s' = sh_tk s /\
             lookup k (sh_map s') = None /\ e = ERemove k (Some o)).
Proof.
  cbn [tstep]. destruct (lookup k (sh_map s)) as [o|] eqn:El; intros H; inversion H; subst.
  - right. exists o. destruct (lookup_some _ _ _ El) as (Ho & _).
    repeat split; try assumption. cbn. rewrite lookup_remove_key, oid_eqb_refl. reflexivity.
  - left. auto.
Qed.

(* ... and afterwards only lowers counters until it returns Ok(Some o) *)
Lemma cancel_tail_step p o s p' s' e :
  cancel_tail p o -> tstep mf p s = Some (p', s', e) ->
  sh_map s' = sh_map s /\ sh_tk s' = sh_tk s /\
  (cancel_tail p' o \/ p' = Done (RetUpd (UOk (Some o)))) /\
  (exists x n old, e = EFetchSub x n old \/ e = EFetchAdd x n old).
Proof.
  unfold cancel_tail.
  intros [E|[E|[E|E]]] H; subst p; cbn [tstep] in H; unfold fetch_add, fetch_sub in H;
    inversion H; subst; cbn; repeat split; eauto 8.
Qed.

Hypothesis Hid : I_id mf.

Lemma held_exclusive_reachable l gen progs sched c tr j k :
  FreshAdds l progs ->
  exec mf sched (init_config l gen progs) = (c, tr) ->
  held_by c j k ->
  lookup k (sh_map (cf_sh c)) = None /\ forall j', held_by c j' k -> j' = j.
Proof.
  intros HF He Hh. pose proof (OwnOk_reachable mf Hid l gen progs sched HF) as HO.
  rewrite He in HO. destruct HO as (_ & HO). eapply held_exclusive; eassumption.
Qed.

Lemma held_persist_reachable l gen progs sched c tr i c' e j k :
  exec mf sched (init_config l gen progs) = (c, tr) ->
  held_by c j k -> cstep mf c i = Some (c', e) ->
  held_by c' j k \/ (i = j /\ exists o, e = EInsert o /\ oid_of o = k).
Proof.
  intros He Hh Hs. eapply held_persist; try eassumption.
  pose proof (PcOk_exec mf Hid sched _ (PcOk_init l gen progs)) as HP. rewrite He in HP. exact HP.
Qed.

(* the exact first clause at reachable configurations: not-found is truthful, or
   exactly one other thread holds the order and will put it back *)
Theorem notfound_dichotomy_reachable l gen progs sched c tr i k :
  FreshAdds l progs ->
  exec mf sched (init_config l gen progs) = (c, tr) ->
  answers_notfound mf c i k ->
  lookup k (sh_map (cf_sh c)) = None /\
  ((~ in_book c k /\ forall j, ~ held_by c j k) \/
   (exists j, j <> i /\ held_by c j k /\ forall j', held_by c j' k -> j' = j)).
Proof.
  intros HF He Ha. destruct (notfound_dichotomy mf _ _ _ Ha) as (Hl & [H|(j & Hne & Hh)]).
  - split; [exact Hl | left; exact H].
  - split; [exact Hl|]. right. exists j. split; [exact Hne|]. split; [exact Hh|].
    eapply held_exclusive_reachable; eassumption.
Qed.

End Reachable.
