(* AckWitness.v — concrete runs exhibiting finding K4: a cancel / amend answers
   not-found although the order is in the book, held by a matcher (or by another
   amender) between its map remove and its re-insert.  All by computation with
   [mf := match_against]. *)
From PL Require Import Spec.CovSpec Proofs.ConcLemmas Proofs.AckProofs Proofs.OrderProofs.
Local Open Scope N_scope.

Definition k4_cA : common := mkCommon (Uuid 1) 100 Sell 1 Gtc.
Definition k4_A (q : N) : order := Standard k4_cA q.
Definition k4_level : level := add_order (new_level 100) (k4_A 10).

(* thread 0: match 4 against the level; thread 1: cancel A *)
Definition k4_progs_cancel : list (list call) :=
  [[CMatch 4 (Uuid 99)]; [CUpdate (Cancel (Uuid 1))]].
(* thread 0: match 4; thread 1: amend A to 3 *)
Definition k4_progs_amend : list (list call) :=
  [[CMatch 4 (Uuid 99)]; [CUpdate (UpdateQuantity (Uuid 1) 3)]].
(* thread 0: amend A to 3; thread 1: cancel A *)
Definition k4_progs_amend_cancel : list (list call) :=
  [[CUpdate (UpdateQuantity (Uuid 1) 3)]; [CUpdate (Cancel (Uuid 1))]].

Lemma k4_level_wf : WfQueue (lq k4_level).
Proof.
  split.
  - vm_compute. constructor; [intros [] | constructor].
  - intros o H. vm_compute in H. destruct H as [<-|[]]. vm_compute. left. reflexivity.
Qed.

Lemma k4_fresh progs : flat_map todo_adds progs = [] -> FreshAdds k4_level progs.
Proof.
  intros H. unfold FreshAdds. rewrite H. vm_compute. constructor; [intros [] | constructor].
Qed.

(* the statement shape shared by the three witnesses: after [s1] thread [holder]
   holds A out of the map and thread 1's lookup answers not-found; running on
   with [s2] everything returns, A rests in the map with [left] displayed, and
   thread 1 has returned Ok(None). *)
Definition k4_shape (progs : list (list call)) (s1 s2 : list nat) (holder : nat) (left : N) : Prop :=
  let c0 := init_config k4_level 0 progs in
  let c1 := fst (exec match_against s1 c0) in
  let c2 := fst (exec match_against (1%nat :: s2) c1) in
  WfQueue (lq k4_level) /\ FreshAdds k4_level progs /\
  lookup (Uuid 1) (resting k4_level) = Some (k4_A 10) /\
  answers_notfound match_against c1 1 (Uuid 1) /\
  held_by c1 holder (Uuid 1) /\ in_book c1 (Uuid 1) /\
  quiescent c2 = true /\
  lookup (Uuid 1) (sh_map (cf_sh c2)) = Some (k4_A left) /\
  option_map th_pc (nth_error (cf_threads c2) 1) = Some (Done (RetUpd (UOk None))).

Ltac k4_solve :=
  unfold k4_shape;
  split; [exact k4_level_wf|];
  split; [apply k4_fresh; reflexivity|];
  split; [vm_compute; reflexivity|];
  let Hh := fresh "Hheld" in
  match goal with |- ?A /\ ?B /\ _ =>
    assert (Hh : B) by (eexists; split; [vm_compute; reflexivity | vm_compute; left; reflexivity])
  end;
  split; [eexists _, _, _; split; [vm_compute; reflexivity|]; split;
          [first [left; reflexivity | right; left; eexists; reflexivity | right; right; eexists; reflexivity]
          | vm_compute; reflexivity]|];
  split; [exact Hh|];
  split; [right; eexists; exact Hh|];
  vm_compute; repeat split; reflexivity.

(* K4, cancel against a matcher: Ok(None) although A (6 left) rests at quiescence *)
Lemma K4_witness_cancel :
  k4_shape k4_progs_cancel [0;0]%nat [0;0;0;0;0;0;0]%nat 0 6.
Proof. k4_solve. Qed.

(* K4, amend against a matcher *)
Lemma K4_witness_amend :
  k4_shape k4_progs_amend [0;0]%nat [0;0;0;0;0;0;0]%nat 0 6.
Proof. k4_solve. Qed.

(* K4, cancel against another amender *)
Lemma K4_witness_amend_cancel :
  k4_shape k4_progs_amend_cancel [0;0]%nat [0;0;0;0]%nat 0 3.
Proof. k4_solve. Qed.

(* K4, the second lookup of an amend (U2) misses: the first (U1) still found A *)
Lemma K4_witness_amend_second_lookup :
  let c0 := init_config k4_level 0 k4_progs_amend in
  let c1 := fst (exec match_against [0;1;0]%nat c0) in
  let c2 := fst (exec match_against [1;0;0;0;0;0;0;0]%nat c1) in
  option_map th_pc (nth_error (cf_threads c1) 1) = Some (U2 (Uuid 1) 3) /\
  answers_notfound match_against c1 1 (Uuid 1) /\ held_by c1 0 (Uuid 1) /\
  quiescent c2 = true /\ lookup (Uuid 1) (sh_map (cf_sh c2)) = Some (k4_A 6) /\
  option_map th_pc (nth_error (cf_threads c2) 1) = Some (Done (RetUpd (UOk None))).
Proof.
  cbv zeta. split; [vm_compute; reflexivity|].
  split; [eexists _, _, _; split; [vm_compute; reflexivity|]; split;
          [right; right; eexists; reflexivity | vm_compute; reflexivity]|].
  split; [eexists; split; [vm_compute; reflexivity | vm_compute; left; reflexivity]|].
  vm_compute. repeat split; reflexivity.
Qed.

(* the naive reading of C13's first clause is false of the model *)
Lemma notfound_naive_refuted :
  ~ (forall l gen progs sched i k,
       WfQueue (lq l) -> FreshAdds l progs ->
       let c := fst (exec match_against sched (init_config l gen progs)) in
       answers_notfound match_against c i k -> ~ in_book c k).
Proof.
  intros H. destruct K4_witness_cancel as (Hwf & Hfr & _ & Hnf & _ & Hb & _).
  exact (H k4_level 0 k4_progs_cancel [0;0]%nat 1%nat (Uuid 1) Hwf Hfr Hnf Hb).
Qed.
