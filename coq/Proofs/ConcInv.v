(* ConcInv.v — the invariant J / K / Bound of Spec/ConcSpec.v is preserved by
   every single step of every thread (C03, C12), for an arbitrary per-order
   function [mf] meeting [I_cons]. *)
From PL Require Import Spec.ConcSpec Proofs.ConcBase Proofs.OrderProofs.
From Coq Require Import Lia ZifyBool ZifyN.
Local Open Scope N_scope.

Arguments upsert : simpl never.
Arguments remove_key : simpl never.
Arguments wadd : simpl never.
Arguments wsub : simpl never.

(* ---- program points with nothing of their own in hand ---- *)
Definition plain (p : pc) : Prop :=
  ownv p = 0 /\ ownh p = 0 /\ ownc p = 0 /\ ownb p = 0 /\ ownbc p = 0 /\
  ownid p = [] /\ fut p = [] /\ pc_ok p.

Lemma plain_Done r : plain (Done r).
Proof. repeat split. Qed.

Section WithMf.
Variable mf : order -> N -> mres.

Lemma start_finish_asd ml : asd (start_finish ml) = ml_aside ml /\ plain (start_finish ml).
Proof. unfold start_finish. destruct (ml_aside ml); repeat split. Qed.

Lemma next_iter_asd ml : asd (next_iter ml) = ml_aside ml /\ plain (next_iter ml).
Proof.
  unfold next_iter. destruct (ml_rem ml =? 0); [apply start_finish_asd|]. repeat split.
Qed.

Lemma start_asd price c :
  asd (start price c) = [] /\
  ownv (start price c) = 0 /\ ownh (start price c) = 0 /\ ownc (start price c) = 0 /\
  ownid (start price c) = [] /\ pc_ok (start price c) /\
  ownb (start price c) = call_budget price c /\
  ownbc (start price c) = call_bc c /\
  fut (start price c) = call_ids c.
Proof.
  destruct c as [o|qty taker|u| | | | | |]; cbn [start]; try (repeat split; fail).
  - destruct (next_iter_asd (mkMloc taker qty (result_new taker qty) [])) as (Ha & Hv & Hh & Hc & Hb & Hbc & Hid & Hf & Hok).
    cbn [ml_aside] in Ha. cbn [call_budget call_bc call_ids]. repeat split; assumption.
  - destruct u as [k np|k nq|k np nq|k|k p q sd]; cbn [call_budget call_bc call_ids];
      try (repeat split; fail).
    + destruct (np =? price); repeat split.
    + destruct (np =? price); repeat split.
    + destruct (p =? price); repeat split.
Qed.

End WithMf.

(* measures of a plain point are those of its set-aside list *)
Lemma plain_meas p : plain p ->
  pendv p = sumv (asd p) /\ pendh p = sumh (asd p) /\ pendc p = lenN (asd p) /\
  budget p = sumt (asd p) /\ bc p = lenN (asd p) /\ pids p = ids (asd p).
Proof.
  intros (Hv & Hh & Hc & Hb & Hbc & Hid & Hf & _).
  unfold pendv, pendh, pendc, budget, bc, pids, held.
  rewrite Hv, Hh, Hc, Hb, Hbc, Hid, Hf, !app_nil_r. repeat split; lia.
Qed.

Lemma rfacts_of_I_cons mf o inc : I_cons mf -> rfacts o (mf o inc).
Proof.
  intros HI. destruct (HI o inc) as (Hc & _ & Hu). unfold rfacts.
  split; [lia|].
  destruct (m_updated (mf o inc)) as [u|].
  - destruct Hu as (A & B & C). repeat split; try assumption.
    symmetry. apply same_identity_oid. exact C.
  - destruct Hu as (A & B). split; [exact A|lia].
Qed.

Lemma drops_hidden_false o r :
  m_hidden_reduced r = 0 -> drops_hidden o r = false -> hid o = 0.
Proof.
  intros Hr. unfold drops_hidden.
  destruct o as [c q|c v h|c q|c q t l|c q off p|c q|c v h thr amt au];
    cbn [hid]; try reflexivity; rewrite Hr; lia.
Qed.

Lemma oid_with_reduced o nq : oid_of (with_reduced_quantity o nq) = oid_of o.
Proof. destruct o; reflexivity. Qed.

Lemma with_reduced_bound o nq :
  let n := with_reduced_quantity o nq in
  hid n = hid o /\ (vis n = nq \/ vis n = vis o).
Proof. destruct o as [c q|c v h|c q|c q t l|c q off p|c q|c v h thr amt au]; cbn; auto. Qed.

(* ---- one step of one thread, seen from that thread: [R*] stand for the
        contributions of the other threads, which the step leaves alone ---- *)
Definition JL (s : shared) (p : pc) (Rv Rh Rc : N) : Prop :=
  sh_cvis s = sumv (sh_map s) + pendv p + Rv /\
  sh_chid s = sumh (sh_map s) + pendh p + Rh /\
  sh_ccnt s = lenN (sh_map s) + pendc p + Rc.


Lemma cnt_ids x l : cnt x (ids l) = idc x l.
Proof. reflexivity. Qed.
Lemma cnt_nil x : cnt x [] = 0.
Proof. reflexivity. Qed.

Ltac norm :=
  unfold JL in *; unfold pendv, pendh, pendc, budget, bc, pids, held, tot, sumt, ml_set_rem in *;
  cbn [asd ownv ownh ownc ownb ownbc ownid fut drain pc_ok set_obj set_map set_tk get_obj
       sh_map sh_price sh_cvis sh_chid sh_ccnt sh_tk sh_st sh_gen
       ml_aside ml_rem ml_res ml_taker] in *;
  unfold tot, sumt in *;
  rewrite ?cnt_app, ?cnt_ids, ?cnt_cons, ?cnt_nil, ?idc_app, ?idc_cons, ?idc_nil,
          ?sumv_app, ?sumh_app, ?lenN_app, ?sumv_cons, ?sumh_cons, ?lenN_cons,
          ?sumv_nil, ?sumh_nil, ?lenN_nil, ?one_refl in *.


Ltac use_plain q :=
  let Ha := fresh "Ha" in let Hv := fresh "Hv" in let Hh := fresh "Hh" in
  let Hc := fresh "Hc" in let Hb := fresh "Hb" in let Hbc := fresh "Hbc" in
  let Hid := fresh "Hid" in let Hf := fresh "Hf" in let Hpok := fresh "Hpok" in
  destruct q as (Ha & Hv & Hh & Hc & Hb & Hbc & Hid & Hf & Hpok);
  rewrite ?Ha, ?Hv, ?Hh, ?Hc, ?Hb, ?Hbc, ?Hid, ?Hf in *.

Section WithMf.
Variable mf : order -> N -> mres.
Hypothesis HI : I_cons mf.

Ltac fin HK :=
  split; [ try exact I; try assumption; try tauto
         | split; [ let x := fresh "x" in intros x; specialize (HK x); norm;
                    repeat match goal with
                    | |- context [idc x (upsert ?o ?m)] =>
                        lazymatch goal with
                        | _ : idc x (upsert o m) <= _ |- _ => fail
                        | _ => pose proof (idc_upsert_le x o m)
                        end
                    | L : lookup ?k ?m = Some ?o |- context [idc x (remove_key ?k ?m)] =>
                        lazymatch goal with
                        | _ : idc x (remove_key k m) + _ <= _ |- _ => fail
                        | _ => pose proof (idc_remove_le x k m o L)
                        end
                    end; try lia
                  | repeat split; try lia ] ].

(* an order in hand goes (back) into the map *)
Ltac ins HK o m :=
  let Hz := fresh "Hz" in
  assert (Hz : idc (oid_of o) m = 0) by (specialize (HK (oid_of o)); norm; lia);
  destruct (sums_upsert o m Hz) as (?Sv & ?Sh & ?Sl).

(* an order is taken out of the map *)
Ltac rem HK k m o L :=
  let Hz := fresh "Hz" in
  assert (Hz : idc k m <= 1) by (specialize (HK k); norm; lia);
  destruct (sums_remove k m o Hz L) as (?Sv & ?Sh & ?Sl);
  pose proof (lookup_oid k m o L) as ?Hoid; subst k.

Ltac inv H := inversion H; subst; clear H.
Ltac rf Hok :=
  norm; let Hok' := fresh "Hok'" in pose proof Hok as Hok';
  unfold rfacts in Hok;
  first [ destruct Hok as ((?Hle & ?Hu) & ?Eu); rewrite Eu in Hu
        | destruct Hok as (?Hle & ?Hu) ].

Ltac gen Hstep HK := inv Hstep; norm; fin HK.

Lemma tstep_A p s p' s' e :
  tstep mf p s = Some (p', s', e) ->
  pc_ok p ->
  (forall x, idc x (sh_map s) + cnt x (pids p) <= 1) ->
  pc_ok p' /\
  (forall x, idc x (sh_map s') + cnt x (pids p') <= idc x (sh_map s) + cnt x (pids p)) /\
  sumt (sh_map s) + budget p = sumt (sh_map s') + budget p' + drain p s /\
  lenN (sh_map s') + bc p' <= lenN (sh_map s) + bc p /\
  sh_price s' = sh_price s.
Proof.
  intros Hstep Hok HK.
  destruct s as [pr cv ch cc m tk st g].
  destruct p; cbn [tstep fetch_add fetch_sub sh_map sh_tk] in *.
  - (* Done *) discriminate.
  - (* A1 *) gen Hstep HK.
  - (* A2 *) gen Hstep HK.
  - (* A3 *) gen Hstep HK.
  - (* A4 *) gen Hstep HK.
  - (* A5 *) inv Hstep. ins HK o m. norm. fin HK.
  - (* A6 *) gen Hstep HK.
  - (* M1 *) destruct tk as [|k t]; inv Hstep.
    + norm. use_plain (start_finish_asd ml). norm. fin HK.
    + norm. fin HK.
  - (* M2 *) destruct (lookup k m) as [o|] eqn:L; inv Hstep.
    + rem HK k m o L. pose proof (rfacts_of_I_cons mf o (ml_rem ml) HI) as Hr.
      set (r := mf o (ml_rem ml)) in *.
      destruct ((m_consumed r =? 0) && (m_hidden_reduced r =? 0) && is_some (m_updated r)) eqn:E1;
        [|destruct (0 <? m_consumed r) eqn:E2].
      * norm. use_plain (next_iter_asd (mkMloc (ml_taker ml) (ml_rem ml) (ml_res ml) (ml_aside ml ++ [o]))).
        norm. fin HK.
      * norm. fin HK.
      * norm. fin HK.
    + norm. fin HK.
  - (* M3 *) inv Hstep. rf Hok. fin HK.
  - (* M4 *) inv Hstep. rf Hok. fin HK.
  - (* M5 *) inv Hstep. rf Hok. fin HK.
  - (* M6 *) inv Hstep. rf Hok. fin HK.
  - (* M7 *) inv Hstep. rf Hok. unfold after_stats.
    destruct (m_updated r) as [u|] eqn:Eu; [destruct (0 <? m_hidden_reduced r) eqn:E|].
    + norm. fin HK.
    + norm. destruct Hu as (Hu1 & Hu2 & Hu3). rewrite Hu3 in *. fin HK.
    + norm. fin HK.
  - (* M10 *) inv Hstep. rf Hok. fin HK.
  - (* M11 *) inv Hstep. rf Hok. destruct Hu as (Hu1 & Hu2 & Hu3). rewrite Hu3 in *. fin HK.
  - (* M12 *) inv Hstep. ins HK u m. norm. fin HK.
  - (* M13 *) inv Hstep. norm. use_plain (next_iter_asd ml). norm. fin HK.
  - (* M14 *) inv Hstep. rf Hok. destruct Hu as (Hu1 & Hu2).
    destruct (drops_hidden o r) eqn:Ed.
    + norm. fin HK.
    + pose proof (drops_hidden_false o r Hu1 Ed). use_plain (next_iter_asd ml). norm. fin HK.
  - (* M15 *) inv Hstep. norm. use_plain (next_iter_asd ml). norm. fin HK.
  - (* F1 *) inv Hstep. ins HK o m. norm. fin HK.
  - (* F2 *) inv Hstep. norm.
    use_plain (start_finish_asd (mkMloc (ml_taker ml) (ml_rem ml) (ml_res ml) rest)). norm. fin HK.
  - (* C1 *) destruct (lookup k m) as [o|] eqn:L; inv Hstep.
    + rem HK k m o L. norm. fin HK.
    + norm. fin HK.
  - (* C2 *) gen Hstep HK.
  - (* C3 *) gen Hstep HK.
  - (* C4 *) gen Hstep HK.
  - (* C5 *) gen Hstep HK.
  - (* U1 *) destruct (lookup k m) as [o|] eqn:L; inv Hstep; norm; rewrite L; fin HK.
  - (* U2 *) destruct (lookup k m) as [old|] eqn:L; inv Hstep.
    + rem HK k m old L.
      pose proof (with_reduced_bound old nq) as Hw. cbv zeta in Hw. destruct Hw as (Hw1 & Hw2).
      pose proof (oid_with_reduced old nq) as Hw3.
      cbn [drain sh_map]. rewrite L.
      unfold amend_after_remove.
      set (new := with_reduced_quantity old nq) in *.
      destruct (negb (vis old =? vis new)) eqn:E1; [|destruct (negb (hid old =? hid new)) eqn:E2];
        norm; rewrite Hw3 in *; fin HK.
    + norm. rewrite L. fin HK.
  - (* U3 *) cbn [drain].
    destruct (vis old <? vis new) eqn:E1; cbn [fetch_add fetch_sub] in Hstep; inv Hstep;
      destruct (negb (hid old =? hid new)) eqn:E2; norm; fin HK.
  - (* U4 *)
    destruct (hid old <? hid new) eqn:E1; cbn [fetch_add fetch_sub] in Hstep; inv Hstep;
      norm; fin HK.
  - (* U5 *) inv Hstep. ins HK new m. norm. fin HK.
  - (* U6 *) gen Hstep HK.
  - (* RdV *) gen Hstep HK.
  - (* RdH *) gen Hstep HK.
  - (* RdC *) gen Hstep HK.
  - (* RdL *) gen Hstep HK.
  - (* G1 *) gen Hstep HK.
  - (* Sn1 *) gen Hstep HK.
  - (* Sn2 *) gen Hstep HK.
  - (* Sn3 *) gen Hstep HK.
  - (* Sn4 *) gen Hstep HK.
Qed.

Ltac finB :=
  norm; rewrite ?wadd_nowrap by lia; rewrite ?wsub_nowrap by lia; repeat split; lia.
Ltac genB Hstep := inv Hstep; finB.

Lemma tstep_B p s p' s' e Rv Rh Rc RB RC :
  tstep mf p s = Some (p', s', e) ->
  pc_ok p ->
  (forall x, idc x (sh_map s) + cnt x (pids p) <= 1) ->
  JL s p Rv Rh Rc ->
  Rv + Rh <= RB -> sumt (sh_map s) + budget p + RB < W ->
  Rc <= RC -> lenN (sh_map s) + bc p + RC < W ->
  JL s' p' Rv Rh Rc.
Proof.
  intros Hstep Hok HK (Jv & Jh & Jc) HRB HB HRC HC.
  destruct s as [pr cv ch cc m tk st g].
  cbn [sh_cvis sh_chid sh_ccnt sh_map] in *. subst cv ch cc.
  destruct p; cbn [tstep fetch_add fetch_sub sh_map sh_tk] in *.
  - (* Done *) discriminate.
  - (* A1 *) genB Hstep.
  - (* A2 *) genB Hstep.
  - (* A3 *) genB Hstep.
  - (* A4 *) genB Hstep.
  - (* A5 *) inv Hstep. ins HK o m. finB.
  - (* A6 *) genB Hstep.
  - (* M1 *) destruct tk as [|k t]; inv Hstep.
    + norm. use_plain (start_finish_asd ml). finB.
    + finB.
  - (* M2 *) destruct (lookup k m) as [o|] eqn:L; inv Hstep.
    + rem HK k m o L. pose proof (rfacts_of_I_cons mf o (ml_rem ml) HI) as Hr.
      set (r := mf o (ml_rem ml)) in *.
      destruct ((m_consumed r =? 0) && (m_hidden_reduced r =? 0) && is_some (m_updated r)) eqn:E1;
        [|destruct (0 <? m_consumed r) eqn:E2].
      * norm. use_plain (next_iter_asd (mkMloc (ml_taker ml) (ml_rem ml) (ml_res ml) (ml_aside ml ++ [o]))).
        finB.
      * finB.
      * finB.
    + finB.
  - (* M3 *) inv Hstep. rf Hok. finB.
  - (* M4 *) inv Hstep. rf Hok. finB.
  - (* M5 *) inv Hstep. rf Hok. finB.
  - (* M6 *) inv Hstep. rf Hok. finB.
  - (* M7 *) inv Hstep. rf Hok. unfold after_stats.
    destruct (m_updated r) as [u|] eqn:Eu; [destruct (0 <? m_hidden_reduced r) eqn:E|].
    + finB.
    + finB.
    + finB.
  - (* M10 *) inv Hstep. rf Hok. finB.
  - (* M11 *) inv Hstep. rf Hok. finB.
  - (* M12 *) inv Hstep. ins HK u m. finB.
  - (* M13 *) inv Hstep. norm. use_plain (next_iter_asd ml). finB.
  - (* M14 *) inv Hstep. rf Hok. destruct Hu as (Hu1 & Hu2).
    destruct (drops_hidden o r) eqn:Ed.
    + finB.
    + pose proof (drops_hidden_false o r Hu1 Ed). use_plain (next_iter_asd ml). finB.
  - (* M15 *) inv Hstep. norm. use_plain (next_iter_asd ml). finB.
  - (* F1 *) inv Hstep. ins HK o m. finB.
  - (* F2 *) inv Hstep. norm.
    use_plain (start_finish_asd (mkMloc (ml_taker ml) (ml_rem ml) (ml_res ml) rest)). finB.
  - (* C1 *) destruct (lookup k m) as [o|] eqn:L; inv Hstep.
    + rem HK k m o L. finB.
    + finB.
  - (* C2 *) genB Hstep.
  - (* C3 *) genB Hstep.
  - (* C4 *) genB Hstep.
  - (* C5 *) genB Hstep.
  - (* U1 *) destruct (lookup k m) as [o|] eqn:L; inv Hstep; finB.
  - (* U2 *) destruct (lookup k m) as [old|] eqn:L; inv Hstep.
    + rem HK k m old L.
      unfold amend_after_remove.
      set (new := with_reduced_quantity old nq) in *.
      destruct (negb (vis old =? vis new)) eqn:E1; [|destruct (negb (hid old =? hid new)) eqn:E2];
        finB.
    + finB.
  - (* U3 *)
    destruct (vis old <? vis new) eqn:E1; cbn [fetch_add fetch_sub] in Hstep; inv Hstep;
      destruct (negb (hid old =? hid new)) eqn:E2; finB.
  - (* U4 *)
    destruct (hid old <? hid new) eqn:E1; cbn [fetch_add fetch_sub] in Hstep; inv Hstep; finB.
  - (* U5 *) inv Hstep. ins HK new m. finB.
  - (* U6 *) genB Hstep.
  - (* RdV *) genB Hstep.
  - (* RdH *) genB Hstep.
  - (* RdC *) genB Hstep.
  - (* RdL *) genB Hstep.
  - (* G1 *) genB Hstep.
  - (* Sn1 *) genB Hstep.
  - (* Sn2 *) genB Hstep.
  - (* Sn3 *) genB Hstep.
  - (* Sn4 *) genB Hstep.
Qed.

End WithMf.

(* ---- what every program point has in hand is within its budget ---- *)
Lemma pend_le_budget p : pendv p + pendh p <= budget p.
Proof. destruct p; norm; lia. Qed.

Lemma pendc_le_bc p : pendc p <= bc p.
Proof. destruct p; norm; lia. Qed.

(* ---- settle does not change any of the thread measures ---- *)
Lemma settle_pendv n price t : pendv (th_pc (settle_n n price t)) = pendv (th_pc t).
Proof.
  apply (settle_n_measure (fun t => pendv (th_pc t))). intros r c cs rets. cbn [th_pc].
  destruct (start_asd price c) as (Ha & Hv & _). unfold pendv. rewrite Ha, Hv. reflexivity.
Qed.

Lemma settle_pendh n price t : pendh (th_pc (settle_n n price t)) = pendh (th_pc t).
Proof.
  apply (settle_n_measure (fun t => pendh (th_pc t))). intros r c cs rets. cbn [th_pc].
  destruct (start_asd price c) as (Ha & _ & Hh & _). unfold pendh. rewrite Ha, Hh. reflexivity.
Qed.

Lemma settle_pendc n price t : pendc (th_pc (settle_n n price t)) = pendc (th_pc t).
Proof.
  apply (settle_n_measure (fun t => pendc (th_pc t))). intros r c cs rets. cbn [th_pc].
  destruct (start_asd price c) as (Ha & _ & _ & Hc & _). unfold pendc. rewrite Ha, Hc. reflexivity.
Qed.

Lemma settle_tbudget n price t : tbudget price (settle_n n price t) = tbudget price t.
Proof.
  apply (settle_n_measure (tbudget price)). intros r c cs rets.
  unfold tbudget, budget, todo_budget. cbn [th_pc th_todo].
  destruct (start_asd price c) as (Ha & _ & _ & _ & _ & _ & Hb & _). rewrite Ha, Hb, tsum_cons.
  cbn [asd ownb]. unfold sumt. rewrite sumv_nil, sumh_nil. lia.
Qed.

Lemma settle_tbc n price t : tbc (settle_n n price t) = tbc t.
Proof.
  apply (settle_n_measure tbc). intros r c cs rets.
  unfold tbc, bc, todo_bc. cbn [th_pc th_todo].
  destruct (start_asd price c) as (Ha & _ & _ & _ & _ & _ & _ & Hb & _). rewrite Ha, Hb, tsum_cons.
  cbn [asd ownbc ownc]. rewrite lenN_nil. lia.
Qed.

Lemma settle_tids x n price t : cnt x (tids (settle_n n price t)) = cnt x (tids t).
Proof.
  apply (settle_n_measure (fun t => cnt x (tids t))). intros r c cs rets.
  unfold tids, pids, held, todo_ids. cbn [th_pc th_todo map concat].
  destruct (start_asd price c) as (Ha & _ & _ & _ & Hid & _ & _ & _ & Hf). rewrite Ha, Hid, Hf.
  cbn [asd ownid fut ids map app]. rewrite !cnt_app. lia.
Qed.

Lemma settle_pc_ok n price t : pc_ok (th_pc t) -> pc_ok (th_pc (settle_n n price t)).
Proof.
  apply (settle_n_pred (fun t => pc_ok (th_pc t))). intros r c cs rets _. cbn [th_pc].
  apply (start_asd price c).
Qed.

(* ---- one scheduled step ---- *)
Section Step.
Variable mf : order -> N -> mres.
Hypothesis HI : I_cons mf.

Lemma cstep_unfold c i c' e :
  cstep mf c i = Some (c', e) ->
  exists t p' s',
    nth_error (cf_threads c) i = Some t /\
    tstep mf (th_pc t) (cf_sh c) = Some (p', s', e) /\
    c' = mkConfig s' (update_nth i
           (settle_n (S (length (th_todo t))) (sh_price s') (mkThread p' (th_todo t) (th_rets t)))
           (cf_threads c)).
Proof.
  unfold cstep. destruct (nth_error (cf_threads c) i) as [t|] eqn:Hn; [|discriminate].
  destruct (tstep mf (th_pc t) (cf_sh c)) as [[[p' s'] e']|] eqn:Ht; [|discriminate].
  intros H. exists t, p', s'. split; [reflexivity|].
  assert (e' = e) by congruence. subst e'. split; [exact Ht|]. congruence.
Qed.

Lemma cstep_inv_ledger c i c' e t :
  Inv c -> nth_error (cf_threads c) i = Some t -> cstep mf c i = Some (c', e) ->
  Inv c' /\
  Supplied c = Supplied c' + drain (th_pc t) (cf_sh c) /\
  OrdersB c' <= OrdersB c /\
  sh_price (cf_sh c') = sh_price (cf_sh c).
Proof.
  intros ((Jv & Jh & Jc) & HKc & Hpok & HBs & HBc) Hn Hstep.
  destruct (cstep_unfold _ _ _ _ Hstep) as (t0 & p' & s' & Hn0 & Ht & Ec'). clear Hstep.
  rewrite Hn in Hn0. assert (t0 = t) by congruence. subst t0. clear Hn0. subst c'.
  destruct c as [s ts]. unfold K, POK in *. cbn [cf_sh cf_threads] in *.
  set (t1 := mkThread p' (th_todo t) (th_rets t)).
  assert (Hm : exists t', t' = settle_n (S (length (th_todo t))) (sh_price s') t1 /\
            pendv (th_pc t') = pendv p' /\ pendh (th_pc t') = pendh p' /\ pendc (th_pc t') = pendc p' /\
            tbudget (sh_price s') t' = budget p' + todo_budget (sh_price s') (th_todo t) /\
            tbc t' = bc p' + todo_bc (th_todo t) /\
            (forall x, cnt x (tids t') = cnt x (pids p') + cnt x (todo_ids (th_todo t))) /\
            (pc_ok p' -> pc_ok (th_pc t'))).
  { eexists. split; [reflexivity|].
    rewrite settle_pendv, settle_pendh, settle_pendc, settle_tbudget, settle_tbc.
    repeat split.
    - intros x. rewrite settle_tids. unfold tids. rewrite cnt_app. reflexivity.
    - intros H. apply settle_pc_ok. exact H. }
  destruct Hm as (t' & Et' & Mv & Mh & Mc & Eb & Ec & Mid & Mok).
  rewrite <- Et'. clear Et'.
  pose proof (Forall_nth _ _ _ _ Hpok Hn) as Hokp.
  (* the id discipline, seen from thread i *)
  assert (HKl : forall x, idc x (sh_map s) + cnt x (pids (th_pc t)) <= 1).
  { intros x. specialize (HKc x).
    rewrite (tsum_split (fun t => cnt x (tids t)) i ts t Hn) in HKc.
    unfold tids in HKc. rewrite cnt_app in HKc. lia. }
  destruct (tstep_A mf HI _ _ _ _ _ Ht Hokp HKl) as (Hok' & HK' & HB' & HC' & Hpr).
  unfold Supplied, OrdersB in *. cbn [cf_sh cf_threads] in *.
  rewrite Hpr in *.
  rewrite (tsum_split (tbudget (sh_price s)) i ts t Hn) in *.
  rewrite (tsum_split tbc i ts t Hn) in HBc |- *.
  rewrite (tsum_update (tbudget (sh_price s)) i ts t t' Hn).
  rewrite (tsum_update tbc i ts t t' Hn).
  rewrite Eb, Ec.
  assert (Et1 : tbudget (sh_price s) t = budget (th_pc t) + todo_budget (sh_price s) (th_todo t)) by reflexivity.
  assert (Et2 : tbc t = bc (th_pc t) + todo_bc (th_todo t)) by reflexivity.
  rewrite Et1, Et2 in *.
  assert (Hsup : sumt (sh_map s) + (budget (th_pc t) + todo_budget (sh_price s) (th_todo t) +
                    tsum (tbudget (sh_price s)) (others i ts)) =
                 sumt (sh_map s') + (budget p' + todo_budget (sh_price s) (th_todo t) +
                    tsum (tbudget (sh_price s)) (others i ts)) + drain (th_pc t) s) by lia.
  split; [|split; [exact Hsup|split; [lia|reflexivity]]].
  split; [|split; [|split; [|split]]].
  - (* J *)
    rewrite (tsum_split (fun t => pendv (th_pc t)) i ts t Hn) in Jv.
    rewrite (tsum_split (fun t => pendh (th_pc t)) i ts t Hn) in Jh.
    rewrite (tsum_split (fun t => pendc (th_pc t)) i ts t Hn) in Jc.
    assert (HJL : JL s (th_pc t)
                    (tsum (fun t => pendv (th_pc t)) (others i ts))
                    (tsum (fun t => pendh (th_pc t)) (others i ts))
                    (tsum (fun t => pendc (th_pc t)) (others i ts))).
    { unfold JL. repeat split; lia. }
    assert (HR1 : tsum (fun t => pendv (th_pc t)) (others i ts) +
                  tsum (fun t => pendh (th_pc t)) (others i ts) <=
                  todo_budget (sh_price s) (th_todo t) + tsum (tbudget (sh_price s)) (others i ts)).
    { rewrite <- tsum_add.
      pose proof (tsum_le (fun t => pendv (th_pc t) + pendh (th_pc t)) (tbudget (sh_price s)) (others i ts)) as Hle.
      assert (forall x, pendv (th_pc x) + pendh (th_pc x) <= tbudget (sh_price s) x).
      { intros x. unfold tbudget. pose proof (pend_le_budget (th_pc x)). lia. }
      specialize (Hle H). lia. }
    assert (HR2 : tsum (fun t => pendc (th_pc t)) (others i ts) <=
                  todo_bc (th_todo t) + tsum tbc (others i ts)).
    { pose proof (tsum_le (fun t => pendc (th_pc t)) tbc (others i ts)) as Hle.
      assert (forall x, pendc (th_pc x) <= tbc x).
      { intros x. unfold tbc. pose proof (pendc_le_bc (th_pc x)). lia. }
      specialize (Hle H). lia. }
    assert (HW1 : sumt (sh_map s) + budget (th_pc t) +
                  (todo_budget (sh_price s) (th_todo t) + tsum (tbudget (sh_price s)) (others i ts)) < W) by lia.
    assert (HW2 : lenN (sh_map s) + bc (th_pc t) +
                  (todo_bc (th_todo t) + tsum tbc (others i ts)) < W) by lia.
    pose proof (tstep_B mf HI _ _ _ _ _ _ _ _ _ _ Ht Hokp HKl HJL HR1 HW1 HR2 HW2)
      as (Jv' & Jh' & Jc').
    unfold J. cbn [cf_sh cf_threads].
    rewrite (tsum_update (fun t => pendv (th_pc t)) i ts t t' Hn).
    rewrite (tsum_update (fun t => pendh (th_pc t)) i ts t t' Hn).
    rewrite (tsum_update (fun t => pendc (th_pc t)) i ts t t' Hn).
    rewrite Mv, Mh, Mc.
    repeat split; lia.
  - (* K *)
    intros x. cbn [cf_sh cf_threads]. specialize (HKc x). specialize (HK' x).
    rewrite (tsum_split (fun t => cnt x (tids t)) i ts t Hn) in HKc.
    rewrite (tsum_update (fun t => cnt x (tids t)) i ts t t' Hn).
    rewrite Mid. unfold tids in *.
    rewrite cnt_app in *. lia.
  - (* POK *)
    unfold POK. cbn [cf_threads]. apply Forall_update; [exact Hpok|].
    apply Mok. exact Hok'.
  - unfold Supplied. cbn [cf_sh cf_threads].
    rewrite Hpr, (tsum_update (tbudget (sh_price s)) i ts t t' Hn), Eb. lia.
  - unfold OrdersB. cbn [cf_sh cf_threads].
    rewrite (tsum_update tbc i ts t t' Hn), Ec. lia.
Qed.

Lemma cstep_thread c i c' e : cstep mf c i = Some (c', e) -> exists t, nth_error (cf_threads c) i = Some t.
Proof.
  unfold cstep. destruct (nth_error (cf_threads c) i) as [t|]; [eauto|discriminate].
Qed.

Lemma cstep_Inv c i c' e : Inv c -> cstep mf c i = Some (c', e) -> Inv c'.
Proof.
  intros Hc Hs. destruct (cstep_thread _ _ _ _ Hs) as (t & Hn).
  apply (cstep_inv_ledger c i c' e t Hc Hn Hs).
Qed.

Lemma cstep_Supplied_le c i c' e :
  Inv c -> cstep mf c i = Some (c', e) -> Supplied c' <= Supplied c /\ OrdersB c' <= OrdersB c.
Proof.
  intros Hc Hs. destruct (cstep_thread _ _ _ _ Hs) as (t & Hn).
  destruct (cstep_inv_ledger c i c' e t Hc Hn Hs) as (_ & A & B & _). lia.
Qed.

(* ---- every schedule ---- *)
Lemma exec_Inv sched : forall c,
  Inv c ->
  Inv (fst (exec mf sched c)) /\
  Supplied (fst (exec mf sched c)) <= Supplied c /\
  OrdersB (fst (exec mf sched c)) <= OrdersB c.
Proof.
  induction sched as [|i rest IH]; intros c Hc; cbn [exec].
  - cbn [fst]. split; [exact Hc|split; lia].
  - destruct (cstep mf c i) as [[c' e]|] eqn:Hs; [|apply IH; exact Hc].
    pose proof (cstep_Inv _ _ _ _ Hc Hs) as Hc'.
    pose proof (cstep_Supplied_le _ _ _ _ Hc Hs) as (A & B).
    destruct (IH c' Hc') as (I1 & I2 & I3).
    destruct (exec mf rest c') as [c'' tr]. cbn [fst] in *.
    split; [exact I1|split; lia].
Qed.

Lemma exec_ledger sched : forall c g,
  Inv c ->
  lg_total (run_ledger mf sched c g) + Supplied (fst (exec mf sched c)) = lg_total g + Supplied c.
Proof.
  induction sched as [|i rest IH]; intros c g Hc; cbn [exec run_ledger].
  - reflexivity.
  - destruct (cstep mf c i) as [[c' e]|] eqn:Hs.
    + destruct (cstep_thread _ _ _ _ Hs) as (t & Hn). rewrite Hn.
      destruct (cstep_inv_ledger c i c' e t Hc Hn Hs) as (Hc' & A & _).
      specialize (IH c' (lg_add g (drain_kind (th_pc t)) (drain (th_pc t) (cf_sh c))) Hc').
      destruct (exec mf rest c') as [c'' tr]. cbn [fst] in *.
      rewrite IH, A.
      destruct (drain_kind (th_pc t)) eqn:Ek; unfold lg_total, lg_add; cbn [lg_exec lg_ret lg_disc lg_amend]; try lia.
      assert (drain (th_pc t) (cf_sh c) = 0) by (destruct (th_pc t); try discriminate; reflexivity).
      lia.
    + destruct (nth_error (cf_threads c) i); apply IH; exact Hc.
Qed.

End Step.
