(* BaseLemmas.v — facts about the wrapping counter operations, the association
   list (lookup / remove_key / upsert), the sums over it, and the queue
   operations push / pop / qremove (NoDup of the ids, Covered).  Reused by
   Proofs/LevelInv.v and later files. *)
From PL Require Import Model.Level Spec.Hist.
From Coq Require Import Lia ZifyBool ZifyN.
Local Open Scope N_scope.

(* ------------------------------------------------------------------ *)
(* machine words                                                       *)
(* ------------------------------------------------------------------ *)

Lemma W_pos : 0 < W.
Proof. reflexivity. Qed.

Lemma W_nz : W <> 0.
Proof. discriminate. Qed.

Lemma wadd_small a b : a + b < W -> wadd a b = a + b.
Proof. intros H. unfold wadd. apply N.mod_small. exact H. Qed.

Lemma wsub_small a b : b <= a -> a < W -> wsub a b = a - b.
Proof.
  intros Hb Ha. unfold wsub.
  rewrite (N.mod_small b W) by lia.
  replace (a + W - b) with ((a - b) + 1 * W) by lia.
  rewrite N.mod_add by exact W_nz.
  apply N.mod_small. lia.
Qed.

Lemma wadd_0_r a : a < W -> wadd a 0 = a.
Proof. intros H. rewrite wadd_small; lia. Qed.

(* counters as residues: for the statistics, which are never read back *)
Lemma wadd_mod_l a b : wadd (a mod W) b = (a + b) mod W.
Proof. unfold wadd. apply N.add_mod_idemp_l. exact W_nz. Qed.

Lemma wadd_lt a b : wadd a b < W.
Proof. unfold wadd. apply N.mod_lt. exact W_nz. Qed.

Lemma wsub_lt a b : wsub a b < W.
Proof. unfold wsub. apply N.mod_lt. exact W_nz. Qed.

(* the two conditional updates of [visit] *)
Lemma wsub_if a c : c <= a -> a < W -> (if 0 <? c then wsub a c else a) = a - c.
Proof.
  intros Hc Ha. destruct (N.ltb_spec 0 c) as [H|H].
  - apply wsub_small; assumption.
  - lia.
Qed.

Lemma wadd_if a c : a + c < W -> (if 0 <? c then wadd a c else a) = a + c.
Proof.
  intros Ha. destruct (N.ltb_spec 0 c) as [H|H].
  - apply wadd_small; assumption.
  - lia.
Qed.

Lemma delta_eq c old new :
  old <= c -> c < W -> c - old + new < W -> delta c old new = c - old + new.
Proof.
  intros Ho Hc Hn. unfold delta.
  destruct (N.eqb_spec old new) as [E|E]; [lia|].
  destruct (N.ltb_spec old new) as [L|L].
  - rewrite wadd_small; lia.
  - rewrite wsub_small; lia.
Qed.

Lemma sat_add_small a b : a + b < W -> sat_add a b = a + b.
Proof. unfold sat_add. lia. Qed.

(* ------------------------------------------------------------------ *)
(* order ids                                                           *)
(* ------------------------------------------------------------------ *)

Lemma oid_eqb_eq a b : oid_eqb a b = true <-> a = b.
Proof.
  destruct a as [x|x], b as [y|y]; cbn [oid_eqb]; split; intros H;
    try discriminate; try (apply N.eqb_eq in H; congruence);
    try (inversion H; apply N.eqb_refl).
Qed.

Lemma oid_eqb_refl a : oid_eqb a a = true.
Proof. apply oid_eqb_eq. reflexivity. Qed.

Lemma oid_eqb_neq a b : oid_eqb a b = false <-> a <> b.
Proof.
  split.
  - intros H E. apply oid_eqb_eq in E. congruence.
  - intros H. destruct (oid_eqb a b) eqn:E; [|reflexivity].
    apply oid_eqb_eq in E. contradiction.
Qed.

Lemma oid_eq_dec (a b : oid) : {a = b} + {a <> b}.
Proof.
  destruct (oid_eqb a b) eqn:E.
  - left. apply oid_eqb_eq. exact E.
  - right. apply oid_eqb_neq. exact E.
Qed.

(* ------------------------------------------------------------------ *)
(* sums                                                                *)
(* ------------------------------------------------------------------ *)

(* [sumv] and [sumh] are the instances [sumf vis] and [sumf hid] (convertible). *)
Definition sumf (f : order -> N) (m : list order) : N := fold_right (fun o a => f o + a) 0 m.

Lemma sumv_sumf m : sumv m = sumf vis m. Proof. reflexivity. Qed.
Lemma sumh_sumf m : sumh m = sumf hid m. Proof. reflexivity. Qed.

Lemma sumf_nil f : sumf f [] = 0.
Proof. reflexivity. Qed.

Lemma sumf_cons f o m : sumf f (o :: m) = f o + sumf f m.
Proof. reflexivity. Qed.

Lemma sumf_app f a b : sumf f (a ++ b) = sumf f a + sumf f b.
Proof.
  induction a as [|x a IH]; cbn [app].
  - rewrite sumf_nil. lia.
  - rewrite !sumf_cons, IH. lia.
Qed.

Lemma sumf_perm f a b : Permutation a b -> sumf f a = sumf f b.
Proof.
  induction 1; rewrite ?sumf_cons; lia.
Qed.

Lemma sumf_In_le f o m : In o m -> f o <= sumf f m.
Proof.
  induction m as [|x m IH]; intros H; [contradiction|].
  rewrite sumf_cons. destruct H as [->|H]; [lia|]. specialize (IH H). lia.
Qed.

Lemma sumv_cons o m : sumv (o :: m) = vis o + sumv m. Proof. reflexivity. Qed.
Lemma sumh_cons o m : sumh (o :: m) = hid o + sumh m. Proof. reflexivity. Qed.
Lemma sumv_nil : sumv [] = 0. Proof. reflexivity. Qed.
Lemma sumh_nil : sumh [] = 0. Proof. reflexivity. Qed.
Lemma sumv_app a b : sumv (a ++ b) = sumv a + sumv b. Proof. exact (sumf_app vis a b). Qed.
Lemma sumh_app a b : sumh (a ++ b) = sumh a + sumh b. Proof. exact (sumf_app hid a b). Qed.
Lemma sumv_perm a b : Permutation a b -> sumv a = sumv b. Proof. exact (sumf_perm vis a b). Qed.
Lemma sumh_perm a b : Permutation a b -> sumh a = sumh b. Proof. exact (sumf_perm hid a b). Qed.
Lemma sumv_In_le o m : In o m -> vis o <= sumv m. Proof. exact (sumf_In_le vis o m). Qed.
Lemma sumh_In_le o m : In o m -> hid o <= sumh m. Proof. exact (sumf_In_le hid o m). Qed.

Lemma NoDup_app_l {A} (a b : list A) : NoDup (a ++ b) -> NoDup a.
Proof.
  induction a as [|x a IH]; cbn [app]; intros H; [constructor|].
  inversion H as [|? ? Hx H']; subst. constructor; [|apply IH; exact H'].
  intros Hin. apply Hx. apply in_or_app. left. exact Hin.
Qed.

Lemma ids_app a b : ids (a ++ b) = ids a ++ ids b.
Proof. apply map_app. Qed.

Lemma ids_perm a b : Permutation a b -> Permutation (ids a) (ids b).
Proof. apply Permutation_map. Qed.

Lemma NoDup_ids_perm a b : Permutation a b -> NoDup (ids a) -> NoDup (ids b).
Proof. intros P. apply Permutation_NoDup. apply ids_perm. exact P. Qed.

Lemma length_perm_N (a b : list order) :
  Permutation a b -> N.of_nat (length a) = N.of_nat (length b).
Proof. intros P. rewrite (Permutation_length P). reflexivity. Qed.

(* ------------------------------------------------------------------ *)
(* lookup / remove_key / upsert                                        *)
(* ------------------------------------------------------------------ *)

Lemma lookup_Some k m o : lookup k m = Some o -> In o m /\ oid_of o = k.
Proof.
  induction m as [|x m IH]; cbn [lookup]; [discriminate|].
  destruct (oid_eqb k (oid_of x)) eqn:E; intros H.
  - inversion H; subst. apply oid_eqb_eq in E. split; [left; reflexivity | congruence].
  - destruct (IH H). split; [right; assumption | assumption].
Qed.

Lemma lookup_None k m : lookup k m = None <-> ~ In k (ids m).
Proof.
  induction m as [|x m IH]; cbn [lookup ids map].
  - split; [intros _ []| reflexivity].
  - destruct (oid_eqb k (oid_of x)) eqn:E.
    + apply oid_eqb_eq in E. split; [discriminate|]. intros H. exfalso. apply H. left. congruence.
    + apply oid_eqb_neq in E. rewrite IH. fold (ids m). split.
      * intros H [H1|H1]; [congruence | contradiction].
      * intros H H1. apply H. right. exact H1.
Qed.

Lemma lookup_In_Some k m : In k (ids m) -> exists o, lookup k m = Some o.
Proof.
  intros H. destruct (lookup k m) eqn:E; [eauto|].
  apply lookup_None in E. contradiction.
Qed.

(* with unique ids, membership determines lookup *)
Lemma lookup_NoDup_In m o : NoDup (ids m) -> In o m -> lookup (oid_of o) m = Some o.
Proof.
  induction m as [|x m IH]; intros ND H; [contradiction|].
  cbn [lookup]. cbn [ids map] in ND. inversion ND as [|? ? Hx ND']; subst.
  destruct H as [->|H].
  - rewrite oid_eqb_refl. reflexivity.
  - destruct (oid_eqb (oid_of o) (oid_of x)) eqn:E.
    + apply oid_eqb_eq in E. exfalso. apply Hx. rewrite <- E. apply in_map. exact H.
    + apply IH; assumption.
Qed.

Lemma In_remove_key x k m : In x (remove_key k m) <-> In x m /\ oid_of x <> k.
Proof.
  unfold remove_key. rewrite filter_In. split; intros [H1 H2]; split; try assumption.
  - intros E. subst k. rewrite oid_eqb_refl in H2. discriminate.
  - destruct (oid_eqb k (oid_of x)) eqn:E; [|reflexivity].
    apply oid_eqb_eq in E. congruence.
Qed.

Lemma In_ids_remove_key k' k m : In k' (ids (remove_key k m)) <-> In k' (ids m) /\ k' <> k.
Proof.
  unfold ids. rewrite !in_map_iff. split.
  - intros (x & E & H). apply In_remove_key in H. destruct H as [H1 H2].
    split; [exists x; auto | congruence].
  - intros [(x & E & H) N]. exists x. split; [assumption|].
    apply In_remove_key. split; [assumption | congruence].
Qed.

Lemma remove_key_cons k x m :
  remove_key k (x :: m) = if oid_eqb k (oid_of x) then remove_key k m else x :: remove_key k m.
Proof. unfold remove_key. cbn [filter]. destruct (oid_eqb k (oid_of x)); reflexivity. Qed.

Lemma remove_key_notin k m : ~ In k (ids m) -> remove_key k m = m.
Proof.
  induction m as [|x m IH]; intros H; [reflexivity|].
  rewrite remove_key_cons. cbn [ids map] in H.
  destruct (oid_eqb k (oid_of x)) eqn:E.
  - apply oid_eqb_eq in E. exfalso. apply H. left. congruence.
  - rewrite IH; [reflexivity|]. intros H1. apply H. right. exact H1.
Qed.

Lemma remove_key_None k m : lookup k m = None -> remove_key k m = m.
Proof. intros H. apply remove_key_notin. apply lookup_None. exact H. Qed.

Lemma remove_key_app k a b : remove_key k (a ++ b) = remove_key k a ++ remove_key k b.
Proof. unfold remove_key. apply filter_app. Qed.

Lemma NoDup_ids_remove_key k m : NoDup (ids m) -> NoDup (ids (remove_key k m)).
Proof.
  induction m as [|x m IH]; intros ND; [constructor|].
  cbn [ids map] in ND. inversion ND as [|? ? Hx ND']; subst.
  rewrite remove_key_cons. destruct (oid_eqb k (oid_of x)); [apply IH; assumption|].
  cbn [ids map]. constructor; [|apply IH; assumption].
  intros H. apply In_ids_remove_key in H. apply Hx. apply H.
Qed.

Lemma lookup_remove_key_same k m : lookup k (remove_key k m) = None.
Proof. apply lookup_None. intros H. apply In_ids_remove_key in H. destruct H; congruence. Qed.

Lemma lookup_remove_key_other k k' m : k' <> k -> lookup k' (remove_key k m) = lookup k' m.
Proof.
  intros N. induction m as [|x m IH]; [reflexivity|].
  rewrite remove_key_cons. destruct (oid_eqb k (oid_of x)) eqn:E; cbn [lookup].
  - apply oid_eqb_eq in E. destruct (oid_eqb k' (oid_of x)) eqn:E'; [|exact IH].
    apply oid_eqb_eq in E'. congruence.
  - rewrite IH. reflexivity.
Qed.

(* removing the order found under [k] from a map with unique ids *)
Lemma remove_key_perm k m o :
  NoDup (ids m) -> lookup k m = Some o -> Permutation m (o :: remove_key k m).
Proof.
  induction m as [|x m IH]; intros ND H; [discriminate|].
  cbn [ids map] in ND. inversion ND as [|? ? Hx ND']; subst.
  cbn [lookup] in H. rewrite remove_key_cons.
  destruct (oid_eqb k (oid_of x)) eqn:E.
  - inversion H; subst x. apply oid_eqb_eq in E. subst k.
    rewrite remove_key_notin by exact Hx. apply Permutation_refl.
  - eapply perm_trans; [apply perm_skip; apply IH; assumption | apply perm_swap].
Qed.

Lemma sumf_remove_key f k m o :
  NoDup (ids m) -> lookup k m = Some o -> sumf f m = f o + sumf f (remove_key k m).
Proof. intros ND H. rewrite (sumf_perm f _ _ (remove_key_perm k m o ND H)). reflexivity. Qed.

Lemma sumv_remove_key k m o :
  NoDup (ids m) -> lookup k m = Some o -> sumv m = vis o + sumv (remove_key k m).
Proof. exact (sumf_remove_key vis k m o). Qed.

Lemma sumh_remove_key k m o :
  NoDup (ids m) -> lookup k m = Some o -> sumh m = hid o + sumh (remove_key k m).
Proof. exact (sumf_remove_key hid k m o). Qed.

Lemma length_remove_key k m o :
  NoDup (ids m) -> lookup k m = Some o -> length m = S (length (remove_key k m)).
Proof. intros ND H. rewrite (Permutation_length (remove_key_perm k m o ND H)). reflexivity. Qed.

Lemma upsert_fresh o m : lookup (oid_of o) m = None -> upsert o m = m ++ [o].
Proof. intros H. unfold upsert. rewrite remove_key_None by exact H. reflexivity. Qed.

Lemma In_upsert x o m : In x (upsert o m) -> x = o \/ (In x m /\ oid_of x <> oid_of o).
Proof.
  unfold upsert. rewrite in_app_iff. intros [H|[H|[]]].
  - right. apply In_remove_key. exact H.
  - left. congruence.
Qed.

Lemma In_upsert_new o m : In o (upsert o m).
Proof. unfold upsert. apply in_or_app. right. left. reflexivity. Qed.

Lemma In_upsert_old x o m : In x m -> oid_of x <> oid_of o -> In x (upsert o m).
Proof. intros H N. unfold upsert. apply in_or_app. left. apply In_remove_key. auto. Qed.

Lemma upsert_perm o m : Permutation (upsert o m) (o :: remove_key (oid_of o) m).
Proof. unfold upsert. apply Permutation_sym. apply Permutation_cons_append. Qed.

Lemma NoDup_ids_upsert o m : NoDup (ids m) -> NoDup (ids (upsert o m)).
Proof.
  intros ND. eapply NoDup_ids_perm; [apply Permutation_sym; apply upsert_perm|].
  cbn [ids map]. constructor.
  - intros H. apply In_ids_remove_key in H. destruct H; congruence.
  - apply NoDup_ids_remove_key. exact ND.
Qed.

(* sums after an upsert: the old entry (if any) is replaced *)
Lemma sumf_upsert_fresh f o m :
  lookup (oid_of o) m = None -> sumf f (upsert o m) = sumf f m + f o.
Proof.
  intros H. rewrite upsert_fresh by exact H. rewrite sumf_app, sumf_cons.
  rewrite sumf_nil. lia.
Qed.

Lemma sumf_upsert_replace f o old m :
  NoDup (ids m) -> lookup (oid_of o) m = Some old ->
  sumf f (upsert o m) + f old = sumf f m + f o.
Proof.
  intros ND H. rewrite (sumf_perm f _ _ (upsert_perm o m)), sumf_cons.
  rewrite (sumf_remove_key f _ _ _ ND H). lia.
Qed.

Lemma sumv_upsert_fresh o m : lookup (oid_of o) m = None -> sumv (upsert o m) = sumv m + vis o.
Proof. exact (sumf_upsert_fresh vis o m). Qed.
Lemma sumh_upsert_fresh o m : lookup (oid_of o) m = None -> sumh (upsert o m) = sumh m + hid o.
Proof. exact (sumf_upsert_fresh hid o m). Qed.
Lemma sumv_upsert_replace o old m :
  NoDup (ids m) -> lookup (oid_of o) m = Some old -> sumv (upsert o m) + vis old = sumv m + vis o.
Proof. exact (sumf_upsert_replace vis o old m). Qed.
Lemma sumh_upsert_replace o old m :
  NoDup (ids m) -> lookup (oid_of o) m = Some old -> sumh (upsert o m) + hid old = sumh m + hid o.
Proof. exact (sumf_upsert_replace hid o old m). Qed.

Lemma length_upsert_fresh o m :
  lookup (oid_of o) m = None -> length (upsert o m) = S (length m).
Proof. intros H. rewrite upsert_fresh by exact H. rewrite app_length. cbn [length]. lia. Qed.

Lemma length_upsert_replace o old m :
  NoDup (ids m) -> lookup (oid_of o) m = Some old -> length (upsert o m) = length m.
Proof.
  intros ND H. rewrite (Permutation_length (upsert_perm o m)). cbn [length].
  rewrite (length_remove_key _ _ _ ND H). reflexivity.
Qed.

(* ------------------------------------------------------------------ *)
(* queue: push / pop / qremove                                         *)
(* ------------------------------------------------------------------ *)

Lemma qmap_push q o : qmap (push q o) = upsert o (qmap q).
Proof. reflexivity. Qed.

Lemma tickets_push q o : tickets (push q o) = tickets q ++ [oid_of o].
Proof. reflexivity. Qed.

Lemma NoDup_push q o : NoDup (ids (qmap q)) -> NoDup (ids (qmap (push q o))).
Proof. intros H. rewrite qmap_push. apply NoDup_ids_upsert. exact H. Qed.

Lemma Covered_push q o : Covered q -> Covered (push q o).
Proof.
  intros C x H. rewrite qmap_push in H. rewrite tickets_push. apply in_or_app.
  apply In_upsert in H. destruct H as [->|[H _]].
  - right. left. reflexivity.
  - left. apply C. exact H.
Qed.

Lemma WfQueue_push q o : WfQueue q -> WfQueue (push q o).
Proof. intros [ND C]. split; [apply NoDup_push | apply Covered_push]; assumption. Qed.

Lemma WfQueue_empty : WfQueue empty_queue.
Proof. split; [constructor | intros o []]. Qed.

(* what pop_t returns *)
Lemma pop_t_Some m t o m' t' :
  pop_t m t = Some (o, m', t') ->
  lookup (oid_of o) m = Some o /\ m' = remove_key (oid_of o) m /\
  exists pre, t = pre ++ oid_of o :: t' /\ forall k, In k pre -> lookup k m = None.
Proof.
  revert o m' t'. induction t as [|k t IH]; intros o m' t' H; cbn [pop_t] in H; [discriminate|].
  destruct (lookup k m) as [x|] eqn:E.
  - inversion H; subst. destruct (lookup_Some _ _ _ E) as [_ Ek]. subst k.
    split; [assumption|]. split; [reflexivity|]. exists []. split; [reflexivity | intros ? []].
  - destruct (IH _ _ _ H) as (H1 & H2 & pre & H3 & H4).
    split; [assumption|]. split; [assumption|]. exists (k :: pre). split.
    + rewrite H3. reflexivity.
    + intros k' [<-|Hk]; [assumption | apply H4; assumption].
Qed.

Lemma pop_t_None m t : pop_t m t = None -> forall k, In k t -> lookup k m = None.
Proof.
  induction t as [|k t IH]; intros H k' Hk; [contradiction|]. cbn [pop_t] in H.
  destruct (lookup k m) eqn:E; [discriminate|].
  destruct Hk as [<-|Hk]; [assumption | apply IH; assumption].
Qed.

Lemma pop_Some q o q' :
  pop q = (Some o, q') ->
  lookup (oid_of o) (qmap q) = Some o /\ qmap q' = remove_key (oid_of o) (qmap q) /\
  exists pre, tickets q = pre ++ oid_of o :: tickets q' /\
              forall k, In k pre -> lookup k (qmap q) = None.
Proof.
  unfold pop. destruct (pop_t (qmap q) (tickets q)) as [[[x m'] t']|] eqn:E; intros H;
    inversion H; subst. cbn [qmap tickets]. apply pop_t_Some. exact E.
Qed.

Lemma pop_None q q' : Covered q -> pop q = (None, q') -> qmap q = [] /\ q' = mkQueue [] [].
Proof.
  unfold pop. intros C. destruct (pop_t (qmap q) (tickets q)) as [[[x m'] t']|] eqn:E; intros H;
    inversion H; subst.
  assert (Hm : qmap q = []).
  { destruct (qmap q) as [|x m] eqn:Em; [reflexivity|]. exfalso.
    assert (Hx : In x (qmap q)) by (rewrite Em; left; reflexivity).
    pose proof (pop_t_None _ _ E _ (C x Hx)) as Hn.
    cbn [lookup] in Hn. rewrite oid_eqb_refl in Hn. discriminate. }
  rewrite Hm. split; reflexivity.
Qed.

Lemma NoDup_pop q o q' : NoDup (ids (qmap q)) -> pop q = (Some o, q') -> NoDup (ids (qmap q')).
Proof.
  intros ND H. destruct (pop_Some _ _ _ H) as (_ & -> & _). apply NoDup_ids_remove_key. exact ND.
Qed.

Lemma Covered_pop q o q' : Covered q -> pop q = (Some o, q') -> Covered q'.
Proof.
  intros C H. destruct (pop_Some _ _ _ H) as (_ & Hm & pre & Ht & Hpre).
  intros x Hx. rewrite Hm in Hx. apply In_remove_key in Hx. destruct Hx as [Hx Hne].
  pose proof (C x Hx) as Hin. rewrite Ht in Hin. apply in_app_or in Hin.
  destruct Hin as [Hin|[Hin|Hin]].
  - apply Hpre in Hin. apply lookup_None in Hin. exfalso. apply Hin. apply in_map. exact Hx.
  - congruence.
  - exact Hin.
Qed.

Lemma WfQueue_pop q o q' : WfQueue q -> pop q = (Some o, q') -> WfQueue q'.
Proof. intros [ND C] H. split; [eapply NoDup_pop | eapply Covered_pop]; eassumption. Qed.

Lemma pop_perm q o q' :
  NoDup (ids (qmap q)) -> pop q = (Some o, q') -> Permutation (qmap q) (o :: qmap q').
Proof.
  intros ND H. destruct (pop_Some _ _ _ H) as (Hl & -> & _). apply remove_key_perm; assumption.
Qed.

Lemma sumv_pop q o q' :
  NoDup (ids (qmap q)) -> pop q = (Some o, q') -> sumv (qmap q) = vis o + sumv (qmap q').
Proof. intros ND H. rewrite (sumv_perm _ _ (pop_perm _ _ _ ND H)). reflexivity. Qed.

Lemma sumh_pop q o q' :
  NoDup (ids (qmap q)) -> pop q = (Some o, q') -> sumh (qmap q) = hid o + sumh (qmap q').
Proof. intros ND H. rewrite (sumh_perm _ _ (pop_perm _ _ _ ND H)). reflexivity. Qed.

Lemma length_pop q o q' :
  NoDup (ids (qmap q)) -> pop q = (Some o, q') -> length (qmap q) = S (length (qmap q')).
Proof. intros ND H. rewrite (Permutation_length (pop_perm _ _ _ ND H)). reflexivity. Qed.

(* qremove *)
Lemma qremove_Some q k o q' :
  qremove q k = (Some o, q') ->
  lookup k (qmap q) = Some o /\ q' = mkQueue (remove_key k (qmap q)) (tickets q).
Proof.
  unfold qremove. destruct (lookup k (qmap q)) eqn:E; intros H; inversion H; subst. auto.
Qed.

Lemma qremove_None q k q' : qremove q k = (None, q') -> lookup k (qmap q) = None /\ q' = q.
Proof.
  unfold qremove. destruct (lookup k (qmap q)) eqn:E; intros H; inversion H; subst. auto.
Qed.

Lemma NoDup_qremove q k r q' : NoDup (ids (qmap q)) -> qremove q k = (r, q') -> NoDup (ids (qmap q')).
Proof.
  intros ND H. destruct r.
  - destruct (qremove_Some _ _ _ _ H) as [_ ->]. apply NoDup_ids_remove_key. exact ND.
  - destruct (qremove_None _ _ _ H) as [_ ->]. exact ND.
Qed.

Lemma Covered_qremove q k r q' : Covered q -> qremove q k = (r, q') -> Covered q'.
Proof.
  intros C H. destruct r.
  - destruct (qremove_Some _ _ _ _ H) as [_ ->]. intros x Hx. cbn [qmap tickets] in *.
    apply In_remove_key in Hx. apply C. apply Hx.
  - destruct (qremove_None _ _ _ H) as [_ ->]. exact C.
Qed.

Lemma WfQueue_qremove q k r q' : WfQueue q -> qremove q k = (r, q') -> WfQueue q'.
Proof. intros [ND C] H. split; [eapply NoDup_qremove | eapply Covered_qremove]; eassumption. Qed.

(* pushing a list of orders whose ids are fresh and distinct appends them *)
Lemma fold_push_fresh os : forall q,
  NoDup (ids (qmap q ++ os)) ->
  qmap (fold_left push os q) = qmap q ++ os /\
  tickets (fold_left push os q) = tickets q ++ ids os.
Proof.
  induction os as [|o os IH]; intros q ND; cbn [fold_left].
  - cbn [ids map]. rewrite !app_nil_r. split; reflexivity.
  - assert (Hf : lookup (oid_of o) (qmap q) = None).
    { apply lookup_None. intros Hin. rewrite ids_app in ND. cbn [ids map] in ND.
      apply NoDup_remove_2 in ND. apply ND. apply in_or_app. left. exact Hin. }
    assert (Hq : qmap (push q o) = qmap q ++ [o]) by (rewrite qmap_push; apply upsert_fresh; exact Hf).
    destruct (IH (push q o)) as [H1 H2].
    { rewrite Hq, <- app_assoc. exact ND. }
    rewrite H1, H2, Hq, tickets_push, <- !app_assoc. split; reflexivity.
Qed.

Lemma Covered_fold_push os : forall q, Covered q -> Covered (fold_left push os q).
Proof.
  induction os as [|o os IH]; intros q C; cbn [fold_left]; [exact C|].
  apply IH. apply Covered_push. exact C.
Qed.

Lemma NoDup_fold_push os : forall q, NoDup (ids (qmap q)) -> NoDup (ids (qmap (fold_left push os q))).
Proof.
  induction os as [|o os IH]; intros q C; cbn [fold_left]; [exact C|].
  apply IH. apply NoDup_push. exact C.
Qed.

Lemma WfQueue_from_vec os : WfQueue (from_vec os).
Proof.
  unfold from_vec. split; [apply NoDup_fold_push; constructor | apply Covered_fold_push; intros o []].
Qed.

Lemma qmap_from_vec os : NoDup (ids os) -> qmap (from_vec os) = os.
Proof. intros ND. unfold from_vec. destruct (fold_push_fresh os empty_queue ND) as [H _]. exact H. Qed.

(* with_reduced_quantity keeps identity and the hidden part *)
Lemma oid_with_reduced o nq : oid_of (with_reduced_quantity o nq) = oid_of o.
Proof. destruct o; reflexivity. Qed.

Lemma com_with_reduced o nq : com (with_reduced_quantity o nq) = com o.
Proof. destruct o; reflexivity. Qed.

Lemma hid_with_reduced o nq : hid (with_reduced_quantity o nq) = hid o.
Proof. destruct o; reflexivity. Qed.
