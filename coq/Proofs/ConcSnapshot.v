(* ConcSnapshot.v — PriceLevel::snapshot() as the four-step call [CSnapshot] of Model/Conc.v
   (program points Sn1..Sn4: visible.load, hidden.load, order_count.load, orders.iter):
   (a) every step at a snapshot point leaves the shared state and the other threads as they are;
   (b) four steps in a row return the state of one instant; when the other threads have all
       returned, that is the three aggregates of the listed orders (Agg);
   (c) whatever the interleaving, the three counters a snapshot returns are within the C12 range. *)
From PL Require Import Spec.ConcSpec Proofs.BaseLemmas Proofs.QueueProofs Proofs.ConcBase Proofs.ConcLemmas
  Proofs.OrderProofs Proofs.ConcInv Proofs.ConcThms.
From Coq Require Import Lia ZifyBool ZifyN Permutation.
Local Open Scope N_scope.

Section WithMf.
Variable mf : order -> N -> mres.

(* ------------------------------------------------------------------ *)
(* (a) purity                                                          *)
(* ------------------------------------------------------------------ *)
Lemma tstep_snap p s p' s' e :
  tstep mf p s = Some (p', s', e) -> snap_pc p ->
  s' = s /\ read_ev s e /\ drain p s = 0 /\
  (snap_pc p' \/ exists v h n, p = Sn4 v h n /\ p' = Done (RetSnap v h n (sort_ts (sh_map s)))).
Proof.
  intros H Hp. destruct p; cbn [snap_pc] in Hp; try contradiction; cbn [tstep] in H;
    inversion H; subst; cbn [read_ev get_obj drain snap_pc]; unfold lenN;
    (split; [reflexivity|split; [auto|split; [reflexivity|]]]).
  - left. exact I.
  - left. exact I.
  - left. exact I.
  - right. exists v, h, c. split; reflexivity.
Qed.

Lemma cstep_snap_pure c i c' e t :
  nth_error (cf_threads c) i = Some t -> snap_pc (th_pc t) -> cstep mf c i = Some (c', e) ->
  cf_sh c' = cf_sh c /\
  (forall j, j <> i -> nth_error (cf_threads c') j = nth_error (cf_threads c) j) /\
  length (cf_threads c') = length (cf_threads c) /\
  read_ev (cf_sh c) e /\
  drain (th_pc t) (cf_sh c) = 0.
Proof.
  intros Hn Hp Hs.
  destruct (cstep_unfold mf _ _ _ _ Hs) as (t0 & p' & s' & Hn0 & Ht & Ec').
  rewrite Hn in Hn0. inversion Hn0; subst t0. clear Hn0.
  destruct (tstep_snap _ _ _ _ _ Ht Hp) as (Es & He & Hd & _). subst s' c'.
  cbn [cf_sh cf_threads]. split; [reflexivity|]. split; [|split; [|split; assumption]].
  - intros j Hj. apply nth_error_update_nth_neq. congruence.
  - clear. generalize (cf_threads c) as l. intros l. revert i.
    induction l as [|y l IH]; intros [|i]; cbn [update_nth length]; try reflexivity.
    rewrite IH. reflexivity.
Qed.

(* ------------------------------------------------------------------ *)
(* (b) four steps in a row                                             *)
(* ------------------------------------------------------------------ *)
Lemma all_rets_settle_n price n : forall t,
  exists rs, all_rets (settle_n n price t) = all_rets t ++ rs.
Proof.
  induction n as [|n IH]; intros [p todo rets]; [exists []; rewrite app_nil_r; reflexivity|].
  cbn [settle_n th_pc th_todo].
  destruct p; try (exists []; rewrite app_nil_r; reflexivity).
  destruct todo as [|c cs]; [exists []; rewrite app_nil_r; reflexivity|].
  destruct (IH (settle price (mkThread (Done r) (c :: cs) rets))) as (rs & Hrs).
  rewrite Hrs. unfold settle, all_rets. cbn [th_pc th_todo th_rets].
  eexists. rewrite <- app_assoc. reflexivity.
Qed.

Lemma update_nth_twice {A} i (x y : A) l : update_nth i x (update_nth i y l) = update_nth i x l.
Proof.
  revert i. induction l as [|z l IH]; intros [|i]; cbn [update_nth]; try reflexivity.
  rewrite IH. reflexivity.
Qed.

(* one step of thread [i] at a point that is not [Done] afterwards: no settling *)
Lemma cstep_plain c i t p' e :
  nth_error (cf_threads c) i = Some t ->
  tstep mf (th_pc t) (cf_sh c) = Some (p', cf_sh c, e) ->
  (forall r, p' <> Done r) ->
  cstep mf c i =
  Some (mkConfig (cf_sh c) (update_nth i (mkThread p' (th_todo t) (th_rets t)) (cf_threads c)), e).
Proof.
  intros Hn Ht Hnd. unfold cstep. rewrite Hn, Ht.
  rewrite settle_n_not_done by (cbn [th_pc]; exact Hnd). reflexivity.
Qed.

Lemma exec_snapshot_alone c i t :
  nth_error (cf_threads c) i = Some t -> th_pc t = Sn1 ->
  exists c' t' rs,
    exec mf [i; i; i; i] c = (c', map (fun e => (i, e)) (snap_events (cf_sh c))) /\
    cf_sh c' = cf_sh c /\
    (forall j, j <> i -> nth_error (cf_threads c') j = nth_error (cf_threads c) j) /\
    nth_error (cf_threads c') i = Some t' /\
    all_rets t' = th_rets t ++ snap_of (cf_sh c) :: rs /\
    (th_todo t = [] -> t' = mkThread (Done (snap_of (cf_sh c))) [] (th_rets t)).
Proof.
  intros Hn Hp. destruct c as [s ts]. cbn [cf_sh cf_threads] in *.
  destruct t as [p todo rets]. cbn [th_pc th_rets] in *. subst p.
  set (t1 := mkThread (Sn2 (sh_cvis s)) todo rets).
  set (t2 := mkThread (Sn3 (sh_cvis s) (sh_chid s)) todo rets).
  set (t3 := mkThread (Sn4 (sh_cvis s) (sh_chid s) (sh_ccnt s)) todo rets).
  set (t4 := settle_n (S (length todo)) (sh_price s) (mkThread (Done (snap_of s)) todo rets)).
  assert (E1 : cstep mf (mkConfig s ts) i = Some (mkConfig s (update_nth i t1 ts), ELoad OVis (sh_cvis s))).
  { apply (cstep_plain (mkConfig s ts) i (mkThread Sn1 todo rets)); [exact Hn|reflexivity|discriminate]. }
  assert (N1 : nth_error (update_nth i t1 ts) i = Some t1) by (eapply nth_error_update_nth_eq; exact Hn).
  assert (E2 : cstep mf (mkConfig s (update_nth i t1 ts)) i
               = Some (mkConfig s (update_nth i t2 ts), ELoad OHid (sh_chid s))).
  { rewrite (cstep_plain (mkConfig s (update_nth i t1 ts)) i t1 (Sn3 (sh_cvis s) (sh_chid s)) (ELoad OHid (sh_chid s)));
      [cbn [cf_sh cf_threads th_todo th_rets t1]; rewrite update_nth_twice; reflexivity
      |exact N1|reflexivity|discriminate]. }
  assert (N2 : nth_error (update_nth i t2 ts) i = Some t2) by (eapply nth_error_update_nth_eq; exact Hn).
  assert (E3 : cstep mf (mkConfig s (update_nth i t2 ts)) i
               = Some (mkConfig s (update_nth i t3 ts), ELoad OCnt (sh_ccnt s))).
  { rewrite (cstep_plain (mkConfig s (update_nth i t2 ts)) i t2 (Sn4 (sh_cvis s) (sh_chid s) (sh_ccnt s))
               (ELoad OCnt (sh_ccnt s)));
      [cbn [cf_sh cf_threads th_todo th_rets t2]; rewrite update_nth_twice; reflexivity
      |exact N2|reflexivity|discriminate]. }
  assert (N3 : nth_error (update_nth i t3 ts) i = Some t3) by (eapply nth_error_update_nth_eq; exact Hn).
  assert (E4 : cstep mf (mkConfig s (update_nth i t3 ts)) i
               = Some (mkConfig s (update_nth i t4 ts), EIter (lenN (sh_map s)))).
  { unfold cstep. cbn [cf_sh cf_threads]. rewrite N3. cbn [t3 th_pc tstep th_todo th_rets].
    rewrite update_nth_twice. reflexivity. }
  destruct (all_rets_settle_n (sh_price s) (S (length todo)) (mkThread (Done (snap_of s)) todo rets)) as (rs & Hrs).
  fold t4 in Hrs. unfold all_rets at 2 in Hrs. cbn [th_pc th_rets] in Hrs.
  exists (mkConfig s (update_nth i t4 ts)), t4, rs.
  split; [|split; [reflexivity|split; [|split; [|split]]]].
  - cbn [exec]. rewrite E1, E2, E3, E4. reflexivity.
  - intros j Hj. cbn [cf_threads]. apply nth_error_update_nth_neq. congruence.
  - cbn [cf_threads]. eapply nth_error_update_nth_eq. exact Hn.
  - rewrite Hrs, <- app_assoc. reflexivity.
  - cbn [th_todo]. intros ->. reflexivity.
Qed.

(* ---- when nobody holds anything, the counters are the sums over the map ---- *)
Lemma Inv_idle_Agg c :
  Inv c ->
  (forall t, In t (cf_threads c) -> pendv (th_pc t) = 0 /\ pendh (th_pc t) = 0 /\ pendc (th_pc t) = 0) ->
  Agg (level_of_shared (cf_sh c)).
Proof.
  intros ((Jv & Jh & Jc) & _) Hidle. cbv zeta in *.
  rewrite tsum_zero in Jv by (intros t Ht; apply (Hidle t Ht)).
  rewrite tsum_zero in Jh by (intros t Ht; apply (Hidle t Ht)).
  rewrite tsum_zero in Jc by (intros t Ht; apply (Hidle t Ht)).
  unfold Agg, resting, lenN in *. cbn [level_of_shared cvis chid ccnt lq qmap]. repeat split; lia.
Qed.

Lemma finished_idle t : thread_finished t = true ->
  pendv (th_pc t) = 0 /\ pendh (th_pc t) = 0 /\ pendc (th_pc t) = 0.
Proof.
  intros H. destruct (thread_finished_pc t H) as (r & Hp & _). rewrite Hp. repeat split.
Qed.

Hypothesis HI : I_cons mf.

Lemma snapshot_quiescent_exact sched c0 :
  Inv c0 ->
  let c := fst (exec mf sched c0) in
  forall i t,
    nth_error (cf_threads c) i = Some t -> th_pc t = Sn1 ->
    (forall j u, j <> i -> nth_error (cf_threads c) j = Some u -> thread_finished u = true) ->
    let s := cf_sh c in
    let ls := sort_ts (sh_map s) in
    exists c' t' rs,
      exec mf [i; i; i; i] c = (c', map (fun e => (i, e)) (snap_events s)) /\
      cf_sh c' = s /\
      nth_error (cf_threads c') i = Some t' /\
      all_rets t' = th_rets t ++ RetSnap (sumv ls) (sumh ls) (lenN ls) ls :: rs /\
      Permutation ls (sh_map s) /\ NoDup (ids ls) /\
      Agg (level_of_shared s).
Proof.
  intros H0 c i t Hn Hp Hoth s ls.
  destruct (exec_Inv mf HI sched c0 H0) as (Hc & _). fold c in Hc.
  assert (HA : Agg (level_of_shared s)).
  { apply Inv_idle_Agg; [exact Hc|]. intros u Hu.
    apply In_nth_error in Hu. destruct Hu as (j & Hj).
    destruct (Nat.eq_dec j i) as [->|Hne].
    - rewrite Hn in Hj. inversion Hj; subst u. rewrite Hp. repeat split.
    - apply finished_idle. eapply Hoth; eassumption. }
  pose proof (sort_ts_perm (sh_map s)) as P. fold ls in P.
  destruct (exec_snapshot_alone c i t Hn Hp) as (c' & t' & rs & He & Hs & _ & Hn' & Hr & _).
  exists c', t', rs.
  destruct HA as (Av & Ah & Ac). unfold resting in Av, Ah, Ac.
  cbn [level_of_shared cvis chid ccnt lq qmap] in Av, Ah, Ac.
  split; [exact He|]. split; [exact Hs|]. split; [exact Hn'|]. split; [|split; [exact P|split]].
  - rewrite Hr. unfold snap_of. fold s. fold ls.
    rewrite (sumv_perm _ _ P), (sumh_perm _ _ P). unfold lenN. rewrite (length_perm_N _ _ P).
    rewrite <- Av, <- Ah, <- Ac. reflexivity.
  - apply (NoDup_ids_perm _ _ (Permutation_sym P)). apply Inv_NoDup. exact Hc.
  - unfold Agg, resting. cbn [level_of_shared cvis chid ccnt lq qmap]. repeat split; assumption.
Qed.

(* the whole configuration has come to rest after the snapshot: C03_quiescent_aggregates applies to it *)
Lemma snapshot_last_call_quiescent c i t :
  nth_error (cf_threads c) i = Some t -> th_pc t = Sn1 -> th_todo t = [] ->
  (forall j u, j <> i -> nth_error (cf_threads c) j = Some u -> thread_finished u = true) ->
  quiescent (fst (exec mf [i; i; i; i] c)) = true /\ cf_sh (fst (exec mf [i; i; i; i] c)) = cf_sh c.
Proof.
  intros Hn Hp Htd Hoth.
  destruct (exec_snapshot_alone c i t Hn Hp) as (c' & t' & rs & He & Hs & Hrest & Hn' & _ & Hfin).
  rewrite He. cbn [fst]. split; [|exact Hs].
  unfold quiescent. apply forallb_forall. intros u Hu.
  apply In_nth_error in Hu. destruct Hu as (j & Hj).
  destruct (Nat.eq_dec j i) as [->|Hne].
  - rewrite Hn' in Hj. inversion Hj; subst u. rewrite (Hfin Htd). reflexivity.
  - rewrite (Hrest j Hne) in Hj. eapply Hoth; eassumption.
Qed.

(* ------------------------------------------------------------------ *)
(* (c) the counters of ANY snapshot are within the C12 range           *)
(* ------------------------------------------------------------------ *)
Lemma start_snap_le B Bc price c : pc_snap_le B Bc (start price c).
Proof.
  destruct c as [o|qty taker|u| | | | | |]; cbn [start pc_snap_le]; try exact I.
  - unfold next_iter, start_finish. cbn [ml_rem ml_aside].
    destruct (qty =? 0); exact I.
  - destruct u as [k np|k nq|k np nq|k|k p q sd]; try exact I.
    + destruct (np =? price); exact I.
    + destruct (np =? price); exact I.
    + destruct (p =? price); exact I.
Qed.

Lemma tstep_snap_le B Bc p s p' s' e :
  tstep mf p s = Some (p', s', e) ->
  pc_snap_le B Bc p -> sh_cvis s <= B -> sh_chid s <= B -> sh_ccnt s <= Bc ->
  pc_snap_le B Bc p'.
Proof.
  intros H Hp Hv Hh Hn.
  destruct p; cbn [tstep] in H; unfold fetch_add, fetch_sub in H;
    repeat match type of H with
    | context [if ?c then _ else _] => destruct c; cbv beta iota zeta in H
    | context [match ?d with _ => _ end] => destruct d; cbv beta iota zeta in H
    end; try discriminate; inversion H; subst; clear H;
    unfold next_iter, start_finish, after_stats, amend_after_remove;
    cbn [ml_rem ml_aside ml_set_rem];
    repeat match goal with
    | |- context [if ?c then _ else _] => destruct c
    | |- context [match ?d with _ => _ end] => destruct d
    end; cbn [pc_snap_le ret_snap_le] in *; try exact I; repeat split; try tauto; try lia.
Qed.

Lemma cstep_SnapLe B Bc c i c' e :
  Inv c -> Supplied c <= B -> OrdersB c <= Bc ->
  SnapLe B Bc c -> cstep mf c i = Some (c', e) -> SnapLe B Bc c'.
Proof.
  intros Hc HB HBc HS Hs.
  destruct (cstep_unfold mf _ _ _ _ Hs) as (t & p' & s' & Hn & Ht & ->).
  destruct (Inv_counters c Hc) as (A & C & _).
  unfold SnapLe in *. cbn [cf_threads].
  apply Forall_update; [exact HS|].
  pose proof (Forall_nth _ _ _ _ HS Hn) as (Hr & Hp).
  apply (settle_n_pred (fun t => Forall (ret_snap_le B Bc) (th_rets t) /\ pc_snap_le B Bc (th_pc t))).
  - intros r c0 cs rets (Hr0 & Hp0). cbn [th_rets th_pc] in *. split.
    + apply Forall_app. split; [exact Hr0|]. constructor; [exact Hp0|constructor].
    + apply start_snap_le.
  - cbn [th_rets th_pc]. split; [exact Hr|].
    eapply tstep_snap_le; [exact Ht|exact Hp|lia|lia|lia].
Qed.

Lemma exec_SnapLe B Bc sched : forall c,
  Inv c -> Supplied c <= B -> OrdersB c <= Bc ->
  SnapLe B Bc c -> SnapLe B Bc (fst (exec mf sched c)).
Proof.
  induction sched as [|i rest IH]; intros c Hc HB HBc HS; cbn [exec]; [exact HS|].
  destruct (cstep mf c i) as [[c' e]|] eqn:Hs; [|apply IH; assumption].
  pose proof (cstep_Inv mf HI _ _ _ _ Hc Hs) as Hc'.
  pose proof (cstep_Supplied_le mf HI _ _ _ _ Hc Hs) as (L1 & L2).
  pose proof (cstep_SnapLe B Bc _ _ _ _ Hc HB HBc HS Hs) as HS'.
  specialize (IH c' Hc' ltac:(lia) ltac:(lia) HS').
  destruct (exec mf rest c') as [c'' tr]. exact IH.
Qed.

Lemma exec_snapshot_bounded sched c0 :
  Inv c0 -> SnapLe (Supplied c0) (OrdersB c0) c0 ->
  SnapLe (Supplied c0) (OrdersB c0) (fst (exec mf sched c0)) /\ Supplied c0 < W /\ OrdersB c0 < W.
Proof.
  intros H0 HS. split; [apply exec_SnapLe; try assumption; lia|].
  destruct H0 as (_ & _ & _ & B1 & B2). split; assumption.
Qed.

End WithMf.

(* initial configurations have taken no snapshot yet *)
Lemma thread_init_snap_le B Bc price cs :
  Forall (ret_snap_le B Bc) (th_rets (thread_init price cs)) /\ pc_snap_le B Bc (th_pc (thread_init price cs)).
Proof.
  destruct cs as [|c cs]; cbn [thread_init].
  - cbn [th_rets th_pc pc_snap_le ret_snap_le]. split; [constructor|exact I].
  - apply (settle_n_pred (fun t => Forall (ret_snap_le B Bc) (th_rets t) /\ pc_snap_le B Bc (th_pc t))).
    + intros r c0 cs0 rets (Hr0 & Hp0). cbn [th_rets th_pc] in *. split.
      * apply Forall_app. split; [exact Hr0|]. constructor; [exact Hp0|constructor].
      * apply start_snap_le.
    + cbn [th_rets th_pc]. split; [constructor|apply start_snap_le].
Qed.

Lemma init_SnapLe B Bc l gen progs : SnapLe B Bc (init_config l gen progs).
Proof.
  unfold SnapLe, init_config. cbn [cf_threads]. rewrite Forall_map.
  apply Forall_forall. intros cs _. apply thread_init_snap_le.
Qed.

Lemma SnapLe_all_rets B Bc c i t r :
  SnapLe B Bc c -> nth_error (cf_threads c) i = Some t -> In r (all_rets t) -> ret_snap_le B Bc r.
Proof.
  intros HS Hn Hin. destruct (Forall_nth _ _ _ _ HS Hn) as (Hr & Hp).
  unfold all_rets in Hin. apply in_app_or in Hin. destruct Hin as [Hin|Hin].
  - rewrite Forall_forall in Hr. apply Hr. exact Hin.
  - destruct (th_pc t); try contradiction. destruct Hin as [<-|[]]. exact Hp.
Qed.

Lemma init_snapshot_bounded mf l gen progs sched :
  I_cons mf -> wf_progs l progs ->
  let c := fst (exec mf sched (init_config l gen progs)) in
  let B := sumv (resting l) + sumh (resting l) + prog_budget (price l) progs in
  let Bc := lenN (resting l) + prog_bc progs in
  forall i t v h n ls,
    nth_error (cf_threads c) i = Some t -> In (RetSnap v h n ls) (all_rets t) ->
    v <= B /\ h <= B /\ n <= Bc /\ B < W /\ Bc < W.
Proof.
  intros HI Hwf c B Bc i t v h n ls Hn Hin.
  pose proof (init_Inv l gen progs Hwf) as H0.
  destruct (exec_snapshot_bounded mf HI sched _ H0 (init_SnapLe _ _ l gen progs)) as (HS & W1 & W2).
  fold c in HS. destruct (init_Supplied l gen progs) as (E1 & E2). rewrite E1, E2 in *.
  unfold sumt in *. fold B in HS, W1. fold Bc in HS, W2.
  pose proof (SnapLe_all_rets _ _ _ _ _ _ HS Hn Hin) as Hr. cbn [ret_snap_le] in Hr.
  destruct Hr as (A1 & A2 & A3). repeat split; assumption.
Qed.
