(* OrderProofs.v — lemmas about match_against (C05) and the interface that the
   level-level developments assume of the per-order function. *)
From PL Require Import Model.Order Spec.MatchSpec Spec.Hist.
From Coq Require Import Lia ZifyBool ZifyN.

Local Open Scope N_scope.

Ltac case_if :=
  match goal with
  | |- context [if ?c then _ else _] => let E := fresh "E" in destruct c eqn:E
  end.

(* The code and the declarative rules agree on every order and quantity. *)
Lemma match_against_eq_spec : forall o inc, match_against o inc = match_spec o inc.
Proof.
  intros o inc. destruct o as [c q|c v h|c q|c q t l|c q off p|c q|c v h thr amt au];
    unfold match_spec; cbn [match_against family_of vis hid with_quantities
                              with_reduced_quantity reserve_amount reserve_threshold
                              reserve_auto].
  1,3,4,5,6:
    destruct (N.leb_spec q inc);
    [ replace (N.min inc q) with q by lia; reflexivity
    | replace (N.min inc q) with inc by lia; replace (inc - inc) with 0 by lia; reflexivity ].
  - (* Iceberg *)
    destruct (N.leb_spec v inc) as [Hle|Hgt].
    + replace (N.min inc v) with v by lia.
      destruct (N.ltb_spec 0 h) as [Hh|Hh].
      * replace (h =? 0) with false by lia. reflexivity.
      * replace (h =? 0) with true by lia. reflexivity.
    + replace (N.min inc v) with inc by lia. replace (inc - inc) with 0 by lia. reflexivity.
  - (* Reserve *)
    unfold DEFAULT_RESERVE_REPLENISH_AMOUNT.
    set (rq := N.min match amt with Some a => a | None => 80 end h).
    destruct (N.leb_spec v inc) as [Hle|Hgt].
    + replace (N.min inc v) with v by lia. replace (v - v) with 0 by lia.
      rewrite N.add_0_l. rewrite orb_true_l, andb_true_r.
      rewrite (andb_comm au). destruct ((0 <? h) && au); reflexivity.
    + replace (N.min inc v) with inc by lia. replace (inc - inc) with 0 by lia.
      rewrite orb_false_l.
      destruct au; cbn [andb].
      * rewrite andb_true_r.
        replace (((v - inc <? (if thr =? 0 then 1 else thr)) && (0 <? h)))
          with ((0 <? h) && (v - inc <? (if thr =? 0 then 1 else thr))) by apply andb_comm.
        destruct ((0 <? h) && (v - inc <? (if thr =? 0 then 1 else thr))); reflexivity.
      * rewrite andb_false_r. reflexivity.
Qed.

(* --- consequences, stated on their own so that they survive a rewrite of the spec --- *)

Lemma consumed_min : forall o inc, m_consumed (match_against o inc) = N.min inc (vis o).
Proof.
  intros o inc. rewrite match_against_eq_spec. unfold match_spec.
  destruct (family_of o); repeat case_if; reflexivity.
Qed.

Lemma remaining_eq : forall o inc,
  m_remaining (match_against o inc) = inc - m_consumed (match_against o inc).
Proof.
  intros o inc. rewrite match_against_eq_spec. unfold match_spec.
  destruct (family_of o); repeat case_if; reflexivity.
Qed.

Lemma vis_with_quantities o v h : vis (with_quantities o v h) = v.
Proof. destruct o; reflexivity. Qed.

Lemma hid_with_quantities o v h :
  hid (with_quantities o v h) = match family_of o with Plain => 0 | _ => h end.
Proof. destruct o; reflexivity. Qed.

Lemma plain_hid0 o : family_of o = Plain -> hid o = 0.
Proof. destruct o; cbn; congruence. Qed.

Lemma same_identity_with_quantities o v h : same_identity o (with_quantities o v h).
Proof. destruct o; cbn; auto. Qed.

Lemma reserve_amount_le o : reserve_amount o <= hid o.
Proof. destruct o; cbn; lia. Qed.

(* Conservation: displayed + hidden afterwards = before - consumed, and the
   hidden part shrinks by exactly [hidden_reduced]. *)
Lemma conservation : forall o inc u,
  m_updated (match_against o inc) = Some u ->
  vis u + hid u + m_consumed (match_against o inc) = vis o + hid o /\
  hid u + m_hidden_reduced (match_against o inc) = hid o /\
  same_identity o u.
Proof.
  intros o inc u. rewrite match_against_eq_spec. unfold match_spec.
  pose proof (reserve_amount_le o) as Hamt.
  destruct (family_of o) eqn:F; repeat case_if; cbn [m_updated m_consumed m_hidden_reduced];
    intros H; inversion H; subst u; clear H;
    rewrite vis_with_quantities, hid_with_quantities, F;
    try (pose proof (plain_hid0 o F));
    (split; [lia | split; [lia | apply same_identity_with_quantities]]).
Qed.

(* When the order leaves, nothing is reported as moved out of hidden. *)
Lemma leaves_hidden_reduced : forall o inc,
  m_updated (match_against o inc) = None -> m_hidden_reduced (match_against o inc) = 0.
Proof.
  intros o inc. rewrite match_against_eq_spec. unfold match_spec.
  destruct (family_of o); repeat case_if; cbn; congruence.
Qed.

(* An order leaves only with its display exhausted. *)
Lemma leaves_exhausted : forall o inc,
  m_updated (match_against o inc) = None -> vis o <= inc.
Proof.
  intros o inc. rewrite match_against_eq_spec. unfold match_spec.
  destruct (family_of o); repeat case_if; cbn; try congruence; lia.
Qed.

(* No intermediate or final quantity leaves the 64-bit range. *)
Lemma match_against_bounded : forall o inc,
  wf_order o -> inc < W ->
  let r := match_against o inc in
  m_consumed r < W /\ m_hidden_reduced r < W /\ m_remaining r < W /\
  match m_updated r with Some u => wf_order u | None => True end.
Proof.
  intros o inc [Hsum Hpar] Hinc r.
  pose proof (consumed_min o inc) as Hc. pose proof (remaining_eq o inc) as Hr.
  fold r in Hc, Hr.
  assert (Hcw : m_consumed r < W) by lia.
  assert (Hrw : m_remaining r < W) by lia.
  destruct (m_updated r) as [u|] eqn:Hu.
  - destruct (conservation o inc u Hu) as (Hcons & Hhid & Hid). fold r in Hcons, Hhid.
    repeat split; try lia.
    + destruct o, u; cbn in Hid; try contradiction; cbn in *; try lia.
      destruct Hid as (_ & -> & -> & _). exact Hpar.
  - pose proof (leaves_hidden_reduced o inc Hu) as Hz. fold r in Hz.
    repeat split; try lia.
Qed.

(* --- the interface assumed of the per-order function by Level-level proofs --- *)

Lemma match_against_I_cons : I_cons match_against.
Proof.
  intros o inc. split; [apply consumed_min|]. split; [apply remaining_eq|].
  destruct (m_updated (match_against o inc)) eqn:Hu.
  - apply conservation; assumption.
  - split; [apply leaves_hidden_reduced | apply leaves_exhausted]; assumption.
Qed.

Lemma same_identity_oid a b : same_identity a b -> oid_of a = oid_of b.
Proof.
  destruct a, b; cbn; try contradiction; unfold oid_of; cbn; intuition congruence.
Qed.

Lemma same_identity_com a b : same_identity a b -> com a = com b.
Proof. destruct a, b; cbn; try contradiction; intuition congruence. Qed.

Lemma match_against_I_id : I_id match_against.
Proof. intros o inc u H. apply (conservation o inc u H). Qed.
