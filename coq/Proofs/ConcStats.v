(* ConcStats.v — C15, concurrent half: the statistics counters agree with what
   the threads have done, at every reachable configuration. *)
From PL Require Import Spec.ConcSpec Proofs.ConcBase Proofs.OrderProofs Proofs.ConcInv Proofs.ConcThms.
From Coq Require Import Lia ZifyBool ZifyN.
Local Open Scope N_scope.

Arguments upsert : simpl never.
Arguments remove_key : simpl never.
Arguments wadd : simpl never.
Arguments wsub : simpl never.

Lemma txsum_cons t l : txsum (t :: l) = tx_qty t + txsum l.
Proof. reflexivity. Qed.

Lemma txsum_app a b : txsum (a ++ b) = txsum a + txsum b.
Proof.
  induction a as [|t a IH]; cbn [app]; [change (txsum []) with 0; lia|].
  rewrite !txsum_cons, IH. lia.
Qed.

Lemma txsum_single t : txsum [t] = tx_qty t.
Proof. rewrite txsum_cons. change (txsum []) with 0. lia. Qed.

(* statistics measures of the derived program points *)
Definition splain (p : pc) (res : result) : Prop :=
  adds_go p = 0 /\ adds_done_pc p = 0 /\ pq p = 0 /\ qgo p = 0 /\ txq_pc p = txsum (r_txs res).

Lemma start_finish_splain ml : splain (start_finish ml) (ml_res ml).
Proof. unfold start_finish. destruct (ml_aside ml); repeat split. Qed.

Lemma next_iter_splain ml : splain (next_iter ml) (ml_res ml).
Proof. unfold next_iter. destruct (ml_rem ml =? 0); [apply start_finish_splain|repeat split]. Qed.

Lemma start_stats price c :
  adds_go (start price c) = call_bc c /\ adds_done_pc (start price c) = 0 /\
  pq (start price c) = 0 /\ qgo (start price c) = 0 /\ txq_pc (start price c) = 0.
Proof.
  destruct c as [o|qty taker|u| | | | | |]; cbn [start]; try (repeat split; fail).
  - destruct (next_iter_splain (mkMloc taker qty (result_new taker qty) [])) as (A & B & C & D & E).
    cbn [ml_res result_new r_txs txsum fold_right] in E. cbn [call_bc]. repeat split; assumption.
  - destruct u as [k np|k nq|k np nq|k|k p q sd]; cbn [call_bc]; try (repeat split; fail).
    + destruct (np =? price); repeat split.
    + destruct (np =? price); repeat split.
    + destruct (p =? price); repeat split.
Qed.

Ltac use_splain q :=
  let A := fresh "Sa" in let B := fresh "Sb" in let C := fresh "Sc" in
  let D := fresh "Sd" in let E := fresh "Se" in
  destruct q as (A & B & C & D & E); rewrite ?A, ?B, ?C, ?D, ?E in *.

Ltac normS :=
  norm;
  cbn [adds_go adds_done_pc pq qgo xdrain txq_pc ret_txq is_removed_ev
       s_added s_removed s_executed s_qty s_value sh_st set_obj get_obj ml_res] in *.

Section Stats.
Variable mf : order -> N -> mres.
Hypothesis HI : I_cons mf.

Ltac inv H := inversion H; subst; clear H.
Ltac rf Hok :=
  norm; let Hok' := fresh "Hok'" in pose proof Hok as Hok';
  unfold rfacts in Hok;
  first [ destruct Hok as ((?Hle & ?Hu) & ?Eu); rewrite Eu in Hu
        | destruct Hok as (?Hle & ?Hu) ].
Ltac ins HK o m :=
  let Hz := fresh "Hz" in
  assert (Hz : idc (oid_of o) m = 0) by (specialize (HK (oid_of o)); norm; lia);
  destruct (sums_upsert o m Hz) as (?Sv & ?Sh & ?Sl).
Ltac rem HK k m o L :=
  let Hz := fresh "Hz" in
  assert (Hz : idc k m <= 1) by (specialize (HK k); norm; lia);
  destruct (sums_remove k m o Hz L) as (?Sv & ?Sh & ?Sl);
  pose proof (lookup_oid k m o L) as ?Hoid; subst k.
Ltac finS :=
  normS; rewrite ?wadd_nowrap by lia; rewrite ?wsub_nowrap by lia; repeat split; lia.
Ltac genS Hstep := inv Hstep; finS.

Lemma tstep_S p s p' s' e :
  tstep mf p s = Some (p', s', e) ->
  pc_ok p ->
  (forall x, idc x (sh_map s) + cnt x (pids p) <= 1) ->
  s_added (sh_st s) + adds_go p < W ->
  s_removed (sh_st s) + lenN (sh_map s) + bc p < W ->
  s_qty (sh_st s) + qgo p < W ->
  (s_added (sh_st s') + adds_go p' = s_added (sh_st s) + adds_go p /\
   adds_done_pc p' + adds_go p' = adds_done_pc p + adds_go p) /\
  (s_removed (sh_st s') = s_removed (sh_st s) + (if is_removed_ev e then 1 else 0) /\
   s_removed (sh_st s') + lenN (sh_map s') + bc p' <= s_removed (sh_st s) + lenN (sh_map s) + bc p) /\
  (s_qty (sh_st s') + qgo p' = s_qty (sh_st s) + qgo p + xdrain p /\
   s_qty (sh_st s') + pq p' + txq_pc p = s_qty (sh_st s) + pq p + txq_pc p').
Proof.
  intros Hstep Hok HK HA HR HQ.
  destruct s as [pr cv ch cc m tk st g].
  destruct p; cbn [tstep fetch_add fetch_sub sh_map sh_tk sh_st] in *.
  - (* Done *) discriminate.
  - (* A1 *) genS Hstep.
  - (* A2 *) genS Hstep.
  - (* A3 *) genS Hstep.
  - (* A4 *) genS Hstep.
  - (* A5 *) inv Hstep. ins HK o m. finS.
  - (* A6 *) genS Hstep.
  - (* M1 *) destruct tk as [|k t]; inv Hstep.
    + normS. use_plain (start_finish_asd ml). use_splain (start_finish_splain ml). finS.
    + finS.
  - (* M2 *) destruct (lookup k m) as [o|] eqn:L; inv Hstep.
    + rem HK k m o L. pose proof (rfacts_of_I_cons mf o (ml_rem ml) HI) as Hr.
      set (r := mf o (ml_rem ml)) in *.
      destruct ((m_consumed r =? 0) && (m_hidden_reduced r =? 0) && is_some (m_updated r)) eqn:E1;
        [|destruct (0 <? m_consumed r) eqn:E2].
      * normS.
        use_plain (next_iter_asd (mkMloc (ml_taker ml) (ml_rem ml) (ml_res ml) (ml_aside ml ++ [o]))).
        use_splain (next_iter_splain (mkMloc (ml_taker ml) (ml_rem ml) (ml_res ml) (ml_aside ml ++ [o]))).
        finS.
      * finS.
      * finS.
    + finS.
  - (* M3 *) inv Hstep. rf Hok. finS.
  - (* M4 *) inv Hstep. rf Hok.
    destruct (is_some (m_updated r)); normS; cbn [add_transaction add_filled r_txs] in *;
      rewrite txsum_app, txsum_single; cbn [tx_qty]; finS.
  - (* M5 *) inv Hstep. rf Hok. finS.
  - (* M6 *) inv Hstep. rf Hok. finS.
  - (* M7 *) inv Hstep. rf Hok. unfold after_stats.
    destruct (m_updated r) as [u|] eqn:Eu; [destruct (0 <? m_hidden_reduced r) eqn:E|].
    + finS.
    + finS.
    + finS.
  - (* M10 *) inv Hstep. rf Hok. finS.
  - (* M11 *) inv Hstep. rf Hok. finS.
  - (* M12 *) inv Hstep. ins HK u m. finS.
  - (* M13 *) inv Hstep. normS. use_plain (next_iter_asd ml). use_splain (next_iter_splain ml). finS.
  - (* M14 *) inv Hstep. rf Hok. destruct Hu as (Hu1 & Hu2).
    destruct (drops_hidden o r) eqn:Ed.
    + finS.
    + normS. use_plain (next_iter_asd ml). use_splain (next_iter_splain ml). finS.
  - (* M15 *) inv Hstep. normS. use_plain (next_iter_asd ml). use_splain (next_iter_splain ml). finS.
  - (* F1 *) inv Hstep. ins HK o m. finS.
  - (* F2 *) inv Hstep. normS.
    use_plain (start_finish_asd (mkMloc (ml_taker ml) (ml_rem ml) (ml_res ml) rest)).
    use_splain (start_finish_splain (mkMloc (ml_taker ml) (ml_rem ml) (ml_res ml) rest)). finS.
  - (* C1 *) destruct (lookup k m) as [o|] eqn:L; inv Hstep.
    + rem HK k m o L. finS.
    + finS.
  - (* C2 *) genS Hstep.
  - (* C3 *) genS Hstep.
  - (* C4 *) genS Hstep.
  - (* C5 *) genS Hstep.
  - (* U1 *) destruct (lookup k m) as [o|] eqn:L; inv Hstep; finS.
  - (* U2 *) destruct (lookup k m) as [old|] eqn:L; inv Hstep.
    + rem HK k m old L.
      unfold amend_after_remove.
      set (new := with_reduced_quantity old nq) in *.
      destruct (negb (vis old =? vis new)) eqn:E1; [|destruct (negb (hid old =? hid new)) eqn:E2];
        finS.
    + finS.
  - (* U3 *)
    destruct (vis old <? vis new) eqn:E1; cbn [fetch_add fetch_sub] in Hstep; inv Hstep;
      destruct (negb (hid old =? hid new)) eqn:E2; finS.
  - (* U4 *)
    destruct (hid old <? hid new) eqn:E1; cbn [fetch_add fetch_sub] in Hstep; inv Hstep; finS.
  - (* U5 *) inv Hstep. ins HK new m. finS.
  - (* U6 *) genS Hstep.
  - (* RdV *) genS Hstep.
  - (* RdH *) genS Hstep.
  - (* RdC *) genS Hstep.
  - (* RdL *) genS Hstep.
  - (* G1 *) genS Hstep.
  - (* Sn1 *) genS Hstep.
  - (* Sn2 *) genS Hstep.
  - (* Sn3 *) genS Hstep.
  - (* Sn4 *) genS Hstep.
Qed.

End Stats.

(* ---- settle and the statistics measures ---- *)
Lemma tsum_snoc {A} (f : A -> N) l x : tsum f (l ++ [x]) = tsum f l + f x.
Proof. rewrite tsum_app, tsum_cons. cbn. lia. Qed.

Lemma settle_tadds_go n price t : tadds_go (settle_n n price t) = tadds_go t.
Proof.
  apply (settle_n_measure tadds_go). intros r c cs rets. unfold tadds_go, todo_bc. cbn [th_pc th_todo].
  destruct (start_stats price c) as (A & _). rewrite A, tsum_cons. cbn [adds_go]. lia.
Qed.

Lemma settle_tadds_done n price t : tadds_done (settle_n n price t) = tadds_done t.
Proof.
  apply (settle_n_measure tadds_done). intros r c cs rets. unfold tadds_done. cbn [th_pc th_rets].
  destruct (start_stats price c) as (_ & B & _). rewrite B, tsum_snoc.
  destruct r; cbn [adds_done_pc is_RetAdd]; lia.
Qed.

Lemma settle_ttxq n price t : ttxq (settle_n n price t) = ttxq t.
Proof.
  apply (settle_n_measure ttxq). intros r c cs rets. unfold ttxq. cbn [th_pc th_rets].
  destruct (start_stats price c) as (_ & _ & _ & _ & E). rewrite E, tsum_snoc. cbn [txq_pc]. lia.
Qed.

Lemma settle_pq n price t : pq (th_pc (settle_n n price t)) = pq (th_pc t).
Proof.
  apply (settle_n_measure (fun t => pq (th_pc t))). intros r c cs rets. cbn [th_pc].
  destruct (start_stats price c) as (_ & _ & C & _). rewrite C. reflexivity.
Qed.

Lemma settle_qgo n price t : qgo (th_pc (settle_n n price t)) = qgo (th_pc t).
Proof.
  apply (settle_n_measure (fun t => qgo (th_pc t))). intros r c cs rets. cbn [th_pc].
  destruct (start_stats price c) as (_ & _ & _ & D & _). rewrite D. reflexivity.
Qed.

Lemma xdrain_le_drain p s : xdrain p <= drain p s.
Proof. destruct p; cbn [xdrain drain]; lia. Qed.

Lemma lg_exec_add g p s : lg_exec (lg_add g (drain_kind p) (drain p s)) = lg_exec g + xdrain p.
Proof. destruct p; cbn [drain_kind lg_add lg_exec xdrain drain]; lia. Qed.

Section StatsStep.
Variable mf : order -> N -> mres.
Hypothesis HI : I_cons mf.

Lemma cstep_stats c i c' e t :
  Inv c -> StatsBound c ->
  nth_error (cf_threads c) i = Some t -> cstep mf c i = Some (c', e) ->
  st_added c' + AddsGo c' = st_added c + AddsGo c /\
  AddsDone c' + AddsGo c' = AddsDone c + AddsGo c /\
  st_removed c' = st_removed c + (if is_removed_ev e then 1 else 0) /\
  st_removed c' + OrdersB c' <= st_removed c + OrdersB c /\
  st_qty c' + QGo c' = st_qty c + QGo c + xdrain (th_pc t) /\
  st_qty c' + PQ c' + TXQ c = st_qty c + PQ c + TXQ c'.
Proof.
  intros Hinv (BA & BR & BQ) Hn Hstep.
  destruct (cstep_unfold mf _ _ _ _ Hstep) as (t0 & p' & s' & Hn0 & Ht & Ec').
  rewrite Hn in Hn0. assert (t0 = t) by congruence. subst t0. clear Hn0.
  destruct Hinv as (_ & HKc & Hpok & _).
  pose proof (Forall_nth _ _ _ _ Hpok Hn) as Hokp.
  assert (HKl : forall x, idc x (sh_map (cf_sh c)) + cnt x (pids (th_pc t)) <= 1).
  { intros x. specialize (HKc x).
    rewrite (tsum_split (fun t => cnt x (tids t)) i _ t Hn) in HKc.
    unfold tids in HKc. rewrite cnt_app in HKc. lia. }
  unfold st_added, st_removed, st_qty, AddsGo, AddsDone, OrdersB, QGo, PQ, TXQ, Supplied in *.
  subst c'. cbn [cf_sh cf_threads].
  set (ts := cf_threads c) in *. set (s := cf_sh c) in *.
  set (t1 := mkThread p' (th_todo t) (th_rets t)).
  remember (settle_n (S (length (th_todo t))) (sh_price s') t1) as t' eqn:Et'.
  assert (M1 : tadds_go t' = adds_go p' + todo_bc (th_todo t)) by (subst t'; rewrite settle_tadds_go; reflexivity).
  assert (M2 : tadds_done t' = tsum is_RetAdd (th_rets t) + adds_done_pc p') by (subst t'; rewrite settle_tadds_done; reflexivity).
  assert (M3 : ttxq t' = tsum ret_txq (th_rets t) + txq_pc p') by (subst t'; rewrite settle_ttxq; reflexivity).
  assert (M4 : pq (th_pc t') = pq p') by (subst t'; rewrite settle_pq; reflexivity).
  assert (M5 : qgo (th_pc t') = qgo p') by (subst t'; rewrite settle_qgo; reflexivity).
  assert (M6 : tbc t' = bc p' + todo_bc (th_todo t)) by (subst t'; rewrite settle_tbc; reflexivity).
  clear Et'.
  rewrite (tsum_split tadds_go i ts t Hn) in *.
  rewrite (tsum_split tadds_done i ts t Hn).
  rewrite (tsum_split tbc i ts t Hn) in *.
  rewrite (tsum_split ttxq i ts t Hn).
  rewrite (tsum_split (fun t => pq (th_pc t)) i ts t Hn).
  rewrite (tsum_split (fun t => qgo (th_pc t)) i ts t Hn) in *.
  rewrite (tsum_split (tbudget (sh_price s)) i ts t Hn) in BQ.
  rewrite (tsum_update tadds_go i ts t t' Hn), (tsum_update tadds_done i ts t t' Hn),
          (tsum_update tbc i ts t t' Hn), (tsum_update ttxq i ts t t' Hn),
          (tsum_update (fun t => pq (th_pc t)) i ts t t' Hn),
          (tsum_update (fun t => qgo (th_pc t)) i ts t t' Hn).
  rewrite M1, M2, M3, M4, M5, M6.
  unfold tadds_go, tadds_done, tbc, ttxq in *.
  assert (HA : s_added (sh_st s) + adds_go (th_pc t) < W) by lia.
  assert (HR : s_removed (sh_st s) + lenN (sh_map s) + bc (th_pc t) < W) by lia.
  assert (HQ : s_qty (sh_st s) + qgo (th_pc t) < W) by lia.
  destruct (tstep_S mf HI _ _ _ _ _ Ht Hokp HKl HA HR HQ) as ((A1 & A2) & (R1 & R2) & (Q1 & Q2)).
  repeat split; lia.
Qed.

(* along a schedule *)
Lemma exec_stats sched : forall c g,
  Inv c -> StatsBound c ->
  let c' := fst (exec mf sched c) in
  let tr := snd (exec mf sched c) in
  st_added c' + AddsGo c' = st_added c + AddsGo c /\
  AddsDone c' + AddsGo c' = AddsDone c + AddsGo c /\
  st_removed c' = st_removed c + count_ev is_removed_ev tr /\
  st_qty c' + QGo c' + lg_exec g = st_qty c + QGo c + lg_exec (run_ledger mf sched c g) /\
  st_qty c' + PQ c' + TXQ c = st_qty c + PQ c + TXQ c' /\
  StatsBound c'.
Proof.
  induction sched as [|i rest IH]; intros c g Hc Hb; cbn [exec run_ledger].
  - cbn [fst snd]. unfold count_ev. cbn [filter length]. split; [lia|split; [lia|split; [lia|split; [lia|split; [lia|exact Hb]]]]].
  - destruct (cstep mf c i) as [[c1 e]|] eqn:Hs.
    + destruct (cstep_thread mf _ _ _ _ Hs) as (t & Hn). rewrite Hn.
      destruct (cstep_stats c i c1 e t Hc Hb Hn Hs) as (A1 & A2 & R1 & R2 & Q1 & Q2).
      destruct (cstep_inv_ledger mf HI c i c1 e t Hc Hn Hs) as (Hc1 & L1 & L2 & _).
      pose proof (xdrain_le_drain (th_pc t) (cf_sh c)) as Hx.
      assert (Hb1 : StatsBound c1).
      { destruct Hb as (B1 & B2 & B3). unfold StatsBound. repeat split; lia. }
      specialize (IH c1 (lg_add g (drain_kind (th_pc t)) (drain (th_pc t) (cf_sh c))) Hc1 Hb1).
      rewrite lg_exec_add in IH.
      destruct (exec mf rest c1) as [c2 tr]. cbn [fst snd] in *.
      destruct IH as (I1 & I2 & I3 & I4 & I5 & I6).
      assert (Ecnt : count_ev is_removed_ev ((i, e) :: tr) =
                     (if is_removed_ev e then 1 else 0) + count_ev is_removed_ev tr).
      { unfold count_ev. cbn [filter snd]. destruct (is_removed_ev e); cbn [length]; lia. }
      rewrite Ecnt. split; [lia|split; [lia|split; [lia|split; [lia|split; [lia|exact I6]]]]].
    + destruct (nth_error (cf_threads c) i); apply IH; assumption.
Qed.

End StatsStep.

(* ---- quiescent and initial configurations ---- *)
Lemma tsum_ext_in {A} (f g : A -> N) l : (forall x, In x l -> f x = g x) -> tsum f l = tsum g l.
Proof.
  induction l as [|x l IH]; intros H; [reflexivity|].
  rewrite !tsum_cons, (H x) by (left; reflexivity). rewrite IH; [reflexivity|].
  intros y Hy. apply H. right. exact Hy.
Qed.

Lemma quiescent_stats c : quiescent c = true ->
  AddsGo c = 0 /\ PQ c = 0 /\ QGo c = 0 /\ TXQ c = RetTxq c /\ AddsDone c = RetAdds c.
Proof.
  unfold quiescent. rewrite forallb_forall. intros H.
  unfold AddsGo, PQ, QGo, TXQ, AddsDone, RetTxq, RetAdds.
  split; [|split; [|split; [|split]]].
  - apply tsum_zero. intros t Ht. destruct (thread_finished_pc t (H t Ht)) as (r & Hp & Htd).
    unfold tadds_go. rewrite Hp, Htd. reflexivity.
  - apply tsum_zero. intros t Ht. destruct (thread_finished_pc t (H t Ht)) as (r & Hp & Htd).
    rewrite Hp. reflexivity.
  - apply tsum_zero. intros t Ht. destruct (thread_finished_pc t (H t Ht)) as (r & Hp & Htd).
    rewrite Hp. reflexivity.
  - apply tsum_ext_in. intros t Ht. destruct (thread_finished_pc t (H t Ht)) as (r & Hp & Htd).
    unfold ttxq, all_rets. rewrite Hp, tsum_snoc. reflexivity.
  - apply tsum_ext_in. intros t Ht. destruct (thread_finished_pc t (H t Ht)) as (r & Hp & Htd).
    unfold tadds_done, all_rets. rewrite Hp, tsum_snoc. destruct r; reflexivity.
Qed.

Lemma thread_init_stats price cs :
  tadds_go (thread_init price cs) = todo_bc cs /\
  tadds_done (thread_init price cs) = 0 /\
  ttxq (thread_init price cs) = 0 /\
  pq (th_pc (thread_init price cs)) = 0 /\
  qgo (th_pc (thread_init price cs)) = 0.
Proof.
  destruct cs as [|c cs]; cbn [thread_init].
  - repeat split.
  - rewrite settle_tadds_go, settle_tadds_done, settle_ttxq, settle_pq, settle_qgo.
    destruct (start_stats price c) as (A & B & C & D & E).
    unfold tadds_go, tadds_done, ttxq, todo_bc. cbn [th_pc th_todo th_rets].
    rewrite A, B, C, D, E, tsum_cons. repeat split.
Qed.

Lemma init_stats l gen progs :
  let c0 := init_config l gen progs in
  AddsGo c0 = prog_bc progs /\ AddsDone c0 = 0 /\ TXQ c0 = 0 /\ PQ c0 = 0 /\ QGo c0 = 0 /\
  st_added c0 = s_added (st l) /\ st_removed c0 = s_removed (st l) /\
  st_qty c0 = s_qty (st l) /\ st_value c0 = s_value (st l).
Proof.
  unfold init_config, AddsGo, AddsDone, TXQ, PQ, QGo, prog_bc. cbn [cf_threads]. rewrite !tsum_map.
  split; [|split; [|split; [|split; [|split]]]].
  - apply tsum_ext. intros cs. apply thread_init_stats.
  - apply tsum_zero. intros cs _. apply thread_init_stats.
  - apply tsum_zero. intros cs _. apply thread_init_stats.
  - apply tsum_zero. intros cs _. apply thread_init_stats.
  - apply tsum_zero. intros cs _. apply thread_init_stats.
  - repeat split.
Qed.

(* which step bumps [orders_removed] *)
Lemma tstep_removed mf p s p' s' e :
  tstep mf p s = Some (p', s', e) ->
  (is_removed_ev e = true <-> exists o, p = C5 o) /\
  (forall o, p = C5 o -> p' = Done (RetUpd (UOk (Some o)))).
Proof.
  intros H.
  destruct p; cbn [tstep] in H; unfold fetch_add, fetch_sub in H;
    repeat match type of H with
    | context [if ?c then _ else _] => destruct c; cbv beta iota zeta in H
    | context [match ?d with _ => _ end] => destruct d; cbv beta iota zeta in H
    end; try discriminate; inversion H; subst; cbn [is_removed_ev].
  all: split; [split; [try discriminate; eauto | intros [o0 Ho]; try discriminate; reflexivity]
              | intros o0 Ho; try discriminate; inversion Ho; subst; reflexivity ].
Qed.
