(* SnapshotProofs.v — checksummed snapshot packages (C09, and the package part of C17). *)
From Coq Require Import Ascii Lia ZifyBool ZifyN.
From Coq Require String.
From PL Require Import Model.Snapshot Proofs.JsonProofs Proofs.JsonTextProofs.
Import String.StringSyntax.
Local Open Scope N_scope.

(* ------------------------------------------------------------------ *)
(* refresh *)

Lemma sat_add_lt a b : sat_add a b < W.
Proof. unfold sat_add, W. lia. Qed.

Lemma fold_sat_lt {A} (f : A -> N) l a :
  a < W -> fold_left (fun a o => sat_add a (f o)) l a < W.
Proof.
  revert a; induction l as [|x l IH]; intros a Ha; cbn [fold_left]; [exact Ha|].
  apply IH, sat_add_lt.
Qed.

Lemma refresh_wf s :
  sn_price s < W -> Forall jwf_order (sn_orders s) -> N.of_nat (length (sn_orders s)) < W ->
  wf_snapshot (refresh s).
Proof.
  intros Hp Ho Hl. unfold wf_snapshot, refresh. cbn [sn_price sn_vis sn_hid sn_cnt sn_orders].
  repeat split; try assumption; apply fold_sat_lt; unfold W; lia.
Qed.

Lemma refresh_idem s : refresh (refresh s) = refresh s.
Proof. reflexivity. Qed.
Lemma from_snapshot_refresh s : from_snapshot (refresh s) = from_snapshot s.
Proof. reflexivity. Qed.

(* ------------------------------------------------------------------ *)
(* the checksum input determines the snapshot *)

Theorem ser_inj s1 s2 : wf_snapshot s1 -> wf_snapshot s2 -> ser s1 = ser s2 -> s1 = s2.
Proof.
  intros W1 W2 E. unfold ser in E.
  apply print_json_inj in E; try apply to_json_snapshot_plain.
  pose proof (of_to_json_snapshot _ W1) as D1. pose proof (of_to_json_snapshot _ W2) as D2.
  rewrite E in D1. congruence.
Qed.

Lemma str_eq_dec (a b : str) : {a = b} + {a <> b}.
Proof. apply list_eq_dec, ascii_dec. Qed.

(* ------------------------------------------------------------------ *)
(* concrete lowercase hex *)

Lemma hex_byte_plain c : plain_str (hex_byte c) = true.
Proof.
  unfold hex_byte, plain_str. cbn [forallb].
  now rewrite !(digit_of_plain hex_al _ hex_al_plain).
Qed.
Lemma hex_lower_plain b : plain_str (hex_lower b) = true.
Proof.
  unfold hex_lower, plain_str. induction b as [|c b IH]; cbn [flat_map]; [reflexivity|].
  rewrite forallb_app, IH. pose proof (hex_byte_plain c) as Hc. unfold plain_str in Hc. now rewrite Hc.
Qed.

Lemma N_of_ascii_lt c : N_of_ascii c < 256.
Proof. apply N_ascii_bounded. Qed.

Lemma hex_byte_inj c d : hex_byte c = hex_byte d -> c = d.
Proof.
  unfold hex_byte. intros E. injection E as E1 E2.
  pose proof (N_of_ascii_lt c) as Lc. pose proof (N_of_ascii_lt d) as Ld.
  assert (Q : forall x y, x < 16 -> y < 16 -> digit_of hex_al x = digit_of hex_al y -> x = y).
  { intros x y Lx Ly Exy. pose proof (hex_digits_ok x Lx) as A. pose proof (hex_digits_ok y Ly) as B.
    rewrite Exy in A. congruence. }
  assert (Hq : N_of_ascii c / 16 = N_of_ascii d / 16).
  { apply Q; try assumption; apply N.div_lt_upper_bound; lia. }
  assert (Hr : N_of_ascii c mod 16 = N_of_ascii d mod 16).
  { apply Q; try assumption; apply N.mod_lt; lia. }
  assert (Hn : N_of_ascii c = N_of_ascii d).
  { rewrite (N.div_mod (N_of_ascii c) 16), (N.div_mod (N_of_ascii d) 16) by lia. now rewrite Hq, Hr. }
  rewrite <- (ascii_N_embedding c), <- (ascii_N_embedding d). now rewrite Hn.
Qed.

Theorem hex_lower_inj a b : hex_lower a = hex_lower b -> a = b.
Proof.
  revert b; induction a as [|c a IH]; intros [|d b]; cbn [hex_lower flat_map]; try discriminate;
    [reflexivity|].
  unfold hex_byte at 1 3. cbn [app]. intros E. injection E as E1 E2 E3.
  f_equal; [|now apply IH].
  apply hex_byte_inj. unfold hex_byte. now rewrite E1, E2.
Qed.

(* ------------------------------------------------------------------ *)

Section WithHash.
Variable H : list ascii -> list ascii.
Variable hex : list ascii -> str.

Lemma validate_spec p :
  validate H hex p = true <->
  p_version p = SNAPSHOT_FORMAT_VERSION /\ hex (H (ser (p_snap p))) = p_checksum p.
Proof.
  unfold validate, compute_checksum. rewrite Bool.andb_true_iff, N.eqb_eq, str_eqb_eq. tauto.
Qed.

(* restoring succeeds only for a supported version and a matching checksum, and
   then yields exactly the level built from the packaged snapshot *)
Theorem restore_sound p L :
  restore H hex p = Some L ->
  p_version p = 1 /\ hex (H (ser (p_snap p))) = p_checksum p /\ L = from_snapshot (p_snap p).
Proof.
  unfold restore. destruct (validate H hex p) eqn:V; [|discriminate].
  apply validate_spec in V as [V1 V2]. intros [= <-]. repeat split; assumption.
Qed.

Theorem restore_complete p :
  p_version p = 1 -> hex (H (ser (p_snap p))) = p_checksum p ->
  restore H hex p = Some (from_snapshot (p_snap p)).
Proof.
  intros V1 V2. unfold restore.
  replace (validate H hex p) with true; [reflexivity|]. symmetry. apply validate_spec. now split.
Qed.

(* the three entry points are one composition *)
Lemma from_snapshot_package_restore p : from_snapshot_package H hex p = restore H hex p.
Proof. unfold from_snapshot_package, into_snapshot, restore. now destruct (validate H hex p). Qed.

Lemma from_snapshot_json_restore text :
  from_snapshot_json H hex text =
  match package_of_text text with Some p => restore H hex p | None => None end.
Proof.
  unfold from_snapshot_json, package_from_json. destruct (package_of_text text); [|reflexivity].
  apply from_snapshot_package_restore.
Qed.

Theorem from_snapshot_package_sound p L :
  from_snapshot_package H hex p = Some L ->
  p_version p = 1 /\ hex (H (ser (p_snap p))) = p_checksum p /\ L = from_snapshot (p_snap p).
Proof. rewrite from_snapshot_package_restore. apply restore_sound. Qed.

Theorem from_snapshot_json_sound text L :
  from_snapshot_json H hex text = Some L ->
  exists p, package_of_text text = Some p /\
            p_version p = 1 /\ hex (H (ser (p_snap p))) = p_checksum p /\ L = from_snapshot (p_snap p).
Proof.
  rewrite from_snapshot_json_restore. destruct (package_of_text text) as [p|]; [|discriminate].
  intros E. exists p. split; [reflexivity|]. now apply restore_sound.
Qed.

Theorem into_snapshot_sound p s :
  into_snapshot H hex p = Some s ->
  p_version p = 1 /\ hex (H (ser (p_snap p))) = p_checksum p /\ s = p_snap p.
Proof.
  unfold into_snapshot. destruct (validate H hex p) eqn:V; [|discriminate].
  apply validate_spec in V as [V1 V2]. intros [= <-]. repeat split; assumption.
Qed.

Theorem package_new_validates s : validate H hex (package_new H hex s) = true.
Proof. apply validate_spec. split; reflexivity. Qed.

Theorem restore_roundtrip s :
  restore H hex (package_new H hex s) = Some (from_snapshot (refresh s)).
Proof. unfold restore. now rewrite package_new_validates. Qed.

Section HexInj.
Hypothesis hex_inj : forall a b, hex a = hex b -> a = b.

(* an accepted package carrying the checksum of [package_new s] either carries
   exactly the snapshot [refresh s] (and restores to the same level), or its
   content is a second preimage of the digest *)
Theorem tamper s p' L' :
  wf_snapshot (refresh s) -> wf_snapshot (p_snap p') ->
  restore H hex p' = Some L' ->
  p_checksum p' = p_checksum (package_new H hex s) ->
  (p_snap p' = refresh s /\ L' = from_snapshot (refresh s)) \/
  (ser (p_snap p') <> ser (refresh s) /\ H (ser (p_snap p')) = H (ser (refresh s))).
Proof.
  intros Ws Wp R C. apply restore_sound in R as (V1 & V2 & ->).
  cbn [package_new p_checksum] in C. unfold compute_checksum in C.
  rewrite <- V2 in C. apply hex_inj in C.
  destruct (str_eq_dec (ser (p_snap p')) (ser (refresh s))) as [E|NE].
  - left. apply ser_inj in E; try assumption. now rewrite E.
  - right. split; assumption.
Qed.

(* the same for the JSON entry point, with no assumption on the text: whatever
   text is accepted decodes to a package in machine range *)
Theorem tamper_json s text L' :
  wf_snapshot (refresh s) ->
  from_snapshot_json H hex text = Some L' ->
  exists p', package_of_text text = Some p' /\
    p_version p' = 1 /\ hex (H (ser (p_snap p'))) = p_checksum p' /\ L' = from_snapshot (p_snap p') /\
    (p_checksum p' = p_checksum (package_new H hex s) ->
     (p_snap p' = refresh s /\ L' = from_snapshot (refresh s)) \/
     (ser (p_snap p') <> ser (refresh s) /\ H (ser (p_snap p')) = H (ser (refresh s)))).
Proof.
  intros Ws R. pose proof R as R0. rewrite from_snapshot_json_restore in R.
  destruct (package_of_text text) as [p'|] eqn:Ep; [|discriminate].
  exists p'. split; [reflexivity|].
  pose proof (restore_sound _ _ R) as (V1 & V2 & V3). repeat split; try assumption.
  intros C. apply (tamper s p' L'); try assumption.
  unfold package_of_text in Ep. destruct (parse_top text) as [j|]; [|discriminate].
  apply of_json_package_wf in Ep. apply Ep.
Qed.

(* with a changed checksum, acceptance requires the new text to be the digest of the new content *)
Theorem tamper_changed_checksum p' L' :
  restore H hex p' = Some L' -> p_checksum p' = hex (H (ser (p_snap p'))).
Proof. intros R. apply restore_sound in R as (_ & V2 & _). now symmetry. Qed.
End HexInj.

Section HexPlain.
Hypothesis hex_plain : forall a, plain_str (hex a) = true.

Lemma package_new_wf s : wf_snapshot (refresh s) -> wf_package (package_new H hex s).
Proof. intros Ws. split; [reflexivity|exact Ws]. Qed.

(* C17: a package still validates after a trip through JSON (AST and text) *)
Theorem package_json_validates p :
  wf_package p -> validate H hex p = true ->
  option_map (validate H hex) (of_json_package (to_json_package p)) = Some true.
Proof. intros Wp V. rewrite (of_to_json_package _ Wp). cbn. now rewrite V. Qed.

Theorem package_new_json_validates s :
  wf_snapshot (refresh s) ->
  option_map (validate H hex) (of_json_package (to_json_package (package_new H hex s))) = Some true.
Proof.
  intros Ws. apply package_json_validates; [now apply package_new_wf | apply package_new_validates].
Qed.

Theorem package_new_text_validates s :
  wf_snapshot (refresh s) ->
  option_map (validate H hex) (package_of_text (text_of_package (package_new H hex s))) = Some true.
Proof.
  intros Ws. rewrite package_text_roundtrip; [| now apply package_new_wf | apply hex_plain].
  cbn [option_map]. now rewrite package_new_validates.
Qed.

(* snapshot_to_json then from_snapshot_json gives the level of the refreshed snapshot *)
Theorem json_restore_roundtrip s :
  wf_snapshot (refresh s) ->
  from_snapshot_json H hex (text_of_package (package_new H hex s)) = Some (from_snapshot (refresh s)).
Proof.
  intros Ws. rewrite from_snapshot_json_restore.
  rewrite package_text_roundtrip; [| now apply package_new_wf | apply hex_plain].
  apply restore_roundtrip.
Qed.
End HexPlain.

(* torn writes: no proper prefix of a serialized package is accepted (by the parser model) *)
Theorem package_prefix_rejected p t u :
  plain_str (p_checksum p) = true ->
  text_of_package p = t ++ u -> u <> [] ->
  parse_top t = None /\ package_of_text t = None /\ from_snapshot_json H hex t = None.
Proof.
  intros Hc E Hu.
  assert (P : parse_top t = None).
  { apply (prefix_rejected (to_json_package p) t u); try assumption.
    - now rewrite to_json_package_plain.
    - reflexivity. }
  assert (Q : package_of_text t = None) by (unfold package_of_text; now rewrite P).
  repeat split; try assumption.
  rewrite from_snapshot_json_restore. now rewrite Q.
Qed.

End WithHash.
