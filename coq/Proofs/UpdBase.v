(* UpdBase.v — base lemmas for C07: wrapping counters, the id-keyed map
   (lookup / remove_key / upsert), sums over the map, structural invariants of
   push / pop / qremove, and the abstract pop order [abs] of a queue. *)
From PL Require Import Model.Level Spec.Hist Proofs.OrderProofs.
From Coq Require Import Lia ZifyBool ZifyN.
Local Open Scope N_scope.

(* ------------------------------------------------------------------ *)
(* wrapping counter operations are exact when nothing wraps            *)

Lemma W_pos : 0 < W.
Proof. unfold W. lia. Qed.

Lemma wadd_exact a b : a + b < W -> wadd a b = a + b.
Proof. intros H. unfold wadd. apply N.mod_small. exact H. Qed.

(* NB: no bound on [a] or [b] themselves, only on the difference. *)
Lemma wsub_exact a b : b <= a -> a - b < W -> wsub a b = a - b.
Proof.
  intros Hle Hlt. unfold wsub. symmetry.
  pose proof W_pos as HW.
  apply N.mod_unique with (q := b / W + 1); [exact Hlt|].
  pose proof (N.div_mod b W ltac:(lia)) as Hdm.
  pose proof (N.mod_lt b W ltac:(lia)) as Hm.
  set (q := b / W) in *. set (r := b mod W) in *.
  rewrite N.mul_add_distr_l, N.mul_1_r.
  set (Wq := W * q) in *. lia.
Qed.

Lemma delta_same c x : delta c x x = c.
Proof. unfold delta. rewrite N.eqb_refl. reflexivity. Qed.

(* [delta] is exact as soon as the new value fits: c - old + new. *)
Lemma delta_exact c old new :
  old <= c -> c - old + new < W -> delta c old new = c - old + new.
Proof.
  intros Hle Hfit. unfold delta.
  destruct (old =? new) eqn:E1; [lia|].
  destruct (old <? new) eqn:E2.
  - rewrite wadd_exact by lia. lia.
  - rewrite wsub_exact by lia. lia.
Qed.

(* ------------------------------------------------------------------ *)
(* order ids                                                           *)

Lemma oid_eqb_eq a b : oid_eqb a b = true <-> a = b.
Proof.
  destruct a as [x|x], b as [y|y]; cbn [oid_eqb]; split; intros H;
    try discriminate.
  - apply N.eqb_eq in H. subst. reflexivity.
  - inversion H. apply N.eqb_refl.
  - apply N.eqb_eq in H. subst. reflexivity.
  - inversion H. apply N.eqb_refl.
Qed.

Lemma oid_eqb_refl a : oid_eqb a a = true.
Proof. apply oid_eqb_eq. reflexivity. Qed.

Lemma oid_eqb_neq a b : oid_eqb a b = false <-> a <> b.
Proof.
  split.
  - intros H E. apply oid_eqb_eq in E. congruence.
  - intros H. destruct (oid_eqb a b) eqn:E; [|reflexivity].
    apply oid_eqb_eq in E. contradiction.
Qed.

Lemma oid_eqb_sym a b : oid_eqb a b = oid_eqb b a.
Proof.
  destruct (oid_eqb b a) eqn:E.
  - apply oid_eqb_eq in E. subst. apply oid_eqb_refl.
  - apply oid_eqb_neq in E. apply oid_eqb_neq. congruence.
Qed.

Lemma oid_eq_dec (a b : oid) : {a = b} + {a <> b}.
Proof.
  destruct (oid_eqb a b) eqn:E.
  - left. apply oid_eqb_eq. exact E.
  - right. apply oid_eqb_neq. exact E.
Defined.

(* ------------------------------------------------------------------ *)
(* the map: lookup / remove_key / upsert                               *)

Lemma lookup_Some_oid k m o : lookup k m = Some o -> oid_of o = k.
Proof.
  induction m as [|a m IH]; cbn [lookup]; [discriminate|].
  destruct (oid_eqb k (oid_of a)) eqn:E.
  - intros H. inversion H. subst. apply oid_eqb_eq in E. congruence.
  - exact IH.
Qed.

Lemma lookup_Some_In k m o : lookup k m = Some o -> In o m.
Proof.
  induction m as [|a m IH]; cbn [lookup]; [discriminate|].
  destruct (oid_eqb k (oid_of a)) eqn:E.
  - intros H. inversion H. left. reflexivity.
  - intros H. right. apply IH. exact H.
Qed.

Lemma lookup_None_iff k m : lookup k m = None <-> ~ In k (ids m).
Proof.
  induction m as [|a m IH]; cbn [lookup ids map In].
  - split; [intros _ []|reflexivity].
  - destruct (oid_eqb k (oid_of a)) eqn:E.
    + apply oid_eqb_eq in E. split; [discriminate|]. intros H. exfalso. apply H. left. congruence.
    + apply oid_eqb_neq in E. rewrite IH. unfold ids. split.
      * intros H [H1|H1]; [congruence|contradiction].
      * intros H H1. apply H. right. exact H1.
Qed.

Lemma lookup_Some_iff k m : (exists o, lookup k m = Some o) <-> In k (ids m).
Proof.
  split.
  - intros [o H]. destruct (in_dec oid_eq_dec k (ids m)) as [Hi|Hn]; [exact Hi|].
    apply lookup_None_iff in Hn. congruence.
  - intros Hi. destruct (lookup k m) as [o|] eqn:E; [eauto|].
    apply lookup_None_iff in E. contradiction.
Qed.

Lemma In_lookup_some o m : In o m -> exists o', lookup (oid_of o) m = Some o'.
Proof. intros H. apply lookup_Some_iff. unfold ids. apply in_map. exact H. Qed.

Lemma lookup_app k a b :
  lookup k (a ++ b) = match lookup k a with Some o => Some o | None => lookup k b end.
Proof.
  induction a as [|x a IH]; cbn [lookup app]; [reflexivity|].
  destruct (oid_eqb k (oid_of x)); [reflexivity|exact IH].
Qed.

Lemma lookup_remove_same k m : lookup k (remove_key k m) = None.
Proof.
  unfold remove_key. induction m as [|a m IH]; cbn [filter lookup]; [reflexivity|].
  destruct (oid_eqb k (oid_of a)) eqn:E; cbn [negb lookup]; [exact IH|].
  rewrite E. exact IH.
Qed.

Lemma lookup_remove_other k k' m : k' <> k -> lookup k' (remove_key k m) = lookup k' m.
Proof.
  intros Hne. unfold remove_key. induction m as [|a m IH]; cbn [filter lookup]; [reflexivity|].
  destruct (oid_eqb k (oid_of a)) eqn:E; cbn [negb lookup].
  - apply oid_eqb_eq in E. subst k.
    destruct (oid_eqb k' (oid_of a)) eqn:E'; [|exact IH].
    apply oid_eqb_eq in E'. contradiction.
  - destruct (oid_eqb k' (oid_of a)); [reflexivity|exact IH].
Qed.

Lemma remove_key_absent k m : lookup k m = None -> remove_key k m = m.
Proof.
  unfold remove_key. induction m as [|a m IH]; cbn [filter lookup]; [reflexivity|].
  destruct (oid_eqb k (oid_of a)) eqn:E; [discriminate|].
  intros H. cbn [negb]. f_equal. apply IH. exact H.
Qed.

Lemma remove_key_idem k m : remove_key k (remove_key k m) = remove_key k m.
Proof. apply remove_key_absent. apply lookup_remove_same. Qed.

Lemma In_ids_remove_key x k m : In x (ids (remove_key k m)) <-> In x (ids m) /\ x <> k.
Proof.
  unfold ids, remove_key. rewrite !in_map_iff. split.
  - intros (o & Ho & Hi). apply filter_In in Hi. destruct Hi as [Hi Hb]. split; [eauto|].
    apply negb_true_iff, oid_eqb_neq in Hb. congruence.
  - intros [(o & Ho & Hi) Hne]. exists o. split; [exact Ho|]. apply filter_In. split; [exact Hi|].
    apply negb_true_iff, oid_eqb_neq. congruence.
Qed.

Lemma ids_remove_key k m :
  ids (remove_key k m) = filter (fun x => negb (oid_eqb k x)) (ids m).
Proof.
  unfold ids, remove_key. induction m as [|a m IH]; cbn [filter map]; [reflexivity|].
  destruct (oid_eqb k (oid_of a)); cbn [negb map]; rewrite IH; reflexivity.
Qed.

Lemma NoDup_remove_key k m : NoDup (ids m) -> NoDup (ids (remove_key k m)).
Proof. intros H. rewrite ids_remove_key. apply NoDup_filter. exact H. Qed.

Lemma ids_app a b : ids (a ++ b) = ids a ++ ids b.
Proof. unfold ids. apply map_app. Qed.

Lemma NoDup_snoc (x : oid) l : NoDup l -> ~ In x l -> NoDup (l ++ [x]).
Proof.
  intros Hn Hx. induction Hn as [|a l Ha Hn IH]; cbn [app].
  - constructor; [intros []|constructor].
  - constructor.
    + rewrite in_app_iff. intros [H|[H|[]]]; [contradiction|]. apply Hx. left. symmetry. exact H.
    + apply IH. intros H. apply Hx. right. exact H.
Qed.

Lemma NoDup_upsert o m : NoDup (ids m) -> NoDup (ids (upsert o m)).
Proof.
  intros H. unfold upsert. rewrite ids_app. cbn [ids map]. apply NoDup_snoc.
  - apply NoDup_remove_key. exact H.
  - intros Hi. apply In_ids_remove_key in Hi. destruct Hi as [_ Hne]. congruence.
Qed.

Lemma lookup_upsert_same o m : lookup (oid_of o) (upsert o m) = Some o.
Proof.
  unfold upsert. rewrite lookup_app, lookup_remove_same. cbn [lookup].
  rewrite oid_eqb_refl. reflexivity.
Qed.

Lemma lookup_upsert_other k o m : k <> oid_of o -> lookup k (upsert o m) = lookup k m.
Proof.
  intros Hne. unfold upsert. rewrite lookup_app, lookup_remove_other by exact Hne.
  destruct (lookup k m); [reflexivity|]. cbn [lookup].
  replace (oid_eqb k (oid_of o)) with false; [reflexivity|].
  symmetry. apply oid_eqb_neq. exact Hne.
Qed.

Lemma In_ids_upsert x o m : In x (ids (upsert o m)) -> x = oid_of o \/ In x (ids m).
Proof.
  unfold upsert. rewrite ids_app, in_app_iff. cbn [ids map In].
  intros [H|[H|[]]].
  - right. apply In_ids_remove_key in H. apply H.
  - left. congruence.
Qed.

(* ---- sums and length over the map ---- *)

Lemma sumv_app a b : sumv (a ++ b) = sumv a + sumv b.
Proof. unfold sumv. induction a as [|x a IH]; cbn [app fold_right]; [lia|]. rewrite IH. lia. Qed.

Lemma sumh_app a b : sumh (a ++ b) = sumh a + sumh b.
Proof. unfold sumh. induction a as [|x a IH]; cbn [app fold_right]; [lia|]. rewrite IH. lia. Qed.

(* Removing the (unique) entry for [k] lowers the sums by that entry and the
   length by one.  Stated additively: no subtraction on N. *)
Lemma remove_key_sums k m o :
  NoDup (ids m) -> lookup k m = Some o ->
  sumv (remove_key k m) + vis o = sumv m /\
  sumh (remove_key k m) + hid o = sumh m /\
  S (length (remove_key k m)) = length m.
Proof.
  intros Hnd. induction m as [|a m IH]; cbn [lookup]; [discriminate|].
  cbn [ids map] in Hnd. inversion Hnd as [|? ? Hnot Hnd']; subst.
  destruct (oid_eqb k (oid_of a)) eqn:E.
  - intros H. inversion H; subst a. clear H.
    apply oid_eqb_eq in E. subst k.
    assert (Hrm : remove_key (oid_of o) (o :: m) = m).
    { unfold remove_key. cbn [filter]. rewrite oid_eqb_refl. cbn [negb].
      apply remove_key_absent. apply lookup_None_iff. exact Hnot. }
    rewrite Hrm. unfold sumv, sumh. cbn [fold_right length]. repeat split; lia.
  - intros H. destruct (IH Hnd' H) as (Hv & Hh & Hl).
    assert (Hrm : remove_key k (a :: m) = a :: remove_key k m).
    { unfold remove_key. cbn [filter]. rewrite E. reflexivity. }
    rewrite Hrm. unfold sumv, sumh in *. cbn [fold_right length]. repeat split; lia.
Qed.

Lemma length_upsert_removed o m :
  length (upsert o (remove_key (oid_of o) m)) = S (length (remove_key (oid_of o) m)).
Proof. unfold upsert. rewrite remove_key_idem, app_length. cbn [length]. lia. Qed.

(* ------------------------------------------------------------------ *)
(* structural invariants of the queue operations                      *)

Lemma push_NoDup q o : NoDup (ids (qmap q)) -> NoDup (ids (qmap (push q o))).
Proof. intros H. cbn [push qmap]. apply NoDup_upsert. exact H. Qed.

Lemma pop_t_Some m t o m' t' :
  pop_t m t = Some (o, m', t') ->
  lookup (oid_of o) m = Some o /\ m' = remove_key (oid_of o) m /\
  exists dead, t = dead ++ oid_of o :: t' /\ forall x, In x dead -> lookup x m = None.
Proof.
  revert o m' t'. induction t as [|k t IH]; intros o m' t'; cbn [pop_t]; [discriminate|].
  destruct (lookup k m) as [o1|] eqn:E.
  - intros H. inversion H; subst o1 m' t'. clear H.
    pose proof (lookup_Some_oid _ _ _ E) as Hk. subst k.
    split; [exact E|]. split; [reflexivity|]. exists []. split; [reflexivity|]. intros x [].
  - intros H. destruct (IH _ _ _ H) as (H1 & H2 & dead & H3 & H4).
    split; [exact H1|]. split; [exact H2|]. exists (k :: dead). split.
    + cbn [app]. rewrite H3. reflexivity.
    + intros x [Hx|Hx]; [subst; exact E|apply H4; exact Hx].
Qed.

Lemma pop_t_None m t : pop_t m t = None -> forall x, In x t -> lookup x m = None.
Proof.
  induction t as [|k t IH]; cbn [pop_t]; [intros _ x []|].
  destruct (lookup k m) as [o1|] eqn:E; [discriminate|].
  intros H x [Hx|Hx]; [subst; exact E|apply IH; assumption].
Qed.

Lemma pop_Some q o q' :
  pop q = (Some o, q') ->
  lookup (oid_of o) (qmap q) = Some o /\ qmap q' = remove_key (oid_of o) (qmap q) /\
  exists dead, tickets q = dead ++ oid_of o :: tickets q' /\
               forall x, In x dead -> lookup x (qmap q) = None.
Proof.
  unfold pop. destruct (pop_t (qmap q) (tickets q)) as [[[o1 m'] t']|] eqn:E; [|discriminate].
  intros H. inversion H; subst o1 q'. clear H. cbn [qmap tickets].
  apply pop_t_Some. exact E.
Qed.

Lemma pop_None q q' :
  pop q = (None, q') ->
  q' = mkQueue (qmap q) [] /\ forall x, In x (tickets q) -> lookup x (qmap q) = None.
Proof.
  unfold pop. destruct (pop_t (qmap q) (tickets q)) as [[[o1 m'] t']|] eqn:E; [discriminate|].
  intros H. inversion H. split; [reflexivity|]. apply pop_t_None. exact E.
Qed.

Lemma pop_NoDup q r q' : NoDup (ids (qmap q)) -> pop q = (r, q') -> NoDup (ids (qmap q')).
Proof.
  intros Hn H. destruct r as [o|].
  - apply pop_Some in H. destruct H as (_ & -> & _). apply NoDup_remove_key. exact Hn.
  - apply pop_None in H. destruct H as (-> & _). exact Hn.
Qed.

Lemma qremove_Some q k o q' :
  qremove q k = (Some o, q') ->
  lookup k (qmap q) = Some o /\ q' = mkQueue (remove_key k (qmap q)) (tickets q).
Proof.
  unfold qremove. destruct (lookup k (qmap q)) as [o1|] eqn:E; intros H; inversion H.
  subst. split; reflexivity.
Qed.

Lemma qremove_None q k q' : qremove q k = (None, q') -> lookup k (qmap q) = None /\ q' = q.
Proof.
  unfold qremove. destruct (lookup k (qmap q)) as [o1|] eqn:E; intros H; inversion H.
  split; reflexivity.
Qed.

Lemma qremove_NoDup q k r q' :
  NoDup (ids (qmap q)) -> qremove q k = (r, q') -> NoDup (ids (qmap q')).
Proof.
  intros Hn H. destruct r as [o|].
  - apply qremove_Some in H. destruct H as (_ & ->). cbn [qmap]. apply NoDup_remove_key. exact Hn.
  - apply qremove_None in H. destruct H as (_ & ->). exact Hn.
Qed.

(* WfQueue = NoDup + Covered is an invariant too. *)
Lemma push_Covered q o : Covered q -> Covered (push q o).
Proof.
  intros Hc x. cbn [push qmap tickets]. unfold upsert. rewrite !in_app_iff. intros [Hx|[Hx|[]]].
  - left. apply Hc. unfold remove_key in Hx. apply filter_In in Hx. apply Hx.
  - right. left. congruence.
Qed.

Lemma pop_Covered q r q' : Covered q -> pop q = (r, q') -> Covered q'.
Proof.
  intros Hc H. destruct r as [o|].
  - apply pop_Some in H. destruct H as (Hl & Hm & dead & Ht & Hdead).
    intros x Hx. rewrite Hm in Hx. unfold remove_key in Hx. apply filter_In in Hx.
    destruct Hx as [Hx Hb]. apply negb_true_iff, oid_eqb_neq in Hb.
    pose proof (Hc x Hx) as Hin. rewrite Ht in Hin. apply in_app_iff in Hin.
    destruct Hin as [Hin|[Hin|Hin]].
    + apply Hdead in Hin. destruct (In_lookup_some x _ Hx) as [o' Ho']. congruence.
    + congruence.
    + exact Hin.
  - apply pop_None in H. destruct H as (-> & Hdead). intros x Hx. cbn [qmap] in Hx.
    pose proof (Hc x Hx) as Hin. apply Hdead in Hin.
    destruct (In_lookup_some x _ Hx) as [o' Ho']. congruence.
Qed.

Lemma qremove_Covered q k r q' : Covered q -> qremove q k = (r, q') -> Covered q'.
Proof.
  intros Hc H. destruct r as [o|].
  - apply qremove_Some in H. destruct H as (_ & ->). intros x Hx. cbn [qmap tickets] in *.
    apply Hc. unfold remove_key in Hx. apply filter_In in Hx. apply Hx.
  - apply qremove_None in H. destruct H as (_ & ->). exact Hc.
Qed.

Lemma WfQueue_empty : WfQueue empty_queue.
Proof. split; [constructor|intros x []]. Qed.

(* ------------------------------------------------------------------ *)
(* the abstract pop order of a queue                                   *)

(* keep the first occurrence of every id *)
Fixpoint dedup (t : list oid) : list oid :=
  match t with
  | [] => []
  | k :: t' => k :: filter (fun x => negb (oid_eqb x k)) (dedup t')
  end.

Definition live (m : list order) (k : oid) : bool := is_some (lookup k m).

(* [abs q]: the first outstanding ticket of each live id, oldest first. *)
Definition abs (q : queue) : list oid := dedup (filter (live (qmap q)) (tickets q)).

Lemma filter_filter {A} (f g : A -> bool) l :
  filter f (filter g l) = filter (fun x => g x && f x) l.
Proof.
  induction l as [|a l IH]; cbn [filter]; [reflexivity|].
  destruct (g a); cbn [andb filter]; [destruct (f a)|]; rewrite IH; reflexivity.
Qed.

Lemma filter_comm {A} (f g : A -> bool) l : filter f (filter g l) = filter g (filter f l).
Proof. rewrite !filter_filter. apply filter_ext. intros a. apply andb_comm. Qed.

Lemma filter_absorb (f : oid -> bool) k l :
  f k = false -> filter f (filter (fun x => negb (oid_eqb x k)) l) = filter f l.
Proof.
  intros Hk. rewrite filter_filter. apply filter_ext. intros a.
  destruct (oid_eqb a k) eqn:E; cbn [negb andb]; [|reflexivity].
  apply oid_eqb_eq in E. subst. symmetry. exact Hk.
Qed.

Lemma dedup_filter f t : dedup (filter f t) = filter f (dedup t).
Proof.
  induction t as [|k t IH]; cbn [filter dedup]; [reflexivity|].
  destruct (f k) eqn:E; cbn [dedup].
  - rewrite IH. f_equal. apply filter_comm.
  - rewrite IH. symmetry. apply filter_absorb. exact E.
Qed.

Lemma abs_alt q : abs q = filter (live (qmap q)) (dedup (tickets q)).
Proof. apply dedup_filter. Qed.

Lemma In_dedup x t : In x (dedup t) <-> In x t.
Proof.
  induction t as [|k t IH]; cbn [dedup In]; [tauto|].
  rewrite filter_In, IH. destruct (oid_eq_dec k x) as [E|E]; [tauto|].
  assert (negb (oid_eqb x k) = true).
  { apply negb_true_iff, oid_eqb_neq. congruence. }
  tauto.
Qed.

Lemma NoDup_dedup t : NoDup (dedup t).
Proof.
  induction t as [|k t IH]; cbn [dedup]; constructor.
  - intros H. apply filter_In in H. destruct H as [_ H]. rewrite oid_eqb_refl in H. discriminate.
  - apply NoDup_filter. exact IH.
Qed.

Lemma live_true k m : live m k = true <-> In k (ids m).
Proof.
  unfold live. rewrite <- lookup_Some_iff. destruct (lookup k m) as [o|]; cbn [is_some].
  - split; eauto.
  - split; [discriminate|]. intros [o H]. discriminate.
Qed.

(* [abs q] lists exactly the live ids with an outstanding ticket, once each. *)
Lemma In_abs x q : In x (abs q) <-> In x (tickets q) /\ In x (ids (qmap q)).
Proof. unfold abs. rewrite In_dedup, filter_In, live_true. tauto. Qed.

Lemma NoDup_abs q : NoDup (abs q).
Proof. apply NoDup_dedup. Qed.

Lemma live_remove_key k m x : live (remove_key k m) x = live m x && negb (oid_eqb x k).
Proof.
  unfold live. destruct (oid_eqb x k) eqn:E.
  - apply oid_eqb_eq in E. subst. rewrite lookup_remove_same. cbn. rewrite andb_false_r. reflexivity.
  - apply oid_eqb_neq in E. rewrite lookup_remove_other by exact E. cbn [negb].
    rewrite andb_true_r. reflexivity.
Qed.

(* removing [k] from the map removes [k] from the pop order, nothing else moves *)
Lemma abs_remove_key k m t :
  abs (mkQueue (remove_key k m) t) = filter (fun x => negb (oid_eqb x k)) (abs (mkQueue m t)).
Proof.
  unfold abs. cbn [qmap tickets]. rewrite <- dedup_filter. f_equal.
  rewrite filter_filter. apply filter_ext. intros a. apply live_remove_key.
Qed.

Lemma dedup_snoc_in k s : In k s -> dedup (s ++ [k]) = dedup s.
Proof.
  assert (Hgen : forall s, filter (fun x => negb (oid_eqb x k)) (dedup (s ++ [k]))
                           = filter (fun x => negb (oid_eqb x k)) (dedup s)).
  { intros s0. rewrite <- !dedup_filter. rewrite filter_app. cbn [filter].
    rewrite oid_eqb_refl. cbn [negb]. rewrite app_nil_r. reflexivity. }
  induction s as [|a s IH]; [intros []|].
  intros Hin. cbn [app dedup]. f_equal.
  destruct (oid_eq_dec a k) as [E|E].
  - subst a. apply Hgen.
  - destruct Hin as [Hin|Hin]; [contradiction|]. rewrite IH by exact Hin. reflexivity.
Qed.

Lemma dedup_snoc_notin k s : ~ In k s -> dedup (s ++ [k]) = dedup s ++ [k].
Proof.
  induction s as [|a s IH]; intros Hn; cbn [app dedup filter]; [reflexivity|].
  rewrite IH by (intros H; apply Hn; right; exact H).
  rewrite filter_app. cbn [filter].
  replace (oid_eqb k a) with false; [reflexivity|].
  symmetry. apply oid_eqb_neq. intros E. apply Hn. left. congruence.
Qed.

(* [pop] returns the head of [abs] and leaves its tail. *)
Lemma pop_t_abs m t o m' t' :
  pop_t m t = Some (o, m', t') ->
  exists rest, abs (mkQueue m t) = oid_of o :: rest /\ abs (mkQueue m' t') = rest.
Proof.
  unfold abs. cbn [qmap tickets]. revert o m' t'.
  induction t as [|k t IH]; intros o m' t'; cbn [pop_t]; [discriminate|].
  destruct (lookup k m) as [o1|] eqn:E.
  - intros H. inversion H; subst o1 m' t'. clear H.
    pose proof (lookup_Some_oid _ _ _ E) as Hk. subst k.
    cbn [filter]. unfold live at 1. rewrite E. cbn [is_some dedup].
    eexists. split; [reflexivity|].
    rewrite <- dedup_filter. f_equal. rewrite filter_filter. apply filter_ext.
    intros a. apply live_remove_key.
  - intros H. cbn [filter]. unfold live at 1. rewrite E. cbn [is_some].
    apply IH. exact H.
Qed.

Lemma pop_abs_Some q o q' :
  pop q = (Some o, q') -> exists rest, abs q = oid_of o :: rest /\ abs q' = rest.
Proof.
  unfold pop. destruct (pop_t (qmap q) (tickets q)) as [[[o1 m'] t']|] eqn:E; [|discriminate].
  intros H. inversion H; subst o1 q'. clear H.
  destruct q as [m t]. cbn [qmap tickets] in E. apply pop_t_abs. exact E.
Qed.

Lemma pop_abs_None q q' : pop q = (None, q') -> abs q = [] /\ abs q' = [].
Proof.
  intros H. apply pop_None in H. destruct H as (-> & Hdead). unfold abs. cbn [qmap tickets filter dedup].
  split; [|reflexivity].
  replace (filter (live (qmap q)) (tickets q)) with (@nil oid); [reflexivity|].
  symmetry. induction (tickets q) as [|k t IH]; cbn [filter]; [reflexivity|].
  unfold live at 1. rewrite (Hdead k) by (left; reflexivity). cbn [is_some].
  apply IH. intros x Hx. apply Hdead. right. exact Hx.
Qed.
