(* QueueProofs.v — lemmas about the concrete order queue (Model/Queue.v), its
   pop order [abs] (Spec/Priority.v) and the abstract FIFO (Spec/QueueSpec.v).
   Statements of property C19 are collected in Properties/C19.v. *)
From PL Require Import Spec.QueueSpec.
From Coq Require Import Lia Sorting.Sorted.
Local Open Scope N_scope.

(* ------------------------------------------------------------------ *)
(* ids                                                                *)
(* ------------------------------------------------------------------ *)

Lemma oid_eqb_eq : forall a b, oid_eqb a b = true <-> a = b.
Proof.
  intros [x|x] [y|y]; unfold oid_eqb; split; intro H;
    try discriminate; try (apply N.eqb_eq in H; subst; reflexivity);
    try (inversion H; subst; apply N.eqb_refl).
Qed.

Lemma oid_eqb_refl : forall a, oid_eqb a a = true.
Proof. intro a. apply oid_eqb_eq. reflexivity. Qed.

Lemma oid_eqb_neq : forall a b, oid_eqb a b = false <-> a <> b.
Proof.
  intros a b. split.
  - intros H E. apply oid_eqb_eq in E. congruence.
  - intro H. destruct (oid_eqb a b) eqn:E; [apply oid_eqb_eq in E; contradiction | reflexivity].
Qed.

Lemma oid_eqb_sym : forall a b, oid_eqb a b = oid_eqb b a.
Proof.
  intros a b. destruct (oid_eqb a b) eqn:E.
  - apply oid_eqb_eq in E. subst. symmetry. apply oid_eqb_refl.
  - apply oid_eqb_neq in E. symmetry. apply oid_eqb_neq. congruence.
Qed.

Lemma oid_eq_dec : forall a b : oid, {a = b} + {a <> b}.
Proof.
  intros a b. destruct (oid_eqb a b) eqn:E.
  - left. apply oid_eqb_eq. exact E.
  - right. apply oid_eqb_neq. exact E.
Qed.

(* ------------------------------------------------------------------ *)
(* the map: lookup / remove_key / upsert                              *)
(* ------------------------------------------------------------------ *)

Lemma lookup_some : forall k m o, lookup k m = Some o -> oid_of o = k /\ In o m.
Proof.
  intros k m o. induction m as [|x m IH]; cbn [lookup]; intro H.
  - discriminate.
  - destruct (oid_eqb k (oid_of x)) eqn:E.
    + inversion H; subst. apply oid_eqb_eq in E. split; [congruence | left; reflexivity].
    + destruct (IH H) as [A B]. split; [exact A | right; exact B].
Qed.

Lemma lookup_none_iff : forall k m, lookup k m = None <-> ~ In k (ids m).
Proof.
  intros k m. induction m as [|x m IH]; cbn [lookup ids map In].
  - split; [intros _ [] | reflexivity].
  - destruct (oid_eqb k (oid_of x)) eqn:E.
    + apply oid_eqb_eq in E. split; [discriminate | intro H; exfalso; apply H; left; congruence].
    + apply oid_eqb_neq in E. rewrite IH. unfold ids. split.
      * intros H [A|A]; [congruence | contradiction].
      * intros H A. apply H. right. exact A.
Qed.

Lemma lookup_live_iff : forall k m, lookup k m <> None <-> In k (ids m).
Proof.
  intros k m. rewrite lookup_none_iff. split.
  - intro H. destruct (in_dec oid_eq_dec k (ids m)) as [A|A]; [exact A | contradiction].
  - intros H A. contradiction.
Qed.

Lemma lookup_in_nodup : forall m o, NoDup (ids m) -> In o m -> lookup (oid_of o) m = Some o.
Proof.
  induction m as [|x m IH]; intros o ND I; [destruct I|].
  cbn [lookup]. cbn [ids map] in ND. inversion ND as [|? ? NI ND']; subst.
  destruct I as [I|I].
  - subst. rewrite oid_eqb_refl. reflexivity.
  - destruct (oid_eqb (oid_of o) (oid_of x)) eqn:E.
    + apply oid_eqb_eq in E. exfalso. apply NI. rewrite <- E. apply in_map. exact I.
    + apply IH; assumption.
Qed.

(* lookup finds exactly the orders in the map *)
Lemma lookup_iff_in : forall m o, NoDup (ids m) -> (lookup (oid_of o) m = Some o <-> In o m).
Proof.
  intros m o ND. split.
  - intro H. apply lookup_some in H. tauto.
  - apply lookup_in_nodup. exact ND.
Qed.

Lemma same_id_same_order : forall m a b,
  NoDup (ids m) -> In a m -> In b m -> oid_of a = oid_of b -> a = b.
Proof.
  intros m a b ND Ia Ib E.
  pose proof (lookup_in_nodup m a ND Ia) as Ha.
  pose proof (lookup_in_nodup m b ND Ib) as Hb.
  rewrite E in Ha. congruence.
Qed.

Lemma lookup_app : forall k m1 m2,
  lookup k (m1 ++ m2) = match lookup k m1 with Some o => Some o | None => lookup k m2 end.
Proof.
  intros k m1 m2. induction m1 as [|x m1 IH]; cbn [lookup app]; [reflexivity|].
  destruct (oid_eqb k (oid_of x)); [reflexivity | exact IH].
Qed.

Lemma lookup_remove_key : forall k k' m,
  lookup k (remove_key k' m) = if oid_eqb k k' then None else lookup k m.
Proof.
  intros k k' m. unfold remove_key. induction m as [|x m IH]; cbn [filter lookup].
  - destruct (oid_eqb k k'); reflexivity.
  - destruct (oid_eqb k' (oid_of x)) eqn:E; cbn [negb].
    + apply oid_eqb_eq in E. subst k'. rewrite IH.
      destruct (oid_eqb k (oid_of x)); reflexivity.
    + cbn [lookup]. rewrite IH. destruct (oid_eqb k (oid_of x)) eqn:E2; [|reflexivity].
      apply oid_eqb_eq in E2. subst k. rewrite oid_eqb_sym, E. reflexivity.
Qed.

Lemma lookup_remove_key_same : forall k m, lookup k (remove_key k m) = None.
Proof. intros. rewrite lookup_remove_key, oid_eqb_refl. reflexivity. Qed.

Lemma lookup_remove_key_other : forall k k' m, k <> k' -> lookup k (remove_key k' m) = lookup k m.
Proof.
  intros k k' m H. rewrite lookup_remove_key.
  apply oid_eqb_neq in H. rewrite H. reflexivity.
Qed.

Lemma lookup_upsert : forall k o m,
  lookup k (upsert o m) = if oid_eqb k (oid_of o) then Some o else lookup k m.
Proof.
  intros k o m. unfold upsert. rewrite lookup_app, lookup_remove_key. cbn [lookup].
  destruct (oid_eqb k (oid_of o)); [reflexivity|].
  destruct (lookup k m); reflexivity.
Qed.

Lemma remove_key_absent : forall k m, lookup k m = None -> remove_key k m = m.
Proof.
  intros k m. unfold remove_key. induction m as [|x m IH]; cbn [lookup filter]; intro H; [reflexivity|].
  rewrite (oid_eqb_sym k) in H. destruct (oid_eqb (oid_of x) k) eqn:E; [discriminate|].
  rewrite oid_eqb_sym, E. cbn [negb]. rewrite IH; [reflexivity | exact H].
Qed.

Lemma remove_key_app : forall k m1 m2, remove_key k (m1 ++ m2) = remove_key k m1 ++ remove_key k m2.
Proof. intros. unfold remove_key. apply filter_app. Qed.

Lemma remove_key_comm : forall a b m, remove_key a (remove_key b m) = remove_key b (remove_key a m).
Proof.
  intros a b m. unfold remove_key. induction m as [|x m IH]; cbn [filter]; [reflexivity|].
  destruct (oid_eqb b (oid_of x)) eqn:Eb; destruct (oid_eqb a (oid_of x)) eqn:Ea;
    cbn [negb filter]; rewrite ?Ea, ?Eb; cbn [negb]; rewrite IH; reflexivity.
Qed.

Lemma remove_key_idem : forall k m, remove_key k (remove_key k m) = remove_key k m.
Proof. intros. apply remove_key_absent. apply lookup_remove_key_same. Qed.

Lemma remove_key_in : forall k m o, In o (remove_key k m) <-> In o m /\ oid_of o <> k.
Proof.
  intros k m o. unfold remove_key. rewrite filter_In. split; intros [A B]; split; try exact A.
  - intro E. subst k. rewrite oid_eqb_refl in B. discriminate.
  - apply negb_true_iff. apply oid_eqb_neq. congruence.
Qed.

Lemma ids_remove_key : forall k m, ids (remove_key k m) = drop_id k (ids m).
Proof.
  intros k m. unfold remove_key, drop_id, ids. induction m as [|x m IH]; cbn [filter map]; [reflexivity|].
  destruct (oid_eqb k (oid_of x)); cbn [negb map]; rewrite IH; reflexivity.
Qed.

Lemma drop_id_cons : forall k x l,
  drop_id k (x :: l) = if oid_eqb k x then drop_id k l else x :: drop_id k l.
Proof. intros. unfold drop_id. cbn [filter]. destruct (oid_eqb k x); reflexivity. Qed.

Lemma drop_id_in : forall k x l, In x (drop_id k l) <-> In x l /\ x <> k.
Proof.
  intros k x l. unfold drop_id. rewrite filter_In. split; intros [A B]; split; try exact A.
  - intro E. subst. rewrite oid_eqb_refl in B. discriminate.
  - apply negb_true_iff. apply oid_eqb_neq. congruence.
Qed.

Lemma drop_id_absent : forall k l, ~ In k l -> drop_id k l = l.
Proof.
  intros k l. unfold drop_id. induction l as [|x l IH]; cbn [filter In]; intro H; [reflexivity|].
  destruct (oid_eqb k x) eqn:E.
  - apply oid_eqb_eq in E. exfalso. apply H. left. congruence.
  - cbn [negb]. rewrite IH; [reflexivity | tauto].
Qed.

Lemma NoDup_filter : forall (A : Type) (p : A -> bool) l, NoDup l -> NoDup (filter p l).
Proof.
  intros A p l. induction 1 as [|x l NI ND IH]; cbn [filter]; [constructor|].
  destruct (p x); [|exact IH]. constructor; [|exact IH].
  intro H. apply filter_In in H. tauto.
Qed.

Lemma NoDup_remove_key : forall k m, NoDup (ids m) -> NoDup (ids (remove_key k m)).
Proof. intros. rewrite ids_remove_key. apply NoDup_filter. assumption. Qed.

Lemma ids_app : forall m1 m2, ids (m1 ++ m2) = ids m1 ++ ids m2.
Proof. intros. unfold ids. apply map_app. Qed.

Lemma NoDup_snoc : forall (A : Type) (l : list A) x, NoDup l -> ~ In x l -> NoDup (l ++ [x]).
Proof.
  intros A l x ND NI. apply NoDup_rev in ND.
  rewrite <- (rev_involutive (l ++ [x])). apply NoDup_rev. rewrite rev_app_distr. cbn [rev app].
  constructor; [|exact ND]. rewrite <- in_rev. exact NI.
Qed.

Lemma NoDup_upsert : forall o m, NoDup (ids m) -> NoDup (ids (upsert o m)).
Proof.
  intros o m ND. unfold upsert. rewrite ids_app. cbn [ids map].
  apply NoDup_snoc.
  - apply NoDup_remove_key. exact ND.
  - apply lookup_none_iff. apply lookup_remove_key_same.
Qed.

Lemma remove_key_head : forall o m, NoDup (ids (o :: m)) -> remove_key (oid_of o) (o :: m) = m.
Proof.
  intros o m ND. cbn [ids map] in ND. inversion ND as [|? ? NI ND']; subst.
  unfold remove_key. cbn [filter]. rewrite oid_eqb_refl. cbn [negb].
  apply remove_key_absent. apply lookup_none_iff. exact NI.
Qed.

Lemma remove_key_upsert_same : forall o m, remove_key (oid_of o) (upsert o m) = remove_key (oid_of o) m.
Proof.
  intros o m. unfold upsert. rewrite remove_key_app, remove_key_idem.
  unfold remove_key at 2. cbn [filter]. rewrite oid_eqb_refl. cbn [negb]. apply app_nil_r.
Qed.

Lemma remove_key_upsert_other : forall k o m, k <> oid_of o ->
  remove_key k (upsert o m) = upsert o (remove_key k m).
Proof.
  intros k o m H. unfold upsert. rewrite remove_key_app, remove_key_comm. f_equal.
  unfold remove_key. cbn [filter]. apply oid_eqb_neq in H. rewrite H. reflexivity.
Qed.

Lemma upsert_fresh : forall o m, lookup (oid_of o) m = None -> upsert o m = m ++ [o].
Proof. intros o m H. unfold upsert. rewrite remove_key_absent; [reflexivity | exact H]. Qed.

Lemma length_remove_key : forall k m o,
  NoDup (ids m) -> lookup k m = Some o -> S (length (remove_key k m)) = length m.
Proof.
  intros k m o. induction m as [|x m IH]; cbn [lookup]; intros ND H; [discriminate|].
  destruct (oid_eqb k (oid_of x)) eqn:E.
  - apply oid_eqb_eq in E. subst k. rewrite remove_key_head; [reflexivity | exact ND].
  - unfold remove_key. cbn [filter]. rewrite E. cbn [negb length]. f_equal.
    apply IH; [|exact H]. cbn [ids map] in ND. inversion ND; assumption.
Qed.

Lemma length_remove_key_absent : forall k m, lookup k m = None -> length (remove_key k m) = length m.
Proof. intros k m H. rewrite remove_key_absent; [reflexivity | exact H]. Qed.

Lemma length_upsert : forall o m, NoDup (ids m) ->
  length (upsert o m) = match lookup (oid_of o) m with Some _ => length m | None => S (length m) end.
Proof.
  intros o m ND. unfold upsert. rewrite app_length. cbn [length].
  destruct (lookup (oid_of o) m) as [x|] eqn:E.
  - rewrite <- (length_remove_key _ _ _ ND E). lia.
  - rewrite length_remove_key_absent; [lia | exact E].
Qed.

(* remove_keys *)
Lemma lookup_remove_keys : forall ks k m,
  lookup k (remove_keys ks m) = if in_dec oid_eq_dec k ks then None else lookup k m.
Proof.
  unfold remove_keys. induction ks as [|x ks IH]; intros k m; cbn [fold_left].
  - destruct (in_dec oid_eq_dec k []) as [[]|_]. reflexivity.
  - rewrite IH. rewrite lookup_remove_key.
    destruct (in_dec oid_eq_dec k ks) as [A|A]; destruct (in_dec oid_eq_dec k (x :: ks)) as [B|B];
      try reflexivity.
    + exfalso. apply B. right. exact A.
    + destruct B as [B|B]; [|contradiction]. subst. rewrite oid_eqb_refl. reflexivity.
    + destruct (oid_eqb k x) eqn:E; [|reflexivity]. apply oid_eqb_eq in E.
      exfalso. apply B. left. congruence.
Qed.

Lemma remove_keys_upsert : forall ks o m, ~ In (oid_of o) ks ->
  remove_keys ks (upsert o m) = upsert o (remove_keys ks m).
Proof.
  unfold remove_keys. induction ks as [|x ks IH]; intros o m H; cbn [fold_left]; [reflexivity|].
  rewrite remove_key_upsert_other.
  - apply IH. intro A. apply H. right. exact A.
  - intro E. apply H. left. exact E.
Qed.

(* ------------------------------------------------------------------ *)
(* sort_ts                                                            *)
(* ------------------------------------------------------------------ *)

Lemma insert_ts_perm : forall o l, Permutation (insert_ts o l) (o :: l).
Proof.
  intros o l. induction l as [|x l IH]; cbn [insert_ts]; [apply Permutation_refl|].
  destruct (ts_of o <? ts_of x); [apply Permutation_refl|].
  eapply Permutation_trans; [apply perm_skip; exact IH | apply perm_swap].
Qed.

Lemma sort_ts_perm : forall l, Permutation (sort_ts l) l.
Proof.
  induction l as [|x l IH]; cbn [sort_ts fold_right]; [apply Permutation_refl|].
  eapply Permutation_trans; [apply insert_ts_perm | apply perm_skip; exact IH].
Qed.

Lemma insert_ts_sorted : forall o l, StronglySorted le_ts l -> StronglySorted le_ts (insert_ts o l).
Proof.
  intros o l. induction l as [|x l IH]; cbn [insert_ts]; intro S.
  - constructor; constructor.
  - inversion S as [|? ? S' F]; subst.
    destruct (ts_of o <? ts_of x) eqn:E.
    + apply N.ltb_lt in E. constructor; [exact S|].
      constructor; [unfold le_ts; lia|].
      eapply Forall_impl; [|exact F]. unfold le_ts. intros a Ha. lia.
    + apply N.ltb_ge in E. constructor; [apply IH; exact S'|].
      apply Forall_forall. intros y Hy.
      apply (Permutation_in _ (insert_ts_perm o l)) in Hy. destruct Hy as [Hy|Hy].
      * subst. exact E.
      * rewrite Forall_forall in F. apply F. exact Hy.
Qed.

Lemma sort_ts_sorted : forall l, StronglySorted le_ts (sort_ts l).
Proof.
  induction l as [|x l IH]; cbn [sort_ts fold_right]; [constructor|].
  apply insert_ts_sorted. exact IH.
Qed.

Lemma StronglySorted_nth : forall (A : Type) (R : A -> A -> Prop) l,
  StronglySorted R l ->
  forall i j a b, (i < j)%nat -> nth_error l i = Some a -> nth_error l j = Some b -> R a b.
Proof.
  intros A R l S. induction S as [|x l S IH F]; intros i j a b Lt Hi Hj.
  - destruct i; discriminate.
  - destruct j as [|j]; [lia|]. cbn [nth_error] in Hj. destruct i as [|i].
    + cbn [nth_error] in Hi. inversion Hi; subst.
      rewrite Forall_forall in F. apply F. eapply nth_error_In. exact Hj.
    + cbn [nth_error] in Hi. apply (IH i j); [lia | exact Hi | exact Hj].
Qed.

(* the listing predicate of Spec/Hist.v *)
Lemma sort_ts_ts_sorted : forall l, ts_sorted (sort_ts l).
Proof.
  intros l i j a b Lt Hi Hj.
  exact (StronglySorted_nth _ le_ts _ (sort_ts_sorted l) i j a b Lt Hi Hj).
Qed.

(* tie order: orders with equal timestamps come out in the reverse of their input order *)
Definition at_ts (t : N) (l : list order) : list order := filter (fun o => ts_of o =? t) l.

Lemma at_ts_cons : forall t x l,
  at_ts t (x :: l) = if ts_of x =? t then x :: at_ts t l else at_ts t l.
Proof. reflexivity. Qed.

Lemma at_ts_later : forall t l, Forall (fun y => t < ts_of y) l -> at_ts t l = [].
Proof.
  intros t l. induction 1 as [|x l Hx F IH]; [reflexivity|]. rewrite at_ts_cons.
  destruct (ts_of x =? t) eqn:E; [apply N.eqb_eq in E; lia | exact IH].
Qed.

Lemma at_ts_insert : forall t o l, StronglySorted le_ts l ->
  at_ts t (insert_ts o l) = if ts_of o =? t then at_ts t l ++ [o] else at_ts t l.
Proof.
  intros t o l. induction l as [|x l IH]; intro S.
  - cbn [insert_ts]. rewrite at_ts_cons. destruct (ts_of o =? t); reflexivity.
  - inversion S as [|? ? S' F]; subst. cbn [insert_ts].
    destruct (ts_of o <? ts_of x) eqn:E.
    + apply N.ltb_lt in E. rewrite (at_ts_cons t o).
      destruct (ts_of o =? t) eqn:Eo; [|reflexivity].
      apply N.eqb_eq in Eo. rewrite at_ts_later; [reflexivity|].
      constructor; [lia|]. eapply Forall_impl; [|exact F]. unfold le_ts. intros a Ha. lia.
    + rewrite !(at_ts_cons t x). rewrite (IH S').
      destruct (ts_of x =? t); destruct (ts_of o =? t); reflexivity.
Qed.

Lemma sort_ts_ties : forall t l, at_ts t (sort_ts l) = rev (at_ts t l).
Proof.
  intros t l. induction l as [|x l IH]; [reflexivity|].
  cbn [sort_ts fold_right]. fold (sort_ts l).
  rewrite at_ts_insert by apply sort_ts_sorted. rewrite IH, at_ts_cons.
  destruct (ts_of x =? t); reflexivity.
Qed.

(* sortedness + tie order determine a list: [sort_ts] is the only function with these properties *)
Lemma sorted_determined : forall l1 l2,
  StronglySorted le_ts l1 -> StronglySorted le_ts l2 ->
  (forall t, at_ts t l1 = at_ts t l2) -> l1 = l2.
Proof.
  induction l1 as [|a l1 IH]; intros l2 S1 S2 H.
  - destruct l2 as [|b l2]; [reflexivity|].
    specialize (H (ts_of b)). unfold at_ts in H. cbn [filter] in H.
    rewrite N.eqb_refl in H. discriminate.
  - destruct l2 as [|b l2].
    + specialize (H (ts_of a)). unfold at_ts in H. cbn [filter] in H.
      rewrite N.eqb_refl in H. discriminate.
    + inversion S1 as [|? ? S1' F1]; subst. inversion S2 as [|? ? S2' F2]; subst.
      assert (Ha : In a (b :: l2)).
      { assert (I : In a (at_ts (ts_of a) (a :: l1))).
        { unfold at_ts. apply filter_In. split; [left; reflexivity | apply N.eqb_refl]. }
        rewrite H in I. unfold at_ts in I. apply filter_In in I. tauto. }
      assert (Hb : In b (a :: l1)).
      { assert (I : In b (at_ts (ts_of b) (b :: l2))).
        { unfold at_ts. apply filter_In. split; [left; reflexivity | apply N.eqb_refl]. }
        rewrite <- H in I. unfold at_ts in I. apply filter_In in I. tauto. }
      assert (Eab : ts_of a = ts_of b).
      { rewrite Forall_forall in F1, F2. unfold le_ts in F1, F2.
        destruct Ha as [Ha|Ha]; [congruence|]. destruct Hb as [Hb|Hb]; [congruence|].
        specialize (F1 _ Hb). specialize (F2 _ Ha). lia. }
      pose proof (H (ts_of a)) as H0. unfold at_ts in H0. cbn [filter] in H0.
      rewrite N.eqb_refl in H0. rewrite <- Eab, N.eqb_refl in H0. inversion H0; subst b.
      f_equal. apply IH; [exact S1' | exact S2' |].
      intro t. specialize (H t). rewrite !at_ts_cons in H.
      destruct (ts_of a =? t); [inversion H; reflexivity | exact H].
Qed.

Lemma sort_ts_unique : forall l s,
  StronglySorted le_ts s -> (forall t, at_ts t s = rev (at_ts t l)) -> s = sort_ts l.
Proof.
  intros l s S H. apply sorted_determined; [exact S | apply sort_ts_sorted |].
  intro t. rewrite H, sort_ts_ties. reflexivity.
Qed.

Lemma NoDup_ids_NoDup : forall m, NoDup (ids m) -> NoDup m.
Proof. intros m. unfold ids. apply NoDup_map_inv. Qed.

Lemma Permutation_ids : forall m1 m2, Permutation m1 m2 -> Permutation (ids m1) (ids m2).
Proof. intros. unfold ids. apply Permutation_map. assumption. Qed.

Lemma Permutation_NoDup_ids : forall m1 m2, Permutation m1 m2 -> NoDup (ids m1) -> NoDup (ids m2).
Proof. intros m1 m2 P. apply Permutation_NoDup. apply Permutation_ids. exact P. Qed.

Lemma Permutation_lookup : forall m1 m2 k,
  NoDup (ids m1) -> Permutation m1 m2 -> lookup k m1 = lookup k m2.
Proof.
  intros m1 m2 k ND P.
  pose proof (Permutation_NoDup_ids _ _ P ND) as ND2.
  destruct (lookup k m1) as [o|] eqn:E.
  - apply lookup_some in E. destruct E as [E I]. subst k.
    symmetry. apply lookup_in_nodup; [exact ND2 | eapply Permutation_in; eassumption].
  - symmetry. apply lookup_none_iff. apply lookup_none_iff in E. intro I. apply E.
    eapply Permutation_in; [apply Permutation_sym; apply Permutation_ids; exact P | exact I].
Qed.

(* ------------------------------------------------------------------ *)
(* pop_t and the pop order                                            *)
(* ------------------------------------------------------------------ *)

Lemma pop_order_nil : forall m, pop_order m [] = [].
Proof. reflexivity. Qed.

Lemma pop_order_cons : forall m k t,
  pop_order m (k :: t) =
  match lookup k m with Some _ => k :: pop_order (remove_key k m) t | None => pop_order m t end.
Proof. reflexivity. Qed.

(* pop_t hands out the head of the pop order; the skipped tickets are stale *)
Lemma pop_t_some : forall m t o m' t',
  pop_t m t = Some (o, m', t') ->
  lookup (oid_of o) m = Some o /\ m' = remove_key (oid_of o) m /\
  pop_order m t = oid_of o :: pop_order m' t' /\
  exists t0, t = t0 ++ oid_of o :: t' /\ forall x, In x t0 -> lookup x m = None.
Proof.
  intros m t. induction t as [|k t IH]; intros o m' t' H; cbn [pop_t] in H; [discriminate|].
  rewrite pop_order_cons. destruct (lookup k m) as [x|] eqn:E.
  - inversion H; subst. destruct (lookup_some _ _ _ E) as [Ek _]. rewrite Ek.
    repeat split; try assumption; try reflexivity.
    exists []. split; [reflexivity | intros y []].
  - destruct (IH _ _ _ H) as (A & B & C & t0 & D & F).
    repeat split; try assumption.
    exists (k :: t0). split; [rewrite D; reflexivity|].
    intros y [Hy|Hy]; [subst; exact E | apply F; exact Hy].
Qed.

Lemma pop_t_none : forall m t, pop_t m t = None -> forall x, In x t -> lookup x m = None.
Proof.
  intros m t. induction t as [|k t IH]; intros H x Hx; [destruct Hx|].
  cbn [pop_t] in H. destruct (lookup k m) as [o|] eqn:E; [discriminate|].
  destruct Hx as [Hx|Hx]; [subst; exact E | apply IH; assumption].
Qed.

Lemma pop_order_dead : forall m t, (forall x, In x t -> lookup x m = None) -> pop_order m t = [].
Proof.
  intros m t. induction t as [|k t IH]; intro H; [reflexivity|].
  rewrite pop_order_cons. rewrite (H k) by (left; reflexivity).
  apply IH. intros x Hx. apply H. right. exact Hx.
Qed.

Lemma pop_order_in : forall t m k, In k (pop_order m t) <-> In k t /\ lookup k m <> None.
Proof.
  induction t as [|x t IH]; intros m k.
  - cbn. tauto.
  - rewrite pop_order_cons. destruct (lookup x m) as [o|] eqn:E.
    + cbn [In]. rewrite IH. destruct (oid_eq_dec x k) as [D|D].
      * subst. split; [intros _|intros _; left; reflexivity].
        split; [left; reflexivity | congruence].
      * rewrite (lookup_remove_key_other k x m) by congruence. tauto.
    + rewrite IH. cbn [In]. split; [tauto|]. intros [[A|A] B]; [congruence | tauto].
Qed.

Lemma pop_order_nodup : forall t m, NoDup (pop_order m t).
Proof.
  induction t as [|x t IH]; intro m; [constructor|].
  rewrite pop_order_cons. destruct (lookup x m); [|apply IH].
  constructor; [|apply IH]. rewrite pop_order_in. rewrite lookup_remove_key_same. tauto.
Qed.

Lemma pop_order_length : forall t m, (length (pop_order m t) <= length t)%nat.
Proof.
  induction t as [|x t IH]; intro m; [apply Nat.le_refl|].
  rewrite pop_order_cons. destruct (lookup x m); cbn [length].
  - specialize (IH (remove_key x m)). lia.
  - specialize (IH m). lia.
Qed.

(* removal by id deletes the id from the pop order and nothing else *)
Lemma pop_order_remove_key : forall t m k,
  pop_order (remove_key k m) t = drop_id k (pop_order m t).
Proof.
  induction t as [|x t IH]; intros m k; [reflexivity|].
  rewrite !pop_order_cons. rewrite lookup_remove_key.
  destruct (oid_eqb x k) eqn:E.
  - apply oid_eqb_eq in E. subst x. destruct (lookup k m).
    + rewrite drop_id_cons, oid_eqb_refl.
      rewrite <- IH, remove_key_idem. reflexivity.
    + apply IH.
  - destruct (lookup x m).
    + rewrite drop_id_cons, oid_eqb_sym, E.
      rewrite remove_key_comm, IH. reflexivity.
    + apply IH.
Qed.

(* the pop order depends on the map only through which ids are live *)
Lemma pop_order_ext : forall t m1 m2,
  (forall k, In k t -> (lookup k m1 = None <-> lookup k m2 = None)) ->
  pop_order m1 t = pop_order m2 t.
Proof.
  induction t as [|x t IH]; intros m1 m2 H; [reflexivity|].
  rewrite !pop_order_cons.
  pose proof (H x (or_introl eq_refl)) as Hx.
  destruct (lookup x m1) eqn:E1; destruct (lookup x m2) eqn:E2.
  - f_equal. apply IH. intros k Hk. rewrite !lookup_remove_key.
    destruct (oid_eqb k x); [tauto | apply H; right; exact Hk].
  - exfalso. destruct Hx as [_ Hx]. specialize (Hx eq_refl). discriminate.
  - exfalso. destruct Hx as [Hx _]. specialize (Hx eq_refl). discriminate.
  - apply IH. intros k Hk. apply H. right. exact Hk.
Qed.

Lemma pop_order_app : forall t1 t2 m,
  pop_order m (t1 ++ t2) = pop_order m t1 ++ pop_order (remove_keys (pop_order m t1) m) t2.
Proof.
  induction t1 as [|x t1 IH]; intros t2 m; [reflexivity|].
  cbn [app]. rewrite !pop_order_cons. destruct (lookup x m).
  - rewrite IH. reflexivity.
  - apply IH.
Qed.

(* a ticket for a dead id at the back changes nothing *)
Lemma pop_order_snoc_dead : forall t m k,
  lookup k m = None -> pop_order m (t ++ [k]) = pop_order m t.
Proof.
  intros t m k H. rewrite pop_order_app. rewrite pop_order_cons, lookup_remove_keys.
  destruct (in_dec oid_eq_dec k (pop_order m t)); rewrite ?H; cbn; apply app_nil_r.
Qed.

(* push of an id without outstanding ticket: goes to the back *)
Lemma pop_order_push_fresh : forall t m o,
  ~ In (oid_of o) t ->
  pop_order (upsert o m) (t ++ [oid_of o]) = pop_order m t ++ [oid_of o].
Proof.
  induction t as [|x t IH]; intros m o H.
  - cbn [app]. rewrite pop_order_cons, lookup_upsert, oid_eqb_refl. reflexivity.
  - assert (Hx : x <> oid_of o) by (intro E; apply H; left; exact E).
    assert (Ht : ~ In (oid_of o) t) by (intro I; apply H; right; exact I).
    cbn [app]. rewrite !pop_order_cons, lookup_upsert.
    apply oid_eqb_neq in Hx. rewrite Hx. apply oid_eqb_neq in Hx.
    destruct (lookup x m).
    + rewrite remove_key_upsert_other by exact Hx. rewrite IH by exact Ht. reflexivity.
    + apply IH. exact Ht.
Qed.

(* push of an id that is live and has an outstanding ticket: keeps its place *)
Lemma pop_order_push_live : forall t m o,
  In (oid_of o) (pop_order m t) ->
  pop_order (upsert o m) (t ++ [oid_of o]) = pop_order m t.
Proof.
  induction t as [|x t IH]; intros m o H; [destruct H|].
  cbn [app]. rewrite pop_order_cons in H. rewrite !pop_order_cons, lookup_upsert.
  destruct (oid_eqb x (oid_of o)) eqn:E.
  - apply oid_eqb_eq in E. subst x. destruct (lookup (oid_of o) m) eqn:L.
    + rewrite remove_key_upsert_same. rewrite pop_order_snoc_dead; [reflexivity|].
      apply lookup_remove_key_same.
    + apply pop_order_in in H. tauto.
  - apply oid_eqb_neq in E. destruct (lookup x m).
    + destruct H as [H|H]; [contradiction|].
      rewrite remove_key_upsert_other by exact E. rewrite IH by exact H. reflexivity.
    + apply IH. exact H.
Qed.

Lemma upsert_upsert : forall o m, upsert o (upsert o m) = upsert o m.
Proof. intros o m. unfold upsert at 1. rewrite remove_key_upsert_same. reflexivity. Qed.

(* push of an id that has an outstanding ticket (live or stale): the new ticket is irrelevant *)
Lemma pop_order_push_ticketed : forall t m o,
  In (oid_of o) t ->
  pop_order (upsert o m) (t ++ [oid_of o]) = pop_order (upsert o m) t.
Proof.
  intros t m o H. rewrite <- (upsert_upsert o m) at 1. apply pop_order_push_live.
  apply pop_order_in. split; [exact H|]. rewrite lookup_upsert, oid_eqb_refl. discriminate.
Qed.

(* ... and a stale ticket is revived: the id takes the place of its oldest outstanding ticket *)
Lemma pop_order_push_stale : forall t1 t2 m o,
  lookup (oid_of o) m = None -> ~ In (oid_of o) t1 ->
  pop_order (upsert o m) (t1 ++ oid_of o :: t2) =
    pop_order m t1 ++ oid_of o :: pop_order (remove_keys (pop_order m t1) m) t2 /\
  pop_order m (t1 ++ oid_of o :: t2) =
    pop_order m t1 ++ pop_order (remove_keys (pop_order m t1) m) t2.
Proof.
  intros t1 t2 m o D NI.
  assert (E1 : pop_order (upsert o m) t1 = pop_order m t1).
  { apply pop_order_ext. intros k Hk. rewrite lookup_upsert.
    destruct (oid_eqb k (oid_of o)) eqn:E; [|tauto].
    apply oid_eqb_eq in E. subst. contradiction. }
  assert (NP : ~ In (oid_of o) (pop_order m t1)) by (rewrite pop_order_in; tauto).
  split.
  - rewrite pop_order_app, E1. f_equal.
    rewrite remove_keys_upsert by exact NP.
    rewrite pop_order_cons, lookup_upsert, oid_eqb_refl. f_equal.
    rewrite remove_key_upsert_same. rewrite remove_key_absent; [reflexivity|].
    rewrite lookup_remove_keys. destruct (in_dec oid_eq_dec (oid_of o) (pop_order m t1)); [reflexivity | exact D].
  - rewrite pop_order_app. f_equal. rewrite pop_order_cons, lookup_remove_keys.
    destruct (in_dec oid_eq_dec (oid_of o) (pop_order m t1)); [reflexivity | rewrite D; reflexivity].
Qed.

(* with at most one outstanding ticket per id, the pop order is the live tickets in ticket order *)
Lemma pop_order_nodup_tickets : forall t m,
  NoDup t -> pop_order m t = filter (fun k => is_some (lookup k m)) t.
Proof.
  induction t as [|x t IH]; intros m ND; [reflexivity|].
  inversion ND as [|? ? NI ND']; subst.
  rewrite pop_order_cons. cbn [filter]. destruct (lookup x m) eqn:E; cbn [is_some].
  - f_equal. rewrite IH by exact ND'. apply filter_ext_in. intros k Hk.
    rewrite lookup_remove_key_other; [reflexivity | intro; subst; contradiction].
  - apply IH. exact ND'.
Qed.

(* ------------------------------------------------------------------ *)
(* pop on queues                                                      *)
(* ------------------------------------------------------------------ *)

Lemma pop_some : forall q o q',
  pop q = (Some o, q') ->
  exists rest,
    abs q = oid_of o :: rest /\ lookup (oid_of o) (qmap q) = Some o /\
    abs q' = rest /\ qmap q' = remove_key (oid_of o) (qmap q).
Proof.
  intros q o q' H. unfold pop in H.
  destruct (pop_t (qmap q) (tickets q)) as [[[x m'] t']|] eqn:E; [|discriminate].
  inversion H; subst. destruct (pop_t_some _ _ _ _ _ E) as (A & B & C & _).
  exists (pop_order m' t'). unfold abs. cbn [qmap tickets]. subst m'. repeat split; assumption.
Qed.

Lemma pop_some_tickets : forall q o q',
  pop q = (Some o, q') ->
  exists t0, tickets q = t0 ++ oid_of o :: tickets q' /\
             forall x, In x t0 -> lookup x (qmap q) = None.
Proof.
  intros q o q' H. unfold pop in H.
  destruct (pop_t (qmap q) (tickets q)) as [[[x m'] t']|] eqn:E; [|discriminate].
  inversion H; subst. destruct (pop_t_some _ _ _ _ _ E) as (_ & _ & _ & D). exact D.
Qed.

Lemma pop_none : forall q q',
  pop q = (None, q') ->
  abs q = [] /\ qmap q' = qmap q /\ tickets q' = [] /\
  forall x, In x (tickets q) -> lookup x (qmap q) = None.
Proof.
  intros q q' H. unfold pop in H.
  destruct (pop_t (qmap q) (tickets q)) as [[[x m'] t']|] eqn:E; [discriminate|].
  inversion H; subst. cbn [qmap tickets]. pose proof (pop_t_none _ _ E) as D.
  repeat split; try reflexivity; [|exact D]. unfold abs. apply pop_order_dead. exact D.
Qed.

(* conversely, the pop order predicts the answer of pop *)
Lemma pop_of_abs_nil : forall q, abs q = [] -> pop q = (None, mkQueue (qmap q) []).
Proof.
  intros q H. unfold pop. destruct (pop_t (qmap q) (tickets q)) as [[[x m'] t']|] eqn:E2; [|reflexivity].
  apply pop_t_some in E2. destruct E2 as (_ & _ & C & _). unfold abs in H. congruence.
Qed.

Lemma pop_of_abs_cons : forall q k rest,
  abs q = k :: rest ->
  exists o q', pop q = (Some o, q') /\ oid_of o = k /\ lookup k (qmap q) = Some o /\
               abs q' = rest /\ qmap q' = remove_key k (qmap q).
Proof.
  intros q k rest H. destruct (pop q) as [[o|] q'] eqn:E.
  - destruct (pop_some _ _ _ E) as (rest' & A & B & C & D).
    rewrite H in A. inversion A; subst. exists o, q'. repeat split; try assumption; reflexivity.
  - destruct (pop_none _ _ E) as (A & _). congruence.
Qed.

(* every live id with a ticket appears exactly once in the pop order *)
Lemma abs_nodup : forall q, NoDup (abs q).
Proof. intro q. apply pop_order_nodup. Qed.

Lemma abs_in : forall q k, In k (abs q) <-> In k (tickets q) /\ qfind q k <> None.
Proof. intros q k. apply pop_order_in. Qed.

Lemma abs_perm : forall q, WfQueue q -> Permutation (abs q) (ids (qmap q)).
Proof.
  intros q [ND Cov]. apply NoDup_Permutation; [apply abs_nodup | exact ND |].
  intro k. rewrite abs_in. unfold qfind. rewrite lookup_live_iff. split; [tauto|].
  intro H. split; [|exact H]. unfold ids in H. apply in_map_iff in H.
  destruct H as (o & E & I). subst k. apply Cov. exact I.
Qed.

(* how the other calls move the pop order *)
Lemma abs_push_fresh : forall q o, fresh q o -> abs (push q o) = abs q ++ [oid_of o].
Proof. intros q o H. unfold abs, push. cbn [qmap tickets]. apply pop_order_push_fresh. exact H. Qed.

Lemma abs_push_live : forall q o, In (oid_of o) (abs q) -> abs (push q o) = abs q.
Proof. intros q o H. unfold abs, push. cbn [qmap tickets]. apply pop_order_push_live. exact H. Qed.

Lemma abs_push_ticketed : forall q o,
  In (oid_of o) (tickets q) -> abs (push q o) = pop_order (upsert o (qmap q)) (tickets q).
Proof. intros q o H. unfold abs, push. cbn [qmap tickets]. apply pop_order_push_ticketed. exact H. Qed.

Lemma abs_push_stale : forall q o t1 t2,
  qfind q (oid_of o) = None -> tickets q = t1 ++ oid_of o :: t2 -> ~ In (oid_of o) t1 ->
  let m' := remove_keys (pop_order (qmap q) t1) (qmap q) in
  abs q = pop_order (qmap q) t1 ++ pop_order m' t2 /\
  abs (push q o) = pop_order (qmap q) t1 ++ oid_of o :: pop_order m' t2.
Proof.
  intros q o t1 t2 D T NI m'. unfold qfind in D.
  destruct (pop_order_push_stale t1 t2 (qmap q) o D NI) as [A B].
  split.
  - unfold abs. rewrite T. exact B.
  - rewrite abs_push_ticketed by (rewrite T; apply in_or_app; right; left; reflexivity).
    rewrite T. exact A.
Qed.

Lemma abs_qremove : forall q k, abs (snd (qremove q k)) = drop_id k (abs q).
Proof.
  intros q k. unfold qremove. destruct (lookup k (qmap q)) eqn:E; cbn [snd].
  - unfold abs. cbn [qmap tickets]. apply pop_order_remove_key.
  - symmetry. apply drop_id_absent. rewrite abs_in. unfold qfind. tauto.
Qed.

(* ---- draining ---- *)
Lemma pop_all_spec : forall n q,
  (length (abs q) <= n)%nat ->
  map oid_of (pop_all n q) = abs q /\
  map Some (pop_all n q) = map (fun k => lookup k (qmap q)) (abs q).
Proof.
  induction n as [|n IH]; intros q L.
  - destruct (abs q); [split; reflexivity | cbn in L; lia].
  - cbn [pop_all]. destruct (abs q) as [|k rest] eqn:A.
    + rewrite (pop_of_abs_nil q A). split; reflexivity.
    + destruct (pop_of_abs_cons q k rest A) as (o & q' & P & Ek & Lk & A' & M').
      rewrite P. cbn [length] in L. destruct (IH q') as [I1 I2]; [rewrite A'; lia|].
      cbn [map]. rewrite I1, I2, A', M', Ek, Lk. split; [reflexivity|]. f_equal.
      apply map_ext_in. intros x Hx. apply lookup_remove_key_other.
      pose proof (abs_nodup q) as ND. rewrite A in ND. inversion ND; subst.
      intro; subst; contradiction.
Qed.

Lemma drain_spec : forall q,
  map oid_of (drain q) = abs q /\
  map Some (drain q) = map (fun k => lookup k (qmap q)) (abs q).
Proof. intro q. apply pop_all_spec. apply pop_order_length. Qed.

Lemma drain_in_map : forall q o, In o (drain q) -> In o (qmap q).
Proof.
  intros q o H. destruct (drain_spec q) as [_ E].
  assert (I : In (Some o) (map Some (drain q))) by (apply in_map; exact H).
  rewrite E in I. apply in_map_iff in I. destruct I as (k & L & _).
  apply lookup_some in L. tauto.
Qed.

Lemma drain_perm : forall q, WfQueue q -> Permutation (drain q) (qmap q).
Proof.
  intros q Wf. pose proof Wf as [ND Cov]. destruct (drain_spec q) as [E _].
  pose proof (abs_perm q Wf) as P.
  assert (NDd : NoDup (ids (drain q))) by (unfold ids; rewrite E; apply abs_nodup).
  apply NoDup_Permutation; [apply NoDup_ids_NoDup; exact NDd | apply NoDup_ids_NoDup; exact ND |].
  intro o. split; [apply drain_in_map|].
  intro I. assert (Ik : In (oid_of o) (map oid_of (drain q))).
  { rewrite E. eapply Permutation_in; [apply Permutation_sym; exact P|]. apply in_map. exact I. }
  apply in_map_iff in Ik. destruct Ik as (o' & Eo & Io').
  assert (o' = o); [|subst; exact Io'].
  apply (same_id_same_order (qmap q)); try assumption. apply drain_in_map. exact Io'.
Qed.

(* ------------------------------------------------------------------ *)
(* invariants of every reachable queue                                *)
(* ------------------------------------------------------------------ *)

Lemma Covered_push : forall q o, Covered q -> Covered (push q o).
Proof.
  intros q o C x Hx. unfold push in *. cbn [qmap tickets] in *. unfold upsert in Hx.
  apply in_app_or in Hx. apply in_or_app. destruct Hx as [Hx|Hx].
  - left. apply C. apply remove_key_in in Hx. tauto.
  - right. destruct Hx as [Hx|[]]. subst. left. reflexivity.
Qed.

Lemma Covered_pop : forall q, Covered q -> Covered (snd (pop q)).
Proof.
  intros q C. destruct (pop q) as [[o|] q'] eqn:E; cbn [snd].
  - destruct (pop_some _ _ _ E) as (rest & _ & _ & _ & M).
    destruct (pop_some_tickets _ _ _ E) as (t0 & T & Dead).
    intros x Hx. rewrite M in Hx. apply remove_key_in in Hx. destruct Hx as [Hx Ne].
    pose proof (C x Hx) as Hi. rewrite T in Hi. apply in_app_or in Hi.
    destruct Hi as [Hi|[Hi|Hi]].
    + apply Dead in Hi. apply lookup_none_iff in Hi. exfalso. apply Hi. apply in_map. exact Hx.
    + congruence.
    + exact Hi.
  - destruct (pop_none _ _ E) as (_ & M & _ & Dead).
    intros x Hx. rewrite M in Hx. exfalso.
    pose proof (Dead _ (C x Hx)) as D. apply lookup_none_iff in D. apply D. apply in_map. exact Hx.
Qed.

Lemma Covered_qremove : forall q k, Covered q -> Covered (snd (qremove q k)).
Proof.
  intros q k C. unfold qremove. destruct (lookup k (qmap q)); cbn [snd]; [|exact C].
  intros x Hx. cbn [qmap tickets] in *. apply C. apply remove_key_in in Hx. tauto.
Qed.

Lemma NoDup_pop : forall q, NoDup (ids (qmap q)) -> NoDup (ids (qmap (snd (pop q)))).
Proof.
  intros q ND. destruct (pop q) as [[o|] q'] eqn:E; cbn [snd].
  - destruct (pop_some _ _ _ E) as (rest & _ & _ & _ & M). rewrite M. apply NoDup_remove_key. exact ND.
  - destruct (pop_none _ _ E) as (_ & M & _). rewrite M. exact ND.
Qed.

Lemma NoDup_qremove : forall q k, NoDup (ids (qmap q)) -> NoDup (ids (qmap (snd (qremove q k)))).
Proof.
  intros q k ND. unfold qremove. destruct (lookup k (qmap q)); cbn [snd qmap]; [|exact ND].
  apply NoDup_remove_key. exact ND.
Qed.

Lemma step_q_state : forall q op,
  fst (step_q q op) =
  match op with
  | QPush o => push q o
  | QPop => snd (pop q)
  | QRemove k => snd (qremove q k)
  | _ => q
  end.
Proof.
  intros q op. destruct op; cbn [step_q fst]; try reflexivity.
  - destruct (pop q); reflexivity.
  - destruct (qremove q k); reflexivity.
Qed.

Lemma step_q_wf : forall q op, WfQueue q -> WfQueue (fst (step_q q op)).
Proof.
  intros q op [ND C]. rewrite step_q_state. destruct op; try (split; assumption).
  - split; [apply NoDup_upsert; exact ND | apply Covered_push; exact C].
  - split; [apply NoDup_pop; exact ND | apply Covered_pop; exact C].
  - split; [apply NoDup_qremove; exact ND | apply Covered_qremove; exact C].
Qed.

Lemma exec_q_wf : forall ops q, WfQueue q -> WfQueue (exec_q q ops).
Proof.
  unfold exec_q. induction ops as [|op ops IH]; intros q W; [exact W|].
  cbn [fold_left]. apply IH. apply step_q_wf. exact W.
Qed.

Lemma empty_wf : WfQueue empty_queue.
Proof. split; [constructor | intros o []]. Qed.

Lemma reachable_wf : forall q, reachable_q q -> WfQueue q.
Proof. intros q [ops E]. subst. apply exec_q_wf. apply empty_wf. Qed.

Lemma exec_q_app : forall q ops1 ops2, exec_q q (ops1 ++ ops2) = exec_q (exec_q q ops1) ops2.
Proof. intros. unfold exec_q. apply fold_left_app. Qed.

Lemma reachable_step : forall q op, reachable_q q -> reachable_q (fst (step_q q op)).
Proof.
  intros q op [ops E]. exists (ops ++ [op]). rewrite exec_q_app, <- E. reflexivity.
Qed.

(* ------------------------------------------------------------------ *)
(* lookup and removal by id                                           *)
(* ------------------------------------------------------------------ *)

Lemma qfind_push : forall q o k,
  qfind (push q o) k = if oid_eqb k (oid_of o) then Some o else qfind q k.
Proof. intros. unfold qfind, push. cbn [qmap]. apply lookup_upsert. Qed.

Lemma qfind_pop_some : forall q o q' k,
  pop q = (Some o, q') -> qfind q' k = if oid_eqb k (oid_of o) then None else qfind q k.
Proof.
  intros q o q' k H. destruct (pop_some _ _ _ H) as (rest & _ & _ & _ & M).
  unfold qfind. rewrite M. apply lookup_remove_key.
Qed.

Lemma qfind_pop_none : forall q q' k, pop q = (None, q') -> qfind q' k = qfind q k.
Proof. intros q q' k H. destruct (pop_none _ _ H) as (_ & M & _). unfold qfind. rewrite M. reflexivity. Qed.

Lemma qremove_spec : forall q k r q',
  qremove q k = (r, q') ->
  r = qfind q k /\ tickets q' = tickets q /\
  forall k', qfind q' k' = if oid_eqb k' k then None else qfind q k'.
Proof.
  intros q k r q' H. unfold qremove in H. unfold qfind.
  destruct (lookup k (qmap q)) as [o|] eqn:E; inversion H; subst; cbn [qmap tickets].
  - repeat split; try reflexivity. intro k'. apply lookup_remove_key.
  - repeat split; try reflexivity. intro k'.
    destruct (oid_eqb k' k) eqn:E2; [|reflexivity]. apply oid_eqb_eq in E2. subst. exact E.
Qed.

Lemma qremove_map : forall q k, qmap (snd (qremove q k)) = remove_key k (qmap q).
Proof.
  intros q k. unfold qremove. destruct (lookup k (qmap q)) eqn:E; cbn [snd qmap]; [reflexivity|].
  symmetry. apply remove_key_absent. exact E.
Qed.

Lemma trace_q_cons : forall q op ops,
  trace_q q (op :: ops) = (op, snd (step_q q op)) :: trace_q (fst (step_q q op)) ops.
Proof. reflexivity. Qed.

Lemma qfind_step : forall q op k,
  qfind (fst (step_q q op)) k = track k (qfind q k) (op, snd (step_q q op)).
Proof.
  intros q op k. destruct op; cbn [step_q fst snd track]; try reflexivity.
  - apply qfind_push.
  - destruct (pop q) as [[o|] q'] eqn:E; cbn [fst snd].
    + apply (qfind_pop_some _ _ _ _ E).
    + apply (qfind_pop_none _ _ _ E).
  - destruct (qremove q k0) as [r q'] eqn:E; cbn [fst snd].
    destruct (qremove_spec _ _ _ _ E) as (_ & _ & F). apply F.
Qed.

Lemma qfind_history_gen : forall ops q k,
  qfind (exec_q q ops) k = fold_left (track k) (trace_q q ops) (qfind q k).
Proof.
  induction ops as [|op ops IH]; intros q k; [reflexivity|].
  rewrite trace_q_cons. cbn [fold_left]. unfold exec_q. cbn [fold_left]. fold (exec_q (fst (step_q q op)) ops).
  rewrite IH, qfind_step. reflexivity.
Qed.

Lemma qfind_history : forall ops k,
  qfind (exec_q empty_queue ops) k = last_pushed k (trace_q empty_queue ops).
Proof. intros. apply qfind_history_gen. Qed.

(* ------------------------------------------------------------------ *)
(* length, emptiness, listing                                         *)
(* ------------------------------------------------------------------ *)

Lemma qlen_counts : forall q ks,
  NoDup (ids (qmap q)) -> NoDup ks -> (forall k, In k ks <-> qfind q k <> None) ->
  qlen q = N.of_nat (length ks).
Proof.
  intros q ks ND NDk H. unfold qlen. f_equal.
  replace (length (qmap q)) with (length (ids (qmap q))) by (unfold ids; apply map_length).
  apply Permutation_length. apply NoDup_Permutation; try assumption.
  intro k. rewrite H. unfold qfind. rewrite lookup_live_iff. tauto.
Qed.

Lemma qlen_push : forall q o, NoDup (ids (qmap q)) ->
  qlen (push q o) = match qfind q (oid_of o) with Some _ => qlen q | None => qlen q + 1 end.
Proof.
  intros q o ND. unfold qlen, qfind, push. cbn [qmap]. rewrite length_upsert by exact ND.
  destruct (lookup (oid_of o) (qmap q)); lia.
Qed.

Lemma qlen_pop_some : forall q o q', NoDup (ids (qmap q)) ->
  pop q = (Some o, q') -> qlen q' + 1 = qlen q.
Proof.
  intros q o q' ND H. destruct (pop_some _ _ _ H) as (rest & _ & L & _ & M).
  unfold qlen. rewrite M. rewrite <- (length_remove_key _ _ _ ND L). lia.
Qed.

Lemma qlen_qremove_some : forall q k o q', NoDup (ids (qmap q)) ->
  qremove q k = (Some o, q') -> qlen q' + 1 = qlen q.
Proof.
  intros q k o q' ND H. unfold qremove in H. destruct (lookup k (qmap q)) as [x|] eqn:E; inversion H; subst.
  unfold qlen. cbn [qmap]. rewrite <- (length_remove_key _ _ _ ND E). lia.
Qed.

Lemma qis_empty_iff : forall q, qis_empty q = true <-> qlen q = 0.
Proof.
  intro q. unfold qis_empty, qlen. destruct (qmap q) as [|x m]; cbn [length].
  - split; reflexivity.
  - split; [discriminate | lia].
Qed.

Lemma qis_empty_iff_find : forall q, qis_empty q = true <-> forall k, qfind q k = None.
Proof.
  intro q. unfold qis_empty, qfind. destruct (qmap q) as [|x m].
  - split; reflexivity.
  - split; [discriminate|]. intro H. specialize (H (oid_of x)). cbn [lookup] in H.
    rewrite oid_eqb_refl in H. discriminate.
Qed.

Lemma to_vec_perm : forall q, Permutation (to_vec q) (qmap q).
Proof. intro q. apply sort_ts_perm. Qed.

Lemma to_vec_sorted : forall q, StronglySorted le_ts (to_vec q).
Proof. intro q. apply sort_ts_sorted. Qed.

Lemma to_vec_once : forall q, NoDup (ids (qmap q)) ->
  NoDup (ids (to_vec q)) /\ NoDup (to_vec q) /\
  (forall o, In o (to_vec q) <-> qfind q (oid_of o) = Some o) /\
  (forall k, qfind q k = lookup k (to_vec q)) /\
  length (to_vec q) = length (qmap q).
Proof.
  intros q ND. pose proof (to_vec_perm q) as P.
  assert (ND2 : NoDup (ids (to_vec q))).
  { eapply Permutation_NoDup_ids; [apply Permutation_sym; exact P | exact ND]. }
  split; [exact ND2|]. split; [apply NoDup_ids_NoDup; exact ND2|]. split; [|split].
  - intro o. unfold qfind. rewrite (lookup_iff_in _ _ ND). split; intro H.
    + eapply Permutation_in; eassumption.
    + eapply Permutation_in; [apply Permutation_sym; exact P | exact H].
  - intro k. unfold qfind. apply Permutation_lookup; [exact ND | apply Permutation_sym; exact P].
  - apply Permutation_length. exact P.
Qed.

(* ------------------------------------------------------------------ *)
(* FIFO refinement under fresh pushes                                 *)
(* ------------------------------------------------------------------ *)

(* the simulation: the abstract FIFO IS the map, and the pop order is the map order *)
Definition FInv (q : queue) : Prop := NoDup (ids (qmap q)) /\ abs q = ids (qmap q).

Lemma ffind_lookup : forall f k, ffind f k = lookup k f.
Proof.
  intros f k. unfold ffind. induction f as [|x f IH]; cbn [find lookup]; [reflexivity|].
  unfold has_id at 1. destruct (oid_eqb k (oid_of x)); [reflexivity | exact IH].
Qed.

Lemma fremove_eq : forall f k,
  fremove f k = match lookup k f with Some o => (Some o, remove_key k f) | None => (None, f) end.
Proof. intros f k. unfold fremove. rewrite ffind_lookup. reflexivity. Qed.

Lemma fempty_eq : forall q, fempty (qmap q) = qis_empty q.
Proof. intro q. unfold fempty, flen, qis_empty. destruct (qmap q); reflexivity. Qed.

Lemma FInv_empty : FInv empty_queue.
Proof. split; [constructor | reflexivity]. Qed.

Lemma FInv_covered : forall q, FInv q -> Covered q.
Proof.
  intros q [ND A] o Ho. assert (I : In (oid_of o) (abs q)) by (rewrite A; apply in_map; exact Ho).
  apply abs_in in I. tauto.
Qed.

Lemma step_refines : forall q op,
  FInv q -> match op with QPush o => fresh q o | _ => True end ->
  step_f (qmap q) op = (qmap (fst (step_q q op)), snd (step_q q op)) /\
  FInv (fst (step_q q op)).
Proof.
  intros q op [ND A] Fr. destruct op; cbn [step_q step_f fst snd].
  - (* push *)
    assert (D : lookup (oid_of o) (qmap q) = None).
    { apply lookup_none_iff. rewrite <- A. rewrite abs_in. unfold fresh in Fr. tauto. }
    unfold fpush. split; [unfold push; cbn [qmap]; rewrite (upsert_fresh _ _ D); reflexivity|]. split.
    + unfold push; cbn [qmap]; rewrite (upsert_fresh _ _ D). rewrite ids_app. cbn [ids map]. apply NoDup_snoc; [exact ND | apply lookup_none_iff; exact D].
    + rewrite (abs_push_fresh _ _ Fr), A. unfold push. cbn [qmap].
      rewrite (upsert_fresh _ _ D), ids_app. reflexivity.
  - (* pop *)
    destruct (qmap q) as [|x m] eqn:M.
    + cbn [ids map] in A. rewrite (pop_of_abs_nil q A). cbn [fst snd qmap fpop]. rewrite M.
      split; [reflexivity|]. split; [constructor | reflexivity].
    + cbn [ids map] in A. destruct (pop_of_abs_cons q _ _ A) as (o & q' & P & Ek & Lk & A' & M').
      rewrite P. cbn [fst snd fpop]. rewrite M in Lk, M'. cbn [lookup] in Lk.
      rewrite oid_eqb_refl in Lk. inversion Lk; subst o.
      rewrite remove_key_head in M' by exact ND.
      rewrite M'. split; [reflexivity|]. split.
      * rewrite M'. cbn [ids map] in ND. inversion ND; assumption.
      * rewrite M'. exact A'.
  - (* find *)
    rewrite ffind_lookup. split; [reflexivity | split; assumption].
  - (* remove *)
    rewrite fremove_eq. unfold qremove. destruct (lookup k (qmap q)) as [o|] eqn:E; cbn [fst snd qmap].
    + split; [reflexivity|]. split; [apply NoDup_remove_key; exact ND|].
      pose proof (abs_qremove q k) as R. unfold qremove in R. rewrite E in R. cbn [snd] in R.
      rewrite R, A. symmetry. apply ids_remove_key.
    + split; [reflexivity | split; assumption].
  - split; [reflexivity | split; assumption].
  - rewrite fempty_eq. split; [reflexivity | split; assumption].
  - split; [reflexivity | split; assumption].
Qed.

Lemma run_refines_gen : forall ops q,
  FInv q -> all_fresh q ops ->
  run_q q ops = run_f (qmap q) ops /\ qmap (exec_q q ops) = exec_f (qmap q) ops /\
  FInv (exec_q q ops).
Proof.
  induction ops as [|op ops IH]; intros q I Fr.
  - repeat split; try reflexivity; apply I.
  - destruct Fr as [Fr1 Fr2]. destruct (step_refines q op I Fr1) as [S I'].
    destruct (IH _ I' Fr2) as (R1 & R2 & R3).
    cbn [run_q run_f]. unfold exec_q, exec_f. cbn [fold_left].
    fold (exec_q (fst (step_q q op)) ops). fold (exec_f (fst (step_f (qmap q) op)) ops).
    rewrite S. cbn [fst snd]. split; [|split].
    + rewrite R1. reflexivity.
    + exact R2.
    + exact R3.
Qed.

Lemma run_refines : forall ops, all_fresh empty_queue ops -> run_q empty_queue ops = run_f [] ops.
Proof. intros ops H. apply (run_refines_gen ops empty_queue FInv_empty H). Qed.

(* under fresh pushes no id ever has two outstanding tickets, and an id handed
   out by pop is fresh again *)
Lemma NoDup_app_r : forall (A : Type) (l1 l2 : list A), NoDup (l1 ++ l2) -> NoDup l2.
Proof. intros A l1 l2. induction l1 as [|x l1 IH]; cbn [app]; intro H; [exact H|]. inversion H; auto. Qed.

Lemma step_q_tickets_nodup : forall q op,
  NoDup (tickets q) -> match op with QPush o => fresh q o | _ => True end ->
  NoDup (tickets (fst (step_q q op))).
Proof.
  intros q op ND Fr. rewrite step_q_state. destruct op; try exact ND.
  - unfold push. cbn [tickets]. apply NoDup_snoc; assumption.
  - destruct (pop q) as [[o|] q'] eqn:E; cbn [snd].
    + destruct (pop_some_tickets _ _ _ E) as (t0 & T & _). rewrite T in ND.
      apply NoDup_app_r in ND. inversion ND; assumption.
    + destruct (pop_none _ _ E) as (_ & _ & T & _). rewrite T. constructor.
  - unfold qremove. destruct (lookup k (qmap q)); exact ND.
Qed.

Lemma pop_fresh_again : forall q o q',
  NoDup (tickets q) -> pop q = (Some o, q') -> ~ In (oid_of o) (tickets q').
Proof.
  intros q o q' ND E. destruct (pop_some_tickets _ _ _ E) as (t0 & T & _). rewrite T in ND.
  apply NoDup_app_r in ND. inversion ND; assumption.
Qed.

(* the abstract-side condition implies freshness *)
Lemma push_ok_fresh_gen : forall ops q busy,
  FInv q -> NoDup (tickets q) -> incl (tickets q) busy ->
  push_ok (qmap q) busy ops -> all_fresh q ops.
Proof.
  induction ops as [|op ops IH]; intros q busy I ND Inc H; [exact Logic.I|].
  destruct H as [H1 H2].
  assert (Fr : match op with QPush o => fresh q o | _ => True end).
  { destruct op; try exact Logic.I. intro X. apply H1. apply Inc. exact X. }
  split; [exact Fr|].
  destruct (step_refines q op I Fr) as [S I']. rewrite S in H2. cbn [fst snd] in H2.
  apply (IH _ (busy_after busy op (snd (step_q q op))) I' (step_q_tickets_nodup q op ND Fr)); [|exact H2].
  clear H2 IH S I'. destruct op; cbn [step_q busy_after fst snd]; try exact Inc.
  - unfold push. cbn [tickets]. intros x Hx. apply in_app_or in Hx.
    destruct Hx as [Hx|[Hx|[]]]; [right; apply Inc; exact Hx | left; exact Hx].
  - destruct (pop q) as [[o|] q'] eqn:E; cbn [fst snd].
    + pose proof (pop_fresh_again _ _ _ ND E) as NI.
      destruct (pop_some_tickets _ _ _ E) as (t0 & T & _).
      intros x Hx. apply drop_id_in. split.
      * apply Inc. rewrite T. apply in_or_app. right. right. exact Hx.
      * intro; subst; contradiction.
    + destruct (pop_none _ _ E) as (_ & _ & T & _). rewrite T. intros x [].
  - unfold qremove. destruct (lookup k (qmap q)); cbn [fst tickets]; exact Inc.
Qed.

Lemma push_ok_fresh : forall ops, push_ok [] [] ops -> all_fresh empty_queue ops.
Proof.
  intros ops H. apply (push_ok_fresh_gen ops empty_queue []); try exact H.
  - apply FInv_empty.
  - constructor.
  - intros x [].
Qed.

Lemma run_refines_push_ok : forall ops, push_ok [] [] ops -> run_q empty_queue ops = run_f [] ops.
Proof. intros ops H. apply run_refines. apply push_ok_fresh. exact H. Qed.

(* ids pushed at most once: always fine *)
Lemma busy_after_incl : forall busy op r,
  match op with QPush _ => False | _ => True end -> incl (busy_after busy op r) busy.
Proof.
  intros busy op r H x Hx. destruct op; try destruct H; cbn [busy_after] in Hx; try exact Hx.
  destruct r as [|[o|]| | |]; try exact Hx. apply drop_id_in in Hx. tauto.
Qed.

Lemma pushed_once_ok_gen : forall ops f busy,
  NoDup (pushed_ids ops) -> (forall k, In k busy -> ~ In k (pushed_ids ops)) -> push_ok f busy ops.
Proof.
  induction ops as [|op ops IH]; intros f busy ND H; [exact Logic.I|].
  cbn [push_ok].
  destruct (match op with QPush _ => false | _ => true end) eqn:K.
  - assert (P : pushed_ids (op :: ops) = pushed_ids ops) by (destruct op; try discriminate; reflexivity).
    rewrite P in ND, H. split; [destruct op; try discriminate; exact Logic.I|].
    apply IH; [exact ND|]. intros k Hk. apply H.
    apply (busy_after_incl busy op (snd (step_f f op))); [destruct op; try discriminate; exact Logic.I | exact Hk].
  - destruct op; try discriminate. cbn [pushed_ids flat_map app] in ND, H. fold (pushed_ids ops) in ND, H.
    inversion ND as [|? ? NI ND']; subst. split.
    + intro X. apply (H _ X). left. reflexivity.
    + apply IH; [exact ND'|]. cbn [step_f busy_after fst snd].
      intros k [Hk|Hk]; [subst; exact NI|]. intro X. apply (H _ Hk). right. exact X.
Qed.

Lemma pushed_once_ok : forall ops, NoDup (pushed_ids ops) -> push_ok [] [] ops.
Proof. intros ops H. apply pushed_once_ok_gen; [exact H | intros k []]. Qed.

Lemma run_refines_pushed_once : forall ops,
  NoDup (pushed_ids ops) -> run_q empty_queue ops = run_f [] ops.
Proof. intros ops H. apply run_refines_push_ok. apply pushed_once_ok. exact H. Qed.

(* ------------------------------------------------------------------ *)
(* builders                                                           *)
(* ------------------------------------------------------------------ *)

Lemma from_vec_exec : forall os q, fold_left push os q = exec_q q (map QPush os).
Proof.
  induction os as [|o os IH]; intro q; [reflexivity|].
  cbn [fold_left map]. unfold exec_q. cbn [fold_left step_q fst]. apply IH.
Qed.

Lemma fold_push_tickets : forall os q, tickets (fold_left push os q) = tickets q ++ ids os.
Proof.
  induction os as [|o os IH]; intro q; cbn [fold_left ids map].
  - symmetry. apply app_nil_r.
  - rewrite IH. unfold push. cbn [tickets]. rewrite <- app_assoc. reflexivity.
Qed.

Lemma from_vec_tickets : forall os, tickets (from_vec os) = ids os.
Proof. intro os. unfold from_vec. rewrite fold_push_tickets. reflexivity. Qed.

Lemma fold_push_lookup : forall os q k,
  lookup k (qmap (fold_left push os q)) =
  match lookup k (rev os) with Some o => Some o | None => lookup k (qmap q) end.
Proof.
  induction os as [|o os IH]; intros q k; cbn [fold_left rev]; [reflexivity|].
  rewrite IH, lookup_app. destruct (lookup k (rev os)); [reflexivity|].
  unfold push. cbn [qmap lookup]. rewrite lookup_upsert.
  destruct (oid_eqb k (oid_of o)); reflexivity.
Qed.

(* the LAST order with that id in the input *)
Lemma from_vec_lookup : forall os k, qfind (from_vec os) k = lookup k (rev os).
Proof.
  intros os k. unfold qfind, from_vec. rewrite fold_push_lookup.
  destruct (lookup k (rev os)); reflexivity.
Qed.

Lemma fold_push_map : forall os q,
  NoDup (ids (qmap q) ++ ids os) -> qmap (fold_left push os q) = qmap q ++ os.
Proof.
  induction os as [|o os IH]; intros q ND; cbn [fold_left].
  - symmetry. apply app_nil_r.
  - cbn [ids map] in ND.
    assert (D : lookup (oid_of o) (qmap q) = None).
    { apply lookup_none_iff. intro X. apply NoDup_remove_2 in ND. apply ND.
      apply in_or_app. left. exact X. }
    rewrite IH; unfold push; cbn [qmap]; rewrite (upsert_fresh _ _ D).
    + rewrite <- app_assoc. reflexivity.
    + rewrite ids_app. cbn [ids map]. rewrite <- app_assoc. exact ND.
Qed.

Lemma from_vec_map : forall os, NoDup (ids os) -> qmap (from_vec os) = os.
Proof. intros os ND. unfold from_vec. rewrite fold_push_map; [reflexivity | exact ND]. Qed.

Lemma from_vec_all_fresh : forall os q,
  NoDup (tickets q ++ ids os) -> all_fresh q (map QPush os).
Proof.
  induction os as [|o os IH]; intros q ND; [exact I|].
  cbn [map all_fresh step_q fst ids]. split.
  - unfold fresh. intro X. apply NoDup_remove_2 in ND. apply ND. apply in_or_app. left. exact X.
  - apply IH. unfold push. cbn [tickets]. rewrite <- app_assoc. exact ND.
Qed.

Lemma from_vec_FInv : forall os, NoDup (ids os) -> FInv (from_vec os).
Proof.
  intros os ND. unfold from_vec. rewrite from_vec_exec.
  apply (run_refines_gen (map QPush os) empty_queue FInv_empty).
  apply from_vec_all_fresh. exact ND.
Qed.

Lemma from_vec_abs : forall os, NoDup (ids os) -> abs (from_vec os) = ids os.
Proof.
  intros os ND. destruct (from_vec_FInv os ND) as [_ A]. rewrite A, from_vec_map by exact ND. reflexivity.
Qed.

Lemma map_Some_inj : forall (A : Type) (l1 l2 : list A), map Some l1 = map Some l2 -> l1 = l2.
Proof.
  intros A. induction l1 as [|x l1 IH]; intros [|y l2] H; try discriminate; [reflexivity|].
  cbn [map] in H. inversion H; subst. f_equal. apply IH. assumption.
Qed.

(* pops return the input, in input order *)
Lemma from_vec_drain : forall os, NoDup (ids os) -> drain (from_vec os) = os.
Proof.
  intros os ND. destruct (drain_spec (from_vec os)) as [_ E].
  rewrite from_vec_abs, from_vec_map in E by exact ND.
  apply map_Some_inj. rewrite E. unfold ids. rewrite map_map.
  clear E. apply map_ext_in. intros o Ho.
  apply lookup_in_nodup; assumption.
Qed.

Lemma from_vec_wf : forall os, WfQueue (from_vec os).
Proof. intro os. unfold from_vec. rewrite from_vec_exec. apply exec_q_wf. apply empty_wf. Qed.

Lemma from_vec_reachable : forall os, reachable_q (from_vec os).
Proof. intro os. exists (map QPush os). unfold from_vec. apply from_vec_exec. Qed.

(* ------------------------------------------------------------------ *)
(* repeated pops as a run                                             *)
(* ------------------------------------------------------------------ *)

Lemma run_pops_no_tickets : forall n q,
  tickets q = [] -> run_q q (repeat QPop n) = repeat (ROrd None) n.
Proof.
  induction n as [|n IH]; intros q T; [reflexivity|].
  cbn [repeat run_q step_q]. unfold pop. rewrite T. cbn [pop_t fst snd].
  rewrite IH; reflexivity.
Qed.

Lemma run_pops : forall n q,
  run_q q (repeat QPop n) =
  map (fun o => ROrd (Some o)) (pop_all n q) ++ repeat (ROrd None) (n - length (pop_all n q)).
Proof.
  induction n as [|n IH]; intro q; [reflexivity|].
  cbn [repeat run_q step_q pop_all]. destruct (pop q) as [[o|] q'] eqn:E; cbn [fst snd map length app].
  - rewrite IH. reflexivity.
  - destruct (pop_none _ _ E) as (_ & _ & T & _). rewrite (run_pops_no_tickets n q' T).
    cbn [map app length]. rewrite Nat.sub_0_r. reflexivity.
Qed.

(* ------------------------------------------------------------------ *)
(* the general case: witnesses                                        *)
(* ------------------------------------------------------------------ *)

Definition k2_A  : order := Standard (mkCommon (Uuid 1) 100 Buy 10 Gtc) 5.
Definition k2_B  : order := Standard (mkCommon (Uuid 2) 100 Buy 11 Gtc) 7.
Definition k2_A' : order := Standard (mkCommon (Uuid 1) 100 Buy 12 Gtc) 9.
Definition k2_ops : list qop :=
  [QPush k2_A; QPush k2_B; QRemove (Uuid 1); QPush k2_A'; QPop].

Lemma k2_runs :
  run_q empty_queue k2_ops = [RUnit; RUnit; ROrd (Some k2_A); RUnit; ROrd (Some k2_A')] /\
  run_f [] k2_ops          = [RUnit; RUnit; ROrd (Some k2_A); RUnit; ROrd (Some k2_B)].
Proof. split; vm_compute; reflexivity. Qed.

Lemma k2_witness : run_q empty_queue k2_ops <> run_f [] k2_ops.
Proof. destruct k2_runs as [A B]. rewrite A, B. discriminate. Qed.

Lemma k2_push_absent : push_absent [] k2_ops.
Proof. vm_compute. repeat split. Qed.

Lemma k2_not_push_ok : ~ push_ok [] [] k2_ops.
Proof. intro H. apply k2_witness. apply run_refines_push_ok. exact H. Qed.

Lemma k2_not_all_fresh : ~ all_fresh empty_queue k2_ops.
Proof. intro H. apply k2_witness. apply run_refines. exact H. Qed.

(* the listing's tie order is the reverse of the map order: [sort_ts] is not stable *)
Lemma sort_ts_not_stable :
  ts_of k2_A = ts_of (Standard (mkCommon (Uuid 3) 100 Buy 10 Gtc) 1) /\
  sort_ts [k2_A; Standard (mkCommon (Uuid 3) 100 Buy 10 Gtc) 1] =
          [Standard (mkCommon (Uuid 3) 100 Buy 10 Gtc) 1; k2_A].
Proof. split; vm_compute; reflexivity. Qed.

Lemma exec_tickets_nodup : forall ops q,
  NoDup (tickets q) -> all_fresh q ops -> NoDup (tickets (exec_q q ops)).
Proof.
  induction ops as [|op ops IH]; intros q ND Fr; [exact ND|].
  destruct Fr as [Fr1 Fr2]. unfold exec_q. cbn [fold_left]. fold (exec_q (fst (step_q q op)) ops).
  apply IH; [apply step_q_tickets_nodup; assumption | exact Fr2].
Qed.

Lemma fresh_run_single_ticket : forall ops,
  all_fresh empty_queue ops -> NoDup (tickets (exec_q empty_queue ops)).
Proof. intros ops H. apply exec_tickets_nodup; [constructor | exact H]. Qed.
