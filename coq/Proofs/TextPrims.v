(* TextPrims.v — lemmas about the string primitives of Model/Text.v (split, find,
   starts_with, join, the field map), the number and id codecs. *)
From PL Require Import Model.Text Proofs.TextUtf8.
From Coq Require Import Lia ZifyBool ZifyN DecimalPos DecimalN.
Local Open Scope N_scope.

(* ------------------------------------------------------------------ characters *)

Lemma ascii_eqb_eq : forall a b, Ascii.eqb a b = true <-> a = b.
Proof. intros. apply Ascii.eqb_eq. Qed.

Lemma str_eqb_eq : forall a b, str_eqb a b = true <-> a = b.
Proof.
  induction a as [|x a IH]; destruct b as [|y b]; simpl; split; intro H; try discriminate; auto.
  - apply andb_true_iff in H. destruct H as [H1 H2]. apply Ascii.eqb_eq in H1. apply IH in H2. congruence.
  - inversion H; subst. rewrite Ascii.eqb_refl. simpl. apply IH. reflexivity.
Qed.

Lemma str_eqb_refl : forall a, str_eqb a a = true.
Proof. intros. apply str_eqb_eq. reflexivity. Qed.

(* [c] does not occur in [s] *)
Definition notin (c : ascii) (s : str) : bool := forallb (fun x => negb (Ascii.eqb x c)) s.

Lemma notin_app : forall c a b, notin c (a ++ b) = notin c a && notin c b.
Proof. intros. apply forallb_app. Qed.

Lemma notin_cons : forall c x s, notin c (x :: s) = negb (Ascii.eqb x c) && notin c s.
Proof. reflexivity. Qed.

(* the characters the printers emit: ASCII, none of the structural delimiters *)
Definition okc (c : ascii) : bool :=
  is_ascii c &&
  negb (Ascii.eqb c colon) && negb (Ascii.eqb c semi) && negb (Ascii.eqb c eq_c) &&
  negb (Ascii.eqb c comma) && negb (Ascii.eqb c lbr) && negb (Ascii.eqb c rbr) &&
  negb (Ascii.eqb c "("%char) && negb (Ascii.eqb c ")"%char).

Definition clean (s : str) : bool := forallb okc s.

Lemma clean_app : forall a b, clean (a ++ b) = clean a && clean b.
Proof. intros. apply forallb_app. Qed.

Lemma clean_cons : forall c s, clean (c :: s) = okc c && clean s.
Proof. reflexivity. Qed.

Lemma forallb_imp : forall (A : Type) (p q : A -> bool) l,
  (forall x, p x = true -> q x = true) -> forallb p l = true -> forallb q l = true.
Proof.
  intros A p q l H. induction l as [|x l IH]; simpl; [auto|].
  intro E. apply andb_true_iff in E. destruct E as [E1 E2]. rewrite (H _ E1), (IH E2). reflexivity.
Qed.

Lemma clean_ascii : forall s, clean s = true -> all_ascii s = true.
Proof.
  intros s. apply forallb_imp. intros x. unfold okc. intro H.
  repeat (apply andb_true_iff in H; destruct H as [H _]). exact H.
Qed.

Lemma clean_notin : forall c s,
  okc c = false -> clean s = true -> notin c s = true.
Proof.
  intros c s Hc. apply forallb_imp. intros x Hx.
  destruct (Ascii.eqb x c) eqn:E; [|reflexivity].
  apply Ascii.eqb_eq in E. subst. congruence.
Qed.

Lemma clean_colon : forall s, clean s = true -> notin colon s = true.
Proof. intros. apply clean_notin; [reflexivity|assumption]. Qed.
Lemma clean_semi : forall s, clean s = true -> notin semi s = true.
Proof. intros. apply clean_notin; [reflexivity|assumption]. Qed.
Lemma clean_eq : forall s, clean s = true -> notin eq_c s = true.
Proof. intros. apply clean_notin; [reflexivity|assumption]. Qed.
Lemma clean_comma : forall s, clean s = true -> notin comma s = true.
Proof. intros. apply clean_notin; [reflexivity|assumption]. Qed.
Lemma clean_lbr : forall s, clean s = true -> notin lbr s = true.
Proof. intros. apply clean_notin; [reflexivity|assumption]. Qed.
Lemma clean_rbr : forall s, clean s = true -> notin rbr s = true.
Proof. intros. apply clean_notin; [reflexivity|assumption]. Qed.

(* ------------------------------------------------------------------ split / join *)

Lemma split_nonnil : forall c s, split c s <> [].
Proof.
  intros c s. destruct s as [|x t]; simpl; [discriminate|].
  destruct (Ascii.eqb x c); [discriminate|]. destruct (split c t); discriminate.
Qed.

Lemma split_notin : forall c a, notin c a = true -> split c a = [a].
Proof.
  induction a as [|x a IH]; intro H; [reflexivity|].
  rewrite notin_cons in H. apply andb_true_iff in H. destruct H as [H1 H2].
  simpl. destruct (Ascii.eqb x c); [discriminate|]. rewrite (IH H2). reflexivity.
Qed.

Lemma split_app : forall c a b, notin c a = true -> split c (a ++ c :: b) = a :: split c b.
Proof.
  induction a as [|x a IH]; intros b H.
  - simpl. rewrite Ascii.eqb_refl. reflexivity.
  - rewrite notin_cons in H. apply andb_true_iff in H. destruct H as [H1 H2].
    cbn [app split]. destruct (Ascii.eqb x c); [discriminate|]. rewrite (IH b H2). reflexivity.
Qed.

Lemma join_cons2 : forall sep x y l, join sep (x :: y :: l) = x ++ sep ++ join sep (y :: l).
Proof. intros. simpl. rewrite <- app_assoc. reflexivity. Qed.

Lemma join_single : forall sep x, join sep [x] = x.
Proof. intros. simpl. apply app_nil_r. Qed.

Lemma split_join : forall c l,
  l <> [] -> forallb (notin c) l = true -> split c (join [c] l) = l.
Proof.
  intros c l. induction l as [|x l IH]; intros N H; [congruence|].
  simpl in H. apply andb_true_iff in H. destruct H as [H1 H2].
  destruct l as [|y l].
  - rewrite join_single. apply split_notin, H1.
  - rewrite join_cons2. cbn [app]. rewrite split_app by exact H1. f_equal.
    apply IH; [discriminate|exact H2].
Qed.

Lemma notin_join : forall c sep l,
  notin c sep = true -> forallb (notin c) l = true -> notin c (join sep l) = true.
Proof.
  intros c sep l Hs. induction l as [|x l IH]; intro H; [reflexivity|].
  simpl in H. apply andb_true_iff in H. destruct H as [H1 H2].
  destruct l as [|y l]; [rewrite join_single; exact H1|].
  rewrite join_cons2, !notin_app, H1, Hs, (IH H2). reflexivity.
Qed.

Lemma clean_join_sep : forall (okx : ascii -> bool) sep l,
  forallb okx sep = true -> forallb (forallb okx) l = true -> forallb okx (join sep l) = true.
Proof.
  intros okx sep l Hs. induction l as [|x l IH]; intro H; [reflexivity|].
  simpl in H. apply andb_true_iff in H. destruct H as [H1 H2].
  destruct l as [|y l]; [rewrite join_single; exact H1|].
  rewrite join_cons2, forallb_app, H1. cbn [andb]. rewrite forallb_app, Hs. cbn [andb]. apply IH, H2.
Qed.

(* ------------------------------------------------------------------ find / starts_with *)

Lemma find_char_app : forall c a b, notin c a = true -> find_char c (a ++ c :: b) = Some (length a).
Proof.
  induction a as [|x a IH]; intros b H.
  - simpl. rewrite Ascii.eqb_refl. reflexivity.
  - rewrite notin_cons in H. apply andb_true_iff in H. destruct H as [H1 H2].
    cbn [app find_char]. destruct (Ascii.eqb x c); [discriminate|]. rewrite (IH b H2). reflexivity.
Qed.

Lemma find_char_notin : forall c a, notin c a = true -> find_char c a = None.
Proof.
  induction a as [|x a IH]; intro H; [reflexivity|].
  rewrite notin_cons in H. apply andb_true_iff in H. destruct H as [H1 H2].
  simpl. destruct (Ascii.eqb x c); [discriminate|]. rewrite (IH H2). reflexivity.
Qed.

Lemma find_char_some : forall c s i,
  find_char c s = Some i -> nth_error s i = Some c /\ notin c (firstn i s) = true.
Proof.
  induction s as [|x s IH]; intros i H; [discriminate|].
  simpl in H. destruct (Ascii.eqb x c) eqn:E.
  - inversion H; subst. apply Ascii.eqb_eq in E. subst. split; reflexivity.
  - destruct (find_char c s) as [j|] eqn:F; [|discriminate]. inversion H; subst.
    destruct (IH j eq_refl) as [A B]. split; [exact A|].
    cbn [firstn]. rewrite notin_cons, E, B. reflexivity.
Qed.

Lemma starts_with_app : forall p r, starts_with p (p ++ r) = true.
Proof. induction p as [|a p IH]; intro r; [reflexivity|]. simpl. rewrite Ascii.eqb_refl. apply IH. Qed.

Lemma starts_with_split : forall p s, starts_with p s = true -> s = p ++ skipn (length p) s.
Proof.
  induction p as [|a p IH]; intros s H; [reflexivity|].
  destruct s as [|b s]; [discriminate|]. simpl in H. apply andb_true_iff in H. destruct H as [H1 H2].
  apply Ascii.eqb_eq in H1. subst. simpl. f_equal. apply IH, H2.
Qed.

Lemma ends_with_app : forall p r, ends_with p (r ++ p) = true.
Proof. intros. unfold ends_with. rewrite rev_app_distr. apply starts_with_app. Qed.

Lemma ends_with_split : forall p s, ends_with p s = true -> exists r, s = r ++ p.
Proof.
  intros p s H. unfold ends_with in H. apply starts_with_split in H.
  exists (rev (skipn (length (rev p)) (rev s))).
  rewrite <- (rev_involutive s), H, rev_app_distr, rev_involutive at 1. reflexivity.
Qed.

Lemma rfind_char_app : forall c a b, notin c b = true -> rfind_char c (a ++ c :: b) = Some (length a).
Proof.
  intros c a b H. unfold rfind_char.
  replace (rev (a ++ c :: b)) with (rev b ++ c :: rev a)
    by (rewrite rev_app_distr; simpl; rewrite <- app_assoc; reflexivity).
  rewrite find_char_app.
  - f_equal. rewrite app_length, rev_length. simpl. lia.
  - unfold notin in *. rewrite forallb_forall in *. intros x Hx. apply H. apply in_rev. exact Hx.
Qed.

Lemma nth_error_rev_lt : forall (l : str) n,
  (n < length l)%nat -> nth_error (rev l) n = nth_error l (length l - S n).
Proof.
  intros l n H.
  rewrite (nth_error_nth' (rev l) "0"%char) by (rewrite rev_length; exact H).
  rewrite (nth_error_nth' l "0"%char) by lia.
  rewrite rev_nth by exact H. reflexivity.
Qed.

Lemma rfind_char_some : forall c s i,
  rfind_char c s = Some i -> nth_error s i = Some c /\ (i < length s)%nat.
Proof.
  intros c s i H. unfold rfind_char in H.
  destruct (find_char c (rev s)) as [j|] eqn:F; [|discriminate]. inversion H; subst. clear H.
  apply find_char_some in F. destruct F as [F _].
  assert (J : (j < length s)%nat) by (rewrite <- rev_length; apply nth_error_Some; congruence).
  split; [|lia].
  rewrite nth_error_rev_lt in F by exact J.
  replace (length s - 1 - j)%nat with (length s - S j)%nat by lia. exact F.
Qed.

Lemma find_sub_some : forall p s i, find_sub p s = Some i -> starts_with p (skipn i s) = true.
Proof.
  induction s as [|x s IH]; intros i H.
  - simpl in H. destruct (starts_with p []) eqn:E; [inversion H; subst; exact E|discriminate].
  - cbn [find_sub] in H. destruct (starts_with p (x :: s)) eqn:E.
    + inversion H; subst. exact E.
    + destruct (find_sub p s) as [j|] eqn:F; [|discriminate]. inversion H; subst. simpl. apply IH. reflexivity.
Qed.

Lemma find_sub_le : forall p s i, p <> [] -> find_sub p s = Some i -> (i + length p <= length s)%nat.
Proof.
  intros p s i NE H. apply find_sub_some in H. apply starts_with_split in H.
  assert (L : length (skipn i s) = (length p + length (skipn (length p) (skipn i s)))%nat)
    by (rewrite H at 1; apply app_length).
  rewrite !skipn_length in L.
  destruct p as [|a p]; [congruence|]. simpl in L |- *. lia.
Qed.

(* first match: the pattern is a prefix of the suffix and of no earlier suffix *)
Lemma find_sub_app : forall p a r,
  (forall k, (k < length a)%nat -> starts_with p (skipn k (a ++ p ++ r)) = false) ->
  find_sub p (a ++ p ++ r) = Some (length a).
Proof.
  induction a as [|x a IH]; intros r H.
  - simpl. destruct (p ++ r) eqn:E.
    + simpl. rewrite <- E, starts_with_app. reflexivity.
    + cbn [find_sub]. rewrite <- E, starts_with_app. reflexivity.
  - assert (H0 : starts_with p (x :: a ++ p ++ r) = false) by (apply (H 0%nat); simpl; lia).
    cbn [app find_sub]. rewrite H0.
    rewrite IH; [reflexivity|]. intros k Hk. apply (H (S k)). simpl. lia.
Qed.

(* ------------------------------------------------------------------ the field map *)

Lemma get_cons_eq : forall k v m, get k ((k, v) :: m) = Some v.
Proof. intros. simpl. rewrite str_eqb_refl. reflexivity. Qed.

Lemma get_cons_ne : forall k k' v m, str_eqb k k' = false -> get k ((k', v) :: m) = get k m.
Proof. intros k k' v m H. simpl. rewrite H. reflexivity. Qed.

Definition clean_kv (kv : str * str) : bool := clean (fst kv) && clean (snd kv).

Lemma split_field : forall k v, clean k = true -> clean v = true -> split eq_c (field k v) = [k; v].
Proof.
  intros k v Hk Hv. unfold field. rewrite split_app by (apply clean_eq, Hk).
  rewrite split_notin by (apply clean_eq, Hv). reflexivity.
Qed.

Lemma notin_field : forall c k v,
  Ascii.eqb eq_c c = false -> notin c k = true -> notin c v = true -> notin c (field k v) = true.
Proof. intros c k v H Hk Hv. unfold field. rewrite notin_app, notin_cons, Hk, H, Hv. reflexivity. Qed.

Lemma fold_fields : forall fs m,
  forallb clean_kv fs = true ->
  fold_left (fun m pair => match split eq_c pair with [k; v] => (k, v) :: m | _ => m end)
            (map (fun kv => field (fst kv) (snd kv)) fs) m = rev fs ++ m.
Proof.
  induction fs as [|[k v] fs IH]; intros m H; [reflexivity|].
  simpl in H. apply andb_true_iff in H. destruct H as [H1 H2].
  unfold clean_kv in H1. simpl in H1. apply andb_true_iff in H1. destruct H1 as [Hk Hv].
  cbn [map fold_left fst snd]. rewrite split_field by assumption.
  rewrite IH by exact H2. simpl. rewrite <- app_assoc. reflexivity.
Qed.

(* The generic record codec: the field map of a printed field list is the list itself
   (reversed: the last insert is found first). *)
Lemma parse_print_fields : forall fs,
  fs <> [] -> forallb clean_kv fs = true -> parse_fields (print_fields fs) = rev fs.
Proof.
  intros fs N H. unfold parse_fields, print_fields.
  rewrite split_join.
  - rewrite fold_fields by exact H. apply app_nil_r.
  - destruct fs; [congruence|discriminate].
  - rewrite forallb_forall. intros x Hx. apply in_map_iff in Hx. destruct Hx as [[k v] [<- Hin]].
    rewrite forallb_forall in H. specialize (H _ Hin). unfold clean_kv in H. simpl in H.
    apply andb_true_iff in H. destruct H as [Hk Hv].
    apply notin_field; [reflexivity|apply clean_semi, Hk|apply clean_semi, Hv].
Qed.

Lemma clean_print_fields_colon : forall fs,
  forallb clean_kv fs = true -> notin colon (print_fields fs) = true.
Proof.
  intros fs H. unfold print_fields. apply notin_join; [reflexivity|].
  rewrite forallb_forall. intros x Hx. apply in_map_iff in Hx. destruct Hx as [[k v] [<- Hin]].
  rewrite forallb_forall in H. specialize (H _ Hin). unfold clean_kv in H. simpl in H.
  apply andb_true_iff in H. destruct H as [Hk Hv].
  apply notin_field; [reflexivity|apply clean_colon, Hk|apply clean_colon, Hv].
Qed.

(* a printed record splits at its only ':' *)
Lemma record_parts_print : forall ty fs,
  clean ty = true -> forallb clean_kv fs = true ->
  record_parts (print_record ty fs) = POk (ty, print_fields fs).
Proof.
  intros ty fs Ht H. unfold record_parts, print_record.
  rewrite split_app by (apply clean_colon, Ht).
  rewrite split_notin by (apply clean_print_fields_colon, H). reflexivity.
Qed.

(* the generic statement with distinct keys *)
Lemma get_rev_nodup : forall (fs : list (str * str)) k v,
  NoDup (map fst fs) -> In (k, v) fs -> get k (rev fs) = Some v.
Proof.
  induction fs as [|[k0 v0] fs IH]; intros k v ND Hin; [destruct Hin|].
  simpl in ND. inversion ND as [|? ? Hnot ND']; subst.
  simpl. assert (G : forall m1 m2, get k (m1 ++ m2) = match get k m1 with Some x => Some x | None => get k m2 end).
  { induction m1 as [|[a b] m1 IHm]; intro m2; [reflexivity|]. simpl. destruct (str_eqb k a); [reflexivity|apply IHm]. }
  rewrite G. destruct Hin as [E|Hin].
  - inversion E; subst.
    assert (get k (rev fs) = None) as ->.
    { clear -Hnot. assert (forall m, ~ In k (map fst m) -> get k m = None) as Hn.
      { induction m as [|[a b] m IHm]; intro Hm; [reflexivity|]. simpl.
        destruct (str_eqb k a) eqn:E; [apply str_eqb_eq in E; subst; simpl in Hm; tauto|].
        apply IHm. simpl in Hm. tauto. }
      apply Hn. rewrite map_rev. intro Hc. apply in_rev in Hc. tauto. }
    simpl. rewrite str_eqb_refl. reflexivity.
  - rewrite (IH k v ND' Hin). reflexivity.
Qed.

Theorem record_roundtrip : forall ty fs k v,
  fs <> [] -> clean ty = true -> forallb clean_kv fs = true -> NoDup (map fst fs) -> In (k, v) fs ->
  exists body, record_parts (print_record ty fs) = POk (ty, body) /\
               get_field (parse_fields body) k = POk v.
Proof.
  intros ty fs k v N Ht H ND Hin. exists (print_fields fs). split.
  - apply record_parts_print; assumption.
  - unfold get_field. rewrite parse_print_fields by assumption.
    rewrite (get_rev_nodup fs k v ND Hin). reflexivity.
Qed.

(* ------------------------------------------------------------------ bounded enumeration *)

Lemma below_forall : forall (P : N -> bool) k,
  forallb P (map N.of_nat (seq 0 k)) = true -> forall d, d < N.of_nat k -> P d = true.
Proof.
  intros P k H d Hd. rewrite forallb_forall in H. apply H.
  apply in_map_iff. exists (N.to_nat d). split; [apply N2Nat.id|]. apply in_seq. lia.
Qed.

(* ------------------------------------------------------------------ decimal numbers *)

Fixpoint hv (d : Decimal.uint) (acc : N) : N :=
  match d with
  | Decimal.Nil => acc
  | Decimal.D0 r => hv r (acc * 10 + 0)
  | Decimal.D1 r => hv r (acc * 10 + 1)
  | Decimal.D2 r => hv r (acc * 10 + 2)
  | Decimal.D3 r => hv r (acc * 10 + 3)
  | Decimal.D4 r => hv r (acc * 10 + 4)
  | Decimal.D5 r => hv r (acc * 10 + 5)
  | Decimal.D6 r => hv r (acc * 10 + 6)
  | Decimal.D7 r => hv r (acc * 10 + 7)
  | Decimal.D8 r => hv r (acc * 10 + 8)
  | Decimal.D9 r => hv r (acc * 10 + 9)
  end.

Lemma digits_val_chars : forall d acc, digits_val (uint_chars d) acc = Some (hv d acc).
Proof. induction d; intro acc; simpl; try reflexivity; apply IHd. Qed.

Lemma hv_spec : forall d acc,
  hv d acc = Unsigned.of_lu (Decimal.rev d) + acc * 10 ^ Unsigned.usize d.
Proof.
  induction d; intro acc; cbn [hv Unsigned.usize];
    [simpl; rewrite N.pow_0_r; lia | ..];
    rewrite IHd; unfold Decimal.rev; cbn [Decimal.revapp];
    match goal with
    | |- context [Unsigned.of_lu (Decimal.revapp ?x (?c Decimal.Nil))] =>
        rewrite (Unsigned.of_lu_revapp x (c Decimal.Nil))
    end;
    cbn [Unsigned.of_lu]; rewrite N.pow_succ_r'; unfold Decimal.rev; ring.
Qed.

Lemma hv_to_uint : forall n, hv (N.to_uint n) 0 = n.
Proof.
  intro n. rewrite hv_spec. rewrite N.mul_0_l, N.add_0_r.
  rewrite <- Unsigned.of_uint_alt. apply (DecimalN.Unsigned.of_to n).
Qed.

Lemma digits_val_print : forall n, digits_val (print_N n) 0 = Some n.
Proof. intro n. unfold print_N. rewrite digits_val_chars, hv_to_uint. reflexivity. Qed.

Definition is_digit (c : ascii) : bool := (48 <=? code c) && (code c <=? 57).

Lemma uint_chars_digits : forall d, forallb is_digit (uint_chars d) = true.
Proof. induction d; simpl; auto. Qed.

Lemma print_N_digits : forall n, forallb is_digit (print_N n) = true.
Proof. intro. apply uint_chars_digits. Qed.

Lemma to_uint_nonnil : forall n, N.to_uint n <> Decimal.Nil.
Proof. intros [|p]; [discriminate|]. apply Unsigned.to_uint_nonnil. Qed.

Lemma print_N_nonempty : forall n, print_N n <> [].
Proof.
  intro n. unfold print_N. pose proof (to_uint_nonnil n) as H.
  destruct (N.to_uint n); try congruence; discriminate.
Qed.

Lemma digit_okc : forall c, is_digit c = true -> okc c = true.
Proof.
  intros c H. unfold is_digit in H.
  assert (E : c = ascii_of_N (code c)) by (unfold code; symmetry; apply ascii_N_embedding).
  assert (R : code c = 48 \/ code c = 49 \/ code c = 50 \/ code c = 51 \/ code c = 52 \/
              code c = 53 \/ code c = 54 \/ code c = 55 \/ code c = 56 \/ code c = 57) by lia.
  rewrite E. intuition (match goal with H : code c = _ |- _ => rewrite H end; reflexivity).
Qed.

Lemma digits_clean : forall s, forallb is_digit s = true -> clean s = true.
Proof. intro s. apply forallb_imp. exact digit_okc. Qed.

Lemma print_N_clean : forall n, clean (print_N n) = true.
Proof. intro. apply digits_clean, print_N_digits. Qed.

Lemma digit_not : forall c x, is_digit x = false -> is_digit c = true -> Ascii.eqb c x = false.
Proof.
  intros c x Hx Hc. destruct (Ascii.eqb c x) eqn:E; [|reflexivity].
  apply Ascii.eqb_eq in E. subst. congruence.
Qed.

(* <u64 as FromStr> on the decimal text of n *)
Lemma parse_uint_print : forall bound n, n < bound -> parse_uint bound (print_N n) = Some n.
Proof.
  intros bound n H. unfold parse_uint.
  pose proof (print_N_nonempty n) as NE. pose proof (print_N_digits n) as D.
  destruct (print_N n) as [|c t] eqn:E; [congruence|].
  simpl in D. apply andb_true_iff in D. destruct D as [Dc _].
  cbv beta iota zeta. rewrite (digit_not c "+"%char eq_refl Dc). cbv beta iota. cbn [is_empty].
  rewrite <- E, digits_val_print. destruct (N.ltb_spec n bound); [reflexivity|lia].
Qed.

Lemma parse_u64_print : forall n, n < W -> parse_u64 (print_N n) = Some n.
Proof. intros. apply parse_uint_print. assumption. Qed.

Lemma parse_usize_print : forall n, n < W -> parse_usize (print_N n) = Some n.
Proof. intros. apply parse_uint_print. assumption. Qed.

Lemma parse_i64_print : forall z,
  (- Z.of_N I64_LIM <= z < Z.of_N I64_LIM)%Z -> parse_i64 (print_Z z) = Some z.
Proof.
  intros z H. unfold print_Z, parse_i64.
  assert (P : forall n, n < I64_LIM ->
     match print_N n with
     | [] => None
     | c :: t =>
       if Ascii.eqb c "-"%char then
         if is_empty t then None else
         match digits_val t 0 with
         | Some v => if v <=? I64_LIM then Some (- Z.of_N v)%Z else None
         | None => None
         end
       else
         let ds := if Ascii.eqb c "+"%char then t else print_N n in
         if is_empty ds then None else
         match digits_val ds 0 with
         | Some v => if v <? I64_LIM then Some (Z.of_N v) else None
         | None => None
         end
     end = Some (Z.of_N n)).
  { intros n Hn. pose proof (print_N_nonempty n) as NE. pose proof (print_N_digits n) as D.
    destruct (print_N n) as [|c t] eqn:E; [congruence|].
    simpl in D. apply andb_true_iff in D. destruct D as [Dc _].
    rewrite (digit_not c "-"%char eq_refl Dc), (digit_not c "+"%char eq_refl Dc).
    cbv zeta. cbn [is_empty]. rewrite <- E, digits_val_print.
    destruct (N.ltb_spec n I64_LIM); [reflexivity|lia]. }
  destruct z as [|p|p].
  - apply (P 0). reflexivity.
  - apply (P (Npos p)). unfold I64_LIM in *. lia.
  - rewrite Ascii.eqb_refl.
    pose proof (print_N_nonempty (Npos p)) as NE.
    destruct (print_N (Npos p)) eqn:E; [congruence|]. cbn [is_empty]. rewrite <- E.
    rewrite digits_val_print.
    destruct (N.leb_spec (Npos p) I64_LIM); [reflexivity|unfold I64_LIM in *; lia].
Qed.

Lemma print_Z_clean : forall z, clean (print_Z z) = true.
Proof.
  intros [|p|p]; unfold print_Z;
    [apply print_N_clean | apply print_N_clean | rewrite clean_cons, print_N_clean; reflexivity].
Qed.

Lemma print_bool_clean : forall b, clean (print_bool b) = true.
Proof. intros [|]; reflexivity. Qed.

Lemma parse_bool_print : forall b, parse_bool (print_bool b) = Some b.
Proof. intros [|]; reflexivity. Qed.

(* ------------------------------------------------------------------ digits in a base *)

Lemma digits_be_length : forall base k n, length (digits_be base k n) = k.
Proof.
  induction k as [|k IH]; intro n; [reflexivity|]. simpl. rewrite app_length, IH. simpl. lia.
Qed.

Lemma digits_be_bound : forall base k n, base <> 0 ->
  Forall (fun d => d < base) (digits_be base k n).
Proof.
  intros base k. induction k as [|k IH]; intros n Hb; [constructor|]. simpl.
  apply Forall_app. split; [apply IH, Hb|]. constructor; [|constructor].
  apply N.mod_lt, Hb.
Qed.

Lemma horner_app : forall base a b acc, horner base (a ++ b) acc = horner base b (horner base a acc).
Proof. intros. unfold horner. apply fold_left_app. Qed.

Lemma horner_digits : forall base k n, base <> 0 ->
  horner base (digits_be base k n) 0 = n mod base ^ N.of_nat k.
Proof.
  intros base k. induction k as [|k IH]; intros n Hb.
  - simpl. rewrite N.pow_0_r, N.mod_1_r. reflexivity.
  - cbn [digits_be]. rewrite horner_app, IH by exact Hb. unfold horner at 1. cbn [fold_left].
    rewrite Nat2N.inj_succ, N.pow_succ_r'.
    rewrite N.mod_mul_r; [lia|exact Hb|]. apply N.pow_nonzero, Hb.
Qed.

Lemma map_opt_map : forall (A B : Type) (f : A -> B) (g : B -> option A) (P : A -> Prop) l,
  (forall x, P x -> g (f x) = Some x) -> Forall P l -> map_opt g (map f l) = Some l.
Proof.
  intros A B f g P l H. induction 1 as [|x l Hx Hl IH]; [reflexivity|].
  simpl. rewrite (H x Hx), IH. reflexivity.
Qed.

(* ------------------------------------------------------------------ uuid text *)

Lemma hex_rt : forall d, d < 16 -> hex_val (hex_char d) = Some d.
Proof.
  intros d H.
  pose (P := fun d => match hex_val (hex_char d) with Some x => x =? d | None => false end).
  assert (E : P d = true) by (apply (below_forall P 16); [vm_compute; reflexivity|exact H]).
  unfold P in E. destruct (hex_val (hex_char d)); [|discriminate]. f_equal. lia.
Qed.

Lemma hex_okc : forall d, d < 16 -> okc (hex_char d) = true.
Proof. intros d H. apply (below_forall (fun d => okc (hex_char d)) 16); [vm_compute; reflexivity|exact H]. Qed.

Definition hyphenate (h : str) : str :=
  firstn 8 h ++ dash :: firstn 4 (skipn 8 h) ++ dash :: firstn 4 (skipn 12 h) ++ dash ::
  firstn 4 (skipn 16 h) ++ dash :: skipn 20 h.

Lemma parse_hyphenate : forall h, length h = 32%nat ->
  parse_hyphenated (hyphenate h) =
  match map_opt hex_val h with Some ds => Some (horner 16 ds 0) | None => None end.
Proof.
  intros h H.
  do 32 (destruct h as [|? h]; [discriminate|]). destruct h; [|discriminate].
  reflexivity.
Qed.

Lemma hyphenate_length : forall h, length h = 32%nat -> length (hyphenate h) = 36%nat.
Proof.
  intros h H.
  do 32 (destruct h as [|? h]; [discriminate|]). destruct h; [|discriminate].
  reflexivity.
Qed.

Lemma hyphenate_clean : forall h, length h = 32%nat -> clean h = true -> clean (hyphenate h) = true.
Proof.
  intros h H C.
  do 32 (destruct h as [|? h]; [discriminate|]). destruct h; [|discriminate].
  unfold hyphenate. cbn [firstn skipn app]. cbn [clean forallb] in C |- *.
  repeat (apply andb_true_iff in C; destruct C as [? C]).
  repeat match goal with H : okc _ = true |- _ => rewrite H; clear H end. reflexivity.
Qed.

Lemma U128_pow : U128 = 16 ^ N.of_nat 32.
Proof. vm_compute. reflexivity. Qed.

Lemma hexdigits_clean : forall u, clean (map hex_char (digits_be 16 32 u)) = true.
Proof.
  intro u. unfold clean. rewrite forallb_forall. intros x Hx.
  apply in_map_iff in Hx. destruct Hx as [d [<- Hd]].
  apply hex_okc. pose proof (digits_be_bound 16 32 u) as F. rewrite Forall_forall in F.
  apply F; [discriminate|exact Hd].
Qed.

Lemma print_uuid_length : forall u, length (print_uuid u) = 36%nat.
Proof. intro u. apply hyphenate_length. rewrite map_length. apply digits_be_length. Qed.

Lemma print_uuid_clean : forall u, clean (print_uuid u) = true.
Proof.
  intro u. apply hyphenate_clean; [rewrite map_length; apply digits_be_length|apply hexdigits_clean].
Qed.

Theorem parse_print_uuid : forall u, u < U128 -> parse_uuid (print_uuid u) = Some u.
Proof.
  intros u H. unfold parse_uuid. rewrite print_uuid_length. cbn [Nat.eqb].
  change (print_uuid u) with (hyphenate (map hex_char (digits_be 16 32 u))).
  rewrite parse_hyphenate by (rewrite map_length; apply digits_be_length).
  rewrite (map_opt_map _ _ hex_char hex_val (fun d => d < 16)).
  - rewrite horner_digits by discriminate. rewrite <- U128_pow. rewrite N.mod_small by exact H. reflexivity.
  - exact hex_rt.
  - apply digits_be_bound. discriminate.
Qed.

(* ------------------------------------------------------------------ ulid text *)

Lemma b32_rt : forall d, d < 32 -> b32_val (b32_char d) = Some d.
Proof.
  intros d H.
  pose (P := fun d => match b32_val (b32_char d) with Some x => x =? d | None => false end).
  assert (E : P d = true) by (apply (below_forall P 32); [vm_compute; reflexivity|exact H]).
  unfold P in E. destruct (b32_val (b32_char d)); [|discriminate]. f_equal. lia.
Qed.

Lemma b32_okc : forall d, d < 32 -> okc (b32_char d) = true.
Proof. intros d H. apply (below_forall (fun d => okc (b32_char d)) 32); [vm_compute; reflexivity|exact H]. Qed.

Lemma print_ulid_length : forall u, length (print_ulid u) = 26%nat.
Proof. intro. unfold print_ulid. rewrite map_length. apply digits_be_length. Qed.

Lemma print_ulid_clean : forall u, clean (print_ulid u) = true.
Proof.
  intro u. unfold clean, print_ulid. rewrite forallb_forall. intros x Hx.
  apply in_map_iff in Hx. destruct Hx as [d [<- Hd]].
  apply b32_okc. pose proof (digits_be_bound 32 26 u) as F. rewrite Forall_forall in F.
  apply F; [discriminate|exact Hd].
Qed.

Theorem parse_print_ulid : forall u, u < U128 -> parse_ulid (print_ulid u) = Some u.
Proof.
  intros u H. unfold parse_ulid. rewrite print_ulid_length. cbn [Nat.eqb negb].
  unfold print_ulid. rewrite (map_opt_map _ _ b32_char b32_val (fun d => d < 32)).
  - rewrite horner_digits by discriminate.
    assert (E : 32 ^ N.of_nat 26 = 4 * U128) by (vm_compute; reflexivity).
    rewrite E. rewrite (N.mod_small u) by (unfold U128 in *; lia).
    rewrite N.mod_small by exact H. reflexivity.
  - exact b32_rt.
  - apply digits_be_bound. discriminate.
Qed.

(* a string of 26 bytes is never accepted by Uuid::from_str (it wants 32, 36, 38 or 45) *)
Theorem uuid_rejects_26 : forall s, length s = 26%nat -> parse_uuid s = None.
Proof. intros s H. unfold parse_uuid. rewrite H. reflexivity. Qed.

Theorem parse_print_oid : forall k,
  match k with Uuid u | Ulid u => u < U128 end -> parse_oid (print_oid k) = POk k.
Proof.
  intros [u|u] H; unfold parse_oid, print_oid.
  - rewrite parse_print_uuid by exact H. reflexivity.
  - rewrite uuid_rejects_26 by apply print_ulid_length. rewrite parse_print_ulid by exact H. reflexivity.
Qed.

Lemma print_oid_clean : forall k, clean (print_oid k) = true.
Proof. intros [u|u]; [apply print_uuid_clean|apply print_ulid_clean]. Qed.
