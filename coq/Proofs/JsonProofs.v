(* JsonProofs.v — lemmas about Model/Json.v: leaf codecs, of_json ∘ to_json = Some
   for every serde type, print_json / parse_json left inverse, extension and
   fuel lemmas, rejection of proper prefixes. *)
From Coq Require Import Ascii Lia ZifyBool ZifyN.
From Coq Require String DecimalN DecimalFacts.
From PL Require Import Model.Json.
Import String.StringSyntax.
Local Open Scope N_scope.

(* ------------------------------------------------------------------ *)
(* strings *)

Lemma str_eqb_refl a : str_eqb a a = true.
Proof. induction a as [|c a IH]; cbn; [reflexivity|]. now rewrite Ascii.eqb_refl, IH. Qed.

Lemma str_eqb_eq a b : str_eqb a b = true <-> a = b.
Proof.
  split; [|intros ->; apply str_eqb_refl].
  revert b; induction a as [|c a IH]; intros [|d b]; cbn; try discriminate; [reflexivity|].
  intros E. apply andb_prop in E as [E1 E2]. apply Ascii.eqb_eq in E1. apply IH in E2. now subst.
Qed.

(* ------------------------------------------------------------------ *)
(* integers *)

Lemma of_json_uint_jN b n : n < b -> of_json_uint b (jN n) = Some n.
Proof.
  intros L. unfold of_json_uint, jN.
  replace (0 <=? Z.of_N n)%Z with true by lia.
  replace (Z.of_N n <? Z.of_N b)%Z with true by lia.
  cbn [andb]. now rewrite N2Z.id.
Qed.
Lemma of_json_u64_jN n : n < W -> of_json_u64 (jN n) = Some n.
Proof. apply of_json_uint_jN. Qed.
Lemma of_json_u32_jN n : n < W32 -> of_json_u32 (jN n) = Some n.
Proof. apply of_json_uint_jN. Qed.
Lemma of_json_i64_JNum z : (I64_MIN <= z <= I64_MAX)%Z -> of_json_i64 (JNum z) = Some z.
Proof.
  intros [A B]. unfold of_json_i64.
  replace (I64_MIN <=? z)%Z with true by lia. replace (z <=? I64_MAX)%Z with true by lia. reflexivity.
Qed.

Lemma of_json_uint_bound b j n : of_json_uint b j = Some n -> n < b.
Proof.
  destruct j; cbn; try discriminate.
  destruct ((0 <=? n0)%Z && (n0 <? Z.of_N b)%Z) eqn:E; [|discriminate].
  intros [= <-]. lia.
Qed.

(* ------------------------------------------------------------------ *)
(* fixed-width positional text *)

Lemma range_in d k : d < N.of_nat k -> In d (map N.of_nat (seq 0 k)).
Proof.
  intros L. rewrite <- (N2Nat.id d). apply in_map. apply in_seq. lia.
Qed.

Definition digits_ok (al : str) (base : nat) : bool :=
  forallb (fun d => match index_of (digit_of al d) al with Some d' => d' =? d | None => false end)
          (map N.of_nat (seq 0 base)).

Lemma digits_ok_spec al base :
  digits_ok al base = true -> forall d, d < N.of_nat base -> index_of (digit_of al d) al = Some d.
Proof.
  intros Hok d L. unfold digits_ok in Hok. rewrite forallb_forall in Hok.
  specialize (Hok d (range_in _ _ L)).
  destruct (index_of (digit_of al d) al) as [d'|]; [|discriminate].
  apply N.eqb_eq in Hok. now subst.
Qed.

Lemma hex_digits_ok : forall d, d < 16 -> index_of (digit_of hex_al d) hex_al = Some d.
Proof. apply (digits_ok_spec hex_al 16). vm_compute. reflexivity. Qed.
Lemma b32_digits_ok : forall d, d < 32 -> index_of (digit_of b32_al d) b32_al = Some d.
Proof. apply (digits_ok_spec b32_al 32). vm_compute. reflexivity. Qed.

Lemma fixed_length al base k n : length (fixed al base k n) = k.
Proof.
  revert n; induction k as [|k IH]; intros n; cbn [fixed]; [reflexivity|].
  rewrite app_length, IH. cbn. lia.
Qed.

Section Unfixed.
Variables (al : str) (base : N).
Hypothesis base_pos : 0 < base.
Hypothesis dig_ok : forall d, d < base -> index_of (digit_of al d) al = Some d.

Let step := fun (acc : option N) (c : ascii) =>
  match acc, index_of c al with Some a, Some v => Some (a * base + v) | _, _ => None end.

Lemma fold_fixed k : forall n a, n < base ^ N.of_nat k ->
  fold_left step (fixed al base k n) (Some a) = Some (a * base ^ N.of_nat k + n).
Proof.
  induction k as [|k IH]; intros n a L.
  - cbn [fixed fold_left]. rewrite N.pow_0_r in *. f_equal. lia.
  - cbn [fixed]. rewrite fold_left_app.
    rewrite Nat2N.inj_succ, N.pow_succ_r' in *.
    assert (Q : n / base < base ^ N.of_nat k).
    { apply N.div_lt_upper_bound; lia. }
    rewrite (IH _ _ Q). cbn [fold_left]. unfold step at 1.
    rewrite dig_ok by (apply N.mod_lt; lia).
    f_equal. pose proof (N.div_mod n base ltac:(lia)). lia.
Qed.

Lemma unfixed_fixed k n : n < base ^ N.of_nat k -> unfixed al base (fixed al base k n) = Some n.
Proof.
  intros L. unfold unfixed. fold step. rewrite fold_fixed by exact L. f_equal; lia.
Qed.
End Unfixed.

Lemma take_app n a r : length a = n -> take n (a ++ r) = Some (a, r).
Proof.
  revert a; induction n as [|n IH]; intros [|c a] E; cbn in *; try discriminate; [reflexivity|].
  injection E as E. now rewrite (IH _ E).
Qed.

Lemma pow16_32 : 16 ^ N.of_nat 32 = W128. Proof. vm_compute. reflexivity. Qed.
Lemma pow32_26 : W128 <= 32 ^ N.of_nat 26. Proof. vm_compute. discriminate. Qed.

Ltac explode_list h :=
  repeat (destruct h as [|? h]; [discriminate|]); destruct h; [|discriminate].

Lemma print_uuid_length n : length (print_uuid n) = 36%nat.
Proof.
  unfold print_uuid.
  remember (fixed hex_al 16 32 n) as h eqn:E.
  assert (L : length h = 32%nat) by (subst; apply fixed_length).
  clear E. explode_list h. reflexivity.
Qed.

Lemma parse_print_uuid n : n < W128 -> parse_uuid (print_uuid n) = Some n.
Proof.
  intros L. unfold parse_uuid. rewrite print_uuid_length. cbn [Nat.eqb].
  unfold print_uuid.
  remember (fixed hex_al 16 32 n) as h eqn:E.
  assert (Lh : length h = 32%nat) by (subst; apply fixed_length).
  pose proof E as E'. clear E.
  explode_list h.
  cbn -[unfixed hex_al]. rewrite E'.
  apply unfixed_fixed; [lia | exact hex_digits_ok | rewrite pow16_32; exact L].
Qed.

Lemma print_ulid_length n : length (print_ulid n) = 26%nat.
Proof. apply fixed_length. Qed.

Lemma parse_print_ulid n : n < W128 -> parse_ulid (print_ulid n) = Some n.
Proof.
  intros L. unfold parse_ulid. rewrite print_ulid_length. cbn [Nat.eqb].
  unfold print_ulid. rewrite unfixed_fixed; [| lia | exact b32_digits_ok | pose proof pow32_26; lia].
  f_equal. apply N.mod_small. exact L.
Qed.

Lemma parse_uuid_ulid n : parse_uuid (print_ulid n) = None.
Proof. unfold parse_uuid. rewrite print_ulid_length. reflexivity. Qed.

Lemma parse_print_oid o : wf_oid o -> parse_oid (print_oid o) = Some o.
Proof.
  destruct o as [n|n]; cbn [wf_oid print_oid]; intros L; unfold parse_oid.
  - now rewrite parse_print_uuid.
  - now rewrite parse_uuid_ulid, parse_print_ulid.
Qed.

Lemma of_to_json_oid o : wf_oid o -> of_json_oid (to_json_oid o) = Some o.
Proof. apply parse_print_oid. Qed.
Lemma of_to_json_uuid n : n < W128 -> of_json_uuid (to_json_uuid n) = Some n.
Proof. apply parse_print_uuid. Qed.

(* parsed ids are 128-bit *)
Lemma unfixed_bound al base (Hb : 0 < base) :
  (forall c v, index_of c al = Some v -> v < base) ->
  forall s n, unfixed al base s = Some n -> n < base ^ N.of_nat (length s).
Proof.
  intros Hv s. unfold unfixed.
  set (step := fun (acc : option N) (c : ascii) =>
     match acc, index_of c al with Some a, Some v => Some (a * base + v) | _, _ => None end).
  assert (G : forall s a n, fold_left step s (Some a) = Some n ->
              n < (a + 1) * base ^ N.of_nat (length s)).
  { clear s. induction s as [|c s IH]; intros a n E.
    - cbn in E. injection E as <-. cbn [length]. rewrite N.pow_0_r. lia.
    - cbn [fold_left] in E. unfold step at 2 in E.
      destruct (index_of c al) as [v|] eqn:Ev.
      + apply IH in E. specialize (Hv _ _ Ev). cbn [length].
        rewrite Nat2N.inj_succ, N.pow_succ_r'.
        assert (Q : a * base + v + 1 <= (a + 1) * base) by lia.
        apply (N.mul_le_mono_r _ _ (base ^ N.of_nat (length s))) in Q.
        rewrite N.mul_assoc. lia.
      + exfalso. clear -E. induction s as [|c' s IH']; cbn in E; [discriminate|]. apply IH'. exact E. }
  intros n E. apply G in E. lia.
Qed.

(* ------------------------------------------------------------------ *)
(* of_json (to_json v) = Some v *)


Lemma of_to_json_side s : of_json_side (to_json_side s) = Some s.
Proof. destruct s; reflexivity. Qed.
Lemma of_to_json_peg p : of_json_peg (to_json_peg p) = Some p.
Proof. destruct p; reflexivity. Qed.
Lemma of_to_json_tif t : wf_tif t -> of_json_tif (to_json_tif t) = Some t.
Proof.
  destruct t; try reflexivity. cbn [wf_tif]. intros L.
  cbv -[jN of_json_u64]. now rewrite of_json_u64_jN.
Qed.

Ltac leaf :=
  repeat first
    [ rewrite of_to_json_oid by assumption
    | rewrite of_to_json_uuid by assumption
    | rewrite of_json_u64_jN by assumption
    | rewrite of_json_u32_jN by assumption
    | rewrite of_json_i64_JNum by assumption
    | rewrite of_to_json_side
    | rewrite of_to_json_peg
    | rewrite of_to_json_tif by assumption ].

Ltac crunch :=
  cbv -[jN of_json_u64 of_json_u32 of_json_i64 of_json_oid to_json_oid of_json_uuid to_json_uuid
        of_json_side to_json_side of_json_tif to_json_tif of_json_peg to_json_peg
        of_json_list map of_json_order to_json_order of_json_tx to_json_tx
        of_json_txlist to_json_txlist of_json_snapshot to_json_snapshot].

Lemma of_to_json_order o : jwf_order o -> of_json_order (to_json_order o) = Some o.
Proof.
  intros [[Hid [Hp [Hts Htf]]] Hq].
  destruct o as [c q|c v h|c q|c q tr lr|c q off pt|c q|c v h thr amt au]; destruct c as [id p sd ts tf];
    cbn [com c_id c_price c_ts c_tif] in *.
  - unfold of_json_order, to_json_order; crunch. leaf. reflexivity.
  - destruct Hq. unfold of_json_order, to_json_order; crunch. leaf. reflexivity.
  - unfold of_json_order, to_json_order; crunch. leaf. reflexivity.
  - destruct Hq as (?&?&?). unfold of_json_order, to_json_order; crunch. leaf. reflexivity.
  - destruct Hq as (?&?). unfold of_json_order, to_json_order; crunch. leaf. reflexivity.
  - unfold of_json_order, to_json_order; crunch. leaf. reflexivity.
  - destruct Hq as (?&?&?&?). destruct amt. unfold of_json_order, to_json_order; crunch. leaf. reflexivity.
    unfold of_json_order, to_json_order; crunch. leaf. reflexivity.
Qed.

Lemma of_to_json_update u : wf_update u -> of_json_update (to_json_update u) = Some u.
Proof.
  destruct u; cbn [wf_update]; intros Hw.
  - destruct Hw. unfold of_json_update, to_json_update; crunch. leaf. reflexivity.
  - destruct Hw. unfold of_json_update, to_json_update; crunch. leaf. reflexivity.
  - destruct Hw as (?&?&?). unfold of_json_update, to_json_update; crunch. leaf. reflexivity.
  - unfold of_json_update, to_json_update; crunch. leaf. reflexivity.
  - destruct Hw as (?&?&?). unfold of_json_update, to_json_update; crunch. leaf. reflexivity.
Qed.

Lemma of_json_list_map {A} (enc : A -> json) (dec : json -> option A) (P : A -> Prop) :
  (forall a, P a -> dec (enc a) = Some a) ->
  forall l, Forall P l -> of_json_list dec (map enc l) = Some l.
Proof.
  intros Hrt l Hl. induction Hl as [|a l Ha Hl IH]; cbn [map of_json_list]; [reflexivity|].
  now rewrite (Hrt _ Ha), IH.
Qed.

Lemma of_to_json_tx t : wf_jtx t -> of_json_tx (to_json_tx t) = Some t.
Proof.
  destruct t as [i tk mk p q s ts]. unfold wf_jtx. cbn [jt_id jt_taker jt_maker jt_price jt_qty jt_ts].
  intros (?&?&?&?&?&?). unfold of_json_tx, to_json_tx. crunch. leaf. reflexivity.
Qed.

Lemma of_to_json_txlist l : Forall wf_jtx l -> of_json_txlist (to_json_txlist l) = Some l.
Proof.
  intros Hl. unfold of_json_txlist, to_json_txlist. crunch.
  now rewrite (of_json_list_map to_json_tx of_json_tx wf_jtx of_to_json_tx).
Qed.

Lemma of_to_json_result r : wf_jresult r -> of_json_result (to_json_result r) = Some r.
Proof.
  destruct r as [k txs rem c f]. unfold wf_jresult. cbn [jr_taker jr_txs jr_rem jr_filled].
  intros (?&?&?&?). unfold of_json_result, to_json_result. crunch. leaf.
  rewrite of_to_json_txlist by assumption.
  now rewrite (of_json_list_map to_json_oid of_json_oid wf_oid of_to_json_oid).
Qed.

Lemma of_to_json_orders os :
  Forall jwf_order os -> of_json_list of_json_order (map to_json_order os) = Some os.
Proof. apply (of_json_list_map to_json_order of_json_order jwf_order of_to_json_order). Qed.

Lemma of_to_json_data s : wf_snapshot s -> of_json_data (to_json_data s) = Some s.
Proof.
  destruct s as [p v h c os]. unfold wf_snapshot. cbn [sn_price sn_vis sn_hid sn_cnt sn_orders].
  intros (?&?&?&?&?). unfold of_json_data, to_json_data. unfold to_json_snapshot. crunch. leaf.
  now rewrite of_to_json_orders.
Qed.

Lemma of_to_json_snapshot s : wf_snapshot s -> of_json_snapshot (to_json_snapshot s) = Some s.
Proof.
  destruct s as [p v h c os]. unfold wf_snapshot. cbn [sn_price sn_vis sn_hid sn_cnt sn_orders].
  intros (?&?&?&?&?). unfold of_json_snapshot, to_json_snapshot. crunch. leaf.
  now rewrite of_to_json_orders.
Qed.

Lemma of_to_json_level l :
  wf_snapshot (snapshot_of l) ->
  of_json_level (to_json_level l) = Some (from_data (price l) (to_vec (lq l))).
Proof.
  intros Hw. unfold of_json_level, to_json_level. now rewrite of_to_json_data.
Qed.

Lemma of_to_json_queue os :
  Forall jwf_order os -> of_json_queue (to_json_orders os) = Some (from_vec os).
Proof.
  intros Hw. unfold of_json_queue, of_json_orders, to_json_orders, of_json_vec.
  now rewrite of_to_json_orders.
Qed.

Lemma of_to_json_stats now s : wf_jstats s -> of_json_stats now (to_json_stats s) = Some s.
Proof.
  destruct s as [a r e q v l f w]. unfold wf_jstats. cbn [js_added js_removed js_executed js_qty js_value js_last js_first js_wait].
  intros (?&?&?&?&?&?&?&?). unfold of_json_stats, to_json_stats. crunch. leaf. reflexivity.
Qed.

Lemma of_to_json_package p : wf_package p -> of_json_package (to_json_package p) = Some p.
Proof.
  destruct p as [v s c]. unfold wf_package. cbn [p_version p_snap].
  intros (?&?). unfold of_json_package, to_json_package. crunch. leaf.
  now rewrite of_to_json_snapshot.
Qed.

(* ------------------------------------------------------------------ *)
(* decoded values are in machine range *)

Lemma take_inv n s a r : take n s = Some (a, r) -> s = a ++ r /\ length a = n.
Proof.
  revert s a; induction n as [|n IH]; intros s a; cbn [take].
  - intros [= <- <-]. now split.
  - destruct s as [|c s]; [discriminate|]. destruct (take n s) as [[a' r']|] eqn:E; [|discriminate].
    intros [= <- <-]. apply IH in E as [-> <-]. now split.
Qed.
Lemma expect_inv c s r : expect c s = Some r -> s = c :: r.
Proof.
  destruct s as [|x s]; cbn [expect]; [discriminate|]. destruct (Ascii.eqb x c) eqn:E; [|discriminate].
  apply Ascii.eqb_eq in E. now intros [= <-]; subst.
Qed.

Lemma index_of_bound c al v : index_of c al = Some v -> v < N.of_nat (length al).
Proof.
  revert v; induction al as [|x al IH]; intros v; cbn [index_of length]; [discriminate|].
  destruct (Ascii.eqb c x); [intros [= <-]; lia|].
  destruct (index_of c al) as [v'|]; [|discriminate]. cbn. intros [= <-].
  specialize (IH _ eq_refl). lia.
Qed.

Lemma parse_uuid_bound s n : parse_uuid s = Some n -> n < W128.
Proof.
  unfold parse_uuid. destruct (Nat.eqb (length s) 36) eqn:El; [|discriminate].
  apply Nat.eqb_eq in El.
  destruct (take 8 s) as [[a r1]|] eqn:E1; [|discriminate]. apply take_inv in E1 as [-> La].
  destruct (expect dash r1) as [r2|] eqn:E2; [|discriminate]. apply expect_inv in E2 as ->.
  destruct (take 4 r2) as [[b r3]|] eqn:E3; [|discriminate]. apply take_inv in E3 as [-> Lb].
  destruct (expect dash r3) as [r4|] eqn:E4; [|discriminate]. apply expect_inv in E4 as ->.
  destruct (take 4 r4) as [[c r5]|] eqn:E5; [|discriminate]. apply take_inv in E5 as [-> Lc].
  destruct (expect dash r5) as [r6|] eqn:E6; [|discriminate]. apply expect_inv in E6 as ->.
  destruct (take 4 r6) as [[d r7]|] eqn:E7; [|discriminate]. apply take_inv in E7 as [-> Ld].
  destruct (expect dash r7) as [e|] eqn:E8; [|discriminate]. apply expect_inv in E8 as ->.
  intros E. apply (unfixed_bound hex_al 16 ltac:(lia)) in E.
  - repeat (rewrite app_length in El; cbn [length] in El). 
    assert (L : length (a ++ b ++ c ++ d ++ e) = 32%nat) by (rewrite !app_length; lia).
    rewrite L, pow16_32 in E. exact E.
  - intros ch v Hv. apply index_of_bound in Hv. exact Hv.
Qed.

Lemma parse_ulid_bound s n : parse_ulid s = Some n -> n < W128.
Proof.
  unfold parse_ulid. destruct (Nat.eqb (length s) 26); [|discriminate].
  destruct (unfixed b32_al 32 s); [|discriminate]. intros [= <-]. apply N.mod_lt. discriminate.
Qed.

Lemma parse_oid_wf s o : parse_oid s = Some o -> wf_oid o.
Proof.
  unfold parse_oid. destruct (parse_uuid s) eqn:E1.
  - intros [= <-]. now apply parse_uuid_bound in E1.
  - destruct (parse_ulid s) eqn:E2; [|discriminate]. intros [= <-]. now apply parse_ulid_bound in E2.
Qed.
Lemma of_json_oid_wf j o : of_json_oid j = Some o -> wf_oid o.
Proof. destruct j; try discriminate. apply parse_oid_wf. Qed.
Lemma of_json_uuid_wf j n : of_json_uuid j = Some n -> n < W128.
Proof. destruct j; try discriminate. apply parse_uuid_bound. Qed.
Lemma of_json_u64_wf j n : of_json_u64 j = Some n -> n < W.
Proof. apply of_json_uint_bound. Qed.
Lemma of_json_u32_wf j n : of_json_u32 j = Some n -> n < W32.
Proof. apply of_json_uint_bound. Qed.
Lemma of_json_i64_wf j z : of_json_i64 j = Some z -> (I64_MIN <= z <= I64_MAX)%Z.
Proof.
  destruct j; try discriminate. cbn [of_json_i64].
  destruct ((I64_MIN <=? n)%Z && (n <=? I64_MAX)%Z) eqn:E; [|discriminate]. intros [= <-]. lia.
Qed.

Lemma req_inv {A} k (dec : json -> option A) m a : req k dec m = Some a -> exists j, dec j = Some a.
Proof. unfold req. destruct (field k m); try discriminate. eauto. Qed.
Lemma opt_inv {A} k (dec : json -> option A) m a :
  opt k dec m = Some (Some a) -> exists j, dec j = Some a.
Proof.
  unfold opt. destruct (field k m) as [| |v]; try discriminate.
  unfold of_json_option. destruct v; try discriminate;
    match goal with |- option_map _ (dec ?j) = _ -> _ => destruct (dec j) eqn:E; [|discriminate];
                                                    intros [= <-]; eauto end.
Qed.
Lemma dflt_inv {A} k (dec : json -> option A) d m a :
  dflt k dec d m = Some a -> a = d \/ exists j, dec j = Some a.
Proof. unfold dflt. destruct (field k m); try discriminate; [intros [= <-]; now left|eauto]. Qed.

Lemma of_json_list_Forall {A} (dec : json -> option A) (P : A -> Prop) :
  (forall j a, dec j = Some a -> P a) ->
  forall l r, of_json_list dec l = Some r -> Forall P r.
Proof.
  intros Hd l. induction l as [|x l IH]; intros r; cbn [of_json_list].
  - intros [= <-]. constructor.
  - destruct (dec x) eqn:E; [|discriminate]. destruct (of_json_list dec l); [|discriminate].
    intros [= <-]. constructor; [eapply Hd; eassumption | now apply IH].
Qed.
Lemma of_json_vec_Forall {A} (dec : json -> option A) (P : A -> Prop) :
  (forall j a, dec j = Some a -> P a) ->
  forall j r, of_json_vec dec j = Some r -> Forall P r.
Proof. intros Hd j r. destruct j; try discriminate. now apply of_json_list_Forall. Qed.

Lemma of_json_tif_wf j t : of_json_tif j = Some t -> wf_tif t.
Proof.
  unfold of_json_tif. destruct (enum_view j) as [[s|s v]|]; try discriminate.
  - destruct t; cbn; trivial. unfold unit_tif.
    repeat match goal with |- context [if ?b then _ else _] => destruct b end; discriminate.
  - destruct (tag_in s _).
    + destruct (of_json_u64 v) eqn:E; [|discriminate]. intros [= <-]. now apply of_json_u64_wf in E.
    + destruct (of_json_unit v); [|discriminate]. destruct t; cbn; trivial. unfold unit_tif.
      repeat match goal with |- context [if ?b then _ else _] => destruct b end; discriminate.
Qed.

Ltac binds :=
  repeat match goal with
         | |- match ?e with Some _ => _ | None => None end = Some _ -> _ =>
             let E := fresh "E" in destruct e eqn:E; [|discriminate]
         end.

Ltac bound_all :=
  repeat match goal with
         | E : req _ of_json_u64 _ = Some _ |- _ => apply req_inv in E as [? E]; apply of_json_u64_wf in E
         | E : req _ of_json_u32 _ = Some _ |- _ => apply req_inv in E as [? E]; apply of_json_u32_wf in E
         | E : req _ of_json_i64 _ = Some _ |- _ => apply req_inv in E as [? E]; apply of_json_i64_wf in E
         | E : req _ of_json_oid _ = Some _ |- _ => apply req_inv in E as [? E]; apply of_json_oid_wf in E
         | E : req _ of_json_uuid _ = Some _ |- _ => apply req_inv in E as [? E]; apply of_json_uuid_wf in E
         | E : req _ of_json_tif _ = Some _ |- _ => apply req_inv in E as [? E]; apply of_json_tif_wf in E
         | E : opt _ of_json_u64 _ = Some (Some _) |- _ => apply opt_inv in E as [? E]; apply of_json_u64_wf in E
         end.

Lemma of_fields_common_wf m c : of_fields_common m = Some c -> wf_common c.
Proof.
  unfold of_fields_common. binds. intros [= <-]. bound_all. repeat split; assumption.
Qed.

Lemma of_json_order_wf j o : of_json_order j = Some o -> jwf_order o.
Proof.
  unfold of_json_order. destruct (enum_view j) as [[s|s v]|]; try discriminate.
  repeat match goal with |- context [if ?b then _ else _] => destruct b end; try discriminate;
    binds; intros [= <-];
    match goal with E : of_fields_common _ = Some _ |- _ => apply of_fields_common_wf in E end;
    bound_all; (split; [assumption|]); repeat split; try assumption; try lia.
  match goal with |- match ?a with Some _ => _ | None => True end => destruct a end;
    [bound_all; assumption|trivial].
Qed.

Lemma of_json_snapshot_wf j s : of_json_snapshot j = Some s -> wf_snapshot s.
Proof.
  unfold of_json_snapshot. binds. intros [= <-]. bound_all. repeat split; try assumption.
  cbn [sn_orders].
  match goal with E : dflt _ _ _ _ = Some _ |- _ => apply dflt_inv in E as [->|[j' E]] end;
    [constructor|]. eapply of_json_vec_Forall; [apply of_json_order_wf|eassumption].
Qed.

Lemma of_json_data_wf j s : of_json_data j = Some s -> wf_snapshot s.
Proof.
  unfold of_json_data. binds. intros [= <-]. bound_all. repeat split; try assumption.
  cbn [sn_orders].
  match goal with E : req _ (of_json_vec _) _ = Some _ |- _ => apply req_inv in E as [j' E] end.
  eapply of_json_vec_Forall; [apply of_json_order_wf|eassumption].
Qed.

Lemma of_json_package_wf j p : of_json_package j = Some p -> wf_package p.
Proof.
  unfold of_json_package. binds. intros [= <-]. bound_all. split; [assumption|].
  cbn [p_snap].
  match goal with Es : req _ of_json_snapshot _ = Some _ |- _ =>
    apply req_inv in Es as [j' Es]; now apply of_json_snapshot_wf in Es end.
Qed.
