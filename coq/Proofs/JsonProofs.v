(* JsonProofs.v — lemmas about Model/Json.v: leaf codecs, of_json ∘ to_json = Some
   for every serde type, print_json / parse_json left inverse, extension and
   fuel lemmas, rejection of proper prefixes. *)
From Coq Require Import Ascii Lia ZifyBool ZifyN.
From Coq Require String DecimalN DecimalFacts.
From PL Require Import Model.Json.
(* the text-codec proofs, by qualified name only (their wf_oid / print_N ... must not shadow Json's) *)
From PL Require Proofs.TextPrims Proofs.TextRound Proofs.TextTotal.
Import String.StringSyntax.
Local Open Scope N_scope.

(* ------------------------------------------------------------------ *)
(* strings *)

Lemma str_eqb_refl a : str_eqb a a = true.
Proof. induction a as [|c a IH]; cbn; [reflexivity|]. now rewrite Ascii.eqb_refl, IH. Qed.

Lemma str_eqb_eq a b : str_eqb a b = true <-> a = b.
Proof.
  split; [|intros ->; apply str_eqb_refl].
  revert b; induction a as [|c a IH]; intros [|d b]; cbn; try discriminate; [reflexivity|].
  intros E. apply andb_prop in E as [E1 E2]. apply Ascii.eqb_eq in E1. apply IH in E2. now subst.
Qed.

(* ------------------------------------------------------------------ *)
(* integers *)

Lemma of_json_uint_jN b n : n < b -> of_json_uint b (jN n) = Some n.
Proof.
  intros L. unfold of_json_uint, jN.
  replace (0 <=? Z.of_N n)%Z with true by lia.
  replace (Z.of_N n <? Z.of_N b)%Z with true by lia.
  cbn [andb]. now rewrite N2Z.id.
Qed.
Lemma of_json_u64_jN n : n < W -> of_json_u64 (jN n) = Some n.
Proof. apply of_json_uint_jN. Qed.
Lemma of_json_u32_jN n : n < W32 -> of_json_u32 (jN n) = Some n.
Proof. apply of_json_uint_jN. Qed.
Lemma of_json_i64_JNum z : (I64_MIN <= z <= I64_MAX)%Z -> of_json_i64 (JNum z) = Some z.
Proof.
  intros [A B]. unfold of_json_i64.
  replace (I64_MIN <=? z)%Z with true by lia. replace (z <=? I64_MAX)%Z with true by lia. reflexivity.
Qed.

Lemma of_json_uint_bound b j n : of_json_uint b j = Some n -> n < b.
Proof.
  destruct j; cbn; try discriminate.
  destruct ((0 <=? n0)%Z && (n0 <? Z.of_N b)%Z) eqn:E; [|discriminate].
  intros [= <-]. lia.
Qed.

(* ------------------------------------------------------------------ *)
(* lowercase hex digits by position (the checksum text of Snapshot.v) *)

Lemma range_in d k : d < N.of_nat k -> In d (map N.of_nat (seq 0 k)).
Proof.
  intros L. rewrite <- (N2Nat.id d). apply in_map. apply in_seq. lia.
Qed.

Definition digits_ok (al : str) (base : nat) : bool :=
  forallb (fun d => match index_of (digit_of al d) al with Some d' => d' =? d | None => false end)
          (map N.of_nat (seq 0 base)).

Lemma digits_ok_spec al base :
  digits_ok al base = true -> forall d, d < N.of_nat base -> index_of (digit_of al d) al = Some d.
Proof.
  intros Hok d L. unfold digits_ok in Hok. rewrite forallb_forall in Hok.
  specialize (Hok d (range_in _ _ L)).
  destruct (index_of (digit_of al d) al) as [d'|]; [|discriminate].
  apply N.eqb_eq in Hok. now subst.
Qed.

Lemma hex_digits_ok : forall d, d < 16 -> index_of (digit_of hex_al d) hex_al = Some d.
Proof. apply (digits_ok_spec hex_al 16). vm_compute. reflexivity. Qed.

(* ------------------------------------------------------------------ *)
(* id text: the definitions are those of Model/Ids.v / Model/Text.v; the round
   trips are the ones proved for the text codecs (C16), the absence of panics
   is C18's. *)

Lemma W128_U128 : W128 = Ids.U128.
Proof. reflexivity. Qed.

Lemma print_uuid_length n : length (print_uuid n) = 36%nat.
Proof. apply TextPrims.print_uuid_length. Qed.

Lemma parse_print_uuid n : n < W128 -> parse_uuid (print_uuid n) = Some n.
Proof. apply TextPrims.parse_print_uuid. Qed.

Lemma print_ulid_length n : length (print_ulid n) = 26%nat.
Proof. apply TextPrims.print_ulid_length. Qed.

Lemma parse_print_ulid n : n < W128 -> parse_ulid (print_ulid n) = Some n.
Proof. apply TextPrims.parse_print_ulid. Qed.

Lemma parse_uuid_ulid n : parse_uuid (print_ulid n) = None.
Proof. apply TextPrims.uuid_rejects_26, TextPrims.print_ulid_length. Qed.

(* the JSON-side parser in terms of its two halves *)
Lemma parse_oid_unfold s :
  parse_oid s =
  match parse_uuid s with
  | Some n => Some (Uuid n)
  | None => match parse_ulid s with Some n => Some (Ulid n) | None => None end
  end.
Proof.
  unfold parse_oid, Text.parse_oid, parse_uuid, parse_ulid.
  destruct (Ids.parse_uuid s); [reflexivity|]. destruct (Ids.parse_ulid s); reflexivity.
Qed.

Lemma parse_print_oid o : wf_oid o -> parse_oid (print_oid o) = Some o.
Proof.
  intros L. unfold parse_oid, print_oid. rewrite TextRound.rt_oid; [reflexivity|exact L].
Qed.

(* The [PPanic] branch of [opt_of_outcome] is dead for the id parser: on EVERY byte
   string (TextTotal.np_parse_oid; C18_oid states it for the well-formed UTF-8 ones,
   which is what a JSON string is in Rust). *)
Lemma parse_oid_no_panic s : Text.parse_oid s <> Text.PPanic.
Proof. exact (TextTotal.np_parse_oid s). Qed.

Lemma parse_oid_Some s o : parse_oid s = Some o <-> Text.parse_oid s = Text.POk o.
Proof.
  unfold parse_oid. destruct (Text.parse_oid s); cbn [opt_of_outcome]; split; congruence.
Qed.

Lemma parse_oid_None s : parse_oid s = None <-> Text.parse_oid s = Text.PErr.
Proof.
  pose proof (parse_oid_no_panic s) as NP.
  unfold parse_oid. destruct (Text.parse_oid s); cbn [opt_of_outcome]; split; congruence.
Qed.

Lemma of_to_json_oid o : wf_oid o -> of_json_oid (to_json_oid o) = Some o.
Proof. apply parse_print_oid. Qed.
Lemma of_to_json_uuid n : n < W128 -> of_json_uuid (to_json_uuid n) = Some n.
Proof. apply parse_print_uuid. Qed.

(* parsed ids are 128-bit *)
Lemma map_opt_Forall {A B} (f : A -> option B) (P : B -> Prop) :
  (forall a b, f a = Some b -> P b) ->
  forall l r, Ids.map_opt f l = Some r -> Forall P r /\ length r = length l.
Proof.
  intros Hf l. induction l as [|a l IH]; intros r; cbn [Ids.map_opt].
  - intros [= <-]. split; [constructor|reflexivity].
  - destruct (f a) as [b|] eqn:Ea; [|discriminate].
    destruct (Ids.map_opt f l) as [r'|]; [|discriminate]. intros [= <-].
    destruct (IH _ eq_refl) as [F L]. split; [constructor; [eapply Hf; eassumption|exact F]|].
    cbn [length]. now rewrite L.
Qed.

Lemma horner_bound base ds : 0 < base -> Forall (fun d => d < base) ds ->
  forall acc, Ids.horner base ds acc < (acc + 1) * base ^ N.of_nat (length ds).
Proof.
  intros Hb F. unfold Ids.horner. induction F as [|d ds Hd F IH]; intros acc; cbn [fold_left length].
  - rewrite N.pow_0_r. lia.
  - specialize (IH (acc * base + d)). rewrite Nat2N.inj_succ, N.pow_succ_r'.
    assert (Q : acc * base + d + 1 <= (acc + 1) * base) by lia.
    apply (N.mul_le_mono_r _ _ (base ^ N.of_nat (length ds))) in Q.
    rewrite N.mul_assoc. lia.
Qed.

Lemma hex_val_bound c v : Ids.hex_val c = Some v -> v < 16.
Proof.
  unfold Ids.hex_val. set (n := Utf8.code c).
  destruct ((48 <=? n) && (n <=? 57)) eqn:E1; [intros [= <-]; lia|].
  destruct ((97 <=? n) && (n <=? 102)) eqn:E2; [intros [= <-]; lia|].
  destruct ((65 <=? n) && (n <=? 70)) eqn:E3; [intros [= <-]; lia|discriminate].
Qed.

Lemma hex32_bound s ds : length s = 32%nat -> Ids.map_opt Ids.hex_val s = Some ds ->
  Ids.horner 16 ds 0 < W128.
Proof.
  intros L E. destruct (map_opt_Forall _ (fun d => d < 16) hex_val_bound _ _ E) as [F Lr].
  pose proof (horner_bound 16 ds ltac:(lia) F 0) as B.
  rewrite Lr, L in B. change (16 ^ N.of_nat 32) with W128 in B. lia.
Qed.

Lemma parse_simple_bound s n : length s = 32%nat -> Ids.parse_simple s = Some n -> n < W128.
Proof.
  intros L. unfold Ids.parse_simple.
  destruct (Ids.map_opt Ids.hex_val s) as [ds|] eqn:E; [|discriminate].
  intros [= <-]. eapply hex32_bound; eassumption.
Qed.

Lemma parse_hyphenated_bound s n : Ids.parse_hyphenated s = Some n -> n < W128.
Proof.
  unfold Ids.parse_hyphenated. destruct (Nat.eqb (length s) 36) eqn:El; [|discriminate].
  apply Nat.eqb_eq in El. cbn [negb].
  do 36 (destruct s as [|? s]; [discriminate|]). destruct s; [|discriminate]. clear El.
  cbn [firstn skipn app].
  match goal with |- (if ?b then _ else _) = _ -> _ => destruct b; [|discriminate] end.
  match goal with |- match Ids.map_opt _ ?l with _ => _ end = _ -> _ =>
    destruct (Ids.map_opt Ids.hex_val l) as [ds|] eqn:E; [|discriminate] end.
  intros [= <-]. eapply hex32_bound; [|exact E]. reflexivity.
Qed.

Lemma parse_uuid_bound s n : parse_uuid s = Some n -> n < W128.
Proof.
  unfold parse_uuid, Ids.parse_uuid.
  destruct (Nat.eqb (length s) 32) eqn:E32.
  { apply Nat.eqb_eq in E32. now apply parse_simple_bound. }
  destruct (Nat.eqb (length s) 36); [apply parse_hyphenated_bound|].
  destruct (Nat.eqb (length s) 38).
  { destruct s as [|o t]; [discriminate|].
    match goal with |- (if ?b then _ else _) = _ -> _ => destruct b; [|discriminate] end.
    apply parse_hyphenated_bound. }
  destruct (Nat.eqb (length s) 45); [|discriminate].
  destruct (Ids.starts_with Ids.urn_prefix s); [apply parse_hyphenated_bound|discriminate].
Qed.

Lemma parse_ulid_bound s n : parse_ulid s = Some n -> n < W128.
Proof.
  unfold parse_ulid, Ids.parse_ulid. destruct (negb (Nat.eqb (length s) 26)); [discriminate|].
  destruct (Ids.map_opt Ids.b32_val s); [|discriminate]. intros [= <-].
  rewrite W128_U128. apply N.mod_lt. discriminate.
Qed.

(* ------------------------------------------------------------------ *)
(* of_json (to_json v) = Some v *)


Lemma of_to_json_side s : of_json_side (to_json_side s) = Some s.
Proof. destruct s; reflexivity. Qed.
Lemma of_to_json_peg p : of_json_peg (to_json_peg p) = Some p.
Proof. destruct p; reflexivity. Qed.
Lemma of_to_json_tif t : wf_tif t -> of_json_tif (to_json_tif t) = Some t.
Proof.
  destruct t; try reflexivity. cbn [wf_tif]. intros L.
  cbv -[jN of_json_u64]. now rewrite of_json_u64_jN.
Qed.

Ltac leaf :=
  repeat first
    [ rewrite of_to_json_oid by assumption
    | rewrite of_to_json_uuid by assumption
    | rewrite of_json_u64_jN by assumption
    | rewrite of_json_u32_jN by assumption
    | rewrite of_json_i64_JNum by assumption
    | rewrite of_to_json_side
    | rewrite of_to_json_peg
    | rewrite of_to_json_tif by assumption ].

Ltac crunch :=
  cbv -[jN of_json_u64 of_json_u32 of_json_i64 of_json_oid to_json_oid of_json_uuid to_json_uuid
        of_json_side to_json_side of_json_tif to_json_tif of_json_peg to_json_peg
        of_json_list map of_json_order to_json_order of_json_tx to_json_tx
        of_json_txlist to_json_txlist of_json_snapshot to_json_snapshot].

Lemma of_to_json_order o : jwf_order o -> of_json_order (to_json_order o) = Some o.
Proof.
  intros [[Hid [Hp [Hts Htf]]] Hq].
  destruct o as [c q|c v h|c q|c q tr lr|c q off pt|c q|c v h thr amt au]; destruct c as [id p sd ts tf];
    cbn [com c_id c_price c_ts c_tif] in *.
  - unfold of_json_order, to_json_order; crunch. leaf. reflexivity.
  - destruct Hq. unfold of_json_order, to_json_order; crunch. leaf. reflexivity.
  - unfold of_json_order, to_json_order; crunch. leaf. reflexivity.
  - destruct Hq as (?&?&?). unfold of_json_order, to_json_order; crunch. leaf. reflexivity.
  - destruct Hq as (?&?). unfold of_json_order, to_json_order; crunch. leaf. reflexivity.
  - unfold of_json_order, to_json_order; crunch. leaf. reflexivity.
  - destruct Hq as (?&?&?&?). destruct amt. unfold of_json_order, to_json_order; crunch. leaf. reflexivity.
    unfold of_json_order, to_json_order; crunch. leaf. reflexivity.
Qed.

Lemma of_to_json_update u : wf_update u -> of_json_update (to_json_update u) = Some u.
Proof.
  destruct u; cbn [wf_update]; intros Hw.
  - destruct Hw. unfold of_json_update, to_json_update; crunch. leaf. reflexivity.
  - destruct Hw. unfold of_json_update, to_json_update; crunch. leaf. reflexivity.
  - destruct Hw as (?&?&?). unfold of_json_update, to_json_update; crunch. leaf. reflexivity.
  - unfold of_json_update, to_json_update; crunch. leaf. reflexivity.
  - destruct Hw as (?&?&?). unfold of_json_update, to_json_update; crunch. leaf. reflexivity.
Qed.

Lemma of_json_list_map {A} (enc : A -> json) (dec : json -> option A) (P : A -> Prop) :
  (forall a, P a -> dec (enc a) = Some a) ->
  forall l, Forall P l -> of_json_list dec (map enc l) = Some l.
Proof.
  intros Hrt l Hl. induction Hl as [|a l Ha Hl IH]; cbn [map of_json_list]; [reflexivity|].
  now rewrite (Hrt _ Ha), IH.
Qed.

Lemma of_to_json_tx t : wf_jtx t -> of_json_tx (to_json_tx t) = Some t.
Proof.
  destruct t as [i tk mk p q s ts]. unfold wf_jtx. cbn [jt_id jt_taker jt_maker jt_price jt_qty jt_ts].
  intros (?&?&?&?&?&?). unfold of_json_tx, to_json_tx. crunch. leaf. reflexivity.
Qed.

Lemma of_to_json_txlist l : Forall wf_jtx l -> of_json_txlist (to_json_txlist l) = Some l.
Proof.
  intros Hl. unfold of_json_txlist, to_json_txlist. crunch.
  now rewrite (of_json_list_map to_json_tx of_json_tx wf_jtx of_to_json_tx).
Qed.

Lemma of_to_json_result r : wf_jresult r -> of_json_result (to_json_result r) = Some r.
Proof.
  destruct r as [k txs rem c f]. unfold wf_jresult. cbn [jr_taker jr_txs jr_rem jr_filled].
  intros (?&?&?&?). unfold of_json_result, to_json_result. crunch. leaf.
  rewrite of_to_json_txlist by assumption.
  now rewrite (of_json_list_map to_json_oid of_json_oid wf_oid of_to_json_oid).
Qed.

Lemma of_to_json_orders os :
  Forall jwf_order os -> of_json_list of_json_order (map to_json_order os) = Some os.
Proof. apply (of_json_list_map to_json_order of_json_order jwf_order of_to_json_order). Qed.

Lemma of_to_json_data s : wf_snapshot s -> of_json_data (to_json_data s) = Some s.
Proof.
  destruct s as [p v h c os]. unfold wf_snapshot. cbn [sn_price sn_vis sn_hid sn_cnt sn_orders].
  intros (?&?&?&?&?). unfold of_json_data, to_json_data. unfold to_json_snapshot. crunch. leaf.
  now rewrite of_to_json_orders.
Qed.

Lemma of_to_json_snapshot s : wf_snapshot s -> of_json_snapshot (to_json_snapshot s) = Some s.
Proof.
  destruct s as [p v h c os]. unfold wf_snapshot. cbn [sn_price sn_vis sn_hid sn_cnt sn_orders].
  intros (?&?&?&?&?). unfold of_json_snapshot, to_json_snapshot. crunch. leaf.
  now rewrite of_to_json_orders.
Qed.

Lemma of_to_json_level l :
  wf_snapshot (snapshot_of l) ->
  of_json_level (to_json_level l) = Some (from_data (price l) (to_vec (lq l))).
Proof.
  intros Hw. unfold of_json_level, to_json_level. now rewrite of_to_json_data.
Qed.

Lemma of_to_json_queue os :
  Forall jwf_order os -> of_json_queue (to_json_orders os) = Some (from_vec os).
Proof.
  intros Hw. unfold of_json_queue, of_json_orders, to_json_orders, of_json_vec.
  now rewrite of_to_json_orders.
Qed.

Lemma of_to_json_stats now s : wf_jstats s -> of_json_stats now (to_json_stats s) = Some s.
Proof.
  destruct s as [a r e q v l f w]. unfold wf_jstats. cbn [js_added js_removed js_executed js_qty js_value js_last js_first js_wait].
  intros (?&?&?&?&?&?&?&?). unfold of_json_stats, to_json_stats. crunch. leaf. reflexivity.
Qed.

Lemma of_to_json_package p : wf_package p -> of_json_package (to_json_package p) = Some p.
Proof.
  destruct p as [v s c]. unfold wf_package. cbn [p_version p_snap].
  intros (?&?). unfold of_json_package, to_json_package. crunch. leaf.
  now rewrite of_to_json_snapshot.
Qed.

(* ------------------------------------------------------------------ *)
(* decoded values are in machine range *)

Lemma parse_oid_wf s o : parse_oid s = Some o -> wf_oid o.
Proof.
  rewrite parse_oid_unfold. destruct (parse_uuid s) eqn:E1.
  - intros [= <-]. now apply parse_uuid_bound in E1.
  - destruct (parse_ulid s) eqn:E2; [|discriminate]. intros [= <-]. now apply parse_ulid_bound in E2.
Qed.
Lemma of_json_oid_wf j o : of_json_oid j = Some o -> wf_oid o.
Proof. destruct j; try discriminate. apply parse_oid_wf. Qed.
Lemma of_json_uuid_wf j n : of_json_uuid j = Some n -> n < W128.
Proof. destruct j; try discriminate. apply parse_uuid_bound. Qed.
Lemma of_json_u64_wf j n : of_json_u64 j = Some n -> n < W.
Proof. apply of_json_uint_bound. Qed.
Lemma of_json_u32_wf j n : of_json_u32 j = Some n -> n < W32.
Proof. apply of_json_uint_bound. Qed.
Lemma of_json_i64_wf j z : of_json_i64 j = Some z -> (I64_MIN <= z <= I64_MAX)%Z.
Proof.
  destruct j; try discriminate. cbn [of_json_i64].
  destruct ((I64_MIN <=? n)%Z && (n <=? I64_MAX)%Z) eqn:E; [|discriminate]. intros [= <-]. lia.
Qed.

Lemma req_inv {A} k (dec : json -> option A) m a : req k dec m = Some a -> exists j, dec j = Some a.
Proof. unfold req. destruct (field k m); try discriminate. eauto. Qed.
Lemma opt_inv {A} k (dec : json -> option A) m a :
  opt k dec m = Some (Some a) -> exists j, dec j = Some a.
Proof.
  unfold opt. destruct (field k m) as [| |v]; try discriminate.
  unfold of_json_option. destruct v; try discriminate;
    match goal with |- option_map _ (dec ?j) = _ -> _ => destruct (dec j) eqn:E; [|discriminate];
                                                    intros [= <-]; eauto end.
Qed.
Lemma dflt_inv {A} k (dec : json -> option A) d m a :
  dflt k dec d m = Some a -> a = d \/ exists j, dec j = Some a.
Proof. unfold dflt. destruct (field k m); try discriminate; [intros [= <-]; now left|eauto]. Qed.

Lemma of_json_list_Forall {A} (dec : json -> option A) (P : A -> Prop) :
  (forall j a, dec j = Some a -> P a) ->
  forall l r, of_json_list dec l = Some r -> Forall P r.
Proof.
  intros Hd l. induction l as [|x l IH]; intros r; cbn [of_json_list].
  - intros [= <-]. constructor.
  - destruct (dec x) eqn:E; [|discriminate]. destruct (of_json_list dec l); [|discriminate].
    intros [= <-]. constructor; [eapply Hd; eassumption | now apply IH].
Qed.
Lemma of_json_vec_Forall {A} (dec : json -> option A) (P : A -> Prop) :
  (forall j a, dec j = Some a -> P a) ->
  forall j r, of_json_vec dec j = Some r -> Forall P r.
Proof. intros Hd j r. destruct j; try discriminate. now apply of_json_list_Forall. Qed.

Lemma of_json_tif_wf j t : of_json_tif j = Some t -> wf_tif t.
Proof.
  unfold of_json_tif. destruct (enum_view j) as [[s|s v]|]; try discriminate.
  - destruct t; cbn; trivial. unfold unit_tif.
    repeat match goal with |- context [if ?b then _ else _] => destruct b end; discriminate.
  - destruct (tag_in s _).
    + destruct (of_json_u64 v) eqn:E; [|discriminate]. intros [= <-]. now apply of_json_u64_wf in E.
    + destruct (of_json_unit v); [|discriminate]. destruct t; cbn; trivial. unfold unit_tif.
      repeat match goal with |- context [if ?b then _ else _] => destruct b end; discriminate.
Qed.

Ltac binds :=
  repeat match goal with
         | |- match ?e with Some _ => _ | None => None end = Some _ -> _ =>
             let E := fresh "E" in destruct e eqn:E; [|discriminate]
         end.

Ltac bound_all :=
  repeat match goal with
         | E : req _ of_json_u64 _ = Some _ |- _ => apply req_inv in E as [? E]; apply of_json_u64_wf in E
         | E : req _ of_json_u32 _ = Some _ |- _ => apply req_inv in E as [? E]; apply of_json_u32_wf in E
         | E : req _ of_json_i64 _ = Some _ |- _ => apply req_inv in E as [? E]; apply of_json_i64_wf in E
         | E : req _ of_json_oid _ = Some _ |- _ => apply req_inv in E as [? E]; apply of_json_oid_wf in E
         | E : req _ of_json_uuid _ = Some _ |- _ => apply req_inv in E as [? E]; apply of_json_uuid_wf in E
         | E : req _ of_json_tif _ = Some _ |- _ => apply req_inv in E as [? E]; apply of_json_tif_wf in E
         | E : opt _ of_json_u64 _ = Some (Some _) |- _ => apply opt_inv in E as [? E]; apply of_json_u64_wf in E
         end.

Lemma of_fields_common_wf m c : of_fields_common m = Some c -> wf_common c.
Proof.
  unfold of_fields_common. binds. intros [= <-]. bound_all. repeat split; assumption.
Qed.

Lemma of_json_order_wf j o : of_json_order j = Some o -> jwf_order o.
Proof.
  unfold of_json_order. destruct (enum_view j) as [[s|s v]|]; try discriminate.
  repeat match goal with |- context [if ?b then _ else _] => destruct b end; try discriminate;
    binds; intros [= <-];
    match goal with E : of_fields_common _ = Some _ |- _ => apply of_fields_common_wf in E end;
    bound_all; (split; [assumption|]); repeat split; try assumption; try lia.
  match goal with |- match ?a with Some _ => _ | None => True end => destruct a end;
    [bound_all; assumption|trivial].
Qed.

Lemma of_json_snapshot_wf j s : of_json_snapshot j = Some s -> wf_snapshot s.
Proof.
  unfold of_json_snapshot. binds. intros [= <-]. bound_all. repeat split; try assumption.
  cbn [sn_orders].
  match goal with E : dflt _ _ _ _ = Some _ |- _ => apply dflt_inv in E as [->|[j' E]] end;
    [constructor|]. eapply of_json_vec_Forall; [apply of_json_order_wf|eassumption].
Qed.

Lemma of_json_data_wf j s : of_json_data j = Some s -> wf_snapshot s.
Proof.
  unfold of_json_data. binds. intros [= <-]. bound_all. repeat split; try assumption.
  cbn [sn_orders].
  match goal with E : req _ (of_json_vec _) _ = Some _ |- _ => apply req_inv in E as [j' E] end.
  eapply of_json_vec_Forall; [apply of_json_order_wf|eassumption].
Qed.

Lemma of_json_package_wf j p : of_json_package j = Some p -> wf_package p.
Proof.
  unfold of_json_package. binds. intros [= <-]. bound_all. split; [assumption|].
  cbn [p_snap].
  match goal with Es : req _ of_json_snapshot _ = Some _ |- _ =>
    apply req_inv in Es as [j' Es]; now apply of_json_snapshot_wf in Es end.
Qed.
