(* IfaceProofs.v — the boolean checker applied to every match_against answer of the
   implementation in oracle mode (Spec/Iface.v, [i_cons_b]) decides the interface
   [I_cons] (Spec/Hist.v) that the level-level theorems assume. *)
From PL Require Import Model.Order Spec.Iface Spec.Hist Proofs.OrderProofs.
From Coq Require Import Lia ZifyBool ZifyN.
Local Open Scope N_scope.

Lemma oid_eqb_eq a b : oid_eqb a b = true <-> a = b.
Proof.
  destruct a, b; cbn; split; intros H; try discriminate; try (inversion H; subst; apply N.eqb_refl);
    apply N.eqb_eq in H; subst; reflexivity.
Qed.

Lemma side_eqb_eq a b : side_eqb a b = true <-> a = b.
Proof. destruct a, b; cbn; split; intros H; congruence. Qed.

Lemma tif_eqb_eq a b : tif_eqb a b = true <-> a = b.
Proof.
  destruct a, b; cbn; split; intros H; try discriminate; try reflexivity;
    try (inversion H; subst; apply N.eqb_refl).
  apply N.eqb_eq in H; subst; reflexivity.
Qed.

Lemma peg_eqb_eq a b : peg_eqb a b = true <-> a = b.
Proof. destruct a, b; cbn; split; intros H; congruence. Qed.

Lemma common_eqb_eq a b : common_eqb a b = true <-> a = b.
Proof.
  destruct a as [i p s t f], b as [i' p' s' t' f']. unfold common_eqb; cbn. split.
  - intros H. rewrite !andb_true_iff in H. destruct H as ((((H1 & H2) & H3) & H4) & H5).
    apply oid_eqb_eq in H1. apply N.eqb_eq in H2, H4. apply side_eqb_eq in H3. apply tif_eqb_eq in H5.
    subst. reflexivity.
  - intros H. inversion H; subst.
    rewrite (proj2 (oid_eqb_eq i' i') eq_refl), (proj2 (side_eqb_eq s' s') eq_refl),
            (proj2 (tif_eqb_eq f' f') eq_refl), !N.eqb_refl. reflexivity.
Qed.

Lemma option_N_eqb_eq (a b : option N) : option_eqb N.eqb a b = true <-> a = b.
Proof.
  destruct a, b; cbn; split; intros H; try discriminate; try reflexivity.
  - apply N.eqb_eq in H; subst; reflexivity.
  - inversion H; apply N.eqb_refl.
Qed.

Lemma same_identity_b_iff a b : same_identity_b a b = true <-> same_identity a b.
Proof.
  destruct a, b; cbn; try (split; [discriminate | contradiction]).
  - apply common_eqb_eq.
  - apply common_eqb_eq.
  - apply common_eqb_eq.
  - split.
    + intros H. rewrite !andb_true_iff in H. destruct H as ((H1 & H2) & H3).
      apply common_eqb_eq in H1. apply N.eqb_eq in H2, H3. subst. auto.
    + intros (-> & -> & ->). rewrite (proj2 (common_eqb_eq _ _) eq_refl), !N.eqb_refl. reflexivity.
  - split.
    + intros H. rewrite !andb_true_iff in H. destruct H as ((H1 & H2) & H3).
      apply common_eqb_eq in H1. apply Z.eqb_eq in H2. apply peg_eqb_eq in H3. subst. auto.
    + intros (-> & -> & ->). rewrite (proj2 (common_eqb_eq _ _) eq_refl), Z.eqb_refl,
        (proj2 (peg_eqb_eq _ _) eq_refl). reflexivity.
  - apply common_eqb_eq.
  - split.
    + intros H. rewrite !andb_true_iff in H. destruct H as (((H1 & H2) & H3) & H4).
      apply common_eqb_eq in H1. apply N.eqb_eq in H2. apply option_N_eqb_eq in H3.
      apply Bool.eqb_prop in H4. subst. auto.
    + intros (-> & -> & -> & ->). rewrite (proj2 (common_eqb_eq _ _) eq_refl), N.eqb_refl,
        (proj2 (option_N_eqb_eq _ _) eq_refl), Bool.eqb_reflx. reflexivity.
Qed.

(* one answer *)
Lemma i_cons_b_iff o inc r :
  i_cons_b o inc r = true <->
  (m_consumed r = N.min inc (vis o) /\
   m_remaining r = inc - m_consumed r /\
   match m_updated r with
   | Some u => vis u + hid u + m_consumed r = vis o + hid o /\ hid u + m_hidden_reduced r = hid o /\ same_identity o u
   | None => m_hidden_reduced r = 0 /\ vis o <= inc
   end).
Proof.
  unfold i_cons_b. destruct (m_updated r) as [u|].
  - pose proof (same_identity_b_iff o u) as Hs. split.
    + intros H. rewrite !andb_true_iff in H. destruct H as ((H1 & H2) & ((H3 & H4) & H5)).
      apply Hs in H5. repeat split; try lia; assumption.
    + intros (H1 & H2 & H3 & H4 & H5). apply Hs in H5. rewrite H5. lia.
  - split.
    + intros H. rewrite !andb_true_iff in H. destruct H as ((H1 & H2) & (H3 & H4)). repeat split; lia.
    + intros (H1 & H2 & H3 & H4). lia.
Qed.

(* the checker, applied to every answer, is the interface *)
Theorem i_cons_b_decides : forall mf,
  (forall o inc, i_cons_b o inc (mf o inc) = true) <-> I_cons mf.
Proof.
  intros mf. unfold I_cons. split; intros H o inc; specialize (H o inc).
  - apply i_cons_b_iff in H. exact H.
  - apply i_cons_b_iff. exact H.
Qed.

(* in particular the checker never rejects the modelled function *)
Corollary i_cons_b_match_against : forall o inc, i_cons_b o inc (match_against o inc) = true.
Proof.
  apply (proj2 (i_cons_b_decides match_against)). exact match_against_I_cons.
Qed.
