(* OrderClauses.v — C05 clause by clause, stated directly on match_against (the function
   that is diffed against OrderType::match_against), without going through match_spec. *)
From PL Require Import Model.Order.
From Coq Require Import Lia ZifyBool ZifyN.
Local Open Scope N_scope.

Definition rq_of (amt : option N) (h : N) : N :=
  N.min (match amt with Some a => a | None => 80 end) h.

(* iceberg: display exhausted, something hidden -> new tranche min(hidden, old tranche) *)
Lemma iceberg_tranche c v h inc : v <= inc -> 0 < h ->
  let r := N.min h v in
  match_against (Iceberg c v h) inc = mkMres v (Some (Iceberg c r (h - r))) r (inc - v) /\
  r <= v /\ r <= h /\ r + (h - r) = h.
Proof.
  intros Hv Hh r. cbn [match_against].
  destruct (v <=? inc) eqn:E1; [|lia]. destruct (0 <? h) eqn:E2; [|lia].
  subst r. split; [reflexivity|lia].
Qed.

Lemma iceberg_leaves c v inc : v <= inc ->
  match_against (Iceberg c v 0) inc = mkMres v None 0 (inc - v).
Proof.
  intros Hv. cbn [match_against]. destruct (v <=? inc) eqn:E1; [|lia]. reflexivity.
Qed.

Lemma iceberg_partial c v h inc : inc < v ->
  match_against (Iceberg c v h) inc = mkMres inc (Some (Iceberg c (v - inc) h)) 0 0.
Proof.
  intros Hv. cbn [match_against]. destruct (v <=? inc) eqn:E1; [lia|]. reflexivity.
Qed.

(* reserve: display exhausted *)
Lemma reserve_exhausted_replenishes c v h thr amt inc : v <= inc -> 0 < h ->
  let rq := rq_of amt h in
  match_against (Reserve c v h thr amt true) inc
    = mkMres v (Some (Reserve c rq (h - rq) thr amt true)) rq (inc - v) /\
  rq <= h /\ rq + (h - rq) = h.
Proof.
  intros Hv Hh rq. cbn [match_against].
  destruct (v <=? inc) eqn:E1; [|lia]. destruct (0 <? h) eqn:E2; [|lia].
  cbn [andb]. subst rq. unfold rq_of, DEFAULT_RESERVE_REPLENISH_AMOUNT. split; [reflexivity|lia].
Qed.

Lemma reserve_exhausted_leaves c v h thr amt auto inc : v <= inc -> h = 0 \/ auto = false ->
  match_against (Reserve c v h thr amt auto) inc = mkMres v None 0 (inc - v).
Proof.
  intros Hv Hc. cbn [match_against]. destruct (v <=? inc) eqn:E1; [|lia].
  destruct Hc as [->| ->].
  - cbn [N.ltb N.compare andb]. reflexivity.
  - rewrite Bool.andb_false_r. reflexivity.
Qed.

(* reserve: partial fill; replenishes iff auto, something hidden and the rest is below the
   threshold, where threshold 0 counts as 1 *)
Lemma reserve_partial_replenishes c v h thr amt inc : inc < v -> 0 < h ->
  v - inc < N.max thr 1 ->
  let rq := rq_of amt h in
  match_against (Reserve c v h thr amt true) inc
    = mkMres inc (Some (Reserve c (v - inc + rq) (h - rq) thr amt true)) rq 0 /\ rq <= h.
Proof.
  intros Hv Hh Ht rq. cbn [match_against andb].
  destruct (v <=? inc) eqn:E1; [lia|].
  destruct (thr =? 0) eqn:E0.
  - destruct (v - inc <? 1) eqn:E3; [|lia]. destruct (0 <? h) eqn:E2; [|lia].
    cbn [andb]. subst rq. unfold rq_of, DEFAULT_RESERVE_REPLENISH_AMOUNT. split; [reflexivity|lia].
  - destruct (v - inc <? thr) eqn:E3; [|lia]. destruct (0 <? h) eqn:E2; [|lia].
    cbn [andb]. subst rq. unfold rq_of, DEFAULT_RESERVE_REPLENISH_AMOUNT. split; [reflexivity|lia].
Qed.

Lemma reserve_partial_shrinks c v h thr amt auto inc : inc < v ->
  h = 0 \/ auto = false \/ N.max thr 1 <= v - inc ->
  match_against (Reserve c v h thr amt auto) inc
    = mkMres inc (Some (Reserve c (v - inc) h thr amt auto)) 0 0.
Proof.
  intros Hv Hc. cbn [match_against].
  destruct (v <=? inc) eqn:E1; [lia|].
  destruct Hc as [->|[->|Ht]].
  - cbn [N.ltb N.compare]. rewrite Bool.andb_false_r. reflexivity.
  - rewrite !Bool.andb_false_r. reflexivity.
  - destruct auto; [|rewrite !Bool.andb_false_r; reflexivity].
    cbn [andb]. destruct (thr =? 0) eqn:E0.
    + destruct (v - inc <? 1) eqn:E3; [lia|]. reflexivity.
    + destruct (v - inc <? thr) eqn:E3; [lia|]. reflexivity.
Qed.

(* every other type: nothing hidden, shrinks, leaves when filled, parameters untouched *)
Definition plain (o : order) : bool :=
  match o with Iceberg _ _ _ | Reserve _ _ _ _ _ _ => false | _ => true end.

Lemma plain_rule o inc : plain o = true ->
  hid o = 0 /\
  (vis o <= inc -> match_against o inc = mkMres (vis o) None 0 (inc - vis o)) /\
  (inc < vis o -> exists u,
     match_against o inc = mkMres inc (Some u) 0 0 /\
     vis u = vis o - inc /\ hid u = 0 /\ same_identity o u /\ plain u = true).
Proof.
  destruct o as [c q|c v h|c q|c q t l|c q off p|c q|c v h thr amt au]; cbn [plain]; intros Hp;
    try discriminate; cbn [hid vis match_against with_reduced_quantity];
    (split; [reflexivity|]); split; intros Hq.
  all: destruct (q <=? inc) eqn:E1; try lia; try reflexivity.
  all: eexists; split; [reflexivity|]; cbn [vis hid same_identity plain]; repeat split; reflexivity.
Qed.

Lemma reserve_cases_exhaustive (v h thr : N) (auto : bool) (inc : N) :
    (v <= inc /\ 0 < h /\ auto = true) \/ (v <= inc /\ (h = 0 \/ auto = false)) \/
    (inc < v /\ 0 < h /\ auto = true /\ v - inc < N.max thr 1) \/
    (inc < v /\ (h = 0 \/ auto = false \/ N.max thr 1 <= v - inc)).
Proof. destruct auto; lia. Qed.
