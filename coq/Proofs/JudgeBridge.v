(* JudgeBridge.v — the extracted judges of C06 / C07 / C15 accept exactly what the
   property theorems prove of the model: "theorem => named Prop <=> checker".
   The property theorems are used here BY NAME (Properties/C06.v, C07.v, C15.v, required
   without import), so that the chain really starts at the statements the checks cite.
   Listings handed to a judge are arbitrary permutations of the resting orders (the
   implementation's listing is sorted by timestamp with ties in hash order). *)
From PL Require Import Model.Level Spec.Hist Spec.StatsSpec Spec.LedgerSpec Spec.Judges
  Proofs.BaseLemmas Proofs.UpdBase Proofs.UpdateProofs Proofs.JudgeProofs.
From PL Require Properties.C06 Properties.C07 Properties.C15.
From Coq Require Import Lia ZifyBool ZifyN.
Local Open Scope N_scope.

(* ================================================================== *)
(* C06                                                                 *)

Theorem exhaust_judge_sound_wf mf :
  I_cons mf ->
  forall fuel l g qty taker l' g' r before after,
    WfQueue (lq l) ->
    match_order mf fuel l g qty taker = Some (l', g', r) ->
    Permutation before (resting l) -> Permutation after (resting l') ->
    exhaust_b qty before after (executed_quantity r) (r_remaining r) = true.
Proof.
  intros Hc fuel l g qty taker l' g' r before after Hwf Hm Pb Pa.
  apply exhaust_b_iff.
  apply (Exhausts_of_conclusions qty (resting l) (resting l') _ _ before after Pb Pa).
  - exact (C06.C06_lower_wf mf Hc fuel l g qty taker l' g' r Hwf Hm).
  - exact (C06.C06_exhausts mf Hc fuel l g qty taker l' g' r Hwf Hm).
Qed.

(* with the hypotheses of C06_lower as stated (level invariant, 64-bit request) *)
Theorem exhaust_judge_sound mf :
  I_cons mf ->
  forall fuel l g qty taker l' g' r before after,
    Inv l -> qty < W ->
    match_order mf fuel l g qty taker = Some (l', g', r) ->
    Permutation before (resting l) -> Permutation after (resting l') ->
    exhaust_b qty before after (executed_quantity r) (r_remaining r) = true.
Proof.
  intros Hc fuel l g qty taker l' g' r before after HI Hq Hm Pb Pa.
  apply exhaust_b_iff.
  apply (Exhausts_of_conclusions qty (resting l) (resting l') _ _ before after Pb Pa).
  - exact (C06.C06_lower mf Hc fuel l g qty taker l' g' r HI Hq Hm).
  - destruct HI as (_ & Hwf & _).
    exact (C06.C06_exhausts mf Hc fuel l g qty taker l' g' r Hwf Hm).
Qed.

(* ================================================================== *)
(* C15                                                                 *)

Theorem stats_judge_sound mf :
  I_id mf ->
  forall p g0 ops l g outs,
    steps mf (new_level p, g0) ops (l, g) outs -> no_rebuild ops = true ->
    all_added_at p ops ->
    stats_b p (combine ops outs)
            (s_added (st l)) (s_removed (st l)) (s_qty (st l)) (s_value (st l)) = true.
Proof.
  intros Hid p g0 ops l g outs Hs Hn Hall.
  pose proof (C15.C15_stats_mod mf Hid p g0 ops l g outs Hs Hn) as Hmod. cbv zeta in Hmod.
  destruct Hmod as (_ & Ha & Hr & Hq & Hv & Hp).
  apply stats_b_iff. apply StatsAgree_of_conclusions; try assumption.
  rewrite (Hv (fun _ => p)). f_equal. rewrite N.mul_comm.
  apply C15.C15_value_executed_const; [reflexivity|].
  intros o x Hin. apply Hall. exact (in_combine_l _ _ _ _ Hin).
Qed.

(* histories with rebuilds: from C15_across_rebuilds_mod *)
Theorem stats_rebuild_judge_sound mf :
  I_id mf ->
  forall p g0 ops l g outs,
    steps mf (new_level p, g0) ops (l, g) outs ->
    all_added_at p ops ->
    stats_rebuild_b p (combine ops outs)
            (s_added (st l)) (s_removed (st l)) (s_qty (st l)) (s_value (st l)) = true.
Proof.
  intros Hid p g0 ops l g outs Hs Hall.
  pose proof (C15.C15_across_rebuilds_mod mf Hid p g0 ops l g outs Hs) as Hmod. cbv zeta in Hmod.
  destruct Hmod as (_ & Ha & Hr & Hq & _ & Hv & Hp).
  apply stats_rebuild_b_iff. apply StatsAgreeR_of_conclusions; try assumption.
  exact (Hv Hall).
Qed.

(* ================================================================== *)
(* C07                                                                 *)

Lemma classify_reject l u :
  classify (price l) u = UReject -> exists k, u = UpdatePrice k (price l).
Proof.
  destruct u as [k np|k nq|k np nq|k|k np nq s]; cbn [classify]; try discriminate;
    destruct (N.eqb_spec np (price l)) as [->|Hne]; try discriminate.
  intros _. exists k. reflexivity.
Qed.

Lemma classify_takeout l u :
  classify (price l) u = UTakeOut -> takes_out l (upd_key u) u.
Proof.
  destruct u as [k np|k nq|k np nq|k|k np nq s]; cbn [classify upd_key]; try discriminate;
    try (destruct (N.eqb_spec np (price l)) as [->|Hne]; try discriminate);
    intros _; constructor; assumption.
Qed.

Lemma classify_amend l u nq :
  classify (price l) u = UAmend nq -> amends l (upd_key u) nq u.
Proof.
  destruct u as [k np|k q|k np q|k|k np q s]; cbn [classify upd_key]; try discriminate;
    try (destruct (N.eqb_spec np (price l)) as [->|Hne]; try discriminate);
    intros H; inversion H; subst; constructor.
Qed.

(* what C07 proves of update_order, read on the book itself *)
Lemma update_ok_resting l u l' r :
  update_order l u = (l', r) ->
  UpdateOk (price l) (resting l) u r (resting l') /\
  UpdateCounts (price l) (resting l) u (cvis l) (chid l) (ccnt l) (cvis l') (chid l') (ccnt l').
Proof.
  intros H. unfold UpdateOk, UpdateCounts. cbv zeta.
  destruct (classify (price l) u) as [| |nq] eqn:C.
  - destruct (classify_reject l u C) as [k ->].
    rewrite C07.C07_update_price_same_rejected in H. inversion H; subst l' r.
    split; [split; [reflexivity|intros j; reflexivity]|].
    repeat split.
  - pose proof (classify_takeout l u C) as T.
    destruct (lookup (upd_key u) (resting l)) as [o|] eqn:E.
    + destruct (C07.C07_remove_present l _ u o l' r T E H)
        as (Hr & Hnone & Hframe & _ & _ & Hcv & Hch & Hcc & _).
      split; [split; [exact Hr|split; [exact Hnone|exact Hframe]]|].
      repeat split; assumption.
    + destruct (C07.C07_remove_absent l _ u l' r T E H) as [Hr ->].
      split; [split; [exact Hr|intros j; reflexivity]|]. repeat split.
  - pose proof (classify_amend l u nq C) as A.
    destruct (lookup (upd_key u) (resting l)) as [o|] eqn:E.
    + pose proof (C07.C07_amend_present l _ nq u o l' r A E H) as HA. cbv zeta in HA.
      destruct HA as (Hr & Hnew & _ & _ & _ & Hframe & _ & _ & Hcv & _ & Hch & Hcc & _).
      split; [split; [exact Hr|split; [exact Hnew|exact Hframe]]|].
      repeat split; assumption.
    + destruct (C07.C07_amend_absent l _ nq u l' r A E H) as [Hr ->].
      split; [split; [exact Hr|intros j; reflexivity]|]. repeat split.
Qed.

Lemma take_out_NoDup l k l' r :
  NoDup (ids (resting l)) -> take_out l k = (l', r) -> NoDup (ids (resting l')).
Proof.
  unfold take_out, resting. intros ND H.
  destruct (qremove (lq l) k) as [[o|] q'] eqn:E; inversion H; subst; cbn [lq];
    [exact (qremove_NoDup _ _ _ _ ND E)|exact ND].
Qed.

Lemma amend_NoDup l k nq l' r :
  NoDup (ids (resting l)) -> amend l k nq = (l', r) -> NoDup (ids (resting l')).
Proof.
  unfold amend, resting. intros ND H.
  destruct (qfind (lq l) k); [|inversion H; subst; exact ND].
  destruct (qremove (lq l) k) as [[old|] q'] eqn:E; inversion H; subst; cbn [lq];
    [apply push_NoDup; exact (qremove_NoDup _ _ _ _ ND E)|exact ND].
Qed.

Lemma update_order_NoDup l u l' r :
  NoDup (ids (resting l)) -> update_order l u = (l', r) -> NoDup (ids (resting l')).
Proof.
  intros ND. destruct u as [k np|k nq|k np nq|k|k np nq s]; cbn [update_order];
    try destruct (np =? price l); intros H;
    try (inversion H; subst; exact ND);
    try exact (take_out_NoDup _ _ _ _ ND H); exact (amend_NoDup _ _ _ _ _ ND H).
Qed.

Theorem update_judge_sound l u l' r before after :
  NoDup (ids (resting l)) ->
  update_order l u = (l', r) ->
  Permutation before (resting l) -> Permutation after (resting l') ->
  update_ok_b (price l) before u r after = true /\
  update_counts_b (price l) before u (cvis l) (chid l) (ccnt l) (cvis l') (chid l') (ccnt l') = true.
Proof.
  intros ND H Pb Pa.
  pose proof (update_order_NoDup l u l' r ND H) as ND'.
  pose proof (perm_same_book before (resting l) ND Pb) as Sb.
  pose proof (perm_same_book after (resting l') ND' Pa) as Sa.
  destruct (update_ok_resting l u l' r H) as [Hok Hcnt].
  split.
  - apply update_ok_b_iff. exact (UpdateOk_same_book _ _ _ _ _ _ _ Sb Sa Hok).
  - apply update_counts_b_iff. exact (UpdateCounts_same_book _ _ _ _ _ _ _ _ _ _ Sb Hcnt).
Qed.

(* in every reachable state the uniqueness hypothesis holds (C07_reachable_NoDup) *)
Corollary update_judge_sound_reachable mf l g u l' r before after :
  reachable mf (l, g) ->
  update_order l u = (l', r) ->
  Permutation before (resting l) -> Permutation after (resting l') ->
  update_ok_b (price l) before u r after = true /\
  update_counts_b (price l) before u (cvis l) (chid l) (ccnt l) (cvis l') (chid l') (ccnt l') = true.
Proof.
  intros Hr. exact (update_judge_sound l u l' r before after (C07.C07_reachable_NoDup mf (l, g) Hr)).
Qed.
