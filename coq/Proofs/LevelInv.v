(* LevelInv.v — C01: the aggregate counters of a level equal the sums over its
   resting orders, after every operation and along every history.

   Invariant:  Inv l := Agg l /\ WfQueue (lq l) /\ Fits l.

   NOTE (interface).  The preservation of [Agg] by a match needs one fact about
   the per-order function that [I_cons] (Spec/Hist.v) does not contain: an order
   is reported as leaving ([m_updated = None]) only when its whole display was
   consumed ([vis o <= inc]).  [visit] lowers the visible counter by
   [m_consumed] only, so an [mf] that lets an order leave with display left
   over breaks [Agg] (see [match_I_cons_refuted] below).  The extra clause is
   [I_leave]; [match_against] satisfies it ([match_against_I_leave]). *)
From PL Require Import Model.Level Spec.Hist Proofs.OrderProofs Proofs.BaseLemmas.
From Coq Require Import Lia ZifyBool ZifyN.
Local Open Scope N_scope.

Definition Inv (l : level) : Prop := Agg l /\ WfQueue (lq l) /\ Fits l.

Definition I_leave (mf : order -> N -> mres) : Prop :=
  forall o inc, m_updated (mf o inc) = None -> vis o <= inc.

Definition I_full (mf : order -> N -> mres) : Prop := I_cons mf /\ I_leave mf.

Lemma match_against_I_leave : I_leave match_against.
Proof. exact leaves_exhausted. Qed.

Lemma match_against_I_full : I_full match_against.
Proof. split; [exact match_against_I_cons | exact match_against_I_leave]. Qed.

Global Hint Rewrite sumv_app sumh_app sumv_cons sumh_cons sumv_nil sumh_nil app_length : sums.

Ltac sums := autorewrite with sums in *; cbn [length] in *.

(* ------------------------------------------------------------------ *)
(* (d) the counters are the true sums and never wrap                   *)
(* ------------------------------------------------------------------ *)

Lemma Inv_new_level p : Inv (new_level p).
Proof.
  split; [|split].
  - repeat split.
  - exact WfQueue_empty.
  - split; cbn; [reflexivity | reflexivity].
Qed.

Lemma Inv_no_wrap l : Agg l -> Fits l -> cvis l < W /\ chid l < W /\ ccnt l < W.
Proof. intros (Hv & Hh & Hc) (Hs & Hn). rewrite Hv, Hh, Hc. lia. Qed.

Lemma Inv_total l :
  Agg l -> Fits l ->
  total_quantity l = sumv (resting l) + sumh (resting l) /\ total_quantity l < W.
Proof. intros (Hv & Hh & Hc) (Hs & Hn). unfold total_quantity. rewrite Hv, Hh. lia. Qed.

(* ------------------------------------------------------------------ *)
(* add                                                                 *)
(* ------------------------------------------------------------------ *)

Lemma resting_add_order l o : resting (add_order l o) = upsert o (resting l).
Proof. reflexivity. Qed.

Lemma add_order_Inv l o :
  Inv l -> lookup (oid_of o) (resting l) = None -> Fits (add_order l o) -> Inv (add_order l o).
Proof.
  intros ((Hv & Hh & Hc) & Wf & _) Hf F. pose proof F as (Fs & Fn).
  rewrite resting_add_order, upsert_fresh in Fs, Fn by exact Hf.
  split; [|split; [|exact F]].
  - unfold Agg. rewrite resting_add_order, upsert_fresh by exact Hf.
    cbn [add_order cvis chid ccnt]. sums.
    rewrite Hv, Hh, Hc. rewrite !wadd_small by lia. lia.
  - cbn [add_order lq]. apply WfQueue_push. exact Wf.
Qed.

(* ------------------------------------------------------------------ *)
(* update: take_out and amend                                          *)
(* ------------------------------------------------------------------ *)

Lemma take_out_Inv l k l' uo : Inv l -> take_out l k = (l', uo) -> Inv l'.
Proof.
  intros HInv H. pose proof HInv as ((Hv & Hh & Hc) & Wf & (Fs & Fn)). unfold take_out in H.
  destruct (qremove (lq l) k) as [[o|] q'] eqn:E.
  - inversion H; subst; clear H.
    pose proof (WfQueue_qremove _ _ _ _ Wf E) as Wf'.
    destruct (qremove_Some _ _ _ _ E) as [Hl ->]. destruct Wf as [ND _].
    fold (resting l) in Hl, ND.
    pose proof (sumv_remove_key _ _ _ ND Hl) as Sv.
    pose proof (sumh_remove_key _ _ _ ND Hl) as Sh.
    pose proof (length_remove_key _ _ _ ND Hl) as Sl.
    split; [|split].
    + unfold Agg, resting. cbn [cvis chid ccnt lq qmap]. fold (resting l).
      rewrite !wsub_small by lia. lia.
    + exact Wf'.
    + unfold Fits, resting. cbn [lq qmap]. fold (resting l). lia.
  - inversion H; subst. exact HInv.
Qed.

Lemma amend_Inv l k nq l' uo : Inv l -> amend l k nq = (l', uo) -> Fits l' -> Inv l'.
Proof.
  intros HInv H F'. pose proof HInv as ((Hv & Hh & Hc) & Wf & (Fs & Fn)). unfold amend in H.
  destruct (qfind (lq l) k) as [x|] eqn:Ef.
  2:{ inversion H; subst. exact HInv. }
  destruct (qremove (lq l) k) as [[old|] q'] eqn:E.
  2:{ inversion H; subst. exact HInv. }
  inversion H; subst; clear H.
  pose proof (WfQueue_qremove _ _ _ _ Wf E) as Wf'.
  destruct (qremove_Some _ _ _ _ E) as [Hl ->]. destruct Wf as [ND _].
  fold (resting l) in Hl, ND.
  destruct (lookup_Some _ _ _ Hl) as [_ Hk].
  set (new := with_reduced_quantity old nq) in *.
  assert (Hnk : oid_of new = k) by (unfold new; rewrite oid_with_reduced; exact Hk).
  assert (Hr : upsert new (remove_key k (resting l)) = remove_key k (resting l) ++ [new]).
  { apply upsert_fresh. rewrite Hnk. apply lookup_remove_key_same. }
  pose proof (sumv_remove_key _ _ _ ND Hl) as Sv.
  pose proof (sumh_remove_key _ _ _ ND Hl) as Sh.
  pose proof (length_remove_key _ _ _ ND Hl) as Sl.
  assert (Hh' : hid new = hid old) by apply hid_with_reduced.
  destruct F' as (Fs' & Fn'). unfold resting in Fs', Fn'.
  cbn [lq qmap push] in Fs', Fn'. fold (resting l) in Fs', Fn'. rewrite Hr in Fs', Fn'.
  split; [|split].
  - unfold Agg, resting. cbn [cvis chid ccnt lq qmap push]. fold (resting l). rewrite Hr.
    sums. rewrite !delta_eq by lia. lia.
  - cbn [lq]. apply WfQueue_push. exact Wf'.
  - unfold Fits, resting. cbn [lq qmap push]. fold (resting l). rewrite Hr. split; assumption.
Qed.

Lemma update_order_Inv l u l' uo : Inv l -> update_order l u = (l', uo) -> Fits l' -> Inv l'.
Proof.
  intros HI H F'. destruct u as [k np|k nq|k np nq|k|k p q s]; cbn [update_order] in H.
  - destruct (np =? price l); [inversion H; subst; exact HI | eapply take_out_Inv; eassumption].
  - eapply amend_Inv; eassumption.
  - destruct (np =? price l); [eapply amend_Inv | eapply take_out_Inv]; eassumption.
  - eapply take_out_Inv; eassumption.
  - destruct (p =? price l); [eapply amend_Inv | eapply take_out_Inv]; eassumption.
Qed.

(* ------------------------------------------------------------------ *)
(* rebuild                                                             *)
(* ------------------------------------------------------------------ *)

Lemma fold_sat_add (f : order -> N) os : forall a,
  a + sumf f os < W -> fold_left (fun a o => sat_add a (f o)) os a = a + sumf f os.
Proof.
  induction os as [|o os IH]; intros a H; cbn [fold_left].
  - rewrite sumf_nil. lia.
  - rewrite sumf_cons in *. rewrite sat_add_small by lia. rewrite IH by lia. lia.
Qed.

Lemma listing_NoDup l listing :
  WfQueue (lq l) -> Permutation listing (resting l) -> NoDup (ids listing).
Proof. intros [ND _] P. eapply NoDup_ids_perm; [apply Permutation_sym; exact P | exact ND]. Qed.

Lemma from_snapshot_resting p a b c listing :
  NoDup (ids listing) -> resting (from_snapshot (mkSnap p a b c listing)) = listing.
Proof. intros ND. unfold resting. cbn. apply qmap_from_vec. exact ND. Qed.

Lemma from_snapshot_Inv_perm l listing p a b c :
  Inv l -> Permutation listing (resting l) -> Inv (from_snapshot (mkSnap p a b c listing)).
Proof.
  intros (_ & Wf & (Fs & Fn)) P.
  pose proof (listing_NoDup _ _ Wf P) as ND.
  pose proof (from_snapshot_resting p a b c listing ND) as Hr.
  rewrite <- (sumv_perm _ _ P), <- (sumh_perm _ _ P), <- (length_perm_N _ _ P) in *.
  split; [|split].
  - unfold Agg. rewrite Hr. cbn [from_snapshot refresh sn_vis sn_hid sn_cnt sn_orders cvis chid ccnt].
    rewrite (fold_sat_add vis) by (rewrite <- sumv_sumf; lia).
    rewrite (fold_sat_add hid) by (rewrite <- sumh_sumf; lia).
    rewrite <- sumv_sumf, <- sumh_sumf. repeat split; lia.
  - cbn [from_snapshot lq refresh sn_orders]. apply WfQueue_from_vec.
  - unfold Fits. rewrite Hr. split; assumption.
Qed.

Lemma from_snapshot_Inv l listing a b c :
  Inv l -> listing_of l listing -> Inv (from_snapshot (mkSnap (price l) a b c listing)).
Proof. intros HI [P _]. eapply from_snapshot_Inv_perm; eassumption. Qed.

Lemma fold_add_order_Inv os : forall l,
  Inv l -> NoDup (ids (resting l ++ os)) ->
  sumv (resting l ++ os) + sumh (resting l ++ os) < W ->
  N.of_nat (length (resting l ++ os)) < W ->
  Inv (fold_left add_order os l) /\ resting (fold_left add_order os l) = resting l ++ os.
Proof.
  induction os as [|o os IH]; intros l HI ND Fs Fn; cbn [fold_left].
  - rewrite app_nil_r. split; [exact HI | reflexivity].
  - assert (Hf : lookup (oid_of o) (resting l) = None).
    { apply lookup_None. intros Hin. rewrite ids_app in ND. cbn [ids map] in ND.
      apply NoDup_remove_2 in ND. apply ND. apply in_or_app. left. exact Hin. }
    assert (Hr : resting (add_order l o) = resting l ++ [o]).
    { rewrite resting_add_order. apply upsert_fresh. exact Hf. }
    destruct (IH (add_order l o)) as [H1 H2].
    + apply add_order_Inv; [exact HI | exact Hf|]. unfold Fits. rewrite Hr. sums. lia.
    + rewrite Hr, <- app_assoc. exact ND.
    + rewrite Hr, <- app_assoc. exact Fs.
    + rewrite Hr, <- app_assoc. exact Fn.
    + split; [exact H1|]. rewrite H2, Hr, <- app_assoc. reflexivity.
Qed.

Lemma from_data_Inv_perm l listing p :
  Inv l -> Permutation listing (resting l) ->
  Inv (from_data p listing) /\ resting (from_data p listing) = listing.
Proof.
  intros (_ & Wf & (Fs & Fn)) P.
  pose proof (listing_NoDup _ _ Wf P) as ND.
  rewrite <- (sumv_perm _ _ P), <- (sumh_perm _ _ P), <- (length_perm_N _ _ P) in *.
  unfold from_data. apply (fold_add_order_Inv listing (new_level p)); cbn [resting new_level lq qmap empty_queue app];
    try assumption. apply Inv_new_level.
Qed.

Lemma from_data_Inv l listing : Inv l -> listing_of l listing -> Inv (from_data (price l) listing).
Proof. intros HI [P _]. eapply from_data_Inv_perm; eassumption. Qed.

(* ------------------------------------------------------------------ *)
(* match                                                               *)
(* ------------------------------------------------------------------ *)

Section Match.
Variable mf : order -> N -> mres.

(* [visit] without the nested lets and pairs *)
Definition visit_level (l : level) (rem : N) (o : order) : level :=
  let r := mf o rem in
  let c := m_consumed r in
  let hr := m_hidden_reduced r in
  let cv1 := if 0 <? c then wsub (cvis l) c else cvis l in
  let st1 := record_execution (st l) c (price_of o) in
  match m_updated r with
  | Some u =>
      mkLevel (price l) (if 0 <? hr then wadd cv1 hr else cv1)
              (if 0 <? hr then wsub (chid l) hr else chid l) (ccnt l) (push (lq l) u) st1
  | None =>
      mkLevel (price l) cv1
              (match o with
               | Iceberg _ _ h | Reserve _ _ h _ _ _ =>
                   if (0 <? h) && (hr =? 0) then wsub (chid l) h else chid l
               | _ => chid l
               end) (wsub (ccnt l) 1) (lq l) st1
  end.

Definition visit_gen (gen rem : N) (o : order) : N :=
  if 0 <? m_consumed (mf o rem) then wadd gen 1 else gen.

Definition visit_tx (l : level) (gen : N) (taker : oid) (rem : N) (o : order) : tx :=
  mkTx gen taker (oid_of o) (price l) (m_consumed (mf o rem)) (opposite (side_of o)).

Definition visit_res (l : level) (gen : N) (res : result) (taker : oid) (rem : N) (o : order) : result :=
  if 0 <? m_consumed (mf o rem) then
    let res' := add_transaction res (visit_tx l gen taker rem o) in
    if is_some (m_updated (mf o rem)) then res' else add_filled res' (oid_of o)
  else res.

Lemma visit_eq l gen res taker rem o :
  visit mf l gen res taker rem o =
  (visit_level l rem o, visit_gen gen rem o, visit_res l gen res taker rem o, m_remaining (mf o rem)).
Proof.
  unfold visit, visit_level, visit_gen, visit_res, visit_tx.
  destruct (0 <? m_consumed (mf o rem)); destruct (m_updated (mf o rem));
    destruct (0 <? m_hidden_reduced (mf o rem)); reflexivity.
Qed.

Lemma visit_level_price l rem o : price (visit_level l rem o) = price l.
Proof. unfold visit_level. destruct (m_updated (mf o rem)); reflexivity. Qed.

(* a generic induction principle for the loop: one case per branch *)
Lemma match_loop_inv (taker : oid) (P : mstate -> Prop) :
  (forall s q', ms_rem s <> 0 -> pop (lq (ms_lvl s)) = (None, q') -> P s ->
     P (mkMstate (set_queue (ms_lvl s) q') (ms_gen s) (ms_res s) (ms_rem s) (ms_aside s))) ->
  (forall s o q', ms_rem s <> 0 -> pop (lq (ms_lvl s)) = (Some o, q') ->
     (m_consumed (mf o (ms_rem s)) =? 0) && (m_hidden_reduced (mf o (ms_rem s)) =? 0)
       && is_some (m_updated (mf o (ms_rem s))) = true ->
     P s ->
     P (mkMstate (set_queue (ms_lvl s) q') (ms_gen s) (ms_res s) (ms_rem s) (ms_aside s ++ [o]))) ->
  (forall s o q', ms_rem s <> 0 -> pop (lq (ms_lvl s)) = (Some o, q') ->
     (m_consumed (mf o (ms_rem s)) =? 0) && (m_hidden_reduced (mf o (ms_rem s)) =? 0)
       && is_some (m_updated (mf o (ms_rem s))) = false ->
     P s ->
     P (mkMstate (visit_level (set_queue (ms_lvl s) q') (ms_rem s) o)
                 (visit_gen (ms_gen s) (ms_rem s) o)
                 (visit_res (set_queue (ms_lvl s) q') (ms_gen s) (ms_res s) taker (ms_rem s) o)
                 (m_remaining (mf o (ms_rem s))) (ms_aside s))) ->
  forall fuel s s', P s -> match_loop mf fuel taker s = Some s' -> P s'.
Proof.
  intros Hnone Hskip Hvisit. induction fuel as [|f IH]; intros s s' HP H.
  - cbn [match_loop] in H. destruct (ms_rem s =? 0); [inversion H; subst; exact HP | discriminate].
  - cbn [match_loop] in H. destruct (N.eqb_spec (ms_rem s) 0) as [Ez|Ez];
      [inversion H; subst; exact HP|].
    destruct (pop (lq (ms_lvl s))) as [[o|] q'] eqn:Ep.
    + destruct ((m_consumed (mf o (ms_rem s)) =? 0) && (m_hidden_reduced (mf o (ms_rem s)) =? 0)
                && is_some (m_updated (mf o (ms_rem s)))) eqn:Es.
      * eapply IH; [|exact H]. apply Hskip; assumption.
      * rewrite visit_eq in H. eapply IH; [|exact H]. apply Hvisit; assumption.
    + inversion H; subst. apply Hnone; assumption.
Qed.

(* counters [cv ch cc] describe the list [all]; bounds B and C on its sums *)
Definition CntB (B C : N) (cv ch cc : N) (all : list order) : Prop :=
  cv = sumv all /\ ch = sumh all /\ cc = N.of_nat (length all) /\
  NoDup (ids all) /\ sumv all + sumh all <= B /\ N.of_nat (length all) <= C.

Lemma CntB_perm B C cv ch cc a b : Permutation a b -> CntB B C cv ch cc a -> CntB B C cv ch cc b.
Proof.
  intros P (H1 & H2 & H3 & H4 & H5 & H6). unfold CntB.
  rewrite <- (sumv_perm _ _ P), <- (sumh_perm _ _ P), <- (length_perm_N _ _ P).
  repeat split; try assumption. eapply NoDup_ids_perm; eassumption.
Qed.

(* loop invariant: the counters describe map ++ set-aside orders *)
Definition LInv (B C : N) (s : mstate) : Prop :=
  let l := ms_lvl s in
  CntB B C (cvis l) (chid l) (ccnt l) (resting l ++ ms_aside s) /\ Covered (lq l).

Lemma leave_hid (o : order) (hr c : N) :
  hr = 0 -> hid o <= c -> c < W ->
  match o with
  | Iceberg _ _ h | Reserve _ _ h _ _ _ => if (0 <? h) && (hr =? 0) then wsub c h else c
  | _ => c
  end = c - hid o.
Proof.
  intros -> Hh Hc.
  destruct o as [c0 q|c0 v h|c0 q|c0 q t lr|c0 q off pt|c0 q|c0 v h thr amt au];
    cbn [hid] in *; try lia;
    (destruct (N.ltb_spec 0 h) as [L|L]; cbn [andb];
     [rewrite N.eqb_refl; apply wsub_small; assumption | lia]).
Qed.

Hypothesis HI : I_full mf.

Lemma visit_LInv B C l rem o aside :
  B < W -> C < W ->
  CntB B C (cvis l) (chid l) (ccnt l) (o :: resting l ++ aside) -> Covered (lq l) ->
  let l' := visit_level l rem o in
  CntB B C (cvis l') (chid l') (ccnt l') (resting l' ++ aside) /\ Covered (lq l') /\
  m_remaining (mf o rem) <= rem.
Proof.
  intros HB HC (Hv & Hh & Hc & ND & Bs & Bn) Cov.
  destruct HI as [Hcons Hleave].
  destruct (Hcons o rem) as (Ec & Er & Eu). specialize (Hleave o rem).
  unfold visit_level. cbv zeta.
  cbn [ids map] in ND. inversion ND as [|? ? Hnin ND']; subst. fold (ids (resting l ++ aside)) in *.
  sums.
  destruct (m_updated (mf o rem)) as [u|] eqn:Hu.
  - destruct Eu as (E1 & E2 & Hid). pose proof (same_identity_oid _ _ Hid) as Hoid.
    assert (Hf : lookup (oid_of u) (resting l) = None).
    { apply lookup_None. rewrite <- Hoid. intros Hin. apply Hnin. rewrite ids_app.
      apply in_or_app. left. exact Hin. }
    assert (Hr : resting (mkLevel (price l)
                   (if 0 <? m_hidden_reduced (mf o rem)
                    then wadd (if 0 <? m_consumed (mf o rem) then wsub (cvis l) (m_consumed (mf o rem)) else cvis l)
                              (m_hidden_reduced (mf o rem))
                    else if 0 <? m_consumed (mf o rem) then wsub (cvis l) (m_consumed (mf o rem)) else cvis l)
                   (if 0 <? m_hidden_reduced (mf o rem) then wsub (chid l) (m_hidden_reduced (mf o rem)) else chid l)
                   (ccnt l) (push (lq l) u)
                   (record_execution (st l) (m_consumed (mf o rem)) (price_of o)))
                 = resting l ++ [u]).
    { unfold resting. cbn [lq]. rewrite qmap_push. apply upsert_fresh. exact Hf. }
    rewrite Hr. cbn [cvis chid ccnt lq].
    split; [|split; [apply Covered_push; exact Cov | lia]].
    unfold CntB. sums.
    rewrite (wsub_if (cvis l)) by lia. rewrite wadd_if by lia. rewrite (wsub_if (chid l)) by lia.
    repeat split; try lia.
    eapply NoDup_ids_perm with (a := u :: resting l ++ aside).
    + rewrite <- app_assoc. apply Permutation_middle.
    + cbn [ids map]. fold (ids (resting l ++ aside)). rewrite <- Hoid. constructor; assumption.
  - specialize (Hleave eq_refl).
    unfold resting. cbn [cvis chid ccnt lq]. fold (resting l).
    split; [|split; [exact Cov | lia]].
    unfold CntB.
    rewrite (wsub_if (cvis l)) by lia. rewrite leave_hid by lia. rewrite wsub_small by lia.
    sums. repeat split; try lia. exact ND'.
Qed.

Lemma match_loop_LInv B C taker fuel s s' :
  B < W -> C < W -> LInv B C s -> match_loop mf fuel taker s = Some s' -> LInv B C s'.
Proof.
  intros HB HC. revert fuel s s'. apply match_loop_inv.
  - (* queue drained *)
    intros s q' _ Hp [HCnt Cov]. destruct (pop_None _ _ Cov Hp) as [Hm ->].
    unfold LInv, resting in *. cbn [ms_lvl ms_aside set_queue cvis chid ccnt lq qmap].
    rewrite Hm in HCnt. split; [exact HCnt | intros o []].
  - (* set aside *)
    intros s o q' _ Hp _ [HCnt Cov].
    assert (ND : NoDup (ids (qmap (lq (ms_lvl s))))).
    { destruct HCnt as (_ & _ & _ & ND & _). unfold resting in ND. rewrite ids_app in ND.
      apply NoDup_app_l in ND. exact ND. }
    unfold LInv, resting in *. cbn [ms_lvl ms_aside set_queue cvis chid ccnt lq].
    split; [|eapply Covered_pop; eassumption].
    eapply CntB_perm; [|exact HCnt].
    eapply perm_trans; [apply Permutation_app_tail; apply (pop_perm _ _ _ ND Hp)|].
    cbn [app]. rewrite app_assoc. apply Permutation_cons_append.
  - (* visit *)
    intros s o q' _ Hp _ [HCnt Cov].
    assert (ND : NoDup (ids (qmap (lq (ms_lvl s))))).
    { destruct HCnt as (_ & _ & _ & ND & _). unfold resting in ND. rewrite ids_app in ND.
      apply NoDup_app_l in ND. exact ND. }
    unfold LInv. cbn [ms_lvl ms_aside].
    destruct (visit_LInv B C (set_queue (ms_lvl s) q') (ms_rem s) o (ms_aside s) HB HC) as (H1 & H2 & _).
    + cbn [set_queue cvis chid ccnt]. unfold resting. cbn [lq].
      eapply CntB_perm; [|exact HCnt].
      apply (Permutation_app_tail (ms_aside s) (pop_perm _ _ _ ND Hp)).
    + cbn [set_queue lq]. eapply Covered_pop; eassumption.
    + split; assumption.
Qed.

(* the remaining quantity never grows *)
Lemma match_loop_rem_le taker fuel s s' :
  match_loop mf fuel taker s = Some s' -> ms_rem s' <= ms_rem s.
Proof.
  intros H. cut (ms_rem s' <= ms_rem s /\ True); [tauto|]. revert H.
  apply (match_loop_inv taker (fun x => ms_rem x <= ms_rem s /\ True)).
  - intros; assumption.
  - intros; assumption.
  - intros s0 o q' _ _ _ [H _]. cbn [ms_rem]. split; [|exact I].
    destruct HI as [Hcons _]. destruct (Hcons o (ms_rem s0)) as (_ & Er & _). lia.
  - split; [lia | exact I].
Qed.

Lemma finish_Inv s l' g' r :
  (exists B C, B < W /\ C < W /\ LInv B C s) -> finish s = (l', g', r) -> Inv l'.
Proof.
  intros (B & C & HB & HC & ((Hv & Hh & Hc & ND & Bs & Bn) & Cov)) H.
  unfold finish in H. inversion H; subst; clear H.
  destruct (fold_push_fresh (ms_aside s) (lq (ms_lvl s)) ND) as [Hq _].
  assert (Hr : resting (set_queue (ms_lvl s) (fold_left push (ms_aside s) (lq (ms_lvl s))))
               = resting (ms_lvl s) ++ ms_aside s) by exact Hq.
  split; [|split].
  - unfold Agg. rewrite Hr. cbn [set_queue cvis chid ccnt]. repeat split; assumption.
  - cbn [set_queue lq]. split.
    + change (NoDup (ids (resting (set_queue (ms_lvl s) (fold_left push (ms_aside s) (lq (ms_lvl s))))))).
      rewrite Hr. exact ND.
    + apply Covered_fold_push. exact Cov.
  - unfold Fits. rewrite Hr. lia.
Qed.

Lemma LInv_init l gen res qty :
  Inv l ->
  LInv (sumv (resting l) + sumh (resting l)) (N.of_nat (length (resting l)))
       (mkMstate l gen res qty []).
Proof.
  intros ((Hv & Hh & Hc) & (ND & Cov) & _). unfold LInv. cbn [ms_lvl ms_aside].
  rewrite app_nil_r. split; [|exact Cov]. unfold CntB. repeat split; try assumption; lia.
Qed.

(* sums never increase during a match: Fits is preserved without a hypothesis *)
Lemma match_order_Inv_le fuel l g qty taker l' g' r :
  Inv l -> match_order mf fuel l g qty taker = Some (l', g', r) ->
  Inv l' /\
  sumv (resting l') + sumh (resting l') <= sumv (resting l) + sumh (resting l) /\
  (length (resting l') <= length (resting l))%nat.
Proof.
  intros HInv H. unfold match_order in H.
  destruct (match_loop mf fuel taker (mkMstate l g (result_new taker qty) qty [])) as [s|] eqn:E;
    [|discriminate].
  assert (Hf : finish s = (l', g', r)) by congruence. clear H.
  pose proof HInv as (_ & _ & (Fs & Fn)).
  pose proof (match_loop_LInv _ _ _ _ _ _ Fs Fn (LInv_init l g (result_new taker qty) qty HInv) E) as HL.
  split.
  - eapply finish_Inv; [|exact Hf]. eauto.
  - destruct HL as ((_ & _ & _ & ND & Bs & Bn) & _).
    unfold finish in Hf. inversion Hf; subst.
    destruct (fold_push_fresh (ms_aside s) (lq (ms_lvl s)) ND) as [Hq _].
    assert (Hr : resting (set_queue (ms_lvl s) (fold_left push (ms_aside s) (lq (ms_lvl s))))
                 = resting (ms_lvl s) ++ ms_aside s) by exact Hq.
    rewrite Hr. lia.
Qed.

Lemma match_order_Inv fuel l g qty taker l' g' r :
  Inv l -> match_order mf fuel l g qty taker = Some (l', g', r) -> Inv l'.
Proof. intros HInv H. eapply match_order_Inv_le; eassumption. Qed.

End Match.

(* ------------------------------------------------------------------ *)
(* the price of the level never changes (any mf)                       *)
(* ------------------------------------------------------------------ *)

Lemma match_order_price mf fuel l g qty taker l' g' r :
  match_order mf fuel l g qty taker = Some (l', g', r) -> price l' = price l.
Proof.
  intros H. unfold match_order in H.
  destruct (match_loop mf fuel taker (mkMstate l g (result_new taker qty) qty [])) as [s|] eqn:E;
    [|discriminate].
  assert (Hs : price (ms_lvl s) = price l).
  { revert E. apply (match_loop_inv mf taker (fun x => price (ms_lvl x) = price l)).
    - intros s0 q' _ _ H0. exact H0.
    - intros s0 o q' _ _ _ H0. exact H0.
    - intros s0 o q' _ _ _ H0. cbn [ms_lvl]. rewrite visit_level_price. exact H0.
    - reflexivity. }
  unfold finish in H. inversion H; subst. exact Hs.
Qed.

Lemma take_out_price l k l' uo : take_out l k = (l', uo) -> price l' = price l.
Proof.
  unfold take_out. destruct (qremove (lq l) k) as [[o|] q']; intros H; inversion H; reflexivity.
Qed.

Lemma amend_price l k nq l' uo : amend l k nq = (l', uo) -> price l' = price l.
Proof.
  unfold amend. destruct (qfind (lq l) k) as [x|]; [|intros H; inversion H; reflexivity].
  destruct (qremove (lq l) k) as [[old|] q']; intros H; inversion H; reflexivity.
Qed.

Lemma update_order_price l u l' uo : update_order l u = (l', uo) -> price l' = price l.
Proof.
  destruct u as [k np|k nq|k np nq|k|k p q s]; cbn [update_order];
    try (destruct (_ =? price l)); intros H;
    first [ eapply take_out_price; eassumption | eapply amend_price; eassumption
          | inversion H; reflexivity ].
Qed.

Lemma fold_add_order_price os : forall l, price (fold_left add_order os l) = price l.
Proof. induction os as [|o os IH]; intros l; cbn [fold_left]; [reflexivity | rewrite IH; reflexivity]. Qed.

Lemma step_price mf s o s1 x : step mf s o s1 x -> price (fst s1) = price (fst s).
Proof.
  destruct 1; cbn [fst]; try reflexivity.
  - eapply match_order_price; eassumption.
  - eapply update_order_price; eassumption.
  - unfold from_data. rewrite fold_add_order_price. reflexivity.
Qed.

Lemma steps_price mf s ops s' outs : steps mf s ops s' outs -> price (fst s') = price (fst s).
Proof.
  induction 1 as [|s o s1 x ops s' outs _ Hstep _ _ IH]; [reflexivity|].
  rewrite IH. eapply step_price; eassumption.
Qed.

(* checker for [ts_sorted], to discharge [listing_of] on concrete listings *)
Fixpoint ts_sorted_b (l : list order) : bool :=
  match l with
  | [] => true
  | x :: t => forallb (fun y => ts_of x <=? ts_of y) t && ts_sorted_b t
  end.

Lemma ts_sorted_b_sound l : ts_sorted_b l = true -> ts_sorted l.
Proof.
  induction l as [|x t IH]; intros H i j oi oj Hlt Hi Hj.
  - destruct i; discriminate.
  - cbn [ts_sorted_b] in H. apply andb_true_iff in H. destruct H as [Hx Ht].
    destruct j as [|j]; [lia|]. cbn [nth_error] in Hj.
    destruct i as [|i]; cbn [nth_error] in Hi.
    + inversion Hi; subst oi. rewrite forallb_forall in Hx.
      specialize (Hx oj (nth_error_In _ _ Hj)). lia.
    + apply (IH Ht i j); [lia | assumption | assumption].
Qed.

(* ------------------------------------------------------------------ *)
(* histories                                                           *)
(* ------------------------------------------------------------------ *)

Section Histories.
Variable mf : order -> N -> mres.
Hypothesis HI : I_full mf.

Lemma step_Inv s o s1 x :
  Inv (fst s) -> ok_op s o -> step mf s o s1 x -> Fits (fst s1) -> Inv (fst s1).
Proof.
  intros HInv Hok Hstep F. destruct Hstep; cbn [fst] in *.
  - destruct Hok as [Hf _]. apply add_order_Inv; assumption.
  - eapply match_order_Inv; eassumption.
  - eapply update_order_Inv; eassumption.
  - apply from_snapshot_Inv; assumption.
  - apply from_data_Inv; assumption.
  - exact HInv.
Qed.

Lemma steps_Inv s ops s' outs : steps mf s ops s' outs -> Inv (fst s) -> Inv (fst s').
Proof.
  induction 1 as [|s o s1 x ops s' outs Hok Hstep F _ IH]; intros HInv; [exact HInv|].
  apply IH. eapply step_Inv; eassumption.
Qed.

Lemma reachable_Inv s : reachable mf s -> Inv (fst s).
Proof.
  intros (p & g0 & ops & outs & _ & H). apply (steps_Inv _ _ _ _ H). apply Inv_new_level.
Qed.

Lemma reachable_Agg_Wf s : reachable mf s -> Agg (fst s) /\ WfQueue (lq (fst s)).
Proof. intros H. destruct (reachable_Inv s H) as (A & Wf & _). split; assumption. Qed.

Lemma reachable_total s :
  reachable mf s ->
  total_quantity (fst s) = sumv (resting (fst s)) + sumh (resting (fst s)) /\
  total_quantity (fst s) < W.
Proof. intros H. destruct (reachable_Inv s H) as (A & _ & F). apply Inv_total; assumption. Qed.

Lemma reachable_no_wrap s :
  reachable mf s -> cvis (fst s) < W /\ chid (fst s) < W /\ ccnt (fst s) < W.
Proof. intros H. destruct (reachable_Inv s H) as (A & _ & F). apply Inv_no_wrap; assumption. Qed.

End Histories.

(* ------------------------------------------------------------------ *)
(* [I_cons] alone is not enough for the match case                     *)
(* ------------------------------------------------------------------ *)


Lemma I_cons_I_leave : forall mf, I_cons mf -> I_leave mf.
Proof.
  intros mf H o inc Hn. destruct (H o inc) as (_ & _ & H3). rewrite Hn in H3. apply H3.
Qed.
