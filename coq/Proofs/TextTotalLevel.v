(* TextTotalLevel.v — C18 for PriceLevel::from_str. *)
From PL Require Import Model.Text Proofs.TextUtf8 Proofs.TextPrims Proofs.TextTotal.
From Coq Require Import Lia ZifyBool ZifyN.
Local Open Scope N_scope.

(* ------------------------------------------------------------------ PriceLevel *)

Lemma lvl_scan_inv : forall op rest i depth last acc,
  utf8_valid op = true ->
  skipn i op = rest ->
  is_char_boundary op last = true -> (last <= i)%nat -> (i <= length op)%nat ->
  (Z.abs depth + Z.of_nat (length rest) < LIM)%Z ->
  match lvl_scan op rest i depth last acc with
  | POk (_, l) => is_char_boundary op l = true /\ (l <= length op)%nat
  | PErr => True
  | PPanic => False
  end.
Proof.
  intros op rest. induction rest as [|c r IH]; intros i depth last acc Hv Hs Hb Hl Hi Hd.
  - simpl. split; [exact Hb|lia].
  - destruct (skipn_cons_inv op i c r Hs) as [Hn [Hs' Hlt]].
    cbn [lvl_scan]. cbn [length] in Hd.
    destruct (Ascii.eqb c "("%char || Ascii.eqb c lbr).
    { rewrite i32_inc_ok by lia. cbn [bind]. apply IH; auto; lia. }
    destruct (Ascii.eqb c ")"%char || Ascii.eqb c rbr).
    { rewrite i32_dec_ok by lia. cbn [bind]. apply IH; auto; lia. }
    destruct (Ascii.eqb c comma) eqn:Ec; cbn [andb].
    + apply Ascii.eqb_eq in Ec. subst c.
      destruct (depth =? 0)%Z.
      * rewrite slice_o_ok; [|lia|lia|exact Hb|eapply bnd_nth; eauto].
        cbn [bind].
        destruct (parse_order _) eqn:Ep; cbn [bind]; [|exact I|exact (np_inv _ _ (np_parse_order _) Ep)].
        apply IH; auto; try lia. eapply bnd_S_nth; eauto.
      * apply IH; auto; lia.
    + apply IH; auto; lia.
Qed.

Lemma get_good : forall n k (m : smap) v,
  Forall (fun kv => good n (snd kv)) m -> get k m = Some v -> good n v.
Proof.
  intros n k m v H. induction H as [|[a b] m Hx Hm IH]; [discriminate|].
  simpl. destruct (str_eqb k a); [intro E; inversion E; subst; exact Hx|exact IH].
Qed.

Lemma fold_parts_good : forall n parts m0,
  Forall (good n) parts -> Forall (fun kv => good n (snd kv)) m0 ->
  Forall (fun kv => good n (snd kv))
    (fold_left (fun m part => match splitn2 eq_c part with
                              | (k, Some v) => (k, v) :: m
                              | (_, None) => m
                              end) parts m0).
Proof.
  intros n parts. induction parts as [|p parts IH]; intros m0 Hp Hm; [exact Hm|].
  inversion Hp as [|? ? Hg Hrest]; subst. cbn [fold_left]. apply IH; [exact Hrest|].
  destruct (splitn2 eq_c p) as [k [v|]] eqn:E; [|exact Hm].
  constructor; [|exact Hm]. simpl. eapply good_splitn2; eauto. reflexivity.
Qed.

Lemma Forall_filter : forall (A : Type) (P : A -> Prop) f l, Forall P l -> Forall P (filter f l).
Proof.
  intros A P f l H. induction H as [|x l Hx Hl IH]; [constructor|].
  simpl. destruct (f x); [constructor; assumption|assumption].
Qed.

Lemma find_char_ge : forall c p t i,
  starts_with p t = true -> notin c p = true -> find_char c t = Some i -> (length p <= i)%nat.
Proof.
  intros c p t i Hp Hn F. apply find_char_some in F. destruct F as [F _].
  destruct (Nat.le_gt_cases (length p) i) as [|Hlt]; [assumption|exfalso].
  apply starts_with_split in Hp. rewrite Hp in F. rewrite nth_error_app1 in F by exact Hlt.
  unfold notin in Hn. rewrite forallb_forall in Hn. apply nth_error_In in F.
  specialize (Hn _ F). rewrite Ascii.eqb_refl in Hn. discriminate.
Qed.

(* the scan of the orders part and what follows it *)
Lemma np_level_orders : forall op (prc : N),
  utf8_valid op = true -> (Z.of_nat (length op) < LIM)%Z ->
  np ('(acc, last) <- lvl_scan op op 0 0%Z 0 [] ;;
      o_s <- slice_o op last (length op) ;;
      if is_empty o_s then POk (prc, rev acc)
      else o <- parse_order o_s ;; POk (prc, rev (o :: acc))).
Proof.
  intros op prc Hv Hl.
  pose proof (lvl_scan_inv op op 0 0%Z 0 [] Hv eq_refl (bnd_0 op) (le_n 0) (Nat.le_0_l _)) as H.
  specialize (H ltac:(simpl; lia)).
  destruct (lvl_scan op op 0 0%Z 0 []) as [[acc last]| |]; [|apply np_err|destruct H].
  destruct H as [Hb Hle]. cbn [bind].
  rewrite slice_o_ok; [|lia|lia|exact Hb|apply bnd_len]. cbn [bind].
  destruct (is_empty _); [apply np_ok|].
  apply np_bind; [apply np_parse_order|intros; apply np_ok].
Qed.

Theorem np_parse_level : forall s,
  utf8_valid s = true -> (Z.of_nat (length s) < LIM)%Z -> np (parse_level s).
Proof.
  intros s Hv Hl. unfold parse_level.
  destruct (starts_with $"PriceLevel:" s) eqn:S1; [|apply np_err]. cbn [negb].
  pose proof (starts_with_length _ _ S1) as L1. cbn [length list_ascii_of_string] in L1.
  rewrite slice_o_ok; [|lia|lia|apply (bnd_after_prefix $"PriceLevel:" s Hv S1 eq_refl)|apply bnd_len].
  cbn [bind].
  assert (Gc : good (length s) (firstn (length s - 11) (skipn 11 s))).
  { eapply good_slice; [split; [exact Hv|apply le_n]|].
    apply slice_ok; [lia|lia|apply (bnd_after_prefix $"PriceLevel:" s Hv S1 eq_refl)|apply bnd_len]. }
  remember (firstn (length s - 11) (skipn 11 s)) as content eqn:Hc. clear Hc.
  remember (length s) as n eqn:Hn. clear Hn.
  destruct Gc as [Vc Lc].
  (* the map and the remaining text are good in both cases *)
  match goal with |- np (bind ?X _) => remember X as parts eqn:Hp end.
  assert (Hparts :
    match parts with
    | POk (m0, remaining) => Forall (fun kv => good n (snd kv)) m0 /\ good n remaining
    | PErr => True
    | PPanic => False
    end).
  { subst parts.
    destruct (find_sub orders_kw content) as [os|] eqn:Fs.
    2:{ cbv beta iota. split; [constructor|split; assumption]. }
    assert (Los : (os + length orders_kw <= length content)%nat) by (apply find_sub_le; [discriminate|exact Fs]). cbn [length orders_kw list_ascii_of_string] in Los.
    pose proof (find_sub_some _ _ _ Fs) as Sw.
    assert (N0 : nth_error content os = Some "o"%char).
    { pose proof (starts_with_nth _ _ 0 "o"%char Sw eq_refl) as E. rewrite nth_error_skipn' in E.
      rewrite Nat.add_0_r in E. exact E. }
    assert (N7 : nth_error content (os + 7) = Some lbr).
    { pose proof (starts_with_nth _ _ 7 lbr Sw eq_refl) as E. rewrite nth_error_skipn' in E. exact E. }
    assert (Bos : is_char_boundary content os = true) by (eapply bnd_nth; eauto).
    rewrite slice_o_ok; [|lia|lia|exact Bos|apply bnd_len]. cbn [bind].
    replace (firstn (length content - os) (skipn os content)) with (skipn os content)
      by (symmetry; apply firstn_all2; rewrite skipn_length; lia).
    destruct (find_char rbr (skipn os content)) as [i|] eqn:Fc; [|exact I]. cbn [of_opt bind].
    pose proof (find_char_ge rbr orders_kw _ i Sw eq_refl Fc) as Li. cbn [length orders_kw list_ascii_of_string] in Li.
    apply find_char_some in Fc. destruct Fc as [Fc _]. rewrite nth_error_skipn' in Fc.
    assert (Lt : (os + i < length content)%nat) by (apply nth_error_Some; congruence).
    replace (i + os)%nat with (os + i)%nat by lia.
    assert (B8 : is_char_boundary content (os + 8) = true).
    { replace (os + 8)%nat with (S (os + 7)) by lia. eapply bnd_S_nth; eauto. }
    assert (Boe : is_char_boundary content (os + i) = true) by (eapply bnd_nth; eauto).
    assert (Bse : is_char_boundary content (S (os + i)) = true) by (eapply bnd_S_nth; eauto).
    rewrite (slice_o_ok content (os + 8) (os + i)); [|lia|lia|exact B8|exact Boe]. cbn [bind].
    rewrite (slice_o_ok content 0 os); [|lia|lia|apply bnd_0|exact Bos]. cbn [bind].
    rewrite (slice_o_ok content (S (os + i)) (length content)); [|lia|lia|exact Bse|apply bnd_len]. cbn [bind].
    assert (Gcont : good n content) by (split; assumption).
    split.
    - constructor; [|constructor]. simpl. eapply good_slice; [exact Gcont|].
      apply slice_ok; [lia|lia|exact B8|exact Boe].
    - assert (E1 : slice content 0 os = Some (firstn (os - 0) (skipn 0 content)))
        by (apply slice_ok; [lia|lia|apply bnd_0|exact Bos]).
      assert (E2 : slice content (S (os + i)) (length content) =
                   Some (firstn (length content - S (os + i)) (skipn (S (os + i)) content)))
        by (apply slice_ok; [lia|lia|exact Bse|apply bnd_len]).
      destruct (good_slice _ _ _ _ n Gcont E1) as [G1 _].
      destruct (good_slice _ _ _ _ n Gcont E2) as [G2 _].
      split; [apply utf8_app; assumption|].
      rewrite app_length, !firstn_length, !skipn_length. lia. }
  clear Hp. destruct parts as [[m0 remaining]| |]; [|apply np_err|destruct Hparts].
  destruct Hparts as [Gm0 Grem]. cbn [bind].
  match goal with |- context [fold_left ?f ?l m0] => pose proof (fold_parts_good n l m0) as Gm end.
  specialize (Gm ltac:(apply Forall_filter; apply good_split; [reflexivity|exact Grem]) Gm0).
  match goal with |- context [fold_left ?f ?l m0] => remember (fold_left f l m0) as m eqn:Hm end.
  clear Hm.
  apply np_bind.
  { destruct (get $"price" m); [apply np_of_opt|apply np_err]. }
  intros prc _.
  destruct (get $"orders" m) as [op|] eqn:Go; [|apply np_ok].
  destruct (get_good n _ m op Gm Go) as [Vo Lo].
  destruct (is_empty op); [apply np_ok|].
  apply np_level_orders; [exact Vo|lia].
Qed.

