(* SeqConc.v — the sequential model (Model/Level.v) and the step machines
   (Model/Conc.v) are the same code: one thread run alone through [tstep]
   computes exactly [add_order] / [update_order] / [match_order] / the reads;
   and every accepted trace is a run of [exec]. *)
From PL Require Import Model.Conc Proofs.ConcLemmas.
From Coq Require Import Lia.
Local Open Scope N_scope.

Local Arguments wadd : simpl never.
Local Arguments wsub : simpl never.

Lemma side_eqb_eq a b : side_eqb a b = true -> a = b.
Proof. destruct a, b; cbn; congruence. Qed.
Lemma tif_eqb_eq a b : tif_eqb a b = true -> a = b.
Proof.
  destruct a, b; cbn; try congruence. intros H. apply N.eqb_eq in H. congruence.
Qed.
Lemma peg_eqb_eq a b : peg_eqb a b = true -> a = b.
Proof. destruct a, b; cbn; congruence. Qed.
Lemma obj_eqb_eq a b : obj_eqb a b = true -> a = b.
Proof. destruct a, b; cbn; congruence. Qed.
Lemma optN_eqb_eq a b : option_eqb N.eqb a b = true -> a = b.
Proof.
  destruct a, b; cbn; try congruence. intros H. apply N.eqb_eq in H. congruence.
Qed.
Lemma common_eqb_eq a b : common_eqb a b = true -> a = b.
Proof.
  destruct a as [i p s t f], b as [i' p' s' t' f']. unfold common_eqb. cbn.
  rewrite !andb_true_iff. intros [[[[H1 H2] H3] H4] H5].
  apply oid_eqb_eq in H1. apply N.eqb_eq in H2. apply side_eqb_eq in H3.
  apply N.eqb_eq in H4. apply tif_eqb_eq in H5. congruence.
Qed.

Lemma order_eqb_eq a b : order_eqb a b = true -> a = b.
Proof.
  destruct a, b; cbn [order_eqb]; try discriminate; rewrite ?andb_true_iff; intros H;
    repeat match goal with
    | H : _ /\ _ |- _ => destruct H
    | H : common_eqb _ _ = true |- _ => apply common_eqb_eq in H
    | H : N.eqb _ _ = true |- _ => apply N.eqb_eq in H
    | H : Z.eqb _ _ = true |- _ => apply Z.eqb_eq in H
    | H : peg_eqb _ _ = true |- _ => apply peg_eqb_eq in H
    | H : option_eqb N.eqb _ _ = true |- _ => apply optN_eqb_eq in H
    | H : Bool.eqb _ _ = true |- _ => apply Bool.eqb_prop in H
    end; congruence.
Qed.

Lemma opt_order_eqb_eq a b : opt_order_eqb a b = true -> a = b.
Proof.
  destruct a, b; cbn; try congruence. intros H. apply order_eqb_eq in H. congruence.
Qed.
Lemma opt_oid_eqb_eq a b : option_eqb oid_eqb a b = true -> a = b.
Proof.
  destruct a, b; cbn; try congruence. intros H. apply oid_eqb_eq in H. congruence.
Qed.

Lemma ev_eqb_eq a b : ev_eqb a b = true -> a = b.
Proof.
  destruct a, b; cbn [ev_eqb]; try discriminate; rewrite ?andb_true_iff; intros H;
    repeat match goal with
    | H : _ /\ _ |- _ => destruct H
    | H : obj_eqb _ _ = true |- _ => apply obj_eqb_eq in H
    | H : N.eqb _ _ = true |- _ => apply N.eqb_eq in H
    | H : oid_eqb _ _ = true |- _ => apply oid_eqb_eq in H
    | H : order_eqb _ _ = true |- _ => apply order_eqb_eq in H
    | H : opt_order_eqb _ _ = true |- _ => apply opt_order_eqb_eq in H
    | H : option_eqb oid_eqb _ _ = true |- _ => apply opt_oid_eqb_eq in H
    end; congruence.
Qed.

Section WithMf.
Variable mf : order -> N -> mres.

(* ------------------------------------------------------------------ *)
(* run one call alone                                                  *)
(* ------------------------------------------------------------------ *)
Fixpoint run_alone (fuel : nat) (p : pc) (s : shared) : option (ret * shared) :=
  match p with
  | Done r => Some (r, s)
  | _ =>
      match fuel with
      | O => None
      | S f =>
          match tstep mf p s with
          | Some (p', s', _) => run_alone f p' s'
          | None => None
          end
      end
  end.

(* [steps n p s p' s']: exactly [n] steps of the lone thread lead from (p,s) to (p',s') *)
Inductive steps : nat -> pc -> shared -> pc -> shared -> Prop :=
| steps_refl p s : steps O p s p s
| steps_step n p s p1 s1 e p2 s2 :
    tstep mf p s = Some (p1, s1, e) -> steps n p1 s1 p2 s2 -> steps (S n) p s p2 s2.

Definition star (p : pc) (s : shared) (p' : pc) (s' : shared) : Prop :=
  exists n, steps n p s p' s'.

Lemma steps_trans n1 n2 p s p1 s1 p2 s2 :
  steps n1 p s p1 s1 -> steps n2 p1 s1 p2 s2 -> steps (n1 + n2) p s p2 s2.
Proof.
  induction 1; intros H2; cbn [Nat.add]; [exact H2|].
  econstructor; [eassumption|]. apply IHsteps, H2.
Qed.

Lemma star_refl p s : star p s p s.
Proof. exists O. constructor. Qed.

Lemma star_refl' p s p' s' : p = p' -> s = s' -> star p s p' s'.
Proof. intros -> ->. apply star_refl. Qed.

Lemma star_step p s p1 s1 e p2 s2 :
  tstep mf p s = Some (p1, s1, e) -> star p1 s1 p2 s2 -> star p s p2 s2.
Proof. intros H [n Hn]. exists (S n). econstructor; eassumption. Qed.

Lemma star_trans p s p1 s1 p2 s2 :
  star p s p1 s1 -> star p1 s1 p2 s2 -> star p s p2 s2.
Proof. intros [n1 H1] [n2 H2]. exists (n1 + n2)%nat. eapply steps_trans; eassumption. Qed.

Lemma tstep_some_not_done p s x : tstep mf p s = Some x -> forall r, p <> Done r.
Proof. intros H r E. subst p. discriminate. Qed.

Lemma run_alone_step fuel p s p' s' e :
  tstep mf p s = Some (p', s', e) -> run_alone (S fuel) p s = run_alone fuel p' s'.
Proof.
  intros H. destruct p; try (cbn [run_alone]; rewrite H; reflexivity). discriminate.
Qed.

Lemma steps_run n p s r s' :
  steps n p s (Done r) s' ->
  forall fuel, (n <= fuel)%nat -> run_alone fuel p s = Some (r, s').
Proof.
  remember (Done r) as pd eqn:Ep. induction 1 as [p s|n p s p1 s1 e p2 s2 Ht Hs IH]; intros fuel Hf.
  - subst p. destruct fuel; reflexivity.
  - destruct fuel as [|fuel]; [lia|].
    rewrite (run_alone_step _ _ _ _ _ _ Ht). apply IH; [exact Ep | lia].
Qed.

Lemma star_run p s r s' :
  star p s (Done r) s' ->
  exists n, forall fuel, (n <= fuel)%nat -> run_alone fuel p s = Some (r, s').
Proof. intros [n H]. exists n. apply (steps_run _ _ _ _ _ H). Qed.

(* one symbolic step *)
Ltac step :=
  eapply star_step;
  [ cbn [tstep]; unfold fetch_add, fetch_sub, set_map, set_tk; cbn [get_obj set_obj sh_cvis sh_chid sh_ccnt sh_st sh_gen
      sh_map sh_tk sh_price s_added s_removed s_executed s_qty s_value]; reflexivity | ].

(* ------------------------------------------------------------------ *)
(* 1. add_order                                                        *)
(* ------------------------------------------------------------------ *)
Lemma star_add l g o :
  star (A1 o) (shared_of_level l g) (Done (RetAdd o)) (shared_of_level (add_order l o) g).
Proof.
  destruct l as [pr cv ch cc [m t] [sa sr se sq sv]].
  unfold shared_of_level, add_order, record_added, push. cbn.
  do 6 step. apply star_refl'; reflexivity.
Qed.

Theorem run_alone_add l g o :
  exists n, forall fuel, (n <= fuel)%nat ->
    run_alone fuel (start (price l) (CAdd o)) (shared_of_level l g)
    = Some (RetAdd o, shared_of_level (add_order l o) g).
Proof. apply star_run. cbn [start]. apply star_add. Qed.

(* ------------------------------------------------------------------ *)
(* 2. update_order                                                     *)
(* ------------------------------------------------------------------ *)
Ltac step_rw E :=
  eapply star_step;
  [ cbn [tstep]; unfold fetch_add, fetch_sub, set_map, set_tk; cbn [get_obj set_obj sh_cvis sh_chid sh_ccnt sh_st sh_gen
      sh_map sh_tk sh_price s_added s_removed s_executed s_qty s_value]; rewrite ?E; reflexivity | ].

Ltac step_rw2 E1 E2 :=
  eapply star_step;
  [ cbn [tstep]; unfold fetch_add, fetch_sub, set_map, set_tk; cbn [get_obj set_obj sh_cvis sh_chid sh_ccnt sh_st sh_gen
      sh_map sh_tk sh_price s_added s_removed s_executed s_qty s_value]; rewrite ?E1, ?E2; reflexivity | ].

Lemma star_take_out l g k :
  star (C1 k) (shared_of_level l g)
       (Done (RetUpd (snd (take_out l k)))) (shared_of_level (fst (take_out l k)) g).
Proof.
  destruct l as [pr cv ch cc [m t] [sa sr se sq sv]].
  unfold shared_of_level, take_out, qremove, record_removed. cbn.
  destruct (lookup k m) as [o|] eqn:E; cbn.
  - step_rw E. do 4 step. apply star_refl'; reflexivity.
  - step_rw E. apply star_refl'; reflexivity.
Qed.

Lemma star_amend l g k nq :
  star (U1 k nq) (shared_of_level l g)
       (Done (RetUpd (snd (amend l k nq)))) (shared_of_level (fst (amend l k nq)) g).
Proof.
  destruct l as [pr cv ch cc [m t] [sa sr se sq sv]].
  unfold shared_of_level, amend, qfind, qremove, push. cbn.
  destruct (lookup k m) as [old|] eqn:E; cbn.
  - step_rw E. step_rw E.
    unfold amend_after_remove, delta.
    set (new := with_reduced_quantity old nq).
    destruct (vis old =? vis new) eqn:Ev; cbn [negb];
      destruct (hid old =? hid new) eqn:Eh; cbn [negb].
    + do 2 step. apply star_refl'; reflexivity.
    + destruct (hid old <? hid new) eqn:Eh2;
        (step_rw Eh2; do 2 step; apply star_refl'; reflexivity).
    + destruct (vis old <? vis new) eqn:Ev2;
        (step_rw2 Ev2 Eh; do 2 step; apply star_refl'; reflexivity).
    + destruct (vis old <? vis new) eqn:Ev2; destruct (hid old <? hid new) eqn:Eh2;
        (step_rw2 Ev2 Eh; cbn [negb]; step_rw Eh2; do 2 step; apply star_refl'; reflexivity).
  - step_rw E. apply star_refl'; reflexivity.
Qed.

Lemma star_update l g u :
  star (start (price l) (CUpdate u)) (shared_of_level l g)
       (Done (RetUpd (snd (update_order l u)))) (shared_of_level (fst (update_order l u)) g).
Proof.
  destruct u as [k np|k nq|k np nq|k|k p q sd]; cbn [start update_order].
  - destruct (np =? price l); [apply star_refl | apply star_take_out].
  - apply star_amend.
  - destruct (np =? price l); [apply star_amend | apply star_take_out].
  - apply star_take_out.
  - destruct (p =? price l); [apply star_amend | apply star_take_out].
Qed.

Theorem run_alone_update l g u l' uo :
  update_order l u = (l', uo) ->
  exists n, forall fuel, (n <= fuel)%nat ->
    run_alone fuel (start (price l) (CUpdate u)) (shared_of_level l g)
    = Some (RetUpd uo, shared_of_level l' g).
Proof.
  intros H. apply star_run. generalize (star_update l g u). rewrite H. exact (fun x => x).
Qed.

(* ------------------------------------------------------------------ *)
(* 4. reads and the generator                                          *)
(* ------------------------------------------------------------------ *)
Lemma star_read_vis l g :
  star RdV (shared_of_level l g) (Done (RetNum (cvis l))) (shared_of_level l g).
Proof. step. apply star_refl. Qed.
Lemma star_read_hid l g :
  star RdH (shared_of_level l g) (Done (RetNum (chid l))) (shared_of_level l g).
Proof. step. apply star_refl. Qed.
Lemma star_read_cnt l g :
  star RdC (shared_of_level l g) (Done (RetNum (ccnt l))) (shared_of_level l g).
Proof. step. apply star_refl. Qed.
Lemma star_list l g :
  star RdL (shared_of_level l g) (Done (RetList (to_vec (lq l)))) (shared_of_level l g).
Proof. step. apply star_refl. Qed.
Lemma star_next l g :
  star G1 (shared_of_level l g) (Done (RetNum g)) (shared_of_level l (wadd g 1)).
Proof. step. apply star_refl. Qed.
(* snapshot(), run alone: the three aggregates and the listing of the level, nothing changed *)
Lemma star_snapshot l g :
  star Sn1 (shared_of_level l g)
       (Done (RetSnap (cvis l) (chid l) (ccnt l) (to_vec (lq l)))) (shared_of_level l g).
Proof. do 4 step. apply star_refl. Qed.

Theorem run_alone_read_vis l g :
  exists n, forall fuel, (n <= fuel)%nat ->
    run_alone fuel (start (price l) CReadVis) (shared_of_level l g)
    = Some (RetNum (cvis l), shared_of_level l g).
Proof. apply star_run, star_read_vis. Qed.
Theorem run_alone_read_hid l g :
  exists n, forall fuel, (n <= fuel)%nat ->
    run_alone fuel (start (price l) CReadHid) (shared_of_level l g)
    = Some (RetNum (chid l), shared_of_level l g).
Proof. apply star_run, star_read_hid. Qed.
Theorem run_alone_read_cnt l g :
  exists n, forall fuel, (n <= fuel)%nat ->
    run_alone fuel (start (price l) CReadCnt) (shared_of_level l g)
    = Some (RetNum (ccnt l), shared_of_level l g).
Proof. apply star_run, star_read_cnt. Qed.
Theorem run_alone_list l g :
  exists n, forall fuel, (n <= fuel)%nat ->
    run_alone fuel (start (price l) CList) (shared_of_level l g)
    = Some (RetList (to_vec (lq l)), shared_of_level l g).
Proof. apply star_run, star_list. Qed.
Theorem run_alone_next l g :
  exists n, forall fuel, (n <= fuel)%nat ->
    run_alone fuel (start (price l) CNext) (shared_of_level l g)
    = Some (RetNum g, shared_of_level l (wadd g 1)).
Proof. apply star_run, star_next. Qed.
Theorem run_alone_snapshot l g :
  exists n, forall fuel, (n <= fuel)%nat ->
    run_alone fuel (start (price l) CSnapshot) (shared_of_level l g)
    = Some (RetSnap (cvis l) (chid l) (ccnt l) (to_vec (lq l)), shared_of_level l g).
Proof. apply star_run, star_snapshot. Qed.

(* ------------------------------------------------------------------ *)
(* 3. match_order                                                      *)
(* ------------------------------------------------------------------ *)
Lemma W_nz : W <> 0.
Proof. unfold W. discriminate. Qed.

(* value_executed.fetch_add((c*p) mod 2^64) is fetch_add(c*p) *)
Lemma wadd_mod_r a b : wadd a (b mod W) = wadd a b.
Proof. unfold wadd. apply N.add_mod_idemp_r, W_nz. Qed.

Definition ml_of (taker : oid) (ms : mstate) : mloc :=
  mkMloc taker (ms_rem ms) (ms_res ms) (ms_aside ms).
Definition sh_of (ms : mstate) : shared := shared_of_level (ms_lvl ms) (ms_gen ms).

(* the continuation of M2 once the maker [o] has been removed from the map *)
Definition after_remove (ml : mloc) (o : order) : pc :=
  let r := mf o (ml_rem ml) in
  if (m_consumed r =? 0) && (m_hidden_reduced r =? 0) && is_some (m_updated r) then
    next_iter (mkMloc (ml_taker ml) (ml_rem ml) (ml_res ml) (ml_aside ml ++ [o]))
  else if 0 <? m_consumed r then M3 ml o r
  else M5 ml o r.

(* pop, ticket by ticket: M1, M2 (stale), M1, ... *)
Lemma star_pop_none ml pr cv ch cc m st g : forall t,
  pop_t m t = None ->
  star (M1 ml) (mkShared pr cv ch cc m t st g) (start_finish ml) (mkShared pr cv ch cc m [] st g).
Proof.
  induction t as [|k t IH]; cbn [pop_t]; intros H.
  - step. apply star_refl.
  - destruct (lookup k m) eqn:E; [discriminate|].
    step. step_rw E. apply IH, H.
Qed.

Lemma star_pop_some ml pr cv ch cc m st g o m' t' : forall t,
  pop_t m t = Some (o, m', t') ->
  star (M1 ml) (mkShared pr cv ch cc m t st g) (after_remove ml o) (mkShared pr cv ch cc m' t' st g).
Proof.
  induction t as [|k t IH]; cbn [pop_t]; intros H; [discriminate|].
  destruct (lookup k m) as [o1|] eqn:E.
  - inversion H; subst. step. step_rw E. apply star_refl.
  - step. step_rw E. apply IH, H.
Qed.

(* one visit = M3..M15 *)
Lemma star_visit l g res taker rem aside o l' g' res' rem' :
  visit mf l g res taker rem o = (l', g', res', rem') ->
  let r := mf o rem in
  let ml := mkMloc taker rem res aside in
  star (if 0 <? m_consumed r then M3 ml o r else M5 ml o r) (shared_of_level l g)
       (next_iter (mkMloc taker rem' res' aside)) (shared_of_level l' g').
Proof.
  destruct l as [pr cv ch cc [m t] [sa sr se sq sv]].
  unfold visit, shared_of_level, record_execution, push.
  cbn [price cvis chid ccnt lq st qmap tickets s_added s_removed s_executed s_qty s_value].
  intros H. set (r := mf o rem) in *. set (ml := mkMloc taker rem res aside).
  assert (Hfin : forall ml1 s1 ml2 s2, ml1 = ml2 -> s1 = s2 -> star (next_iter ml1) s1 (next_iter ml2) s2).
  { intros; subst; apply star_refl. }
  destruct (0 <? m_consumed r) eqn:Ec; destruct (m_updated r) as [u|] eqn:Eu.
  - (* consumed > 0, re-queued *)
    destruct (0 <? m_hidden_reduced r) eqn:Eh; inversion H; subst; clear H;
      cbn [price cvis chid ccnt lq st qmap tickets is_some].
    + do 5 step. unfold after_stats. rewrite Eu, Eh. do 4 step.
      apply Hfin; [reflexivity | rewrite wadd_mod_r; reflexivity].
    + do 5 step. unfold after_stats. rewrite Eu, Eh. do 2 step.
      apply Hfin; [reflexivity | rewrite wadd_mod_r; reflexivity].
  - (* consumed > 0, leaves *)
    inversion H; subst; clear H; cbn [price cvis chid ccnt lq st qmap tickets is_some].
    do 5 step. unfold after_stats. rewrite Eu. step.
    unfold drops_hidden.
    destruct o as [c q|c v h|c q|c q tr lr|c q off pt|c q|c v h thr amt au];
      try (apply Hfin; [reflexivity | rewrite wadd_mod_r; reflexivity]);
      (destruct ((0 <? h) && (m_hidden_reduced r =? 0)) eqn:Ed;
       [ step; apply Hfin; [reflexivity | rewrite wadd_mod_r; reflexivity]
       | apply Hfin; [reflexivity | rewrite wadd_mod_r; reflexivity] ]).
  - (* consumed = 0, re-queued *)
    destruct (0 <? m_hidden_reduced r) eqn:Eh; inversion H; subst; clear H;
      cbn [price cvis chid ccnt lq st qmap tickets is_some].
    + do 3 step. unfold after_stats. rewrite Eu, Eh. do 4 step.
      apply Hfin; [reflexivity | rewrite wadd_mod_r; reflexivity].
    + do 3 step. unfold after_stats. rewrite Eu, Eh. do 2 step.
      apply Hfin; [reflexivity | rewrite wadd_mod_r; reflexivity].
  - (* consumed = 0, leaves *)
    inversion H; subst; clear H; cbn [price cvis chid ccnt lq st qmap tickets is_some].
    do 3 step. unfold after_stats. rewrite Eu. step.
    unfold drops_hidden.
    destruct o as [c q|c v h|c q|c q tr lr|c q off pt|c q|c v h thr amt au];
      try (apply Hfin; [reflexivity | rewrite wadd_mod_r; reflexivity]);
      (destruct ((0 <? h) && (m_hidden_reduced r =? 0)) eqn:Ed;
       [ step; apply Hfin; [reflexivity | rewrite wadd_mod_r; reflexivity]
       | apply Hfin; [reflexivity | rewrite wadd_mod_r; reflexivity] ]).
Qed.

(* the epilogue: F1, F2 per set-aside maker *)
Lemma star_finish taker rem res pr cv ch cc st g : forall aside m t,
  star (start_finish (mkMloc taker rem res aside)) (mkShared pr cv ch cc m t st g)
       (Done (RetMatch (mkResult (r_taker res) (r_txs res) rem (rem =? 0) (r_filled res))))
       (let q := fold_left push aside (mkQueue m t) in mkShared pr cv ch cc (qmap q) (tickets q) st g).
Proof.
  induction aside as [|o rest IH]; intros m t; unfold start_finish; cbn [ml_aside fold_left].
  - apply star_refl.
  - do 2 step. apply IH.
Qed.

Lemma star_match_loop taker : forall fuel ms ms',
  match_loop mf fuel taker ms = Some ms' ->
  star (next_iter (ml_of taker ms)) (sh_of ms) (start_finish (ml_of taker ms')) (sh_of ms').
Proof.
  induction fuel as [|f IH]; intros ms ms' H; cbn [match_loop] in H;
    unfold next_iter; cbn [ml_of ml_rem];
    destruct (ms_rem ms =? 0) eqn:Er; try (inversion H; subst; apply star_refl); try discriminate.
  destruct ms as [[pr cv ch cc [m t] sts] g res rem aside].
  unfold pop in H. cbn [ms_lvl ms_gen ms_res ms_rem ms_aside lq qmap tickets] in H.
  unfold sh_of at 1, ml_of at 1, shared_of_level. cbn [ms_lvl ms_gen ms_res ms_rem ms_aside price cvis chid ccnt lq st qmap tickets].
  destruct (pop_t m t) as [[[o m'] t']|] eqn:Ep.
  - eapply star_trans; [eapply star_pop_some; exact Ep|].
    unfold after_remove. cbn [ml_rem ml_taker ml_res ml_aside].
    destruct ((m_consumed (mf o rem) =? 0) && (m_hidden_reduced (mf o rem) =? 0) && is_some (m_updated (mf o rem))) eqn:Eset.
    + apply IH in H. exact H.
    + destruct (visit mf (set_queue (mkLevel pr cv ch cc (mkQueue m t) sts) (mkQueue m' t')) g res taker rem o)
        as [[[l1 g1] res1] rem1] eqn:Ev.
      apply IH in H.
      eapply star_trans; [|exact H].
      apply (star_visit _ _ _ _ _ aside _ _ _ _ _ Ev).
  - inversion H; subst; clear H.
    eapply star_trans; [eapply star_pop_none; exact Ep|]. apply star_refl.
Qed.

Lemma star_match fuel0 l g qty taker l' g' r :
  match_order mf fuel0 l g qty taker = Some (l', g', r) ->
  star (start (price l) (CMatch qty taker)) (shared_of_level l g)
       (Done (RetMatch r)) (shared_of_level l' g').
Proof.
  unfold match_order.
  destruct (match_loop mf fuel0 taker (mkMstate l g (result_new taker qty) qty [])) as [ms'|] eqn:E;
    [|discriminate].
  intros H. inversion H; subst; clear H.
  apply star_match_loop in E. cbn [start].
  eapply star_trans; [exact E|].
  destruct ms' as [[pr cv ch cc [m t] sts] g1 res rem aside].
  apply (star_finish taker rem res pr cv ch cc sts g1 aside m t).
Qed.

Theorem run_alone_match fuel0 l g qty taker l' g' r :
  match_order mf fuel0 l g qty taker = Some (l', g', r) ->
  exists n, forall fuel, (n <= fuel)%nat ->
    run_alone fuel (start (price l) (CMatch qty taker)) (shared_of_level l g)
    = Some (RetMatch r, shared_of_level l' g').
Proof. intros H. apply star_run. eapply star_match, H. Qed.

(* ------------------------------------------------------------------ *)
(* 5. accepted traces are runs of [exec]                               *)
(* ------------------------------------------------------------------ *)

Lemma accept_sound_gen tr : forall c pos c',
  accept mf tr c pos = (c', None) -> exec mf (map fst tr) c = (c', tr).
Proof.
  induction tr as [|[i e] rest IH]; intros c pos c' H; cbn in H |- *.
  - congruence.
  - destruct (cstep mf c i) as [[c1 e1]|] eqn:Es; [|discriminate].
    destruct (ev_eqb e e1) eqn:Ee; [|discriminate].
    apply ev_eqb_eq in Ee. subst e1.
    rewrite (IH _ _ _ H). reflexivity.
Qed.

Theorem accept_sound tr c c' :
  accept mf tr c 0 = (c', None) -> exec mf (map fst tr) c = (c', tr).
Proof. apply accept_sound_gen. Qed.

(* rejected at position p: the first p entries are a run, ending in the returned configuration *)
Lemma accept_reject_gen tr : forall c pos c' p,
  accept mf tr c pos = (c', Some p) ->
  exists k, p = (pos + k)%nat /\ (k < length tr)%nat /\
    exec mf (map fst (firstn k tr)) c = (c', firstn k tr).
Proof.
  induction tr as [|[i e] rest IH]; intros c pos c' p H; cbn in H.
  - discriminate.
  - destruct (cstep mf c i) as [[c1 e1]|] eqn:Es.
    + destruct (ev_eqb e e1) eqn:Ee.
      * apply ev_eqb_eq in Ee. subst e1.
        destruct (IH _ _ _ _ H) as (k & Hp & Hk & Hx).
        exists (S k). split; [lia|]. split; [cbn; lia|].
        cbn. rewrite Es, Hx. reflexivity.
      * inversion H; subst. exists O. split; [lia|]. split; [cbn; lia | reflexivity].
    + inversion H; subst. exists O. split; [lia|]. split; [cbn; lia | reflexivity].
Qed.

Theorem accept_reject_prefix tr c c' p :
  accept mf tr c 0 = (c', Some p) ->
  (p < length tr)%nat /\ exec mf (map fst (firstn p tr)) c = (c', firstn p tr).
Proof.
  intros H. destruct (accept_reject_gen _ _ _ _ _ H) as (k & Hp & Hk & Hx).
  cbn in Hp. subst k. auto.
Qed.

(* ------------------------------------------------------------------ *)
(* 6. one thread, a list of calls                                      *)
(* ------------------------------------------------------------------ *)
(* the sequential meaning of one call on (level, generator) *)
Definition seq_call (fuel : nat) (l : level) (g : N) (c : call) : option (level * N * ret) :=
  match c with
  | CAdd o => Some (add_order l o, g, RetAdd o)
  | CMatch qty taker =>
      match match_order mf fuel l g qty taker with
      | Some (l', g', r) => Some (l', g', RetMatch r)
      | None => None
      end
  | CUpdate u => Some (fst (update_order l u), g, RetUpd (snd (update_order l u)))
  | CReadVis => Some (l, g, RetNum (cvis l))
  | CReadHid => Some (l, g, RetNum (chid l))
  | CReadCnt => Some (l, g, RetNum (ccnt l))
  | CList => Some (l, g, RetList (to_vec (lq l)))
  | CNext => Some (l, wadd g 1, RetNum g)
  | CSnapshot => Some (l, g, RetSnap (cvis l) (chid l) (ccnt l) (to_vec (lq l)))
  end.

Fixpoint seq_calls (fuel : nat) (cs : list call) (l : level) (g : N)
  : option (level * N * list ret) :=
  match cs with
  | [] => Some (l, g, [])
  | c :: cs' =>
      match seq_call fuel l g c with
      | None => None
      | Some (l1, g1, r) =>
          match seq_calls fuel cs' l1 g1 with
          | None => None
          | Some (l2, g2, rs) => Some (l2, g2, r :: rs)
          end
      end
  end.

Lemma star_call fuel l g c l' g' r :
  seq_call fuel l g c = Some (l', g', r) ->
  star (start (price l) c) (shared_of_level l g) (Done r) (shared_of_level l' g').
Proof.
  destruct c; cbn [seq_call]; intros H.
  - inversion H; subst. apply star_add.
  - destruct (match_order mf fuel l g qty taker) as [[[l1 g1] r1]|] eqn:E; [|discriminate].
    inversion H; subst. eapply star_match, E.
  - inversion H; subst. apply star_update.
  - inversion H; subst. apply star_read_vis.
  - inversion H; subst. apply star_read_hid.
  - inversion H; subst. apply star_read_cnt.
  - inversion H; subst. apply star_list.
  - inversion H; subst. apply star_next.
  - inversion H; subst. apply star_snapshot.
Qed.

Theorem run_alone_call fuel0 l g c l' g' r :
  seq_call fuel0 l g c = Some (l', g', r) ->
  exists n, forall fuel, (n <= fuel)%nat ->
    run_alone fuel (start (price l) c) (shared_of_level l g) = Some (r, shared_of_level l' g').
Proof. intros H. apply star_run. eapply star_call, H. Qed.

Lemma steps_price n p s p' s' : steps n p s p' s' -> sh_price s' = sh_price s.
Proof.
  induction 1 as [|n p s p1 s1 e p2 s2 Ht Hs IH]; [reflexivity|].
  apply tstep_facts in Ht. destruct Ht as (_ & _ & _ & Hp). congruence.
Qed.

Lemma seq_call_price fuel l g c l' g' r :
  seq_call fuel l g c = Some (l', g', r) -> price l' = price l.
Proof.
  intros H. apply star_call in H. destruct H as [n H]. apply steps_price in H. exact H.
Qed.

Definition cfg1 (s : shared) (t : thread) : config := mkConfig s [t].

Lemma cstep_cfg1 s t p' s' e :
  tstep mf (th_pc t) s = Some (p', s', e) ->
  cstep mf (cfg1 s t) 0 = Some (cfg1 s' (stepped t p' s'), e).
Proof. intros H. unfold cstep, cfg1. cbn. rewrite H. reflexivity. Qed.

(* the thread runs its current call to the end; then [settle_n] picks up the next one *)
Lemma run_call todo rets n p s r s' :
  steps n p s (Done r) s' ->
  forall k, (length todo <= k)%nat ->
  exists k' tr, (length todo <= k')%nat /\
    exec mf (repeat 0%nat n) (cfg1 s (settle_n k (sh_price s) (mkThread p todo rets)))
    = (cfg1 s' (settle_n k' (sh_price s') (mkThread (Done r) todo rets)), tr).
Proof.
  remember (Done r) as pd eqn:Ep.
  induction 1 as [p s|n p s p1 s1 e p2 s2 Ht Hs IH]; intros k Hk.
  - subst p. exists k, []. split; [exact Hk | reflexivity].
  - rewrite settle_n_not_done
      by (cbn [th_pc]; intros r0 E0; exact (tstep_some_not_done _ _ _ Ht r0 E0)).
    cbn [repeat exec].
    rewrite (cstep_cfg1 s (mkThread p todo rets) p1 s1 e Ht).
    unfold stepped. cbn [th_todo th_rets].
    destruct (IH Ep (S (length todo)) (Nat.le_succ_diag_r _)) as (k' & tr & Hk' & Hx).
    rewrite Hx. exists k', ((0%nat, e) :: tr). split; [exact Hk' | reflexivity].
Qed.

Lemma last_cons2 {A} (a b : A) l d : last (a :: b :: l) d = last (b :: l) d.
Proof. reflexivity. Qed.
Lemma removelast_cons2 {A} (a b : A) l : removelast (a :: b :: l) = a :: removelast (b :: l).
Proof. reflexivity. Qed.

Lemma run_calls fuel : forall cs c l g rets k l' g' rs,
  (length cs <= k)%nat ->
  seq_calls fuel (c :: cs) l g = Some (l', g', rs) ->
  exists n tr,
    exec mf (repeat 0%nat n)
         (cfg1 (shared_of_level l g) (settle_n k (price l) (mkThread (start (price l) c) cs rets)))
    = (cfg1 (shared_of_level l' g') (mkThread (Done (last rs (RetNum 0))) [] (rets ++ removelast rs)), tr).
Proof.
  induction cs as [|c2 cs IH]; intros c l g rets k l' g' rs Hk H.
  - cbn [seq_calls] in H.
    destruct (seq_call fuel l g c) as [[[l1 g1] r1]|] eqn:Ec; [|discriminate].
    inversion H; subst; clear H.
    destruct (star_call _ _ _ _ _ _ _ Ec) as [n Hn].
    destruct (run_call [] rets _ _ _ _ _ Hn k Hk) as (k' & tr & _ & Hx).
    exists n, tr. cbn [sh_price shared_of_level] in Hx. rewrite Hx.
    cbn [last removelast]. rewrite app_nil_r.
    destruct k'; reflexivity.
  - change (seq_calls fuel (c :: c2 :: cs) l g)
      with (match seq_call fuel l g c with
            | None => None
            | Some (l1, g1, r) =>
                match seq_calls fuel (c2 :: cs) l1 g1 with
                | None => None
                | Some (l2, g2, rs) => Some (l2, g2, r :: rs)
                end
            end) in H.
    destruct (seq_call fuel l g c) as [[[l1 g1] r1]|] eqn:Ec; [|discriminate].
    destruct (seq_calls fuel (c2 :: cs) l1 g1) as [[[l2 g2] rs2]|] eqn:Ecs; [|discriminate].
    inversion H; subst; clear H.
    destruct (star_call _ _ _ _ _ _ _ Ec) as [n1 Hn1].
    destruct (run_call (c2 :: cs) rets _ _ _ _ _ Hn1 k Hk) as (k' & tr1 & Hk' & Hx).
    cbn [sh_price shared_of_level] in Hx.
    destruct k' as [|k'']; [cbn in Hk'; lia|].
    cbn [settle_n th_pc th_todo] in Hx. unfold settle in Hx. cbn [th_pc th_todo th_rets] in Hx.
    assert (Hk'' : (length cs <= k'')%nat) by (cbn in Hk'; lia).
    destruct (IH c2 l1 g1 (rets ++ [r1]) k'' l' g' rs2 Hk'' Ecs) as (n2 & tr2 & Hy).
    exists (n1 + n2)%nat, (tr1 ++ tr2).
    rewrite repeat_app, exec_app, Hx. cbv beta iota. rewrite Hy.
    assert (Hne : exists r2 rs3, rs2 = r2 :: rs3).
    { cbn [seq_calls] in Ecs.
      destruct (seq_call fuel l1 g1 c2) as [[[la ga] ra]|]; [|discriminate].
      destruct (seq_calls fuel cs la ga) as [[[lb gb] rb]|]; [|discriminate].
      inversion Ecs; subst. eauto. }
    destruct Hne as (r2 & rs3 & ->).
    rewrite last_cons2, removelast_cons2, <- app_assoc. reflexivity.
Qed.

Lemma exec_finished s r rets : forall j,
  exec mf (repeat 0%nat j) (cfg1 s (mkThread (Done r) [] rets))
  = (cfg1 s (mkThread (Done r) [] rets), []).
Proof. induction j as [|j IH]; [reflexivity|]. cbn [repeat exec]. cbn. exact IH. Qed.

Theorem single_thread_history fuel0 cs l g l' g' rs :
  seq_calls fuel0 cs l g = Some (l', g', rs) ->
  exists n, forall m, (n <= m)%nat ->
    exists tr,
      exec mf (repeat 0%nat m) (mkConfig (shared_of_level l g) [thread_init (price l) cs])
      = (mkConfig (shared_of_level l' g')
                  [mkThread (Done (last rs (RetNum 0))) [] (removelast rs)], tr).
Proof.
  intros H.
  assert (Hn : exists n tr,
      exec mf (repeat 0%nat n) (mkConfig (shared_of_level l g) [thread_init (price l) cs])
      = (mkConfig (shared_of_level l' g')
                  [mkThread (Done (last rs (RetNum 0))) [] (removelast rs)], tr)).
  { destruct cs as [|c cs].
    - cbn in H. inversion H; subst. exists O, []. reflexivity.
    - unfold thread_init.
      apply (run_calls fuel0 cs c l g [] (S (length cs)) l' g' rs (Nat.le_succ_diag_r _) H). }
  destruct Hn as (n & tr & Hn). exists n. intros m Hm.
  replace m with (n + (m - n))%nat by lia.
  rewrite repeat_app, exec_app, Hn.
  change (mkConfig (shared_of_level l' g') [mkThread (Done (last rs (RetNum 0))) [] (removelast rs)])
    with (cfg1 (shared_of_level l' g') (mkThread (Done (last rs (RetNum 0))) [] (removelast rs))).
  rewrite exec_finished. exists (tr ++ []). reflexivity.
Qed.

(* the result list of [seq_calls] has one entry per call *)
Lemma seq_calls_length fuel : forall cs l g l' g' rs,
  seq_calls fuel cs l g = Some (l', g', rs) -> length rs = length cs.
Proof.
  induction cs as [|c cs IH]; intros l g l' g' rs H; cbn [seq_calls] in H.
  - inversion H; reflexivity.
  - destruct (seq_call fuel l g c) as [[[l1 g1] r1]|]; [|discriminate].
    destruct (seq_calls fuel cs l1 g1) as [[[l2 g2] rs2]|] eqn:E; [|discriminate].
    inversion H; subst. cbn. f_equal. eapply IH, E.
Qed.

(* readable form: quiescent, outputs = returned values in order *)
Corollary single_thread_outputs fuel0 cs l g l' g' rs :
  cs <> [] ->
  seq_calls fuel0 cs l g = Some (l', g', rs) ->
  exists n, forall m, (n <= m)%nat ->
    exists t r tr,
      exec mf (repeat 0%nat m) (mkConfig (shared_of_level l g) [thread_init (price l) cs])
      = (mkConfig (shared_of_level l' g') [t], tr) /\
      quiescent (mkConfig (shared_of_level l' g') [t]) = true /\
      th_pc t = Done r /\ th_rets t ++ [r] = rs.
Proof.
  intros Hne H. destruct (single_thread_history _ _ _ _ _ _ _ H) as (n & Hn).
  exists n. intros m Hm. destruct (Hn m Hm) as (tr & Hx).
  eexists _, _, tr. split; [exact Hx|]. split; [reflexivity|]. split; [reflexivity|].
  cbn [th_rets]. symmetry. apply app_removelast_last.
  intros E. apply seq_calls_length in H. rewrite E in H. destruct cs; [congruence | discriminate].
Qed.

End WithMf.

