(* ConcJudgeProofs.v — the extracted judges of the concurrent properties (Spec/ConcJudges.v;
   [agg_b] of Spec/Judges.v for C03) decide the Props next to them, and accept what the property
   theorems prove of every run of the model: "theorem => named Prop <=> checker".
   The property theorems are used BY NAME (Properties/C03.v, C08.v, C12.v, required without
   import), so that the chain starts at the statements the checks cite. *)
From PL Require Import Model.Conc Spec.Hist Spec.CovSpec Spec.Judges Spec.ConcJudges
  Proofs.BaseLemmas Proofs.JudgeProofs Proofs.ConcBase Proofs.ConcLemmas Proofs.CovProofs.
From PL Require Spec.ConcSpec Proofs.ConcInv.
From PL Require Proofs.LevelInv.
From PL Require Properties.C01 Properties.C03 Properties.C08 Properties.C12.
From Coq Require Import Lia ZifyBool ZifyN.
Local Open Scope N_scope.

(* ================================================================== *)
(* C12: range_b                                                        *)

Lemma in_range_b_iff sq sn cv ch cc :
  in_range_b sq sn cv ch cc = true <-> InRange sq sn cv ch cc.
Proof. unfold in_range_b, InRange. rewrite !andb_true_iff, !N.leb_le. tauto. Qed.

Lemma row_ok_b_iff r : row_ok_b r = true <-> RowOK r.
Proof. destruct r as [[sq sn] [[cv ch] cc]]. cbn [row_ok_b RowOK]. apply in_range_b_iff. Qed.

Lemma range_b_iff rows : range_b rows = true <-> RangeOK rows.
Proof.
  unfold range_b, RangeOK. rewrite forallb_forall, Forall_forall.
  split; intros H r Hr; apply row_ok_b_iff; apply H; exact Hr.
Qed.

(* in full: every row, every aggregate *)
Lemma range_b_spelled rows :
  range_b rows = true <->
  forall sq sn cv ch cc, In ((sq, sn), (cv, ch, cc)) rows ->
    cv <= sq /\ ch <= sq /\ cv + ch <= sq /\ cc <= sn.
Proof.
  rewrite range_b_iff. unfold RangeOK. rewrite Forall_forall. split.
  - intros H sq sn cv ch cc Hin. exact (H _ Hin).
  - intros H [[sq sn] [[cv ch] cc]] Hin. exact (H _ _ _ _ _ Hin).
Qed.

(* ---- the triples a run of the model exhibits: the three counters after every prefix of the
   schedule (0 steps, 1 step, ..., the whole schedule) ---- *)
Definition counters_of (s : shared) : N * N * N := (sh_cvis s, sh_chid s, sh_ccnt s).

Definition run_obs (mf : order -> N -> mres) (sched : list nat) (c0 : config) : list (N * N * N) :=
  map (fun n => counters_of (cf_sh (fst (exec mf (firstn n sched) c0)))) (seq 0 (S (length sched))).

(* the conclusion of C12_counters_bounded, as it stands, is the judged statement of one row *)
Lemma InRange_of_conclusion S OB (s : shared) (rest : Prop) sq sn :
  (sh_cvis s <= S /\ sh_chid s <= S /\ sh_cvis s + sh_chid s <= S /\ sh_ccnt s <= OB /\ rest) ->
  S <= sq -> OB <= sn ->
  RowOK ((sq, sn), counters_of s).
Proof. intros (A & B & C & D & _) Hq Hn. cbn [RowOK counters_of]. unfold InRange. lia. Qed.

(* C12_every_prefix => the judge accepts the observations of every run of the model, under any
   bounds that are at least [Supplied c0] / [OrdersB c0] (everything that is, or may still come,
   under the counters) *)
Theorem range_judge_sound mf :
  I_cons mf ->
  forall sched c0, ConcSpec.Inv c0 ->
  forall bounds : list (N * N),
    Forall (fun b => ConcSpec.Supplied c0 <= fst b /\ ConcSpec.OrdersB c0 <= snd b) bounds ->
    range_b (combine bounds (run_obs mf sched c0)) = true.
Proof.
  intros HI sched c0 H0 bounds Hb. apply range_b_iff. unfold RangeOK. apply Forall_forall.
  intros [[sq sn] t] Hin.
  pose proof (in_combine_l _ _ _ _ Hin) as Hl. pose proof (in_combine_r _ _ _ _ Hin) as Hr.
  rewrite Forall_forall in Hb. destruct (Hb _ Hl) as (Hq & Hn). cbn [fst snd] in Hq, Hn.
  unfold run_obs in Hr. apply in_map_iff in Hr. destruct Hr as (n & <- & _).
  pose proof (C12.C12_every_prefix mf HI sched n c0 H0) as H. cbv zeta in H.
  eapply InRange_of_conclusion; [exact H | exact Hq | exact Hn].
Qed.

(* the final observation alone, from C12_counters_bounded *)
Theorem range_judge_sound_final mf :
  I_cons mf ->
  forall sched c0, ConcSpec.Inv c0 ->
  forall sq sn, ConcSpec.Supplied c0 <= sq -> ConcSpec.OrdersB c0 <= sn ->
    range_b [((sq, sn), counters_of (cf_sh (fst (exec mf sched c0))))] = true.
Proof.
  intros HI sched c0 H0 sq sn Hq Hn. apply range_b_iff. constructor; [|constructor].
  pose proof (C12.C12_counters_bounded mf HI sched c0 H0) as H. cbv zeta in H.
  eapply InRange_of_conclusion; [exact H | exact Hq | exact Hn].
Qed.

(* ---- "supplied SO FAR": the calls that have not begun yet have put nothing under the counters;
   the judge may use the tighter bound  Supplied c0 - (budget of the calls still to begin).
   (Needs the invariant itself, not only the conclusion of C12_counters_bounded: C03_reachable.) *)
Definition TodoBudget (c : config) : N :=
  ConcSpec.tsum (fun t => ConcSpec.todo_budget (sh_price (cf_sh c)) (th_todo t)) (cf_threads c).
Definition TodoOrders (c : config) : N :=
  ConcSpec.tsum (fun t => ConcSpec.todo_bc (th_todo t)) (cf_threads c).

Lemma Inv_counters_begun c :
  ConcSpec.Inv c ->
  sh_cvis (cf_sh c) + sh_chid (cf_sh c) + TodoBudget c <= ConcSpec.Supplied c /\
  sh_ccnt (cf_sh c) + TodoOrders c <= ConcSpec.OrdersB c.
Proof.
  intros ((Jv & Jh & Jc) & _ & _ & _). cbv zeta in Jv, Jh, Jc.
  unfold ConcSpec.Supplied, ConcSpec.OrdersB, ConcSpec.sumt, TodoBudget, TodoOrders.
  set (price := sh_price (cf_sh c)). set (ts := cf_threads c) in *.
  assert (E1 : ConcSpec.tsum (ConcSpec.tbudget price) ts =
               ConcSpec.tsum (fun t => ConcSpec.budget (th_pc t)) ts +
               ConcSpec.tsum (fun t => ConcSpec.todo_budget price (th_todo t)) ts).
  { rewrite <- tsum_add. apply tsum_ext. intros t. reflexivity. }
  assert (E2 : ConcSpec.tsum ConcSpec.tbc ts =
               ConcSpec.tsum (fun t => ConcSpec.bc (th_pc t)) ts +
               ConcSpec.tsum (fun t => ConcSpec.todo_bc (th_todo t)) ts).
  { rewrite <- tsum_add. apply tsum_ext. intros t. reflexivity. }
  assert (L1 : ConcSpec.tsum (fun t => ConcSpec.pendv (th_pc t)) ts +
               ConcSpec.tsum (fun t => ConcSpec.pendh (th_pc t)) ts <=
               ConcSpec.tsum (fun t => ConcSpec.budget (th_pc t)) ts).
  { rewrite <- tsum_add. apply tsum_le. intros t. apply ConcInv.pend_le_budget. }
  assert (L2 : ConcSpec.tsum (fun t => ConcSpec.pendc (th_pc t)) ts <=
               ConcSpec.tsum (fun t => ConcSpec.bc (th_pc t)) ts).
  { apply tsum_le. intros t. apply ConcInv.pendc_le_bc. }
  split; lia.
Qed.

Theorem range_judge_sound_so_far mf :
  I_cons mf ->
  forall sched n c0, ConcSpec.Inv c0 ->
  forall sq sn,
    let c := fst (exec mf (firstn n sched) c0) in
    ConcSpec.Supplied c0 - TodoBudget c <= sq ->
    ConcSpec.OrdersB c0 - TodoOrders c <= sn ->
    range_b [((sq, sn), counters_of (cf_sh c))] = true.
Proof.
  intros HI sched n c0 H0 sq sn c Hq Hn. apply range_b_iff. constructor; [|constructor].
  destruct (C03.C03_reachable mf HI (firstn n sched) c0 H0) as (Hc & LS & LO). fold c in Hc, LS, LO.
  destruct (Inv_counters_begun c Hc) as (A & B).
  cbn [RowOK counters_of]. unfold InRange. lia.
Qed.

(* ================================================================== *)
(* C08: handout_b                                                      *)

Lemma mem_oid_iff k l : mem_oid k l = true <-> In k l.
Proof.
  unfold mem_oid. rewrite existsb_exists. split.
  - intros (x & Hin & E). apply oid_eqb_eq in E. subst x. exact Hin.
  - intros Hin. exists k. split; [exact Hin | apply oid_eqb_refl].
Qed.

Lemma in_drop_oid x k l : In x (drop_oid k l) <-> In x l /\ x <> k.
Proof.
  unfold drop_oid. rewrite filter_In, negb_true_iff. split; intros [H1 H2]; split; try exact H1.
  - intros ->. rewrite oid_eqb_refl in H2. discriminate.
  - apply oid_eqb_neq. intros E. apply H2. symmetry. exact E.
Qed.

Lemma inserts_nil k : ~ inserts k [].
Proof. intros (i & o & [] & _). Qed.

Lemma inserts_cons k i e t :
  inserts k ((i, e) :: t) <-> (exists o, e = EInsert o /\ oid_of o = k) \/ inserts k t.
Proof.
  unfold inserts. split.
  - intros (j & o & [E|Hin] & Ho).
    + inversion E; subst. left. exists o. split; reflexivity.
    + right. exists j, o. split; assumption.
  - intros [(o & -> & Ho)|(j & o & Hin & Ho)].
    + exists i, o. split; [left; reflexivity | exact Ho].
    + exists j, o. split; [right; exact Hin | exact Ho].
Qed.

Lemma inserts_dec k t : {inserts k t} + {~ inserts k t}.
Proof.
  induction t as [|[i e] t IH].
  - right. apply inserts_nil.
  - destruct IH as [IH|IH]; [left; apply inserts_cons; right; exact IH|].
    destruct e as [x n old|x n old|x v|o|k' r|k' r|k'|r|n];
      try (right; intros H; apply inserts_cons in H; destruct H as [(o' & E & _)|H];
           [discriminate E | exact (IH H)]).
    destruct (oid_eq_dec (oid_of o) k) as [E|Hne].
    + left. apply inserts_cons. left. exists o. split; [reflexivity | exact E].
    + right. intros H. apply inserts_cons in H. destruct H as [(o' & E & Ho)|H]; [|exact (IH H)].
      inversion E; subst o'. exact (Hne Ho).
Qed.

Definition HandoutOk (live : list oid) (e : ev) : Prop :=
  match e with
  | ERemove k (Some _) => In k live
  | _ => True
  end.

Lemma handout_ok_b_iff live e : handout_ok_b live e = true <-> HandoutOk live e.
Proof.
  destruct e as [x n old|x n old|x v|o|k' [r|]|k' r|k'|r|n]; cbn [handout_ok_b HandoutOk];
    try (split; [intros _; exact I | reflexivity]).
  apply mem_oid_iff.
Qed.

(* what is live after one more event *)
Lemma in_live_step k live e :
  In k (live_step live e) ->
  (exists o, e = EInsert o /\ oid_of o = k) \/
  (In k live /\ forall o, e <> ERemove k (Some o)).
Proof.
  destruct e as [x n old|x n old|x v|o|k' [r|]|k' r|k'|r|n]; cbn [live_step];
    try (intros H; right; split; [exact H | intros o' E; discriminate E]).
  - intros [E|H]; [left; exists o; split; [reflexivity | exact E]|].
    right. split; [exact H | intros o' E; discriminate E].
  - intros H. apply in_drop_oid in H. destruct H as (H & Hne). right. split; [exact H|].
    intros o' E. inversion E. congruence.
Qed.

Lemma live_step_keeps k live e :
  In k live -> (forall o, e <> ERemove k (Some o)) -> In k (live_step live e).
Proof.
  intros Hin Hne.
  destruct e as [x n old|x n old|x v|o|k' [r|]|k' r|k'|r|n]; cbn [live_step]; try exact Hin.
  - right. exact Hin.
  - apply in_drop_oid. split; [exact Hin|]. intros ->. exact (Hne r eq_refl).
Qed.

Lemma HandoutOnce_nil init : HandoutOnce init [].
Proof.
  split.
  - intros k t1 i o1 t2 j o2 t3 E. destruct t1; discriminate E.
  - intros k t1 j o t2 E. destruct t1; discriminate E.
Qed.

Lemma HandoutOnce_cons init i e tr :
  HandoutOnce init ((i, e) :: tr) <-> HandoutOk init e /\ HandoutOnce (live_step init e) tr.
Proof.
  split.
  - intros (H1 & H2). split; [|split].
    + destruct e as [x n old|x n old|x v|o|k' [r|]|k' r|k'|r|n]; cbn [HandoutOk]; try exact I.
      destruct (H2 k' [] i r tr eq_refl) as [Hi|Hi]; [|exact Hi].
      exfalso. exact (inserts_nil _ Hi).
    + intros k t1 i1 o1 t2 j o2 t3 E.
      apply (H1 k ((i, e) :: t1) i1 o1 t2 j o2 t3). rewrite E. reflexivity.
    + intros k t1 j o t2 E.
      destruct (H2 k ((i, e) :: t1) j o t2) as [Hi|Hi]; [rewrite E; reflexivity| |].
      * apply inserts_cons in Hi. destruct Hi as [(o' & -> & Ho)|Hi]; [|left; exact Hi].
        right. cbn [live_step]. left. exact Ho.
      * destruct e as [x n old|x n old|x v|o'|k' [r|]|k' r|k'|r|n]; cbn [live_step];
          try (right; exact Hi).
        -- right. right. exact Hi.
        -- destruct (oid_eq_dec k k') as [->|Hne].
           ++ left. apply (H1 k' [] i r t1 j o t2). rewrite E. reflexivity.
           ++ right. apply in_drop_oid. split; assumption.
  - intros (H0 & H1 & H2). split.
    + intros k t1 i1 o1 t2 j o2 t3 E. destruct t1 as [|[i' e'] t1']; cbn [app] in E.
      * inversion E; subst. destruct (H2 k t2 j o2 t3 eq_refl) as [Hi|Hi]; [exact Hi|].
        cbn [live_step] in Hi. apply in_drop_oid in Hi. destruct Hi as (_ & Hne).
        exfalso. apply Hne. reflexivity.
      * inversion E; subst. exact (H1 k t1' i1 o1 t2 j o2 t3 eq_refl).
    + intros k t1 j o t2 E. destruct t1 as [|[i' e'] t1']; cbn [app] in E.
      * inversion E; subst. right. exact H0.
      * inversion E; subst. destruct (H2 k t1' j o t2 eq_refl) as [Hi|Hi].
        -- left. apply inserts_cons. right. exact Hi.
        -- apply in_live_step in Hi. destruct Hi as [Hi|(Hi & _)].
           ++ left. apply inserts_cons. left. exact Hi.
           ++ right. exact Hi.
Qed.

Lemma handout_b_iff tr : forall live, handout_b live tr = true <-> HandoutOnce live tr.
Proof.
  induction tr as [|[i e] tr IH]; intros live.
  - cbn [handout_b]. split; [intros _; apply HandoutOnce_nil | reflexivity].
  - cbn [handout_b]. rewrite andb_true_iff, IH, HandoutOnce_cons, handout_ok_b_iff. reflexivity.
Qed.

(* C08_no_double_handout + C08_handout_is_initial => the judge accepts the trace of every run *)
Theorem handout_judge_sound mf sched c c' tr :
  exec mf sched c = (c', tr) ->
  handout_b (ids (sh_map (cf_sh c))) tr = true.
Proof.
  intros He. apply handout_b_iff. split.
  - intros k t1 i o1 t2 j o2 t3 E. rewrite E in He.
    exact (C08.C08_no_double_handout mf sched c c' k t1 i o1 t2 j o2 t3 He).
  - intros k t1 j o t2 E. rewrite E in He.
    destruct (inserts_dec k t1) as [Hi|Hn]; [left; exact Hi | right].
    pose proof (C08.C08_handout_is_initial mf sched c c' k t1 j o t2 He Hn) as Hl.
    exact (ConcLemmas.lookup_in_ids _ _ _ Hl).
Qed.

(* ================================================================== *)
(* C08: cells_b / final_cells_b                                        *)

Lemma lookup_map_step k m e : lookup k (map_step m e) = track k (lookup k m) e.
Proof.
  destruct e as [x n old|x n old|x v|o|k' r|k' r|k'|r|n]; cbn [map_step track]; try reflexivity.
  - apply lookup_upsert.
  - apply lookup_remove_key.
Qed.

Lemma lookup_replay k tr : forall m, lookup k (replay_map m tr) = cell_after k (lookup k m) tr.
Proof.
  induction tr as [|[i e] tr IH]; intros m; [reflexivity|].
  change (replay_map m ((i, e) :: tr)) with (replay_map (map_step m e) tr).
  change (cell_after k (lookup k m) ((i, e) :: tr)) with (cell_after k (track k (lookup k m) e) tr).
  rewrite IH, lookup_map_step. reflexivity.
Qed.

Lemma obs_ok_b_iff m e : obs_ok_b m e = true <-> forall k, ev_ok k (lookup k m) e.
Proof.
  destruct e as [x n old|x n old|x v|o|k' r|k' r|k'|r|n]; cbn [obs_ok_b ev_ok];
    try (split; [intros _ k; exact I | reflexivity]).
  - rewrite oo_eqb_iff. split; [intros H k <-; exact H | intros H; exact (H k' eq_refl)].
  - rewrite oo_eqb_iff. split; [intros H k <-; exact H | intros H; exact (H k' eq_refl)].
Qed.

Lemma cells_b_iff tr : forall m, cells_b m tr = true <-> CellsOK m tr.
Proof.
  unfold CellsOK. induction tr as [|[i e] tr IH]; intros m.
  - cbn [cells_b trace_ok]. split; [intros _ k; exact I | reflexivity].
  - cbn [cells_b trace_ok]. rewrite andb_true_iff, IH, obs_ok_b_iff. split.
    + intros (A & B) k. split; [apply A|]. rewrite <- lookup_map_step. apply B.
    + intros H. split; intros k; destruct (H k) as (A & B); [exact A|].
      rewrite lookup_map_step. exact B.
Qed.

Lemma final_cells_b_iff m tr fin : final_cells_b m tr fin = true <-> FinalCells m tr fin.
Proof.
  unfold final_cells_b, FinalCells. rewrite same_book_b_iff. unfold same_book.
  split; intros H k; specialize (H k); rewrite lookup_replay in *; exact H.
Qed.

(* the cell discipline implies the hand-out discipline: the strong judge subsumes the weak one *)
Lemma CellsOK_HandoutOnce m tr : CellsOK m tr -> HandoutOnce (ids m) tr.
Proof.
  intros H. split.
  - intros k t1 i o1 t2 j o2 t3 E. specialize (H k). rewrite E in H.
    exact (no_double_handout k _ t1 i o1 t2 j o2 t3 H).
  - intros k t1 j o t2 E. specialize (H k). rewrite E in H.
    destruct (inserts_dec k t1) as [Hi|Hn]; [left; exact Hi | right].
    pose proof (handout_is_initial k _ t1 j o t2 Hn H) as Hl.
    exact (ConcLemmas.lookup_in_ids _ _ _ Hl).
Qed.

Theorem cells_b_handout_b m tr : cells_b m tr = true -> handout_b (ids m) tr = true.
Proof. intros H. apply handout_b_iff, CellsOK_HandoutOnce, cells_b_iff, H. Qed.

(* C08_trace_cell => both judges accept every run; [fin] is any listing that is the final map as a
   finite map, e.g. any permutation of it *)
Theorem cells_judge_sound mf sched c c' tr :
  exec mf sched c = (c', tr) ->
  cells_b (sh_map (cf_sh c)) tr = true /\
  forall fin, same_book fin (sh_map (cf_sh c')) ->
    final_cells_b (sh_map (cf_sh c)) tr fin = true.
Proof.
  intros He. split.
  - apply cells_b_iff. intros k. exact (proj1 (C08.C08_trace_cell mf k sched c c' tr He)).
  - intros fin Hf. apply final_cells_b_iff. intros k. rewrite (Hf k).
    exact (proj2 (C08.C08_trace_cell mf k sched c c' tr He)).
Qed.

Corollary cells_judge_sound_listing mf sched c c' tr fin :
  exec mf sched c = (c', tr) ->
  NoDup (ids (sh_map (cf_sh c))) ->
  Permutation fin (sh_map (cf_sh c')) ->
  final_cells_b (sh_map (cf_sh c)) tr fin = true.
Proof.
  intros He ND P. apply (proj2 (cells_judge_sound mf sched c c' tr He)).
  assert (ND' : NoDup (ids (sh_map (cf_sh c')))).
  { assert (Hex : forall sched c, NoDup (ids (sh_map (cf_sh c))) ->
                    NoDup (ids (sh_map (cf_sh (fst (exec mf sched c)))))).
    { clear. induction sched as [|i rest IH]; intros c ND; cbn [exec]; [exact ND|].
      destruct (cstep mf c i) as [[c1 e]|] eqn:Es; [|apply IH; exact ND].
      pose proof (C08.C08_map_nodup_step mf c i c1 e ND Es) as ND1. specialize (IH c1 ND1).
      destruct (exec mf rest c1) as [c2 tr2]. exact IH. }
    specialize (Hex sched c ND). rewrite He in Hex. exact Hex. }
  intros k. symmetry. exact (perm_same_book fin (sh_map (cf_sh c')) ND' P k).
Qed.

(* ================================================================== *)
(* C08: drained_b                                                      *)

Lemma drained_b_iff remaining after cv ch cc :
  drained_b remaining after cv ch cc = true <-> Drained remaining after cv ch cc.
Proof.
  unfold drained_b, Drained. rewrite andb_true_iff, agg_b_iff, orb_true_iff, forallb_forall, N.eqb_eq.
  split; intros (A & B); (split; [|exact B]).
  - intros Hr o Hin. destruct A as [A|A]; [lia|]. apply N.eqb_eq. exact (A o Hin).
  - destruct (N.eq_dec remaining 0) as [E|Hne]; [left; exact E | right].
    intros o Hin. apply N.eqb_eq. apply A; [lia | exact Hin].
Qed.

(* C08_drain_after_quiescence (+ C01_match from the level at quiescence) => the judge accepts the
   draining match of every run of the model; [after] is any listing of what remains *)
Theorem drain_judge_sound mf :
  I_cons mf ->
  forall l gen progs sched c tr fuel g qty taker l' g' r after,
    ConcSpec.wf_progs l progs -> Covered (lq l) ->
    exec mf sched (ConcSpec.init_config l gen progs) = (c, tr) ->
    quiescent c = true ->
    match_order mf fuel (level_of_config c) g qty taker = Some (l', g', r) ->
    Permutation after (resting l') ->
    drained_b (r_remaining r) after (cvis l') (chid l') (ccnt l') = true.
Proof.
  intros HI l gen progs sched c tr fuel g qty taker l' g' r after Hwf Hcov He Hq Hm P.
  pose proof (C03.C03_init l gen progs Hwf) as H0.
  assert (Ec : fst (exec mf sched (ConcSpec.init_config l gen progs)) = c) by (rewrite He; reflexivity).
  assert (HInv : LevelInv.Inv (level_of_config c)).
  { split; [|split].
    - pose proof (C03.C03_quiescent_aggregates mf HI sched _ H0) as HA. cbv zeta in HA. rewrite Ec in HA.
      exact (proj1 (HA Hq)).
    - apply (C08.C08_quiescent_wfqueue mf l gen progs sched c tr); [|exact He|exact Hq].
      split; [|exact Hcov]. destruct Hwf as (_ & ND & _). exact (NoDup_app_l _ _ ND).
    - pose proof (C12.C12_counters_bounded mf HI sched _ H0) as HC. cbv zeta in HC. rewrite Ec in HC.
      destruct HC as (_ & _ & C3 & C4 & C5 & C6 & C7 & C8 & C9).
      unfold Fits, resting, level_of_config, level_of_shared. cbn [lq qmap].
      unfold ConcSpec.lenN in C9. split; lia. }
  destruct (C01.C01_match mf HI fuel _ g qty taker l' g' r HInv Hm) as (((Av & Ah & Ac) & _) & _).
  apply drained_b_iff. split.
  - intros Hr o Hin.
    apply (C08.C08_drain_after_quiescence mf HI l gen progs sched c tr fuel g qty taker l' g' r Hcov He Hq Hm Hr).
    apply (Permutation_in _ P). exact Hin.
  - rewrite (sumv_perm _ _ P), (sumh_perm _ _ P), (length_perm_N _ _ P). repeat split; assumption.
Qed.

(* ================================================================== *)
(* C03: agg_b at quiescence                                            *)

(* C03_quiescent_aggregates => `JUDGE agg` accepts the final aggregates against any listing
   (permutation) of the resting orders, for every run of the model that has come to rest *)
Theorem quiescent_agg_judge_sound mf :
  I_cons mf ->
  forall sched c0, ConcSpec.Inv c0 ->
  let c := fst (exec mf sched c0) in
  quiescent c = true ->
  forall listing, Permutation listing (sh_map (cf_sh c)) ->
    agg_b (sh_cvis (cf_sh c)) (sh_chid (cf_sh c)) (sh_ccnt (cf_sh c)) listing = true.
Proof.
  intros HI sched c0 H0 c Hq listing P.
  destruct (C03.C03_quiescent_aggregates mf HI sched c0 H0 Hq) as ((Av & Ah & Ac) & _).
  fold c in Av, Ah, Ac. cbn in Av, Ah, Ac.
  apply agg_b_iff. rewrite (sumv_perm _ _ P), (sumh_perm _ _ P), (length_perm_N _ _ P).
  repeat split; assumption.
Qed.

(* ... and with it the listing shows every resting id once *)
Theorem quiescent_nodup_judge_sound mf :
  I_cons mf ->
  forall sched c0, ConcSpec.Inv c0 ->
  let c := fst (exec mf sched c0) in
  quiescent c = true ->
  forall listing, Permutation listing (sh_map (cf_sh c)) -> NoDup (ids listing).
Proof.
  intros HI sched c0 H0 c Hq listing P.
  destruct (C03.C03_quiescent_aggregates mf HI sched c0 H0 Hq) as (_ & ND). fold c in ND.
  exact (NoDup_ids_perm _ _ (Permutation_sym P) ND).
Qed.
