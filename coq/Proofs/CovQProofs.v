(* CovQProofs.v — C08, second half: the exported order queue used on its own from
   several threads (Model/ConcQ.v).  Coverage invariant, map ids unique, what
   they give at quiescence, exactly-once hand-out along traces, [qaccept] is
   sound, and the counter-model with the two halves of push swapped. *)
From PL Require Spec.QueueSpec Proofs.QueueProofs.
From PL Require Import Spec.CovQSpec Proofs.ConcLemmas Proofs.CovProofs Proofs.SeqConc.
From Coq Require Import Lia Permutation.
Local Open Scope N_scope.

(* ================= 0. qcstep / qexec basics ================= *)

Lemma qcstep_inv c i c' e :
  qcstep c i = Some (c', e) ->
  exists t p' s',
    nth_error (qc_threads c) i = Some t /\
    qtstep (qt_pc t) (qc_sh c) = Some (p', s', e) /\
    c' = mkQconfig s' (update_nth i (qsettle (mkQthread p' (qt_todo t) (qt_rets t))) (qc_threads c)).
Proof.
  unfold qcstep. destruct (nth_error (qc_threads c) i) as [t|] eqn:En; [|discriminate].
  destruct (qtstep (qt_pc t) (qc_sh c)) as [[[p' s'] e']|] eqn:Et; [|discriminate].
  intros H. inversion H; subst. exists t, p', s'. auto.
Qed.

Lemma qsettle_not_done p td rs :
  (forall r, p <> QDone r) -> qsettle (mkQthread p td rs) = mkQthread p td rs.
Proof.
  intros H. unfold qsettle. cbn. destruct p; try reflexivity. exfalso. eapply H. reflexivity.
Qed.

Lemma qexec_invariant (P : qconfig -> Prop) :
  (forall c i c' e, P c -> qcstep c i = Some (c', e) -> P c') ->
  forall sched c, P c -> P (fst (qexec sched c)).
Proof.
  intros Hstep sched. induction sched as [|i rest IH]; intros c Hc; cbn; [exact Hc|].
  destruct (qcstep c i) as [[c' e]|] eqn:Es.
  - specialize (IH c' (Hstep _ _ _ _ Hc Es)).
    destruct (qexec rest c') as [c'' tr]. exact IH.
  - apply IH, Hc.
Qed.

Lemma qexec_app s1 s2 c :
  qexec (s1 ++ s2) c =
  let '(c1, t1) := qexec s1 c in
  let '(c2, t2) := qexec s2 c1 in (c2, t1 ++ t2).
Proof.
  revert c. induction s1 as [|i s1 IH]; intros c; cbn.
  - destruct (qexec s2 c). reflexivity.
  - destruct (qcstep c i) as [[c' e]|]; [|apply IH].
    rewrite IH. destruct (qexec s1 c') as [c1 t1]. destruct (qexec s2 c1) as [c2 t2]. reflexivity.
Qed.

(* the generic runner of Spec/CovQSpec.v, instantiated with the model's step
   function, is the model's runner *)
Lemma qcstep_with_qtstep c i : qcstep_with qtstep c i = qcstep c i.
Proof. reflexivity. Qed.

Lemma qexec_with_qtstep sched : forall c, qexec_with qtstep sched c = qexec sched c.
Proof.
  induction sched as [|i rest IH]; intros c; cbn; [reflexivity|].
  rewrite qcstep_with_qtstep. destruct (qcstep c i) as [[c' e]|]; [|apply IH].
  rewrite IH. reflexivity.
Qed.

(* ---------------- the effect of one step on map and tickets ---------------- *)
Definition qev_effect (e : ev) (p' p : qpc) (s s' : qshared) : Prop :=
  match e with
  | EInsert o =>
      qs_map s' = upsert o (qs_map s) /\ qs_tk s' = qs_tk s /\ qins_pending p' (oid_of o)
  | EPush k =>
      qs_map s' = qs_map s /\ qs_tk s' = qs_tk s ++ [k] /\ qins_pending p k
  | EPop (Some k) =>
      qs_map s' = qs_map s /\ qs_tk s = k :: qs_tk s' /\ qrem_pending p' k
  | ERemove k r =>
      r = lookup k (qs_map s) /\ qs_map s' = remove_key k (qs_map s) /\ qs_tk s' = qs_tk s
  | EGet k r =>
      r = lookup k (qs_map s) /\ qs_map s' = qs_map s /\ qs_tk s' = qs_tk s
  | EPop None | EIter _ => qs_map s' = qs_map s /\ qs_tk s' = qs_tk s
  | EFetchAdd _ _ _ | EFetchSub _ _ _ | ELoad _ _ => False
  end.

Ltac qtstep_inv H :=
  cbn [qtstep] in H;
  repeat match type of H with
  | context [match qs_tk ?s with _ => _ end] => destruct (qs_tk s) eqn:?
  | context [match lookup ?k ?m with _ => _ end] => destruct (lookup k m) eqn:?
  end;
  inversion H; subst; clear H.

Lemma qtstep_facts p s p' s' e :
  qtstep p s = Some (p', s', e) ->
  qev_effect e p' p s s' /\
  (forall k, qins_pending p k -> e = EPush k) /\
  (forall k, qrem_pending p k -> exists r, e = ERemove k r).
Proof.
  intros H.
  destruct p; qtstep_inv H; unfold qev_effect; cbn;
    repeat split; try reflexivity; try (intros ? []); try (intros; subst; reflexivity);
    try (intros; subst; eexists; reflexivity);
    try (symmetry; assumption);
    try (symmetry; apply remove_key_none; assumption);
    try assumption.
Qed.

(* ================= 1. coverage invariant ================= *)

(* the invariant, spelled out with the program points by name *)
Lemma QCov_explicit c :
  QCov c <->
  forall x, In x (qs_map (qc_sh c)) ->
    In (oid_of x) (qs_tk (qc_sh c)) \/
    (exists i t o, nth_error (qc_threads c) i = Some t /\ qt_pc t = QP2 o /\ oid_of o = oid_of x) \/
    (exists i t, nth_error (qc_threads c) i = Some t /\ qt_pc t = QO2 (oid_of x)).
Proof.
  split; intros H x Hx; (destruct (H x Hx) as [H1|[H1|H1]]; [left; exact H1 | right; left | right; right]).
  - destruct H1 as (i & t & Hn & Hp). destruct (qt_pc t) eqn:E; try contradiction.
    exists i, t, o. auto.
  - destruct H1 as (i & t & Hn & Hp). destruct (qt_pc t) eqn:E; try contradiction.
    cbn in Hp. subst. exists i, t. auto.
  - destruct H1 as (i & t & o & Hn & Hp & Ho). exists i, t. rewrite Hp. auto.
  - destruct H1 as (i & t & Hn & Hp). exists i, t. rewrite Hp. split; [exact Hn | reflexivity].
Qed.

Lemma QCov_pending c :
  QCov c <->
  forall x, In x (qs_map (qc_sh c)) ->
    In (oid_of x) (qs_tk (qc_sh c)) \/
    exists i t, nth_error (qc_threads c) i = Some t /\ qpending (qt_pc t) (oid_of x).
Proof.
  unfold qpending. split; intros H x Hx.
  - destruct (H x Hx) as [H1|[(i & t & Hn & Hp)|(i & t & Hn & Hp)]]; [left; exact H1 | |];
      right; exists i, t; auto.
  - destruct (H x Hx) as [H1|(i & t & Hn & [Hp|Hp])]; [left; exact H1 | |].
    + right. left. exists i, t. auto.
    + right. right. exists i, t. auto.
Qed.

Lemma qpending_not_done p k : qpending p k -> forall r, p <> QDone r.
Proof. intros [H|H] r E; subst p; exact H. Qed.

Lemma QCov_step c i c' e : QCov c -> qcstep c i = Some (c', e) -> QCov c'.
Proof.
  rewrite !QCov_pending. intros HC Hs.
  destruct (qcstep_inv _ _ _ _ Hs) as (t & p' & s' & Hn & Ht & ->).
  destruct (qtstep_facts _ _ _ _ _ Ht) as (Hev & Hins & Hrem).
  set (t' := qsettle (mkQthread p' (qt_todo t) (qt_rets t))) in *.
  (* a thread other than i keeps its program point *)
  assert (Hother : forall j tj k, j <> i -> nth_error (qc_threads c) j = Some tj ->
            qpending (qt_pc tj) k ->
            exists j' t0, nth_error (update_nth i t' (qc_threads c)) j' = Some t0 /\
                          qpending (qt_pc t0) k).
  { intros j tj k Hne Hj Hp. exists j, tj. split; [|exact Hp].
    rewrite nth_error_update_nth_neq by congruence. exact Hj. }
  (* thread i, if its new point is a pending one, stays there *)
  assert (Hself : forall k, qpending p' k ->
            exists j' t0, nth_error (update_nth i t' (qc_threads c)) j' = Some t0 /\
                          qpending (qt_pc t0) k).
  { intros k Hp. exists i, t'. split.
    - eapply nth_error_update_nth_eq. exact Hn.
    - unfold t'. rewrite qsettle_not_done by (eapply qpending_not_done; exact Hp). exact Hp. }
  (* what the step of thread i must have been if thread i was the witness *)
  assert (Hwit : forall k, qpending (qt_pc t) k -> e = EPush k \/ exists r, e = ERemove k r).
  { intros k [H|H]; [left; apply Hins, H | right; apply Hrem, H]. }
  intros x Hx. cbn [qc_sh qc_threads] in *.
  assert (Hold : In x (qs_map (qc_sh c)) ->
            In (oid_of x) (qs_tk (qc_sh c)) \/
            (e = EPush (oid_of x) \/ exists r, e = ERemove (oid_of x) r) \/
            exists j' t0, nth_error (update_nth i t' (qc_threads c)) j' = Some t0 /\
                          qpending (qt_pc t0) (oid_of x)).
  { intros Hin. destruct (HC x Hin) as [Htk|(j & tj & Hj & Hp)]; [left; exact Htk|].
    right. destruct (Nat.eq_dec j i) as [->|Hne].
    - left. rewrite Hn in Hj. inversion Hj; subst tj. apply Hwit, Hp.
    - right. eapply Hother; eassumption. }
  destruct e as [ | | | o | k r | k r | k | [k|] | ]; unfold qev_effect in Hev; try contradiction.
  - (* EInsert o *)
    destruct Hev as (Hm & Htk & Hp). rewrite Hm in Hx. rewrite Htk.
    apply in_upsert in Hx. destruct Hx as [->|[Hx Hne]].
    + right. apply Hself. left. exact Hp.
    + destruct (Hold Hx) as [H|[[H|(r & H)]|H]]; try discriminate; auto.
  - (* ERemove k r *)
    destruct Hev as (Hr & Hm & Htk). rewrite Hm in Hx. rewrite Htk.
    apply in_remove_key in Hx. destruct Hx as [Hx Hne].
    destruct (Hold Hx) as [H|[[H|(r' & H)]|H]]; try discriminate; auto.
    inversion H; subst. congruence.
  - (* EGet *)
    destruct Hev as (Hr & Hm & Htk). rewrite Hm in Hx. rewrite Htk.
    destruct (Hold Hx) as [H|[[H|(r' & H)]|H]]; try discriminate; auto.
  - (* EPush k *)
    destruct Hev as (Hm & Htk & Hp). rewrite Hm in Hx. rewrite Htk.
    destruct (Hold Hx) as [H|[[H|(r' & H)]|H]]; try discriminate; auto.
    + left. apply in_or_app. left. exact H.
    + inversion H; subst. left. apply in_or_app. right. left. reflexivity.
  - (* EPop (Some k) *)
    destruct Hev as (Hm & Htk & Hp). rewrite Hm in Hx.
    destruct (Hold Hx) as [H|[[H|(r' & H)]|H]]; try discriminate; auto.
    rewrite Htk in H. destruct H as [H|H]; [|left; exact H].
    right. apply Hself. right. rewrite <- H. exact Hp.
  - (* EPop None *)
    destruct Hev as (Hm & Htk). rewrite Hm in Hx. rewrite Htk.
    destruct (Hold Hx) as [H|[[H|(r & H)]|H]]; try discriminate; auto.
  - (* EIter *)
    destruct Hev as (Hm & Htk). rewrite Hm in Hx. rewrite Htk.
    destruct (Hold Hx) as [H|[[H|(r & H)]|H]]; try discriminate; auto.
Qed.

Lemma QCov_exec sched c : QCov c -> QCov (fst (qexec sched c)).
Proof. apply qexec_invariant. intros c0 i c' e. apply QCov_step. Qed.

Lemma QCov_init q progs : Covered q -> QCov (qinit_config q progs).
Proof. intros H x Hx. left. apply H. exact Hx. Qed.

Lemma QCov_reachable q progs sched :
  Covered q -> QCov (fst (qexec sched (qinit_config q progs))).
Proof. intros H. apply QCov_exec, QCov_init, H. Qed.

(* coverage is exactly the absence of stranded orders *)
Lemma QCov_not_stranded c x : QCov c -> ~ qstranded c x.
Proof.
  rewrite QCov_pending. intros HC (Hin & Htk & Hth).
  destruct (HC x Hin) as [H|(i & t & Hn & Hp)]; [exact (Htk H) | exact (Hth i t Hn Hp)].
Qed.

(* ================= 2. NoDup (ids qs_map) is invariant ================= *)

Lemma QMapNoDup_step c i c' e : QMapNoDup c -> qcstep c i = Some (c', e) -> QMapNoDup c'.
Proof.
  unfold QMapNoDup. intros HN Hs.
  destruct (qcstep_inv _ _ _ _ Hs) as (t & p' & s' & Hn & Ht & ->).
  destruct (qtstep_facts _ _ _ _ _ Ht) as (Hev & _). cbn [qc_sh].
  destruct e as [ | | | o | k r | k r | k | [k|] | ]; unfold qev_effect in Hev; try contradiction;
    try (destruct Hev as (Hm & _); rewrite Hm; exact HN).
  - destruct Hev as (Hm & _). rewrite Hm. apply NoDup_ids_upsert, HN.
  - destruct Hev as (_ & Hm & _). rewrite Hm. apply NoDup_ids_remove_key, HN.
  - destruct Hev as (_ & Hm & _). rewrite Hm. exact HN.
Qed.

Lemma QMapNoDup_exec sched c : QMapNoDup c -> QMapNoDup (fst (qexec sched c)).
Proof. apply qexec_invariant. intros c0 i c' e. apply QMapNoDup_step. Qed.

Lemma QMapNoDup_reachable q progs sched :
  NoDup (ids (qmap q)) -> QMapNoDup (fst (qexec sched (qinit_config q progs))).
Proof. intros H. apply QMapNoDup_exec. exact H. Qed.

(* ================= 3. quiescence ================= *)

Lemma qquiescent_done c i t :
  qquiescent c = true -> nth_error (qc_threads c) i = Some t -> exists r, qt_pc t = QDone r.
Proof.
  unfold qquiescent. rewrite forallb_forall. intros H Hn.
  specialize (H t (nth_error_In _ _ Hn)). unfold qthread_finished in H.
  destruct (qt_pc t); try discriminate. eexists. reflexivity.
Qed.

Lemma QCov_quiescent c :
  QCov c -> qquiescent c = true -> Covered (queue_of_qconfig c).
Proof.
  rewrite QCov_pending. intros HC Hq x Hx. cbn in *.
  destruct (HC x Hx) as [H|(i & t & Hn & Hp)]; [exact H|].
  destruct (qquiescent_done _ _ _ Hq Hn) as (r & Hr). rewrite Hr in Hp.
  destruct Hp as [[]|[]].
Qed.

Theorem qquiescent_covered q progs sched c tr :
  Covered q ->
  qexec sched (qinit_config q progs) = (c, tr) ->
  qquiescent c = true ->
  Covered (queue_of_qconfig c).
Proof.
  intros HC He Hq. apply QCov_quiescent; [|exact Hq].
  pose proof (QCov_reachable q progs sched HC) as H. rewrite He in H. exact H.
Qed.

Theorem qquiescent_wfqueue q progs sched c tr :
  WfQueue q ->
  qexec sched (qinit_config q progs) = (c, tr) ->
  qquiescent c = true ->
  WfQueue (queue_of_qconfig c).
Proof.
  intros [HN HC] He Hq. split.
  - pose proof (QMapNoDup_reachable q progs sched HN) as H. rewrite He in H. exact H.
  - eapply qquiescent_covered; eassumption.
Qed.

(* the pop order of the quiescent queue lists exactly the ids in the map, once each *)
Theorem qquiescent_reachable_by_pop q progs sched c tr :
  Covered q ->
  qexec sched (qinit_config q progs) = (c, tr) ->
  qquiescent c = true ->
  (forall k, In k (abs (queue_of_qconfig c)) <-> In k (ids (qs_map (qc_sh c)))) /\
  NoDup (abs (queue_of_qconfig c)).
Proof.
  intros HC He Hq. apply (abs_exact (queue_of_qconfig c)). eapply qquiescent_covered; eassumption.
Qed.

(* repeated sequential pops hand out every queued order, each exactly once *)
Theorem qquiescent_drain q progs sched c tr :
  WfQueue q ->
  qexec sched (qinit_config q progs) = (c, tr) ->
  qquiescent c = true ->
  Permutation (QueueSpec.drain (queue_of_qconfig c)) (qs_map (qc_sh c)) /\
  map oid_of (QueueSpec.drain (queue_of_qconfig c)) = abs (queue_of_qconfig c) /\
  NoDup (ids (QueueSpec.drain (queue_of_qconfig c))).
Proof.
  intros HW He Hq.
  pose proof (qquiescent_wfqueue _ _ _ _ _ HW He Hq) as HW'.
  destruct (QueueProofs.drain_spec (queue_of_qconfig c)) as [E _].
  split; [|split].
  - exact (QueueProofs.drain_perm _ HW').
  - exact E.
  - unfold ids. rewrite E. apply pop_order_NoDup.
Qed.

(* a quiescent queue with something in the map never answers "empty" to pop *)
Theorem qquiescent_pop_finds q progs sched c tr :
  Covered q ->
  qexec sched (qinit_config q progs) = (c, tr) ->
  qquiescent c = true ->
  fst (pop (queue_of_qconfig c)) = None -> qs_map (qc_sh c) = [].
Proof.
  intros HC He Hq. apply (Covered_pop_none (queue_of_qconfig c)).
  eapply qquiescent_covered; eassumption.
Qed.

(* ================= 4. handed out exactly once ================= *)

Lemma qcstep_cell c i c' e k :
  qcstep c i = Some (c', e) ->
  ev_ok k (lookup k (qs_map (qc_sh c))) e /\
  lookup k (qs_map (qc_sh c')) = track k (lookup k (qs_map (qc_sh c))) e.
Proof.
  intros Hs.
  destruct (qcstep_inv _ _ _ _ Hs) as (t & p' & s' & Hn & Ht & ->).
  destruct (qtstep_facts _ _ _ _ _ Ht) as (Hev & _). cbn [qc_sh].
  destruct e as [ | | | o | k' r | k' r | k' | [k'|] | ]; unfold qev_effect in Hev; cbn [ev_ok track];
    try contradiction;
    try (destruct Hev as (Hm & _); rewrite Hm; split; [exact I | reflexivity]).
  - destruct Hev as (Hm & _). rewrite Hm. split; [exact I|]. apply lookup_upsert.
  - destruct Hev as (Hr & Hm & _). rewrite Hm. split; [intros ->; exact Hr|]. apply lookup_remove_key.
  - destruct Hev as (Hr & Hm & _). rewrite Hm. split; [intros ->; exact Hr | reflexivity].
Qed.

Lemma qexec_cell k sched : forall c c' tr,
  qexec sched c = (c', tr) ->
  trace_ok k (lookup k (qs_map (qc_sh c))) tr /\
  lookup k (qs_map (qc_sh c')) = cell_after k (lookup k (qs_map (qc_sh c))) tr.
Proof.
  induction sched as [|i rest IH]; intros c c' tr; cbn.
  - intros H. inversion H; subst. split; [exact I | reflexivity].
  - destruct (qcstep c i) as [[c1 e]|] eqn:Es; [|apply IH].
    destruct (qexec rest c1) as [c2 tr2] eqn:Ee. intros H. inversion H; subst.
    destruct (qcstep_cell _ _ _ _ k Es) as (Hok & Hcell).
    destruct (IH _ _ _ Ee) as (Htr & Hfin). rewrite Hcell in Htr, Hfin.
    split; [split; assumption | exact Hfin].
Qed.

Lemma qexec_no_double_handout sched c c' k t1 i o1 t2 j o2 t3 :
  qexec sched c = (c', t1 ++ (i, ERemove k (Some o1)) :: t2 ++ (j, ERemove k (Some o2)) :: t3) ->
  inserts k t2.
Proof.
  intros He. destruct (qexec_cell k sched _ _ _ He) as (H & _).
  eapply no_double_handout. exact H.
Qed.

Lemma qexec_handout_is_last_insert sched c c' k t1 i o t2 j o2 t3 :
  qexec sched c = (c', t1 ++ (i, EInsert o) :: t2 ++ (j, ERemove k (Some o2)) :: t3) ->
  oid_of o = k -> ~ inserts k t2 -> o2 = o.
Proof.
  intros He Ho Hn. destruct (qexec_cell k sched _ _ _ He) as (H & _).
  eapply handout_is_last_insert; eassumption.
Qed.

Lemma qexec_handout_is_initial sched c c' k t1 j o2 t3 :
  qexec sched c = (c', t1 ++ (j, ERemove k (Some o2)) :: t3) ->
  ~ inserts k t1 -> lookup k (qs_map (qc_sh c)) = Some o2.
Proof.
  intros He Hn. destruct (qexec_cell k sched _ _ _ He) as (H & _).
  eapply handout_is_initial; eassumption.
Qed.

(* ---- which steps hand an order out ---- *)

(* a thread step answers [Some o] only from the map remove of a pop, the map
   remove of a remove (both: event ERemove, the order leaves the map), or a find
   (event EGet, nothing changes) *)
Lemma qtstep_returns_some p s s' e o :
  qtstep p s = Some (QDone (QRetOrd (Some o)), s', e) ->
  ((p = QO2 (oid_of o) \/ p = QR (oid_of o)) /\ e = ERemove (oid_of o) (Some o) /\
   lookup (oid_of o) (qs_map s) = Some o /\
   s' = mkQshared (remove_key (oid_of o) (qs_map s)) (qs_tk s)) \/
  (p = QF (oid_of o) /\ e = EGet (oid_of o) (Some o) /\ s' = s).
Proof.
  intros H. destruct p; cbn [qtstep] in H; try discriminate.
  - destruct (qs_tk s); discriminate.
  - destruct (lookup k (qs_map s)) as [x|] eqn:E; [|discriminate].
    injection H as Hx Hs He. subst x s' e.
    destruct (lookup_some _ _ _ E) as [Hk _]. subst k. left. repeat split; auto.
  - destruct (lookup k (qs_map s)) as [x|] eqn:E; [|discriminate].
    injection H as Hx Hs He. subst x s' e.
    destruct (lookup_some _ _ _ E) as [Hk _]. subst k. left. repeat split; auto.
  - injection H as E Hs He. subst s' e.
    destruct (lookup_some _ _ _ E) as [Hk _]. subst k. right. rewrite E. repeat split; auto.
Qed.

(* conversely a successful remove event is the last step of a pop or of a remove,
   and that call returns the removed order *)
Lemma qtstep_handout_event p s p' s' k o :
  qtstep p s = Some (p', s', ERemove k (Some o)) ->
  (p = QO2 k \/ p = QR k) /\ p' = QDone (QRetOrd (Some o)) /\
  lookup k (qs_map s) = Some o /\ oid_of o = k /\
  s' = mkQshared (remove_key k (qs_map s)) (qs_tk s).
Proof.
  intros H. destruct p; cbn [qtstep] in H; try discriminate.
  - destruct (qs_tk s); discriminate.
  - destruct (lookup k0 (qs_map s)) as [x|] eqn:E; [|discriminate].
    injection H as Hp Hs Hk Hx. subst x s' p' k0.
    destruct (lookup_some _ _ _ E) as [Hk _]. repeat split; auto.
  - destruct (lookup k0 (qs_map s)) as [x|] eqn:E; [|discriminate].
    injection H as Hp Hs Hk Hx. subst x s' p' k0.
    destruct (lookup_some _ _ _ E) as [Hk _]. repeat split; auto.
Qed.

(* the result a thread has just produced: still in its pc, or already filed
   because the thread moved on to its next call *)
Definition qjust_returned (t : qthread) (r : qret) : Prop :=
  qt_pc t = QDone r \/ exists rs, qt_rets t = rs ++ [r].

Lemma qsettle_returned p td rs r :
  p = QDone r -> qjust_returned (qsettle (mkQthread p td rs)) r.
Proof.
  intros ->. unfold qsettle. cbn. destruct td as [|c cs]; cbn.
  - left. reflexivity.
  - right. exists rs. reflexivity.
Qed.

(* scheduler level: a successful-remove event of thread i is exactly the final
   step of a pop or remove call of thread i, which returns that order *)
Lemma qcstep_handout c i c' k o :
  qcstep c i = Some (c', ERemove k (Some o)) ->
  exists t t',
    nth_error (qc_threads c) i = Some t /\ (qt_pc t = QO2 k \/ qt_pc t = QR k) /\
    lookup k (qs_map (qc_sh c)) = Some o /\ oid_of o = k /\
    nth_error (qc_threads c') i = Some t' /\ qjust_returned t' (QRetOrd (Some o)) /\
    lookup k (qs_map (qc_sh c')) = None.
Proof.
  intros Hs. destruct (qcstep_inv _ _ _ _ Hs) as (t & p' & s' & Hn & Ht & ->).
  destruct (qtstep_handout_event _ _ _ _ _ _ Ht) as (Hp & Hp' & Hl & Ho & ->).
  eexists t, _. repeat split; try eassumption.
  - cbn. eapply nth_error_update_nth_eq. exact Hn.
  - apply qsettle_returned. exact Hp'.
  - cbn. rewrite lookup_remove_key, oid_eqb_refl. reflexivity.
Qed.

(* a pop or remove step that finds the order emits the successful-remove event *)
Lemma qcstep_successful_pop_or_remove c i t k o :
  nth_error (qc_threads c) i = Some t -> (qt_pc t = QO2 k \/ qt_pc t = QR k) ->
  lookup k (qs_map (qc_sh c)) = Some o ->
  exists c', qcstep c i = Some (c', ERemove k (Some o)).
Proof.
  intros Hn Hp Hl. unfold qcstep. rewrite Hn.
  destruct Hp as [Hp|Hp]; rewrite Hp; cbn [qtstep]; rewrite Hl; eexists; reflexivity.
Qed.

(* ---- counting ---- *)

Lemma count_ev_cons f i e tr :
  count_ev f ((i, e) :: tr) = (b2n (f e) + count_ev f tr)%nat.
Proof. unfold count_ev. cbn. destruct (f e); reflexivity. Qed.

(* conservation along a trace for one id: what was in the cell plus what was
   inserted = what was handed out + what was overwritten + what is left *)
Lemma cell_balance k tr : forall cur,
  trace_ok k cur tr ->
  (b2n (is_some cur) + count_ev (is_insert_of k) tr =
   count_ev (is_handout_of k) tr + overwrites k cur tr + b2n (is_some (cell_after k cur tr)))%nat.
Proof.
  induction tr as [|[i e] tr IH]; intros cur H.
  - cbn. unfold count_ev. cbn. lia.
  - cbn [trace_ok] in H. destruct H as (Hok & H). specialize (IH _ H).
    change (cell_after k cur ((i, e) :: tr)) with (cell_after k (track k cur e) tr).
    rewrite !count_ev_cons. cbn [overwrites].
    destruct e as [ | | | o | k' r | k' r | k' | r | n ]; cbn [track is_insert_of is_handout_of] in *;
      try (cbn [b2n andb]; lia).
    + destruct (oid_eqb k (oid_of o)) eqn:E; cbn [b2n andb is_some] in *; [|lia].
      destruct cur; cbn [is_some b2n] in *; lia.
    + destruct (oid_eqb k k') eqn:E.
      * apply oid_eqb_eq in E. subst k'. cbn [ev_ok] in Hok. specialize (Hok eq_refl). subst r.
        destruct cur; cbn [is_some b2n andb] in *; lia.
      * destruct r; cbn [b2n andb]; lia.
Qed.

(* at most once: the orders with id k handed out are no more than the orders with
   id k handed in (initially present or inserted) *)
Lemma handouts_le_inserts k cur tr :
  trace_ok k cur tr ->
  (count_ev (is_handout_of k) tr <= b2n (is_some cur) + count_ev (is_insert_of k) tr)%nat.
Proof. intros H. pose proof (cell_balance k tr cur H). lia. Qed.

Lemma qexec_cell_balance k sched c c' tr :
  qexec sched c = (c', tr) ->
  (b2n (is_some (lookup k (qs_map (qc_sh c)))) + count_ev (is_insert_of k) tr =
   count_ev (is_handout_of k) tr + overwrites k (lookup k (qs_map (qc_sh c))) tr +
   b2n (is_some (lookup k (qs_map (qc_sh c')))))%nat.
Proof.
  intros He. destruct (qexec_cell k sched _ _ _ He) as (H & Hfin).
  rewrite Hfin. apply cell_balance, H.
Qed.

Lemma qexec_handouts_le_inserts k sched c c' tr :
  qexec sched c = (c', tr) ->
  (count_ev (is_handout_of k) tr <=
   b2n (is_some (lookup k (qs_map (qc_sh c)))) + count_ev (is_insert_of k) tr)%nat.
Proof. intros He. pose proof (qexec_cell_balance k _ _ _ _ He). lia. Qed.

(* ================= 5. accepted traces are runs of [qexec] ================= *)

Lemma qaccept_sound_gen tr : forall c pos c',
  qaccept tr c pos = (c', None) -> qexec (map fst tr) c = (c', tr).
Proof.
  induction tr as [|[i e] rest IH]; intros c pos c' H; cbn in H |- *.
  - congruence.
  - destruct (qcstep c i) as [[c1 e1]|] eqn:Es; [|discriminate].
    destruct (ev_eqb e e1) eqn:Ee; [|discriminate].
    apply ev_eqb_eq in Ee. subst e1.
    rewrite (IH _ _ _ H). reflexivity.
Qed.

Theorem qaccept_sound tr c c' :
  qaccept tr c 0 = (c', None) -> qexec (map fst tr) c = (c', tr).
Proof. apply qaccept_sound_gen. Qed.

(* ================= 6. counter-model: the two halves of push swapped ================= *)

(* [QP1 o] appends the ticket, [QP2 o] inserts into the map; everything else as
   in [qtstep].  NOT the code under verification: it documents what the
   coverage invariant rules out. *)
Definition qtstep_bad (p : qpc) (s : qshared) : option (qpc * qshared * ev) :=
  match p with
  | QP1 o => Some (QP2 o, mkQshared (qs_map s) (qs_tk s ++ [oid_of o]), EPush (oid_of o))
  | QP2 o => Some (QDone QRetUnit, mkQshared (upsert o (qs_map s)) (qs_tk s), EInsert o)
  | _ => qtstep p s
  end.

Definition qcstep_bad := qcstep_with qtstep_bad.
Definition qexec_bad := qexec_with qtstep_bad.
