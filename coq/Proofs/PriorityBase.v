(* PriorityBase.v — list-level facts about the concrete queue (map + tickets):
   [lookup], [remove_key], [upsert], [pop_order], [live_tickets], and the
   representation invariant [Rep q cq] ("the concrete queue [q] behaves like the
   plain FIFO list of orders [cq], and a push really lands at the back"). *)
From PL Require Import Spec.Hist Spec.Priority.
From Coq Require Import Lia.
Local Open Scope N_scope.

(* ---------- ids ---------- *)
Lemma oid_eqb_eq a b : oid_eqb a b = true <-> a = b.
Proof.
  destruct a, b; cbn; split; intro H; try discriminate.
  - apply N.eqb_eq in H; congruence.
  - inversion H; apply N.eqb_refl.
  - apply N.eqb_eq in H; congruence.
  - inversion H; apply N.eqb_refl.
Qed.

Lemma oid_eqb_refl a : oid_eqb a a = true.
Proof. apply oid_eqb_eq; reflexivity. Qed.

Lemma oid_eqb_neq a b : oid_eqb a b = false <-> a <> b.
Proof.
  split.
  - intros H E. apply oid_eqb_eq in E. congruence.
  - intros H. destruct (oid_eqb a b) eqn:E; [apply oid_eqb_eq in E; contradiction | reflexivity].
Qed.

Lemma oid_eqb_sym a b : oid_eqb a b = oid_eqb b a.
Proof.
  destruct (oid_eqb a b) eqn:E.
  - apply oid_eqb_eq in E. subst. symmetry. apply oid_eqb_refl.
  - apply oid_eqb_neq in E. symmetry. apply oid_eqb_neq. congruence.
Qed.

Lemma oid_dec (a b : oid) : {a = b} + {a <> b}.
Proof.
  destruct (oid_eqb a b) eqn:E.
  - left. apply oid_eqb_eq; assumption.
  - right. apply oid_eqb_neq; assumption.
Qed.

(* membership test on id lists *)
Definition memb (k : oid) (t : list oid) : bool := existsb (oid_eqb k) t.

Lemma memb_In k t : memb k t = true <-> In k t.
Proof.
  unfold memb. rewrite existsb_exists. split.
  - intros (x & Hx & E). apply oid_eqb_eq in E. subst. assumption.
  - intros H. exists k. split; [assumption | apply oid_eqb_refl].
Qed.

Lemma memb_false k t : memb k t = false <-> ~ In k t.
Proof.
  rewrite <- memb_In. destruct (memb k t); split; intro H; try congruence;
    try (exfalso; apply H; reflexivity).
Qed.

(* ---------- lookup / remove_key / upsert ---------- *)
Definition live (m : list order) (k : oid) : bool := is_some (lookup k m).

Lemma lookup_some_oid k m o : lookup k m = Some o -> oid_of o = k.
Proof.
  induction m as [|x m IH]; cbn; [discriminate|].
  destruct (oid_eqb k (oid_of x)) eqn:E.
  - intros H; inversion H; subst. symmetry. apply oid_eqb_eq; assumption.
  - assumption.
Qed.

Lemma lookup_some_In k m o : lookup k m = Some o -> In o m.
Proof.
  induction m as [|x m IH]; cbn; [discriminate|].
  destruct (oid_eqb k (oid_of x)).
  - intros H; inversion H; auto.
  - auto.
Qed.

Lemma lookup_none_ids k m : lookup k m = None <-> ~ In k (ids m).
Proof.
  induction m as [|x m IH]; cbn.
  - tauto.
  - destruct (oid_eqb k (oid_of x)) eqn:E.
    + apply oid_eqb_eq in E. split; [discriminate | intros H; exfalso; apply H; auto].
    + apply oid_eqb_neq in E. rewrite IH. split.
      * intros H [H1|H1]; [congruence | contradiction].
      * intros H H1. apply H. auto.
Qed.

Lemma lookup_In_ids k m : In k (ids m) -> exists o, lookup k m = Some o.
Proof.
  intros H. destruct (lookup k m) eqn:E; [eauto|].
  apply lookup_none_ids in E. contradiction.
Qed.

Lemma lookup_app k m1 m2 :
  lookup k (m1 ++ m2) = match lookup k m1 with Some o => Some o | None => lookup k m2 end.
Proof.
  induction m1 as [|x m1 IH]; cbn; [reflexivity|].
  destruct (oid_eqb k (oid_of x)); [reflexivity | assumption].
Qed.

Lemma lookup_remove_key k k' m :
  lookup k (remove_key k' m) = if oid_eqb k k' then None else lookup k m.
Proof.
  unfold remove_key. induction m as [|x m IH]; cbn.
  - destruct (oid_eqb k k'); reflexivity.
  - destruct (oid_eqb k' (oid_of x)) eqn:E1; cbn.
    + apply oid_eqb_eq in E1. subst k'. rewrite IH.
      destruct (oid_eqb k (oid_of x)); reflexivity.
    + destruct (oid_eqb k (oid_of x)) eqn:E2.
      * apply oid_eqb_eq in E2. subst k. rewrite oid_eqb_sym, E1. reflexivity.
      * assumption.
Qed.

Lemma lookup_upsert k u m :
  lookup k (upsert u m) = if oid_eqb k (oid_of u) then Some u else lookup k m.
Proof.
  unfold upsert. rewrite lookup_app, lookup_remove_key. cbn.
  destruct (oid_eqb k (oid_of u)); [reflexivity|].
  destruct (lookup k m); reflexivity.
Qed.

Lemma live_remove_key k k' m : live (remove_key k' m) k = live m k && negb (oid_eqb k k').
Proof.
  unfold live. rewrite lookup_remove_key.
  destruct (oid_eqb k k'); cbn; [rewrite andb_false_r | rewrite andb_true_r]; reflexivity.
Qed.

Lemma live_upsert k u m : live (upsert u m) k = oid_eqb k (oid_of u) || live m k.
Proof. unfold live. rewrite lookup_upsert. destruct (oid_eqb k (oid_of u)); reflexivity. Qed.

Lemma ids_app m1 m2 : ids (m1 ++ m2) = ids m1 ++ ids m2.
Proof. apply map_app. Qed.

Lemma ids_remove_key k m :
  ids (remove_key k m) = filter (fun x => negb (oid_eqb k x)) (ids m).
Proof.
  unfold remove_key, ids. induction m as [|x m IH]; cbn; [reflexivity|].
  destruct (oid_eqb k (oid_of x)); cbn; congruence.
Qed.

Lemma lookup_head o m : lookup (oid_of o) (o :: m) = Some o.
Proof. cbn. rewrite oid_eqb_refl. reflexivity. Qed.

Lemma lookup_cons_neq k o m : k <> oid_of o -> lookup k (o :: m) = lookup k m.
Proof. intros H. cbn. apply oid_eqb_neq in H. rewrite H. reflexivity. Qed.

Lemma NoDup_filter {A} (f : A -> bool) l : NoDup l -> NoDup (filter f l).
Proof.
  induction 1 as [|x l Hx Hl IH]; cbn; [constructor|].
  destruct (f x); [constructor|]; auto.
  intros H. apply filter_In in H. tauto.
Qed.

Lemma NoDup_filter_sub {A} (f g : A -> bool) l :
  (forall x, In x l -> g x = true -> f x = true) -> NoDup (filter f l) -> NoDup (filter g l).
Proof.
  induction l as [|x l IH]; cbn; intros Hs Hn; [constructor|].
  destruct (g x) eqn:Eg.
  - rewrite (Hs x (or_introl eq_refl) Eg) in Hn. inversion Hn; subst.
    constructor.
    + intros H. apply filter_In in H. destruct H as [G1 G2].
      match goal with H : ~ In x _ |- _ => apply H end.
      apply filter_In. split; [assumption|]. apply Hs; auto.
    + apply IH; auto.
  - apply IH; [auto|]. destruct (f x); [inversion Hn|]; assumption.
Qed.

Lemma NoDup_app_snoc {A} (l : list A) x : NoDup l -> ~ In x l -> NoDup (l ++ [x]).
Proof.
  induction 1 as [|y l Hy Hl IH]; cbn; intros Hx.
  - constructor; [intros []|constructor].
  - constructor.
    + rewrite in_app_iff. cbn. intros [H|[H|[]]]; [contradiction|]. subst. apply Hx. auto.
    + apply IH. intros H. apply Hx. auto.
Qed.

Lemma filter_ext_in' {A} (f g : A -> bool) l :
  (forall x, In x l -> f x = g x) -> filter f l = filter g l.
Proof.
  induction l as [|x l IH]; cbn; intros H; [reflexivity|].
  rewrite (H x (or_introl eq_refl)). rewrite IH by auto. reflexivity.
Qed.

(* ---------- pop_order ---------- *)

(* [pop_order] depends on the map only through liveness of the ids in the ticket list *)
Lemma pop_order_ext m m' t :
  (forall k, In k t -> live m k = live m' k) -> pop_order m t = pop_order m' t.
Proof.
  revert m m'. induction t as [|a t IH]; intros m m' H; cbn; [reflexivity|].
  pose proof (H a (or_introl eq_refl)) as Ha. unfold live in Ha.
  destruct (lookup a m) eqn:E1, (lookup a m') eqn:E2; cbn in Ha; try discriminate.
  - f_equal. apply IH. intros k Hk. rewrite !live_remove_key. rewrite H by (right; exact Hk). reflexivity.
  - apply IH. intros k Hk. apply H; right; exact Hk.
Qed.

Lemma pop_order_In m t k : In k (pop_order m t) <-> In k t /\ live m k = true.
Proof.
  revert m. induction t as [|a t IH]; intros m; cbn; [tauto|].
  destruct (lookup a m) eqn:E.
  - cbn. rewrite IH, live_remove_key. split.
    + intros [H|[H1 H2]].
      * subst. split; [auto|]. unfold live. rewrite E. reflexivity.
      * apply andb_true_iff in H2. tauto.
    + intros [[H|H] H2]; [auto|].
      destruct (oid_dec a k) as [->|Hn]; [auto|].
      right. split; [assumption|]. rewrite H2. cbn.
      apply negb_true_iff. apply oid_eqb_neq. congruence.
  - rewrite IH. split.
    + tauto.
    + intros [[H|H] H2]; [|tauto]. subst. unfold live in H2. rewrite E in H2. discriminate.
Qed.

Lemma pop_order_NoDup m t : NoDup (pop_order m t).
Proof.
  revert m. induction t as [|a t IH]; intros m; cbn; [constructor|].
  destruct (lookup a m) eqn:E; [|apply IH].
  constructor; [|apply IH].
  rewrite pop_order_In, live_remove_key, oid_eqb_refl, andb_false_r. intros [_ H]. discriminate.
Qed.

(* one more ticket at the end *)
Lemma pop_order_snoc m t k :
  pop_order m (t ++ [k]) =
  pop_order m t ++ (if live m k && negb (memb k t) then [k] else []).
Proof.
  revert m. induction t as [|a t IH]; intros m; cbn.
  - unfold live. destruct (lookup k m); reflexivity.
  - destruct (lookup a m) eqn:E.
    + cbn. rewrite IH. f_equal. f_equal. rewrite live_remove_key.
      destruct (oid_eqb k a); cbn; [rewrite andb_false_r | rewrite andb_true_r]; reflexivity.
    + rewrite IH. f_equal. destruct (oid_eqb k a) eqn:Eka; cbn; [|reflexivity].
      apply oid_eqb_eq in Eka. subst. unfold live. rewrite E. reflexivity.
Qed.

Lemma remove_key_comm a b m : remove_key a (remove_key b m) = remove_key b (remove_key a m).
Proof.
  unfold remove_key. induction m as [|x m IH]; cbn; [reflexivity|].
  destruct (oid_eqb b (oid_of x)) eqn:Eb, (oid_eqb a (oid_of x)) eqn:Ea; cbn;
    rewrite ?Ea, ?Eb; cbn; congruence.
Qed.

(* removing a key from the map deletes it from the pop order, nothing else moves *)
Lemma pop_order_remove_key k m t :
  pop_order (remove_key k m) t = filter (fun x => negb (oid_eqb k x)) (pop_order m t).
Proof.
  revert m. induction t as [|a t IH]; intros m; cbn; [reflexivity|].
  rewrite lookup_remove_key. destruct (oid_eqb a k) eqn:Eak.
  - apply oid_eqb_eq in Eak. subst a.
    destruct (lookup k m) eqn:E.
    + cbn. rewrite oid_eqb_refl. cbn. rewrite <- IH.
      apply pop_order_ext. intros x _. rewrite !live_remove_key.
      destruct (live m x), (oid_eqb x k); reflexivity.
    + apply IH.
  - destruct (lookup a m) eqn:E.
    + cbn. rewrite (oid_eqb_sym k a), Eak. cbn. f_equal.
      rewrite remove_key_comm. apply IH.
    + apply IH.
Qed.

(* ---------- pop ---------- *)
Lemma pop_t_spec m t :
  match pop_t m t with
  | Some (o, m', t') =>
      lookup (oid_of o) m = Some o /\ m' = remove_key (oid_of o) m /\
      pop_order m t = oid_of o :: pop_order m' t' /\
      exists pre, t = pre ++ oid_of o :: t' /\ forall x, In x pre -> lookup x m = None
  | None => pop_order m t = []
  end.
Proof.
  induction t as [|a t IH]; cbn; [reflexivity|].
  destruct (lookup a m) eqn:E.
  - pose proof (lookup_some_oid _ _ _ E) as Ho. rewrite Ho.
    repeat split; try assumption; try reflexivity.
    exists []. split; [reflexivity | intros x []].
  - destruct (pop_t m t) as [[[o m'] t']|]; [|assumption].
    destruct IH as (H1 & H2 & H3 & pre & H4 & H5).
    repeat split; try assumption.
    exists (a :: pre). split; [cbn; congruence|].
    intros x [<-|Hx]; auto.
Qed.

(* target (a) *)
Lemma pop_head_some q o q' :
  pop q = (Some o, q') ->
  exists rest, abs q = oid_of o :: rest /\ lookup (oid_of o) (qmap q) = Some o /\ abs q' = rest.
Proof.
  unfold pop, abs. pose proof (pop_t_spec (qmap q) (tickets q)) as H.
  destruct (pop_t (qmap q) (tickets q)) as [[[o1 m'] t']|]; [|discriminate].
  intros E. inversion E; subst. cbn. destruct H as (H1 & H2 & H3 & _).
  eexists. split; [exact H3|]. split; [assumption | reflexivity].
Qed.

Lemma pop_head_none q q' : pop q = (None, q') -> abs q = [] /\ abs q' = [].
Proof.
  unfold pop, abs. pose proof (pop_t_spec (qmap q) (tickets q)) as H.
  destruct (pop_t (qmap q) (tickets q)) as [[[o1 m'] t']|]; [discriminate|].
  intros E. inversion E; subst. cbn. auto.
Qed.

(* ---------- live tickets ---------- *)
Lemma live_tickets_eq q : live_tickets q = filter (live (qmap q)) (tickets q).
Proof. reflexivity. Qed.

(* ---------- the representation invariant ---------- *)
Definition Rep (q : queue) (cq : list order) : Prop :=
  (forall k, lookup k (qmap q) = lookup k cq) /\
  abs q = ids cq /\ NoDup (ids cq) /\ NoDup (live_tickets q).

Lemma AlignedStrong_Rep l il :
  AlignedStrong l il <-> price l = iprice il /\ Rep (lq l) (iorders il).
Proof. unfold AlignedStrong, Aligned, same_orders, Rep, resting. tauto. Qed.

Lemma abs_sub_tickets q k : In k (abs q) -> In k (tickets q).
Proof. unfold abs. rewrite pop_order_In. tauto. Qed.

Lemma Rep_pop_nil q : Rep q [] -> exists q', pop q = (None, q') /\ Rep q' [] /\ tickets q' = [].
Proof.
  intros (Hl & Ha & Hn & Ht). unfold pop.
  pose proof (pop_t_spec (qmap q) (tickets q)) as H.
  destruct (pop_t (qmap q) (tickets q)) as [[[o1 m'] t']|].
  - destruct H as (_ & _ & H3 & _). unfold abs in Ha. rewrite H3 in Ha. discriminate.
  - eexists. split; [reflexivity|]. split; [|reflexivity].
    unfold Rep, abs, live_tickets. cbn. repeat split; auto; constructor.
Qed.

Lemma Rep_pop_cons q o cq :
  Rep q (o :: cq) ->
  exists q', pop q = (Some o, q') /\ Rep q' cq /\ ~ In (oid_of o) (tickets q') /\
             (forall k, In k (tickets q') -> In k (tickets q)).
Proof.
  intros (Hl & Ha & Hn & Ht). unfold pop.
  pose proof (pop_t_spec (qmap q) (tickets q)) as H.
  destruct (pop_t (qmap q) (tickets q)) as [[[o1 m'] t']|].
  2:{ unfold abs in Ha. rewrite H in Ha. discriminate. }
  destruct H as (H1 & H2 & H3 & pre & H4 & H5).
  unfold abs in Ha. rewrite H3 in Ha. cbn in Ha. inversion Ha as [[Hid Hrest]].
  assert (o1 = o).
  { rewrite Hl, Hid, lookup_head in H1. congruence. }
  subst o1. cbn in Hn. inversion Hn as [|? ? Hnin Hn']; subst.
  assert (Hlive : live (qmap q) (oid_of o) = true) by (unfold live; rewrite H1; reflexivity).
  assert (Hpre : filter (live (qmap q)) pre = []).
  { clear -H5. induction pre as [|x pre IH]; cbn; [reflexivity|].
    unfold live at 1. rewrite (H5 x (or_introl eq_refl)). cbn. apply IH. intros; apply H5; right; assumption. }
  rewrite live_tickets_eq, H4, filter_app, Hpre in Ht. cbn in Ht. rewrite Hlive in Ht.
  inversion Ht as [|? ? Hk Ht']; subst.
  assert (Hnt : ~ In (oid_of o) t').
  { intros Hin. apply Hk. apply filter_In. auto. }
  eexists. split; [reflexivity|]. split; [|split].
  - unfold Rep, abs, live_tickets. cbn. repeat split.
    + intros k. rewrite lookup_remove_key. destruct (oid_eqb k (oid_of o)) eqn:E.
      * apply oid_eqb_eq in E. subst k. symmetry. apply lookup_none_ids. assumption.
      * rewrite Hl. apply lookup_cons_neq. apply oid_eqb_neq. assumption.
    + assumption.
    + assumption.
    + eapply NoDup_filter_sub; [|exact Ht'].
      intros x _. fold (live (remove_key (oid_of o) (qmap q)) x). rewrite live_remove_key.
      intros Hx. apply andb_true_iff in Hx. tauto.
  - cbn. assumption.
  - cbn. intros k Hk'. rewrite H4. apply in_or_app. right. right. assumption.
Qed.

Lemma Rep_push q cq u :
  Rep q cq -> ~ In (oid_of u) (tickets q) -> lookup (oid_of u) cq = None ->
  Rep (push q u) (cq ++ [u]).
Proof.
  intros (Hl & Ha & Hn & Ht) Hnt Hnone.
  assert (Hsame : forall x, In x (tickets q) -> live (upsert u (qmap q)) x = live (qmap q) x).
  { intros x Hx. rewrite live_upsert. destruct (oid_eqb x (oid_of u)) eqn:E; [|reflexivity].
    apply oid_eqb_eq in E. subst. contradiction. }
  unfold Rep, push, abs, live_tickets. cbn. repeat split.
  - intros k. rewrite lookup_upsert, lookup_app. cbn.
    destruct (oid_eqb k (oid_of u)) eqn:E.
    + apply oid_eqb_eq in E. subst k. rewrite Hnone. reflexivity.
    + rewrite Hl. destruct (lookup k cq); reflexivity.
  - rewrite pop_order_snoc, live_upsert, oid_eqb_refl. cbn.
    apply memb_false in Hnt. rewrite Hnt. cbn.
    rewrite ids_app. cbn. f_equal. rewrite <- Ha. unfold abs.
    apply pop_order_ext. assumption.
  - rewrite ids_app. cbn. apply NoDup_app_snoc; [assumption|].
    apply lookup_none_ids. assumption.
  - rewrite filter_app. cbn. fold (live (upsert u (qmap q)) (oid_of u)).
    rewrite live_upsert, oid_eqb_refl. cbn.
    rewrite (filter_ext_in' _ (live (qmap q))) by assumption.
    apply NoDup_app_snoc; [exact Ht|].
    intros H. apply filter_In in H. tauto.
Qed.
