(* ConcLemmas.v — basic facts about the association-list map, [update_nth],
   [settle_n], [cstep] and [exec], and the per-step effect table of [tstep]
   used by the C08 / C13 proofs. *)
From PL Require Import Spec.CovSpec.
From Coq Require Import Lia.
Local Open Scope N_scope.

(* ---------------- ids ---------------- *)
Lemma oid_eqb_eq a b : oid_eqb a b = true <-> a = b.
Proof.
  destruct a, b; cbn; split; intros H; try discriminate; try congruence.
  - apply N.eqb_eq in H. congruence.
  - apply N.eqb_eq. congruence.
  - apply N.eqb_eq in H. congruence.
  - apply N.eqb_eq. congruence.
Qed.

Lemma oid_eqb_refl a : oid_eqb a a = true.
Proof. apply oid_eqb_eq. reflexivity. Qed.

Lemma oid_eqb_neq a b : oid_eqb a b = false <-> a <> b.
Proof.
  split.
  - intros H E. apply oid_eqb_eq in E. congruence.
  - intros H. destruct (oid_eqb a b) eqn:E; [apply oid_eqb_eq in E; contradiction | reflexivity].
Qed.

Lemma oid_eq_dec (a b : oid) : {a = b} + {a <> b}.
Proof.
  destruct (oid_eqb a b) eqn:E.
  - left. apply oid_eqb_eq. exact E.
  - right. apply oid_eqb_neq. exact E.
Qed.

(* ---------------- the map ---------------- *)
Lemma lookup_some k m o : lookup k m = Some o -> oid_of o = k /\ In o m.
Proof.
  induction m as [|x m IH]; cbn; [discriminate|].
  destruct (oid_eqb k (oid_of x)) eqn:E.
  - intros H. inversion H; subst. apply oid_eqb_eq in E. split; [congruence | left; reflexivity].
  - intros H. destruct (IH H). split; [assumption | right; assumption].
Qed.

Lemma in_lookup x m : In x m -> lookup (oid_of x) m <> None.
Proof.
  induction m as [|y m IH]; cbn; [contradiction|].
  intros [->|H].
  - rewrite oid_eqb_refl. discriminate.
  - destruct (oid_eqb (oid_of x) (oid_of y)); [discriminate | apply IH, H].
Qed.

Lemma lookup_none_ids k m : lookup k m = None <-> ~ In k (ids m).
Proof.
  induction m as [|y m IH]; cbn.
  - split; [intros _ [] | reflexivity].
  - destruct (oid_eqb k (oid_of y)) eqn:E.
    + apply oid_eqb_eq in E. split; [discriminate | intros H; exfalso; apply H; left; congruence].
    + apply oid_eqb_neq in E. rewrite IH. split.
      * intros H [H1|H1]; [congruence | contradiction].
      * intros H H1. apply H. right. exact H1.
Qed.

Lemma lookup_in_ids k m o : lookup k m = Some o -> In k (ids m).
Proof.
  intros H. destruct (in_dec oid_eq_dec k (ids m)) as [Hi|Hn]; [exact Hi|].
  apply lookup_none_ids in Hn. congruence.
Qed.

Lemma in_remove_key x k m : In x (remove_key k m) <-> In x m /\ oid_of x <> k.
Proof.
  unfold remove_key. rewrite filter_In. split; intros [H1 H2]; split; try assumption.
  - intros E. subst k. rewrite oid_eqb_refl in H2. discriminate.
  - destruct (oid_eqb k (oid_of x)) eqn:E; [apply oid_eqb_eq in E; congruence | reflexivity].
Qed.

Lemma in_ids_remove_key x k m : In x (ids (remove_key k m)) <-> In x (ids m) /\ x <> k.
Proof.
  unfold ids. rewrite !in_map_iff. split.
  - intros (o & <- & Ho). apply in_remove_key in Ho. destruct Ho. split; [exists o; auto | assumption].
  - intros [(o & <- & Ho) Hne]. exists o. split; [reflexivity|]. apply in_remove_key. auto.
Qed.

Lemma in_upsert x o m : In x (upsert o m) <-> x = o \/ (In x m /\ oid_of x <> oid_of o).
Proof.
  unfold upsert. rewrite in_app_iff, in_remove_key. cbn. intuition.
Qed.

Lemma remove_key_cons k y m :
  remove_key k (y :: m) = if oid_eqb k (oid_of y) then remove_key k m else y :: remove_key k m.
Proof. unfold remove_key. cbn. destruct (oid_eqb k (oid_of y)); reflexivity. Qed.

Lemma lookup_remove_key k k' m :
  lookup k (remove_key k' m) = if oid_eqb k k' then None else lookup k m.
Proof.
  induction m as [|y m IH].
  - cbn. destruct (oid_eqb k k'); reflexivity.
  - rewrite remove_key_cons. destruct (oid_eqb k' (oid_of y)) eqn:E1; cbn [lookup].
    + rewrite IH. destruct (oid_eqb k k') eqn:E2; [reflexivity|].
      apply oid_eqb_eq in E1. subst k'. rewrite E2. reflexivity.
    + rewrite IH. destruct (oid_eqb k (oid_of y)) eqn:E3.
      * apply oid_eqb_eq in E3. subst k.
        destruct (oid_eqb (oid_of y) k') eqn:E4; [|reflexivity].
        apply oid_eqb_eq in E4. subst k'. rewrite oid_eqb_refl in E1. discriminate.
      * reflexivity.
Qed.

Lemma lookup_app k m1 m2 :
  lookup k (m1 ++ m2) = match lookup k m1 with Some o => Some o | None => lookup k m2 end.
Proof.
  induction m1 as [|y m1 IH]; cbn; [reflexivity|].
  destruct (oid_eqb k (oid_of y)); [reflexivity | apply IH].
Qed.

Lemma lookup_upsert k o m :
  lookup k (upsert o m) = if oid_eqb k (oid_of o) then Some o else lookup k m.
Proof.
  unfold upsert. rewrite lookup_app, lookup_remove_key. cbn.
  destruct (oid_eqb k (oid_of o)) eqn:E; [reflexivity|].
  destruct (lookup k m); reflexivity.
Qed.

Lemma remove_key_none k m : lookup k m = None -> remove_key k m = m.
Proof.
  induction m as [|y m IH]; [reflexivity|].
  rewrite remove_key_cons. cbn [lookup].
  destruct (oid_eqb k (oid_of y)); [discriminate|].
  intros H. rewrite IH by assumption. reflexivity.
Qed.

Lemma NoDup_ids_remove_key k m : NoDup (ids m) -> NoDup (ids (remove_key k m)).
Proof.
  induction m as [|y m IH]; [auto|].
  rewrite remove_key_cons. cbn [ids map].
  intros H. inversion H as [|? ? Hn Hd]; subst.
  destruct (oid_eqb k (oid_of y)); cbn [ids map]; [apply IH, Hd|].
  constructor; [|apply IH, Hd].
  intros Hi. apply in_ids_remove_key in Hi. apply Hn. apply Hi.
Qed.

Lemma ids_app m1 m2 : ids (m1 ++ m2) = ids m1 ++ ids m2.
Proof. unfold ids. apply map_app. Qed.

Lemma NoDup_snoc {A} (l : list A) x : NoDup l -> ~ In x l -> NoDup (l ++ [x]).
Proof.
  induction l as [|y l IH]; cbn; intros Hd Hn.
  - constructor; [intros [] | constructor].
  - inversion Hd; subst. constructor.
    + rewrite in_app_iff. cbn. intros [H|[H|[]]]; [contradiction|]. apply Hn. left. symmetry. exact H.
    + apply IH; [assumption|]. intros H. apply Hn. right. exact H.
Qed.

Lemma NoDup_ids_upsert o m : NoDup (ids m) -> NoDup (ids (upsert o m)).
Proof.
  intros H. unfold upsert. rewrite ids_app. cbn.
  apply NoDup_snoc; [apply NoDup_ids_remove_key, H|].
  intros Hi. apply in_ids_remove_key in Hi. destruct Hi as [_ Hne]. apply Hne. reflexivity.
Qed.

Lemma ids_upsert_fresh o m : ~ In (oid_of o) (ids m) -> ids (upsert o m) = ids m ++ [oid_of o].
Proof.
  intros H. apply lookup_none_ids in H. unfold upsert.
  rewrite remove_key_none by assumption. rewrite ids_app. reflexivity.
Qed.

Lemma oid_with_reduced o nq : oid_of (with_reduced_quantity o nq) = oid_of o.
Proof. destruct o; reflexivity. Qed.

(* ---------------- update_nth ---------------- *)
Lemma nth_error_update_nth_eq {A} i (x y : A) l :
  nth_error l i = Some y -> nth_error (update_nth i x l) i = Some x.
Proof.
  revert i. induction l as [|z l IH]; intros [|i]; cbn; try discriminate; auto.
Qed.

Lemma nth_error_update_nth_neq {A} i j (x : A) l :
  i <> j -> nth_error (update_nth i x l) j = nth_error l j.
Proof.
  revert i j. induction l as [|z l IH]; intros [|i] [|j] H; cbn; try reflexivity;
    try congruence. apply IH. congruence.
Qed.

Lemma nth_error_update_nth_inv {A} i j (x t : A) l :
  nth_error (update_nth i x l) j = Some t ->
  (j = i /\ t = x) \/ (j <> i /\ nth_error l j = Some t).
Proof.
  intros H. destruct (Nat.eq_dec j i) as [->|Hne].
  - left. split; [reflexivity|].
    destruct (nth_error l i) eqn:E.
    + rewrite (nth_error_update_nth_eq _ _ _ _ E) in H. congruence.
    + exfalso. revert i H E. induction l as [|z l IH]; intros [|i]; cbn; try discriminate.
      apply IH.
  - right. split; [assumption|]. rewrite nth_error_update_nth_neq in H by congruence. exact H.
Qed.

(* ---------------- settle ---------------- *)
Lemma settle_n_pc n pr t :
  settle_n n pr t = t \/
  ((exists r, th_pc t = Done r) /\ th_todo t <> [] /\
   ((exists r, th_pc (settle_n n pr t) = Done r) \/
    (exists c, In c (th_todo t) /\ th_pc (settle_n n pr t) = start pr c))).
Proof.
  revert t. induction n as [|n IH]; intros t; cbn; [left; reflexivity|].
  destruct (th_pc t) eqn:Ep; try (left; reflexivity).
  destruct (th_todo t) as [|c cs] eqn:Et; [left; reflexivity|].
  right. split; [eexists; reflexivity|]. split; [discriminate|].
  destruct (IH (settle pr t)) as [Heq|(Hd & Hne & Hr)].
  - rewrite Heq. unfold settle. rewrite Ep, Et. cbn.
    right. exists c. split; [left; reflexivity | reflexivity].
  - destruct Hr as [Hr|(c' & Hin & Hc')]; [left; exact Hr|].
    right. exists c'. split; [|exact Hc'].
    unfold settle in Hin. rewrite Ep, Et in Hin. cbn in Hin. right. exact Hin.
Qed.

Lemma settle_n_not_done n pr t : (forall r, th_pc t <> Done r) -> settle_n n pr t = t.
Proof.
  intros H. destruct n; cbn; [reflexivity|].
  destruct (th_pc t) eqn:E; try reflexivity. exfalso. eapply H. reflexivity.
Qed.

Lemma settle_n_todo_incl n pr t c : In c (th_todo (settle_n n pr t)) -> In c (th_todo t).
Proof.
  revert t. induction n as [|n IH]; intros t; cbn; [auto|].
  destruct (th_pc t) eqn:Ep; auto.
  destruct (th_todo t) as [|c0 cs] eqn:Et; [rewrite Et; auto|].
  intros H. apply IH in H. unfold settle in H. rewrite Ep, Et in H. cbn in H. right. exact H.
Qed.

(* ---------------- cstep / exec ---------------- *)
Section WithMf.
Variable mf : order -> N -> mres.

Definition stepped (t : thread) (p' : pc) (s' : shared) : thread :=
  settle_n (S (length (th_todo t))) (sh_price s') (mkThread p' (th_todo t) (th_rets t)).

Lemma cstep_inv c i c' e :
  cstep mf c i = Some (c', e) ->
  exists t p' s',
    nth_error (cf_threads c) i = Some t /\
    tstep mf (th_pc t) (cf_sh c) = Some (p', s', e) /\
    c' = mkConfig s' (update_nth i (stepped t p' s') (cf_threads c)).
Proof.
  unfold cstep. destruct (nth_error (cf_threads c) i) as [t|] eqn:En; [|discriminate].
  destruct (tstep mf (th_pc t) (cf_sh c)) as [[[p' s'] e']|] eqn:Et; [|discriminate].
  intros H. inversion H; subst. exists t, p', s'. auto.
Qed.

Lemma stepped_pc t p' s' :
  th_pc (stepped t p' s') = p' \/
  ((exists r, p' = Done r) /\
   ((exists r, th_pc (stepped t p' s') = Done r) \/
    (exists c, In c (th_todo t) /\ th_pc (stepped t p' s') = start (sh_price s') c))).
Proof.
  unfold stepped.
  destruct (settle_n_pc (S (length (th_todo t))) (sh_price s') (mkThread p' (th_todo t) (th_rets t)))
    as [Heq|(Hd & _ & Hr)].
  - left. rewrite Heq. reflexivity.
  - right. split; [exact Hd | exact Hr].
Qed.

Lemma stepped_not_done t p' s' : (forall r, p' <> Done r) -> stepped t p' s' = mkThread p' (th_todo t) (th_rets t).
Proof. intros H. unfold stepped. apply settle_n_not_done. exact H. Qed.

Lemma exec_invariant (P : config -> Prop) :
  (forall c i c' e, P c -> cstep mf c i = Some (c', e) -> P c') ->
  forall sched c, P c -> P (fst (exec mf sched c)).
Proof.
  intros Hstep sched. induction sched as [|i rest IH]; intros c Hc; cbn; [exact Hc|].
  destruct (cstep mf c i) as [[c' e]|] eqn:Es.
  - specialize (IH c' (Hstep _ _ _ _ Hc Es)).
    destruct (exec mf rest c') as [c'' tr]. exact IH.
  - apply IH, Hc.
Qed.

Lemma exec_app s1 s2 c :
  exec mf (s1 ++ s2) c =
  let '(c1, t1) := exec mf s1 c in
  let '(c2, t2) := exec mf s2 c1 in (c2, t1 ++ t2).
Proof.
  revert c. induction s1 as [|i s1 IH]; intros c; cbn.
  - destruct (exec mf s2 c). reflexivity.
  - destruct (cstep mf c i) as [[c' e]|]; [|apply IH].
    rewrite IH. destruct (exec mf s1 c') as [c1 t1]. destruct (exec mf s2 c1) as [c2 t2]. reflexivity.
Qed.

(* ---------------- the effect of one step on map and tickets ---------------- *)
Lemma sh_map_set_obj s x v : sh_map (set_obj s x v) = sh_map s.
Proof. destruct x; reflexivity. Qed.
Lemma sh_tk_set_obj s x v : sh_tk (set_obj s x v) = sh_tk s.
Proof. destruct x; reflexivity. Qed.
Lemma sh_price_set_obj s x v : sh_price (set_obj s x v) = sh_price s.
Proof. destruct x; reflexivity. Qed.

Definition ev_effect (e : ev) (p' : pc) (p : pc) (s s' : shared) : Prop :=
  match e with
  | EInsert o =>
      sh_map s' = upsert o (sh_map s) /\ sh_tk s' = sh_tk s /\ ins_pending p' (oid_of o)
  | EPush k =>
      sh_map s' = sh_map s /\ sh_tk s' = sh_tk s ++ [k] /\ ins_pending p k
  | EPop (Some k) =>
      sh_map s' = sh_map s /\ sh_tk s = k :: sh_tk s' /\ rem_pending p' k
  | ERemove k r =>
      r = lookup k (sh_map s) /\ sh_map s' = remove_key k (sh_map s) /\ sh_tk s' = sh_tk s
  | EGet k r =>
      r = lookup k (sh_map s) /\ sh_map s' = sh_map s /\ sh_tk s' = sh_tk s
  | _ => sh_map s' = sh_map s /\ sh_tk s' = sh_tk s
  end.

Ltac tstep_inv H :=
  cbn [tstep] in H; unfold fetch_add, fetch_sub in H;
  repeat match type of H with
  | context [match sh_tk ?s with _ => _ end] => destruct (sh_tk s) eqn:?
  | context [match lookup ?k ?m with _ => _ end] => destruct (lookup k m) eqn:?
  | context [if vis ?a <? vis ?b then _ else _] => destruct (vis a <? vis b) eqn:?
  | context [if hid ?a <? hid ?b then _ else _] => destruct (hid a <? hid b) eqn:?
  end;
  inversion H; subst; clear H.

Lemma tstep_facts p s p' s' e :
  tstep mf p s = Some (p', s', e) ->
  ev_effect e p' p s s' /\
  (forall k, ins_pending p k -> e = EPush k) /\
  (forall k, rem_pending p k -> exists r, e = ERemove k r) /\
  sh_price s' = sh_price s.
Proof.
  intros H.
  destruct p; tstep_inv H; unfold ev_effect; cbn;
    rewrite ?sh_map_set_obj, ?sh_tk_set_obj, ?sh_price_set_obj;
    repeat split; try reflexivity; try (intros ? []); try (intros; subst; reflexivity);
    try (intros; subst; eexists; reflexivity);
    try (symmetry; assumption);
    try (symmetry; apply remove_key_none; assumption);
    try assumption.
Qed.

End WithMf.
