(* HelpersProofs.v — algebraic laws of the pure helper API modelled in Model/Helpers.v.
   Statements are collected (statement-only) in Properties/Helpers.v. *)
From PL Require Import Model.Helpers Spec.Hist Spec.StatsSpec Spec.Judges
  Proofs.BaseLemmas Proofs.StatsProofs Proofs.MatchBase Proofs.MatchProofs.
From Coq Require Import Lia ZifyBool ZifyN.
Local Open Scope N_scope.

(* ------------------------------------------------------------------ *)
(* Side::opposite                                                      *)
(* ------------------------------------------------------------------ *)

Lemma opposite_involutive s : opposite (opposite s) = s.
Proof. destruct s; reflexivity. Qed.

Lemma opposite_no_fixpoint s : opposite s <> s.
Proof. destruct s; discriminate. Qed.

Lemma opposite_injective a b : opposite a = opposite b -> a = b.
Proof. destruct a, b; intros H; try reflexivity; discriminate H. Qed.

(* ------------------------------------------------------------------ *)
(* OrderId::from_u64 / nil / Default                                   *)
(* ------------------------------------------------------------------ *)

Lemma oid_from_u64_zero : oid_from_u64 0 = oid_nil.
Proof. reflexivity. Qed.

Lemma oid_from_u64_injective a b : oid_from_u64 a = oid_from_u64 b -> a = b.
Proof.
  unfold oid_from_u64. intros H. inversion H as [H1].
  apply N.mul_cancel_r in H1; [exact H1 | exact W_nz].
Qed.

(* the id is a UUID whose upper eight bytes are [id] and whose lower eight bytes are zero *)
Lemma oid_from_u64_bytes a :
  a < W ->
  exists n, oid_from_u64 a = Uuid n /\ n < W * W /\ n / W = a /\ n mod W = 0.
Proof.
  intros Ha. exists (a * W). split; [reflexivity|]. split; [|split].
  - apply N.mul_lt_mono_pos_r; [exact W_pos | exact Ha].
  - apply N.div_mul. exact W_nz.
  - apply N.mod_mul. exact W_nz.
Qed.

Lemma oid_nil_not_ulid : oid_is_ulid oid_nil = false.
Proof. reflexivity. Qed.

Lemma oid_from_u64_not_ulid a : oid_is_ulid (oid_from_u64 a) = false.
Proof. reflexivity. Qed.

(* whatever OrderId::default() returns, it is neither nil nor of the from_u64 form *)
Lemma oid_default_not_nil k :
  oid_is_ulid k = true -> k <> oid_nil /\ forall a, k <> oid_from_u64 a.
Proof.
  destruct k as [n|n]; cbn [oid_is_ulid]; intros H; [discriminate H|].
  split; [discriminate | intros a; discriminate].
Qed.

(* ------------------------------------------------------------------ *)
(* TimeInForce                                                         *)
(* ------------------------------------------------------------------ *)

Lemma tif_is_immediate_iff t : tif_is_immediate t = true <-> t = Ioc \/ t = Fok.
Proof.
  destruct t; cbn [tif_is_immediate]; split; intros H;
    try reflexivity; try discriminate H; try (left; reflexivity); try (right; reflexivity);
    destruct H as [H|H]; discriminate H.
Qed.

Lemma tif_has_expiry_iff t : tif_has_expiry t = true <-> (exists e, t = Gtd e) \/ t = Day.
Proof.
  destruct t as [| | |e|]; cbn [tif_has_expiry]; split; intros H;
    try reflexivity; try discriminate H;
    try (left; exists e; reflexivity); try (right; reflexivity);
    destruct H as [[e' H]|H]; discriminate H.
Qed.

Lemma tif_is_expired_gtd e now close : tif_is_expired (Gtd e) now close = true <-> e <= now.
Proof. cbn [tif_is_expired]. lia. Qed.

Lemma tif_is_expired_day_some c now : tif_is_expired Day now (Some c) = true <-> c <= now.
Proof. cbn [tif_is_expired]. lia. Qed.

Lemma tif_is_expired_day_none now : tif_is_expired Day now None = false.
Proof. reflexivity. Qed.

Lemma tif_is_expired_other t now close :
  tif_has_expiry t = false -> tif_is_expired t now close = false.
Proof. destruct t; cbn [tif_has_expiry tif_is_expired]; intros H; try reflexivity; discriminate H. Qed.

Lemma tif_is_expired_has_expiry t now close :
  tif_is_expired t now close = true -> tif_has_expiry t = true /\ tif_is_immediate t = false.
Proof.
  destruct t; cbn [tif_has_expiry tif_is_expired tif_is_immediate]; intros H;
    try discriminate H; split; reflexivity.
Qed.

(* once expired, always expired *)
Lemma tif_is_expired_mono t now now' close :
  now <= now' -> tif_is_expired t now close = true -> tif_is_expired t now' close = true.
Proof.
  intros Hle. destruct t as [| | |e|]; cbn [tif_is_expired]; intros H; try discriminate H.
  - lia.
  - destruct close as [c|]; [lia | discriminate H].
Qed.

(* a GTD order is expired AT its expiry instant (>=, not >); expiry 0 is expired from the start *)
Lemma tif_is_expired_at_expiry e close : tif_is_expired (Gtd e) e close = true.
Proof. cbn [tif_is_expired]. lia. Qed.

Lemma tif_is_expired_gtd_zero now close : tif_is_expired (Gtd 0) now close = true.
Proof. cbn [tif_is_expired]. lia. Qed.

(* ------------------------------------------------------------------ *)
(* OrderType: predicates                                               *)
(* ------------------------------------------------------------------ *)

Lemma order_is_immediate_iff o : order_is_immediate o = true <-> tif_of o = Ioc \/ tif_of o = Fok.
Proof. unfold order_is_immediate. apply tif_is_immediate_iff. Qed.

Lemma order_is_fill_or_kill_iff o : order_is_fill_or_kill o = true <-> tif_of o = Fok.
Proof.
  unfold order_is_fill_or_kill. destruct (tif_of o); split; intros H;
    try reflexivity; discriminate H.
Qed.

Lemma order_fok_is_immediate o : order_is_fill_or_kill o = true -> order_is_immediate o = true.
Proof.
  intros H. apply order_is_fill_or_kill_iff in H. apply order_is_immediate_iff. right. exact H.
Qed.

Lemma order_is_post_only_iff o : order_is_post_only o = true <-> exists c q, o = PostOnly c q.
Proof.
  destruct o as [c0 q0|c0 v0 h0|c0 q0|c0 q0 t0 l0|c0 q0 f0 p0|c0 q0|c0 v0 h0 t0 a0 au0]; cbn [order_is_post_only];
    split; intros H; try discriminate H; try reflexivity;
    try (exists c0, q0; reflexivity); destruct H as (c' & q' & H); discriminate H.
Qed.

(* ------------------------------------------------------------------ *)
(* OrderType::with_reduced_quantity                                    *)
(* ------------------------------------------------------------------ *)

Lemma wrq_applies_iff o :
  wrq_applies o = true <->
  (exists c q, o = Standard c q) \/ (exists c v h, o = Iceberg c v h) \/ (exists c q, o = PostOnly c q).
Proof.
  destruct o as [c0 q0|c0 v0 h0|c0 q0|c0 q0 t0 l0|c0 q0 f0 p0|c0 q0|c0 v0 h0 t0 a0 au0]; cbn [wrq_applies];
    split; intros H; try discriminate H; try reflexivity.
  - left. exists c0, q0. reflexivity.
  - right. left. exists c0, v0, h0. reflexivity.
  - right. right. exists c0, q0. reflexivity.
  - destruct H as [(c' & q' & H)|[(c' & v' & h' & H)|(c' & q' & H)]]; discriminate H.
  - destruct H as [(c' & q' & H)|[(c' & v' & h' & H)|(c' & q' & H)]]; discriminate H.
  - destruct H as [(c' & q' & H)|[(c' & v' & h' & H)|(c' & q' & H)]]; discriminate H.
  - destruct H as [(c' & q' & H)|[(c' & v' & h' & H)|(c' & q' & H)]]; discriminate H.
Qed.

(* every accessor except the display is untouched, for every variant *)
Lemma wrq_accessors o q :
  let o' := with_reduced_quantity o q in
  oid_of o' = oid_of o /\ price_of o' = price_of o /\ side_of o' = side_of o /\
  ts_of o' = ts_of o /\ tif_of o' = tif_of o /\ hid o' = hid o /\
  order_is_post_only o' = order_is_post_only o /\ wrq_applies o' = wrq_applies o /\
  same_identity o o'.
Proof.
  destruct o as [c0 q0|c0 v0 h0|c0 q0|c0 q0 t0 l0|c0 q0 f0 p0|c0 q0|c0 v0 h0 t0 a0 au0]; cbv zeta; cbn [with_reduced_quantity];
    unfold oid_of, price_of, side_of, ts_of, tif_of;
    cbn [com hid order_is_post_only wrq_applies same_identity]; repeat split; reflexivity.
Qed.

Lemma wrq_display o q : wrq_applies o = true -> vis (with_reduced_quantity o q) = q.
Proof. destruct o as [c0 q0|c0 v0 h0|c0 q0|c0 q0 t0 l0|c0 q0 f0 p0|c0 q0|c0 v0 h0 t0 a0 au0]; cbn [wrq_applies with_reduced_quantity vis]; intros H; try discriminate H; reflexivity. Qed.

(* TrailingStop, Pegged, MarketToLimit and Reserve ignore the request *)
Lemma wrq_ignored o q : wrq_applies o = false -> with_reduced_quantity o q = o.
Proof. destruct o as [c0 q0|c0 v0 h0|c0 q0|c0 q0 t0 l0|c0 q0 f0 p0|c0 q0|c0 v0 h0 t0 a0 au0]; cbn [wrq_applies with_reduced_quantity]; intros H; try discriminate H; reflexivity. Qed.

Lemma wrq_idempotent o q q' :
  with_reduced_quantity (with_reduced_quantity o q) q' = with_reduced_quantity o q'.
Proof. destruct o as [c0 q0|c0 v0 h0|c0 q0|c0 q0 t0 l0|c0 q0 f0 p0|c0 q0|c0 v0 h0 t0 a0 au0]; reflexivity. Qed.

Lemma wrq_same o : with_reduced_quantity o (vis o) = o.
Proof. destruct o as [c0 q0|c0 v0 h0|c0 q0|c0 q0 t0 l0|c0 q0 f0 p0|c0 q0|c0 v0 h0 t0 a0 au0]; reflexivity. Qed.

(* ------------------------------------------------------------------ *)
(* OrderType::refresh_iceberg                                          *)
(* ------------------------------------------------------------------ *)

Definition refreshable (o : order) : bool :=
  match o with Iceberg _ _ _ | Reserve _ _ _ _ _ _ => true | _ => false end.

Lemma refresh_iceberg_spec o amt :
  let o' := fst (refresh_iceberg o amt) in
  let used := snd (refresh_iceberg o amt) in
  (* what is taken out of the hidden part: never more than hidden, never more than asked *)
  used = (if refreshable o then N.min (hid o) amt else 0) /\
  hid o' + used = hid o /\
  (* the new display is the REQUESTED amount (not the amount taken) *)
  (refreshable o = true -> vis o' = amt) /\
  (refreshable o = false -> o' = o) /\
  same_identity o o' /\
  oid_of o' = oid_of o /\ price_of o' = price_of o /\ side_of o' = side_of o /\
  ts_of o' = ts_of o /\ tif_of o' = tif_of o.
Proof.
  destruct o as [c0 q0|c0 v0 h0|c0 q0|c0 q0 t0 l0|c0 q0 f0 p0|c0 q0|c0 v0 h0 t0 a0 au0]; cbv zeta; cbn [refresh_iceberg fst snd refreshable hid vis same_identity];
    unfold oid_of, price_of, side_of, ts_of, tif_of, sat_sub; cbn [com];
    repeat split; try reflexivity; try lia; intros H; discriminate H.
Qed.

(* total after = max(hidden before, requested): the old display is dropped and, when more is
   requested than is hidden, the difference appears from nowhere *)
Lemma refresh_iceberg_total o amt :
  refreshable o = true ->
  let o' := fst (refresh_iceberg o amt) in
  vis o' + hid o' = N.max (hid o) amt.
Proof.
  destruct o as [c0 q0|c0 v0 h0|c0 q0|c0 q0 t0 l0|c0 q0 f0 p0|c0 q0|c0 v0 h0 t0 a0 au0]; cbv zeta; cbn [refreshable refresh_iceberg fst hid vis]; unfold sat_sub;
    intros H; try discriminate H; lia.
Qed.

(* conservation holds exactly in the intended use: display exhausted, request within hidden *)
Lemma refresh_iceberg_conserves o amt :
  vis o = 0 -> amt <= hid o ->
  let o' := fst (refresh_iceberg o amt) in
  vis o' + hid o' = vis o + hid o.
Proof.
  destruct o as [c0 q0|c0 v0 h0|c0 q0|c0 q0 t0 l0|c0 q0 f0 p0|c0 q0|c0 v0 h0 t0 a0 au0]; cbv zeta; cbn [refresh_iceberg fst hid vis]; unfold sat_sub; intros Hv Ha; lia.
Qed.

Lemma refresh_iceberg_conserves_iff o amt :
  refreshable o = true ->
  let o' := fst (refresh_iceberg o amt) in
  vis o' + hid o' = vis o + hid o <-> N.max (hid o) amt = vis o + hid o.
Proof. intros H. cbv zeta. rewrite (refresh_iceberg_total o amt H). reflexivity. Qed.

Lemma refresh_iceberg_bounded o amt :
  hid o < W -> amt < W ->
  let o' := fst (refresh_iceberg o amt) in
  snd (refresh_iceberg o amt) < W /\ hid o' < W /\ (refreshable o = true -> vis o' < W).
Proof.
  destruct o as [c0 q0|c0 v0 h0|c0 q0|c0 q0 t0 l0|c0 q0 f0 p0|c0 q0|c0 v0 h0 t0 a0 au0]; cbv zeta; cbn [refresh_iceberg fst snd hid vis refreshable]; unfold sat_sub;
    intros Hh Ha; repeat split; try lia; intros H; try discriminate H; lia.
Qed.

(* "refresh_iceberg conserves visible + hidden" is FALSE of the code, in both directions *)
Lemma refresh_iceberg_conservation_refuted :
  (exists o amt, wf_order o /\ amt < W /\
     vis (fst (refresh_iceberg o amt)) + hid (fst (refresh_iceberg o amt)) < vis o + hid o) /\
  (exists o amt, wf_order o /\ amt < W /\
     vis o + hid o < vis (fst (refresh_iceberg o amt)) + hid (fst (refresh_iceberg o amt))).
Proof.
  split.
  - exists (Iceberg (mkCommon (Uuid 1) 100 Sell 1 Gtc) 7 20), 5.
    unfold wf_order. cbn [refresh_iceberg fst vis hid]. unfold sat_sub, W. lia.
  - exists (Iceberg (mkCommon (Uuid 1) 100 Sell 1 Gtc) 0 5), 10.
    unfold wf_order. cbn [refresh_iceberg fst vis hid]. unfold sat_sub, W. lia.
Qed.

(* ------------------------------------------------------------------ *)
(* Transaction                                                         *)
(* ------------------------------------------------------------------ *)

Lemma tx_maker_side_opposite t : tx_maker_side t = opposite (tx_side t).
Proof. unfold tx_maker_side, opposite. reflexivity. Qed.

Lemma tx_maker_side_not_taker t : tx_maker_side t <> tx_side t.
Proof. rewrite tx_maker_side_opposite. apply opposite_no_fixpoint. Qed.

Lemma tx_total_value_mod t : tx_total_value t = (tx_price t * tx_qty t) mod W.
Proof. reflexivity. Qed.

Lemma tx_total_value_ovf_iff t : tx_total_value_ovf t = true <-> W <= tx_price t * tx_qty t.
Proof. unfold tx_total_value_ovf. lia. Qed.

Lemma tx_total_value_small t :
  tx_price t * tx_qty t < W ->
  tx_total_value t = tx_price t * tx_qty t /\ tx_total_value_ovf t = false.
Proof.
  intros H. unfold tx_total_value, tx_total_value_ovf. split; [apply N.mod_small; exact H | lia].
Qed.

Lemma tx_total_value_lt t : tx_total_value t < W.
Proof. unfold tx_total_value. apply N.mod_lt. exact W_nz. Qed.

(* ------------------------------------------------------------------ *)
(* MatchResult                                                         *)
(* ------------------------------------------------------------------ *)

Lemma sum_txval_nil : sum_txval [] = 0.
Proof. reflexivity. Qed.
Lemma sum_txval_cons t a : sum_txval (t :: a) = tx_qty t * tx_price t + sum_txval a.
Proof. reflexivity. Qed.

Lemma executed_value_raw_sum r : executed_value_raw r = sum_txval (r_txs r).
Proof.
  unfold executed_value_raw.
  assert (H : forall txs a,
             fold_left (fun a t => a + tx_price t * tx_qty t) txs a = a + sum_txval txs).
  { induction txs as [|t txs IH]; intros a; cbn [fold_left];
      rewrite ?sum_txval_nil, ?sum_txval_cons; [lia|].
    rewrite IH. rewrite (N.mul_comm (tx_price t) (tx_qty t)). lia. }
  rewrite H. lia.
Qed.

Lemma executed_quantity_w_sum r :
  executed_quantity_w r = sum_txq (r_txs r) mod W /\
  (executed_quantity_ovf r = true <-> W <= sum_txq (r_txs r)).
Proof.
  unfold executed_quantity_w, executed_quantity_ovf. rewrite executed_quantity_sum.
  split; [reflexivity | lia].
Qed.

Lemma executed_quantity_w_small r :
  sum_txq (r_txs r) < W ->
  executed_quantity_w r = sum_txq (r_txs r) /\ executed_quantity_ovf r = false.
Proof.
  intros H. unfold executed_quantity_w, executed_quantity_ovf. rewrite executed_quantity_sum.
  split; [apply N.mod_small; exact H | lia].
Qed.

Lemma executed_value_sum r :
  executed_value r = sum_txval (r_txs r) mod W /\
  (executed_value_ovf r = true <-> W <= sum_txval (r_txs r)).
Proof.
  unfold executed_value, executed_value_ovf. rewrite executed_value_raw_sum.
  split; [reflexivity | lia].
Qed.

Lemma executed_value_small r :
  sum_txval (r_txs r) < W ->
  executed_value r = sum_txval (r_txs r) /\ executed_value_ovf r = false.
Proof.
  intros H. unfold executed_value, executed_value_ovf. rewrite executed_value_raw_sum.
  split; [apply N.mod_small; exact H | lia].
Qed.

(* executed_value is the wrapping sum of the transactions' total_value: no information is lost
   by wrapping the products first *)
Lemma executed_value_total_values r :
  executed_value r = fold_right (fun t a => wadd (tx_total_value t) a) 0 (r_txs r) mod W.
Proof.
  unfold executed_value. rewrite executed_value_raw_sum.
  induction (r_txs r) as [|t txs IH]; [reflexivity|].
  rewrite sum_txval_cons. cbn [fold_right]. unfold wadd at 1.
  rewrite N.mod_mod by exact W_nz.
  rewrite (N.add_mod (tx_total_value t)) by exact W_nz. rewrite <- IH.
  unfold tx_total_value. rewrite !N.mod_mod by exact W_nz.
  rewrite <- N.add_mod by exact W_nz. rewrite (N.mul_comm (tx_price t)). reflexivity.
Qed.

Lemma sum_txval_const p txs :
  Forall (fun t => tx_price t = p) txs -> sum_txval txs = sum_txq txs * p.
Proof.
  induction 1 as [|t txs Ht _ IH]; [reflexivity|].
  rewrite sum_txval_cons, sum_txq_cons, IH, Ht, N.mul_add_distr_r. reflexivity.
Qed.

(* every transaction produced by match_order carries the level's price — for ANY per-order
   matching function (no interface hypothesis needed) *)
Lemma match_order_tx_price mf fuel l g qty taker l' g' r :
  match_order mf fuel l g qty taker = Some (l', g', r) ->
  Forall (fun t => tx_price t = price l) (r_txs r).
Proof.
  intros H. unfold match_order in H.
  destruct (match_loop mf fuel taker (mkMstate l g (result_new taker qty) qty [])) as [s|] eqn:E;
    [|discriminate H].
  set (P := fun s : mstate =>
              price (ms_lvl s) = price l /\
              Forall (fun t => tx_price t = price l) (r_txs (ms_res s))).
  assert (HP : P s).
  { refine (match_loop_inv mf P P taker _ _ _ fuel _ s _ E).
    - intros s0 o q' [Hp Hf] _ _.
      pose proof (next_spec mf taker s0 o q') as Hn. cbv zeta in Hn.
      destruct Hn as (_ & _ & Hres & Hprice & _).
      unfold P. rewrite Hprice, Hres. split; [exact Hp|].
      unfold next_res. rewrite Hp.
      destruct (0 <? m_consumed (mf o (ms_rem s0))); [|exact Hf].
      assert (Hadd : Forall (fun t => tx_price t = price l)
                       (r_txs (add_transaction (ms_res s0)
                          (mkTx (ms_gen s0) taker (oid_of o) (price l)
                                (m_consumed (mf o (ms_rem s0))) (opposite (side_of o)))))).
      { cbn [add_transaction r_txs]. apply Forall_app. split; [exact Hf|].
        constructor; [reflexivity | constructor]. }
      destruct (is_some (m_updated (mf o (ms_rem s0)))); [exact Hadd|].
      cbn [add_filled r_txs]. exact Hadd.
    - intros s0 H0 _. exact H0.
    - intros s0 q' H0 _ _. exact H0.
    - unfold P. cbn [ms_lvl ms_res result_new r_txs]. split; [reflexivity | constructor]. }
  destruct HP as [_ Hf].
  unfold finish in H. inversion H; subst; clear H. cbn [r_txs]. exact Hf.
Qed.

(* ... hence executed_value = executed_quantity * level price *)
Lemma match_order_executed_value mf fuel l g qty taker l' g' r :
  match_order mf fuel l g qty taker = Some (l', g', r) ->
  executed_value_raw r = executed_quantity r * price l /\
  executed_value r = (executed_quantity r * price l) mod W.
Proof.
  intros H. pose proof (match_order_tx_price _ _ _ _ _ _ _ _ _ H) as Hf.
  assert (Hraw : executed_value_raw r = executed_quantity r * price l).
  { rewrite executed_value_raw_sum, executed_quantity_sum. apply sum_txval_const. exact Hf. }
  split; [exact Hraw|]. unfold executed_value. rewrite Hraw. reflexivity.
Qed.

(* machine values, when the request fits: nothing overflows, in either build *)
Lemma match_order_executed_value_exact mf (Hc : I_cons mf) fuel l g qty taker l' g' r :
  match_order mf fuel l g qty taker = Some (l', g', r) ->
  qty < W -> qty * price l < W ->
  executed_quantity_ovf r = false /\ executed_value_ovf r = false /\
  executed_quantity_w r = executed_quantity r /\
  executed_value r = executed_quantity_w r * price l /\
  executed_quantity_w r + r_remaining r = qty.
Proof.
  intros H Hq Hv.
  destruct (match_accounting mf Hc fuel l g qty taker l' g' r H) as [Hacc _].
  destruct (match_order_executed_value _ _ _ _ _ _ _ _ _ H) as [Hraw _].
  assert (Hle : executed_quantity r <= qty) by lia.
  assert (Hlt : executed_quantity r * price l < W).
  { apply N.le_lt_trans with (qty * price l); [|exact Hv].
    apply N.mul_le_mono_r. exact Hle. }
  unfold executed_quantity_ovf, executed_value_ovf, executed_quantity_w, executed_value.
  rewrite Hraw. rewrite (N.mod_small (executed_quantity r) W) by lia.
  rewrite (N.mod_small _ W Hlt). repeat split; try lia.
Qed.

Lemma add_filled_spec r k :
  r_filled (add_filled r k) = r_filled r ++ [k] /\
  r_taker (add_filled r k) = r_taker r /\ r_txs (add_filled r k) = r_txs r /\
  r_remaining (add_filled r k) = r_remaining r /\ r_complete (add_filled r k) = r_complete r /\
  executed_quantity (add_filled r k) = executed_quantity r /\
  executed_value_raw (add_filled r k) = executed_value_raw r.
Proof. repeat split. Qed.

(* ------------------------------------------------------------------ *)
(* TransactionList                                                     *)
(* ------------------------------------------------------------------ *)

Lemma txl_roundtrip v : txl_into_vec (txl_from_vec v) = v.
Proof. reflexivity. Qed.

Lemma txl_len_from_vec v : txl_len (txl_from_vec v) = N.of_nat (length v).
Proof. reflexivity. Qed.

Lemma txl_is_empty_iff l : txl_is_empty l = true <-> txl_len l = 0.
Proof.
  destruct l as [|t l]; unfold txl_is_empty, txl_len; cbn [length]; split; intros H;
    try reflexivity; try discriminate H; try lia.
Qed.

Lemma txl_is_empty_nil l : txl_is_empty l = true <-> l = [].
Proof.
  destruct l as [|t l]; unfold txl_is_empty; split; intros H; try reflexivity; discriminate H.
Qed.

(* ------------------------------------------------------------------ *)
(* PriceLevel / OrderBookEntry: equality and order are those of the price *)
(* ------------------------------------------------------------------ *)

Lemma level_eqb_price a b : level_eqb a b = true <-> price a = price b.
Proof. unfold level_eqb. lia. Qed.

Lemma level_cmp_price a b :
  (level_cmp a b = Lt <-> price a < price b) /\
  (level_cmp a b = Eq <-> price a = price b) /\
  (level_cmp a b = Gt <-> price b < price a).
Proof.
  unfold level_cmp. split; [|split].
  - apply N.compare_lt_iff.
  - apply N.compare_eq_iff.
  - apply N.compare_gt_iff.
Qed.

Lemma level_leb_price a b : level_leb a b = true <-> price a <= price b.
Proof.
  unfold level_leb, level_cmp. destruct (N.compare_spec (price a) (price b)) as [E|L|G];
    split; intros H; try reflexivity; try lia; discriminate H.
Qed.

Lemma level_ltb_price a b : level_ltb a b = true <-> price a < price b.
Proof.
  unfold level_ltb, level_cmp. destruct (N.compare_spec (price a) (price b)) as [E|L|G];
    split; intros H; try reflexivity; try lia; discriminate H.
Qed.

(* a total preorder ... *)
Lemma level_leb_refl a : level_leb a a = true.
Proof. apply level_leb_price. lia. Qed.

Lemma level_leb_trans a b c : level_leb a b = true -> level_leb b c = true -> level_leb a c = true.
Proof. rewrite !level_leb_price. lia. Qed.

Lemma level_leb_total a b : level_leb a b = true \/ level_leb b a = true.
Proof. rewrite !level_leb_price. lia. Qed.

(* ... whose equivalence is the implemented == (equality of prices) ... *)
Lemma level_leb_antisym a b :
  level_leb a b = true /\ level_leb b a = true <-> level_eqb a b = true.
Proof. rewrite !level_leb_price, level_eqb_price. lia. Qed.

(* ... consistently with cmp (the contract between PartialEq and Ord) *)
Lemma level_cmp_eq a b : level_cmp a b = Eq <-> level_eqb a b = true.
Proof. rewrite level_eqb_price. apply (proj1 (proj2 (level_cmp_price a b))). Qed.

Lemma level_cmp_antisym a b : level_cmp b a = CompOpp (level_cmp a b).
Proof. unfold level_cmp. apply N.compare_antisym. Qed.

Lemma level_ltb_leb a b : level_ltb a b = true <-> level_leb a b = true /\ level_eqb a b = false.
Proof. rewrite level_ltb_price, level_leb_price. unfold level_eqb. lia. Qed.

Lemma level_eqb_equiv :
  (forall a, level_eqb a a = true) /\
  (forall a b, level_eqb a b = level_eqb b a) /\
  (forall a b c, level_eqb a b = true -> level_eqb b c = true -> level_eqb a c = true).
Proof.
  unfold level_eqb. split; [|split].
  - intros a. lia.
  - intros a b. lia.
  - intros a b c. lia.
Qed.

(* == is NOT structural equality: two levels at the same price with different contents are == *)
Lemma level_eqb_not_structural :
  exists a b, level_eqb a b = true /\ level_cmp a b = Eq /\ a <> b /\ lq a <> lq b /\ cvis a <> cvis b.
Proof.
  exists (new_level 100),
         (add_order (new_level 100) (Standard (mkCommon (Uuid 1) 100 Sell 1 Gtc) 5)).
  split; [reflexivity|]. split; [reflexivity|].
  split; [|split]; intros H; discriminate H.
Qed.

Lemma level_total_quantity_w_spec l :
  level_total_quantity_w l = total_quantity l mod W /\
  (level_total_quantity_ovf l = true <-> W <= total_quantity l).
Proof.
  unfold level_total_quantity_w, level_total_quantity_ovf, total_quantity. split; [reflexivity | lia].
Qed.

Lemma level_total_quantity_w_small l :
  cvis l + chid l < W ->
  level_total_quantity_w l = total_quantity l /\ level_total_quantity_ovf l = false.
Proof.
  intros H. unfold level_total_quantity_w, level_total_quantity_ovf, total_quantity.
  split; [apply N.mod_small; exact H | lia].
Qed.

(* entries: the same, and the index does not take part *)
Lemma entry_eqb_price a b : entry_eqb a b = true <-> price (e_level a) = price (e_level b).
Proof. unfold entry_eqb, entry_price. lia. Qed.

Lemma entry_cmp_level a b : entry_cmp a b = level_cmp (e_level a) (e_level b).
Proof. reflexivity. Qed.

Lemma entry_eqb_level a b : entry_eqb a b = level_eqb (e_level a) (e_level b).
Proof. reflexivity. Qed.

Lemma entry_leb_level a b : entry_leb a b = level_leb (e_level a) (e_level b).
Proof. reflexivity. Qed.

Lemma entry_order :
  (forall a, entry_leb a a = true) /\
  (forall a b c, entry_leb a b = true -> entry_leb b c = true -> entry_leb a c = true) /\
  (forall a b, entry_leb a b = true \/ entry_leb b a = true) /\
  (forall a b, entry_leb a b = true /\ entry_leb b a = true <-> entry_eqb a b = true) /\
  (forall a b, entry_cmp a b = Eq <-> entry_eqb a b = true) /\
  (forall a b, entry_cmp b a = CompOpp (entry_cmp a b)).
Proof.
  split; [|split; [|split; [|split; [|split]]]].
  - intros a. rewrite entry_leb_level. apply level_leb_refl.
  - intros a b c. rewrite !entry_leb_level. apply level_leb_trans.
  - intros a b. rewrite !entry_leb_level. apply level_leb_total.
  - intros a b. rewrite !entry_leb_level, entry_eqb_level. apply level_leb_antisym.
  - intros a b. rewrite entry_cmp_level, entry_eqb_level. apply level_cmp_eq.
  - intros a b. rewrite !entry_cmp_level. apply level_cmp_antisym.
Qed.

Lemma entry_eqb_ignores_index l i j : entry_eqb (mkEntry l i) (mkEntry l j) = true.
Proof. unfold entry_eqb, entry_price. cbn [e_level]. lia. Qed.

Lemma entry_accessors e :
  entry_price e = price (e_level e) /\ entry_visible_quantity e = cvis (e_level e) /\
  entry_total_quantity_w e = level_total_quantity_w (e_level e) /\
  entry_order_count e = ccnt (e_level e).
Proof. repeat split. Qed.

(* ------------------------------------------------------------------ *)
(* PriceLevelStatistics                                                *)
(* ------------------------------------------------------------------ *)

Lemma stats_reset_zero s :
  s_added (stats_reset s) = 0 /\ s_removed (stats_reset s) = 0 /\ s_executed (stats_reset s) = 0 /\
  s_qty (stats_reset s) = 0 /\ s_value (stats_reset s) = 0.
Proof. repeat split. Qed.

Lemma stats_reset_idempotent s : stats_reset (stats_reset s) = stats_reset s.
Proof. reflexivity. Qed.

Lemma record_added_spec s :
  s_added (record_added s) = (s_added s + 1) mod W /\
  s_removed (record_added s) = s_removed s /\ s_executed (record_added s) = s_executed s /\
  s_qty (record_added s) = s_qty s /\ s_value (record_added s) = s_value s.
Proof. repeat split. Qed.

Lemma record_removed_spec s :
  s_removed (record_removed s) = (s_removed s + 1) mod W /\
  s_added (record_removed s) = s_added s /\ s_executed (record_removed s) = s_executed s /\
  s_qty (record_removed s) = s_qty s /\ s_value (record_removed s) = s_value s.
Proof. repeat split. Qed.

Lemma record_execution_spec s q p :
  s_executed (record_execution s q p) = (s_executed s + 1) mod W /\
  s_qty (record_execution s q p) = (s_qty s + q) mod W /\
  s_value (record_execution s q p) = (s_value s + q * p) mod W /\
  s_added (record_execution s q p) = s_added s /\ s_removed (record_execution s q p) = s_removed s.
Proof. repeat split. Qed.

(* without wrap-around the counters are the plain sums *)
Lemma record_exact s q p :
  s_added s + 1 < W -> s_removed s + 1 < W -> s_executed s + 1 < W ->
  s_qty s + q < W -> s_value s + q * p < W ->
  s_added (record_added s) = s_added s + 1 /\
  s_removed (record_removed s) = s_removed s + 1 /\
  s_executed (record_execution s q p) = s_executed s + 1 /\
  s_qty (record_execution s q p) = s_qty s + q /\
  s_value (record_execution s q p) = s_value s + q * p /\
  record_execution_ovf q p = false.
Proof.
  intros Ha Hr He Hq Hv.
  cbn [record_added record_removed record_execution s_added s_removed s_executed s_qty s_value].
  rewrite !wadd_small by assumption. unfold record_execution_ovf. repeat split. lia.
Qed.

Lemma record_execution_ovf_iff q p : record_execution_ovf q p = true <-> W <= q * p.
Proof. unfold record_execution_ovf. lia. Qed.

(* the state a panicking (debug) record_execution leaves behind agrees with the completed call
   on everything except the value *)
Lemma record_execution_partial_spec s q p :
  s_executed (record_execution_partial s q) = s_executed (record_execution s q p) /\
  s_qty (record_execution_partial s q) = s_qty (record_execution s q p) /\
  s_added (record_execution_partial s q) = s_added s /\
  s_removed (record_execution_partial s q) = s_removed s /\
  s_value (record_execution_partial s q) = s_value s.
Proof. repeat split. Qed.

(* the debug run is the release run as long as no product overflows *)
Lemma stats_run_debug_no_ovf ops : forall i s,
  Forall (fun o => match o with SExec q p => q * p < W | _ => True end) ops ->
  stats_run_debug i s ops = (stats_run s ops, None).
Proof.
  induction ops as [|o ops IH]; intros i s Hf; [reflexivity|].
  inversion Hf as [|o' ops' Ho Hf']; subst.
  destruct o as [| |q p|]; cbn [stats_run_debug stats_run fold_left stats_apply];
    try (apply IH; exact Hf').
  unfold record_execution_ovf. replace (W <=? q * p) with false by lia.
  apply IH. exact Hf'.
Qed.

Lemma stats_run_reset_last s ops : stats_run s (ops ++ [SReset]) = stats0.
Proof. unfold stats_run. rewrite fold_left_app. reflexivity. Qed.
