(* StatsProofs.v — C15 (sequential): the statistics of a level agree with the
   events of the history.  The counters are wrapping machine words that are never
   read back by the level, so the general statement is a congruence modulo W;
   the exact statements follow when the true sums fit in 64 bits. *)
From PL Require Import Model.Level Spec.Hist Spec.StatsSpec
  Proofs.OrderProofs Proofs.BaseLemmas Proofs.LevelInv.
From Coq Require Import Lia ZifyBool ZifyN.
Local Open Scope N_scope.

Lemma I_cons_I_id mf : I_cons mf -> I_id mf.
Proof.
  intros H o inc u Hu. destruct (H o inc) as (_ & _ & Hm). rewrite Hu in Hm. apply Hm.
Qed.

Lemma price_of_com a b : com a = com b -> price_of a = price_of b.
Proof. unfold price_of. intros ->. reflexivity. Qed.

Lemma oid_of_com a b : com a = com b -> oid_of a = oid_of b.
Proof. unfold oid_of. intros ->. reflexivity. Qed.

(* ---- sums over transactions ---- *)
Lemma sum_txq_nil : sum_txq [] = 0. Proof. reflexivity. Qed.
Lemma sum_txq_cons t a : sum_txq (t :: a) = tx_qty t + sum_txq a. Proof. reflexivity. Qed.
Lemma sum_txv_nil pm : sum_txv pm [] = 0. Proof. reflexivity. Qed.
Lemma sum_txv_cons pm t a : sum_txv pm (t :: a) = tx_qty t * pm (tx_maker t) + sum_txv pm a.
Proof. reflexivity. Qed.

Lemma sum_txq_app a b : sum_txq (a ++ b) = sum_txq a + sum_txq b.
Proof.
  induction a as [|t a IH]; cbn [app]; rewrite ?sum_txq_nil, ?sum_txq_cons; [lia|].
  rewrite IH. lia.
Qed.

Lemma sum_txv_app pm a b : sum_txv pm (a ++ b) = sum_txv pm a + sum_txv pm b.
Proof.
  induction a as [|t a IH]; cbn [app]; rewrite ?sum_txv_nil, ?sum_txv_cons; [lia|].
  rewrite IH. lia.
Qed.

Lemma sum_txq_one t : sum_txq [t] = tx_qty t.
Proof. rewrite sum_txq_cons, sum_txq_nil. lia. Qed.

Lemma sum_txv_one pm t : sum_txv pm [t] = tx_qty t * pm (tx_maker t).
Proof. rewrite sum_txv_cons, sum_txv_nil. lia. Qed.

Lemma executed_quantity_sum r : executed_quantity r = sum_txq (r_txs r).
Proof.
  unfold executed_quantity.
  assert (H : forall txs a, fold_left (fun a t => a + tx_qty t) txs a = a + sum_txq txs).
  { induction txs as [|t txs IH]; intros a; cbn [fold_left];
      rewrite ?sum_txq_nil, ?sum_txq_cons; [lia|]. rewrite IH. lia. }
  rewrite H. lia.
Qed.

(* when every maker price is p, the value is p times the quantity *)
Lemma sum_txv_const pm p txs : (forall k, pm k = p) -> sum_txv pm txs = p * sum_txq txs.
Proof.
  intros Hp. induction txs as [|t txs IH];
    rewrite ?sum_txv_nil, ?sum_txq_nil, ?sum_txv_cons, ?sum_txq_cons; [lia|].
  rewrite IH, Hp. lia.
Qed.

(* ---- the map of prices by id agrees with the resting orders ---- *)
Definition PriceOk (pm : oid -> N) (m : list order) : Prop :=
  forall o, In o m -> price_of o = pm (oid_of o).

Lemma PriceOk_sub pm m m' : (forall x, In x m' -> In x m) -> PriceOk pm m -> PriceOk pm m'.
Proof. intros Hs H o Ho. apply H. apply Hs. exact Ho. Qed.

Lemma PriceOk_upsert_add pm o m : PriceOk pm m -> PriceOk (upd_price pm o) (upsert o m).
Proof.
  intros H x Hx. unfold upd_price. apply In_upsert in Hx. destruct Hx as [->|[Hx Hne]].
  - rewrite oid_eqb_refl. reflexivity.
  - apply oid_eqb_neq in Hne. rewrite Hne. apply H. exact Hx.
Qed.

(* statistics invariant of a level relative to running true sums a r q v *)
Definition StI (p : N) (pm : oid -> N) (a r q v : N) (l : level) : Prop :=
  price l = p /\ s_added (st l) = a mod W /\ s_removed (st l) = r mod W /\
  s_qty (st l) = q mod W /\ s_value (st l) = v mod W /\ PriceOk pm (resting l).

Lemma StI_new_level p pm : StI p pm 0 0 0 0 (new_level p).
Proof. repeat split. intros o []. Qed.

(* ---- update ---- *)
Lemma take_out_StI p pm a r q v l k l' uo :
  StI p pm a r q v l -> take_out l k = (l', uo) ->
  StI p pm a (r + match uo with UOk (Some _) => 1 | _ => 0 end) q v l'.
Proof.
  intros (Hp & Ha & Hr & Hq & Hv & Hpm) H. unfold take_out in H.
  destruct (qremove (lq l) k) as [[o|] q'] eqn:E; inversion H; subst; clear H.
  - destruct (qremove_Some _ _ _ _ E) as [_ ->].
    unfold StI, resting. cbn [price st lq qmap record_removed s_added s_removed s_qty s_value].
    rewrite Hr, wadd_mod_l. repeat split; try assumption.
    eapply PriceOk_sub; [|exact Hpm]. intros x Hx. apply In_remove_key in Hx. apply Hx.
  - rewrite N.add_0_r. repeat split; assumption.
Qed.

Lemma amend_StI p pm a r q v l k nq l' uo :
  StI p pm a r q v l -> amend l k nq = (l', uo) -> StI p pm a r q v l'.
Proof.
  intros HS H. pose proof HS as (Hp & Ha & Hr & Hq & Hv & Hpm). unfold amend in H.
  destruct (qfind (lq l) k) as [x|] eqn:Ef; [|inversion H; subst; exact HS].
  destruct (qremove (lq l) k) as [[old|] q'] eqn:E; [|inversion H; subst; exact HS].
  inversion H; subst; clear H.
  destruct (qremove_Some _ _ _ _ E) as [Hl ->]. destruct (lookup_Some _ _ _ Hl) as [Hin _].
  unfold StI, resting. cbn [price st lq qmap push].
  repeat split; try assumption.
  intros y Hy. apply In_upsert in Hy. destruct Hy as [->|[Hy _]].
  - rewrite (price_of_com _ old), (oid_of_com _ old) by apply com_with_reduced.
    apply Hpm. exact Hin.
  - apply In_remove_key in Hy. apply Hpm. apply Hy.
Qed.

Lemma update_order_StI p pm a r q v l u l' uo :
  StI p pm a r q v l -> update_order l u = (l', uo) ->
  StI p pm a (r + ev_removed p (OUpdate u, OutUpdate uo)) q v l'.
Proof.
  intros HS H. pose proof HS as (Hp & _).
  assert (Hto : forall k, take_out l k = (l', uo) -> is_removal p u = true ->
                StI p pm a (r + ev_removed p (OUpdate u, OutUpdate uo)) q v l').
  { intros k Ht Hrm. pose proof (take_out_StI _ _ _ _ _ _ _ _ _ _ HS Ht) as H1.
    cbn [ev_removed]. rewrite Hrm. destruct uo as [[o|]|]; exact H1. }
  assert (Ham : forall k nq, amend l k nq = (l', uo) -> is_removal p u = false ->
                StI p pm a (r + ev_removed p (OUpdate u, OutUpdate uo)) q v l').
  { intros k nq Ht Hrm. pose proof (amend_StI _ _ _ _ _ _ _ _ _ _ _ HS Ht) as H1.
    cbn [ev_removed]. rewrite Hrm.
    replace (r + match uo with UOk (Some _) => 0 | _ => 0 end) with r; [exact H1|].
    destruct uo as [[o|]|]; lia. }
  destruct u as [k np|k nq|k np nq|k|k p0 q0 s]; cbn [update_order] in H.
  - destruct (np =? price l) eqn:En.
    + inversion H; subst. cbn [ev_removed]. rewrite N.add_0_r. exact HS.
    + apply (Hto k H). cbn [is_removal]. rewrite <- Hp, En. reflexivity.
  - apply (Ham k nq H). reflexivity.
  - destruct (np =? price l) eqn:En.
    + apply (Ham k nq H). cbn [is_removal]. rewrite <- Hp, En. reflexivity.
    + apply (Hto k H). cbn [is_removal]. rewrite <- Hp, En. reflexivity.
  - apply (Hto k H). reflexivity.
  - destruct (p0 =? price l) eqn:En.
    + apply (Ham k q0 H). cbn [is_removal]. rewrite <- Hp, En. reflexivity.
    + apply (Hto k H). cbn [is_removal]. rewrite <- Hp, En. reflexivity.
Qed.

(* ---- match ---- *)
Section Match.
Variable mf : order -> N -> mres.
Hypothesis HId : I_id mf.

Lemma visit_level_st l rem o :
  st (visit_level mf l rem o) = record_execution (st l) (m_consumed (mf o rem)) (price_of o).
Proof. unfold visit_level. destruct (m_updated (mf o rem)); reflexivity. Qed.

Lemma visit_level_resting l rem o x :
  In x (resting (visit_level mf l rem o)) -> In x (resting l) \/ m_updated (mf o rem) = Some x.
Proof.
  unfold visit_level. destruct (m_updated (mf o rem)) as [u|]; unfold resting; cbn [lq]; intros H.
  - rewrite qmap_push in H. apply In_upsert in H. destruct H as [->|[H _]]; [right; reflexivity | left; exact H].
  - left. exact H.
Qed.

Lemma visit_res_txs l gen res taker rem o :
  r_txs (visit_res mf l gen res taker rem o) =
  r_txs res ++ (if 0 <? m_consumed (mf o rem) then [visit_tx mf l gen taker rem o] else []).
Proof.
  unfold visit_res. destruct (0 <? m_consumed (mf o rem)); [|rewrite app_nil_r; reflexivity].
  destruct (is_some (m_updated (mf o rem))); reflexivity.
Qed.

Lemma pop_None_qmap q q' : pop q = (None, q') -> qmap q' = qmap q.
Proof.
  unfold pop. destruct (pop_t (qmap q) (tickets q)) as [[[x m'] t']|]; intros H; inversion H; reflexivity.
Qed.

Lemma In_fold_push os : forall q x, In x (qmap (fold_left push os q)) -> In x (qmap q) \/ In x os.
Proof.
  induction os as [|o os IH]; intros q x H; cbn [fold_left] in H; [left; exact H|].
  apply IH in H. destruct H as [H|H]; [|right; right; exact H].
  rewrite qmap_push in H. apply In_upsert in H. destruct H as [->|[H _]].
  - right. left. reflexivity.
  - left. exact H.
Qed.

Definition MSI (p : N) (pm : oid -> N) (a r q v : N) (s : mstate) : Prop :=
  let l := ms_lvl s in
  let txs := r_txs (ms_res s) in
  price l = p /\ s_added (st l) = a mod W /\ s_removed (st l) = r mod W /\
  s_qty (st l) = (q + sum_txq txs) mod W /\ s_value (st l) = (v + sum_txv pm txs) mod W /\
  PriceOk pm (resting l ++ ms_aside s) /\ Forall (fun t => tx_price t = p) txs.

Lemma match_loop_MSI p pm a r q v taker fuel s s' :
  MSI p pm a r q v s -> match_loop mf fuel taker s = Some s' -> MSI p pm a r q v s'.
Proof.
  revert fuel s s'. apply match_loop_inv.
  - intros s q' _ Hp (H1 & H2 & H3 & H4 & H5 & H6 & H7).
    unfold MSI, resting in *. cbn [ms_lvl ms_res ms_aside set_queue price st lq].
    rewrite (pop_None_qmap _ _ Hp). repeat split; assumption.
  - intros s o q' _ Hp _ (H1 & H2 & H3 & H4 & H5 & H6 & H7).
    destruct (pop_Some _ _ _ Hp) as (Hl & Hm & _). destruct (lookup_Some _ _ _ Hl) as [Hin _].
    unfold MSI, resting in *. cbn [ms_lvl ms_res ms_aside set_queue price st lq].
    repeat split; try assumption.
    eapply PriceOk_sub; [|exact H6]. intros x Hx. rewrite Hm in Hx.
    apply in_app_or in Hx. apply in_or_app. destruct Hx as [Hx|Hx].
    + left. apply In_remove_key in Hx. apply Hx.
    + apply in_app_or in Hx. destruct Hx as [Hx|[<-|[]]]; [right; exact Hx | left; exact Hin].
  - intros s o q' _ Hp _ (H1 & H2 & H3 & H4 & H5 & H6 & H7).
    destruct (pop_Some _ _ _ Hp) as (Hl & Hm & _). destruct (lookup_Some _ _ _ Hl) as [Hin _].
    assert (Hpo : price_of o = pm (oid_of o)).
    { apply H6. apply in_or_app. left. exact Hin. }
    unfold MSI. cbn [ms_lvl ms_res ms_aside].
    rewrite visit_level_price, visit_level_st, visit_res_txs.
    cbn [set_queue price st record_execution s_added s_removed s_qty s_value].
    rewrite H4, H5, !wadd_mod_l, sum_txq_app, sum_txv_app.
    split; [exact H1|]. split; [exact H2|]. split; [exact H3|].
    assert (Hq : sum_txq (if 0 <? m_consumed (mf o (ms_rem s))
                          then [visit_tx mf (set_queue (ms_lvl s) q') (ms_gen s) taker (ms_rem s) o] else [])
                 = m_consumed (mf o (ms_rem s))).
    { destruct (N.ltb_spec 0 (m_consumed (mf o (ms_rem s)))); [apply sum_txq_one | cbn; lia]. }
    assert (Hv : sum_txv pm (if 0 <? m_consumed (mf o (ms_rem s))
                          then [visit_tx mf (set_queue (ms_lvl s) q') (ms_gen s) taker (ms_rem s) o] else [])
                 = m_consumed (mf o (ms_rem s)) * price_of o).
    { destruct (N.ltb_spec 0 (m_consumed (mf o (ms_rem s)))) as [L|L].
      - rewrite sum_txv_one. cbn [visit_tx tx_qty tx_maker]. rewrite Hpo. reflexivity.
      - cbn. replace (m_consumed (mf o (ms_rem s))) with 0 by lia. lia. }
    rewrite Hq, Hv. split; [f_equal; lia|]. split; [f_equal; lia|]. split.
    + intros x Hx. apply in_app_or in Hx. destruct Hx as [Hx|Hx].
      * apply visit_level_resting in Hx. destruct Hx as [Hx|Hx].
        -- apply H6. apply in_or_app. left. unfold resting in *. cbn [set_queue lq] in Hx.
           rewrite Hm in Hx. apply In_remove_key in Hx. apply Hx.
        -- pose proof (same_identity_com _ _ (HId _ _ _ Hx)) as Hc.
           rewrite <- (price_of_com _ _ Hc), <- (oid_of_com _ _ Hc). exact Hpo.
      * apply H6. apply in_or_app. right. exact Hx.
    + apply Forall_app. split; [exact H7|].
      destruct (0 <? m_consumed (mf o (ms_rem s))); constructor; [|constructor].
      cbn [visit_tx tx_price set_queue price]. exact H1.
Qed.

Lemma match_order_StI p pm a r q v fuel l g qty taker l' g' res :
  StI p pm a r q v l -> match_order mf fuel l g qty taker = Some (l', g', res) ->
  StI p pm a r (q + sum_txq (r_txs res)) (v + sum_txv pm (r_txs res)) l' /\
  Forall (fun t => tx_price t = p) (r_txs res).
Proof.
  intros (Hp & Ha & Hr & Hq & Hv & Hpm) H. unfold match_order in H.
  destruct (match_loop mf fuel taker (mkMstate l g (result_new taker qty) qty [])) as [s|] eqn:E;
    [|discriminate].
  assert (H0 : MSI p pm a r q v (mkMstate l g (result_new taker qty) qty [])).
  { unfold MSI. cbn [ms_lvl ms_res ms_aside result_new r_txs sum_txq sum_txv fold_right].
    rewrite app_nil_r, !N.add_0_r. repeat split; try assumption. constructor. }
  pose proof (match_loop_MSI _ _ _ _ _ _ _ _ _ _ H0 E) as (H1 & H2 & H3 & H4 & H5 & H6 & H7).
  unfold finish in H. inversion H; subst; clear H. cbn [r_txs].
  split; [|exact H7]. unfold StI. cbn [set_queue price st].
  repeat split; try assumption.
  eapply PriceOk_sub; [|exact H6]. intros x Hx. unfold resting in *. cbn [lq] in Hx.
  apply in_or_app. apply In_fold_push. exact Hx.
Qed.

(* ---- one step, whole histories ---- *)
Lemma step_StI p pm a r q v s o s1 x :
  step mf s o s1 x -> is_rebuild o = false -> StI p pm a r q v (fst s) ->
  StI p (ev_pm pm (o, x)) (a + ev_added (o, x)) (r + ev_removed p (o, x))
      (q + ev_qty (o, x)) (v + ev_value pm (o, x)) (fst s1) /\
  ev_tx_price p (o, x).
Proof.
  intros Hstep Hnr HS. destruct Hstep; cbn [fst] in *; try discriminate.
  - (* add *)
    cbn [ev_pm ev_added ev_removed ev_qty ev_value ev_tx_price]. rewrite !N.add_0_r.
    split; [|exact I]. destruct HS as (Hp & Ha & Hr & Hq & Hv & Hpm).
    unfold StI. cbn [add_order price st record_added s_added s_removed s_qty s_value].
    rewrite Ha, wadd_mod_l. repeat split; try assumption.
    rewrite resting_add_order. apply PriceOk_upsert_add. exact Hpm.
  - (* match *)
    cbn [ev_pm ev_added ev_removed ev_qty ev_value ev_tx_price]. rewrite !N.add_0_r.
    eapply match_order_StI; eassumption.
  - (* update *)
    cbn [ev_pm ev_added ev_qty ev_value ev_tx_price]. rewrite !N.add_0_r.
    split; [|exact I]. eapply update_order_StI; eassumption.
  - (* read *)
    cbn [ev_pm ev_added ev_removed ev_qty ev_value ev_tx_price]. rewrite !N.add_0_r.
    split; [exact HS | exact I].
Qed.

Lemma steps_StI p s ops s' outs :
  steps mf s ops s' outs -> no_rebuild ops = true ->
  forall pm a r q v, StI p pm a r q v (fst s) ->
  let h := combine ops outs in
  (exists pm', StI p pm' (a + n_added h) (r + n_removed p h) (q + qty_executed h)
                   (v + value_executed pm h) (fst s')) /\
  Forall (ev_tx_price p) h.
Proof.
  induction 1 as [s|s o s1 x ops s' outs Hok Hstep F Hsteps IH]; intros Hnr pm a r q v HS.
  - cbn. rewrite !N.add_0_r. split; [exists pm; exact HS | constructor].
  - cbn [no_rebuild forallb] in Hnr. apply andb_true_iff in Hnr. destruct Hnr as [Hn1 Hn2].
    apply negb_true_iff in Hn1.
    destruct (step_StI p pm a r q v _ _ _ _ Hstep Hn1 HS) as [HS1 Htx].
    destruct (IH Hn2 _ _ _ _ _ HS1) as [(pm' & HS') Hall].
    cbn [combine]. cbv zeta.
    cbn [n_added n_removed qty_executed value_executed fold_right].
    fold (n_added (combine ops outs)). fold (n_removed p (combine ops outs)).
    fold (qty_executed (combine ops outs)).
    split; [|constructor; assumption].
    exists pm'. rewrite !N.add_assoc. exact HS'.
Qed.

Lemma steps_length s ops s' outs : steps mf s ops s' outs -> length ops = length outs.
Proof. induction 1; cbn [length]; congruence. Qed.

(* the general statement: congruences modulo 2^64, for any initial price map *)
Lemma stats_mod p g0 ops l g outs :
  steps mf (new_level p, g0) ops (l, g) outs -> no_rebuild ops = true ->
  let h := combine ops outs in
  price l = p /\
  s_added (st l) = n_added h mod W /\
  s_removed (st l) = n_removed p h mod W /\
  s_qty (st l) = qty_executed h mod W /\
  (forall pm, s_value (st l) = value_executed pm h mod W) /\
  Forall (ev_tx_price p) h.
Proof.
  intros Hs Hnr h.
  destruct (steps_StI p _ _ _ _ Hs Hnr (fun _ => 0) 0 0 0 0 (StI_new_level p _))
    as [(pm' & (H1 & H2 & H3 & H4 & _ & _)) Hall].
  cbn [fst] in *. rewrite !N.add_0_l in *. fold h in H2, H3, H4, Hall.
  repeat split; try assumption.
  intros pm.
  destruct (steps_StI p _ _ _ _ Hs Hnr pm 0 0 0 0 (StI_new_level p _))
    as [(pm'' & (_ & _ & _ & _ & H5 & _)) _].
  cbn [fst] in H5. rewrite N.add_0_l in H5. exact H5.
Qed.

End Match.

(* value = price * quantity when every added order carries the level price *)
Lemma value_executed_const p : forall h pm,
  (forall k, pm k = p) -> (forall o (x : out), In (OAdd o, x) h -> price_of o = p) ->
  value_executed pm h = p * qty_executed h.
Proof.
  induction h as [|e h IH]; intros pm Hpm Hadd; cbn [value_executed qty_executed fold_right]; [lia|].
  fold (qty_executed h).
  rewrite (IH (ev_pm pm e)).
  - assert (He : ev_value pm e = p * ev_qty e).
    { destruct e as [o x]. destruct o; cbn [ev_value ev_qty]; try lia.
      destruct x; try lia. apply sum_txv_const. exact Hpm. }
    rewrite He. lia.
  - intros k. destruct e as [o x]. destruct o; cbn [ev_pm]; try apply Hpm.
    unfold upd_price. destruct (oid_eqb k (oid_of o)); [|apply Hpm].
    apply (Hadd o x). left. reflexivity.
  - intros o x Hin. apply (Hadd o x). right. exact Hin.
Qed.

Lemma all_added_at_hist p ops outs :
  all_added_at p ops -> forall o (x : out), In (OAdd o, x) (combine ops outs) -> price_of o = p.
Proof. intros H o x Hin. apply H. eapply in_combine_l. exact Hin. Qed.

Section Exact.
Variable mf : order -> N -> mres.
Hypothesis HId : I_id mf.
Variables (p g0 : N) (ops : list op) (l : level) (g : N) (outs : list out).
Hypothesis Hsteps : steps mf (new_level p, g0) ops (l, g) outs.
Hypothesis Hnr : no_rebuild ops = true.

Lemma stats_added_exact :
  n_added (combine ops outs) < W -> s_added (st l) = n_added (combine ops outs).
Proof.
  intros Hlt. destruct (stats_mod mf HId _ _ _ _ _ _ Hsteps Hnr) as (_ & H & _).
  rewrite H. apply N.mod_small. exact Hlt.
Qed.

Lemma stats_removed_exact :
  n_removed p (combine ops outs) < W -> s_removed (st l) = n_removed p (combine ops outs).
Proof.
  intros Hlt. destruct (stats_mod mf HId _ _ _ _ _ _ Hsteps Hnr) as (_ & _ & H & _).
  rewrite H. apply N.mod_small. exact Hlt.
Qed.

Lemma stats_qty_exact :
  qty_executed (combine ops outs) < W -> s_qty (st l) = qty_executed (combine ops outs).
Proof.
  intros Hlt. destruct (stats_mod mf HId _ _ _ _ _ _ Hsteps Hnr) as (_ & _ & _ & H & _).
  rewrite H. apply N.mod_small. exact Hlt.
Qed.

Lemma stats_value_exact pm :
  value_executed pm (combine ops outs) < W -> s_value (st l) = value_executed pm (combine ops outs).
Proof.
  intros Hlt. destruct (stats_mod mf HId _ _ _ _ _ _ Hsteps Hnr) as (_ & _ & _ & _ & H & _).
  rewrite (H pm). apply N.mod_small. exact Hlt.
Qed.

Lemma stats_value_price_exact :
  all_added_at p ops -> qty_executed (combine ops outs) * p < W ->
  s_value (st l) = qty_executed (combine ops outs) * p.
Proof.
  intros Hall Hlt.
  assert (E : value_executed (fun _ => p) (combine ops outs) = p * qty_executed (combine ops outs)).
  { apply value_executed_const; [reflexivity | apply all_added_at_hist; exact Hall]. }
  rewrite (stats_value_exact (fun _ => p)); rewrite E; lia.
Qed.

End Exact.

(* all four at once, in the domain "every added order carries the level price" *)
Lemma stats_exact_all mf p g0 ops l g outs :
  I_id mf -> steps mf (new_level p, g0) ops (l, g) outs -> no_rebuild ops = true ->
  all_added_at p ops ->
  let h := combine ops outs in
  n_added h < W -> n_removed p h < W -> qty_executed h < W -> qty_executed h * p < W ->
  s_added (st l) = n_added h /\ s_removed (st l) = n_removed p h /\
  s_qty (st l) = qty_executed h /\ s_value (st l) = qty_executed h * p.
Proof.
  intros HId Hs Hnr Hall h Ha Hr Hq Hv.
  split; [eapply stats_added_exact; eassumption|].
  split; [eapply stats_removed_exact; eassumption|].
  split; [eapply stats_qty_exact; eassumption|].
  eapply stats_value_price_exact; eassumption.
Qed.
