(* CovProofs.v — C08: the coverage invariant of the interleaving model, what it
   gives at quiescence, and the exactly-once hand-out of orders along traces. *)
From PL Require Import Spec.CovSpec Proofs.ConcLemmas.
From Coq Require Import Lia.
Local Open Scope N_scope.

Section WithMf.
Variable mf : order -> N -> mres.

(* ================= 1. coverage invariant ================= *)

Lemma pending_not_done p k : pending p k -> forall r, p <> Done r.
Proof. intros [H|H] r E; subst p; exact H. Qed.

Lemma Cov_step c i c' e : Cov c -> cstep mf c i = Some (c', e) -> Cov c'.
Proof.
  intros HC Hs.
  destruct (cstep_inv mf _ _ _ _ Hs) as (t & p' & s' & Hn & Ht & ->).
  destruct (tstep_facts mf _ _ _ _ _ Ht) as (Hev & Hins & Hrem & _).
  (* a thread other than i keeps its program point *)
  assert (Hother : forall j tj k, j <> i -> nth_error (cf_threads c) j = Some tj ->
            pending (th_pc tj) k ->
            exists j' t', nth_error (update_nth i (stepped t p' s') (cf_threads c)) j' = Some t' /\
                          pending (th_pc t') k).
  { intros j tj k Hne Hj Hp. exists j, tj. split; [|exact Hp].
    rewrite nth_error_update_nth_neq by congruence. exact Hj. }
  (* thread i, if its new point is a pending one, stays there *)
  assert (Hself : forall k, pending p' k ->
            exists j' t', nth_error (update_nth i (stepped t p' s') (cf_threads c)) j' = Some t' /\
                          pending (th_pc t') k).
  { intros k Hp. exists i, (stepped t p' s'). split.
    - eapply nth_error_update_nth_eq. exact Hn.
    - rewrite stepped_not_done by (eapply pending_not_done; exact Hp). exact Hp. }
  (* what the step of thread i must have been if thread i was the witness *)
  assert (Hwit : forall k, pending (th_pc t) k -> e = EPush k \/ exists r, e = ERemove k r).
  { intros k [H|H]; [left; apply Hins, H | right; apply Hrem, H]. }
  intros x Hx. cbn [cf_sh cf_threads] in *.
  (* old coverage of an x that was already in the map, with the case "witness = i" exposed *)
  assert (Hold : In x (sh_map (cf_sh c)) ->
            In (oid_of x) (sh_tk (cf_sh c)) \/
            (e = EPush (oid_of x) \/ exists r, e = ERemove (oid_of x) r) \/
            exists j' t', nth_error (update_nth i (stepped t p' s') (cf_threads c)) j' = Some t' /\
                          pending (th_pc t') (oid_of x)).
  { intros Hin. destruct (HC x Hin) as [Htk|(j & tj & Hj & Hp)]; [left; exact Htk|].
    right. destruct (Nat.eq_dec j i) as [->|Hne].
    - left. rewrite Hn in Hj. inversion Hj; subst tj. apply Hwit, Hp.
    - right. eapply Hother; eassumption. }
  destruct e as [ | | | o | k r | k r | k | [k|] | ]; unfold ev_effect in Hev.
  - (* EFetchAdd *) destruct Hev as (Hm & Htk). rewrite Hm in Hx. rewrite Htk.
    destruct (Hold Hx) as [H|[[H|(r & H)]|H]]; try discriminate; auto.
  - destruct Hev as (Hm & Htk). rewrite Hm in Hx. rewrite Htk.
    destruct (Hold Hx) as [H|[[H|(r & H)]|H]]; try discriminate; auto.
  - destruct Hev as (Hm & Htk). rewrite Hm in Hx. rewrite Htk.
    destruct (Hold Hx) as [H|[[H|(r & H)]|H]]; try discriminate; auto.
  - (* EInsert o *)
    destruct Hev as (Hm & Htk & Hp). rewrite Hm in Hx. rewrite Htk.
    apply in_upsert in Hx. destruct Hx as [->|[Hx Hne]].
    + right. apply Hself. left. exact Hp.
    + destruct (Hold Hx) as [H|[[H|(r & H)]|H]]; try discriminate; auto.
  - (* ERemove k r *)
    destruct Hev as (Hr & Hm & Htk). rewrite Hm in Hx. rewrite Htk.
    apply in_remove_key in Hx. destruct Hx as [Hx Hne].
    destruct (Hold Hx) as [H|[[H|(r' & H)]|H]]; try discriminate; auto.
    inversion H; subst. congruence.
  - (* EGet *)
    destruct Hev as (Hr & Hm & Htk). rewrite Hm in Hx. rewrite Htk.
    destruct (Hold Hx) as [H|[[H|(r' & H)]|H]]; try discriminate; auto.
  - (* EPush k *)
    destruct Hev as (Hm & Htk & Hp). rewrite Hm in Hx. rewrite Htk.
    destruct (Hold Hx) as [H|[[H|(r' & H)]|H]]; try discriminate; auto.
    + left. apply in_or_app. left. exact H.
    + inversion H; subst. left. apply in_or_app. right. left. reflexivity.
  - (* EPop (Some k) *)
    destruct Hev as (Hm & Htk & Hp). rewrite Hm in Hx.
    destruct (Hold Hx) as [H|[[H|(r' & H)]|H]]; try discriminate; auto.
    rewrite Htk in H. destruct H as [H|H]; [|left; exact H].
    right. apply Hself. right. rewrite <- H. exact Hp.
  - (* EPop None *)
    destruct Hev as (Hm & Htk). rewrite Hm in Hx. rewrite Htk.
    destruct (Hold Hx) as [H|[[H|(r & H)]|H]]; try discriminate; auto.
  - (* EIter *)
    destruct Hev as (Hm & Htk). rewrite Hm in Hx. rewrite Htk.
    destruct (Hold Hx) as [H|[[H|(r & H)]|H]]; try discriminate; auto.
Qed.

Lemma Cov_exec sched c : Cov c -> Cov (fst (exec mf sched c)).
Proof. apply exec_invariant. intros c0 i c' e. apply Cov_step. Qed.

Lemma Cov_init l gen progs : Covered (lq l) -> Cov (init_config l gen progs).
Proof. intros H x Hx. left. apply H. exact Hx. Qed.

Lemma Cov_reachable l gen progs sched :
  Covered (lq l) -> Cov (fst (exec mf sched (init_config l gen progs))).
Proof. intros H. apply Cov_exec, Cov_init, H. Qed.

(* ================= NoDup (ids sh_map) is invariant ================= *)

Definition MapNoDup (c : config) : Prop := NoDup (ids (sh_map (cf_sh c))).

Lemma MapNoDup_step c i c' e : MapNoDup c -> cstep mf c i = Some (c', e) -> MapNoDup c'.
Proof.
  unfold MapNoDup. intros HN Hs.
  destruct (cstep_inv mf _ _ _ _ Hs) as (t & p' & s' & Hn & Ht & ->).
  destruct (tstep_facts mf _ _ _ _ _ Ht) as (Hev & _). cbn [cf_sh].
  destruct e as [ | | | o | k r | k r | k | [k|] | ]; unfold ev_effect in Hev;
    try (destruct Hev as (Hm & _); rewrite Hm; exact HN).
  - destruct Hev as (Hm & _). rewrite Hm. apply NoDup_ids_upsert, HN.
  - destruct Hev as (_ & Hm & _). rewrite Hm. apply NoDup_ids_remove_key, HN.
  - destruct Hev as (_ & Hm & _). rewrite Hm. exact HN.
Qed.

Lemma MapNoDup_exec sched c : MapNoDup c -> MapNoDup (fst (exec mf sched c)).
Proof. apply exec_invariant. intros c0 i c' e. apply MapNoDup_step. Qed.

Lemma MapNoDup_reachable l gen progs sched :
  NoDup (ids (resting l)) -> MapNoDup (fst (exec mf sched (init_config l gen progs))).
Proof. intros H. apply MapNoDup_exec. exact H. Qed.

End WithMf.

(* ================= 2. quiescence ================= *)

Lemma quiescent_done c i t :
  quiescent c = true -> nth_error (cf_threads c) i = Some t -> exists r, th_pc t = Done r.
Proof.
  unfold quiescent. rewrite forallb_forall. intros H Hn.
  specialize (H t (nth_error_In _ _ Hn)). unfold thread_finished in H.
  destruct (th_pc t); try discriminate. eexists. reflexivity.
Qed.

Lemma Cov_quiescent c :
  Cov c -> quiescent c = true -> Covered (lq (level_of_config c)).
Proof.
  intros HC Hq x Hx. cbn in *.
  destruct (HC x Hx) as [H|(i & t & Hn & Hp)]; [exact H|].
  destruct (quiescent_done _ _ _ Hq Hn) as (r & Hr). rewrite Hr in Hp.
  destruct Hp as [[]|[]].
Qed.

(* every covered order is in the pop order of the queue *)
Lemma pop_order_complete t : forall m o,
  In o m -> In (oid_of o) t -> In (oid_of o) (pop_order m t).
Proof.
  induction t as [|k t IH]; intros m o Hin Ht; cbn; [contradiction|].
  destruct (lookup k m) as [x|] eqn:El.
  - destruct (oid_eq_dec (oid_of o) k) as [E|Hne]; [left; congruence|].
    right. apply IH.
    + apply in_remove_key. split; assumption.
    + destruct Ht as [Ht|Ht]; [congruence | exact Ht].
  - apply IH; [exact Hin|]. destruct Ht as [Ht|Ht]; [|exact Ht].
    exfalso. apply (in_lookup _ _ Hin). rewrite <- Ht. exact El.
Qed.

Lemma pop_order_sound t : forall m k, In k (pop_order m t) -> In k (ids m) /\ In k t.
Proof.
  induction t as [|k0 t IH]; intros m k; cbn; [contradiction|].
  destruct (lookup k0 m) as [x|] eqn:El.
  - intros [<-|H].
    + split; [eapply lookup_in_ids; exact El | left; reflexivity].
    + apply IH in H. destruct H as [H1 H2]. apply in_ids_remove_key in H1.
      split; [apply H1 | right; exact H2].
  - intros H. apply IH in H. split; [apply H | right; apply H].
Qed.

Lemma pop_order_NoDup t : forall m, NoDup (pop_order m t).
Proof.
  induction t as [|k t IH]; intros m; cbn; [constructor|].
  destruct (lookup k m); [|apply IH].
  constructor; [|apply IH].
  intros H. apply pop_order_sound in H. destruct H as [H _].
  apply in_ids_remove_key in H. destruct H as [_ H]. apply H. reflexivity.
Qed.

(* Under coverage the pop order lists exactly the ids of the resting orders, once each. *)
Lemma abs_exact q :
  Covered q -> (forall k, In k (abs q) <-> In k (ids (qmap q))) /\ NoDup (abs q).
Proof.
  intros HC. split; [|apply pop_order_NoDup].
  intros k. split.
  - intros H. apply pop_order_sound in H. apply H.
  - intros H. unfold ids in H. apply in_map_iff in H. destruct H as (o & <- & Ho).
    apply pop_order_complete; [exact Ho | apply HC, Ho].
Qed.

(* [pop] reaches an order whenever something rests *)
Lemma pop_t_none m t : pop_t m t = None -> forall o, In o m -> ~ In (oid_of o) t.
Proof.
  induction t as [|k t IH]; cbn; intros H o Ho; [intros []|].
  destruct (lookup k m) as [x|] eqn:El; [discriminate|].
  intros [E|Hin]; [|exact (IH H o Ho Hin)].
  apply (in_lookup _ _ Ho). rewrite <- E. exact El.
Qed.

Lemma Covered_pop_none q : Covered q -> fst (pop q) = None -> qmap q = [].
Proof.
  intros HC. unfold pop. destruct (pop_t (qmap q) (tickets q)) as [[[o m'] t']|] eqn:E; [discriminate|].
  intros _. destruct (qmap q) as [|x m] eqn:Em; [reflexivity|].
  exfalso. apply (pop_t_none _ _ E x); [left; reflexivity|].
  apply HC. rewrite Em. left. reflexivity.
Qed.

Section WithMf2.
Variable mf : order -> N -> mres.

Theorem quiescent_covered l gen progs sched c tr :
  Covered (lq l) ->
  exec mf sched (init_config l gen progs) = (c, tr) ->
  quiescent c = true ->
  Covered (lq (level_of_config c)).
Proof.
  intros HC He Hq. apply Cov_quiescent; [|exact Hq].
  pose proof (Cov_reachable mf l gen progs sched HC) as H. rewrite He in H. exact H.
Qed.

Theorem quiescent_wfqueue l gen progs sched c tr :
  WfQueue (lq l) ->
  exec mf sched (init_config l gen progs) = (c, tr) ->
  quiescent c = true ->
  WfQueue (lq (level_of_config c)).
Proof.
  intros [HN HC] He Hq. split.
  - pose proof (MapNoDup_reachable mf l gen progs sched HN) as H. rewrite He in H. exact H.
  - eapply quiescent_covered; eassumption.
Qed.

(* every order resting at quiescence is reached by popping: its id is in the pop order *)
Theorem quiescent_reachable_by_pop l gen progs sched c tr :
  Covered (lq l) ->
  exec mf sched (init_config l gen progs) = (c, tr) ->
  quiescent c = true ->
  (forall k, In k (abs (lq (level_of_config c))) <-> In k (ids (resting (level_of_config c)))) /\
  NoDup (abs (lq (level_of_config c))).
Proof.
  intros HC He Hq. apply abs_exact. eapply quiescent_covered; eassumption.
Qed.

(* ================= 3. handed out exactly once ================= *)

Lemma cstep_cell c i c' e k :
  cstep mf c i = Some (c', e) ->
  ev_ok k (lookup k (sh_map (cf_sh c))) e /\
  lookup k (sh_map (cf_sh c')) = track k (lookup k (sh_map (cf_sh c))) e.
Proof.
  intros Hs.
  destruct (cstep_inv mf _ _ _ _ Hs) as (t & p' & s' & Hn & Ht & ->).
  destruct (tstep_facts mf _ _ _ _ _ Ht) as (Hev & _). cbn [cf_sh].
  destruct e as [ | | | o | k' r | k' r | k' | [k'|] | ]; unfold ev_effect in Hev; cbn [ev_ok track];
    try (destruct Hev as (Hm & _); rewrite Hm; split; [exact I | reflexivity]).
  - destruct Hev as (Hm & _). rewrite Hm. split; [exact I|]. apply lookup_upsert.
  - destruct Hev as (Hr & Hm & _). rewrite Hm. split; [intros ->; exact Hr|]. apply lookup_remove_key.
  - destruct Hev as (Hr & Hm & _). rewrite Hm. split; [intros ->; exact Hr | reflexivity].
Qed.

Lemma exec_cell k sched : forall c c' tr,
  exec mf sched c = (c', tr) ->
  trace_ok k (lookup k (sh_map (cf_sh c))) tr /\
  lookup k (sh_map (cf_sh c')) = cell_after k (lookup k (sh_map (cf_sh c))) tr.
Proof.
  induction sched as [|i rest IH]; intros c c' tr; cbn.
  - intros H. inversion H; subst. split; [exact I | reflexivity].
  - destruct (cstep mf c i) as [[c1 e]|] eqn:Es; [|apply IH].
    destruct (exec mf rest c1) as [c2 tr2] eqn:Ee. intros H. inversion H; subst.
    destruct (cstep_cell _ _ _ _ k Es) as (Hok & Hcell).
    destruct (IH _ _ _ Ee) as (Htr & Hfin). rewrite Hcell in Htr, Hfin.
    split; [split; assumption | exact Hfin].
Qed.

End WithMf2.

(* consequences of [trace_ok], independent of the model *)
Lemma trace_ok_app k t1 : forall cur t2,
  trace_ok k cur (t1 ++ t2) <-> trace_ok k cur t1 /\ trace_ok k (cell_after k cur t1) t2.
Proof.
  induction t1 as [|[i e] t1 IH]; intros cur t2; cbn.
  - tauto.
  - rewrite IH. unfold cell_after. cbn. tauto.
Qed.

Lemma cell_after_app k t1 t2 cur :
  cell_after k cur (t1 ++ t2) = cell_after k (cell_after k cur t1) t2.
Proof. unfold cell_after. rewrite map_app, fold_left_app. reflexivity. Qed.

Lemma cell_after_no_insert k t : forall cur,
  ~ inserts k t -> cell_after k cur t = cur \/ cell_after k cur t = None.
Proof.
  induction t as [|[i e] t IH]; intros cur Hn; [left; reflexivity|].
  assert (Hn' : ~ inserts k t).
  { intros (j & o & Hin & Ho). apply Hn. exists j, o. split; [right; exact Hin | exact Ho]. }
  change (cell_after k cur ((i, e) :: t)) with (cell_after k (track k cur e) t).
  destruct e as [ | | | o | k' r | | | | ]; cbn [track]; try (apply IH, Hn').
  - destruct (oid_eqb k (oid_of o)) eqn:E; [|apply IH, Hn'].
    exfalso. apply Hn. exists i, o. split; [left; reflexivity|].
    symmetry. apply oid_eqb_eq. exact E.
  - destruct (oid_eqb k k'); [|apply IH, Hn'].
    right. destruct (IH None Hn') as [H|H]; exact H.
Qed.

(* a successful remove of id k observes the current cell *)
Lemma trace_ok_remove k cur t1 j r t2 :
  trace_ok k cur (t1 ++ (j, ERemove k r) :: t2) -> r = cell_after k cur t1.
Proof.
  intros H. apply trace_ok_app in H. destruct H as (_ & H). cbn in H.
  destruct H as (H & _). apply H. reflexivity.
Qed.

(* Between two successful removes of id k an order with id k was inserted. *)
Lemma no_double_handout k cur t1 i o1 t2 j o2 t3 :
  trace_ok k cur (t1 ++ (i, ERemove k (Some o1)) :: t2 ++ (j, ERemove k (Some o2)) :: t3) ->
  inserts k t2.
Proof.
  intros H. apply trace_ok_app in H. destruct H as (_ & H). cbn [trace_ok] in H.
  destruct H as (_ & H). cbn [track] in H. rewrite oid_eqb_refl in H.
  apply trace_ok_remove in H.
  destruct (in_dec oid_eq_dec k
              (flat_map (fun ie => match snd ie with EInsert o => [oid_of o] | _ => [] end) t2))
    as [Hin|Hn].
  - apply in_flat_map in Hin. destruct Hin as ([n e] & Hin & He). cbn in He.
    destruct e; try contradiction. destruct He as [He|[]]. exists n, o. split; assumption.
  - exfalso. assert (Hni : ~ inserts k t2).
    { intros (n & o & Hin & Ho). apply Hn. apply in_flat_map. exists (n, EInsert o).
      split; [exact Hin | left; exact Ho]. }
    destruct (cell_after_no_insert k t2 None Hni) as [E|E]; rewrite E in H; discriminate.
Qed.

(* A successful remove returns exactly the most recently inserted order with that id. *)
Lemma handout_is_last_insert k cur t1 i o t2 j o2 t3 :
  oid_of o = k -> ~ inserts k t2 ->
  trace_ok k cur (t1 ++ (i, EInsert o) :: t2 ++ (j, ERemove k (Some o2)) :: t3) ->
  o2 = o.
Proof.
  intros Ho Hni H. apply trace_ok_app in H. destruct H as (_ & H). cbn [trace_ok] in H.
  destruct H as (_ & H). cbn [track] in H. rewrite <- Ho, oid_eqb_refl in H. rewrite Ho in H.
  apply trace_ok_remove in H.
  destruct (cell_after_no_insert k t2 (Some o) Hni) as [E|E]; rewrite E in H; congruence.
Qed.

(* ... or the initial one, if none was inserted before *)
Lemma handout_is_initial k cur t1 j o2 t3 :
  ~ inserts k t1 ->
  trace_ok k cur (t1 ++ (j, ERemove k (Some o2)) :: t3) ->
  cur = Some o2.
Proof.
  intros Hni H. apply trace_ok_remove in H.
  destruct (cell_after_no_insert k t1 cur Hni) as [E|E]; rewrite E in H; congruence.
Qed.
