(* JsonTextProofs.v — print_json / parse_json: left inverse on plain values,
   fuel monotonicity, extension of the input, rejection of proper prefixes. *)
From Coq Require Import Ascii Lia ZifyBool ZifyN.
From Coq Require String DecimalN DecimalPos DecimalFacts.
From PL Require Import Model.Json Proofs.JsonProofs.
From PL Require Proofs.TextPrims.
Import String.StringSyntax.
Local Open Scope N_scope.

(* ------------------------------------------------------------------ *)
(* induction on json through the nested lists *)

Section JsonInd.
Variable P : json -> Prop.
Hypothesis Hnull : P JNull.
Hypothesis Hbool : forall b, P (JBool b).
Hypothesis Hnum : forall z, P (JNum z).
Hypothesis Hstr : forall s, P (JStr s).
Hypothesis Harr : forall l, Forall P l -> P (JArr l).
Hypothesis Hobj : forall m, Forall (fun kv => P (snd kv)) m -> P (JObj m).
Fixpoint json_ind2 (j : json) : P j :=
  match j with
  | JNull => Hnull
  | JBool b => Hbool b
  | JNum z => Hnum z
  | JStr s => Hstr s
  | JArr l =>
      Harr l ((fix go (l : list json) : Forall P l :=
                 match l with
                 | [] => Forall_nil _
                 | x :: l' => Forall_cons x (json_ind2 x) (go l')
                 end) l)
  | JObj m =>
      Hobj m ((fix go (m : list (str * json)) : Forall (fun kv => P (snd kv)) m :=
                 match m with
                 | [] => Forall_nil _
                 | kv :: m' => Forall_cons kv (json_ind2 (snd kv)) (go m')
                 end) m)
  end.
End JsonInd.

(* the inner loops of print_json, named *)
Fixpoint print_items (l : list json) : str :=
  match l with
  | [] => []
  | [x] => print_json x
  | x :: l' => print_json x ++ ","%char :: print_items l'
  end.
Fixpoint print_members (m : list (str * json)) : str :=
  match m with
  | [] => []
  | [(k, v)] => dq :: k ++ dq :: ":"%char :: print_json v
  | (k, v) :: m' => dq :: k ++ dq :: ":"%char :: print_json v ++ ","%char :: print_members m'
  end.

Lemma print_json_arr l : print_json (JArr l) = "["%char :: print_items l ++ ["]"%char].
Proof. reflexivity. Qed.
Lemma print_json_obj m : print_json (JObj m) = "{"%char :: print_members m ++ ["}"%char].
Proof. reflexivity. Qed.

(* ------------------------------------------------------------------ *)
(* numbers *)

Definition num_end (s : str) : bool :=
  match s with
  | [] => true
  | c :: _ => match dig c with Some _ => false | None => negb (float_mark s) end
  end.

Lemma lex_digits_chars u rest :
  match rest with c :: _ => dig c = None | [] => True end ->
  lex_digits (chars_of_uint u ++ rest) = (u, rest).
Proof.
  intros Hr. induction u; cbn [chars_of_uint app lex_digits];
    try (change (dig _) with (Some Decimal.D0) || change (dig _) with (Some Decimal.D1)
         || change (dig _) with (Some Decimal.D2) || change (dig _) with (Some Decimal.D3)
         || change (dig _) with (Some Decimal.D4) || change (dig _) with (Some Decimal.D5)
         || change (dig _) with (Some Decimal.D6) || change (dig _) with (Some Decimal.D7)
         || change (dig _) with (Some Decimal.D8) || change (dig _) with (Some Decimal.D9));
    try (rewrite IHu; reflexivity).
  destruct rest as [|c r]; [reflexivity|]. cbn [lex_digits]. now rewrite Hr.
Qed.

Lemma to_uint_nonnil n : N.to_uint n <> Decimal.Nil.
Proof. destruct n; [discriminate|]. apply DecimalPos.Unsigned.to_uint_nonnil. Qed.

Lemma to_uint_unorm n : N.to_uint n = Decimal.unorm (N.to_uint n).
Proof.
  rewrite <- DecimalN.Unsigned.to_of. now rewrite DecimalN.Unsigned.of_to.
Qed.

Lemma bad_leading_zero_to_uint n : bad_leading_zero (N.to_uint n) = false.
Proof.
  rewrite to_uint_unorm. generalize (N.to_uint n). intros u. unfold Decimal.unorm.
  pose proof (DecimalFacts.nzhead_nonzero u) as Hnz.
  destruct (Decimal.nzhead u) eqn:E; try reflexivity.
  exfalso. eapply Hnz. reflexivity.
Qed.

Lemma num_end_dig rest : num_end rest = true -> match rest with c :: _ => dig c = None | [] => True end.
Proof. destruct rest as [|c r]; [trivial|]. cbn [num_end]. destruct (dig c); [discriminate|reflexivity]. Qed.
Lemma num_end_float rest : num_end rest = true -> float_mark rest = false.
Proof.
  destruct rest as [|c r]; [reflexivity|]. unfold num_end. destruct (dig c); [discriminate|].
  now destruct (float_mark (c :: r)).
Qed.

Lemma lex_unsigned_print n rest :
  num_end rest = true -> lex_unsigned (print_N n ++ rest) = Some (n, rest).
Proof.
  intros He. unfold lex_unsigned, print_N.
  rewrite lex_digits_chars by (apply num_end_dig; exact He).
  rewrite bad_leading_zero_to_uint, (num_end_float _ He). cbn [orb].
  rewrite DecimalN.Unsigned.of_to.
  pose proof (to_uint_nonnil n). destruct (N.to_uint n); try reflexivity. congruence.
Qed.

Definition is_num_head (c : ascii) : bool :=
  match dig c with Some _ => true | None => Ascii.eqb c dash end.

Lemma print_N_head n : exists c r, print_N n = c :: r /\ dig c <> None.
Proof.
  unfold print_N. pose proof (to_uint_nonnil n).
  destruct (N.to_uint n); try congruence; cbn [chars_of_uint]; eexists; eexists; (split; [reflexivity|]);
    vm_compute; discriminate.
Qed.

Lemma dig_not_dash c : dig c <> None -> Ascii.eqb c dash = false.
Proof.
  intros Hd. destruct (Ascii.eqb c dash) eqn:E; [|reflexivity].
  apply Ascii.eqb_eq in E. subst. exfalso. apply Hd. reflexivity.
Qed.

Lemma lex_number_print z rest :
  num_end rest = true -> lex_number (print_Z z ++ rest) = Some (z, rest).
Proof.
  intros He. destruct z as [|p|p]; cbn [print_Z].
  - destruct (print_N_head 0) as (c & r & E & Hd). pose proof (lex_unsigned_print 0 rest He) as L.
    rewrite E in *. cbn [app] in *. unfold lex_number. rewrite (dig_not_dash _ Hd). now rewrite L.
  - destruct (print_N_head (Npos p)) as (c & r & E & Hd).
    pose proof (lex_unsigned_print (Npos p) rest He) as L.
    rewrite E in *. cbn [app] in *. unfold lex_number. rewrite (dig_not_dash _ Hd). now rewrite L.
  - cbn [app]. unfold lex_number. rewrite Ascii.eqb_refl.
    rewrite (lex_unsigned_print (Npos p) rest He). reflexivity.
Qed.

Lemma print_Z_head z : exists c r, print_Z z = c :: r /\ is_num_head c = true.
Proof.
  destruct z as [|p|p]; cbn [print_Z].
  - destruct (print_N_head 0) as (c & r & E & Hd). exists c, r. split; [exact E|].
    unfold is_num_head. destruct (dig c); congruence.
  - destruct (print_N_head (Npos p)) as (c & r & E & Hd). exists c, r. split; [exact E|].
    unfold is_num_head. destruct (dig c); congruence.
  - eexists; eexists; split; [reflexivity|]. reflexivity.
Qed.

(* the eleven characters a number can start with *)
Lemma is_num_head_cases c :
  is_num_head c = true ->
  In c ["0"; "1"; "2"; "3"; "4"; "5"; "6"; "7"; "8"; "9"; "-"]%char.
Proof.
  unfold is_num_head, dig. intros E.
  repeat match type of E with
         | context [Ascii.eqb c ?k] =>
             destruct (Ascii.eqb c k) eqn:Ek;
             [apply Ascii.eqb_eq in Ek; subst; cbn; tauto | clear Ek]
         end.
  discriminate.
Qed.

Lemma parse_value_num_head f c r :
  is_num_head c = true ->
  parse_value (S f) (c :: r) =
  match lex_number (c :: r) with Some (z, r') => Some (JNum z, r') | None => None end.
Proof.
  intros Hc. apply is_num_head_cases in Hc. cbn [In] in Hc.
  repeat (destruct Hc as [<- | Hc]; [reflexivity|]). contradiction.
Qed.

Lemma parse_value_num f z rest :
  num_end rest = true -> parse_value (S f) (print_Z z ++ rest) = Some (JNum z, rest).
Proof.
  intros He. destruct (print_Z_head z) as (c & r & E & Hc).
  pose proof (lex_number_print z rest He) as L. rewrite E in *. cbn [app] in *.
  rewrite (parse_value_num_head _ _ _ Hc). now rewrite L.
Qed.

(* ------------------------------------------------------------------ *)
(* strings *)

Lemma plain_not_dq c : plain_char c = true -> Ascii.eqb c dq = false.
Proof.
  intros Hp. destruct (Ascii.eqb c dq) eqn:E; [|reflexivity].
  apply Ascii.eqb_eq in E. subst. discriminate.
Qed.

Lemma read_str_plain k rest : plain_str k = true -> read_str (k ++ dq :: rest) = Some (k, rest).
Proof.
  induction k as [|c k IH]; cbn [plain_str forallb app read_str]; intros Hp.
  - now rewrite Ascii.eqb_refl.
  - apply andb_prop in Hp as [Hc Hk]. rewrite (plain_not_dq _ Hc), Hc. now rewrite (IH Hk).
Qed.

(* ------------------------------------------------------------------ *)
(* the first character of a printed value *)

Definition val_head (c : ascii) : bool :=
  negb (is_ws c) && negb (Ascii.eqb c "]") && negb (Ascii.eqb c "}").

Lemma num_head_val_head c : is_num_head c = true -> val_head c = true.
Proof.
  intros Hc. apply is_num_head_cases in Hc. cbn [In] in Hc.
  repeat (destruct Hc as [<- | Hc]; [reflexivity|]). contradiction.
Qed.

Lemma print_json_head j : exists c r, print_json j = c :: r /\ val_head c = true.
Proof.
  destruct j as [|[|]|z|s|l|m].
  - eexists; eexists; split; reflexivity.
  - eexists; eexists; split; reflexivity.
  - eexists; eexists; split; reflexivity.
  - destruct (print_Z_head z) as (c & r & E & Hc). exists c, r. split; [exact E|].
    now apply num_head_val_head.
  - eexists; eexists; split; reflexivity.
  - rewrite print_json_arr. eexists; eexists; split; reflexivity.
  - rewrite print_json_obj. eexists; eexists; split; reflexivity.
Qed.

Lemma skip_ws_head c r : is_ws c = false -> skip_ws (c :: r) = c :: r.
Proof. intros E. cbn [skip_ws]. now rewrite E. Qed.

Lemma val_head_ws c : val_head c = true -> is_ws c = false.
Proof. unfold val_head. destruct (is_ws c); [discriminate|reflexivity]. Qed.

Lemma skip_ws_print j rest : skip_ws (print_json j ++ rest) = print_json j ++ rest.
Proof.
  destruct (print_json_head j) as (c & r & E & Hc). rewrite E. cbn [app].
  apply skip_ws_head. now apply val_head_ws.
Qed.

Lemma print_json_nonempty j : (1 <= length (print_json j))%nat.
Proof. destruct (print_json_head j) as (c & r & E & _). rewrite E. cbn. lia. Qed.

(* ------------------------------------------------------------------ *)
(* left inverse *)

Lemma num_end_comma r : num_end (","%char :: r) = true. Proof. reflexivity. Qed.
Lemma num_end_rbracket r : num_end ("]"%char :: r) = true. Proof. reflexivity. Qed.
Lemma num_end_rbrace r : num_end ("}"%char :: r) = true. Proof. reflexivity. Qed.

Definition PV (j : json) : Prop :=
  plain_json j = true ->
  forall fuel rest, (2 * length (print_json j) <= fuel)%nat -> num_end rest = true ->
    parse_value fuel (print_json j ++ rest) = Some (j, rest).

(* one-step unfoldings on a known first character *)
Lemma pe_eq f s :
  parse_elems (S f) s =
  match parse_value f s with
  | Some (v, r) =>
      match skip_ws r with
      | [] => None
      | c :: r1 =>
          if Ascii.eqb c "," then
            match parse_elems f r1 with Some (l, r2) => Some (v :: l, r2) | None => None end
          else if Ascii.eqb c "]" then Some ([v], r1) else None
      end
  | None => None
  end.
Proof. reflexivity. Qed.

Lemma pm_eq f s :
  parse_members (S f) (dq :: s) =
  match read_str s with
  | Some (k, r1) =>
      match skip_ws r1 with
      | [] => None
      | c1 :: r2 =>
          if Ascii.eqb c1 ":" then
            match parse_value f r2 with
            | Some (v, r3) =>
                match skip_ws r3 with
                | [] => None
                | c3 :: r4 =>
                    if Ascii.eqb c3 "," then
                      match parse_members f r4 with
                      | Some (m, r5) => Some ((k, v) :: m, r5)
                      | None => None
                      end
                    else if Ascii.eqb c3 "}" then Some ([(k, v)], r4) else None
                end
            | None => None
            end
          else None
      end
  | None => None
  end.
Proof. reflexivity. Qed.

Lemma parse_elems_print l :
  Forall PV l -> l <> [] -> forallb plain_json l = true ->
  forall fuel rest, (2 * length (print_items l) + 1 <= fuel)%nat ->
    parse_elems fuel (print_items l ++ "]"%char :: rest) = Some (l, rest).
Proof.
  induction 1 as [|x l Hx Hl IH]; [congruence|]. intros _ Hp fuel rest Hf.
  cbn [forallb] in Hp. apply andb_prop in Hp as [Hpx Hpl].
  destruct fuel as [|f]; [lia|]. rewrite pe_eq.
  destruct l as [|y l'].
  - cbn [print_items] in *.
    rewrite (Hx Hpx f ("]"%char :: rest)) by (try apply num_end_rbracket; lia).
    reflexivity.
  - remember (y :: l') as l eqn:El.
    assert (E : print_items (x :: l) = print_json x ++ ","%char :: print_items l)
      by (subst; reflexivity).
    rewrite E in *. rewrite <- app_assoc. cbn [app].
    rewrite app_length in Hf. cbn [length] in Hf.
    rewrite (Hx Hpx f) by (try apply num_end_comma; lia).
    rewrite (skip_ws_head "," _ eq_refl). cbv beta iota.
    change (Ascii.eqb "," ",") with true. cbv beta iota.
    rewrite IH; [reflexivity | subst; discriminate | exact Hpl | lia].
Qed.

Lemma parse_members_print m :
  Forall (fun kv => PV (snd kv)) m -> m <> [] ->
  forallb (fun kv => plain_str (fst kv) && plain_json (snd kv)) m = true ->
  forall fuel rest, (2 * length (print_members m) + 1 <= fuel)%nat ->
    parse_members fuel (print_members m ++ "}"%char :: rest) = Some (m, rest).
Proof.
  induction 1 as [|[k v] m Hx Hm IH]; [congruence|]. intros _ Hp fuel rest Hf.
  cbn [forallb fst snd] in Hp. apply andb_prop in Hp as [Hpx Hpm]. apply andb_prop in Hpx as [Hpk Hpv].
  cbn [snd] in Hx.
  destruct fuel as [|f]; [lia|].
  destruct m as [|y m'].
  - cbn [print_members app] in *. rewrite pm_eq.
    repeat rewrite <- app_assoc. cbn [app].
    rewrite (read_str_plain _ _ Hpk).
    rewrite (skip_ws_head ":" _ eq_refl). cbv beta iota.
    change (Ascii.eqb ":" ":") with true. cbv beta iota.
    cbn [length] in Hf. rewrite app_length in Hf. cbn [length] in Hf.
    rewrite (Hx Hpv f ("}"%char :: rest)) by (try apply num_end_rbrace; lia).
    reflexivity.
  - remember (y :: m') as m eqn:Em.
    assert (E : print_members ((k, v) :: m)
                = dq :: k ++ dq :: ":"%char :: print_json v ++ ","%char :: print_members m)
      by (subst; destruct y; reflexivity).
    rewrite E in *. cbn [app]. rewrite pm_eq.
    repeat rewrite <- app_assoc. cbn [app]. repeat rewrite <- app_assoc. cbn [app].
    rewrite (read_str_plain _ _ Hpk).
    rewrite (skip_ws_head ":" _ eq_refl). cbv beta iota.
    change (Ascii.eqb ":" ":") with true. cbv beta iota.
    cbn [length] in Hf. rewrite app_length in Hf. cbn [length] in Hf. rewrite app_length in Hf.
    cbn [length] in Hf.
    rewrite (Hx Hpv f) by (try apply num_end_comma; lia).
    rewrite (skip_ws_head "," _ eq_refl). cbv beta iota.
    change (Ascii.eqb "," ",") with true. cbv beta iota.
    rewrite IH; [reflexivity | subst; discriminate | exact Hpm | lia].
Qed.

Lemma pv_str f s : parse_value (S f) (dq :: s) =
  match read_str s with Some (x, r') => Some (JStr x, r') | None => None end.
Proof. reflexivity. Qed.
Lemma pv_arr f s : parse_value (S f) ("["%char :: s) =
  match skip_ws s with
  | [] => None
  | c2 :: r2 =>
      if Ascii.eqb c2 "]" then Some (JArr [], r2)
      else match parse_elems f s with Some (l, r') => Some (JArr l, r') | None => None end
  end.
Proof. reflexivity. Qed.
Lemma pv_obj f s : parse_value (S f) ("{"%char :: s) =
  match skip_ws s with
  | [] => None
  | c2 :: r2 =>
      if Ascii.eqb c2 "}" then Some (JObj [], r2)
      else match parse_members f s with Some (m, r') => Some (JObj m, r') | None => None end
  end.
Proof. reflexivity. Qed.

Theorem parse_value_print : forall j, PV j.
Proof.
  induction j as [|b|z|s|l IHl|m IHm] using json_ind2; unfold PV; intros Hp fuel rest Hf He.
  - destruct fuel as [|f]; [cbn in Hf; lia|]. reflexivity.
  - destruct fuel as [|f]; [destruct b; cbn in Hf; lia|]. destruct b; reflexivity.
  - destruct fuel as [|f]; [pose proof (print_json_nonempty (JNum z)); lia|].
    cbn [print_json]. now apply parse_value_num.
  - destruct fuel as [|f]; [cbn in Hf; lia|].
    cbn [print_json plain_json] in *. cbn [app]. rewrite pv_str.
    rewrite <- app_assoc. cbn [app]. now rewrite (read_str_plain _ _ Hp).
  - rewrite print_json_arr in *. destruct fuel as [|f]; [cbn in Hf; lia|].
    cbn [app]. rewrite pv_arr. rewrite <- app_assoc. cbn [app].
    destruct l as [|x l'].
    + reflexivity.
    + remember (x :: l') as l eqn:El.
      assert (Hne : l <> []) by (subst; discriminate).
      assert (Hh : exists c r, print_items l = c :: r /\ val_head c = true).
      { subst. destruct (print_json_head x) as (c & r & E & Hc). cbn [print_items].
        destruct l'; rewrite E; cbn [app]; eauto. }
      destruct Hh as (c & r & Eh & Hc).
      pose proof Hc as Hc'. unfold val_head in Hc'.
      apply andb_prop in Hc' as [Hc1 Hc3]. apply andb_prop in Hc1 as [Hc1 Hc2].
      rewrite Eh at 1. cbn [app]. rewrite skip_ws_head by (now destruct (is_ws c)).
      destruct (Ascii.eqb c "]"); [discriminate|].
      cbn [length] in Hf. rewrite app_length in Hf. cbn [length] in Hf.
      cbn [plain_json] in Hp.
      rewrite (parse_elems_print l IHl Hne Hp) by lia. reflexivity.
  - rewrite print_json_obj in *. destruct fuel as [|f]; [cbn in Hf; lia|].
    cbn [app]. rewrite pv_obj. rewrite <- app_assoc. cbn [app].
    destruct m as [|[k v] m'].
    + reflexivity.
    + remember ((k, v) :: m') as m eqn:Em.
      assert (Hne : m <> []) by (subst; discriminate).
      assert (Hh : exists r, print_members m = dq :: r).
      { subst. cbn [print_members]. destruct m'; eauto. }
      destruct Hh as (r & Eh).
      rewrite Eh at 1. cbn [app]. rewrite (skip_ws_head dq _ eq_refl).
      change (Ascii.eqb dq "}") with false. cbv beta iota.
      cbn [length] in Hf. rewrite app_length in Hf. cbn [length] in Hf.
      cbn [plain_json] in Hp.
      rewrite (parse_members_print m IHm Hne Hp) by lia. reflexivity.
Qed.

Lemma num_end_nil : num_end [] = true. Proof. reflexivity. Qed.

Theorem parse_json_print j rest :
  plain_json j = true -> num_end rest = true ->
  parse_json (print_json j ++ rest) = Some (j, rest).
Proof.
  intros Hp He. unfold parse_json, parse_fuel. apply parse_value_print; [exact Hp| |exact He].
  rewrite app_length. lia.
Qed.

Theorem parse_top_print j : plain_json j = true -> parse_top (print_json j) = Some j.
Proof.
  intros Hp. unfold parse_top.
  rewrite <- (app_nil_r (print_json j)).
  rewrite (parse_json_print j [] Hp num_end_nil). reflexivity.
Qed.

(* ------------------------------------------------------------------ *)
(* the three parser functions as bodies over their recursive calls *)

Definition pv_body (pe : str -> option (list json * str))
           (pm : str -> option (list (str * json) * str)) (s : str) : option (json * str) :=
  match skip_ws s with
  | [] => None
  | c :: r =>
      if Ascii.eqb c "n" then match expect_str (lit "ull") r with Some r' => Some (JNull, r') | None => None end
      else if Ascii.eqb c "t" then match expect_str (lit "rue") r with Some r' => Some (JBool true, r') | None => None end
      else if Ascii.eqb c "f" then match expect_str (lit "alse") r with Some r' => Some (JBool false, r') | None => None end
      else if Ascii.eqb c dq then match read_str r with Some (x, r') => Some (JStr x, r') | None => None end
      else if Ascii.eqb c "[" then
        match skip_ws r with
        | [] => None
        | c2 :: r2 =>
            if Ascii.eqb c2 "]" then Some (JArr [], r2)
            else match pe r with Some (l, r') => Some (JArr l, r') | None => None end
        end
      else if Ascii.eqb c "{" then
        match skip_ws r with
        | [] => None
        | c2 :: r2 =>
            if Ascii.eqb c2 "}" then Some (JObj [], r2)
            else match pm r with Some (m, r') => Some (JObj m, r') | None => None end
        end
      else match lex_number (c :: r) with Some (z, r') => Some (JNum z, r') | None => None end
  end.

Definition pe_body (pv : str -> option (json * str)) (pe : str -> option (list json * str))
           (s : str) : option (list json * str) :=
  match pv s with
  | Some (v, r) =>
      match skip_ws r with
      | [] => None
      | c :: r1 =>
          if Ascii.eqb c "," then
            match pe r1 with Some (l, r2) => Some (v :: l, r2) | None => None end
          else if Ascii.eqb c "]" then Some ([v], r1) else None
      end
  | None => None
  end.

Definition pm_body (pv : str -> option (json * str))
           (pm : str -> option (list (str * json) * str)) (s : str)
  : option (list (str * json) * str) :=
  match skip_ws s with
  | [] => None
  | c :: r =>
      if Ascii.eqb c dq then
        match read_str r with
        | Some (k, r1) =>
            match skip_ws r1 with
            | [] => None
            | c1 :: r2 =>
                if Ascii.eqb c1 ":" then
                  match pv r2 with
                  | Some (v, r3) =>
                      match skip_ws r3 with
                      | [] => None
                      | c3 :: r4 =>
                          if Ascii.eqb c3 "," then
                            match pm r4 with
                            | Some (m, r5) => Some ((k, v) :: m, r5)
                            | None => None
                            end
                          else if Ascii.eqb c3 "}" then Some ([(k, v)], r4) else None
                      end
                  | None => None
                  end
                else None
            end
        | None => None
        end
      else None
  end.

Lemma pv_S f s : parse_value (S f) s = pv_body (parse_elems f) (parse_members f) s.
Proof. reflexivity. Qed.
Lemma pe_S f s : parse_elems (S f) s = pe_body (parse_value f) (parse_elems f) s.
Proof. reflexivity. Qed.
Lemma pm_S f s : parse_members (S f) s = pm_body (parse_value f) (parse_members f) s.
Proof. reflexivity. Qed.

(* ------------------------------------------------------------------ *)
(* more fuel never changes a successful result *)

Definition le {A} (g g' : str -> option A) : Prop := forall s x, g s = Some x -> g' s = Some x.

Ltac call H g s :=
  let E := fresh "E" in
  destruct (g s) as [[? ?]|] eqn:E; [apply H in E; rewrite E; exact (fun e => e) | discriminate].

Lemma pv_body_mono pe pe' pm pm' :
  le pe pe' -> le pm pm' -> le (pv_body pe pm) (pv_body pe' pm').
Proof.
  intros Hpe Hpm s x. unfold pv_body.
  destruct (skip_ws s) as [|c r]; [discriminate|].
  destruct (Ascii.eqb c "n"); [exact (fun e => e)|].
  destruct (Ascii.eqb c "t"); [exact (fun e => e)|].
  destruct (Ascii.eqb c "f"); [exact (fun e => e)|].
  destruct (Ascii.eqb c dq); [exact (fun e => e)|].
  destruct (Ascii.eqb c "[").
  { destruct (skip_ws r) as [|c2 r2]; [discriminate|].
    destruct (Ascii.eqb c2 "]"); [exact (fun e => e)|]. call Hpe pe r. }
  destruct (Ascii.eqb c "{").
  { destruct (skip_ws r) as [|c2 r2]; [discriminate|].
    destruct (Ascii.eqb c2 "}"); [exact (fun e => e)|]. call Hpm pm r. }
  exact (fun e => e).
Qed.

Lemma pe_body_mono pv pv' pe pe' :
  le pv pv' -> le pe pe' -> le (pe_body pv pe) (pe_body pv' pe').
Proof.
  intros Hpv Hpe s x. unfold pe_body.
  destruct (pv s) as [[v r]|] eqn:E; [|discriminate]. apply Hpv in E. rewrite E.
  destruct (skip_ws r) as [|c r1]; [discriminate|].
  destruct (Ascii.eqb c ","); [call Hpe pe r1|]. exact (fun e => e).
Qed.

Lemma pm_body_mono pv pv' pm pm' :
  le pv pv' -> le pm pm' -> le (pm_body pv pm) (pm_body pv' pm').
Proof.
  intros Hpv Hpm s x. unfold pm_body.
  destruct (skip_ws s) as [|c r]; [discriminate|].
  destruct (Ascii.eqb c dq); [|discriminate].
  destruct (read_str r) as [[k r1]|]; [|discriminate].
  destruct (skip_ws r1) as [|c1 r2]; [discriminate|].
  destruct (Ascii.eqb c1 ":"); [|discriminate].
  destruct (pv r2) as [[v r3]|] eqn:E; [|discriminate]. apply Hpv in E. rewrite E.
  destruct (skip_ws r3) as [|c3 r4]; [discriminate|].
  destruct (Ascii.eqb c3 ","); [call Hpm pm r4|]. exact (fun e => e).
Qed.

Lemma fuel_mono_S f :
  le (parse_value f) (parse_value (S f)) /\ le (parse_elems f) (parse_elems (S f))
  /\ le (parse_members f) (parse_members (S f)).
Proof.
  induction f as [|f (IHv & IHe & IHm)].
  - repeat split; intros s x; discriminate.
  - repeat split; intros s x.
    + rewrite !pv_S. now apply pv_body_mono.
    + rewrite !pe_S. now apply pe_body_mono.
    + rewrite !pm_S. now apply pm_body_mono.
Qed.

Lemma fuel_mono f f' : (f <= f')%nat -> le (parse_value f) (parse_value f').
Proof.
  induction 1 as [|f' _ IH]; intros s x E; [exact E|].
  apply (proj1 (fuel_mono_S f')). now apply IH.
Qed.

(* ------------------------------------------------------------------ *)
(* appending input after a successful parse *)

Lemma skip_ws_app s c r x : skip_ws s = c :: r -> skip_ws (s ++ x) = c :: r ++ x.
Proof.
  induction s as [|d s IH]; cbn [skip_ws app]; [discriminate|].
  destruct (is_ws d); [exact IH|]. now intros [= -> ->].
Qed.

Lemma expect_str_app p s r x : expect_str p s = Some r -> expect_str p (s ++ x) = Some (r ++ x).
Proof.
  revert s; induction p as [|c p IH]; intros s; cbn [expect_str].
  - now intros [= ->].
  - destruct s as [|d s]; [discriminate|]. cbn [app]. destruct (Ascii.eqb d c); [apply IH|discriminate].
Qed.

Lemma read_str_app s k r x : read_str s = Some (k, r) -> read_str (s ++ x) = Some (k, r ++ x).
Proof.
  revert k; induction s as [|c s IH]; intros k; cbn [read_str app]; [discriminate|].
  destruct (Ascii.eqb c dq); [now intros [= <- <-]|].
  destruct (plain_char c); [|discriminate].
  destruct (read_str s) as [[k' r']|]; [|discriminate].
  intros [= <- <-]. now rewrite (IH _ eq_refl).
Qed.

Lemma lex_digits_app s u c r x :
  lex_digits s = (u, c :: r) -> lex_digits (s ++ x) = (u, c :: r ++ x).
Proof.
  revert u; induction s as [|d s IH]; intros u; cbn [lex_digits app]; [discriminate|].
  destruct (dig d) as [g|].
  - destruct (lex_digits s) as [u' r'] eqn:E. intros [= <- ->]. now rewrite (IH _ eq_refl).
  - now intros [= <- <- <-].
Qed.

Lemma lex_unsigned_app s n c r x :
  lex_unsigned s = Some (n, c :: r) -> lex_unsigned (s ++ x) = Some (n, c :: r ++ x).
Proof.
  unfold lex_unsigned. destruct (lex_digits s) as [u r'] eqn:E.
  assert (G : forall (k : option (N * str)),
             (if bad_leading_zero u || float_mark r' then None else Some (N.of_uint u, r')) = Some (n, c :: r)
             -> r' = c :: r).
  { intros _. destruct (bad_leading_zero u || float_mark r'); [discriminate|]. now intros [= _ ->]. }
  destruct u; try discriminate; intros Hs; pose proof (G None Hs) as ->;
    rewrite (lex_digits_app _ _ _ _ x E); cbn [float_mark app] in *;
    (destruct (_ || _); [discriminate|]); now injection Hs as <-.
Qed.

Lemma lex_number_app s z c r x :
  lex_number s = Some (z, c :: r) -> lex_number (s ++ x) = Some (z, c :: r ++ x).
Proof.
  unfold lex_number. destruct s as [|d s]; [discriminate|]. cbn [app].
  destruct (Ascii.eqb d dash).
  - destruct (lex_unsigned s) as [[n r']|] eqn:E; [|discriminate].
    destruct (N.eqb n 0) eqn:En; [discriminate|]. intros [= <- ->].
    rewrite (lex_unsigned_app _ _ _ _ x E). now rewrite En.
  - destruct (lex_unsigned (d :: s)) as [[n r']|] eqn:E; [|discriminate].
    intros [= <- ->]. change (d :: s ++ x) with ((d :: s) ++ x).
    now rewrite (lex_unsigned_app _ _ _ _ x E).
Qed.

Definition is_num (j : json) : bool := match j with JNum _ => true | _ => false end.

Definition ext {A} (g : str -> option (A * str)) : Prop :=
  forall s v r x, g s = Some (v, r) -> g (s ++ x) = Some (v, r ++ x).
Definition extv (g : str -> option (json * str)) : Prop :=
  forall s v r x, g s = Some (v, r) -> (r <> [] \/ is_num v = false) ->
                  g (s ++ x) = Some (v, r ++ x).

Lemma pv_body_ext pe pm : ext pe -> ext pm -> extv (pv_body pe pm).
Proof.
  intros Hpe Hpm s v r0 x. unfold pv_body.
  destruct (skip_ws s) as [|c r] eqn:Es; [discriminate|].
  rewrite (skip_ws_app _ _ _ x Es).
  destruct (Ascii.eqb c "n").
  { destruct (expect_str (lit "ull") r) eqn:E; [|discriminate]. intros [= <- <-] _.
    now rewrite (expect_str_app _ _ _ x E). }
  destruct (Ascii.eqb c "t").
  { destruct (expect_str (lit "rue") r) eqn:E; [|discriminate]. intros [= <- <-] _.
    now rewrite (expect_str_app _ _ _ x E). }
  destruct (Ascii.eqb c "f").
  { destruct (expect_str (lit "alse") r) eqn:E; [|discriminate]. intros [= <- <-] _.
    now rewrite (expect_str_app _ _ _ x E). }
  destruct (Ascii.eqb c dq).
  { destruct (read_str r) as [[k r']|] eqn:E; [|discriminate]. intros [= <- <-] _.
    now rewrite (read_str_app _ _ _ x E). }
  destruct (Ascii.eqb c "[").
  { destruct (skip_ws r) as [|c2 r2] eqn:E2; [discriminate|].
    rewrite (skip_ws_app _ _ _ x E2).
    destruct (Ascii.eqb c2 "]"); [now intros [= <- <-] _|].
    destruct (pe r) as [[l r']|] eqn:E; [|discriminate]. intros [= <- <-] _.
    now rewrite (Hpe _ _ _ x E). }
  destruct (Ascii.eqb c "{").
  { destruct (skip_ws r) as [|c2 r2] eqn:E2; [discriminate|].
    rewrite (skip_ws_app _ _ _ x E2).
    destruct (Ascii.eqb c2 "}"); [now intros [= <- <-] _|].
    destruct (pm r) as [[m r']|] eqn:E; [|discriminate]. intros [= <- <-] _.
    now rewrite (Hpm _ _ _ x E). }
  destruct (lex_number (c :: r)) as [[z r']|] eqn:E; [|discriminate].
  intros [= <- <-] [Hr|Hn]; [|discriminate].
  destruct r' as [|c' r'']; [congruence|].
  change (c :: r ++ x) with ((c :: r) ++ x). now rewrite (lex_number_app _ _ _ _ x E).
Qed.

Lemma pe_body_ext pv pe : extv pv -> ext pe -> ext (pe_body pv pe).
Proof.
  intros Hpv Hpe s v0 r0 x. unfold pe_body.
  destruct (pv s) as [[v r]|] eqn:E; [|discriminate].
  destruct (skip_ws r) as [|c r1] eqn:Es; [discriminate|].
  assert (Hr : r <> []) by (intros ->; discriminate).
  rewrite (Hpv _ _ _ x E (or_introl Hr)). rewrite (skip_ws_app _ _ _ x Es).
  destruct (Ascii.eqb c ",").
  { destruct (pe r1) as [[l r2]|] eqn:E1; [|discriminate]. intros [= <- <-].
    now rewrite (Hpe _ _ _ x E1). }
  destruct (Ascii.eqb c "]"); [|discriminate]. now intros [= <- <-].
Qed.

Lemma pm_body_ext pv pm : extv pv -> ext pm -> ext (pm_body pv pm).
Proof.
  intros Hpv Hpm s v0 r0 x. unfold pm_body.
  destruct (skip_ws s) as [|c r] eqn:Es; [discriminate|].
  rewrite (skip_ws_app _ _ _ x Es).
  destruct (Ascii.eqb c dq); [|discriminate].
  destruct (read_str r) as [[k r1]|] eqn:Ek; [|discriminate].
  rewrite (read_str_app _ _ _ x Ek).
  destruct (skip_ws r1) as [|c1 r2] eqn:E1; [discriminate|].
  rewrite (skip_ws_app _ _ _ x E1).
  destruct (Ascii.eqb c1 ":"); [|discriminate].
  destruct (pv r2) as [[v r3]|] eqn:Ev; [|discriminate].
  destruct (skip_ws r3) as [|c3 r4] eqn:E3; [discriminate|].
  assert (Hr : r3 <> []) by (intros ->; discriminate).
  rewrite (Hpv _ _ _ x Ev (or_introl Hr)). rewrite (skip_ws_app _ _ _ x E3).
  destruct (Ascii.eqb c3 ",").
  { destruct (pm r4) as [[m r5]|] eqn:Em; [|discriminate]. intros [= <- <-].
    now rewrite (Hpm _ _ _ x Em). }
  destruct (Ascii.eqb c3 "}"); [|discriminate]. now intros [= <- <-].
Qed.

Lemma parse_ext f : extv (parse_value f) /\ ext (parse_elems f) /\ ext (parse_members f).
Proof.
  induction f as [|f (IHv & IHe & IHm)].
  - repeat split; intros s v r x; discriminate.
  - repeat split.
    + intros s v r x. rewrite !pv_S. now apply pv_body_ext.
    + intros s v r x. rewrite !pe_S. now apply pe_body_ext.
    + intros s v r x. rewrite !pm_S. now apply pm_body_ext.
Qed.

(* a number can only come out of a text that starts like one *)
Lemma parse_value_num_inv f s z r :
  parse_value f s = Some (JNum z, r) -> exists c s', skip_ws s = c :: s' /\ is_num_head c = true.
Proof.
  destruct f as [|f]; [discriminate|]. rewrite pv_S. unfold pv_body.
  destruct (skip_ws s) as [|c s']; [discriminate|].
  destruct (Ascii.eqb c "n"); [destruct (expect_str _ _); discriminate|].
  destruct (Ascii.eqb c "t"); [destruct (expect_str _ _); discriminate|].
  destruct (Ascii.eqb c "f"); [destruct (expect_str _ _); discriminate|].
  destruct (Ascii.eqb c dq); [destruct (read_str _) as [[? ?]|]; discriminate|].
  destruct (Ascii.eqb c "[").
  { destruct (skip_ws s') as [|c2 r2]; [discriminate|].
    destruct (Ascii.eqb c2 "]"); [discriminate|]. destruct (parse_elems f s') as [[? ?]|]; discriminate. }
  destruct (Ascii.eqb c "{").
  { destruct (skip_ws s') as [|c2 r2]; [discriminate|].
    destruct (Ascii.eqb c2 "}"); [discriminate|]. destruct (parse_members f s') as [[? ?]|]; discriminate. }
  intros E. exists c, s'. split; [reflexivity|].
  unfold is_num_head. destruct (dig c) eqn:Ed; [reflexivity|].
  destruct (Ascii.eqb c dash) eqn:Edash; [reflexivity|]. exfalso.
  unfold lex_number in E. rewrite Edash in E. unfold lex_unsigned in E.
  cbn [lex_digits] in E. rewrite Ed in E. discriminate.
Qed.

(* ------------------------------------------------------------------ *)
(* every proper prefix of a printed non-number value is rejected *)

Lemma print_json_head_nonnum j :
  is_num j = false -> exists c r, print_json j = c :: r /\ is_num_head c = false /\ is_ws c = false.
Proof.
  destruct j as [|[|]|z|s|l|m]; intros Hn; try discriminate.
  - eexists; eexists; repeat split; reflexivity.
  - eexists; eexists; repeat split; reflexivity.
  - eexists; eexists; repeat split; reflexivity.
  - eexists; eexists; repeat split; reflexivity.
  - rewrite print_json_arr. eexists; eexists; repeat split; reflexivity.
  - rewrite print_json_obj. eexists; eexists; repeat split; reflexivity.
Qed.

Theorem prefix_rejected j t u :
  plain_json j = true -> is_num j = false ->
  print_json j = t ++ u -> u <> [] -> parse_top t = None.
Proof.
  intros Hp Hn E Hu.
  destruct (parse_top t) as [j'|] eqn:Et; [exfalso|reflexivity].
  unfold parse_top in Et. destruct (parse_json t) as [[j1 r1]|] eqn:Ej; [|discriminate].
  clear Et. unfold parse_json in Ej.
  (* the same parse with the fuel of the whole text *)
  assert (Hf : (parse_fuel t <= parse_fuel (t ++ u))%nat).
  { unfold parse_fuel. rewrite app_length. lia. }
  apply (fuel_mono _ _ Hf) in Ej.
  (* t is not empty and starts like a non-number *)
  destruct (print_json_head_nonnum j Hn) as (c & r & Eh & Hc & Hw).
  assert (Hnot : is_num j1 = false).
  { destruct j1; try reflexivity. apply parse_value_num_inv in Ej as (c' & s' & Es & Hc').
    destruct t as [|c0 t'].
    - discriminate.
    - rewrite Eh in E. cbn [app] in E. injection E as <- _.
      rewrite (skip_ws_head _ _ Hw) in Es. injection Es as <- _. congruence. }
  pose proof (proj1 (parse_ext (parse_fuel (t ++ u))) _ _ _ u Ej (or_intror Hnot)) as Ex.
  pose proof (parse_json_print j [] Hp num_end_nil) as Ep.
  rewrite app_nil_r in Ep. unfold parse_json in Ep. rewrite E in Ep.
  rewrite Ep in Ex. injection Ex as _ Er.
  destruct r1; destruct u; try discriminate. congruence.
Qed.

(* ------------------------------------------------------------------ *)
(* everything to_json produces is plain *)

Lemma forallb_firstn {A} (f : A -> bool) n l : forallb f l = true -> forallb f (firstn n l) = true.
Proof.
  revert l; induction n as [|n IH]; intros [|a l]; cbn; try reflexivity.
  intros E. apply andb_prop in E as [-> E]. now rewrite IH.
Qed.
Lemma forallb_skipn {A} (f : A -> bool) n l : forallb f l = true -> forallb f (skipn n l) = true.
Proof.
  revert l; induction n as [|n IH]; intros [|a l]; cbn; try reflexivity; try (intros E; exact E).
  intros E. apply andb_prop in E as [_ E]. now apply IH.
Qed.

Lemma digit_of_plain al d : forallb plain_char al = true -> plain_char (digit_of al d) = true.
Proof.
  intros Hal. unfold digit_of. rewrite forallb_forall in Hal.
  destruct (nth_in_or_default (N.to_nat d) al "0"%char) as [Hin| ->]; [now apply Hal|reflexivity].
Qed.

Lemma hex_al_plain : forallb plain_char hex_al = true. Proof. vm_compute. reflexivity. Qed.

(* the id printers of Model/Ids.v emit plain characters only *)
Lemma hex_char_plain d : d < 16 -> plain_char (Ids.hex_char d) = true.
Proof.
  intros L. apply (TextPrims.below_forall (fun d => plain_char (Ids.hex_char d)) 16);
    [vm_compute; reflexivity|exact L].
Qed.
Lemma b32_char_plain d : d < 32 -> plain_char (Ids.b32_char d) = true.
Proof.
  intros L. apply (TextPrims.below_forall (fun d => plain_char (Ids.b32_char d)) 32);
    [vm_compute; reflexivity|exact L].
Qed.
Lemma digits_plain (f : N -> ascii) base k n :
  base <> 0 -> (forall d, d < base -> plain_char (f d) = true) ->
  forallb plain_char (map f (Ids.digits_be base k n)) = true.
Proof.
  intros Hb Hf. rewrite forallb_forall. intros x Hx. apply in_map_iff in Hx as [d [<- Hd]].
  apply Hf. pose proof (TextPrims.digits_be_bound base k n Hb) as F. rewrite Forall_forall in F.
  now apply F.
Qed.

Lemma print_uuid_plain n : plain_str (print_uuid n) = true.
Proof.
  unfold print_uuid, Ids.print_uuid, plain_str.
  pose proof (digits_plain Ids.hex_char 16 32 n ltac:(discriminate) hex_char_plain) as Hh.
  set (h := map Ids.hex_char (Ids.digits_be 16 32 n)) in *.
  repeat (rewrite forallb_app || cbn [forallb]).
  rewrite !forallb_firstn, !forallb_skipn by (try apply forallb_skipn; exact Hh).
  reflexivity.
Qed.
Lemma print_ulid_plain n : plain_str (print_ulid n) = true.
Proof. apply (digits_plain Ids.b32_char 32 26 n); [discriminate|exact b32_char_plain]. Qed.
Lemma print_oid_plain o : plain_str (print_oid o) = true.
Proof. destruct o; [apply print_uuid_plain|apply print_ulid_plain]. Qed.

Lemma to_json_oid_plain o : plain_json (to_json_oid o) = true.
Proof. apply print_oid_plain. Qed.
Lemma to_json_uuid_plain n : plain_json (to_json_uuid n) = true.
Proof. apply print_uuid_plain. Qed.
Lemma to_json_side_plain s : plain_json (to_json_side s) = true.
Proof. destruct s; vm_compute; reflexivity. Qed.
Lemma to_json_peg_plain p : plain_json (to_json_peg p) = true.
Proof. destruct p; vm_compute; reflexivity. Qed.
Lemma to_json_tif_plain t : plain_json (to_json_tif t) = true.
Proof. destruct t; vm_compute; reflexivity. Qed.


Ltac plain_keys :=
  repeat match goal with
         | |- context [plain_str (lit ?k)] => change (plain_str (lit k)) with true
         end.
Ltac plain_go :=
  cbn [jvariant jfield jtag jN common_fields_a common_fields_b extra app plain_json forallb fst snd map
       c_id c_price c_side c_ts c_tif];
  plain_keys;
  repeat first [ rewrite to_json_oid_plain | rewrite to_json_uuid_plain | rewrite to_json_side_plain
               | rewrite to_json_tif_plain | rewrite to_json_peg_plain ];
  cbn [andb]; try reflexivity.

Lemma to_json_order_plain o : plain_json (to_json_order o) = true.
Proof.
  destruct o as [c q|c v h|c q|c q tr lr|c q off pt|c q|c v h thr amt au]; destruct c as [id p sd ts tf];
    cbn [to_json_order]; plain_go.
  destruct amt; reflexivity.
Qed.

Lemma to_json_update_plain u : plain_json (to_json_update u) = true.
Proof. destruct u; cbn [to_json_update]; plain_go. Qed.

Lemma forallb_map_true {A B} (f : B -> bool) (g : A -> B) l :
  (forall a, f (g a) = true) -> forallb f (map g l) = true.
Proof. intros Hf. induction l as [|a l IH]; cbn; [reflexivity|]. now rewrite Hf, IH. Qed.

Lemma to_json_tx_plain t : plain_json (to_json_tx t) = true.
Proof.
  destruct t as [i tk mk p q s ts]; unfold to_json_tx.
  cbn [jt_id jt_taker jt_maker jt_price jt_qty jt_side jt_ts]. plain_go.
Qed.

Lemma to_json_txlist_plain l : plain_json (to_json_txlist l) = true.
Proof.
  unfold to_json_txlist.
  cbn [jfield plain_json forallb fst snd]. plain_keys.
  rewrite (forallb_map_true plain_json to_json_tx l to_json_tx_plain). reflexivity.
Qed.

Lemma to_json_result_plain r : plain_json (to_json_result r) = true.
Proof.
  destruct r as [k txs rem c f]; unfold to_json_result.
  cbn [jfield jN plain_json forallb fst snd jr_taker jr_txs jr_rem jr_complete jr_filled]. plain_keys.
  rewrite to_json_oid_plain.
  rewrite to_json_txlist_plain.
  rewrite (forallb_map_true plain_json to_json_oid f to_json_oid_plain). reflexivity.
Qed.

Lemma to_json_snapshot_plain s : plain_json (to_json_snapshot s) = true.
Proof.
  destruct s as [p v h c os]; unfold to_json_snapshot.
  cbn [jfield jN plain_json forallb fst snd sn_price sn_vis sn_hid sn_cnt sn_orders]. plain_keys.
  rewrite (forallb_map_true plain_json to_json_order _ to_json_order_plain). reflexivity.
Qed.

Lemma to_json_orders_plain os : plain_json (to_json_orders os) = true.
Proof. apply (forallb_map_true plain_json to_json_order _ to_json_order_plain). Qed.

Lemma to_json_stats_plain s : plain_json (to_json_stats s) = true.
Proof.
  destruct s as [a r e q v l f w]; unfold to_json_stats.
  cbn [js_added js_removed js_executed js_qty js_value js_last js_first js_wait]. plain_go.
Qed.

Lemma to_json_package_plain p : plain_json (to_json_package p) = plain_str (p_checksum p).
Proof.
  destruct p as [v s c]; unfold to_json_package.
  cbn [jfield jN plain_json forallb fst snd p_version p_snap p_checksum]. plain_keys.
  rewrite to_json_snapshot_plain.
  cbn [andb]. now rewrite Bool.andb_true_r.
Qed.

(* ------------------------------------------------------------------ *)
(* text level: from_str (to_string v) = Ok v *)

Lemma text_roundtrip {A} (enc : A -> json) (dec : json -> option A) v :
  plain_json (enc v) = true -> dec (enc v) = Some v ->
  match parse_top (print_json (enc v)) with Some j => dec j | None => None end = Some v.
Proof. intros Hp Hd. now rewrite (parse_top_print _ Hp). Qed.

Lemma order_text_roundtrip o : jwf_order o -> order_of_text (text_of_order o) = Some o.
Proof.
  intros Hw. apply (text_roundtrip to_json_order of_json_order);
    [apply to_json_order_plain | now apply of_to_json_order].
Qed.
Lemma snapshot_text_roundtrip s : wf_snapshot s -> snapshot_of_text (text_of_snapshot s) = Some s.
Proof.
  intros Hw. apply (text_roundtrip to_json_snapshot of_json_snapshot);
    [apply to_json_snapshot_plain | now apply of_to_json_snapshot].
Qed.
Lemma package_text_roundtrip p :
  wf_package p -> plain_str (p_checksum p) = true -> package_of_text (text_of_package p) = Some p.
Proof.
  intros Hw Hc. apply (text_roundtrip to_json_package of_json_package);
    [now rewrite to_json_package_plain | now apply of_to_json_package].
Qed.

(* the printed text determines the AST (plain values) *)
Lemma print_json_inj j1 j2 :
  plain_json j1 = true -> plain_json j2 = true -> print_json j1 = print_json j2 -> j1 = j2.
Proof.
  intros H1 H2 E. pose proof (parse_top_print _ H1) as P1. pose proof (parse_top_print _ H2) as P2.
  rewrite E in P1. congruence.
Qed.
